#!/bin/bash
# tools/try_rewrite.sh <patch.diff> <ID>...  — run the quick commands of the given properties against a scratch worktree with a
# behaviour-preserving rewrite applied, exactly as they would run on changed code (source-anchor escalation on). Any VIOLATION
# here is a false alarm to be analysed.
patch="$(realpath "$1")"; shift
for id in "$@"; do
  echo "== $id"; VERIF_NO_ESCALATE=0 /verif/tools/try_mutant.sh "$patch" "$id" quick 2>&1 | grep -v conda | tail -4
done
