#!/usr/bin/env python3
"""tools/confirm_mutant.py <out_dir/mK> <name>  — confirm a seeded change in a scratch worktree:
the patch applies, the pinned tests that pass on the unchanged tree still pass, the demonstration
fails with the change and passes without it.  On success copies it to /verif/seeded/<name>/."""
import json, os, shutil, subprocess, sys, xml.etree.ElementTree as ET

src, name = sys.argv[1], sys.argv[2]
WT = "/tmp/wt_confirm_%d" % os.getpid()
base = json.load(open("/root/.vp/BASELINE.json"))
stable = set(base["stable_pass"])

def sh(cmd, **kw):
    return subprocess.run(cmd, shell=True, stdout=subprocess.PIPE, stderr=subprocess.STDOUT, text=True, **kw)

sh("git -C /repo worktree add -q --detach %s HEAD" % WT)
try:
    env = dict(os.environ, PYTHONPATH=WT + ":" + os.path.join("/verif/harness/stubs"), PYTHONDONTWRITEBYTECODE="1", MPLBACKEND="Agg")
    def demo():
        return subprocess.run(["/venv/bin/python", os.path.join(src, "demo.py")], cwd=WT, env=env,
                              stdout=subprocess.PIPE, stderr=subprocess.STDOUT, text=True, timeout=900)
    d0 = demo()
    a = sh("git -C %s apply %s" % (WT, os.path.join(src, "patch.diff")))
    if a.returncode:
        print("patch does not apply:", a.stdout); sys.exit(1)
    junit = WT + "/junit.xml"
    env2 = dict(os.environ, PYTHONDONTWRITEBYTECODE="1", MPLBACKEND="Agg")
    t = subprocess.run("/venv/bin/python -m pytest -q -p no:cacheprovider --timeout=900 --continue-on-collection-errors --junitxml=%s" % junit,
                       shell=True, cwd=WT, env=env2, stdout=subprocess.PIPE, stderr=subprocess.STDOUT, text=True)
    passed = set()
    for tc in ET.parse(junit).getroot().iter("testcase"):
        if not any(ch.tag in ("failure", "error", "skipped") for ch in tc):
            passed.add(tc.get("classname") + "::" + tc.get("name"))
    missing = sorted(stable - passed)
    d1 = demo()
    ok = d0.returncode == 0 and d1.returncode != 0 and not missing
    print(name, "demo clean rc=%d, demo patched rc=%d, stable tests no longer passing: %s" % (d0.returncode, d1.returncode, missing))
    if ok:
        dst = os.path.join("/verif/seeded", name)
        os.makedirs(dst, exist_ok=True)
        shutil.copy(os.path.join(src, "patch.diff"), dst)
        shutil.copy(os.path.join(src, "demo.py"), dst)
        meta = json.load(open(os.path.join(src, "meta.json"))) if os.path.exists(os.path.join(src, "meta.json")) else {}
        meta["confirmed"] = {"demo_unchanged_rc": d0.returncode, "demo_patched_rc": d1.returncode,
                             "pinned_tests_still_passing": len(stable & passed), "pinned_tests": len(stable),
                             "ran": "git worktree of /repo HEAD; demo.py before/after git apply patch.diff; pytest with the BASELINE command, the 54 stable tests compared by name",
                             "demo_patched_output_tail": d1.stdout[-400:]}
        json.dump(meta, open(os.path.join(dst, "meta.json"), "w"), indent=1)
    sys.exit(0 if ok else 1)
finally:
    sh("git -C /repo worktree remove --force %s" % WT)
