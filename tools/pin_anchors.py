#!/usr/bin/env python3
"""tools/pin_anchors.py — record the fingerprints of /repo/pyqsp modules the models are validated against (run after a
full pass on the tree at hand, e.g. after a fix: commit)."""
import json, os, subprocess, sys
sys.path.insert(0, os.path.join(os.path.dirname(os.path.abspath(__file__)), "..", "harness"))
import anchors
repo = os.environ.get("VERIF_REPO", "/repo")
files = {rel: anchors.fingerprint(p) for rel, p in sorted(anchors.modules(repo).items())}
commit = subprocess.run(["git", "-C", repo, "rev-parse", "HEAD"], stdout=subprocess.PIPE, text=True).stdout.strip()
json.dump({"repo_commit": commit, "files": files}, open(anchors.PIN, "w"), indent=1)
print("pinned", len(files), "modules at", commit[:10])
