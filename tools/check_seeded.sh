#!/bin/bash
# tools/check_seeded.sh — mutation self-test: every seeded change must be caught by the quick tier of its property's check
# (source-anchor escalation off, so that the quick generators are what is measured); 4 at a time
cd "$(dirname "$0")/.."
mkdir -p out
res=out/seeded_selftest.txt
ls seeded | xargs -P 4 -I{} bash -c 'n={}; id=${n%%-*}; echo "$n $(tools/try_mutant.sh seeded/$n/patch.diff $id 2>&1 | tail -1)"' | sort > $res
cat $res
echo "missed:"; grep -v "rc=1" $res
