#!/bin/bash
# tools/check_seeded.sh — mutation self-test: every seeded change must be caught by the quick tier of its property's check
cd "$(dirname "$0")/.."
mkdir -p out
res=out/seeded_selftest.txt; : > $res
for d in seeded/*/; do
  n=$(basename $d); id=${n%%-*}
  out=$(tools/try_mutant.sh $d/patch.diff $id 2>&1 | tail -1)
  echo "$n $out" | tee -a $res
done
echo "missed:"; grep -v "rc=1" $res
