#!/usr/bin/env python3
"""tools/mutant_prompts.py <round> <ID>... — write the prompt given to a fresh sub-agent that seeds two
changes breaking property <ID> (only the property text and a scratch worktree; nothing from /verif).
Creates /tmp/wt<round>_<ID> (detached worktree of /repo HEAD) and /tmp/out<round>_<ID>/prompt.txt."""
import json, os, subprocess, sys

ROUND2 = ("This is a LATER round: earlier rounds already produced the obvious candidates (a sign slip or an off-by-one at the most visible "
          "site, a weakened threshold, a cache keyed too coarsely, an argument mutated in place). Look for something ELSE: a different code "
          "site, a different mechanism, or a rarer trigger - e.g. a branch only reached for a particular parity AND length, an interaction "
          "between two functions, a helper whose misbehaviour only matters for a special representation (zero polynomial, single-term "
          "element, trailing zeros, dtype int vs float vs complex, Python list vs ndarray input), state carried across calls, or an option "
          "combination.\n\n")


def prompt(pid, d, wt, out, later, prev=''):
    return f"""You are helping test a verification harness by seeding a realistic defect into a Python library (mutation testing for research purposes).

The library is ichuang/pyqsp (quantum signal processing phase angles). You have your own scratch git worktree of it at {wt} (a detached checkout). Work ONLY inside {wt} and write your outputs to {out}/. Do NOT read, list or modify anything under /repo or /verif, and do not run git commands against /repo other than `git -C {wt} diff`. There is no network.

How to run things: use `/venv/bin/python` with the worktree as the import root, e.g. `cd {wt} && PYTHONPATH={wt} /venv/bin/python script.py` (check with `python -c "import pyqsp; print(pyqsp.__file__)"` that the worktree copy is the one imported). The existing test suite is run with:
  cd {wt} && PYTHONPATH={wt} /venv/bin/python -m pytest -q -p no:cacheprovider --timeout=900 pyqsp/test
On the unchanged tree exactly two tests fail (test_completion_p_2 and test_main - they fail in this environment for unrelated reasons) and 54 pass. Note: `pyqsp.main` imports `pkg_resources`, which is missing here; if you need to run the command line, put a stub module `pkg_resources.py` (with `def resource_filename(*a): return ""` and `def get_distribution(name): return type("D",(),{{"version":"0"}})()`) on PYTHONPATH in your out directory.

Here is a semantic property of the library that is supposed to hold:

ID: {pid}
Title: {d['title']}
Statement: {d['statement']}
Quantifier: {d['quantifier']['text']}
Why the existing tests cannot settle it: {d['why_tests_cant']}
Relevant files: {', '.join(d['anchors']['files'])}
Mechanisms: {json.dumps(d['anchors'].get('mechanism', []))}

{ROUND2 if later else ''}{prev}Your task: produce TWO different, independent source changes to the library (each a separate small patch against the unchanged worktree) that each BREAK this property while the code still imports/compiles and the existing test suite still gives the same result as before (the same 54 tests pass). Prefer changes that look like plausible developer mistakes or 'optimisations' (off-by-one in an index or window, a sign or inversion slip in one branch, a parity-dependent branch, a threshold changed, a check weakened or bypassed, a scale factor forgotten in one option path, an aliasing/mutation of an argument, a budget term altered, etc.). IMPORTANT: ask for changes that need something specific to manifest - an unusual input, a particular degree/parity/length, a particular value of a random choice, a specific option combination, a multi-step sequence of operations, or two cooperating sites that each look fine alone - NOT ones that ordinary use or any quick smoke test would expose at once. Make the two mutants different in kind (different mechanism / different code site).

For each mutant k in {{1,2}} write:
  {out}/m{{k}}/patch.diff   - unified diff (`git -C {wt} diff` output) against the unchanged tree; must apply with `git apply` at the repo root
  {out}/m{{k}}/demo.py      - a small self-contained program (run as `PYTHONPATH=<tree> /venv/bin/python demo.py`) that exits 0 on the unchanged tree and exits non-zero (with a short message) on the tree with the patch applied, demonstrating the property violation on a concrete input
  {out}/m{{k}}/meta.json    - {{"property": "{pid}", "summary": "...what was changed...", "needs": "...what is needed for it to manifest...", "files": [...]}}

Procedure: read the relevant source; design the change; apply it in the worktree; run the test suite (must still be 54 passed / 2 failed with the same two failures); run your demo against the patched tree (must fail) ; save the diff; then `git -C {wt} checkout -- .` to restore, run the demo on the clean tree (must pass), and go on to the second mutant. Leave the worktree clean (no applied patch) at the end. Keep demos fast (under ~60 s). In your final answer give a 5-line summary of each mutant."""


def main():
    rnd = sys.argv[1]
    props = {}
    for l in open(os.path.join(os.path.dirname(__file__), "..", "properties.jsonl")):
        d = json.loads(l)
        props[d["id"]] = d
    for pid in sys.argv[2:]:
        wt, out = f"/tmp/wt{rnd}_{pid}", f"/tmp/out{rnd}_{pid}"
        if not os.path.exists(wt):
            subprocess.check_call(["git", "-C", "/repo", "worktree", "add", "-q", "--detach", wt, "HEAD"])
        os.makedirs(out, exist_ok=True)
        prev = ""
        if os.environ.get("PREV_MUTANTS") and os.path.exists(os.environ["PREV_MUTANTS"]):
            lst = json.load(open(os.environ["PREV_MUTANTS"])).get(pid, [])
            if lst:
                prev = "Changes already tried in earlier rounds (do NOT repeat these or close variants of them):\n" + "\n".join("  - " + x for x in lst) + "\n\n"
        open(os.path.join(out, "prompt.txt"), "w").write(prompt(pid, props[pid], wt, out, rnd not in ("", "1"), prev))
        print(out + "/prompt.txt")


if __name__ == "__main__":
    main()
