#!/bin/bash
# tools/coqchk_all.sh — re-check every compiled library of the development (and everything it depends on) with
# the independent checker and print the axioms they rely on. Output: /verif/out/coqchk.txt (about 2 minutes).
cd /verif/coq || exit 2
mods=$(grep -E '^(Base|Model|Theory)/.*\.v$' _CoqProject | sed 's/\.v$//; s#/#.#g; s/^/PyqspV./')
mkdir -p /verif/out
timeout 3600 coqchk -silent -o -Q . PyqspV $mods > /verif/out/coqchk.txt 2>&1
rc=$?
grep -v '^ *$' /verif/out/coqchk.txt
exit $rc
