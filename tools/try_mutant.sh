#!/bin/bash
# tools/try_mutant.sh <patch.diff> <ID> [tier]  — run one check against a scratch worktree of /repo with a
# seeded change applied (VERIF_REPO), evidence and replays redirected to a scratch directory; /repo and
# /verif/evidence are not touched.  The source-anchor escalation (quick -> thorough generators on changed code) is switched
# off here unless VERIF_NO_ESCALATE=0 is given, so that the result says what the requested tier catches by itself.
set -u
patch="$(realpath "$1")"; id="$2"; tier="${3:-quick}"
root="$(cd "$(dirname "$0")/.." && pwd)"
wt="/tmp/wt_try_$$"; sc="/tmp/try_out_$$"
git -C /repo worktree add -q --detach "$wt" HEAD || exit 2
mkdir -p "$sc"
if ! git -C "$wt" apply "$patch"; then echo "patch does not apply"; git -C /repo worktree remove --force "$wt"; rm -rf "$sc"; exit 2; fi
cd "$root"
VERIF_NO_ESCALATE="${VERIF_NO_ESCALATE:-1}" VERIF_REPO="$wt" VERIF_EVID_DIR="$sc" VERIF_OUT_DIR="$sc" ./check "$id" --tier "$tier" 2>&1 | grep -E "VIOLATION|KNOWN-FINDING|site=|broken|^\[$id\]" | head -12
rc=${PIPESTATUS[0]}
git -C /repo worktree remove --force "$wt"; rm -rf "$sc"
echo "rc=$rc"
