#!/bin/bash
# tools/try_mutant.sh <patch.diff> <ID> [tier]  — apply a seeded change to /repo, run one check, undo.
set -u
patch="$1"; id="$2"; tier="${3:-quick}"
cd /repo || exit 2
if ! git diff --quiet; then echo "/repo has local changes; refusing"; exit 2; fi
git apply "$patch" || { echo "patch does not apply"; exit 2; }
cd /verif
./check "$id" --tier "$tier" 2>&1 | grep -E "VIOLATION|KNOWN-FINDING|site=|broken|^\[$id\]" | head -12
rc=${PIPESTATUS[0]}
git -C /repo checkout -- .
echo "rc=$rc"
