#!/bin/bash
# tools/run_all.sh [quick|thorough] — run every registered check on /repo's working tree, print one line each
tier="${1:-quick}"
cd "$(dirname "$0")/.."
if ! git -C /repo diff --quiet; then echo "WARNING: /repo has local changes"; fi
rc=0
for p in C01 C02 C03 C04 C05 C06 C07 C08 C09 C10 C11 C12 C13 C14 C15 C16 C17 C18 C19 C20; do
  out=$(./check $p --tier "$tier" 2>&1)
  r=$?
  echo "$out" | grep -E "VIOLATION|KNOWN-FINDING|^\[$p\]" | cut -c1-220
  [ $r -ne 0 ] && rc=1
done
exit $rc
