#!/usr/bin/env python3
"""tools/rewrite_prompts.py <tag> <module files, comma separated> <property ids, comma separated> — prompt for a fresh sub-agent that
writes two behaviour-PRESERVING rewrites of the given modules (to test that the checks raise no alarm on code where the
properties hold).  Creates /tmp/wtH_<tag> and /tmp/outH_<tag>/prompt.txt."""
import json, os, subprocess, sys

tag, files, pids = sys.argv[1], sys.argv[2].split(","), sys.argv[3].split(",")
props = {}
for l in open(os.path.join(os.path.dirname(__file__), "..", "properties.jsonl")):
    d = json.loads(l)
    props[d["id"]] = d
wt, out = f"/tmp/wtH_{tag}", f"/tmp/outH_{tag}"
if not os.path.exists(wt):
    subprocess.check_call(["git", "-C", "/repo", "worktree", "add", "-q", "--detach", wt, "HEAD"])
os.makedirs(out, exist_ok=True)
ptxt = "\n\n".join(f"ID: {p}\nTitle: {props[p]['title']}\nStatement: {props[p]['statement']}\nQuantifier: {props[p]['quantifier']['text']}" for p in pids)
txt = f"""You are helping test a verification harness for false alarms: it must stay silent on code changes that keep the library correct.

The library is ichuang/pyqsp (quantum signal processing phase angles). You have your own scratch git worktree of it at {wt} (a detached checkout). Work ONLY inside {wt} and write your outputs to {out}/. Do NOT read, list or modify anything under /repo or /verif, and do not run git commands against /repo other than `git -C {wt} diff`. There is no network.

How to run things: use `/venv/bin/python` with the worktree as the import root, e.g. `cd {wt} && PYTHONPATH={wt} /venv/bin/python script.py` (check with `python -c "import pyqsp; print(pyqsp.__file__)"` that the worktree copy is the one imported). The existing test suite is run with:
  cd {wt} && PYTHONPATH={wt} /venv/bin/python -m pytest -q -p no:cacheprovider --timeout=900 pyqsp/test
On the unchanged tree test_completion_p_2 and test_main fail in this environment for unrelated reasons (with sub-tests counted the summary reads 13 failed, 55 passed); everything else passes. `pyqsp.main` imports `pkg_resources`, which is missing here; if you need the command line, put a stub module `pkg_resources.py` (with `def resource_filename(*a): return ""` and `def get_distribution(name): return type("D",(),{{"version":"0"}})()`) on PYTHONPATH in your out directory.

Modules to rewrite: {', '.join(files)}

These semantic properties of the library hold on the unchanged tree and MUST STILL HOLD after your change:

{ptxt}

Your task: produce TWO different, independent, behaviour-PRESERVING rewrites (each a separate patch against the unchanged worktree) of code in the modules above - the kind of refactoring or optimisation a maintainer would merge: restructure a loop, vectorise, replace one numpy/scipy routine by an equivalent one (np.convolve <-> np.polymul <-> FFT product, np.roots <-> companion eigenvalues, lstsq <-> solve via QR, explicit matrix products <-> einsum, recurrences <-> closed forms), reorder independent statements, hoist or correctly cache a pure computation, change an internal data representation, split or merge helper functions, rename locals, simplify expressions algebraically, switch between list and ndarray internally, tidy option handling without changing defaults. Each rewrite should be substantial (touch at least ~15 lines or change the numerical route of at least one computation) - not a comment or whitespace change. It is fine, even desirable, if results change at floating-point rounding level (relative 1e-13 or so) as long as every property above still holds, the same kinds of inputs are accepted and rejected with the same exception classes, and the public API (names, signatures, defaults, return types and shapes, printed output used by the command line) is unchanged. The existing test suite must give the same result as before.

For each rewrite k in {{1,2}} write:
  {out}/h{{k}}/patch.diff   - unified diff (`git -C {wt} diff` output) against the unchanged tree; must apply with `git apply` at the repo root
  {out}/h{{k}}/demo.py      - a self-contained program (run as `PYTHONPATH=<tree> /venv/bin/python demo.py`) that exercises the rewritten code on a spread of inputs (ordinary, edge: zero / single-term / complex / integer-typed / large degree, and invalid inputs that must raise) and prints a short digest; run it on both trees and confirm the digests agree up to rounding
  {out}/h{{k}}/meta.json    - {{"modules": [...], "summary": "...what was rewritten and why it is equivalent...", "numerical_effect": "...bit-identical / rounding-level differences where...", "files": [...]}}

Procedure: read the source; design the rewrite; apply it in the worktree; run the test suite (same result as the unchanged tree); run your demo on the patched tree and on the clean tree and compare; save the diff; `git -C {wt} checkout -- .` to restore; go on to the second rewrite. Leave the worktree clean at the end. In your final answer give a 5-line summary of each rewrite and state plainly any behaviour difference you are aware of."""
open(os.path.join(out, "prompt.txt"), "w").write(txt)
print(out + "/prompt.txt")
