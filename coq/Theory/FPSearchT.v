(* Theory/FPSearchT.v — fixed-point search: layout theorems for every d and every alpha. *)
From Coq Require Import ZArith List Bool Lia.
From PyqspV Require Import Base.Ops Model.ResponseM Model.FPSearchM.
Import ListNotations.

Section FPT.
  Context {D : Type}.
  Variable neghalf : D -> D.

  Lemma interleave_length (a b : list D) : length a = length b -> length (interleave a b) = (2 * length a)%nat.
  Proof.
    revert b; induction a as [|x a IH]; intros [|y b] H; cbn [interleave length] in *; try lia.
    rewrite IH by lia. lia.
  Qed.

  Lemma interleave_app (a a' b b' : list D) : length a = length b ->
    interleave (a ++ a') (b ++ b') = interleave a b ++ interleave a' b'.
  Proof.
    revert b; induction a as [|x a IH]; intros [|y b] H; cbn [interleave app length] in *; try lia; try reflexivity.
    rewrite IH by lia. reflexivity.
  Qed.

  Lemma rev_interleave (a b : list D) : length a = length b ->
    rev (interleave a b) = interleave (rev b) (rev a).
  Proof.
    revert b; induction a as [|x a IH]; intros [|y b] H; cbn [interleave rev length] in *; try lia; [reflexivity|].
    rewrite IH by lia. rewrite interleave_app by (rewrite !rev_length; lia).
    cbn [interleave app]. rewrite <- app_assoc. reflexivity.
  Qed.

  Theorem fps_length alpha : length (fps_phivec neghalf alpha) = (2 * length alpha)%nat.
  Proof.
    unfold fps_phivec. rewrite interleave_length; rewrite !map_length, ?rev_length; reflexivity.
  Qed.

  (* the 2d phases are palindromic, for every d and every alpha *)
  Theorem fps_palindrome alpha : rev (fps_phivec neghalf alpha) = fps_phivec neghalf alpha.
  Proof.
    unfold fps_phivec. rewrite rev_interleave by (rewrite !map_length, rev_length; reflexivity).
    rewrite <- !map_rev, rev_involutive. reflexivity.
  Qed.

  (* entry formulas *)
  Theorem fps_entries alpha k d0 : (k < length alpha)%nat ->
    nth (2 * k) (fps_phivec neghalf alpha) d0 = neghalf (nth (length alpha - 1 - k) alpha d0) /\
    nth (2 * k + 1) (fps_phivec neghalf alpha) d0 = neghalf (nth k alpha d0).
  Proof.
    unfold fps_phivec. intros Hk.
    assert (G : forall (a b : list D) k, length a = length b -> (k < length a)%nat ->
              nth (2 * k) (interleave a b) d0 = nth k a d0 /\ nth (2 * k + 1) (interleave a b) d0 = nth k b d0).
    { clear. induction a as [|x a IH]; intros [|y b] k H Hk; cbn [length] in *; try lia.
      destruct k as [|k]; [split; reflexivity|].
      replace (2 * S k)%nat with (S (S (2 * k))) by lia. replace (S (S (2 * k)) + 1)%nat with (S (S (2 * k + 1))) by lia.
      cbn [interleave nth]. apply IH; lia. }
    destruct (G (map neghalf (rev alpha)) (map neghalf alpha) k) as [E1 E2];
      [rewrite !map_length, rev_length; reflexivity | rewrite map_length, rev_length; exact Hk|].
    split.
    - rewrite E1. rewrite (nth_indep _ d0 (neghalf d0)) by (rewrite map_length, rev_length; exact Hk).
      rewrite map_nth. rewrite rev_nth by exact Hk. f_equal. f_equal. lia.
    - rewrite E2. rewrite (nth_indep _ d0 (neghalf d0)) by (rewrite map_length; exact Hk). rewrite map_nth. reflexivity.
  Qed.

  (* passing gamma directly is the same computation as passing the delta that produces it *)
  Theorem fps_gamma_delta (gamma_of_delta : nat -> D -> D) (alpha_of_gamma : nat -> D -> list D) (dflt : D) d delta :
    fps_generate neghalf gamma_of_delta alpha_of_gamma dflt d (Some delta) None =
    fps_generate neghalf gamma_of_delta alpha_of_gamma dflt d None (Some (gamma_of_delta (2 * d + 1)%nat delta)).
  Proof. reflexivity. Qed.

  Theorem fps_gamma_wins (gamma_of_delta : nat -> D -> D) (alpha_of_gamma : nat -> D -> list D) (dflt : D) d delta g :
    fps_generate neghalf gamma_of_delta alpha_of_gamma dflt d delta (Some g) =
    fps_generate neghalf gamma_of_delta alpha_of_gamma dflt d None (Some g).
  Proof. reflexivity. Qed.
End FPT.
