(* Theory/TrigT.v — soundness of the cos/sin enclosures of Base/TrigZ.v. *)
From Coq Require Import ZArith QArith Qabs Qreals Reals Lra Lia Rtrigo_alt.
From PyqspV Require Import Base.Ops Base.IntervalZ Base.TrigZ Theory.IntervalT.
Open Scope R_scope.

Lemma pow_m1_even n : Nat.even n = true -> (-1) ^ n = 1.
Proof. intros H. apply Nat.even_spec in H. destruct H as [k ->]. apply pow_1_even. Qed.
Lemma pow_m1_odd n : Nat.even n = false -> (-1) ^ n = -1.
Proof.
  intros H. assert (O : Nat.odd n = true) by (rewrite <- Nat.negb_even, H; reflexivity).
  apply Nat.odd_spec in O. destruct O as [k ->].
  replace (2 * k + 1)%nat with (S (2 * k)) by lia. apply pow_1_odd.
Qed.

Definition cterm (x : R) (i : nat) : R := x ^ (2 * i) / INR (fact (2 * i)).
Definition sterm (x : R) (i : nat) : R := x ^ (2 * i + 1) / INR (fact (2 * i + 1)).

Lemma cterm_S x j : cterm x (S j) = cterm x j * (x * x) / IZR (Z.of_nat ((2 * S j - 1) * (2 * S j))).
Proof.
  unfold cterm.
  replace (2 * S j)%nat with (S (S (2 * j))) by lia.
  replace (S (S (2 * j)) - 1)%nat with (S (2 * j)) by lia.
  rewrite <- INR_IZR_INZ, mult_INR, !fact_simpl, !mult_INR. cbn [pow].
  assert (INR (fact (2 * j)) <> 0) by apply INR_fact_neq_0.
  assert (INR (S (2 * j)) <> 0) by (apply not_0_INR; lia).
  assert (INR (S (S (2 * j))) <> 0) by (apply not_0_INR; lia).
  field. repeat split; assumption.
Qed.

Lemma sterm_S x j : sterm x (S j) = sterm x j * (x * x) / IZR (Z.of_nat ((2 * S j) * (2 * S j + 1))).
Proof.
  unfold sterm.
  replace (2 * S j + 1)%nat with (S (S (2 * j + 1))) by lia.
  replace (2 * S j)%nat with (S (2 * j + 1)) by lia.
  rewrite <- INR_IZR_INZ, mult_INR, !fact_simpl, !mult_INR. cbn [pow].
  assert (INR (fact (2 * j + 1)) <> 0) by apply INR_fact_neq_0.
  assert (INR (S (2 * j + 1)) <> 0) by (apply not_0_INR; lia).
  assert (INR (S (S (2 * j + 1))) <> 0) by (apply not_0_INR; lia).
  field. repeat split; assumption.
Qed.

Lemma cos_approx_S x m : cos_approx x (S m) = cos_approx x m + (-1) ^ S m * cterm x (S m).
Proof. unfold cos_approx. cbn [sum_f_R0]. reflexivity. Qed.
Lemma sin_approx_S x m : sin_approx x (S m) = sin_approx x m + (-1) ^ S m * sterm x (S m).
Proof. unfold sin_approx. cbn [sum_f_R0]. reflexivity. Qed.

Lemma cos_acc_ok b2 x : inI b2 (x * x) -> forall fuel i t s,
  inI t (cterm x i) -> inI s (cos_approx x i) -> inI (cos_acc b2 fuel i t s) (cos_approx x (i + fuel)).
Proof.
  intros Hb. induction fuel as [|f IH]; intros i t s Ht Hs; cbn [cos_acc].
  - rewrite Nat.add_0_r. exact Hs.
  - replace (i + S f)%nat with (S i + f)%nat by lia.
    assert (Ht' : inI (idivZ (imul t b2) (Z.of_nat ((2 * S i - 1) * (2 * S i)))) (cterm x (S i))).
    { rewrite cterm_S. apply idivZ_ok; [lia|]. apply imul_ok; assumption. }
    apply IH; [exact Ht'|].
    rewrite cos_approx_S.
    destruct (Nat.even (S i)) eqn:E.
    + rewrite (pow_m1_even _ E), Rmult_1_l. apply iadd_ok; assumption.
    + rewrite (pow_m1_odd _ E).
      replace (cos_approx x i + -1 * cterm x (S i)) with (cos_approx x i - cterm x (S i)) by ring.
      apply isub_ok; assumption.
Qed.

Lemma scos_ok b2 x n : inI b2 (x * x) -> inI (scos b2 n) (cos_approx x n).
Proof.
  intros Hb. unfold scos. change n with (0 + n)%nat at 2. apply cos_acc_ok; [exact Hb | |].
  - unfold cterm. cbn. replace (1 / 1) with 1 by field. apply ione_ok.
  - unfold cos_approx, cos_term. cbn. replace (1 * (1 / 1)) with 1 by field. apply ione_ok.
Qed.

Lemma sin_acc_ok b2 x : inI b2 (x * x) -> forall fuel i t s,
  inI t (sterm x i) -> inI s (sin_approx x i) -> inI (sin_acc b2 fuel i t s) (sin_approx x (i + fuel)).
Proof.
  intros Hb. induction fuel as [|f IH]; intros i t s Ht Hs; cbn [sin_acc].
  - rewrite Nat.add_0_r. exact Hs.
  - replace (i + S f)%nat with (S i + f)%nat by lia.
    assert (Ht' : inI (idivZ (imul t b2) (Z.of_nat ((2 * S i) * (2 * S i + 1)))) (sterm x (S i))).
    { rewrite sterm_S. apply idivZ_ok; [lia|]. apply imul_ok; assumption. }
    apply IH; [exact Ht'|].
    rewrite sin_approx_S.
    destruct (Nat.even (S i)) eqn:E.
    + rewrite (pow_m1_even _ E), Rmult_1_l. apply iadd_ok; assumption.
    + rewrite (pow_m1_odd _ E).
      replace (sin_approx x i + -1 * sterm x (S i)) with (sin_approx x i - sterm x (S i)) by ring.
      apply isub_ok; assumption.
Qed.

Lemma ssin_ok b b2 x n : inI b x -> inI b2 (x * x) -> inI (ssin b b2 n) (sin_approx x n).
Proof.
  intros Hx Hb. unfold ssin. change n with (0 + n)%nat at 2. apply sin_acc_ok; [exact Hb | |].
  - unfold sterm. cbn. replace (x * 1 / 1) with x by field. exact Hx.
  - unfold sin_approx, sin_term. cbn. replace (1 * (x * 1 / 1)) with x by field. exact Hx.
Qed.

Definition cs_ok (cs : I * I) (x : R) : Prop := inI (fst cs) (cos x) /\ inI (snd cs) (sin x).

Lemma Qabs_Q2R q : Q2R (Qabs q) = Rabs (Q2R q).
Proof.
  destruct (Qlt_le_dec q 0) as [H|H].
  - rewrite Qabs_neg by (apply Qlt_le_weak; exact H).
    apply Qlt_Rlt in H. rewrite Q2R_opp. rewrite Rabs_left; [reflexivity|].
    replace (Q2R 0) with 0 in H by (unfold Q2R; cbn; lra). exact H.
  - rewrite Qabs_pos by exact H. apply Qle_Rle in H.
    replace (Q2R 0) with 0 in H by (unfold Q2R; cbn; lra). rewrite Rabs_pos_eq; [reflexivity | exact H].
Qed.

Lemma Q2R_0 : Q2R 0 = 0.
Proof. unfold Q2R; cbn; lra. Qed.
Lemma Q2R_1 : Q2R 1 = 1.
Proof. unfold Q2R; cbn; lra. Qed.

Lemma encl_from_bounds (i1 i2 : I) (a1 a2 v : R) :
  inI i1 a1 -> inI i2 a2 -> a1 <= v <= a2 -> inI (mkI (lo i1) (hi i2)) v.
Proof.
  unfold inI. intros [L1 _] [_ U2] [A B]. pose proof sc_pos as Hs. cbn [lo hi]. split.
  - apply Rle_trans with (a1 * sc); [exact L1|]. apply Rmult_le_compat_r; lra.
  - apply Rle_trans with (a2 * sc); [|exact U2]. apply Rmult_le_compat_r; lra.
Qed.

Lemma cs_small_ok a : Qle_bool (Qabs a) 1 = true -> cs_ok (cs_small a) (Q2R a).
Proof.
  intros H. apply Qle_bool_iff in H. apply Qle_Rle in H. rewrite Qabs_Q2R, Q2R_1 in H.
  set (y := Rabs (Q2R a)) in *.
  assert (Hy0 : 0 <= y) by apply Rabs_pos.
  pose proof (iofQ_ok (Qabs a)) as Hb. rewrite Qabs_Q2R in Hb. fold y in Hb.
  pose proof (imul_ok _ _ _ _ Hb Hb) as Hb2.
  unfold cs_small. cbv zeta.
  set (b := iofQ (Qabs a)) in *. set (b2 := imul b b) in *.
  assert (Hc : inI (mkI (lo (scos b2 (2 * NT + 1))) (hi (scos b2 (2 * (NT + 1))))) (cos y)).
  { apply (encl_from_bounds _ _ _ _ _ (scos_ok b2 y (2 * NT + 1) Hb2) (scos_ok b2 y (2 * (NT + 1)) Hb2)).
    apply pre_cos_bound; lra. }
  assert (Hs : inI (mkI (lo (ssin b b2 (2 * NT + 1))) (hi (ssin b b2 (2 * (NT + 1))))) (sin y)).
  { apply (encl_from_bounds _ _ _ _ _ (ssin_ok b b2 y (2 * NT + 1) Hb Hb2) (ssin_ok b b2 y (2 * (NT + 1)) Hb Hb2)).
    apply pre_sin_bound; lra. }
  unfold cs_ok. cbn [fst snd].
  destruct (Qle_bool 0 a) eqn:E.
  - apply Qle_bool_iff in E. apply Qle_Rle in E. rewrite Q2R_0 in E.
    assert (Ey : y = Q2R a) by (unfold y; apply Rabs_pos_eq; exact E).
    rewrite <- Ey. split; assumption.
  - assert (Hneg : Q2R a < 0).
    { destruct (Qlt_le_dec a 0) as [Hl|Hl].
      - apply Qlt_Rlt in Hl. rewrite Q2R_0 in Hl. exact Hl.
      - apply Qle_bool_iff in Hl. congruence. }
    assert (Ey : y = - Q2R a) by (unfold y; apply Rabs_left; exact Hneg).
    replace (Q2R a) with (- y) by lra. rewrite cos_neg, sin_neg. split; [exact Hc | apply ineg_ok; exact Hs].
Qed.

Lemma idouble_cs_ok cs x : cs_ok cs x -> cs_ok (idouble_cs cs) (2 * x).
Proof.
  intros [Hc Hs]. unfold idouble_cs, cs_ok. cbn [fst snd]. split.
  - rewrite cos_2a_cos.
    replace (2 * cos x * cos x - 1) with (cos x * cos x + cos x * cos x - 1) by ring.
    apply isub_ok; [|apply ione_ok]. apply iadd_ok; apply imul_ok; assumption.
  - rewrite sin_2a.
    replace (2 * sin x * cos x) with (sin x * cos x + sin x * cos x) by ring.
    apply iadd_ok; apply imul_ok; assumption.
Qed.

Lemma itriv_cos x : inI itriv (cos x).
Proof.
  unfold inI, itriv; cbn [lo hi]. rewrite opp_IZR. fold sc. pose proof (COS_bound x). pose proof sc_pos. nra.
Qed.
Lemma itriv_sin x : inI itriv (sin x).
Proof.
  unfold inI, itriv; cbn [lo hi]. rewrite opp_IZR. fold sc. pose proof (SIN_bound x). pose proof sc_pos. nra.
Qed.

Lemma qhalf_ok a : Q2R (qhalf a) = Q2R a / 2.
Proof.
  unfold qhalf, Q2R. cbn [Qnum Qden]. rewrite Pos2Z.inj_mul, mult_IZR.
  assert (IZR (Z.pos (Qden a)) <> 0) by (apply not_0_IZR; lia).
  field. assumption.
Qed.

Lemma cs_rec_ok fuel : forall a, cs_ok (cs_rec fuel a) (Q2R a).
Proof.
  induction fuel as [|f IH]; intros a; cbn [cs_rec].
  - destruct (Qle_bool (Qabs a) 1) eqn:E; [apply cs_small_ok; exact E|].
    split; [apply itriv_cos | apply itriv_sin].
  - destruct (Qle_bool (Qabs a) 1) eqn:E; [apply cs_small_ok; exact E|].
    replace (Q2R a) with (2 * Q2R (qhalf a)) by (rewrite qhalf_ok; field).
    apply idouble_cs_ok. apply IH.
Qed.

Theorem cos_sin_encl_ok a :
  inI (fst (cos_sin_encl a)) (cos (Q2R a)) /\ inI (snd (cos_sin_encl a)) (sin (Q2R a)).
Proof. exact (cs_rec_ok 80 a). Qed.
