(* Theory/SupT.v — soundness of the sup-norm certificate check_sup:
   true  =>  | sum_k c_k T_k(x) | <= M  for every x in [-1,1],
   with T_k the Chebyshev polynomials defined by their recurrence. *)
From Coq Require Import ZArith QArith Qabs Qreals List Reals Lra Lia Bool Psatz.
From PyqspV Require Import Base.Ops Base.IntervalZ Base.TrigZ Model.QInst Model.Checkers
  Theory.IntervalT Theory.TrigT Theory.QInstT.
Import ListNotations.
Open Scope R_scope.

(* |cos a - cos b| <= |a - b| *)
Lemma sin_abs_le x : Rabs (sin x) <= Rabs x.
Proof.
  destruct (Rle_dec 0 x) as [H|H].
  - destruct (Rle_dec x 1) as [H1|H1].
    + destruct (Req_dec x 0) as [->|Hn]; [rewrite sin_0; lra|].
      assert (H0 : 0 < x) by lra. pose proof (sin_lt_x x H0).
      assert (0 <= sin x). { apply sin_ge_0; [lra|]. pose proof PI_RGT_0. pose proof (PI2_1). lra. }
      rewrite !Rabs_pos_eq; lra.
    + pose proof (SIN_bound x). rewrite (Rabs_pos_eq x) by lra. apply Rabs_le. lra.
  - assert (Hx : 0 < -x) by lra.
    replace (sin x) with (- sin (-x)) by (rewrite sin_neg; ring). rewrite Rabs_Ropp.
    replace (Rabs x) with (Rabs (-x)) by apply Rabs_Ropp.
    destruct (Rle_dec (-x) 1) as [H1|H1].
    + pose proof (sin_lt_x (-x) Hx).
      assert (0 <= sin (-x)). { apply sin_ge_0; [lra|]. pose proof PI2_1. pose proof PI_RGT_0. lra. }
      rewrite !Rabs_pos_eq; lra.
    + pose proof (SIN_bound (-x)). rewrite (Rabs_pos_eq (-x)) by lra. apply Rabs_le. lra.
Qed.
Lemma cos_lip a b : Rabs (cos a - cos b) <= Rabs (a - b).
Proof.
  rewrite form2.
  replace (-2 * sin ((a - b) / 2) * sin ((a + b) / 2)) with (sin ((a+b)/2) * (-2 * sin ((a-b)/2))) by ring.
  rewrite Rabs_mult.
  pose proof (SIN_bound ((a+b)/2)). assert (Rabs (sin ((a+b)/2)) <= 1) by (apply Rabs_le; lra).
  rewrite Rabs_mult. replace (Rabs (-2)) with 2 by (rewrite Rabs_left; lra).
  pose proof (sin_abs_le ((a-b)/2)) as H1.
  replace (Rabs ((a-b)/2)) with (Rabs (a-b) / 2) in H1.
  2:{ unfold Rdiv. rewrite Rabs_mult. rewrite (Rabs_pos_eq (/2)); lra. }
  pose proof (Rabs_pos (sin ((a-b)/2))). pose proof (Rabs_pos (sin ((a+b)/2))).
  nra.
Qed.

(* the real recurrence mirrored by cheb_sum_I *)
Fixpoint cheb_sum_R (c : list R) (x tk tk1 : R) : R :=
  match c with [] => 0 | ck :: c' => ck * tk + cheb_sum_R c' x tk1 ((x + x) * tk1 - tk) end.
(* the Chebyshev series sum_k c_k T_k(x): T_0 = 1, T_1 = x, T_{k+2} = 2x T_{k+1} - T_k *)
Definition cheb_series (c : list R) (x : R) : R := cheb_sum_R c x 1 x.

Lemma cheb_sum_I_ok c : forall cr x xr tk tkr tk1 tk1r, Forall2 inI c cr -> inI x xr -> inI tk tkr -> inI tk1 tk1r ->
  inI (cheb_sum_I c x tk tk1) (cheb_sum_R cr xr tkr tk1r).
Proof.
  induction c as [|ck c IH]; intros cr x xr tk tkr tk1 tk1r Hc Hx Ht Ht1; inversion Hc; subst; cbn [cheb_sum_I cheb_sum_R].
  - apply izero_ok.
  - apply iadd_ok; [apply imul_ok; assumption|]. apply IH; try assumption.
    apply isub_ok; [apply imul_ok; [apply iadd_ok|]|]; assumption.
Qed.

(* trigonometric form *)
Fixpoint trig_sum (c : list R) (k : nat) (t : R) : R :=
  match c with [] => 0 | ck :: c' => ck * cos (INR k * t) + trig_sum c' (S k) t end.

Lemma cos_rec k t : (cos t + cos t) * cos (INR (S k) * t) - cos (INR k * t) = cos (INR (S (S k)) * t).
Proof.
  rewrite !S_INR.
  replace ((INR k + 1 + 1) * t) with ((INR k + 1) * t + t) by ring.
  replace (INR k * t) with ((INR k + 1) * t - t) by ring.
  rewrite cos_plus, cos_minus. ring.
Qed.

Lemma cheb_sum_trig c : forall k t, cheb_sum_R c (cos t) (cos (INR k * t)) (cos (INR (S k) * t)) = trig_sum c k t.
Proof.
  induction c as [|ck c IH]; intros k t; cbn [cheb_sum_R trig_sum]; [reflexivity|].
  rewrite cos_rec, IH. reflexivity.
Qed.

Lemma cheb_series_trig c t : cheb_series c (cos t) = trig_sum c 0 t.
Proof.
  unfold cheb_series. rewrite <- cheb_sum_trig. cbn [INR]. rewrite Rmult_0_l, cos_0, Rmult_1_l. reflexivity.
Qed.

Fixpoint lipR (k : nat) (c : list R) : R := match c with [] => 0 | ck :: c' => INR k * Rabs ck + lipR (S k) c' end.

Lemma trig_sum_lip c : forall k a b, Rabs (trig_sum c k a - trig_sum c k b) <= lipR k c * Rabs (a - b).
Proof.
  induction c as [|ck c IH]; intros k a b; cbn [trig_sum lipR].
  - replace (0 - 0) with 0 by ring. rewrite Rabs_R0. lra.
  - replace (ck * cos (INR k * a) + trig_sum c (S k) a - (ck * cos (INR k * b) + trig_sum c (S k) b))
      with (ck * (cos (INR k * a) - cos (INR k * b)) + (trig_sum c (S k) a - trig_sum c (S k) b)) by ring.
    eapply Rle_trans; [apply Rabs_triang|]. rewrite Rabs_mult.
    pose proof (cos_lip (INR k * a) (INR k * b)) as Hl.
    replace (INR k * a - INR k * b) with (INR k * (a - b)) in Hl by ring.
    rewrite Rabs_mult, (Rabs_pos_eq (INR k)) in Hl by apply pos_INR.
    pose proof (IH (S k) a b). pose proof (Rabs_pos ck). pose proof (Rabs_pos (a - b)). nra.
Qed.

Lemma lip_from_ok c : forall k, Q2R (lip_from (Z.of_nat k) c) = lipR k (map Q2R c).
Proof.
  induction c as [|ck c IH]; intros k; cbn [lip_from map lipR]; [apply Q2R_0'|].
  rewrite qadd_ok, Q2R_mult, Qabs_Q2R. replace (Z.of_nat k + 1)%Z with (Z.of_nat (S k)) by lia.
  rewrite IH. f_equal. f_equal. unfold Q2R, inject_Z; cbn. rewrite INR_IZR_INZ. lra.
Qed.

Lemma map_iofQ_ok c : Forall2 inI (map iofQ c) (map Q2R c).
Proof. induction c; cbn [map]; constructor; [apply iofQ_ok | assumption]. Qed.

Lemma cheb_at_ok c th : inI (cheb_at c th) (trig_sum (map Q2R c) 0 (Q2R th)).
Proof.
  unfold cheb_at. destruct (cos_sin_encl_ok th) as [Hc _].
  rewrite <- cheb_series_trig. unfold cheb_series.
  apply cheb_sum_I_ok; [apply map_iofQ_ok | exact Hc | apply ione_ok | exact Hc].
Qed.

(* the cells cover [reach, 4] *)
Lemma cover_ok_sound cells : forall reach, cover_ok cells reach = true ->
  forall t, Q2R reach <= t <= 4 -> exists cell, In cell cells /\ Rabs (t - Q2R (fst cell)) <= Q2R (snd cell).
Proof.
  induction cells as [|[th r] cs IH]; intros reach H t [Ht1 Ht2]; cbn [cover_ok fst snd] in H.
  - apply Qltb_ok in H. assert (E4 : Q2R 4 = 4) by (unfold Q2R; simpl; lra). rewrite E4 in H. lra.
  - apply andb_prop in H. destruct H as [Hl Hc]. apply Qleb_ok in Hl. rewrite qadd_ok, Q2R_opp in Hl.
    destruct (Rle_dec t (Q2R th + Q2R r)) as [Hin|Hout].
    + exists (th, r). split; [left; reflexivity|]. cbn [fst snd]. apply Rabs_le. lra.
    + destruct (Qleb reach (qadd th r)) eqn:E.
      * destruct (IH _ Hc t) as (cell & Hi & Hb); [rewrite qadd_ok; lra|]. exists cell. split; [right; exact Hi | exact Hb].
      * destruct (IH _ Hc t) as (cell & Hi & Hb); [lra|]. exists cell. split; [right; exact Hi | exact Hb].
Qed.

Theorem check_sup_sound c cells M : check_sup c cells M = true ->
  forall x, -1 <= x <= 1 -> Rabs (cheb_series (map Q2R c) x) <= Q2R M.
Proof.
  unfold check_sup. intros H x Hx. apply andb_prop in H. destruct H as [Hcov Hcells].
  pose proof (acos_bound x) as Hb. pose proof PI_4 as HP. pose proof (cos_acos x Hx) as Hcos.
  rewrite <- Hcos, cheb_series_trig.
  destruct (cover_ok_sound cells 0%Q Hcov (acos x)) as (cell & Hin & Hd); [rewrite Q2R_0'; lra|].
  rewrite forallb_forall in Hcells. specialize (Hcells cell Hin). destruct cell as [th r]. cbn [fst snd] in *.
  unfold cell_ok in Hcells. cbn [fst snd] in Hcells. apply andb_prop in Hcells. destruct Hcells as [Hr Hv].
  apply Qleb_ok in Hr. rewrite Q2R_0' in Hr.
  apply scaled_le_q_ok in Hv. rewrite qadd_ok, Q2R_opp, Q2R_mult in Hv.
  pose proof (iabs_ub_ok _ _ (cheb_at_ok c th)) as Hu.
  pose proof (trig_sum_lip (map Q2R c) 0 (acos x) (Q2R th)) as HL.
  unfold lipq in Hv. change 0%Z with (Z.of_nat 0) in Hv. rewrite lip_from_ok in Hv.
  set (f := trig_sum (map Q2R c) 0) in *.
  assert (Hlpos : 0 <= lipR 0 (map Q2R c)).
  { clear. generalize 0%nat. induction (map Q2R c) as [|a l IH]; intros k; cbn [lipR]; [lra|].
    pose proof (IH (S k)). pose proof (pos_INR k). pose proof (Rabs_pos a). nra. }
  pose proof sc_pos as Hsc.
  assert (Hc1 : Rabs (f (Q2R th)) <= Q2R M - Q2R r * lipR 0 (map Q2R c)).
  { apply Rmult_le_reg_r with sc; [exact Hsc|]. lra. }
  replace (f (acos x)) with ((f (acos x) - f (Q2R th)) + f (Q2R th)) by ring.
  eapply Rle_trans; [apply Rabs_triang|].
  assert (lipR 0 (map Q2R c) * Rabs (acos x - Q2R th) <= lipR 0 (map Q2R c) * Q2R r) by (apply Rmult_le_compat_l; assumption).
  lra.
Qed.
