(* Theory/DecompT.v — algebra behind the decomposition (C06), over any commutative ring with
   i*i = -1:  R(x) R(y) = R(x+y);  the junction merge  a[:-1] ++ [a_last + b_0] ++ b[1:]  of two
   phase lists denotes the product of the two sequence unitaries;  shifting phases by pi
   (negating (cos, sin)) negates the unitary once per shifted phase (the sign gauge). *)
From Coq Require Import ZArith List Ring Lia Bool.
From PyqspV Require Import Base.Ops Model.LPolyM Model.LAlgM Theory.RingK Theory.LPolyT Theory.LAlgT.
Import ListNotations.

Section DecompT.
  Variable K : CRing.
  Add Ring Kr6 : (Kring K).
  Notation "x + y" := (kadd x y).
  Notation "x * y" := (kmul x y).
  Notation "x - y" := (ksub x y).
  Notation "- x" := (kopp x).
  Notation mat := (mat2 K).
  Notation mmul := (mmul K).
  Variables w wi i : K.
  Hypothesis ii : i * i = - k1.
  Notation Rot := (Rot K i).
  Notation prod := (prod_angles K w wi i).

  (* (cos, sin) of a sum of two angles *)
  Definition cs_add (a b : K * K) : K * K :=
    (fst a * fst b - snd a * snd b, snd a * fst b + fst a * snd b).

  Lemma Rot_add a b : Rot (cs_add a b) = mmul (Rot a) (Rot b).
  Proof.
    destruct a as [c1 s1], b as [c2 s2]. unfold cs_add, LAlgT.Rot. apply mat_eq; cbn.
    - transitivity (c1 * c2 + (i * i) * (s1 * s2)); [rewrite ii; ring | ring].
    - ring.
    - ring.
    - transitivity (c1 * c2 + (i * i) * (s1 * s2)); [rewrite ii; ring | ring].
  Qed.

  Lemma prod_app acc l l' : prod acc (l ++ l') = prod (prod acc l) l'.
  Proof. revert acc; induction l as [|c l IH]; intros acc; cbn [app prod_angles]; [reflexivity | apply IH]. Qed.

  Lemma prod_mmul X acc l : mmul X (prod acc l) = prod (mmul X acc) l.
  Proof.
    revert acc; induction l as [|c l IH]; intros acc; cbn [prod_angles]; [reflexivity|].
    rewrite IH. rewrite <- !mmul_assoc. reflexivity.
  Qed.

  (* the sequence unitary of a non-empty phase list *)
  Definition Useq (c0 : K * K) (l : list (K * K)) : mat := prod (Rot c0) l.

  (* angseq's merge: a = la ++ [alast], b = b0 :: lb  |->  la ++ [alast + b0] ++ lb *)
  Theorem merge_is_product a0 la alast b0 lb :
    Useq a0 (la ++ cs_add alast b0 :: lb) = mmul (Useq a0 (la ++ [alast])) (Useq b0 lb).
  Proof.
    unfold Useq. rewrite !prod_app. cbn [prod_angles]. rewrite Rot_add.
    rewrite prod_mmul. f_equal. rewrite <- !mmul_assoc. reflexivity.
  Qed.

  Theorem merge_is_product_single a0 b0 lb :
    Useq (cs_add a0 b0) lb = mmul (Useq a0 []) (Useq b0 lb).
  Proof. unfold Useq. cbn [prod_angles]. rewrite Rot_add, prod_mmul. reflexivity. Qed.

  (* sign gauge: a shift of one phase by pi negates (cos, sin) *)
  Definition cs_neg (a : K * K) : K * K := (- fst a, - snd a).
  Lemma Rot_neg a : Rot (cs_neg a) = mneg K (Rot a).
  Proof. destruct a; unfold cs_neg, LAlgT.Rot, mneg; apply mat_eq; cbn; ring. Qed.

  Definition flip (b : bool) (a : K * K) : K * K := if b then cs_neg a else a.
  Definition msign (b : bool) (m : mat) : mat := if b then mneg K m else m.

  Lemma mmul_neg_l a b : mmul (mneg K a) b = mneg K (mmul a b).
  Proof. apply mat_eq; cbn; ring. Qed.
  Lemma mmul_neg_r a b : mmul a (mneg K b) = mneg K (mmul a b).
  Proof. apply mat_eq; cbn; ring. Qed.
  Lemma mneg_mneg a : mneg K (mneg K a) = a.
  Proof. apply mat_eq; cbn; ring. Qed.

  Fixpoint flips (bs : list bool) (l : list (K * K)) : list (K * K) :=
    match bs, l with b :: bs, c :: l => flip b c :: flips bs l | _, _ => l end.
  Fixpoint parity (bs : list bool) (n : nat) : bool :=
    match bs, n with b :: bs, S n => xorb b (parity bs n) | _, _ => false end.

  Lemma prod_msign b acc l : prod (msign b acc) l = msign b (prod acc l).
  Proof.
    destruct b; cbn [msign]; [|reflexivity].
    revert acc; induction l as [|c l IH]; intros acc; cbn [prod_angles]; [reflexivity|].
    rewrite !mmul_neg_l. apply IH.
  Qed.

  Theorem gauge_product bs l : forall acc,
    prod acc (flips bs l) = msign (parity bs (length l)) (prod acc l).
  Proof.
    revert bs; induction l as [|c l IH]; intros [|b bs] acc; cbn [flips parity length prod_angles msign]; try reflexivity.
    rewrite IH. destruct b; cbn [flip].
    - rewrite Rot_neg, mmul_neg_r.
      change (mneg K (mmul (mmul acc (Wm K w wi)) (Rot c))) with (msign true (mmul (mmul acc (Wm K w wi)) (Rot c))).
      rewrite prod_msign. destruct (parity bs (length l)); cbn [msign xorb]; [rewrite mneg_mneg|]; reflexivity.
    - destruct (parity bs (length l)); reflexivity.
  Qed.

  (* an even number of pi shifts leaves the sequence unitary unchanged *)
  Corollary gauge_even b0 bs c0 l : xorb b0 (parity bs (length l)) = false ->
    Useq (flip b0 c0) (flips bs l) = Useq c0 l.
  Proof.
    unfold Useq. intros H. rewrite gauge_product.
    destruct b0; cbn [flip xorb] in *.
    - rewrite Rot_neg. change (mneg K (Rot c0)) with (msign true (Rot c0)). rewrite prod_msign.
      destruct (parity bs (length l)); [|discriminate]. cbn [msign]. apply mneg_mneg.
    - destruct (parity bs (length l)); [discriminate | reflexivity].
  Qed.
End DecompT.
