(* Theory/AccT.v — soundness of the accuracy certificates of C16:
   check_trig_acc: |sum_k c_k T_k(x) - s cos(tau x)| <= eps (or sin) for every x in [-1,1];
   check_inv_acc:  |sum_k c_k T_k(x) - 1/x| <= tol for every x in [1/kappa, 1]. *)
From Coq Require Import ZArith QArith Qabs Qreals List Reals Lra Lia Bool Psatz.
From PyqspV Require Import Base.Ops Base.IntervalZ Base.TrigZ Model.QInst Model.Checkers
  Theory.IntervalT Theory.TrigT Theory.QInstT Theory.SupT.
Import ListNotations.
Open Scope R_scope.

Lemma sin_lip a b : Rabs (sin a - sin b) <= Rabs (a - b).
Proof.
  rewrite form4.
  replace (2 * cos ((a + b) / 2) * sin ((a - b) / 2)) with (cos ((a+b)/2) * (2 * sin ((a-b)/2))) by ring.
  rewrite Rabs_mult.
  pose proof (COS_bound ((a+b)/2)). assert (Rabs (cos ((a+b)/2)) <= 1) by (apply Rabs_le; lra).
  rewrite Rabs_mult. rewrite (Rabs_pos_eq 2) by lra.
  pose proof (sin_abs_le ((a-b)/2)) as H1.
  replace (Rabs ((a-b)/2)) with (Rabs (a-b) / 2) in H1.
  2:{ unfold Rdiv. rewrite Rabs_mult. rewrite (Rabs_pos_eq (/2)); lra. }
  pose proof (Rabs_pos (sin ((a-b)/2))). pose proof (Rabs_pos (cos ((a+b)/2))).
  nra.
Qed.

Lemma inI_between a y1 y2 d : inI a y1 -> inI a y2 -> y1 <= d <= y2 -> inI a d.
Proof. unfold inI. intros [A1 A2] [B1 B2] [H1 H2]. pose proof sc_pos. split; nra. Qed.

Lemma hull_sym_ok e y d : inI e y -> Rabs d <= Rabs y -> inI (ihull e (ineg e)) d.
Proof.
  intros He Hd.
  assert (H1 : inI (ihull e (ineg e)) y) by (apply ihull_ok_l; exact He).
  assert (H2 : inI (ihull e (ineg e)) (- y)) by (apply ihull_ok_r, ineg_ok; exact He).
  unfold Rabs in Hd. destruct (Rcase_abs d), (Rcase_abs y).
  - apply (inI_between _ y (- y)); [exact H1 | exact H2 | lra].
  - apply (inI_between _ (- y) y); [exact H2 | exact H1 | lra].
  - apply (inI_between _ y (- y)); [exact H1 | exact H2 | lra].
  - apply (inI_between _ (- y) y); [exact H2 | exact H1 | lra].
Qed.

Lemma q_of_lo_ok x : Q2R (q_of_lo x) * sc = IZR (lo x).
Proof.
  unfold q_of_lo, sc. pose proof scaleZ_pos as Hp. destruct scaleZ as [|p|p] eqn:E; try lia.
  unfold Q2R; cbn [Qnum Qden]. field. apply not_0_IZR. lia.
Qed.

Lemma cs_scaled_ok tau x xr : inI x xr ->
  inI (fst (cs_scaled tau x)) (cos (Q2R tau * xr)) /\ inI (snd (cs_scaled tau x)) (sin (Q2R tau * xr)).
Proof.
  intros Hx. unfold cs_scaled. cbn [fst snd].
  set (q := q_of_lo x). pose proof (q_of_lo_ok x) as Hq. fold q in Hq.
  destruct (cos_sin_encl_ok (Qmult tau q)) as [Hc Hs]. rewrite Q2R_mult in Hc, Hs.
  pose proof sc_pos as Hsc.
  assert (Hd : inI (mkI (- (hi x - lo x)) (hi x - lo x)) (xr - Q2R q)).
  { unfold inI in *. cbn [lo hi]. rewrite opp_IZR, minus_IZR. destruct Hx as [H1 H2]. split; nra. }
  pose proof (imul_ok _ _ _ _ (iofQ_ok tau) Hd) as He.
  set (e := imul (iofQ tau) (mkI (- (hi x - lo x)) (hi x - lo x))) in *.
  split.
  - replace (cos (Q2R tau * xr)) with (cos (Q2R tau * Q2R q) + (cos (Q2R tau * xr) - cos (Q2R tau * Q2R q))) by ring.
    apply iadd_ok; [exact Hc|]. apply (hull_sym_ok e (Q2R tau * (xr - Q2R q))); [exact He|].
    eapply Rle_trans; [apply cos_lip|]. right. f_equal. ring.
  - replace (sin (Q2R tau * xr)) with (sin (Q2R tau * Q2R q) + (sin (Q2R tau * xr) - sin (Q2R tau * Q2R q))) by ring.
    apply iadd_ok; [exact Hs|]. apply (hull_sym_ok e (Q2R tau * (xr - Q2R q))); [exact He|].
    eapply Rle_trans; [apply sin_lip|]. right. f_equal. ring.
Qed.

Lemma iinv_pos_ok x xr : inI x xr -> (0 < lo x)%Z -> inI (iinv_pos x) (/ xr).
Proof.
  intros [H1 H2] Hlo. pose proof sc_pos as Hsc. apply IZR_lt in Hlo.
  assert (Hxr : 0 < xr) by nra.
  assert (Hhi : (0 < hi x)%Z) by (apply lt_IZR; lra).
  unfold iinv_pos, inI. cbn [lo hi].
  pose proof (fdiv_le (scaleZ * scaleZ) (hi x) Hhi) as F. pose proof (cdiv_ge (scaleZ * scaleZ) (lo x) ltac:(apply lt_IZR; lra)) as Cc.
  rewrite mult_IZR in F, Cc. fold sc in F, Cc.
  assert (0 < IZR (hi x)) by lra.
  split.
  - apply Rmult_le_reg_r with (IZR (hi x)); [assumption|]. eapply Rle_trans; [exact F|].
    replace (/ xr * sc * IZR (hi x)) with (sc * (IZR (hi x) / xr)) by (field; lra).
    apply Rmult_le_compat_l; [lra|]. apply Rmult_le_reg_r with xr; [exact Hxr|]. unfold Rdiv. rewrite Rmult_assoc, Rinv_l by lra. lra.
  - apply Rmult_le_reg_r with (IZR (lo x)); [assumption|]. eapply Rle_trans; [|exact Cc].
    replace (/ xr * sc * IZR (lo x)) with (sc * (IZR (lo x) / xr)) by (field; lra).
    apply Rmult_le_compat_l; [lra|]. apply Rmult_le_reg_r with xr; [exact Hxr|]. unfold Rdiv. rewrite Rmult_assoc, Rinv_l by lra. lra.
Qed.

(* ---- cosine / sine *)
Definition trig_target (usesin : bool) (s tau t : R) : R := s * (if usesin then sin (tau * cos t) else cos (tau * cos t)).

Lemma trig_target_lip usesin s tau a b : 0 <= s ->
  Rabs (trig_target usesin s tau a - trig_target usesin s tau b) <= s * Rabs tau * Rabs (a - b).
Proof.
  intros Hs. unfold trig_target.
  replace (s * (if usesin then sin (tau * cos a) else cos (tau * cos a)) - s * (if usesin then sin (tau * cos b) else cos (tau * cos b)))
    with (s * ((if usesin then sin (tau * cos a) else cos (tau * cos a)) - (if usesin then sin (tau * cos b) else cos (tau * cos b)))) by ring.
  rewrite Rabs_mult, (Rabs_pos_eq s) by exact Hs.
  assert (H : Rabs ((if usesin then sin (tau * cos a) else cos (tau * cos a)) - (if usesin then sin (tau * cos b) else cos (tau * cos b))) <= Rabs tau * Rabs (a - b)).
  { eapply Rle_trans; [destruct usesin; [apply sin_lip | apply cos_lip]|].
    replace (tau * cos a - tau * cos b) with (tau * (cos a - cos b)) by ring. rewrite Rabs_mult.
    apply Rmult_le_compat_l; [apply Rabs_pos | apply cos_lip]. }
  rewrite Rmult_assoc. apply Rmult_le_compat_l; assumption.
Qed.

Theorem check_trig_acc_sound usesin c s tau cells eps : check_trig_acc usesin c s tau cells eps = true ->
  forall x, -1 <= x <= 1 ->
  Rabs (cheb_series (map Q2R c) x - Q2R s * (if usesin then sin (Q2R tau * x) else cos (Q2R tau * x))) <= Q2R eps.
Proof.
  unfold check_trig_acc. intros H x Hx. apply andb_prop in H. destruct H as [H Hcells]. apply andb_prop in H. destruct H as [Hs0 Hcov].
  apply Qleb_ok in Hs0. rewrite Q2R_0' in Hs0.
  pose proof (acos_bound x) as Hb. pose proof PI_4 as HP. pose proof (cos_acos x Hx) as Hcos.
  destruct (cover_ok_sound cells 0%Q Hcov (acos x)) as (cell & Hin & Hd); [rewrite Q2R_0'; lra|].
  rewrite forallb_forall in Hcells. specialize (Hcells cell Hin). destruct cell as [th r]. cbn [fst snd] in *.
  unfold cell_ok_trig in Hcells. cbn [fst snd] in Hcells. apply andb_prop in Hcells. destruct Hcells as [Hr Hv].
  apply Qleb_ok in Hr. rewrite Q2R_0' in Hr.
  apply scaled_le_q_ok in Hv. repeat (rewrite ?qadd_ok, ?Q2R_opp, ?Q2R_mult, ?Qabs_Q2R in Hv).
  unfold lipq in Hv. change 0%Z with (Z.of_nat 0) in Hv. rewrite lip_from_ok in Hv.
  destruct (cos_sin_encl_ok th) as [Hcth _].
  destruct (cs_scaled_ok tau _ _ Hcth) as [Tc Ts].
  set (f := trig_sum (map Q2R c) 0). set (g := trig_target usesin (Q2R s) (Q2R tau)).
  assert (Hval : inI (isub (cheb_sum_I (map iofQ c) (fst (cos_sin_encl th)) ione (fst (cos_sin_encl th)))
                           (imul (iofQ s) (if usesin then snd (cs_scaled tau (fst (cos_sin_encl th))) else fst (cs_scaled tau (fst (cos_sin_encl th))))))
                     (f (Q2R th) - g (Q2R th))).
  { apply isub_ok.
    - unfold f. rewrite <- cheb_series_trig. unfold cheb_series. apply cheb_sum_I_ok; [apply map_iofQ_ok | exact Hcth | apply ione_ok | exact Hcth].
    - unfold g, trig_target. apply imul_ok; [apply iofQ_ok|]. destruct usesin; assumption. }
  pose proof (iabs_ub_ok _ _ Hval) as Hu.
  pose proof (trig_sum_lip (map Q2R c) 0 (acos x) (Q2R th)) as HL1.
  pose proof (trig_target_lip usesin (Q2R s) (Q2R tau) (acos x) (Q2R th) Hs0) as HL2. fold g in HL2. fold f in HL1.
  assert (Hlpos : 0 <= lipR 0 (map Q2R c)).
  { clear. generalize 0%nat. induction (map Q2R c) as [|a l IH]; intros k; cbn [lipR]; [lra|].
    pose proof (IH (S k)). pose proof (pos_INR k). pose proof (Rabs_pos a). nra. }
  pose proof sc_pos as Hsc. pose proof (Rabs_pos (Q2R tau)).
  assert (Hc1 : Rabs (f (Q2R th) - g (Q2R th)) <= Q2R eps - Q2R r * (lipR 0 (map Q2R c) + Q2R s * Rabs (Q2R tau))).
  { apply Rmult_le_reg_r with sc; [exact Hsc|]. lra. }
  rewrite <- Hcos at 1. rewrite cheb_series_trig. fold f.
  replace (Q2R s * (if usesin then sin (Q2R tau * x) else cos (Q2R tau * x))) with (g (acos x)).
  2:{ unfold g, trig_target. rewrite Hcos. reflexivity. }
  replace (f (acos x) - g (acos x)) with ((f (acos x) - f (Q2R th)) - (g (acos x) - g (Q2R th)) + (f (Q2R th) - g (Q2R th))) by ring.
  eapply Rle_trans; [apply Rabs_triang|]. eapply Rle_trans; [apply Rplus_le_compat_r; apply Rabs_triang|]. rewrite Rabs_Ropp.
  assert (lipR 0 (map Q2R c) * Rabs (acos x - Q2R th) <= lipR 0 (map Q2R c) * Q2R r) by (apply Rmult_le_compat_l; assumption).
  assert (Q2R s * Rabs (Q2R tau) * Rabs (acos x - Q2R th) <= Q2R s * Rabs (Q2R tau) * Q2R r) by (apply Rmult_le_compat_l; [nra | assumption]).
  lra.
Qed.

(* ---- 1/x on [1/kappa, 1] *)
Lemma cover_upto_sound cells stop : forall reach, cover_upto cells reach stop = true ->
  forall t, Q2R reach <= t <= Q2R stop -> exists cell, In cell cells /\ Rabs (t - Q2R (fst cell)) <= Q2R (snd cell).
Proof.
  induction cells as [|[th r] cs IH]; intros reach H t [Ht1 Ht2]; cbn [cover_upto fst snd] in H.
  - apply Qltb_ok in H. lra.
  - apply andb_prop in H. destruct H as [Hl Hc]. apply Qleb_ok in Hl. rewrite qadd_ok, Q2R_opp in Hl.
    destruct (Rle_dec t (Q2R th + Q2R r)) as [Hin|Hout].
    + exists (th, r). split; [left; reflexivity|]. cbn [fst snd]. apply Rabs_le. lra.
    + destruct (Qleb reach (qadd th r)) eqn:E.
      * destruct (IH _ Hc t) as (cell & Hi & Hb); [rewrite qadd_ok; lra|]. exists cell. split; [right; exact Hi | exact Hb].
      * destruct (IH _ Hc t) as (cell & Hi & Hb); [lra|]. exists cell. split; [right; exact Hi | exact Hb].
Qed.

Theorem check_inv_acc_sound c kinv k2 thmax cells tol : check_inv_acc c kinv k2 thmax cells tol = true ->
  forall x, Q2R kinv <= x <= 1 -> Rabs (cheb_series (map Q2R c) x - / x) <= Q2R tol.
Proof.
  unfold check_inv_acc. intros H x Hx.
  repeat (apply andb_prop in H; let H' := fresh "H" in destruct H as [H H']).
  rename H into Hk0. rename H0 into Hcells. rename H1 into Hcov. rename H2 into Hcmax. rename H3 into Hth2. rename H4 into Hth0. rename H5 into Hk2.
  apply Qltb_ok in Hk0. rewrite Q2R_0' in Hk0. apply Qleb_ok in Hk2, Hth0, Hth2.
  rewrite !Q2R_mult in Hk2. rewrite Q2R_0' in Hth0.
  assert (E1 : Q2R 1 = 1) by (unfold Q2R; simpl; lra). assert (E2 : Q2R 2 = 2) by (unfold Q2R; simpl; lra). rewrite E1 in Hk2. rewrite E2 in Hth2.
  pose proof sc_pos as Hsc. pose proof PI2_1 as HPI.
  (* theta = acos x lies in [0, thmax] *)
  assert (Hx1 : -1 <= x <= 1) by lra.
  pose proof (acos_bound x) as Hb. pose proof (cos_acos x Hx1) as Hcos.
  destruct (cos_sin_encl_ok thmax) as [[_ Hcm] _]. apply scaled_le_q_ok in Hcmax.
  assert (Hcm2 : cos (Q2R thmax) <= Q2R kinv) by (apply Rmult_le_reg_r with sc; lra).
  assert (Hle : acos x <= Q2R thmax).
  { apply (cos_decr_0 (Q2R thmax) (acos x)); lra. }
  destruct (cover_upto_sound cells thmax 0%Q Hcov (acos x)) as (cell & Hin & Hd); [rewrite Q2R_0'; lra|].
  rewrite forallb_forall in Hcells. specialize (Hcells cell Hin). destruct cell as [th r]. cbn [fst snd] in *.
  unfold cell_ok_inv in Hcells. cbn [fst snd] in Hcells.
  repeat (apply andb_prop in Hcells; let H' := fresh "G" in destruct Hcells as [Hcells H']).
  rename Hcells into Gr. apply Qleb_ok in Gr, G3, G2. rewrite Q2R_0' in Gr, G3. rewrite E2 in G2.
  apply Z.ltb_lt in G0. apply q_le_scaled_ok in G1. apply scaled_le_q_ok in G.
  repeat (rewrite ?qadd_ok, ?Q2R_opp, ?Q2R_mult in G). unfold lipq in G. change 0%Z with (Z.of_nat 0) in G. rewrite lip_from_ok in G.
  destruct (cos_sin_encl_ok th) as [Hcth _]. pose proof Hcth as [Hlo _].
  assert (Hcthk : Q2R kinv <= cos (Q2R th)) by (apply Rmult_le_reg_r with sc; lra).
  set (f := trig_sum (map Q2R c) 0).
  assert (Hval : inI (isub (cheb_sum_I (map iofQ c) (fst (cos_sin_encl th)) ione (fst (cos_sin_encl th))) (iinv_pos (fst (cos_sin_encl th))))
                     (f (Q2R th) - / cos (Q2R th))).
  { apply isub_ok.
    - unfold f. rewrite <- cheb_series_trig. unfold cheb_series. apply cheb_sum_I_ok; [apply map_iofQ_ok | exact Hcth | apply ione_ok | exact Hcth].
    - apply iinv_pos_ok; assumption. }
  pose proof (iabs_ub_ok _ _ Hval) as Hu.
  pose proof (trig_sum_lip (map Q2R c) 0 (acos x) (Q2R th)) as HL1. fold f in HL1.
  assert (Hlpos : 0 <= lipR 0 (map Q2R c)).
  { clear. generalize 0%nat. induction (map Q2R c) as [|a l IH]; intros k; cbn [lipR]; [lra|].
    pose proof (IH (S k)). pose proof (pos_INR k). pose proof (Rabs_pos a). nra. }
  (* |1/cos a - 1/cos b| <= k2 |a - b| when both cosines are >= kinv *)
  assert (HL2 : Rabs (/ x - / cos (Q2R th)) <= Q2R k2 * Rabs (acos x - Q2R th)).
  { replace (/ x - / cos (Q2R th)) with ((cos (Q2R th) - cos (acos x)) * (/ x * / cos (Q2R th))) by (rewrite Hcos; field; lra).
    rewrite Rabs_mult. pose proof (cos_lip (Q2R th) (acos x)) as HC. rewrite (Rabs_minus_sym (Q2R th)) in HC.
    assert (Hinv : Rabs (/ x * / cos (Q2R th)) <= Q2R k2).
    { rewrite Rabs_pos_eq by (apply Rmult_le_pos; left; apply Rinv_0_lt_compat; lra).
      assert (/ x <= / Q2R kinv) by (apply Rinv_le_contravar; lra).
      assert (/ cos (Q2R th) <= / Q2R kinv) by (apply Rinv_le_contravar; lra).
      assert (0 < / x) by (apply Rinv_0_lt_compat; lra). assert (0 < / cos (Q2R th)) by (apply Rinv_0_lt_compat; lra).
      assert (0 < / Q2R kinv) by (apply Rinv_0_lt_compat; lra).
      assert (/ Q2R kinv * / Q2R kinv <= Q2R k2).
      { apply Rmult_le_reg_r with (Q2R kinv * Q2R kinv); [nra|].
        replace (/ Q2R kinv * / Q2R kinv * (Q2R kinv * Q2R kinv)) with 1 by (field; lra). lra. }
      nra. }
    pose proof (Rabs_pos (cos (Q2R th) - cos (acos x))). pose proof (Rabs_pos (/ x * / cos (Q2R th))). pose proof (Rabs_pos (acos x - Q2R th)). nra. }
  assert (Hc1 : Rabs (f (Q2R th) - / cos (Q2R th)) <= Q2R tol - Q2R r * (lipR 0 (map Q2R c) + Q2R k2)).
  { apply Rmult_le_reg_r with sc; [exact Hsc|]. lra. }
  rewrite <- Hcos at 1. rewrite cheb_series_trig. fold f.
  replace (f (acos x) - / x) with ((f (acos x) - f (Q2R th)) - (/ x - / cos (Q2R th)) + (f (Q2R th) - / cos (Q2R th))) by ring.
  eapply Rle_trans; [apply Rabs_triang|]. eapply Rle_trans; [apply Rplus_le_compat_r; apply Rabs_triang|]. rewrite Rabs_Ropp.
  assert (0 <= Q2R k2) by nra.
  assert (lipR 0 (map Q2R c) * Rabs (acos x - Q2R th) <= lipR 0 (map Q2R c) * Q2R r) by (apply Rmult_le_compat_l; assumption).
  assert (Q2R k2 * Rabs (acos x - Q2R th) <= Q2R k2 * Q2R r) by (apply Rmult_le_compat_l; assumption).
  lra.
Qed.
