(* Theory/LPolyCoef.v — coefficient-level laws of the LPoly model, for any coefficient
   type: look-up, alignment and the truncation window theorem (every window, every lowest
   power, with Python's negative-stop slice). *)
From Coq Require Import ZArith List Lia Bool ZifyBool.
From PyqspV Require Import Base.Ops Model.LPolyM.
Import ListNotations.
Open Scope Z_scope.
Ltac Zify.zify_post_hook ::= Z.to_euclidean_division_equations.

Section Coef.
  Context {D : Type} (O : Ops D).
  Notation k0 := (d0 O).

  Definition coef (dmin : Z) (l : list D) (k : Z) : D :=
    if ((k - dmin) mod 2 =? 0) && (0 <=? k - dmin) then nth (Z.to_nat ((k - dmin) / 2)) l k0 else k0.

  Lemma lp_get_coef (p : lpoly D) k : lp_get O p k = coef (lp_dmin p) (lp_coefs p) k.
  Proof.
    unfold lp_get, coef.
    destruct ((k - lp_dmin p) mod 2 =? 0) eqn:E; cbn [negb andb]; [|reflexivity].
    destruct (0 <=? k - lp_dmin p) eqn:E2.
    - replace (0 <=? (k - lp_dmin p) / 2) with true by lia. rewrite andb_true_r.
      destruct ((k - lp_dmin p) / 2 <? len (lp_coefs p)) eqn:E3; [reflexivity|].
      symmetry. apply nth_overflow. unfold len in E3. lia.
    - replace (0 <=? (k - lp_dmin p) / 2) with false by lia. rewrite andb_false_r. reflexivity.
  Qed.

  Lemma nth_repeat_k0 n j : nth j (repeat k0 n) k0 = k0.
  Proof. revert j; induction n; intros [|j]; cbn; auto. Qed.
  Lemma zeros_len n : length (zeros O n) = Z.to_nat n.
  Proof. apply repeat_length. Qed.

  Definition dmaxl (dmin : Z) (l : list D) := 2 * len l + dmin - 2.
  Definition alignedl (dmin : Z) (l : list D) (a b : Z) : list D :=
    zeros O ((dmin - a) / 2) ++ l ++ zeros O ((b - dmaxl dmin l) / 2).

  Lemma aligned_length dmin l a b : l <> [] -> a <= dmin -> dmaxl dmin l <= b ->
    (dmin - a) mod 2 = 0 -> (b - dmin) mod 2 = 0 -> len (alignedl dmin l a b) = (b - a) / 2 + 1.
  Proof.
    intros Hl Ha Hb Pa Pb. unfold alignedl, len. rewrite !app_length, !zeros_len.
    assert (0 < length l)%nat by (destruct l; [congruence | cbn; lia]).
    unfold dmaxl, len in *. lia.
  Qed.

  Lemma aligned_nth dmin l a b j : a <= dmin -> dmaxl dmin l <= b ->
    (dmin - a) mod 2 = 0 -> 0 <= j ->
    nth (Z.to_nat j) (alignedl dmin l a b) k0 = coef dmin l (a + 2 * j).
  Proof.
    intros Ha Hb Pa Hj. unfold alignedl, coef.
    set (z := (dmin - a) / 2). assert (Hz : 0 <= z /\ dmin - a = 2 * z) by (unfold z; lia).
    destruct (Z.ltb_spec j z) as [Hlt|Hge].
    - rewrite app_nth1 by (rewrite zeros_len; lia). unfold zeros. rewrite nth_repeat_k0.
      replace (0 <=? a + 2 * j - dmin) with false by lia. rewrite andb_false_r. reflexivity.
    - rewrite app_nth2 by (rewrite zeros_len; lia). rewrite zeros_len.
      replace ((a + 2 * j - dmin) mod 2 =? 0) with true by lia.
      replace (0 <=? a + 2 * j - dmin) with true by lia. cbn [andb].
      replace (Z.to_nat ((a + 2 * j - dmin) / 2)) with (Z.to_nat j - Z.to_nat z)%nat by lia.
      destruct (Nat.ltb_spec (Z.to_nat j - Z.to_nat z) (length l)) as [Hin|Hout].
      + rewrite app_nth1 by lia. reflexivity.
      + rewrite app_nth2 by lia. unfold zeros. rewrite nth_repeat_k0. rewrite nth_overflow by lia. reflexivity.
  Qed.

  Lemma nth_skipn' (L : list D) s j : nth j (skipn s L) k0 = nth (s + j) L k0.
  Proof. revert L; induction s; intros [|x L]; cbn; auto. destruct j; reflexivity. Qed.
  Lemma nth_firstn' (L : list D) m j : (j < m)%nat -> nth j (firstn m L) k0 = nth j L k0.
  Proof. revert L j; induction m; intros [|x L] [|j] H; cbn; auto; try lia. apply IHm; lia. Qed.

  Definition truncl (dmin : Z) (l : list D) (a b : Z) : list D :=
    let lb := Z.min a dmin in let ub := Z.max b (dmaxl dmin l) in
    py_slice_neg ((a - lb) / 2) ((b - ub) / 2 - 1) (alignedl dmin l lb (ub + 2)).

  Lemma truncl_spec dmin l a b : l <> [] ->
    (a - dmin) mod 2 = 0 -> (b - a) mod 2 = 0 -> a <= b ->
    len (truncl dmin l a b) = (b - a) / 2 + 1 /\
    forall k, coef a (truncl dmin l a b) k = if (a <=? k) && (k <=? b) then coef dmin l k else k0.
  Proof.
    intros Hl Pa Pb Hab. unfold truncl.
    set (lb := Z.min a dmin). set (ub := Z.max b (dmaxl dmin l)).
    assert (Hlen0 : 0 < len l) by (unfold len; destruct l; [congruence | cbn; lia]).
    assert (Hlb : lb <= dmin /\ lb <= a) by (unfold lb; lia).
    assert (Hub : dmaxl dmin l <= ub /\ b <= ub) by (unfold ub; lia).
    assert (Plb : (dmin - lb) mod 2 = 0 /\ (a - lb) mod 2 = 0) by (unfold lb; lia).
    assert (Pub : (ub - b) mod 2 = 0 /\ (ub - dmin) mod 2 = 0) by (unfold ub, dmaxl; lia).
    assert (HL : len (alignedl dmin l lb (ub + 2)) = (ub + 2 - lb) / 2 + 1).
    { apply aligned_length; try lia. auto. }
    unfold py_slice_neg. rewrite HL.
    set (s := (a - lb) / 2). set (m := (ub + 2 - lb) / 2 + 1 + ((b - ub) / 2 - 1) - s).
    assert (Hs : 0 <= s /\ a - lb = 2 * s) by (unfold s; lia).
    assert (Hm : m = (b - a) / 2 + 1) by (unfold m, s; lia).
    assert (Hlenres : len (firstn (Z.to_nat m) (skipn (Z.to_nat s) (alignedl dmin l lb (ub + 2)))) = m).
    { unfold len. rewrite firstn_length, skipn_length. unfold len in HL. lia. }
    split; [rewrite Hlenres; exact Hm|].
    intros k. unfold coef at 1.
    destruct (((k - a) mod 2 =? 0) && (0 <=? k - a)) eqn:E.
    - assert (Hk : (k - a) mod 2 = 0 /\ a <= k) by lia.
      set (j := (k - a) / 2). assert (Hj : 0 <= j /\ k - a = 2 * j) by (unfold j; lia).
      destruct (Z.leb_spec k b) as [Hkb|Hkb].
      + replace (a <=? k) with true by lia. cbn [andb].
        rewrite nth_firstn' by lia. rewrite nth_skipn'.
        replace (Z.to_nat s + Z.to_nat j)%nat with (Z.to_nat (s + j)) by lia.
        rewrite aligned_nth by lia. f_equal. lia.
      + replace ((a <=? k) && false) with false by (destruct (a <=? k); reflexivity).
        apply nth_overflow. unfold len in Hlenres. lia.
    - destruct ((a <=? k) && (k <=? b)) eqn:E2; [|reflexivity].
      unfold coef. replace ((k - dmin) mod 2 =? 0) with false by lia. reflexivity.
  Qed.

  (* the window theorem for the model's truncate *)
  Theorem lp_truncate_spec (p : lpoly D) a b : lp_isz p = false -> lp_coefs p <> [] ->
    (a - lp_dmin p) mod 2 = 0 -> (b - a) mod 2 = 0 -> a <= b ->
    exists r, lp_truncate O p a b = Some r /\ lp_dmin r = a /\ lp_isz r = false /\
      len (lp_coefs r) = (b - a) / 2 + 1 /\
      forall k, lp_get O r k = if (a <=? k) && (k <=? b) then lp_get O p k else k0.
  Proof.
    intros Hz Hl Pa Pb Hab.
    pose proof (truncl_spec (lp_dmin p) (lp_coefs p) a b Hl Pa Pb Hab) as [HL HC].
    unfold lp_truncate, lp_aligned. rewrite Hz.
    replace ((Z.min a (lp_dmin p) <=? lp_dmin p) && (lp_dmax p <=? Z.max b (lp_dmax p) + 2)) with true by lia.
    cbn [obind].
    change (lp_dmax p) with (dmaxl (lp_dmin p) (lp_coefs p)).
    change (zeros O ((lp_dmin p - Z.min a (lp_dmin p)) / 2) ++ lp_coefs p ++
            zeros O ((Z.max b (dmaxl (lp_dmin p) (lp_coefs p)) + 2 - dmaxl (lp_dmin p) (lp_coefs p)) / 2))
      with (alignedl (lp_dmin p) (lp_coefs p) (Z.min a (lp_dmin p)) (Z.max b (dmaxl (lp_dmin p) (lp_coefs p)) + 2)).
    change (py_slice_neg _ _ _) with (truncl (lp_dmin p) (lp_coefs p) a b).
    destruct (truncl (lp_dmin p) (lp_coefs p) a b) as [|c t] eqn:Et.
    { exfalso. unfold len in HL. cbn in HL. lia. }
    eexists. split; [reflexivity|]. cbn [mk lp_dmin lp_isz lp_coefs].
    repeat split; try assumption.
    intros k. rewrite !lp_get_coef. cbn [lp_dmin lp_coefs]. apply HC.
  Qed.

  (* coefficient look-up of the other structural operations *)
  Lemma coef_nil dmin k : coef dmin [] k = k0.
  Proof. unfold coef. destruct (_ && _); [destruct (Z.to_nat _)|]; reflexivity. Qed.

  Lemma lp_get_mk l d k : lp_get O (mk O l d) k = coef d l k.
  Proof.
    rewrite lp_get_coef. destruct l; [|reflexivity]. cbn [mk lp_dmin lp_coefs].
    rewrite coef_nil. unfold coef. destruct (_ && _); [|reflexivity].
    destruct (Z.to_nat _) as [|[|n]]; reflexivity.
  Qed.

  Lemma coef_rev dmin l k : l <> [] ->
    coef (- dmaxl dmin l) (rev l) k = coef dmin l (- k).
  Proof.
    intros Hl. unfold coef, dmaxl.
    assert (Hlen : 0 < len l) by (unfold len; destruct l; [congruence | cbn; lia]).
    set (n := len l) in *.
    assert (Hn : length l = Z.to_nat n) by (unfold n, len; lia).
    set (c1 := ((k - - (2 * n + dmin - 2)) mod 2 =? 0) && (0 <=? k - - (2 * n + dmin - 2))).
    set (c2 := ((- k - dmin) mod 2 =? 0) && (0 <=? - k - dmin)).
    destruct c2 eqn:E2; destruct c1 eqn:E1; subst c1 c2.
    - rewrite rev_nth by lia. f_equal. lia.
    - symmetry. apply nth_overflow. lia.
    - apply nth_overflow. rewrite rev_length. lia.
    - reflexivity.
  Qed.

  (* ~p has the reflected coefficients *)
  Theorem lp_get_inv (p : lpoly D) k : lp_isz p = false -> lp_coefs p <> [] ->
    lp_get O (lp_inv O p) k = lp_get O p (- k).
  Proof.
    intros Hz Hl. unfold lp_inv. rewrite Hz. rewrite lp_get_mk, lp_get_coef. apply coef_rev. exact Hl.
  Qed.
End Coef.
