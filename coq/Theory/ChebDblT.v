(* Theory/ChebDblT.v — Chebyshev doubling.  T_n(x) = cheb_series (unitvec n) x satisfies
     T_{n+2} = 2x T_{n+1} - T_n,   2 T_m T_{n+m} = T_{n+2m} + T_n   (all real x, no |x| <= 1 needed),
   hence T_2k = 2 T_k^2 - 1, T_2k+1 = 2 T_k T_k+1 - x.  Model side: v_pair computes (V_k, V_k+1),
   V_k = i^k T_k(x), from V_1 = i x by these formulas; soundness and logical relation. *)
From Coq Require Import ZArith QArith Qreals List Reals Lra Lia Bool Psatz PeanoNat.
From Coquelicot Require Import Complex.
From PyqspV Require Import Base.Ops Model.LPolyM Model.LAlgM Model.Checkers
  Theory.RingK Theory.LPolyT Theory.LAlgT Theory.RelT Theory.CplxT Theory.SupT Theory.FPProbT Theory.FPSimT.
Import ListNotations.
Open Scope R_scope.

Definition Ucs (n : nat) (x a b : R) : R := cheb_sum_R (repeat 0 n ++ [1]) x a b.
Definition Tn (n : nat) (x : R) : R := cheb_series (unitvec n) x.

Lemma Ucs_0 x a b : Ucs 0 x a b = a.
Proof. unfold Ucs; cbn [repeat app cheb_sum_R]. ring. Qed.
Lemma Ucs_S n x a b : Ucs (S n) x a b = Ucs n x b ((x + x) * b - a).
Proof. unfold Ucs; cbn [repeat app cheb_sum_R]. ring. Qed.

Lemma Ucs_rec n : forall x a b, Ucs (S (S n)) x a b = (x + x) * Ucs (S n) x a b - Ucs n x a b.
Proof.
  induction n as [|n IH]; intros x a b.
  - rewrite !Ucs_S, !Ucs_0. reflexivity.
  - rewrite (Ucs_S (S (S n))), IH, <- !Ucs_S. reflexivity.
Qed.

Lemma Tn_0 x : Tn 0 x = 1.
Proof. unfold Tn, cheb_series, unitvec. apply Ucs_0. Qed.
Lemma Tn_1 x : Tn 1 x = x.
Proof. unfold Tn, cheb_series, unitvec. fold (Ucs 1 x 1 x). rewrite Ucs_S, Ucs_0. reflexivity. Qed.
Lemma Tn_rec n x : Tn (S (S n)) x = (x + x) * Tn (S n) x - Tn n x.
Proof. unfold Tn, cheb_series, unitvec. apply Ucs_rec. Qed.

(* 2 T_m T_{n+m} = T_{n+2m} + T_n *)
Lemma Tn_prod_pair x m : (forall n, 2 * Tn m x * Tn (n + m) x = Tn (n + 2 * m) x + Tn n x) /\
                         (forall n, 2 * Tn (S m) x * Tn (n + S m) x = Tn (n + 2 * S m) x + Tn n x).
Proof.
  induction m as [|m [IH0 IH1]].
  - split; intros n.
    + rewrite Tn_0, !Nat.add_0_r. ring.
    + rewrite Tn_1. replace (n + 1)%nat with (S n) by lia. replace (n + 2 * 1)%nat with (S (S n)) by lia.
      rewrite Tn_rec. ring.
  - split; [exact IH1|]. intros n.
    rewrite (Tn_rec m).
    pose proof (IH1 (S n)) as A. pose proof (IH0 (S (S n))) as B.
    replace (S n + S m)%nat with (n + S (S m))%nat in A by lia.
    replace (S (S n) + m)%nat with (n + S (S m))%nat in B by lia.
    replace (S n + 2 * S m)%nat with (S (S (n + 2 * m + 1)))%nat in A by lia.
    replace (S (S n) + 2 * m)%nat with (S (n + 2 * m + 1))%nat in B by lia.
    replace (n + 2 * S (S m))%nat with (S (S (S (n + 2 * m + 1))))%nat by lia.
    rewrite (Tn_rec (S (n + 2 * m + 1))).
    pose proof (Tn_rec n x) as C.
    nra.
Qed.

Lemma Tn_double k x : Tn (2 * k) x = 2 * Tn k x * Tn k x - 1.
Proof. pose proof (proj1 (Tn_prod_pair x k) 0%nat) as H. cbn [Nat.add] in H. rewrite Tn_0 in H. lra. Qed.
Lemma Tn_double_1 k x : Tn (S (2 * k)) x = 2 * Tn k x * Tn (S k) x - x.
Proof.
  pose proof (proj1 (Tn_prod_pair x k) 1%nat) as H. rewrite Tn_1 in H.
  replace (1 + k)%nat with (S k) in H by lia. replace (1 + 2 * k)%nat with (S (2 * k)) in H by lia. lra.
Qed.
Lemma Tn_double_2 k x : Tn (S (S (2 * k))) x = 2 * Tn (S k) x * Tn (S k) x - 1.
Proof. rewrite <- Tn_double. f_equal. lia. Qed.

(* ---- powers of i *)
Lemma ipow_add m n : ipow (m + n) = Cmult (ipow m) (ipow n).
Proof. induction m as [|m IH]; cbn [Nat.add ipow]; [ring | rewrite IH; ring]. Qed.
Definition sgR (k : nat) : R := if Nat.even k then 1 else -1.
Lemma ipow_sq k : Cmult (ipow k) (ipow k) = RtoC (sgR k).
Proof.
  unfold sgR. induction k as [|k IH]; [cbn; ring|].
  rewrite Nat.even_succ, <- Nat.negb_even. cbn [ipow].
  transitivity (Cmult (Cmult Ci Ci) (Cmult (ipow k) (ipow k))); [ring|]. rewrite IH.
  destruct (Nat.even k); cbn [negb]; unfold Ci, Cmult, RtoC; cbn [fst snd]; f_equal; ring.
Qed.

Lemma RtoC_m1 : RtoC (-1) = Copp (RtoC 1).
Proof. rewrite <- RtoC_opp. f_equal. Qed.

(* ---- the doubling computation over C *)
Section VSound.
  Variables w wi : C.
  Hypothesis wwi : Cmult w wi = RtoC 1.
  Variable x : R.
  Variable X1 : lpoly C.
  Hypothesis WX : wf CR X1.
  Hypothesis EX : evx CR w wi X1 = Cmult Ci (RtoC x).
  Notation ev := (evx CR w wi).
  Notation O := (@OpsK CR).

  Lemma ev_sg k : ev (lp_scale O (sg_of O k) (lp_Id O)) = RtoC (sgR k).
  Proof.
    unfold lp_Id. rewrite (evx_scale CR w wi _ _ (wf_mk CR _ _)). rewrite (ev_const CR w wi).
    unfold sg_of, sgR. destruct (Nat.even k); cbn [d1 dneg OpsK kmul kopp k1 CR K];
      match goal with |- @eq _ ?a ?b => change (@eq C a b) end; [ring | rewrite RtoC_m1; ring].
  Qed.
  Lemma ev_sgX k : ev (lp_scale O (sg_of O k) X1) = Cmult (RtoC (sgR k)) (Cmult Ci (RtoC x)).
  Proof.
    rewrite (evx_scale CR w wi _ _ WX), EX.
    unfold sg_of, sgR. destruct (Nat.even k); cbn [d1 dneg OpsK kmul kopp k1 CR K];
      match goal with |- @eq _ ?a ?b => change (@eq C a b) end; [ring | rewrite RtoC_m1; ring].
  Qed.
  Lemma ev_two p : wf CR p -> ev (lp_scale O (two_of O) p) = Cmult (RtoC 2) (ev p).
  Proof.
    intros W. rewrite (evx_scale CR w wi _ _ W). unfold two_of. cbn [d1 dadd OpsK kmul kadd k1 CR K].
    assert (H2 : RtoC 2 = Cplus (RtoC 1) (RtoC 1)) by (rewrite <- RtoC_plus; f_equal; lra). rewrite H2.
    match goal with |- @eq _ ?a ?b => change (@eq C a b) end. ring.
  Qed.

  Definition vgood (k : nat) (ab : lpoly C * lpoly C) : Prop :=
    ev (fst ab) = Cmult (ipow k) (RtoC (Tn k x)) /\ ev (snd ab) = Cmult (ipow (S k)) (RtoC (Tn (S k) x)) /\
    wf CR (fst ab) /\ wf CR (snd ab).

  Lemma ipow_S k : ipow (S k) = Cmult Ci (ipow k).
  Proof. reflexivity. Qed.

  Lemma v_even k a b e : vgood k (a, b) ->
    lp_sub O (lp_scale O (two_of O) (lp_mul O a a)) (lp_scale O (sg_of O k) (lp_Id O)) = Some e ->
    ev e = Cmult (ipow (2 * k)) (RtoC (Tn (2 * k) x)) /\ wf CR e.
  Proof.
    intros (Ea & Eb & Wa & Wb) H. cbn [fst snd] in *. split; [|exact (wf_sub CR _ _ _ H)].
    pose proof (evx_sub CR w wi _ _ _ wwi (wf_scale CR _ _) (wf_scale CR _ _) H) as E.
    etransitivity; [exact E|]. rewrite (ev_two _ (wf_mul CR a a)), (evx_mul CR w wi a a wwi Wa Wa), ev_sg, Ea.
    replace (2 * k)%nat with (k + k)%nat by lia. rewrite ipow_add.
    replace (k + k)%nat with (2 * k)%nat by lia. rewrite Tn_double.
    cbn [ksub kmul CR K]. rewrite <- (ipow_sq k).
    rewrite RtoC_minus, !RtoC_mult. match goal with |- @eq _ ?u ?v => change (@eq C u v) end. ring.
  Qed.

  Lemma v_odd k a b f : vgood k (a, b) ->
    lp_sub O (lp_scale O (two_of O) (lp_mul O a b)) (lp_scale O (sg_of O k) X1) = Some f ->
    ev f = Cmult (ipow (S (2 * k))) (RtoC (Tn (S (2 * k)) x)) /\ wf CR f.
  Proof.
    intros (Ea & Eb & Wa & Wb) H. cbn [fst snd] in *. split; [|exact (wf_sub CR _ _ _ H)].
    pose proof (evx_sub CR w wi _ _ _ wwi (wf_scale CR _ _) (wf_scale CR _ _) H) as E.
    etransitivity; [exact E|]. rewrite (ev_two _ (wf_mul CR a b)), (evx_mul CR w wi a b wwi Wa Wb), ev_sgX, Ea, Eb.
    rewrite (ipow_S (2 * k)). replace (2 * k)%nat with (k + k)%nat by lia. rewrite ipow_add.
    replace (k + k)%nat with (2 * k)%nat by lia. rewrite Tn_double_1, (ipow_S k).
    cbn [ksub kmul CR K]. rewrite <- (ipow_sq k).
    rewrite RtoC_minus, !RtoC_mult. match goal with |- @eq _ ?u ?v => change (@eq C u v) end. ring.
  Qed.

  Lemma v_even2 k a b f : vgood k (a, b) ->
    lp_add O (lp_scale O (two_of O) (lp_mul O b b)) (lp_scale O (sg_of O k) (lp_Id O)) = Some f ->
    ev f = Cmult (ipow (S (S (2 * k)))) (RtoC (Tn (S (S (2 * k))) x)) /\ wf CR f.
  Proof.
    intros (Ea & Eb & Wa & Wb) H. cbn [fst snd] in *. split; [|exact (wf_add CR _ _ _ H)].
    pose proof (evx_add CR w wi _ _ _ wwi (wf_scale CR _ _) (wf_scale CR _ _) H) as E.
    etransitivity; [exact E|]. rewrite (ev_two _ (wf_mul CR b b)), (evx_mul CR w wi b b wwi Wb Wb), ev_sg, Eb.
    rewrite (ipow_S (S (2 * k))), (ipow_S (2 * k)). replace (2 * k)%nat with (k + k)%nat by lia. rewrite ipow_add.
    replace (k + k)%nat with (2 * k)%nat by lia. rewrite Tn_double_2, (ipow_S k).
    cbn [kadd kmul CR K]. rewrite <- (ipow_sq k).
    rewrite RtoC_minus, !RtoC_mult.
    assert (Hii : Cmult Ci Ci = Copp (RtoC 1)) by (unfold Ci, Cmult, Copp, RtoC; cbn [fst snd]; f_equal; ring).
    transitivity (Cplus (Cmult (Cmult (Cmult Ci Ci) (Cmult (ipow k) (ipow k))) (Cmult (RtoC 2) (Cmult (RtoC (Tn (S k) x)) (RtoC (Tn (S k) x)))))
                        (Cmult (ipow k) (ipow k))).
    { match goal with |- @eq _ ?u ?v => change (@eq C u v) end. ring. }
    transitivity (Cmult (Cmult (Cmult Ci Ci) (Cmult (ipow k) (ipow k)))
                        (Cminus (Cmult (Cmult (RtoC 2) (RtoC (Tn (S k) x))) (RtoC (Tn (S k) x))) (RtoC 1))).
    { rewrite Hii. ring. }
    ring.
  Qed.

  Theorem v_pair_sound p : forall ab, v_pair O p X1 = Some ab -> vgood (Pos.to_nat p) ab.
  Proof.
    induction p as [q IH|q IH|]; intros ab H; cbn [v_pair] in H.
    - destruct (v_pair O q X1) as [[a b]|] eqn:Eq; [|discriminate]. cbn [obind fst snd] in H.
      pose proof (IH _ eq_refl) as G.
      destruct (lp_sub O _ _) as [e|] eqn:Ee; [|discriminate]. cbn [obind] in H.
      destruct (lp_add O _ _) as [f|] eqn:Ef; [|discriminate]. cbn [obind] in H. apply (f_equal (fun o => match o with Some v => v | None => ab end)) in H. cbv beta iota in H. rewrite <- H. clear H.
      rewrite Pos2Nat.inj_xI.
      destruct (v_odd _ _ _ _ G Ee) as [E1 W1]. destruct (v_even2 _ _ _ _ G Ef) as [E2 W2].
      unfold vgood; cbn [fst snd]. repeat split; assumption.
    - destruct (v_pair O q X1) as [[a b]|] eqn:Eq; [|discriminate]. cbn [obind fst snd] in H.
      pose proof (IH _ eq_refl) as G.
      destruct (lp_sub O (lp_scale O (two_of O) (lp_mul O a a)) _) as [e|] eqn:Ee; [|discriminate]. cbn [obind] in H.
      destruct (lp_sub O (lp_scale O (two_of O) (lp_mul O a b)) _) as [f|] eqn:Ef; [|discriminate]. cbn [obind] in H. apply (f_equal (fun o => match o with Some v => v | None => ab end)) in H. cbv beta iota in H. rewrite <- H. clear H.
      rewrite Pos2Nat.inj_xO.
      destruct (v_even _ _ _ _ G Ee) as [E1 W1]. destruct (v_odd _ _ _ _ G Ef) as [E2 W2].
      unfold vgood; cbn [fst snd]. repeat split; assumption.
    - destruct (lp_add O _ _) as [v2|] eqn:Ev; [|discriminate]. cbn [obind] in H. apply (f_equal (fun o => match o with Some v => v | None => ab end)) in H. cbv beta iota in H. rewrite <- H. clear H.
      change (Pos.to_nat 1) with 1%nat. unfold vgood; cbn [fst snd].
      split; [rewrite EX, Tn_1; cbn [ipow]; match goal with |- @eq _ ?u ?v => change (@eq C u v) end; ring|]. split; [|split; [exact WX | exact (wf_add CR _ _ _ Ev)]].
      pose proof (evx_add CR w wi _ _ _ wwi (wf_scale CR _ _) (wf_mk CR _ _) Ev) as E.
      etransitivity; [exact E|]. rewrite (ev_two _ (wf_mul CR X1 X1)), (evx_mul CR w wi X1 X1 wwi WX WX), EX.
      unfold lp_Id. rewrite (ev_const CR w wi). rewrite (Tn_rec 0), Tn_1, Tn_0. cbn [ipow d1 OpsK kadd kmul k1 CR K].
      rewrite RtoC_minus, RtoC_mult, RtoC_plus.
      assert (Hii : Cmult Ci Ci = Copp (RtoC 1)) by (unfold Ci, Cmult, Copp, RtoC; cbn [fst snd]; f_equal; ring).
      transitivity (Cplus (Cmult (Cmult Ci Ci) (Cmult (RtoC 2) (Cmult (RtoC x) (RtoC x)))) (RtoC 1)).
      { match goal with |- @eq _ ?u ?v => change (@eq C u v) end. ring. }
      transitivity (Cmult (Cmult Ci Ci) (Cminus (Cmult (Cplus (RtoC x) (RtoC x)) (RtoC x)) (RtoC 1))); [|ring].
      assert (H2 : RtoC 2 = Cplus (RtoC 1) (RtoC 1)) by (rewrite <- RtoC_plus; f_equal; lra). rewrite H2, Hii. ring.
  Qed.
End VSound.

(* ---- logical relation *)
Section VRel.
  Context {D1 D2 : Type} (O1 : Ops D1) (O2 : Ops D2) (rho : D1 -> D2 -> Prop).
  Hypothesis r0 : rho (d0 O1) (d0 O2).
  Hypothesis r1 : rho (d1 O1) (d1 O2).
  Hypothesis radd : forall a b c d, rho a c -> rho b d -> rho (dadd O1 a b) (dadd O2 c d).
  Hypothesis rmul : forall a b c d, rho a c -> rho b d -> rho (dmul O1 a b) (dmul O2 c d).
  Hypothesis rneg : forall a c, rho a c -> rho (dneg O1 a) (dneg O2 c).
  Definition pair_rel (x : lpoly D1 * lpoly D1) (y : lpoly D2 * lpoly D2) : Prop :=
    lp_rel rho (fst x) (fst y) /\ lp_rel rho (snd x) (snd y).
  Lemma sg_rel k : rho (sg_of O1 k) (sg_of O2 k).
  Proof. unfold sg_of. destruct (Nat.even k); [exact r1 | apply rneg, r1]. Qed.
  Lemma two_rel : rho (two_of O1) (two_of O2).
  Proof. apply radd; exact r1. Qed.
  Lemma Id_rel : lp_rel rho (lp_Id O1) (lp_Id O2).
  Proof. unfold lp_Id. apply (mk_rel O1 O2 rho r0). constructor; [exact r1 | constructor]. Qed.
  Let Rmul := lp_mul_rel O1 O2 rho r0 radd rmul.
  Let Rscale := lp_scale_rel O1 O2 rho r0 rmul.
  Let Radd := lp_add_rel O1 O2 rho r0 radd.
  Let Rsub := lp_sub_rel O1 O2 rho r0 radd rneg.

  Theorem v_pair_rel p X1 X2 : lp_rel rho X1 X2 -> orel pair_rel (v_pair O1 p X1) (v_pair O2 p X2).
  Proof.
    intros HX. induction p as [q IH|q IH|]; cbn [v_pair].
    - apply (obind_rel pair_rel pair_rel); [exact IH|]. intros ab ab' [Ha Hb].
      apply (obind_rel (lp_rel rho) pair_rel).
      + apply Rsub; apply Rscale; [apply two_rel | apply Rmul; assumption | apply sg_rel | exact HX].
      + intros e e' He. apply (obind_rel (lp_rel rho) pair_rel).
        * apply Radd; apply Rscale; [apply two_rel | apply Rmul; assumption | apply sg_rel | apply Id_rel].
        * intros f f' Hf. split; assumption.
    - apply (obind_rel pair_rel pair_rel); [exact IH|]. intros ab ab' [Ha Hb].
      apply (obind_rel (lp_rel rho) pair_rel).
      + apply Rsub; apply Rscale; [apply two_rel | apply Rmul; assumption | apply sg_rel | apply Id_rel].
      + intros e e' He. apply (obind_rel (lp_rel rho) pair_rel).
        * apply Rsub; apply Rscale; [apply two_rel | apply Rmul; assumption | apply sg_rel | exact HX].
        * intros f f' Hf. split; assumption.
    - apply (obind_rel (lp_rel rho) pair_rel).
      + apply Radd; [apply Rscale; [apply two_rel | apply Rmul; assumption] | apply Id_rel].
      + intros v v' Hv. split; assumption.
  Qed.
End VRel.
