(* Theory/ChebT.v — the Chebyshev tables defined by their recurrences (Model/ConvM.v), over any
   commutative ring in which 2 is invertible and w has an inverse wi; xa = (w + wi)/2:
     T_n(xa) = (w^n + wi^n)/2,      (w - wi) U_n(xa) = w^(n+1) - wi^(n+1);
   cheb2poly denotes the Chebyshev sum it is given (either kind). *)
From Coq Require Import ZArith List Ring Lia Bool.
From PyqspV Require Import Base.Ops Model.LPolyM Model.ConvM Theory.RingK Theory.LPolyT Theory.ConvT.
Import ListNotations.

Section ChebT.
  Variable K : CRing.
  Add Ring Kr8 : (Kring K).
  Notation "x + y" := (kadd x y).
  Notation "x * y" := (kmul x y).
  Notation "x - y" := (ksub x y).
  Notation "- x" := (kopp x).
  Notation O := (@OpsK K).
  Variables w wi half : K.
  Hypothesis wwi : w * wi = k1.
  Hypothesis half2 : half + half = k1.
  Notation xa := (xa K w wi half).
  Notation chebP := (chebP O).

  Lemma peval_pshift p x : peval (pshift O p) x = x * peval p x.
  Proof. unfold pshift. cbn [peval OpsK d0]. ring. Qed.
  Lemma peval_psub p q x : peval (psub O p q) x = peval p x - peval q x.
  Proof. unfold psub. rewrite peval_ladd, peval_lneg. symmetry. apply (Rsub_def (Kring K)). Qed.
  Lemma two_half : two O * half = k1.
  Proof. unfold two. cbn [OpsK dadd d1]. transitivity (half + half); [ring | exact half2]. Qed.

  Definition ET (n : nat) : K := (pw w n + pw wi n) * half.
  Definition EU (n : nat) : K := pw w (S n) - pw wi (S n).

  Lemma step_T (W V : K) :
    two O * xa * ((w * W + wi * V) * half) - (W + V) * half = (w * (w * W) + wi * (wi * V)) * half.
  Proof.
    unfold ConvT.xa.
    transitivity ((two O * half) * ((w * (w * W) + wi * (wi * V)) * half + ((w * wi) * (W + V)) * half) - (W + V) * half); [ring|].
    rewrite two_half, wwi. ring.
  Qed.

  Lemma cheb_pair_T n : peval (fst (cheb_pair O false n)) xa = ET n /\ peval (snd (cheb_pair O false n)) xa = ET (S n).
  Proof.
    induction n as [|n [IH1 IH2]].
    - cbn [cheb_pair fst snd peval]. unfold ET. cbn [pw OpsK d0 d1]. split.
      + transitivity ((half + half)); [rewrite half2; ring | ring].
      + unfold ConvT.xa. ring.
    - cbn [cheb_pair]. destruct (cheb_pair O false n) as [a b]. cbn [fst snd] in *. split; [exact IH2|].
      rewrite peval_psub, peval_scale, peval_pshift, IH1, IH2. unfold ET. cbn [pw].
      rewrite <- (step_T (pw w n) (pw wi n)). ring.
  Qed.

  Theorem chebT_laurent n : peval (chebP false n) xa = (pw w n + pw wi n) * half.
  Proof. exact (proj1 (cheb_pair_T n)). Qed.

  Lemma step_U (W V : K) :
    two O * xa * (w * (w * W) - wi * (wi * V)) - (w * W - wi * V) = w * (w * (w * W)) - wi * (wi * (wi * V)).
  Proof.
    unfold ConvT.xa.
    transitivity ((two O * half) * (w * (w * (w * W)) - wi * (wi * (wi * V)) + (w * wi) * (w * W - wi * V)) - (w * W - wi * V)); [ring|].
    rewrite two_half, wwi. ring.
  Qed.

  Lemma cheb_pair_U n : (w - wi) * peval (fst (cheb_pair O true n)) xa = EU n /\
                        (w - wi) * peval (snd (cheb_pair O true n)) xa = EU (S n).
  Proof.
    induction n as [|n [IH1 IH2]].
    - cbn [cheb_pair fst snd peval]. unfold EU. cbn [pw OpsK d0 d1]. split; [ring|].
      unfold ConvT.xa.
      transitivity ((two O * half) * (w * w - wi * wi)); [ring | rewrite two_half; ring].
    - cbn [cheb_pair]. destruct (cheb_pair O true n) as [a b]. cbn [fst snd] in *. split; [exact IH2|].
      rewrite peval_psub, peval_scale, peval_pshift.
      transitivity (two O * xa * ((w - wi) * peval b xa) - (w - wi) * peval a xa); [ring|].
      rewrite IH1, IH2. unfold EU. cbn [pw].
      rewrite <- (step_U (pw w n) (pw wi n)). ring.
  Qed.

  Theorem chebU_laurent n : (w - wi) * peval (chebP true n) xa = pw w (S n) - pw wi (S n).
  Proof. exact (proj1 (cheb_pair_U n)). Qed.

  (* cheb2poly denotes the Chebyshev sum  sum_k c_k P_k(x)  for the kind's table *)
  Fixpoint chebsum (kindU : bool) (cs : list K) (k : nat) (x : K) : K :=
    match cs with [] => k0 | c :: cs' => c * peval (chebP kindU k) x + chebsum kindU cs' (S k) x end.

  Lemma peval_repeat0 n x : peval (repeat (d0 O) n) x = k0.
  Proof. induction n; cbn [repeat peval]; [reflexivity | rewrite IHn; cbn [OpsK d0]; ring]. Qed.

  Lemma c2p_aux_sound kindU cs : forall k x, peval (c2p_aux O kindU cs k) x = chebsum kindU cs k x.
  Proof.
    induction cs as [|c cs IH]; intros k x; cbn [c2p_aux chebsum peval]; [reflexivity|].
    rewrite peval_ladd, peval_scale, IH. reflexivity.
  Qed.

  Theorem c2p_sound kindU cs x : peval (c2p O kindU cs) x = chebsum kindU cs 0 x.
  Proof. unfold c2p, pad_to. rewrite peval_app, peval_repeat0, c2p_aux_sound. ring. Qed.
End ChebT.
