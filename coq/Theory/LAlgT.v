(* Theory/LAlgT.v — Low-algebra elements denote 2x2 matrices
     M(A + B iX) = [[A(w), i B(w)], [i B(1/w), A(1/w)]]
   over any commutative ring with a unit w and an element i with i*i = -1, and every model
   operation is the corresponding matrix operation.  Phase lists of any length denote the
   ordered product R(phi_0) w R(phi_1) ... w R(phi_n), which has determinant 1. *)
From Coq Require Import ZArith List Ring Lia Bool.
From PyqspV Require Import Base.Ops Model.LPolyM Model.LAlgM Model.ResponseM Theory.RingK Theory.LPolyT.
From PyqspV Require Export Model.ResponseM.
Import ListNotations.


Section LAlgT.
  Variable K : CRing.
  Add Ring Kr3 : (Kring K).
  Notation "x + y" := (kadd x y).
  Notation "x * y" := (kmul x y).
  Notation "x - y" := (ksub x y).
  Notation "- x" := (kopp x).
  Notation O := (@OpsK K).
  Notation lpoly := (lpoly K).
  Notation lalg := (lalg K).
  Notation mat := (mat2 K).

  Definition mmul (a b : mat) : mat :=
    M2 (m00 a * m00 b + m01 a * m10 b) (m00 a * m01 b + m01 a * m11 b)
       (m10 a * m00 b + m11 a * m10 b) (m10 a * m01 b + m11 a * m11 b).
  Definition madd (a b : mat) : mat := M2 (m00 a + m00 b) (m01 a + m01 b) (m10 a + m10 b) (m11 a + m11 b).
  Definition mneg (a : mat) : mat := M2 (- m00 a) (- m01 a) (- m10 a) (- m11 a).
  Definition mscale (c : K) (a : mat) : mat := M2 (c * m00 a) (c * m01 a) (c * m10 a) (c * m11 a).
  Definition madj (a : mat) : mat := M2 (m11 a) (- m01 a) (- m10 a) (m00 a).
  Definition mdet (a : mat) : K := m00 a * m11 a - m01 a * m10 a.
  Definition mid : mat := M2 k1 k0 k0 k1.
  Definition mdiag (a d : K) : mat := M2 a k0 k0 d.

  Lemma mat_eq (a b : mat) : m00 a = m00 b -> m01 a = m01 b -> m10 a = m10 b -> m11 a = m11 b -> a = b.
  Proof. destruct a, b; cbn; intros; subst; reflexivity. Qed.

  Lemma mmul_assoc a b c : mmul (mmul a b) c = mmul a (mmul b c).
  Proof. apply mat_eq; cbn; ring. Qed.
  Lemma mmul_id_l a : mmul mid a = a.
  Proof. apply mat_eq; cbn; ring. Qed.
  Lemma mmul_id_r a : mmul a mid = a.
  Proof. apply mat_eq; cbn; ring. Qed.
  Lemma mdet_mul a b : mdet (mmul a b) = mdet a * mdet b.
  Proof. unfold mdet; cbn; ring. Qed.
  Lemma mmul_adj a : mmul a (madj a) = mscale (mdet a) mid.
  Proof. apply mat_eq; unfold mdet; cbn; ring. Qed.

  Variables w wi i : K.
  Hypothesis wwi : w * wi = k1.
  Hypothesis ii : i * i = - k1.
  Let wiw : wi * w = k1 := wiw K w wi wwi.

  Notation ev := (evx K w wi).
  Notation evi := (evx K wi w).

  Definition Mden (g : lalg) : mat :=
    M2 (ev (la_I g)) (i * ev (la_X g)) (i * evi (la_X g)) (evi (la_I g)).

  Definition gwf (g : lalg) : Prop := wf K (la_I g) /\ wf K (la_X g).

  Lemma la_mk_some (a x : lpoly) g : la_mk a x = Some g -> g = LA a x.
  Proof. unfold la_mk. destruct (lp_isconsistent a x); [intros H; injection H as <-; reflexivity | discriminate]. Qed.

  Lemma gwf_LA (a x : lpoly) : wf K a -> wf K x -> gwf (LA a x).
  Proof. split; assumption. Qed.

  (* product *)
  Theorem M_mul g h r : gwf g -> gwf h -> la_mul O g h = Some r ->
    Mden r = mmul (Mden g) (Mden h) /\ gwf r.
  Proof.
    intros [Wgi Wgx] [Whi Whx] H. unfold la_mul in H.
    destruct (lp_sub O _ _) as [pi|] eqn:Ei; [|discriminate].
    destruct (lp_add O _ _) as [px|] eqn:Ex; [|discriminate].
    cbn [obind] in H. apply la_mk_some in H. subst r.
    assert (Wpi : wf K pi) by (eapply wf_sub; exact Ei).
    assert (Wpx : wf K px) by (eapply wf_add; exact Ex).
    split; [|split; assumption].
    pose proof (wf_mul K) as WM. pose proof (wf_inv K) as WI.
    apply mat_eq; cbn [Mden mmul m00 m01 m10 m11 la_I la_X].
    - rewrite (evx_sub K w wi _ _ _ wwi (WM _ _) (WM _ _) Ei).
      rewrite !(evx_mul K w wi) by auto. rewrite (evx_inv K wi w) by (auto using wiw).
      transitivity (ev (la_I g) * ev (la_I h) + (i * i) * (ev (la_X g) * evi (la_X h))); [rewrite ii; ring | ring].
    - rewrite (evx_add K w wi _ _ _ wwi (WM _ _) (WM _ _) Ex).
      rewrite !(evx_mul K w wi) by auto. rewrite (evx_inv K wi w) by (auto using wiw). ring.
    - rewrite (evx_add K wi w _ _ _ wiw (WM _ _) (WM _ _) Ex).
      rewrite !(evx_mul K wi w) by auto. rewrite (evx_inv K w wi) by auto. ring.
    - rewrite (evx_sub K wi w _ _ _ wiw (WM _ _) (WM _ _) Ei).
      rewrite !(evx_mul K wi w) by auto. rewrite (evx_inv K w wi) by auto.
      transitivity ((i * i) * (evi (la_X g) * ev (la_X h)) + evi (la_I g) * evi (la_I h)); [rewrite ii; ring | ring].
  Qed.

  Theorem M_add g h r : gwf g -> gwf h -> la_add O g h = Some r ->
    Mden r = madd (Mden g) (Mden h) /\ gwf r.
  Proof.
    intros [Wgi Wgx] [Whi Whx] H. unfold la_add in H.
    destruct (lp_add O (la_I g) _) as [pi|] eqn:Ei; [|discriminate].
    destruct (lp_add O (la_X g) _) as [px|] eqn:Ex; [|discriminate].
    cbn [obind] in H. apply la_mk_some in H. subst r.
    split; [|split; eapply wf_add; eassumption].
    apply mat_eq; cbn [Mden madd m00 m01 m10 m11 la_I la_X].
    - apply (evx_add K w wi); assumption.
    - rewrite (evx_add K w wi _ _ _ wwi Wgx Whx Ex). ring.
    - rewrite (evx_add K wi w _ _ _ wiw Wgx Whx Ex). ring.
    - apply (evx_add K wi w); assumption.
  Qed.

  Theorem M_neg g r : gwf g -> la_neg O g = Some r -> Mden r = mneg (Mden g) /\ gwf r.
  Proof.
    intros [Wi Wx] H. unfold la_neg in H. apply la_mk_some in H. subst r.
    split; [|split; apply wf_neg].
    apply mat_eq; cbn [Mden mneg m00 m01 m10 m11 la_I la_X]; rewrite !evx_neg by assumption; ring.
  Qed.

  Theorem M_sub g h r : gwf g -> gwf h -> la_sub O g h = Some r ->
    Mden r = madd (Mden g) (mneg (Mden h)) /\ gwf r.
  Proof.
    intros Wg Wh H. unfold la_sub in H.
    destruct (la_neg O h) as [nh|] eqn:En; [|discriminate]. cbn [obind] in H.
    destruct (M_neg h nh Wh En) as [E1 W1].
    destruct (M_add g nh r Wg W1 H) as [E2 W2]. rewrite E2, E1. split; [reflexivity | exact W2].
  Qed.

  (* ~g is the adjugate (= inverse for determinant 1, = conjugate transpose on the circle) *)
  Theorem M_inv g r : gwf g -> la_inv O g = Some r -> Mden r = madj (Mden g) /\ gwf r.
  Proof.
    intros [Wi Wx] H. unfold la_inv in H. apply la_mk_some in H. subst r.
    split; [|split; [apply wf_inv | apply wf_neg]].
    apply mat_eq; cbn [Mden madj m00 m01 m10 m11 la_I la_X].
    - rewrite (evx_inv K wi w) by (auto using wiw). reflexivity.
    - rewrite evx_neg by assumption. ring.
    - rewrite evx_neg by assumption. ring.
    - rewrite (evx_inv K w wi) by auto. reflexivity.
  Qed.

  (* element * Laurent polynomial = matrix * diag(p(w), p(1/w)) *)
  Theorem M_mul_poly g p r : gwf g -> wf K p -> la_mul_poly O g p = Some r ->
    Mden r = mmul (Mden g) (mdiag (ev p) (evi p)) /\ gwf r.
  Proof.
    intros [Wi Wx] Wp H. unfold la_mul_poly in H. apply la_mk_some in H. subst r.
    split; [|split; apply wf_mul].
    pose proof (wf_inv K p) as WI.
    apply mat_eq; cbn [Mden mmul mdiag m00 m01 m10 m11 la_I la_X].
    - rewrite (evx_mul K w wi) by auto. ring.
    - rewrite (evx_mul K w wi) by auto. rewrite (evx_inv K wi w) by (auto using wiw). ring.
    - rewrite (evx_mul K wi w) by auto. rewrite (evx_inv K w wi) by auto. ring.
    - rewrite (evx_mul K wi w) by auto. ring.
  Qed.

  Theorem M_poly_mul p g r : gwf g -> wf K p -> poly_mul_la O p g = Some r ->
    Mden r = mmul (mdiag (ev p) (evi p)) (Mden g) /\ gwf r.
  Proof.
    intros [Wi Wx] Wp H. unfold poly_mul_la in H. apply la_mk_some in H. subst r.
    split; [|split; apply wf_mul].
    apply mat_eq; cbn [Mden mmul mdiag m00 m01 m10 m11 la_I la_X].
    - rewrite (evx_mul K w wi) by auto. ring.
    - rewrite (evx_mul K w wi) by auto. ring.
    - rewrite (evx_mul K wi w) by auto. ring.
    - rewrite (evx_mul K wi w) by auto. ring.
  Qed.

  Theorem M_scale g a r : gwf g -> la_scale O g a = Some r -> Mden r = mscale a (Mden g) /\ gwf r.
  Proof.
    intros [Wi Wx] H. unfold la_scale in H. apply la_mk_some in H. subst r.
    split; [|split; apply wf_scale].
    apply mat_eq; cbn [Mden mscale m00 m01 m10 m11 la_I la_X]; rewrite !evx_scale by assumption; ring.
  Qed.

  (* the generators *)
  Definition Rot (cs : K * K) : mat := M2 (fst cs) (i * snd cs) (i * snd cs) (fst cs).

  Lemma ev_const x xi c : evx K x xi (mk O [c] 0) = c.
  Proof. rewrite evx_mk. cbn [peval]. rewrite zpw_0. ring. Qed.

  Lemma M_rotation cs : Mden (la_rotation O cs) = Rot cs.
  Proof. unfold Mden, la_rotation, Rot. cbn [la_I la_X]. rewrite !ev_const. reflexivity. Qed.

  Lemma gwf_rotation cs : gwf (la_rotation O cs).
  Proof. split; apply wf_mk. Qed.

  Lemma ev_w : ev (lp_w O) = w.
  Proof. unfold lp_w. rewrite evx_mk. cbn [peval]. rewrite zpw_1. cbn. ring. Qed.
  Lemma evi_w : evi (lp_w O) = wi.
  Proof. unfold lp_w. rewrite evx_mk. cbn [peval]. rewrite zpw_1. cbn. ring. Qed.

  Lemma M_iX : Mden (la_iX O) = M2 k0 i i k0.
  Proof.
    unfold Mden, la_iX. cbn [la_I la_X]. rewrite !ev_const, !evx_mk. cbn [peval].
    apply mat_eq; cbn; ring.
  Qed.

  Definition Wm : mat := mdiag w wi.

  (* unitary_from_angles: the ordered product, for every length *)
  Fixpoint prod_angles (acc : mat) (l : list (K * K)) : mat :=
    match l with [] => acc | cs :: l' => prod_angles (mmul (mmul acc Wm) (Rot cs)) l' end.

  Lemma from_angles_aux_sound l : forall res r, gwf res ->
    la_from_angles_aux O res l = Some r -> Mden r = prod_angles (Mden res) l /\ gwf r.
  Proof.
    induction l as [|cs l IH]; intros res r W H; cbn [la_from_angles_aux prod_angles] in *.
    - injection H as <-. split; [reflexivity | exact W].
    - destruct (la_mul_poly O res (lp_w O)) as [a|] eqn:Ea; [|discriminate]. cbn [obind] in H.
      destruct (la_mul O a (la_rotation O cs)) as [b|] eqn:Eb; [|discriminate]. cbn [obind] in H.
      destruct (M_mul_poly res (lp_w O) a W (wf_mk K _ _) Ea) as [E1 W1].
      destruct (M_mul a (la_rotation O cs) b W1 (gwf_rotation cs) Eb) as [E2 W2].
      destruct (IH b r W2 H) as [E3 W3]. split; [|exact W3].
      rewrite E3, E2, E1, M_rotation, ev_w, evi_w. reflexivity.
  Qed.

  Theorem from_angles_sound cs l r : la_from_angles O (cs :: l) = Some r ->
    Mden r = prod_angles (Rot cs) l /\ gwf r.
  Proof.
    cbn [la_from_angles]. intros H.
    destruct (from_angles_aux_sound l _ r (gwf_rotation cs) H) as [E W].
    rewrite M_rotation in E. split; assumption.
  Qed.

  (* unit determinant: unitarity of every phase product *)
  Definition unit_cs (cs : K * K) : Prop := fst cs * fst cs + snd cs * snd cs = k1.

  Lemma det_Rot cs : unit_cs cs -> mdet (Rot cs) = k1.
  Proof.
    unfold unit_cs, mdet, Rot; cbn. intros H. rewrite <- H.
    transitivity (fst cs * fst cs - (i * i) * (snd cs * snd cs)); [ring | rewrite ii; ring].
  Qed.

  Lemma det_Wm : mdet Wm = k1.
  Proof. unfold mdet, Wm, mdiag; cbn. rewrite wwi. ring. Qed.

  Lemma det_prod_angles l : forall acc, Forall unit_cs l -> mdet (prod_angles acc l) = mdet acc.
  Proof.
    induction l as [|cs l IH]; intros acc HF; cbn [prod_angles]; [reflexivity|].
    inversion HF as [|? ? Hc Hl]; subst.
    rewrite IH by assumption. rewrite !mdet_mul, det_Wm, det_Rot by assumption. ring.
  Qed.

  Theorem from_angles_det cs l r : Forall unit_cs (cs :: l) ->
    la_from_angles O (cs :: l) = Some r -> mdet (Mden r) = k1.
  Proof.
    intros HF H. inversion HF as [|? ? Hc Hl]; subst.
    destruct (from_angles_sound cs l r H) as [E _]. rewrite E, det_prod_angles by assumption.
    apply det_Rot; assumption.
  Qed.

  (* g * ~g = det(M g) * Id : the library's pnorm is the determinant *)
  Theorem pnorm_is_det g pn : gwf g -> la_pnorm O g = Some pn -> ev pn = mdet (Mden g).
  Proof.
    intros W H. unfold la_pnorm in H.
    destruct (la_inv O g) as [gi|] eqn:Ei; [|discriminate]. cbn [obind] in H.
    destruct (la_mul O g gi) as [m|] eqn:Em; [|discriminate]. cbn [obind] in H. injection H as <-.
    destruct (M_inv g gi W Ei) as [E1 W1].
    destruct (M_mul g gi m W W1 Em) as [E2 _].
    change (ev (la_I m)) with (m00 (Mden m)). rewrite E2, E1, mmul_adj. cbn. ring.
  Qed.
End LAlgT.
