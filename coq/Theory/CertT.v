(* Theory/CertT.v — soundness of the response certificates of Model/Checkers.v:
   a [true] from the checker implies the real-analysis statement at every point of [-1,1]
   (every point of the unit circle). *)
From Coq Require Import ZArith QArith Qreals List Reals Lra Lia Bool.
From Coquelicot Require Import Complex.
From PyqspV Require Import Base.Ops Base.IntervalZ Base.TrigZ Model.LPolyM Model.LAlgM Model.QInst
  Model.ConvM Model.Checkers Theory.RingK Theory.LPolyT Theory.LAlgT Theory.IntervalT Theory.TrigT
  Theory.RelT Theory.CplxT Theory.RespT Theory.ConvT Theory.QInstT Theory.QC.
Import ListNotations.
Open Scope R_scope.

Definition csC (q : Q) : C * C := (RtoC (cos (Q2R q)), RtoC (sin (Q2R q))).

Lemma cs_encl_rel phis : Forall2 (cs_rel rIC) (map cos_sin_encl phis) (map csC phis).
Proof.
  induction phis as [|q l IH]; cbn [map]; constructor; [|exact IH].
  destruct (cos_sin_encl_ok q) as [Hc Hs]. split; apply rIC_RtoC; assumption.
Qed.

Lemma lpQ2I_rel F : lp_rel rIC (lpQ2I F) (lpQ2C F).
Proof.
  unfold lp_rel, lpQ2I, lpQ2C; cbn [lp_dmin lp_isz lp_coefs]. repeat split.
  induction (lp_coefs F) as [|q l IH]; cbn [map]; constructor; [|exact IH].
  apply rIC_RtoC, iofQ_ok.
Qed.

Definition hC : C := RtoC (/ sqrt 2).

Lemma Ci_Ci : Cmult Ci Ci = Copp (RtoC 1).
Proof. unfold Ci, Cmult, Copp, RtoC; cbn [fst snd]. f_equal; ring. Qed.

Lemma hC_hC : Cplus (Cmult hC hC) (Cmult hC hC) = RtoC 1.
Proof.
  unfold hC. rewrite <- RtoC_mult, <- RtoC_plus. f_equal.
  assert (H : sqrt 2 * sqrt 2 = 2) by (apply sqrt_sqrt; lra).
  assert (Hn : sqrt 2 <> 0) by (intros E; rewrite E in H; lra).
  field_simplify; [|exact Hn]. rewrite <- H at 1. field. exact Hn.
Qed.

Lemma cis_split t : Cplus (RtoC (cos t)) (Cmult Ci (RtoC (sin t))) = cis t.
Proof. unfold cis, Ci, Cplus, Cmult, RtoC; cbn [fst snd]. f_equal; ring. Qed.
Lemma cis_split_neg t : Cminus (RtoC (cos t)) (Cmult Ci (RtoC (sin t))) = cis (- t).
Proof. unfold cis, Ci, Cminus, Cplus, Copp, Cmult, RtoC; cbn [fst snd]. rewrite cos_neg, sin_neg. f_equal; ring. Qed.

Lemma unit_as t : Cplus (Cmult (RtoC (cos t)) (RtoC (cos t))) (Cmult (RtoC (sin t)) (RtoC (sin t))) = RtoC 1.
Proof.
  rewrite <- !RtoC_mult, <- RtoC_plus. f_equal. pose proof (sin2_cos2 t) as H. unfold Rsqr in H. lra.
Qed.

(* the sequence unitary in the Wz convention at the point w = e^{i theta} *)
Definition Uz_at (phi0 : Q) (rest : list Q) (theta : R) : mat2 C :=
  Uz CR Ci hC (RtoC (cos theta)) (RtoC (sin theta)) (csC phi0) (map csC rest).

Lemma orel_some_l {A B} (R : A -> B -> Prop) a y : orel R (Some a) y -> exists b, y = Some b /\ R a b.
Proof. destruct y; cbn; [eauto | contradiction]. Qed.

Theorem check_ipoly_sound phi0 rest F tol :
  check_ipoly (phi0 :: rest) F tol = true -> wf CR (lpQ2C F) ->
  forall theta, Cmod (Cminus (m00 (Uz_at phi0 rest theta)) (evx CR (cis theta) (cis (- theta)) (lpQ2C F))) <= Q2R tol.
Proof.
  unfold check_ipoly. intros H WF theta.
  destruct (resp_elem (phi0 :: rest)) as [g|] eqn:Eg; [|discriminate].
  destruct (norm1_diff (la_I g) F) as [n|] eqn:En; [|discriminate].
  apply scaled_le_q_ok in H.
  (* the complex-valued run of the same model term *)
  pose proof (la_from_angles_rel OpsI OpsC rIC rIC_0 rIC_1 rIC_add rIC_mul rIC_neg _ _ (cs_encl_rel (phi0 :: rest))) as R1.
  unfold resp_elem in Eg. rewrite Eg in R1. apply orel_some_l in R1. destruct R1 as (gC & EgC & [RI RX]).
  unfold norm1_diff in En.
  destruct (lp_sub OpsI (la_I g) (lpQ2I F)) as [d|] eqn:Ed; [|discriminate]. cbn [obind] in En. injection En as <-.
  pose proof (lp_sub_rel OpsI OpsC rIC rIC_0 rIC_add rIC_neg _ _ _ _ RI (lpQ2I_rel F)) as R2.
  rewrite Ed in R2. apply orel_some_l in R2. destruct R2 as (dC & EdC & Rd).
  cbn [map] in EgC.
  set (w := cis theta). set (wi := cis (- theta)).
  assert (Hw : Cmult w wi = RtoC 1) by apply cis_inv.
  destruct (from_angles_sound CR w wi Ci Hw Ci_Ci (csC phi0) (map csC rest) gC EgC) as [_ [WgI WgX]].
  pose proof (evx_sub CR w wi _ _ _ Hw WgI WF EdC) as Esub.
  pose proof (evx_bound_from_intervals w wi d dC (Cmod_cis _) (Cmod_cis _) Rd) as Hb.
  assert (Eresp : m00 (Uz_at phi0 rest theta) = evx CR w wi (la_I gC)).
  { unfold Uz_at.
    pose proof (resp_wz_z_is_ipoly CR Ci hC Ci_Ci hC_hC (RtoC (cos theta)) (RtoC (sin theta)) (csC phi0) (map csC rest) gC (unit_as theta) EgC) as E.
    unfold meas_z in E. etransitivity; [exact E|].
    change (@kadd CR (RtoC (cos theta)) (@kmul CR Ci (RtoC (sin theta)))) with (Cplus (RtoC (cos theta)) (Cmult Ci (RtoC (sin theta)))).
    change (@ksub CR (RtoC (cos theta)) (@kmul CR Ci (RtoC (sin theta)))) with (Cminus (RtoC (cos theta)) (Cmult Ci (RtoC (sin theta)))).
    rewrite cis_split, cis_split_neg. reflexivity. }
  rewrite Eresp.
  change (Cminus (evx CR w wi (la_I gC)) (evx CR w wi (lpQ2C F)))
    with (@ksub CR (evx CR w wi (la_I gC)) (evx CR w wi (lpQ2C F))).
  match goal with |- Cmod ?x <= _ => replace x with (evx CR w wi dC) by (exact Esub) end.
  pose proof sc_pos as Hs.
  apply Rmult_le_reg_r with sc; [exact Hs|]. eapply Rle_trans; [exact Hb | exact H].
Qed.
