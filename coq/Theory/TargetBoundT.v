(* Theory/TargetBoundT.v — admissibility of the targets the properties quantify over (C03, C13):
   a Chebyshev series is bounded on [-1,1] by the 1-norm of its coefficient vector, and the Laurent
   form [cheb_to_laurent] of a definite-parity target (the object the C13 certificate compares with)
   has the same 1-norm, hence the same bound on the whole unit circle.  With ‖c‖₁ <= 0.9 the target
   stays at distance >= 0.1 from ±1: the hypothesis of both properties makes the request feasible. *)
From Coq Require Import ZArith QArith Qabs Qreals List Reals Lra Lia Bool.
From Coquelicot Require Import Complex.
From PyqspV Require Import Base.Ops Model.LPolyM Model.LAlgM Model.QInst Model.Checkers
  Theory.RingK Theory.LPolyT Theory.CplxT Theory.QInstT Theory.QC Theory.CornerT Theory.SupT Theory.C04T.
Import ListNotations.
Open Scope R_scope.

(* ---- real Chebyshev series *)
Lemma trig_sum_norm1 c : forall k t, Rabs (trig_sum c k t) <= sumR (map Rabs c).
Proof.
  induction c as [|ck c IH]; intros k t; cbn [trig_sum map sumR].
  - rewrite Rabs_R0. lra.
  - eapply Rle_trans; [apply Rabs_triang|]. apply Rplus_le_compat; [|apply IH].
    rewrite Rabs_mult. pose proof (COS_bound (INR k * t)) as [B1 B2]. pose proof (Rabs_pos ck).
    assert (Rabs (cos (INR k * t)) <= 1) by (apply Rabs_le; lra). nra.
Qed.

Theorem cheb_series_norm1 c x : -1 <= x <= 1 -> Rabs (cheb_series c x) <= sumR (map Rabs c).
Proof. intros Hx. rewrite <- (cos_acos x Hx), cheb_series_trig. apply trig_sum_norm1. Qed.

(* ---- the Laurent form of a definite-parity target *)
Definition n1 (l : list Q) : R := sumR (map Cmod (map q2c l)).

Lemma n1_app a b : n1 (a ++ b) = n1 a + n1 b.
Proof. unfold n1. induction a as [|x a IH]; cbn [app map sumR]; [lra | rewrite IH; lra]. Qed.

Lemma n1_rev l : n1 (rev l) = n1 l.
Proof.
  induction l as [|x l IH]; cbn [rev]; [reflexivity|]. rewrite n1_app, IH. unfold n1. cbn [map sumR]. lra.
Qed.

Lemma n1_cons x l : n1 (x :: l) = Rabs (Q2R x) + n1 l.
Proof. unfold n1. cbn [map sumR]. unfold q2c at 1. rewrite Cmod_R. reflexivity. Qed.

Lemma n1_half l : n1 (map (Qmult qhalf1) l) = n1 l / 2.
Proof.
  induction l as [|x l IH]; cbn [map]; [unfold n1; cbn; lra|]. rewrite !n1_cons, IH, Q2R_mult.
  replace (Q2R qhalf1) with (/ 2) by (unfold qhalf1, Q2R; cbn; lra).
  rewrite Rabs_mult, (Rabs_pos_eq (/ 2)) by lra. lra.
Qed.

Lemma n1_nonneg l : 0 <= n1 l.
Proof. induction l as [|x l IH]; [unfold n1; cbn; lra | rewrite n1_cons; pose proof (Rabs_pos (Q2R x)); lra]. Qed.

Lemma coefs_mk_norm (l : list Q) dmin : n1 (lp_coefs (mk OpsQ l dmin)) = n1 l.
Proof.
  destruct l as [|x l]; cbn [mk lp_coefs]; [|reflexivity].
  rewrite n1_cons. cbn [d0 OpsQ]. unfold n1; cbn [map sumR]. rewrite Q2R_0', Rabs_R0. lra.
Qed.

Theorem cheb_to_laurent_norm1 odd f :
  sumR (map Cmod (lp_coefs (lpQ2C (cheb_to_laurent odd f)))) = n1 f.
Proof.
  unfold lpQ2C. cbn [lp_coefs]. fold (n1 (lp_coefs (cheb_to_laurent odd f))).
  unfold cheb_to_laurent. destruct odd.
  - rewrite coefs_mk_norm, n1_app, n1_rev, n1_half. lra.
  - destruct f as [|f0 ft]; cbn [map].
    + rewrite coefs_mk_norm. reflexivity.
    + rewrite coefs_mk_norm, !n1_app, n1_rev, n1_half, n1_cons. unfold n1 at 2. cbn [map sumR]. rewrite n1_cons. lra.
Qed.

(* on the whole unit circle the target of the symmetric-QSP certificate is at most ‖c‖₁ *)
Theorem target_circle_bound odd c theta :
  Cmod (evx CR (cis theta) (cis (- theta)) (lpQ2C (cheb_to_laurent odd c))) <= Q2R (Qnorm1 c).
Proof.
  eapply Rle_trans; [apply Cmod_evx_le; apply Cmod_cis|].
  rewrite cheb_to_laurent_norm1, Qnorm1_ok. unfold n1. lra.
Qed.

Corollary target_admissible odd c theta : (Qnorm1 c <= 9 # 10)%Q ->
  Cmod (evx CR (cis theta) (cis (- theta)) (lpQ2C (cheb_to_laurent odd c))) <= 9 / 10.
Proof.
  intros H. eapply Rle_trans; [apply target_circle_bound|].
  apply Qle_Rle in H. replace (Q2R (9 # 10)) with (9 / 10) in H by (unfold Q2R; cbn; lra). exact H.
Qed.

(* the whole family at once: a definite-parity Chebyshev vector of 1-norm <= 0.9 has a Laurent form F with
   |1 - F(w) F(1/w)| >= 1 - 0.81 = 0.19 on the whole unit circle - the polynomial whose roots the completion
   splits has no root on (or near) the circle for any member, any degree, either parity *)
Theorem family_no_unit_roots odd c theta : (Qnorm1 c <= 9 # 10)%Q ->
  let F := lpQ2C (cheb_to_laurent odd c) in
  19 / 100 <= Cmod (Cminus (RtoC 1) (Cmult (evx CR (cis theta) (cis (- theta)) F) (evx CR (cis (- theta)) (cis theta) F))).
Proof.
  intros H F.
  assert (Hn : sumR (map Cmod (lp_coefs F)) <= 9 / 10).
  { unfold F. rewrite cheb_to_laurent_norm1. fold (n1 c). unfold n1. rewrite <- Qnorm1_ok.
    apply Qle_Rle in H. replace (Q2R (9 # 10)) with (9 / 10) in H by (unfold Q2R; cbn; lra). exact H. }
  assert (H0 : 0 <= sumR (map Cmod (lp_coefs F))).
  { unfold F. rewrite cheb_to_laurent_norm1. apply n1_nonneg. }
  eapply Rle_trans; [|apply (no_unit_roots F theta); lra]. nra.
Qed.
