(* Theory/C01T.v — soundness of the C01 response certificate:
   [check_resp_mono phis pc tol = true] implies that the Wx sequence of the phases, measured in
   the x basis (equivalently the Wz sequence measured in z), computed from the defining matrix
   product, equals the polynomial pc within tol at every point cos(theta) of [-1,1].
   Also: the semantics of the capitalised target and the budget inequality. *)
From Coq Require Import ZArith QArith Qreals List Reals Lra Lia Bool Psatz.
From Coquelicot Require Import Complex.
From PyqspV Require Import Base.Ops Base.IntervalZ Base.TrigZ Model.LPolyM Model.LAlgM Model.QInst
  Model.ConvM Model.Checkers Theory.RingK Theory.LPolyT Theory.LAlgT Theory.IntervalT Theory.TrigT
  Theory.RelT Theory.CplxT Theory.RespT Theory.ConvT Theory.QInstT Theory.QC Theory.CertT.
Import ListNotations.
Open Scope R_scope.

Definition halfC : C := q2c qhalf1.

Lemma halfC_2 : Cplus halfC halfC = RtoC 1.
Proof.
  unfold halfC, q2c, qhalf1. rewrite <- RtoC_plus. f_equal. unfold Q2R; cbn. lra.
Qed.

Lemma cis_plus_inv theta : Cmult (Cplus (cis theta) (cis (- theta))) halfC = RtoC (cos theta).
Proof.
  unfold cis, halfC, q2c, qhalf1, Cplus, Cmult, RtoC; cbn [fst snd].
  rewrite cos_neg, sin_neg. unfold Q2R; cbn. f_equal; lra.
Qed.

(* the sequence unitary in the Wx convention (signal X-rotation, Z phases) at a = cos theta *)
Definition Ux_at (phi0 : Q) (rest : list Q) (theta : R) : mat2 C :=
  Ux CR Ci (RtoC (cos theta)) (RtoC (sin theta)) (csC phi0) (map csC rest).

(* <+|U_x|+> *)
Definition resp_x (phi0 : Q) (rest : list Q) (theta : R) : C := meas_x CR hC (Ux_at phi0 rest theta).

Lemma resp_x_is_z phi0 rest theta : resp_x phi0 rest theta = m00 (Uz_at phi0 rest theta).
Proof. unfold resp_x, Ux_at, Uz_at. rewrite (wx_x_eq_wz_z CR Ci hC hC_hC). reflexivity. Qed.

Lemma target_F_sound pc F theta : target_F pc = Some F ->
  evx CR (cis theta) (cis (- theta)) (lpQ2C F) = @peval CR (map q2c pc) (RtoC (cos theta)) /\ wf CR (lpQ2C F).
Proof.
  unfold target_F. intros HF.
  pose proof (ptlf_rel OpsQ OpsC rQC rQC_0 rQC_1 rQC_add rQC_mul qhalf1 halfC qisz0 zC
                (eq_refl : rQC qhalf1 halfC) qisz0_rQC pc (map q2c pc) (F2_rQC pc)) as Rp.
  rewrite HF in Rp. apply orel_some_l in Rp. destruct Rp as (FC & EFC & RF).
  apply lp_rel_rQC_inv in RF. subst FC.
  destruct (ptlf_sound CR (cis theta) (cis (- theta)) halfC (cis_inv theta) zC zC_ok _ _ EFC) as [E W].
  split; [|exact W]. rewrite E. f_equal. unfold xa. apply cis_plus_inv.
Qed.

Theorem check_resp_mono_sound phi0 rest pc tol :
  check_resp_mono (phi0 :: rest) pc tol = true ->
  forall theta, Cmod (Cminus (resp_x phi0 rest theta) (@peval CR (map q2c pc) (RtoC (cos theta)))) <= Q2R tol.
Proof.
  unfold check_resp_mono. intros H theta.
  destruct (target_F pc) as [F|] eqn:EF; [|discriminate].
  destruct (target_F_sound pc F theta EF) as [E W].
  rewrite resp_x_is_z, <- E. apply check_ipoly_sound; assumption.
Qed.

(* real polynomial evaluation and the capitalised target *)
Fixpoint pevalR (l : list R) (x : R) : R := match l with [] => 0 | c :: l => c + x * pevalR l x end.

Lemma peval_q2c l x : @peval CR (map q2c l) (RtoC x) = RtoC (pevalR (map Q2R l) x).
Proof.
  induction l as [|c l IH]; cbn [map peval pevalR]; [reflexivity|].
  rewrite IH. unfold q2c. change (@kadd CR) with Cplus. change (@kmul CR) with Cmult.
  rewrite <- RtoC_mult, <- RtoC_plus. reflexivity.
Qed.

Lemma pevalR_add_last' l e x : forall c,
  pevalR (map Q2R (add_last (c :: l) e)) x = pevalR (map Q2R (c :: l)) x + Q2R e * x ^ (length l).
Proof.
  induction l as [|c' l IH]; intros c.
  - cbn [add_last map pevalR length pow]. rewrite qadd_ok. lra.
  - change (add_last (c :: c' :: l) e) with (c :: add_last (c' :: l) e).
    cbn [map pevalR length pow]. cbn [map pevalR] in IH. rewrite IH. ring.
Qed.

Lemma pevalR_add_last l e x : l <> [] ->
  pevalR (map Q2R (add_last l e)) x = pevalR (map Q2R l) x + Q2R e * x ^ (length l - 1).
Proof.
  destruct l as [|c l]; [contradiction|]. intros _. rewrite pevalR_add_last'.
  cbn [length]. replace (S (length l) - 1)%nat with (length l) by lia. reflexivity.
Qed.

Lemma pevalR_scale a l x : pevalR (map Q2R (scale OpsQ a l)) x = Q2R a * pevalR (map Q2R l) x.
Proof.
  induction l as [|c l IH]; cbn [scale map pevalR]; [ring|].
  cbn [dmul OpsQ]. rewrite Q2R_mult, IH. ring.
Qed.

(* cap_target pc eps suc denotes  suc * (p(x) + eps/2 * x^d),  d = len pc - 1 *)
Theorem cap_target_sem pc eps suc x : pc <> [] ->
  pevalR (map Q2R (cap_target pc eps suc)) x =
  Q2R suc * (pevalR (map Q2R pc) x + Q2R eps / 2 * x ^ (length pc - 1)).
Proof.
  intros Hn. unfold cap_target. rewrite pevalR_scale, pevalR_add_last by exact Hn.
  rewrite Q2R_mult. unfold qhalf1. replace (Q2R (1 # 2)) with (/ 2) by (unfold Q2R; cbn; lra).
  unfold Rdiv. ring.
Qed.

(* the "hence" clause: distance of the capitalised target from p *)
Theorem budget_ineq (p x eps suc xd : R) : 0 < suc <= 1 -> 0 <= eps -> Rabs xd <= 1 ->
  Rabs (suc * (p + eps / 2 * xd) - p) <= (1 - suc) * Rabs p + eps / 2.
Proof.
  intros [Hs1 Hs2] He Hx.
  replace (suc * (p + eps / 2 * xd) - p) with (- ((1 - suc) * p) + suc * (eps / 2) * xd) by ring.
  eapply Rle_trans; [apply Rabs_triang|].
  rewrite Rabs_Ropp, !Rabs_mult.
  rewrite (Rabs_pos_eq (1 - suc)) by lra. rewrite (Rabs_pos_eq suc) by lra.
  rewrite (Rabs_pos_eq (eps / 2)) by lra.
  assert (suc * (eps / 2) * Rabs xd <= 1 * (eps / 2) * 1).
  { apply Rmult_le_compat; try lra. apply Rmult_le_pos; lra. apply Rabs_pos.
    apply Rmult_le_compat; lra. }
  lra.
Qed.

Lemma pow_abs_le1 x n : Rabs x <= 1 -> Rabs (x ^ n) <= 1.
Proof.
  intros H. rewrite <- RPow_abs. induction n; cbn [pow]; [lra|].
  pose proof (Rabs_pos x). assert (0 <= Rabs x ^ n) by (apply pow_le; assumption). nra.
Qed.

(* C01 main statement, for the real-valued target of the model *)
Theorem check_c01_sound phi0 rest pc eps suc tol :
  check_c01 (phi0 :: rest) pc eps suc tol = true ->
  length (phi0 :: rest) = length pc /\
  forall theta,
    Cmod (Cminus (resp_x phi0 rest theta)
                 (RtoC (Q2R suc * (pevalR (map Q2R pc) (cos theta)
                                   + Q2R eps / 2 * cos theta ^ (length pc - 1)))))
    <= 100 * Q2R tol.
Proof.
  unfold check_c01. intros H. apply andb_prop in H. destruct H as [Hl Hc].
  apply Nat.eqb_eq in Hl. split; [exact Hl|]. intros theta.
  assert (Hn : pc <> []) by (intros ->; cbn in Hl; discriminate).
  pose proof (check_resp_mono_sound _ _ _ _ Hc theta) as Hb.
  rewrite peval_q2c, cap_target_sem in Hb by exact Hn.
  rewrite Q2R_mult in Hb. replace (Q2R (100 # 1)) with 100 in Hb by (unfold Q2R; cbn; lra).
  exact Hb.
Qed.
