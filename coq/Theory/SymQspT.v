(* Theory/SymQspT.v — symmetric-QSP protocol: layout, update histories, Newton loop invariants,
   and the parity of the Wx response (over any commutative ring with i*i = -1). *)
From Coq Require Import ZArith List Bool Lia Ring.
From PyqspV Require Import Base.Ops Model.LPolyM Model.LAlgM Model.ResponseM Model.SymQspM
  Theory.RingK Theory.LPolyT Theory.LAlgT Theory.RespT.
Import ListNotations.

Section Layout.
  Context {D : Type} (O : Ops D).

  Theorem sym_full_length odd red full : sym_full O odd red = Some full ->
    length full = if odd then (2 * length red)%nat else (2 * length red - 1)%nat.
  Proof.
    destruct red as [|r0 rt]; [discriminate|]. unfold sym_full.
    destruct odd.
    - intros H. injection H as <-. rewrite !app_length, rev_length. cbn [length]. lia.
    - destruct rt as [|r1 rt'].
      + intros H. injection H as <-. reflexivity.
      + intros H. injection H as <-. rewrite !app_length, rev_length. cbn [length]. lia.
  Qed.

  Theorem sym_full_palindrome odd red full : sym_full O odd red = Some full -> rev full = full.
  Proof.
    destruct red as [|r0 rt]; [discriminate|]. unfold sym_full.
    destruct odd.
    - intros H. injection H as <-. change (rev rt ++ [r0]) with (rev (r0 :: rt)). rewrite rev_app_distr, rev_involutive. reflexivity.
    - destruct rt as [|r1 rt'].
      + intros H. injection H as <-. reflexivity.
      + intros H. injection H as <-. change (rev rt' ++ [r1]) with (rev (r1 :: rt')). rewrite !rev_app_distr, rev_involutive. cbn [rev app]. rewrite <- app_assoc. reflexivity.
  Qed.

  (* the centre of an even protocol is twice the first reduced phase *)
  Theorem sym_full_centre r0 rt full : sym_full O false (r0 :: rt) = Some full ->
    nth (length rt) full (d0 O) = dbl O r0.
  Proof.
    unfold sym_full. destruct rt as [|r1 rt'].
    - intros H. injection H as <-. reflexivity.
    - intros H. injection H as <-. change (rev rt' ++ [r1]) with (rev (r1 :: rt')).
      rewrite app_nth2; rewrite rev_length; [|lia]. rewrite Nat.sub_diag. reflexivity.
  Qed.

  Lemma last_indep {A} (l : list A) a b : l <> [] -> last l a = last l b.
  Proof.
    induction l as [|x l IH]; [contradiction|]. intros _. destruct l as [|y l]; [reflexivity|].
    change (last (x :: y :: l) a) with (last (y :: l) a). change (last (x :: y :: l) b) with (last (y :: l) b).
    apply IH. discriminate.
  Qed.

  (* any history of updates leaves the protocol identical to a freshly built one *)
  Theorem update_invariant odd r0 hist :
    fold_left (proto_update O) hist (proto_init O odd r0) = proto_init O odd (last hist r0).
  Proof.
    revert r0. induction hist as [|h hist IH]; intros r0; cbn [fold_left]; [reflexivity|].
    change (proto_update O (proto_init O odd r0) h) with (proto_init O odd h).
    rewrite IH. destruct hist as [|l hist]; [reflexivity|].
    f_equal. change (last (h :: l :: hist) r0) with (last (l :: hist) r0). apply last_indep. discriminate.
  Qed.

  Definition consistent (s : proto D) : Prop := p_full s = sym_full O (p_odd s) (p_red s).

  Lemma update_consistent s new : consistent (proto_update O s new).
  Proof. reflexivity. Qed.

  (* Newton loop: for every oracle *)
  Variable step : list D -> bool * list D.

  Theorem newton_loop_spec fuel maxiter : forall it s s' it' byc,
    (1 <= maxiter)%nat -> (it < maxiter)%nat -> (maxiter - it <= fuel)%nat ->
    newton_loop O step fuel maxiter it s = (s', it', byc) ->
    consistent s' /\ p_odd s' = p_odd s /\ (it < it' <= maxiter)%nat /\
    (it' = maxiter \/ byc = true) /\ (byc = true -> (it' < maxiter)%nat).
  Proof.
    induction fuel as [|f IH]; intros it s s' it' byc Hm Hit Hf H; [lia|].
    cbn [newton_loop] in H. destruct (step (p_red s)) as [ok new].
    destruct (Nat.leb maxiter (S it)) eqn:El.
    - injection H as <- <- <-. apply Nat.leb_le in El.
      split; [reflexivity|]. split; [reflexivity|]. split; [lia|]. split; [left; lia | discriminate].
    - apply Nat.leb_gt in El. destruct ok.
      + injection H as <- <- <-.
        split; [reflexivity|]. split; [reflexivity|]. split; [lia|]. split; [right; reflexivity | intros _; lia].
      + destruct (IH (S it) (proto_update O s new) s' it' byc Hm El ltac:(lia) H) as (C & P & I & B & B2).
        split; [exact C|]. split; [exact P|]. split; [lia|]. split; assumption.
  Qed.
End Layout.

(* parity of the Wx response: U(-a) = (-1)^n Z U(a) Z, so <0|U(-a)|0> = (-1)^n <0|U(a)|0> *)
Section Parity.
  Variable K : CRing.
  Add Ring Kr9 : (Kring K).
  Notation "x + y" := (kadd x y).
  Notation "x * y" := (kmul x y).
  Notation "x - y" := (ksub x y).
  Notation "- x" := (kopp x).
  Variable i : K.
  Notation mmul := (mmul K).
  Definition Zm : mat2 K := M2 k1 k0 k0 (- k1).
  Definition conjZ (m : mat2 K) : mat2 K := mmul (mmul Zm m) Zm.
  Definition msgn (b : bool) (m : mat2 K) : mat2 K := if b then mneg K m else m.

  Lemma conjZ_Sz cs : conjZ (Sz K i cs) = Sz K i cs.
  Proof. unfold conjZ, Sz, mdiag, Zm. apply mat_eq; cbn; ring. Qed.
  Lemma Wx_neg a s : Wxm K i (- a) s = mneg K (conjZ (Wxm K i a s)).
  Proof. unfold conjZ, Wxm, Zm, mneg. apply mat_eq; cbn; ring. Qed.
  Lemma conjZ_mul a b : conjZ (mmul a b) = mmul (conjZ a) (conjZ b).
  Proof. unfold conjZ, Zm. apply mat_eq; cbn; ring. Qed.
  Lemma conjZ_neg a : conjZ (mneg K a) = mneg K (conjZ a).
  Proof. unfold conjZ, Zm, mneg. apply mat_eq; cbn; ring. Qed.
  Lemma m00_conjZ a : m00 (conjZ a) = m00 a.
  Proof. unfold conjZ, Zm; cbn. ring. Qed.
  Lemma mmul_msgn_l b x y : mmul (msgn b x) y = msgn b (mmul x y).
  Proof. destruct b; cbn [msgn]; [|reflexivity]. apply mat_eq; cbn; ring. Qed.
  Lemma mmul_neg_r' x y : mmul x (mneg K y) = mneg K (mmul x y).
  Proof. apply mat_eq; cbn; ring. Qed.
  Lemma msgn_neg b x : mneg K (msgn b x) = msgn (negb b) x.
  Proof. destruct b; cbn [msgn negb]; [|reflexivity]. apply mat_eq; cbn; ring. Qed.

  Lemma step_neg a s c b acc :
    mmul (mmul (msgn b (conjZ acc)) (Wxm K i (- a) s)) (Sz K i c) =
    msgn (negb b) (conjZ (mmul (mmul acc (Wxm K i a s)) (Sz K i c))).
  Proof. destruct b; unfold msgn, negb, conjZ, Wxm, Sz, mdiag, Zm, mneg; apply mat_eq; cbn; ring. Qed.

  Lemma prodSW_neg a s l : forall b acc,
    prodSW K (Sz K i) (Wxm K i (- a) s) (msgn b (conjZ acc)) l =
    msgn (if Nat.even (length l) then b else negb b) (conjZ (prodSW K (Sz K i) (Wxm K i a s) acc l)).
  Proof.
    induction l as [|c l IH]; intros b acc; cbn [prodSW length]; [reflexivity|].
    rewrite step_neg, IH. rewrite Nat.even_succ, <- Nat.negb_even.
    destruct (Nat.even (length l)), b; reflexivity.
  Qed.

  (* n = number of signal operators = length of the list after the first phase *)
  Theorem wx_response_parity a s cs l :
    m00 (Ux K i (- a) s cs l) = if Nat.even (length l) then m00 (Ux K i a s cs l) else - m00 (Ux K i a s cs l).
  Proof.
    unfold Ux. rewrite <- (conjZ_Sz cs) at 1.
    change (conjZ (Sz K i cs)) with (msgn false (conjZ (Sz K i cs))).
    rewrite prodSW_neg. destruct (Nat.even (length l)); cbn [msgn negb].
    - apply m00_conjZ.
    - cbn [mneg m00]. rewrite m00_conjZ. reflexivity.
  Qed.
End Parity.
