(* Theory/RespEnclT.v — the generic response model (Model/ResponseM.v):
   (1) at the ring C it is the defining product of Theory/RespT.v;
   (2) logical relation: related operations give related responses;
   (3) hence the complex-interval run encloses the true response, and check_resp_val is sound. *)
From Coq Require Import ZArith QArith Qreals List Reals Lra Lia Bool Ring.
From Coquelicot Require Import Complex.
From PyqspV Require Import Base.Ops Base.IntervalZ Base.TrigZ Model.LPolyM Model.LAlgM Model.QInst
  Model.ResponseM Model.Checkers Theory.RingK Theory.LPolyT Theory.LAlgT Theory.IntervalT Theory.TrigT
  Theory.RelT Theory.CplxT Theory.RespT Theory.QInstT Theory.QC Theory.CertT.
Import ListNotations.

(* ---- (2) logical relation *)
Section RespRel.
  Context {D1 D2 : Type} (O1 : Ops D1) (O2 : Ops D2) (rho : D1 -> D2 -> Prop).
  Hypothesis r0 : rho (d0 O1) (d0 O2).
  Hypothesis radd : forall a b c d, rho a c -> rho b d -> rho (dadd O1 a b) (dadd O2 c d).
  Hypothesis rmul : forall a b c d, rho a c -> rho b d -> rho (dmul O1 a b) (dmul O2 c d).
  Hypothesis rneg : forall a c, rho a c -> rho (dneg O1 a) (dneg O2 c).
  Variables (i1 h1 : D1) (i2 h2 : D2).
  Hypothesis ri : rho i1 i2.
  Hypothesis rh : rho h1 h2.

  Definition mrel (a : mat2 D1) (b : mat2 D2) : Prop :=
    rho (m00 a) (m00 b) /\ rho (m01 a) (m01 b) /\ rho (m10 a) (m10 b) /\ rho (m11 a) (m11 b).
  Definition csrel (a : D1 * D1) (b : D2 * D2) : Prop := rho (fst a) (fst b) /\ rho (snd a) (snd b).

  Lemma gmul_rel a b a' b' : mrel a a' -> mrel b b' -> mrel (gmul O1 a b) (gmul O2 a' b').
  Proof. intros (A0 & A1 & A2 & A3) (B0 & B1 & B2 & B3). unfold mrel, gmul; cbn. repeat split; auto. Qed.
  Lemma gSz_rel c c' : csrel c c' -> mrel (gSz O1 i1 c) (gSz O2 i2 c').
  Proof. intros [Hc Hs]. unfold mrel, gSz; cbn. repeat split; auto. Qed.
  Lemma gWx_rel a s a' s' : rho a a' -> rho s s' -> mrel (gWx O1 i1 a s) (gWx O2 i2 a' s').
  Proof. intros Ha Hs. unfold mrel, gWx; cbn. repeat split; auto. Qed.
  Lemma gH_rel : mrel (gH O1 h1) (gH O2 h2).
  Proof. unfold mrel, gH; cbn. repeat split; auto. Qed.
  Lemma gconjH_rel m m' : mrel m m' -> mrel (gconjH O1 h1 m) (gconjH O2 h2 m').
  Proof. intros H. unfold gconjH. apply gmul_rel; [apply gmul_rel; [apply gH_rel | exact H] | apply gH_rel]. Qed.

  Lemma gprod_rel S S' W W' : (forall c c', csrel c c' -> mrel (S c) (S' c')) -> mrel W W' ->
    forall l l', Forall2 csrel l l' -> forall acc acc', mrel acc acc' -> mrel (gprod O1 S W acc l) (gprod O2 S' W' acc' l').
  Proof.
    intros HS HW l l' Hl. induction Hl as [|c c' l l' Hc _ IH]; intros acc acc' Ha; cbn [gprod]; [exact Ha|].
    apply IH. apply gmul_rel; [apply gmul_rel; assumption | apply HS; exact Hc].
  Qed.

  Theorem resp_rel wz mx a s a' s' c c' l l' : rho a a' -> rho s s' -> csrel c c' -> Forall2 csrel l l' ->
    rho (resp O1 i1 h1 wz mx a s c l) (resp O2 i2 h2 wz mx a' s' c' l').
  Proof.
    intros Ha Hs Hc Hl. unfold resp.
    assert (HU : mrel (gU O1 i1 h1 wz a s c l) (gU O2 i2 h2 wz a' s' c' l')).
    { unfold gU. destruct wz.
      - apply gprod_rel; [intros; apply gconjH_rel, gSz_rel; assumption | apply gconjH_rel, gWx_rel; assumption
                         | exact Hl | apply gconjH_rel, gSz_rel; exact Hc].
      - apply gprod_rel; [intros; apply gSz_rel; assumption | apply gWx_rel; assumption | exact Hl | apply gSz_rel; exact Hc]. }
    destruct HU as (U0 & U1 & U2 & U3). unfold gmeas. destruct mx; [|exact U0]. auto 10.
  Qed.
End RespRel.

(* ---- (1) at an abstract ring the generic model is the defining product of RespT *)
Section RespDef.
  Variable K : CRing.
  Add Ring Kr7 : (Kring K).
  Variables i h : K.

  Lemma gmul_is_mmul a b : gmul (@OpsK K) a b = mmul K a b.
  Proof. reflexivity. Qed.
  Lemma gSz_is_Sz cs : gSz (@OpsK K) i cs = Sz K i cs.
  Proof. unfold gSz, Sz, mdiag. cbn [OpsK dadd dmul dneg d0]. f_equal; ring. Qed.
  Lemma gWx_is_Wx a s : gWx (@OpsK K) i a s = Wxm K i a s.
  Proof. reflexivity. Qed.
  Lemma gconjH_is_conjH m : gconjH (@OpsK K) h m = conjH K h m.
  Proof. reflexivity. Qed.

  Lemma gprod_is_prodSW S S' W l : (forall c, S c = S' c) -> forall acc,
    gprod (@OpsK K) S W acc l = prodSW K S' W acc l.
  Proof.
    intros E. induction l as [|c l IH]; intros acc; cbn [gprod prodSW]; [reflexivity|].
    rewrite IH, E. reflexivity.
  Qed.

  Theorem resp_is_definition wz mx a s cs l :
    resp (@OpsK K) i h wz mx a s cs l =
    (if mx then meas_x K h else meas_z K) (if wz then Uz K i h a s cs l else Ux K i a s cs l).
  Proof.
    unfold resp, gU, Uz, Ux. destruct wz.
    - rewrite (gprod_is_prodSW _ (fun c => conjH K h (Sz K i c))).
      2:{ intros c. rewrite gconjH_is_conjH, gSz_is_Sz. reflexivity. }
      rewrite !gconjH_is_conjH, gSz_is_Sz, gWx_is_Wx. destruct mx; reflexivity.
    - rewrite (gprod_is_prodSW _ (Sz K i)) by apply gSz_is_Sz.
      rewrite gSz_is_Sz, gWx_is_Wx. destruct mx; reflexivity.
  Qed.
End RespDef.

(* ---- (3) complex intervals enclose complex numbers *)
Open Scope R_scope.
Definition rCI (e : CI) (z : C) : Prop := inI (fst e) (fst z) /\ inI (snd e) (snd z).

Lemma rCI_0 : rCI (d0 OpsCI) (d0 OpsC).
Proof. split; cbn; apply izero_ok. Qed.
Lemma rCI_add a b c d : rCI a c -> rCI b d -> rCI (dadd OpsCI a b) (dadd OpsC c d).
Proof. intros [A1 A2] [B1 B2]. split; cbn; apply iadd_ok; assumption. Qed.
Lemma rCI_mul a b c d : rCI a c -> rCI b d -> rCI (dmul OpsCI a b) (dmul OpsC c d).
Proof.
  intros [A1 A2] [B1 B2]. split; cbn.
  - apply isub_ok; apply imul_ok; assumption.
  - apply iadd_ok; apply imul_ok; assumption.
Qed.
Lemma rCI_neg a c : rCI a c -> rCI (dneg OpsCI a) (dneg OpsC c).
Proof. intros [A1 A2]. split; cbn; apply ineg_ok; assumption. Qed.
Lemma rCI_R i x : inI i x -> rCI (ciR i) (RtoC x).
Proof. intros H. split; cbn; [exact H | apply izero_ok]. Qed.
Lemma rCI_i : rCI ci_i Ci.
Proof. split; cbn; [apply izero_ok | apply ione_ok]. Qed.
Lemma rCI_h : rCI ci_h hC.
Proof.
  unfold ci_h, hC. apply rCI_R.
  replace (/ sqrt 2) with (sqrt (Q2R (1 # 2))).
  - apply isqrt_ok; [apply iofQ_ok | unfold Q2R; cbn; lra].
  - replace (Q2R (1 # 2)) with (/ 2) by (unfold Q2R; cbn; lra).
    rewrite <- (sqrt_inv 2) by lra. reflexivity.
Qed.

Definition respC (wz mx : bool) (a : Q) (phi0 : Q) (rest : list Q) : C :=
  resp OpsC Ci hC wz mx (RtoC (Q2R a)) (RtoC (sqrt (1 - Q2R a * Q2R a))) (csC phi0) (map csC rest).

Lemma cs_encl_rCI phis : Forall2 (csrel rCI) (map ci_cs (map cos_sin_encl phis)) (map csC phis).
Proof.
  induction phis as [|q l IH]; cbn [map]; constructor; [|exact IH].
  destruct (cos_sin_encl_ok q) as [Hc Hs]. split; cbn; apply rCI_R; assumption.
Qed.

Theorem resp_encl_sound wz mx a phi0 rest e : -1 <= Q2R a <= 1 ->
  resp_encl wz mx a (phi0 :: rest) = Some e -> rCI e (respC wz mx a phi0 rest).
Proof.
  intros Ha H. unfold resp_encl in H. cbn [map] in H. injection H as <-.
  unfold respC.
  pose proof (cs_encl_rCI (phi0 :: rest)) as Hl. cbn [map] in Hl. inversion Hl as [|? ? ? ? Hc Hr]; subst.
  apply (resp_rel OpsCI OpsC rCI rCI_0 rCI_add rCI_mul rCI_neg ci_i ci_h Ci hC rCI_i rCI_h); try assumption.
  - apply rCI_R, iofQ_ok.
  - apply rCI_R. apply isqrt_ok; [|nra].
    apply isub_ok; [apply ione_ok | apply imul_ok; apply iofQ_ok].
Qed.

Theorem check_resp_val_sound wz mx a phi0 rest re im tol :
  check_resp_val wz mx a (phi0 :: rest) re im tol = true ->
  -1 <= Q2R a <= 1 /\
  Rabs (fst (respC wz mx a phi0 rest) - Q2R re) + Rabs (snd (respC wz mx a phi0 rest) - Q2R im) <= Q2R tol.
Proof.
  unfold check_resp_val. intros H. apply andb_prop in H. destruct H as [H He].
  apply andb_prop in H. destruct H as [H1 H2]. apply Qleb_ok in H1, H2.
  assert (Ha : -1 <= Q2R a <= 1).
  { replace (Q2R (-1)) with (-1) in H1 by (unfold Q2R; cbn; lra). replace (Q2R 1) with 1 in H2 by (unfold Q2R; cbn; lra). lra. }
  split; [exact Ha|].
  destruct (resp_encl wz mx a (phi0 :: rest)) as [e|] eqn:Ee; [|discriminate].
  destruct (resp_encl_sound wz mx a phi0 rest e Ha Ee) as [Hr Hi].
  apply scaled_le_q_ok in He. unfold resp_dist in He. rewrite plus_IZR in He.
  pose proof (iabs_ub_ok _ _ (isub_ok _ _ _ _ Hr (iofQ_ok re))) as B1.
  pose proof (iabs_ub_ok _ _ (isub_ok _ _ _ _ Hi (iofQ_ok im))) as B2.
  pose proof sc_pos. apply Rmult_le_reg_r with sc; [assumption|]. lra.
Qed.

(* the generic model at C is the defining matrix product *)
Theorem respC_is_definition wz mx a phi0 rest :
  respC wz mx a phi0 rest =
  (if mx then meas_x CR hC else meas_z CR)
    (if wz then Uz CR Ci hC (RtoC (Q2R a)) (RtoC (sqrt (1 - Q2R a * Q2R a))) (csC phi0) (map csC rest)
     else Ux CR Ci (RtoC (Q2R a)) (RtoC (sqrt (1 - Q2R a * Q2R a))) (csC phi0) (map csC rest)).
Proof. unfold respC. apply (resp_is_definition CR). Qed.

(* the batch form computes exactly the per-point certificate *)
Lemma resp_encl_cs_eq wz mx a phis : resp_encl_cs wz mx a (map cos_sin_encl phis) = resp_encl wz mx a phis.
Proof. unfold resp_encl_cs, resp_encl. destruct (map cos_sin_encl phis); reflexivity. Qed.

Theorem resp_dists_sound wz mx phi0 rest pts tol :
  Forall (fun d => match d with Some n => scaled_le_q n tol = true | None => False end)
         (resp_dists wz mx (phi0 :: rest) pts) ->
  Forall (fun p => -1 <= Q2R (fst p) <= 1 /\
            Rabs (fst (respC wz mx (fst p) phi0 rest) - Q2R (fst (snd p)))
            + Rabs (snd (respC wz mx (fst p) phi0 rest) - Q2R (snd (snd p))) <= Q2R tol) pts.
Proof.
  unfold resp_dists. rewrite Forall_map. apply Forall_impl. intros [a [re im]]. cbn [fst snd].
  rewrite resp_encl_cs_eq. intros H.
  apply (check_resp_val_sound wz mx a phi0 rest re im tol). unfold check_resp_val.
  destruct (Qleb (-1) a && Qleb a 1); [|contradiction]. cbn [andb].
  destruct (resp_encl wz mx a (phi0 :: rest)); [exact H | contradiction].
Qed.
