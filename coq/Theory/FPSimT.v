(* Theory/FPSimT.v — C18: the alternating reflection sequence  R prod_k (Z(phi_k) R),
   R = [[a, s],[s, -a]],  is, up to a unit scalar and a diagonal similarity, the Wx-convention QSP
   product with phases (pi/2, phi_1 - pi/2, ..., phi_n - pi/2, 0):
       Z(phi) R = i V (S(phi - pi/2) W) V^-1,   R = -i V (S(pi/2) W) V^-1,   V = diag(e^{-i pi/4}, e^{i pi/4}).
   Hence the success amplitude has the modulus of <0|U_x|0> for the shifted phases. *)
From Coq Require Import ZArith QArith Qreals List Reals Lra Lia Bool.
From Coquelicot Require Import Complex.
From PyqspV Require Import Base.Ops Model.LPolyM Model.LAlgM Model.ResponseM Model.FPSearchM
  Theory.RingK Theory.LPolyT Theory.LAlgT Theory.CplxT Theory.RespT Theory.QC Theory.CertT Theory.FPProbT.
Import ListNotations.
Open Scope R_scope.

Definition conjV (M : mat2 C) : mat2 C := M2 (m00 M) (Copp (Cmult Ci (m01 M))) (Cmult Ci (m10 M)) (m11 M).
Definition shiftcs (cs : C * C) : C * C := (snd cs, Copp (fst cs)).
Fixpoint ipow (n : nat) : C := match n with O => RtoC 1 | S n => Cmult Ci (ipow n) end.

Ltac cbrute :=
  repeat match goal with x : C |- _ => (revert x; intros [? ?]) end;
  unfold Cminus; unfold Cmult, Cplus, Copp, Ci, RtoC; cbn [fst snd]; f_equal; ring.

Lemma Cmod_ipow n : Cmod (ipow n) = 1.
Proof.
  induction n as [|n IH]; cbn [ipow]; [apply Cmod_1|].
  rewrite Cmod_mult, IH. unfold Cmod, Ci; cbn [fst snd]. replace (0 ^ 2 + 1 ^ 2) with 1 by ring. rewrite sqrt_1. ring.
Qed.

Section Sim.
  Variables a s : C.
  Notation W := (Wxm CR Ci a s).
  Notation Rf := (gR OpsC a s).

  (* entrywise identities are proved with a, s universally quantified (so that they can be split) *)
  Lemma conjV_W_g (a' s' : C) : conjV (Wxm CR Ci a' s') = M2 a' s' (Copp s') a'.
  Proof. apply (mat_eq CR); cbn; cbrute. Qed.
  Lemma Sz_R_g (a' s' : C) cs : mmul CR (gSz OpsC Ci cs) (gR OpsC a' s') =
    mscale CR Ci (mmul CR (Sz CR Ci (shiftcs cs)) (M2 a' s' (Copp s') a')).
  Proof. destruct cs as [cc ss]. apply (mat_eq CR); cbn; cbrute. Qed.
  Lemma refl_init_g (a' s' : C) : gR OpsC a' s' = mscale CR (Copp Ci) (conjV (mmul CR (Sz CR Ci (RtoC 0, RtoC 1)) (Wxm CR Ci a' s'))).
  Proof. apply (mat_eq CR); cbn; cbrute. Qed.

  Definition Em : mat2 C := M2 a s (Copp s) a.

  Lemma conjV_mul (A B : mat2 C) : conjV (mmul CR A B) = mmul CR (conjV A) (conjV B).
  Proof. destruct A as [a00 a01 a10 a11], B as [b00 b01 b10 b11]. apply (mat_eq CR); cbn; cbrute. Qed.
  Lemma conjV_Sz cs : conjV (Sz CR Ci cs) = Sz CR Ci cs.
  Proof. destruct cs as [cc ss]. apply (mat_eq CR); cbn; cbrute. Qed.
  Lemma conjV_W : conjV W = Em.
  Proof. apply conjV_W_g. Qed.
  Lemma mscale_mmul c (A B : mat2 C) : mmul CR (mscale CR c A) B = mscale CR c (mmul CR A B).
  Proof. destruct A as [a00 a01 a10 a11], B as [b00 b01 b10 b11]. apply (mat_eq CR); cbn; cbrute. Qed.
  Lemma mmul_mscale c (A B : mat2 C) : mmul CR A (mscale CR c B) = mscale CR c (mmul CR A B).
  Proof. destruct A as [a00 a01 a10 a11], B as [b00 b01 b10 b11]. apply (mat_eq CR); cbn; cbrute. Qed.
  Lemma mscale_mscale c e (A : mat2 C) : mscale CR c (mscale CR e A) = mscale CR (Cmult c e) A.
  Proof. destruct A as [a00 a01 a10 a11]. apply (mat_eq CR); cbn; cbrute. Qed.
  Lemma Sz_R cs : mmul CR (gSz OpsC Ci cs) Rf = mscale CR Ci (mmul CR (Sz CR Ci (shiftcs cs)) Em).
  Proof. apply Sz_R_g. Qed.

  Lemma refl_step (A : mat2 C) (c : C) (cs : C * C) :
    gmul OpsC (gmul OpsC (mscale CR c (conjV (mmul CR A W))) (gSz OpsC Ci cs)) Rf =
    mscale CR (Cmult c Ci) (conjV (mmul CR (mmul CR (mmul CR A W) (Sz CR Ci (shiftcs cs))) W)).
  Proof.
    change (gmul OpsC) with (mmul CR).
    rewrite (mmul_assoc CR), Sz_R, mmul_mscale, mscale_mmul, mscale_mscale.
    rewrite (conjV_mul (mmul CR (mmul CR A W) (Sz CR Ci (shiftcs cs))) W), (conjV_mul (mmul CR A W)), conjV_Sz, conjV_W.
    rewrite (mmul_assoc CR). f_equal. apply Cmult_comm.
  Qed.

  Lemma refl_prod_sim l : forall accR accW c, accR = mscale CR c (conjV (mmul CR accW W)) ->
    refl_prod OpsC Ci a s accR l =
    mscale CR (Cmult c (ipow (length l))) (conjV (mmul CR (prodSW CR (Sz CR Ci) W accW (map shiftcs l)) W)).
  Proof.
    induction l as [|cs l IH]; intros accR accW c E; cbn [refl_prod map prodSW length ipow].
    - rewrite E. destruct accW as [a00 a01 a10 a11]. apply (mat_eq CR); cbn; cbrute.
    - rewrite (IH _ (mmul CR (mmul CR accW W) (Sz CR Ci (shiftcs cs))) (Cmult c Ci)) by (rewrite E; apply refl_step).
      f_equal. ring.
  Qed.

  Lemma refl_init : Rf = mscale CR (Copp Ci) (conjV (mmul CR (Sz CR Ci (RtoC 0, RtoC 1)) W)).
  Proof. apply refl_init_g. Qed.

  Lemma prodSW_app S Wm l1 l2 : forall acc, prodSW CR S Wm acc (l1 ++ l2) = prodSW CR S Wm (prodSW CR S Wm acc l1) l2.
  Proof. induction l1 as [|x l1 IH]; intros acc; cbn [app prodSW]; [reflexivity | apply IH]. Qed.

  Lemma Sz_one (M : mat2 C) : mmul CR M (Sz CR Ci (RtoC 1, RtoC 0)) = M.
  Proof. destruct M as [a00 a01 a10 a11]. apply (mat_eq CR); cbn; cbrute. Qed.

  (* the success amplitude is a unit multiple of <0|U_x|0> for the shifted phases *)
  Theorem fp_amplitude_is_shifted_wx (l : list (C * C)) :
    fp_amplitude OpsC Ci a s l =
    Cmult (Cmult (Copp Ci) (ipow (length l)))
          (m00 (Ux CR Ci a s (RtoC 0, RtoC 1) (map shiftcs l ++ [(RtoC 1, RtoC 0)]))).
  Proof.
    unfold fp_amplitude. rewrite (refl_prod_sim l _ _ _ refl_init).
    unfold Ux. rewrite prodSW_app. cbn [prodSW]. rewrite Sz_one. reflexivity.
  Qed.

  Corollary fp_amplitude_modulus (l : list (C * C)) :
    Cmod (fp_amplitude OpsC Ci a s l) =
    Cmod (m00 (Ux CR Ci a s (RtoC 0, RtoC 1) (map shiftcs l ++ [(RtoC 1, RtoC 0)]))).
  Proof.
    rewrite fp_amplitude_is_shifted_wx, !Cmod_mult, Cmod_ipow, Cmod_opp.
    replace (Cmod Ci) with 1; [ring|]. unfold Cmod, Ci; cbn [fst snd]. replace (0 ^ 2 + 1 ^ 2) with 1 by ring. symmetry; apply sqrt_1.
  Qed.
End Sim.
