(* Theory/LeafT.v — C06: the leaf of the decomposition.  LAlg.left_and_right_angles reads the two angles of a degree-1 element
   g = R(a) w R(b) from its values at w = 1 (angle 0) and w = i (angle pi/2):
       summation  = angle( I(1) + i X(1) ),      difference = angle( I(i) - i X(i) ) - pi/2.
   For the model's element of the phase list [a; b] (any commutative ring with i*i = -1, phases given by their (cos, sin) pairs):
       I(w) = ca cb w - sa sb / w,   X(w) = ca sb w + sa cb / w,
       I(1) + i X(1) = (ca cb - sa sb) + i (sa cb + ca sb)                     [ = e^{i(a+b)} ]
       I(i) - i X(i) = i * ((ca cb + sa sb) + i (sa cb - ca sb))               [ = i e^{i(a-b)} ]. *)
From Coq Require Import ZArith List Ring Lia Bool.
From PyqspV Require Import Base.Ops Model.LPolyM Model.LAlgM Theory.RingK Theory.LPolyT Theory.LAlgT.
Import ListNotations.

Section Leaf.
  Variable K : CRing.
  Add Ring KrLeaf : (Kring K).
  Notation "x + y" := (kadd x y).
  Notation "x * y" := (kmul x y).
  Notation "x - y" := (ksub x y).
  Notation "- x" := (kopp x).
  Variable i : K.
  Hypothesis ii : i * i = - k1.

  Lemma leaf_eval w wi (wwi : w * wi = k1) (csa csb : K * K) r :
    la_from_angles (@OpsK K) [csa; csb] = Some r ->
    evx K w wi (la_I r) = fst csa * fst csb * w - snd csa * snd csb * wi /\
    evx K w wi (la_X r) = fst csa * snd csb * w + snd csa * fst csb * wi.
  Proof.
    intros H. destruct (from_angles_sound K w wi i wwi ii csa [csb] r H) as [E _].
    cbn [prod_angles] in E. destruct csa as [ca sa], csb as [cb sb]. cbn [fst snd].
    pose proof (f_equal (@m00 K) E) as E0. pose proof (f_equal (@m01 K) E) as E1.
    unfold Mden, Rot, Wm, mdiag in E0, E1. cbn in E0, E1.
    split.
    - rewrite E0. transitivity (ca * cb * w + (i * i) * (sa * sb * wi)); [ring | rewrite ii; ring].
    - transitivity (- (i * (i * evx K w wi (la_X r)))).
      + transitivity (- ((i * i) * evx K w wi (la_X r))); [rewrite ii; ring | ring].
      + rewrite E1. transitivity (- ((i * i) * (ca * sb * w + sa * cb * wi))); [ring | rewrite ii; ring].
  Qed.

  Theorem leaf_readout (csa csb : K * K) r :
    la_from_angles (@OpsK K) [csa; csb] = Some r ->
    evx K k1 k1 (la_I r) + i * evx K k1 k1 (la_X r)
      = (fst csa * fst csb - snd csa * snd csb) + i * (snd csa * fst csb + fst csa * snd csb) /\
    evx K i (- i) (la_I r) - i * evx K i (- i) (la_X r)
      = i * ((fst csa * fst csb + snd csa * snd csb) + i * (snd csa * fst csb - fst csa * snd csb)).
  Proof.
    intros H.
    assert (W1 : k1 * k1 = k1 :> K) by ring.
    assert (Wi : i * (- i) = k1) by (transitivity (- (i * i)); [ring | rewrite ii; ring]).
    destruct (leaf_eval k1 k1 W1 csa csb r H) as [A1 B1].
    destruct (leaf_eval i (- i) Wi csa csb r H) as [A2 B2].
    destruct csa as [ca sa], csb as [cb sb]. cbn [fst snd] in *.
    split.
    - rewrite A1, B1. ring.
    - rewrite A2, B2.
      transitivity (i * (ca * cb + sa * sb) - (i * i) * (ca * sb - sa * cb)); [ring|].
      transitivity (i * (ca * cb + sa * sb) + (i * i) * (sa * cb - ca * sb)); [ring | ring].
  Qed.
End Leaf.

(* with real angles: the two numbers handed to numpy.angle are e^{i(a+b)} and i e^{i(a-b)} *)
From Coq Require Import Reals Lra.
From Coquelicot Require Import Complex.
From PyqspV Require Import Theory.CplxT.
Open Scope R_scope.

Theorem leaf_readout_angles (a b : R) r :
  la_from_angles OpsC [(RtoC (cos a), RtoC (sin a)); (RtoC (cos b), RtoC (sin b))] = Some r ->
  Cplus (evx CR (RtoC 1) (RtoC 1) (la_I r)) (Cmult Ci (evx CR (RtoC 1) (RtoC 1) (la_X r))) = (cos (a + b), sin (a + b)) /\
  Cminus (evx CR Ci (Copp Ci) (la_I r)) (Cmult Ci (evx CR Ci (Copp Ci) (la_X r))) = Cmult Ci (cos (a - b), sin (a - b)).
Proof.
  intros H.
  assert (Hii : Cmult Ci Ci = Copp (RtoC 1)) by (unfold Cmult, Ci, Copp, RtoC; cbn [fst snd]; f_equal; ring).
  destruct (leaf_readout CR Ci Hii (RtoC (cos a), RtoC (sin a)) (RtoC (cos b), RtoC (sin b)) r H) as [E1 E2].
  cbn [fst snd] in E1, E2. split.
  - etransitivity; [exact E1|]. rewrite cos_plus, sin_plus.
    unfold kadd, kmul, ksub, CR; cbn. unfold Cminus. unfold Cmult, Cplus, Copp, Ci, RtoC; cbn [fst snd]. f_equal; ring.
  - etransitivity; [exact E2|]. rewrite cos_minus, sin_minus.
    unfold kadd, kmul, ksub, CR; cbn. unfold Cminus. unfold Cmult, Cplus, Copp, Ci, RtoC; cbn [fst snd]. f_equal; ring.
Qed.
