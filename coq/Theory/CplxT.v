(* Theory/CplxT.v — the complex numbers (Coquelicot's C) as an instance of the abstract ring;
   points of the unit circle; the sup-norm bound  |sum c_k w^k| <= sum |c_k|  for |w| = 1;
   the relation "z is real and lies in the interval i". *)
From Coq Require Import ZArith List Reals Lra Lia.
From Coquelicot Require Import Complex.
From PyqspV Require Import Base.Ops Base.IntervalZ Model.LPolyM Theory.RingK Theory.LPolyT Theory.IntervalT Theory.RelT.
Import ListNotations.
Open Scope R_scope.

Definition CR : CRing := mkCRing C (RtoC 0) (RtoC 1) Cplus Cmult Cminus Copp C_ring_theory.
Definition OpsC : Ops C := @OpsK CR.

Definition cis (t : R) : C := (cos t, sin t).

Lemma cis_mul a b : Cmult (cis a) (cis b) = cis (a + b).
Proof. unfold cis, Cmult; cbn [fst snd]. rewrite cos_plus, sin_plus. f_equal; ring. Qed.

Lemma cis_0 : cis 0 = RtoC 1.
Proof. unfold cis. rewrite cos_0, sin_0. reflexivity. Qed.

Lemma cis_inv t : Cmult (cis t) (cis (- t)) = RtoC 1.
Proof. rewrite cis_mul. replace (t + - t) with 0 by ring. apply cis_0. Qed.

Lemma Cmod_cis t : Cmod (cis t) = 1.
Proof.
  unfold Cmod, cis; cbn [fst snd].
  replace (cos t ^ 2 + sin t ^ 2) with 1; [apply sqrt_1|].
  pose proof (sin2_cos2 t) as H. unfold Rsqr in H. lra.
Qed.

Lemma Cmod_RtoC x : Cmod (RtoC x) = Rabs x.
Proof. apply Cmod_R. Qed.

(* powers of a unit-modulus number have modulus 1 *)
Lemma Cmod_pw (x : C) n : Cmod x = 1 -> Cmod (@pw CR x n) = 1.
Proof.
  intros H. induction n; cbn [pw].
  - apply Cmod_1.
  - change (@kmul CR x (@pw CR x n)) with (Cmult x (@pw CR x n)). rewrite Cmod_mult, H, IHn. ring.
Qed.

Lemma Cmod_zpw (x xi : C) z : Cmod x = 1 -> Cmod xi = 1 -> Cmod (@zpw CR x xi z) = 1.
Proof.
  intros H Hi. unfold zpw.
  change (Cmod (Cmult (@pw CR x (Z.to_nat z)) (@pw CR xi (Z.to_nat (- z)))) = 1).
  rewrite Cmod_mult, !Cmod_pw by assumption. ring.
Qed.

Fixpoint sumR (l : list R) : R := match l with [] => 0 | x :: l => x + sumR l end.

Lemma Cmod_peval (l : list C) (x : C) : Cmod x = 1 -> Cmod (@peval CR l x) <= sumR (map Cmod l).
Proof.
  intros H. induction l as [|c l IH]; cbn [peval map sumR].
  - change (@k0 CR) with (RtoC 0). rewrite Cmod_0. lra.
  - change (Cmod (Cplus c (Cmult x (@peval CR l x))) <= Cmod c + sumR (map Cmod l)).
    eapply Rle_trans; [apply Cmod_triangle|]. rewrite Cmod_mult, H. lra.
Qed.

(* sup-norm bound: on the unit circle a Laurent polynomial is bounded by its coefficient 1-norm *)
Theorem Cmod_evx_le (x xi : C) (p : lpoly C) : Cmod x = 1 -> Cmod xi = 1 ->
  Cmod (evx CR x xi p) <= sumR (map Cmod (lp_coefs p)).
Proof.
  intros H Hi. unfold evx.
  change (Cmod (Cmult (@zpw CR x xi (lp_dmin p)) (@peval CR (lp_coefs p) (Cmult x x))) <= sumR (map Cmod (lp_coefs p))).
  rewrite Cmod_mult, Cmod_zpw by assumption. rewrite Rmult_1_l.
  apply Cmod_peval. rewrite Cmod_mult, H. ring.
Qed.

(* z is a real number lying in the interval i *)
Definition rIC (i : I) (z : C) : Prop := snd z = 0 /\ inI i (fst z).

Lemma rIC_0 : rIC (d0 OpsI) (d0 OpsC).
Proof. split; [reflexivity | apply izero_ok]. Qed.
Lemma rIC_1 : rIC (d1 OpsI) (d1 OpsC).
Proof. split; [reflexivity | apply ione_ok]. Qed.
Lemma rIC_add a b c d : rIC a c -> rIC b d -> rIC (dadd OpsI a b) (dadd OpsC c d).
Proof.
  intros [H1 H2] [H3 H4]. split; cbn [OpsC OpsK dadd OpsI kadd CR Cplus fst snd].
  - rewrite H1, H3. ring.
  - apply iadd_ok; assumption.
Qed.
Lemma rIC_mul a b c d : rIC a c -> rIC b d -> rIC (dmul OpsI a b) (dmul OpsC c d).
Proof.
  intros [H1 H2] [H3 H4]. split; cbn [OpsC OpsK dmul OpsI kmul CR Cmult fst snd].
  - rewrite H1, H3. ring.
  - rewrite H1, H3. replace (fst c * fst d - 0 * 0) with (fst c * fst d) by ring. apply imul_ok; assumption.
Qed.
Lemma rIC_neg a c : rIC a c -> rIC (dneg OpsI a) (dneg OpsC c).
Proof.
  intros [H1 H2]. split; cbn [OpsC OpsK dneg OpsI kopp CR Copp fst snd].
  - rewrite H1. ring.
  - apply ineg_ok; assumption.
Qed.

Lemma rIC_RtoC i x : inI i x -> rIC i (RtoC x).
Proof. intros H. split; [reflexivity | exact H]. Qed.

(* coefficient 1-norm from interval upper bounds *)

Lemma sum_ub_ok (l : list I) (lc : list C) : Forall2 rIC l lc ->
  sumR (map Cmod lc) * sc <= IZR (sum_ub l).
Proof.
  induction 1 as [|i z l lc [Hz Hi] Hl IH]; cbn [map sumR sum_ub].
  - lra.
  - rewrite plus_IZR. pose proof (iabs_ub_ok i (fst z) Hi) as Hu.
    assert (E : Cmod z = Rabs (fst z)).
    { destruct z as [a b]. cbn [fst snd] in *. subst b. apply (Cmod_R a). }
    rewrite E. lra.
Qed.

(* the certificate: interval coefficients of D enclose those of DC; then on the whole unit
   circle |DC(w)| is at most the sum of the upper bounds *)
Theorem evx_bound_from_intervals (x xi : C) (D : lpoly I) (DC : lpoly C) :
  Cmod x = 1 -> Cmod xi = 1 -> lp_rel rIC D DC ->
  Cmod (evx CR x xi DC) * sc <= IZR (sum_ub (lp_coefs D)).
Proof.
  intros H Hi (_ & _ & Hc).
  eapply Rle_trans; [|apply (sum_ub_ok _ _ Hc)].
  apply Rmult_le_compat_r; [pose proof sc_pos; lra|]. apply Cmod_evx_le; assumption.
Qed.
