(* Theory/SymCertT.v — soundness of the symmetric-QSP certificates (C12, C13). *)
From Coq Require Import ZArith QArith Qabs Qreals List Reals Lra Lia Bool Psatz.
From Coquelicot Require Import Complex.
From PyqspV Require Import Base.Ops Base.IntervalZ Base.TrigZ Model.LPolyM Model.LAlgM Model.QInst Model.ConvM
  Model.SymQspM Model.Checkers Theory.RingK Theory.LPolyT Theory.LAlgT Theory.IntervalT Theory.TrigT Theory.RelT
  Theory.CplxT Theory.RespT Theory.ConvT Theory.QInstT Theory.QC Theory.CertT Theory.C01T Theory.C04T Theory.C06T
  Theory.CornerT.
Import ListNotations.
Open Scope R_scope.

Lemma wf_cheb_to_laurent odd f : wf CR (lpQ2C (cheb_to_laurent odd f)).
Proof.
  unfold cheb_to_laurent. destruct odd; [apply wf_lpQ2C_mk|].
  destruct (map (Qmult qhalf1) f); [apply wf_lpQ2C_mk|]. destruct f; apply wf_lpQ2C_mk.
Qed.

(* common unpacking: the interval difference encloses the complex run of the same term *)
Lemma jac_f_diff_run odd red f d : jac_f_diff odd red f = Some d ->
  exists phi0 rest gC dC, sym_full_q odd red = Some (phi0 :: rest) /\ elemC (phi0 :: rest) = Some gC /\
    gwf CR gC /\
    corner_diff OpsC halfC (la_X gC) (lpQ2C (cheb_to_laurent odd f)) = Some dC /\ lp_rel rIC d dC.
Proof.
  unfold jac_f_diff. intros H.
  destruct (sym_full_q odd red) as [full|] eqn:Ef; [|discriminate]. cbn [obind] in H.
  destruct (resp_elem full) as [g|] eqn:Eg; [|discriminate]. cbn [obind] in H.
  destruct full as [|phi0 rest]; [unfold resp_elem in Eg; cbn in Eg; discriminate|].
  pose proof (la_from_angles_rel OpsI OpsC rIC rIC_0 rIC_1 rIC_add rIC_mul rIC_neg _ _ (cs_encl_rel (phi0 :: rest))) as R1.
  unfold resp_elem in Eg. rewrite Eg in R1. apply orel_some_l in R1. destruct R1 as (gC & EgC & [RI RX]).
  pose proof (corner_diff_rel OpsI OpsC rIC rIC_0 rIC_add rIC_mul rIC_neg _ _ _ _ _ _ half_rIC RX (lpQ2I_rel (cheb_to_laurent odd f))) as RB.
  rewrite H in RB. apply orel_some_l in RB. destruct RB as (dC & EdC & Rd).
  exists phi0, rest, gC, dC.
  split; [reflexivity|]. split; [exact EgC|]. split; [|split; assumption].
  cbn [map] in EgC.
  exact (proj2 (from_angles_sound CR (cis 0) (cis (- 0)) Ci (cis_inv 0) Ci_Ci (csC phi0) (map csC rest) gC EgC)).
Qed.

(* C12: the values returned by the Jacobian routine are, coefficient for coefficient, the
   Chebyshev coefficients of sum_k B_k T_|k| (B the X part of the exact element of the full phase
   list): every coefficient of (B + ~B)/2 - Laurent(f) is at most tol/2 in modulus *)
Theorem check_jac_f_sound odd red f tol : check_jac_f odd red f tol = true ->
  length red = length f /\
  exists phi0 rest gC dC, sym_full_q odd red = Some (phi0 :: rest) /\ elemC (phi0 :: rest) = Some gC /\
    corner_diff OpsC halfC (la_X gC) (lpQ2C (cheb_to_laurent odd f)) = Some dC /\
    Forall (fun z => Cmod z <= Q2R tol / 2) (lp_coefs dC).
Proof.
  unfold check_jac_f. intros H. apply andb_prop in H. destruct H as [Hl H]. apply Nat.eqb_eq in Hl.
  split; [exact Hl|].
  destruct (jac_f_diff odd red f) as [d|] eqn:Ed; [|discriminate].
  destruct (jac_f_diff_run odd red f d Ed) as (phi0 & rest & gC & dC & E1 & E2 & _ & E3 & Rd).
  exists phi0, rest, gC, dC. repeat split; try assumption.
  destruct Rd as (_ & _ & Hc). pose proof (all_ub_le_ok _ _ _ Hc H) as HF.
  rewrite Q2R_mult in HF. replace (Q2R qhalf1) with (/ 2) in HF by (unfold qhalf1, Q2R; cbn; lra).
  eapply Forall_impl; [|exact HF]. intros z Hz. cbn beta in Hz. lra.
Qed.

(* C13: <0|U_x(cos t)|0> = [symmetrised identity part] + i * [target Chebyshev series] within tol,
   for every t: the imaginary response is the target on all of [-1,1] *)
Theorem check_im_target_sound odd red c tol : check_im_target odd red c tol = true ->
  length red = length c /\
  exists phi0 rest gC, sym_full_q odd red = Some (phi0 :: rest) /\ elemC (phi0 :: rest) = Some gC /\
    forall theta, let w := cis theta in let wi := cis (- theta) in
      Cmod (Cminus (m00 (Ux_at phi0 rest theta))
                   (Cplus (Cmult halfC (Cplus (evx CR w wi (la_I gC)) (evx CR wi w (la_I gC))))
                          (Cmult Ci (evx CR w wi (lpQ2C (cheb_to_laurent odd c)))))) <= Q2R tol.
Proof.
  unfold check_im_target. intros H. apply andb_prop in H. destruct H as [Hl H]. apply Nat.eqb_eq in Hl.
  split; [exact Hl|].
  destruct (jac_f_diff odd red c) as [d|] eqn:Ed; [|discriminate].
  destruct (jac_f_diff_run odd red c d Ed) as (phi0 & rest & gC & dC & E1 & E2 & [WI WX] & E3 & Rd).
  exists phi0, rest, gC. split; [exact E1|]. split; [exact E2|]. intros theta. cbv zeta. set (w := cis theta). set (wi := cis (- theta)).
  apply scaled_le_q_ok in H.
  assert (Hw : Cmult w wi = RtoC 1) by apply cis_inv.
  assert (Ecorner : m00 (Ux_at phi0 rest theta) = hcorner (la_I gC) (la_X gC) theta).
  { unfold Ux_at, hcorner. unfold elemC in E2. cbn [map] in E2.
    pose proof (resp_wx_z_is_hadamard_corner CR Ci hC Ci_Ci hC_hC (RtoC (cos theta)) (RtoC (sin theta)) (csC phi0) (map csC rest) gC (unit_as theta) E2) as E.
    unfold meas_z in E. etransitivity; [exact E|].
    change (@kadd CR (RtoC (cos theta)) (@kmul CR Ci (RtoC (sin theta)))) with (Cplus (RtoC (cos theta)) (Cmult Ci (RtoC (sin theta)))).
    change (@ksub CR (RtoC (cos theta)) (@kmul CR Ci (RtoC (sin theta)))) with (Cminus (RtoC (cos theta)) (Cmult Ci (RtoC (sin theta)))).
    rewrite cis_split, cis_split_neg. reflexivity. }
  pose proof (corner_diff_ev (la_X gC) _ dC w wi Hw WX (wf_cheb_to_laurent odd c) E3) as Ed3.
  assert (Esplit : Cminus (m00 (Ux_at phi0 rest theta))
                   (Cplus (Cmult halfC (Cplus (evx CR w wi (la_I gC)) (evx CR wi w (la_I gC))))
                          (Cmult Ci (evx CR w wi (lpQ2C (cheb_to_laurent odd c))))) = Cmult Ci (evx CR w wi dC)).
  { rewrite Ecorner, Ed3. unfold hcorner. fold w wi. rewrite hC_sq_half. ring. }
  rewrite Esplit, Cmod_Ci_mult.
  pose proof (evx_bound_from_intervals w wi d dC (Cmod_cis _) (Cmod_cis _) Rd) as B.
  pose proof sc_pos. apply Rmult_le_reg_r with sc; [assumption|]. lra.
Qed.
