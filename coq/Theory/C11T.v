(* Theory/C11T.v — soundness of the conversion certificates (C11):
   lp_same: exact coefficient-wise equality of two Laurent polynomials implies equality of the
   functions they denote; check_p2l: a list l accepted against p is the Laurent form of p, i.e.
   sum_k l_k w^(-(len-1)+2k) = p((w + 1/w)/2) for every w on the circle; check_p2c: the Chebyshev
   coefficients returned for p denote p. *)
From Coq Require Import ZArith QArith Qabs Qreals List Reals Lra Lia Bool.
From Coquelicot Require Import Complex.
From PyqspV Require Import Base.Ops Model.LPolyM Model.LAlgM Model.QInst Model.ConvM Model.Checkers
  Theory.RingK Theory.LPolyT Theory.LAlgT Theory.RelT Theory.CplxT Theory.ConvT Theory.QInstT Theory.QC
  Theory.CertT Theory.C01T Theory.C04T Theory.ChebT.
Import ListNotations.
Open Scope R_scope.

Lemma forallb_qisz0 l : forallb qisz0 l = true -> Forall (fun c => q2c c = RtoC 0) l.
Proof.
  induction l as [|x l IH]; cbn [forallb]; intros H; constructor.
  - apply andb_prop in H. destruct H as [H _]. unfold qisz0 in H. apply Qeq_bool_iff in H.
    apply Qeq_eqR in H. unfold q2c. rewrite H, Q2R_0'. reflexivity.
  - apply IH. apply andb_prop in H. tauto.
Qed.

Lemma peval_all0 (l : list Q) (x : C) : Forall (fun c => q2c c = RtoC 0) l -> @peval CR (map q2c l) x = RtoC 0.
Proof.
  induction 1 as [|c l Hc _ IH]; cbn [map peval]; [reflexivity|]. rewrite Hc, IH.
  cbn [kadd kmul CR]. unfold Cplus, Cmult, RtoC; cbn [fst snd]. f_equal; ring.
Qed.

Theorem lp_same_sound (p q : lpoly Q) (x xi : C) : Cmult x xi = RtoC 1 ->
  wf CR (lpQ2C p) -> wf CR (lpQ2C q) -> lp_same p q = true ->
  evx CR x xi (lpQ2C p) = evx CR x xi (lpQ2C q).
Proof.
  intros Hx Wp Wq H. unfold lp_same in H.
  destruct (lp_sub OpsQ p q) as [d|] eqn:Ed; [|discriminate].
  pose proof (lp_sub_rel OpsQ OpsC rQC rQC_0 rQC_add rQC_neg _ _ _ _ (lp_rel_rQC p) (lp_rel_rQC q)) as R.
  rewrite Ed in R. apply orel_some_l in R. destruct R as (dC & EdC & Rd). apply lp_rel_rQC_inv in Rd. subst dC.
  pose proof (evx_sub CR x xi _ _ _ Hx Wp Wq EdC) as E.
  assert (Z : evx CR x xi (lpQ2C d) = RtoC 0).
  { unfold evx, lpQ2C; cbn [lp_dmin lp_coefs]. rewrite (peval_all0 _ _ (forallb_qisz0 _ H)).
    cbn [kmul CR]. generalize (@zpw CR x xi (lp_dmin d)). intros [a b].
    unfold Cmult, RtoC; cbn [fst snd]. f_equal; ring. }
  rewrite Z in E. cbn [ksub CR] in E.
  assert (E' : Cminus (evx CR x xi (lpQ2C p)) (evx CR x xi (lpQ2C q)) = RtoC 0) by (symmetry; exact E).
  generalize dependent (evx CR x xi (lpQ2C p)). generalize (evx CR x xi (lpQ2C q)).
  intros b a _ E'. change (K CR) with C in *.
  replace a with (Cplus (Cminus a b) b) by ring. rewrite E'. ring.
Qed.

Theorem check_p2l_sound (p l : list Q) theta : check_p2l p l = true ->
  evx CR (cis theta) (cis (- theta)) (lpQ2C (mk OpsQ l (- len l + 1))) = @peval CR (map q2c p) (RtoC (cos theta)).
Proof.
  unfold check_p2l. intros H. destruct (target_F p) as [F|] eqn:EF; [|discriminate].
  destruct (target_F_sound p F theta EF) as [E W]. rewrite <- E. symmetry.
  apply lp_same_sound; [apply cis_inv | exact W | apply wf_lpQ2C_mk | exact H].
Qed.

(* poly2cheb instance certificate: the returned Chebyshev coefficients denote p *)
Lemma c2p_q_rel kindU cs : Forall2 rQC (c2p_q kindU cs) (c2p OpsC kindU (map q2c cs)).
Proof.
  unfold c2p_q, c2p, pad_to.
  assert (Hc : forall n, Forall2 rQC (chebP OpsQ kindU n) (chebP OpsC kindU n)).
  { intros n. unfold chebP.
    assert (HP : Forall2 rQC (fst (cheb_pair OpsQ kindU n)) (fst (cheb_pair OpsC kindU n)) /\
                 Forall2 rQC (snd (cheb_pair OpsQ kindU n)) (snd (cheb_pair OpsC kindU n))).
    { assert (R2 : rQC (two OpsQ) (two OpsC)) by (unfold two; apply rQC_add; apply rQC_1).
      induction n as [|n [I1 I2]]; cbn [cheb_pair fst snd].
      - split; [repeat constructor; apply rQC_1|]. destruct kindU; repeat constructor; try apply rQC_0; try apply rQC_1; exact R2.
      - destruct (cheb_pair OpsQ kindU n) as [a b]. destruct (cheb_pair OpsC kindU n) as [a' b']. cbn [fst snd] in *.
        split; [exact I2|]. unfold psub, pshift.
        apply (ladd_rel OpsQ OpsC rQC rQC_add).
        + apply (scale_rel OpsQ OpsC rQC rQC_mul); [exact R2|]. constructor; [apply rQC_0 | exact I2].
        + apply (lneg_rel OpsQ OpsC rQC rQC_neg). exact I1. }
    exact (proj1 HP). }
  assert (Ha : forall k, Forall2 rQC (c2p_aux OpsQ kindU cs k) (c2p_aux OpsC kindU (map q2c cs) k)).
  { induction cs as [|c cs IH]; intros k; cbn [map c2p_aux]; [constructor|].
    apply (ladd_rel OpsQ OpsC rQC rQC_add); [|apply IH].
    apply (scale_rel OpsQ OpsC rQC rQC_mul); [reflexivity | apply Hc]. }
  apply (app_rel rQC); [apply Ha|].
  rewrite map_length, (F2_len rQC _ _ (Ha 0%nat)).
  induction (length cs - length (c2p_aux OpsC kindU (map q2c cs) 0))%nat; cbn [repeat]; constructor; [apply rQC_0 | assumption].
Qed.

Theorem check_p2c_sound kindU (p : list Q) (w wi half x : C) :
  check_p2c kindU p = true ->
  chebsum CR kindU (map q2c (p2c_q kindU p)) 0 x = @peval CR (map q2c p) x.
Proof.
  unfold check_p2c. intros H. apply qlist_eqb_exact_ok in H.
  transitivity (@peval CR (c2p OpsC kindU (map q2c (p2c_q kindU p))) x);
    [symmetry; exact (c2p_sound CR kindU (map q2c (p2c_q kindU p)) x)|].
  pose proof (c2p_q_rel kindU (p2c_q kindU p)) as R. apply F2_rQC_inv in R. rewrite R.
  clear R. induction H as [|a b l l' Hab _ IH]; cbn [map peval]; [reflexivity|].
  rewrite IH. f_equal. unfold q2c. apply Qeq_eqR in Hab. rewrite Hab. reflexivity.
Qed.
