(* Theory/DctT.v — C16, erf family: the least-squares Chebyshev fit on the N Chebyshev nodes of the first kind
   x_j = cos((2j+1) pi / (2N)) has a closed form.
     discrete orthogonality:  sum_j T_k(x_j) T_i(x_j) = 0 (k <> i), N (k = i = 0), N/2 (k = i > 0)   for k, i < N;
     hence for n < N the coefficients  c_k = (2 - [k=0]) / N * sum_j f_j T_k(x_j)  satisfy the normal equations and
     minimise  sum_j (f_j - sum_{k<=n} d_k T_k(x_j))^2  over all d.
   (The recomputation of the documented fits by the harness therefore needs no linear solve.) *)
From Coq Require Import ZArith List Reals Lra Lia Bool Psatz PeanoNat.
From PyqspV Require Import Theory.SupT Theory.FPProbT Theory.ChebDblT Theory.AccHiT.
Import ListNotations.
Open Scope R_scope.

(* ---- finite sums *)
Lemma sumf_ext f g n : (forall j, (j < n)%nat -> f j = g j) -> sumf f n = sumf g n.
Proof. induction n as [|n IH]; intros H; cbn [sumf]; [reflexivity|]. rewrite IH, H by (intros; try apply H; lia). reflexivity. Qed.
Lemma sumf_plus f g n : sumf (fun j => f j + g j) n = sumf f n + sumf g n.
Proof. induction n as [|n IH]; cbn [sumf]; [lra | rewrite IH; lra]. Qed.
Lemma sumf_scal c f n : sumf (fun j => c * f j) n = c * sumf f n.
Proof. induction n as [|n IH]; cbn [sumf]; [lra | rewrite IH; lra]. Qed.
Lemma sumf_const c n : sumf (fun _ => c) n = INR n * c.
Proof. induction n as [|n IH]; cbn [sumf]; [cbn; lra | rewrite IH, S_INR; lra]. Qed.
Lemma sumf_zero f n : (forall j, (j < n)%nat -> f j = 0) -> sumf f n = 0.
Proof. intros H. rewrite (sumf_ext f (fun _ => 0) n H), sumf_const. lra. Qed.
Lemma sumf_swap (F : nat -> nat -> R) n m : sumf (fun j => sumf (fun k => F j k) m) n = sumf (fun k => sumf (fun j => F j k) n) m.
Proof.
  induction n as [|n IH]; cbn [sumf].
  - symmetry. apply sumf_zero. reflexivity.
  - rewrite IH, <- sumf_plus. reflexivity.
Qed.
Lemma sumf_single f n i : (i < n)%nat -> (forall k, (k < n)%nat -> k <> i -> f k = 0) -> sumf f n = f i.
Proof.
  induction n as [|n IH]; intros Hi H; [lia|]. cbn [sumf].
  destruct (Nat.eq_dec i n) as [E|Hne].
  - subst i. rewrite sumf_zero; [lra|]. intros k Hk. apply H; lia.
  - assert (Hi' : (i < n)%nat) by lia.
    assert (H' : forall k, (k < n)%nat -> k <> i -> f k = 0) by (intros k Hk Hk2; apply H; [lia | exact Hk2]).
    rewrite (IH Hi' H').
    assert (Hn0 : f n = 0) by (apply H; [lia | intros E; apply Hne; symmetry; exact E]).
    rewrite Hn0. lra.
Qed.
Lemma sumf_nonneg f n : (forall j, (j < n)%nat -> 0 <= f j) -> 0 <= sumf f n.
Proof. induction n as [|n IH]; intros H; cbn [sumf]; [lra|]. pose proof (IH ltac:(intros; apply H; lia)). pose proof (H n ltac:(lia)). lra. Qed.

(* ---- sum_j cos((2j+1) theta) *)
Lemma sum_cos_odd N theta : 2 * sin theta * sumf (fun j => cos (INR (2 * j + 1) * theta)) N = sin (INR (2 * N) * theta).
Proof.
  induction N as [|N IH]; cbn [sumf].
  - cbn [Nat.mul INR]. rewrite Rmult_0_l, sin_0. ring.
  - rewrite Rmult_plus_distr_l, IH.
    assert (E1 : INR (2 * S N) = INR (2 * N + 1) + 1) by (replace (2 * S N)%nat with (S (2 * N + 1)) by lia; apply S_INR).
    assert (E2 : INR (2 * N) = INR (2 * N + 1) - 1) by (replace (2 * N + 1)%nat with (S (2 * N)) by lia; rewrite S_INR; ring).
    rewrite E1, E2.
    replace ((INR (2 * N + 1) + 1) * theta) with (INR (2 * N + 1) * theta + theta) by ring.
    replace ((INR (2 * N + 1) - 1) * theta) with (INR (2 * N + 1) * theta - theta) by ring.
    rewrite sin_plus, sin_minus. ring.
Qed.

Definition phi (N j : nat) : R := PI * INR (2 * j + 1) / INR (2 * N).
Definition node (N j : nat) : R := cos (phi N j).

Lemma nodes_cos_sum_zero N m : (0 < m)%nat -> (m < 2 * N)%nat -> sumf (fun j => cos (INR m * phi N j)) N = 0.
Proof.
  intros Hm HmN. assert (HN : 0 < INR (2 * N)) by (apply lt_0_INR; lia).
  set (theta := INR m * PI / INR (2 * N)).
  assert (Hth : 0 < theta < PI).
  { unfold theta. pose proof PI_RGT_0. assert (0 < INR m) by (apply lt_0_INR; exact Hm). assert (INR m < INR (2 * N)) by (apply lt_INR; exact HmN).
    split.
    - apply Rdiv_lt_0_compat; [nra | exact HN].
    - apply (Rmult_lt_reg_r (INR (2 * N))); [exact HN|]. unfold Rdiv. rewrite Rmult_assoc, Rinv_l by lra. nra. }
  pose proof (sin_gt_0 theta (proj1 Hth) (proj2 Hth)) as Hs.
  pose proof (sum_cos_odd N theta) as E.
  assert (E2 : sin (INR (2 * N) * theta) = 0).
  { apply sin_eq_0_1. exists (Z.of_nat m). unfold theta. rewrite <- INR_IZR_INZ. field. lra. }
  rewrite E2 in E.
  assert (Es : sumf (fun j => cos (INR m * phi N j)) N = sumf (fun j => cos (INR (2 * j + 1) * theta)) N).
  { apply sumf_ext. intros j _. f_equal. unfold phi, theta. field. lra. }
  rewrite Es. nra.
Qed.

Lemma Tn_cos k t : Tn k (cos t) = cos (INR k * t).
Proof. unfold Tn. rewrite cheb_series_trig, trig_sum_unit. reflexivity. Qed.

(* ---- discrete orthogonality *)
Definition gram (N k i : nat) : R := sumf (fun j => Tn k (node N j) * Tn i (node N j)) N.

Lemma gram_cos N k i : (i <= k)%nat ->
  gram N k i = / 2 * sumf (fun j => cos (INR (k + i) * phi N j)) N + / 2 * sumf (fun j => cos (INR (k - i) * phi N j)) N.
Proof.
  intros Hik. unfold gram, node. rewrite <- !sumf_scal, <- sumf_plus. apply sumf_ext. intros j _.
  rewrite !Tn_cos. rewrite plus_INR, minus_INR by exact Hik.
  replace ((INR k + INR i) * phi N j) with (INR k * phi N j + INR i * phi N j) by ring.
  replace ((INR k - INR i) * phi N j) with (INR k * phi N j - INR i * phi N j) by ring.
  rewrite cos_plus, cos_minus. lra.
Qed.

Lemma gram_sym N k i : gram N k i = gram N i k.
Proof. unfold gram. apply sumf_ext. intros; ring. Qed.

Theorem discrete_orthogonality N k i : (k < N)%nat -> (i < N)%nat ->
  gram N k i = if Nat.eqb k i then (if Nat.eqb k 0 then INR N else INR N / 2) else 0.
Proof.
  assert (G : forall a b, (b <= a)%nat -> (a < N)%nat ->
              gram N a b = if Nat.eqb a b then (if Nat.eqb a 0 then INR N else INR N / 2) else 0).
  { intros a b Hba Ha. rewrite (gram_cos N a b Hba).
    destruct (Nat.eqb_spec a b) as [->|Hne].
    - rewrite Nat.sub_diag. destruct (Nat.eqb_spec b 0) as [->|Hb0].
      + cbn [Nat.add INR]. rewrite (sumf_ext _ (fun _ => 1)) by (intros; rewrite Rmult_0_l; apply cos_0). rewrite sumf_const. lra.
      + rewrite (nodes_cos_sum_zero N (b + b)) by lia.
        cbn [INR]. rewrite (sumf_ext _ (fun _ => 1)) by (intros; rewrite Rmult_0_l; apply cos_0). rewrite sumf_const. lra.
    - rewrite (nodes_cos_sum_zero N (a + b)) by lia. rewrite (nodes_cos_sum_zero N (a - b)) by lia. lra. }
  intros Hk Hi. destruct (Nat.le_ge_cases i k) as [H|H].
  - apply G; assumption.
  - rewrite gram_sym, (G i k H Hi). rewrite (Nat.eqb_sym k i).
    destruct (Nat.eqb_spec i k) as [->|]; reflexivity.
Qed.

(* ---- the least-squares fit in closed form *)
Section LSQ.
  Variables (N n : nat) (f : nat -> R).
  Hypothesis HnN : (n < N)%nat.
  Definition wgt (k : nat) : R := if Nat.eqb k 0 then 1 else 2.
  Definition dct_coef (k : nat) : R := wgt k / INR N * sumf (fun j => f j * Tn k (node N j)) N.
  Definition fit (d : nat -> R) (x : R) : R := sumf (fun k => d k * Tn k x) (S n).
  Definition resid (d : nat -> R) (j : nat) : R := f j - fit d (node N j).

  Lemma INR_N_pos : 0 < INR N.
  Proof. apply lt_0_INR. lia. Qed.

  Lemma fit_inner d i : (i <= n)%nat ->
    sumf (fun j => fit d (node N j) * Tn i (node N j)) N = d i * gram N i i.
  Proof.
    intros Hi. unfold fit.
    rewrite (sumf_ext _ (fun j => sumf (fun k => d k * (Tn k (node N j) * Tn i (node N j))) (S n)))
      by (intros j _; rewrite Rmult_comm, <- sumf_scal; apply sumf_ext; intros; ring).
    rewrite sumf_swap.
    rewrite (sumf_ext _ (fun k => d k * gram N k i)) by (intros k _; unfold gram; rewrite sumf_scal; reflexivity).
    apply (sumf_single (fun k => d k * gram N k i) (S n) i); [lia|].
    intros k Hk Hne. rewrite discrete_orthogonality by lia.
    destruct (Nat.eqb_spec k i); [contradiction | ring].
  Qed.

  Theorem dct_normal_equations i : (i <= n)%nat ->
    sumf (fun j => resid dct_coef j * Tn i (node N j)) N = 0.
  Proof.
    intros Hi. unfold resid.
    rewrite (sumf_ext _ (fun j => f j * Tn i (node N j) + -1 * (fit dct_coef (node N j) * Tn i (node N j)))) by (intros; ring).
    rewrite sumf_plus, sumf_scal, (fit_inner dct_coef i Hi), discrete_orthogonality by lia.
    rewrite Nat.eqb_refl. unfold dct_coef, wgt. pose proof INR_N_pos.
    destruct (Nat.eqb i 0); field; lra.
  Qed.

  Theorem dct_is_least_squares d :
    sumf (fun j => resid dct_coef j * resid dct_coef j) N <= sumf (fun j => resid d j * resid d j) N.
  Proof.
    set (e := fun k => d k - dct_coef k).
    assert (Efit : forall x, fit d x = fit dct_coef x + fit e x).
    { intros x. unfold fit. rewrite <- sumf_plus. apply sumf_ext. intros; unfold e; ring. }
    assert (Ecross : sumf (fun j => resid dct_coef j * fit e (node N j)) N = 0).
    { unfold fit at 1.
      rewrite (sumf_ext _ (fun j => sumf (fun k => e k * (resid dct_coef j * Tn k (node N j))) (S n)))
        by (intros j _; rewrite <- sumf_scal; apply sumf_ext; intros; ring).
      rewrite sumf_swap. apply sumf_zero. intros k Hk. rewrite sumf_scal, dct_normal_equations by lia. ring. }
    assert (Eexp : sumf (fun j => resid d j * resid d j) N =
                   sumf (fun j => resid dct_coef j * resid dct_coef j) N
                   + -2 * sumf (fun j => resid dct_coef j * fit e (node N j)) N
                   + sumf (fun j => fit e (node N j) * fit e (node N j)) N).
    { rewrite <- sumf_scal, <- !sumf_plus. apply sumf_ext. intros j _. unfold resid. rewrite (Efit (node N j)). ring. }
    rewrite Eexp, Ecross.
    pose proof (sumf_nonneg (fun j => fit e (node N j) * fit e (node N j)) N ltac:(intros; nra)). lra.
  Qed.
End LSQ.

(* a coefficient list denotes the sum of its Chebyshev terms *)
Lemma cheb_sum_R_terms c : forall x a b, cheb_sum_R c x a b = sumf (fun k => nth k c 0 * Ucs k x a b) (length c).
Proof.
  induction c as [|c0 c IH]; intros x a b; cbn [cheb_sum_R length]; [reflexivity|].
  rewrite IH.
  assert (E : forall m (g : nat -> R), sumf g (S m) = g 0%nat + sumf (fun k => g (S k)) m).
  { induction m as [|m IHm]; intros g; [cbn [sumf]; ring|].
    change (sumf g (S (S m))) with (sumf g (S m) + g (S m)). rewrite (IHm g). cbn [sumf]. ring. }
  rewrite (E (length c)). cbn [nth]. rewrite Ucs_0. f_equal.
  apply sumf_ext. intros k _. rewrite Ucs_S. reflexivity.
Qed.
Theorem cheb_series_terms c x : cheb_series c x = sumf (fun k => nth k c 0 * Tn k x) (length c).
Proof. unfold cheb_series. rewrite cheb_sum_R_terms. apply sumf_ext. intros k _. reflexivity. Qed.
