(* Theory/LPolyT.v — the LPoly model denotes Laurent polynomials: evaluation at a unit w of
   any commutative ring is a homomorphism for every model operation (all lengths, lowest
   powers, zero sentinel included). *)
From Coq Require Import ZArith List Ring Lia Bool ZifyBool.
From PyqspV Require Import Base.Ops Model.LPolyM Theory.RingK.
Import ListNotations.
Ltac Zify.zify_post_hook ::= Z.to_euclidean_division_equations.

Section LPolyT.
  Variable K : CRing.
  Add Ring Kr2 : (Kring K).
  Notation "x + y" := (kadd x y).
  Notation "x * y" := (kmul x y).
  Notation "x - y" := (ksub x y).
  Notation "- x" := (kopp x).
  Notation O := (@OpsK K).
  Notation lpoly := (lpoly K).

  (* every value built by the model satisfies this: the sentinel stores [0] *)
  Definition wf (p : lpoly) : Prop := lp_isz p = true -> lp_coefs p = [k0].

  Lemma wf_mk l d : wf (mk O l d).
  Proof. destruct l; unfold wf; cbn; [reflexivity | discriminate]. Qed.

  Variables w wi : K.
  Hypothesis wwi : w * wi = k1.
  Let wiw : wi * w = k1 := wiw K w wi wwi.

  (* the Laurent polynomial denoted by p, evaluated at (x, xi) *)
  Definition evx (x xi : K) (p : lpoly) : K := zpw x xi (lp_dmin p) * peval (lp_coefs p) (x * x).
  Definition ev := evx w wi.     (* p(w)   *)
  Definition evi := evx wi w.    (* p(1/w) *)

  Lemma evx_mk x xi l d : evx x xi (mk O l d) = zpw x xi d * peval l (x * x).
  Proof. destruct l; unfold evx; cbn [mk lp_dmin lp_coefs peval]; [cbn; ring | reflexivity]. Qed.

  Lemma evx_isz x xi p : wf p -> lp_isz p = true -> evx x xi p = k0.
  Proof. intros W H. unfold evx. rewrite (W H). cbn. ring. Qed.

  Lemma evx_mul x xi p q : x * xi = k1 -> wf p -> wf q ->
    evx x xi (lp_mul O p q) = evx x xi p * evx x xi q.
  Proof.
    intros Hx Wp Wq. unfold lp_mul.
    destruct (lp_isz p) eqn:Ep; [cbn [orb]; rewrite (evx_isz _ _ p Wp Ep), evx_mk; cbn; ring|].
    destruct (lp_isz q) eqn:Eq; [cbn [orb]; rewrite (evx_isz _ _ q Wq Eq), evx_mk; cbn; ring|].
    cbn [orb]. rewrite evx_mk, peval_conv, (zpw_add K x xi Hx). unfold evx. ring.
  Qed.

  Lemma evx_scale x xi a p : wf p -> evx x xi (lp_scale O a p) = a * evx x xi p.
  Proof.
    intros Wp. unfold lp_scale. destruct (lp_isz p) eqn:Ep.
    - rewrite (evx_isz _ _ p Wp Ep), evx_mk. cbn. ring.
    - rewrite evx_mk, peval_scale. unfold evx. ring.
  Qed.

  Lemma evx_neg x xi p : wf p -> evx x xi (lp_neg O p) = - evx x xi p.
  Proof.
    intros Wp. unfold lp_neg. destruct (lp_isz p) eqn:Ep.
    - rewrite (evx_isz _ _ p Wp Ep), evx_mk. cbn. ring.
    - rewrite evx_mk, peval_lneg. unfold evx. ring.
  Qed.

  Lemma zpw_swap (x xi : K) z : zpw xi x z = zpw x xi (- z).
  Proof. unfold zpw. rewrite Z.opp_involutive. ring. Qed.

  (* ~p evaluated at 1/w is p evaluated at w *)
  Lemma evx_inv x xi p : x * xi = k1 -> wf p -> evx xi x (lp_inv O p) = evx x xi p.
  Proof.
    intros Hx Wp. assert (Hxi : xi * x = k1) by (rewrite <- Hx; ring).
    unfold lp_inv. destruct (lp_isz p) eqn:Ep.
    { rewrite (evx_isz _ _ p Wp Ep), evx_mk. cbn. ring. }
    rewrite evx_mk. unfold evx, lp_dmax.
    set (l := lp_coefs p). set (d := lp_dmin p).
    rewrite zpw_swap, Z.opp_involutive.
    replace (2 * len l + d - 2)%Z with (d + (- 2 + 2 * Z.of_nat (length l)))%Z by (unfold len; lia).
    rewrite !(zpw_add K x xi Hx), (zpw_2n K x xi).
    assert (Hxx : (xi * xi) * (x * x) = k1).
    { transitivity ((xi * x) * (xi * x)); [ring|]. rewrite Hxi. ring. }
    pose proof (peval_rev K (lp_coefs p) (xi * xi) (x * x) Hxx) as Hr. fold l in Hr.
    assert (H2 : zpw x xi (-2) * (x * x) = k1).
    { replace (x * x) with (zpw x xi 2).
      - apply (zpw_inv_cancel K x xi Hx (-2)%Z).
      - unfold zpw. simpl. ring. }
    transitivity (zpw x xi d * zpw x xi (-2) * (peval (rev l) (xi * xi) * pw (x * x) (length l))); [ring|].
    rewrite Hr.
    transitivity (zpw x xi d * (zpw x xi (-2) * (x * x)) * peval l (x * x)); [ring|].
    rewrite H2. ring.
  Qed.

  Lemma pw_zpw (x xi : K) (n : Z) : x * xi = k1 -> (0 <= n)%Z ->
    pw (x * x) (Z.to_nat n) = zpw x xi (2 * n).
  Proof.
    intros Hx Hn. rewrite <- (zpw_2n K x xi). f_equal. lia.
  Qed.

  Lemma evx_aligned x xi p a b l : x * xi = k1 -> wf p ->
    lp_aligned O p a b = Some l -> ((lp_dmin p - a) mod 2 = 0)%Z ->
    zpw x xi a * peval l (x * x) = evx x xi p.
  Proof.
    intros Hx Wp H Hpar. unfold lp_aligned in H.
    destruct (lp_isz p) eqn:Ep.
    - rewrite (evx_isz _ _ p Wp Ep).
      destruct (_ <? 0)%Z; [discriminate|]. injection H as <-. rewrite peval_zeros. ring.
    - destruct ((a <=? lp_dmin p)%Z && (lp_dmax p <=? b)%Z) eqn:E; [|discriminate].
      injection H as <-. rewrite !peval_app, !peval_zeros, zeros_length.
      rewrite (pw_zpw x xi _ Hx) by lia.
      unfold evx.
      transitivity (zpw x xi a * zpw x xi (2 * ((lp_dmin p - a) / 2)) * peval (lp_coefs p) (x * x)); [ring|].
      rewrite <- (zpw_add K x xi Hx). f_equal. f_equal. lia.
  Qed.

  Lemma evx_add x xi p q r : x * xi = k1 -> wf p -> wf q ->
    lp_add O p q = Some r -> evx x xi r = evx x xi p + evx x xi q.
  Proof.
    intros Hx Wp Wq H. unfold lp_add in H.
    destruct (lp_isz p) eqn:Ep.
    { injection H as <-. rewrite (evx_isz _ _ p Wp Ep). destruct (lp_isz q) eqn:Eq.
      - rewrite (evx_isz _ _ q Wq Eq). unfold evx. cbn. ring.
      - rewrite evx_mk. unfold evx. ring. }
    destruct (lp_isz q) eqn:Eq.
    { injection H as <-. rewrite (evx_isz _ _ q Wq Eq), evx_mk. unfold evx. ring. }
    destruct (negb (lp_parity p =? lp_parity q)%Z) eqn:Epar; [discriminate|].
    unfold lp_parity in Epar.
    destruct (lp_aligned O p _ _) as [la|] eqn:Ea; [|discriminate].
    destruct (lp_aligned O q _ _) as [lb|] eqn:Eb; [|discriminate].
    cbn [obind] in H. injection H as <-.
    rewrite evx_mk, peval_ladd.
    rewrite <- (evx_aligned x xi p _ _ la Hx Wp Ea) by lia.
    rewrite <- (evx_aligned x xi q _ _ lb Hx Wq Eb) by lia.
    ring.
  Qed.

  Lemma evx_sub x xi p q r : x * xi = k1 -> wf p -> wf q ->
    lp_sub O p q = Some r -> evx x xi r = evx x xi p - evx x xi q.
  Proof.
    intros Hx Wp Wq H. unfold lp_sub in H.
    rewrite (evx_add x xi p (lp_neg O q) r Hx Wp) by (try exact H; unfold lp_neg; destruct (lp_isz q); apply wf_mk).
    rewrite evx_neg by exact Wq. ring.
  Qed.

  (* well-formedness is preserved (everything is built by mk) *)
  Lemma wf_mul p q : wf (lp_mul O p q).
  Proof. unfold lp_mul. destruct (_ || _); apply wf_mk. Qed.
  Lemma wf_scale a p : wf (lp_scale O a p).
  Proof. unfold lp_scale. destruct (lp_isz p); apply wf_mk. Qed.
  Lemma wf_neg p : wf (lp_neg O p).
  Proof. unfold lp_neg. destruct (lp_isz p); apply wf_mk. Qed.
  Lemma wf_inv p : wf (lp_inv O p).
  Proof. unfold lp_inv. destruct (lp_isz p); apply wf_mk. Qed.
  Lemma wf_add p q r : lp_add O p q = Some r -> wf r.
  Proof.
    unfold lp_add. destruct (lp_isz p); [intros H; injection H as <-; destruct (lp_isz q); [intro; reflexivity | apply wf_mk]|].
    destruct (lp_isz q); [intros H; injection H as <-; apply wf_mk|].
    destruct (negb _); [discriminate|].
    destruct (lp_aligned O p _ _); [|discriminate]. destruct (lp_aligned O q _ _); [|discriminate].
    cbn [obind]. intros H; injection H as <-; apply wf_mk.
  Qed.
  Lemma wf_sub p q r : lp_sub O p q = Some r -> wf r.
  Proof. apply wf_add. Qed.
  Lemma wf_truncate p a b r : lp_truncate O p a b = Some r -> wf r.
  Proof.
    unfold lp_truncate. destruct (lp_aligned O p _ _); [|discriminate].
    cbn [obind]. intros H; injection H as <-; apply wf_mk.
  Qed.
  Lemma wf_pos_half p : wf (lp_pos_half O p).
  Proof. apply wf_mk. Qed.
  Lemma wf_neg_half p : wf (lp_neg_half O p).
  Proof. apply wf_mk. Qed.

  (* the zero polynomial: evaluates to 0, neutral for +, absorbing for * (either side) *)
  Definition lzero (d : Z) : lpoly := mk O [] d.
  Lemma ev_zero x xi d : evx x xi (lzero d) = k0.
  Proof. unfold lzero. rewrite evx_mk. cbn. ring. Qed.
  Lemma add_zero_l x xi d p r : x * xi = k1 -> wf p -> lp_add O (lzero d) p = Some r -> evx x xi r = evx x xi p.
  Proof. intros Hx Wp H. rewrite (evx_add x xi _ _ _ Hx (wf_mk _ _) Wp H), ev_zero. ring. Qed.
  Lemma add_zero_r x xi d p r : x * xi = k1 -> wf p -> lp_add O p (lzero d) = Some r -> evx x xi r = evx x xi p.
  Proof. intros Hx Wp H. rewrite (evx_add x xi _ _ _ Hx Wp (wf_mk _ _) H), ev_zero. ring. Qed.
  Lemma add_zero_total_l d p : exists r, lp_add O (lzero d) p = Some r.
  Proof. unfold lp_add, lzero. cbn. destruct (lp_isz p); eauto. Qed.
  Lemma add_zero_total_r d p : exists r, lp_add O p (lzero d) = Some r.
  Proof. unfold lp_add, lzero. destruct (lp_isz p); cbn; eauto. Qed.
  Lemma mul_zero_l x xi d p : evx x xi (lp_mul O (lzero d) p) = k0.
  Proof. unfold lp_mul. change (lp_isz (lzero d)) with true. cbn [orb]. rewrite evx_mk. cbn. ring. Qed.
  Lemma mul_zero_r x xi d p : evx x xi (lp_mul O p (lzero d)) = k0.
  Proof. unfold lp_mul. change (lp_isz (lzero d)) with true. rewrite orb_true_r, evx_mk. cbn. ring. Qed.
End LPolyT.
