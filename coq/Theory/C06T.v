(* Theory/C06T.v — soundness of the round-trip certificate (C06): the two exact elements built
   from the two phase lists agree coefficient for coefficient within tol, and the phase
   differences are multiples of pi (|sin| <= stol, cos of definite sign) of which an even number
   is odd. *)
From Coq Require Import ZArith QArith Qreals List Reals Lra Lia Bool Psatz.
From Coquelicot Require Import Complex.
From PyqspV Require Import Base.Ops Base.IntervalZ Base.TrigZ Model.LPolyM Model.LAlgM Model.QInst
  Model.ConvM Model.Checkers Theory.RingK Theory.LPolyT Theory.LAlgT Theory.IntervalT Theory.TrigT
  Theory.RelT Theory.CplxT Theory.RespT Theory.QInstT Theory.QC Theory.CertT.
Import ListNotations.
Open Scope R_scope.

Definition elemC (phis : list Q) : option (lalg C) := la_from_angles OpsC (map csC phis).

Lemma all_ub_le_ok l lc tol : Forall2 rIC l lc -> all_ub_le l tol = true ->
  Forall (fun z => Cmod z <= Q2R tol) lc.
Proof.
  induction 1 as [|i z l lc [Hz Hi] Hl IH]; cbn [all_ub_le]; intros H; [constructor|].
  apply andb_prop in H. destruct H as [H1 H2]. constructor; [|apply IH; exact H2].
  apply scaled_le_q_ok in H1. pose proof (iabs_ub_ok i (fst z) Hi) as Hu.
  assert (E : Cmod z = Rabs (fst z)).
  { destruct z as [a b]. cbn [fst snd] in *. subst b. apply (Cmod_R a). }
  rewrite E. pose proof sc_pos. apply Rmult_le_reg_r with sc; lra.
Qed.

(* accumulator-style specification of the gauge test: [Gauge a b par] holds iff every
   difference b_j - a_j has |sin| <= stol and a cosine of definite sign, and the number of
   negative cosines has the parity [par] *)
Inductive Gauge (stol : R) : list Q -> list Q -> bool -> Prop :=
| G_nil : Gauge stol [] [] false
| G_pos x y a b par : Rabs (sin (Q2R y - Q2R x)) <= stol -> 0 < cos (Q2R y - Q2R x) ->
    Gauge stol a b par -> Gauge stol (x :: a) (y :: b) par
| G_neg x y a b par : Rabs (sin (Q2R y - Q2R x)) <= stol -> cos (Q2R y - Q2R x) < 0 ->
    Gauge stol a b (negb par) -> Gauge stol (x :: a) (y :: b) par.

Lemma gauge_ok_sound stol a : forall b par, gauge_ok a b stol par = true -> Gauge (Q2R stol) a b par.
Proof.
  induction a as [|x a IH]; intros [|y b] par H; cbn [gauge_ok] in H; try discriminate.
  - destruct par; [discriminate | constructor].
  - apply andb_prop in H. destruct H as [Hs Hc].
    destruct (cos_sin_encl_ok (qadd y (Qopp x))) as [Ec Es].
    rewrite qadd_ok, Q2R_opp in Ec, Es.
    replace (Q2R y + - Q2R x) with (Q2R y - Q2R x) in Ec, Es by ring.
    apply scaled_le_q_ok in Hs. pose proof (iabs_ub_ok _ _ Es) as Hu. pose proof sc_pos as Hsc.
    assert (Hsin : Rabs (sin (Q2R y - Q2R x)) <= Q2R stol) by (apply Rmult_le_reg_r with sc; lra).
    destruct Ec as [Ec1 Ec2].
    destruct (0 <? lo (fst (cos_sin_encl (qadd y (Qopp x)))))%Z eqn:E1.
    + apply Z.ltb_lt in E1. apply IZR_lt in E1. apply G_pos; [exact Hsin | nra | apply IH; exact Hc].
    + destruct (hi (fst (cos_sin_encl (qadd y (Qopp x)))) <? 0)%Z eqn:E2; [|discriminate].
      apply Z.ltb_lt in E2. apply IZR_lt in E2. apply G_neg; [exact Hsin | nra | apply IH; exact Hc].
Qed.

Theorem check_roundtrip_sound phis phis' tol stol :
  check_roundtrip phis phis' tol stol = true ->
  length phis = length phis' /\
  (exists g h d, elemC phis = Some g /\ elemC phis' = Some h /\ la_sub OpsC g h = Some d /\
     Forall (fun z => Cmod z <= Q2R tol) (lp_coefs (la_I d)) /\
     Forall (fun z => Cmod z <= Q2R tol) (lp_coefs (la_X d))) /\
  Gauge (Q2R stol) phis phis' false.
Proof.
  unfold check_roundtrip. intros H. apply andb_prop in H. destruct H as [H Hg].
  apply andb_prop in H. destruct H as [Hl He]. apply Nat.eqb_eq in Hl.
  split; [exact Hl|]. split; [|apply gauge_ok_sound; exact Hg].
  destruct (resp_elem phis) as [g|] eqn:Eg; [|discriminate].
  destruct (resp_elem phis') as [h|] eqn:Eh; [|discriminate].
  pose proof (la_from_angles_rel OpsI OpsC rIC rIC_0 rIC_1 rIC_add rIC_mul rIC_neg _ _ (cs_encl_rel phis)) as R1.
  pose proof (la_from_angles_rel OpsI OpsC rIC rIC_0 rIC_1 rIC_add rIC_mul rIC_neg _ _ (cs_encl_rel phis')) as R2.
  unfold resp_elem in Eg, Eh. rewrite Eg in R1. rewrite Eh in R2.
  apply orel_some_l in R1. destruct R1 as (gC & EgC & Rg).
  apply orel_some_l in R2. destruct R2 as (hC & EhC & Rh).
  unfold elem_close in He. destruct (la_sub OpsI g h) as [d|] eqn:Ed; [|discriminate].
  pose proof (la_sub_rel OpsI OpsC rIC rIC_0 rIC_add rIC_neg _ _ _ _ Rg Rh) as R3.
  rewrite Ed in R3. apply orel_some_l in R3. destruct R3 as (dC & EdC & [RdI RdX]).
  apply andb_prop in He. destruct He as [HeI HeX].
  exists gC, hC, dC. unfold elemC. repeat split; try assumption.
  - destruct RdI as (_ & _ & Hc). eapply all_ub_le_ok; eassumption.
  - destruct RdX as (_ & _ & Hc). eapply all_ub_le_ok; eassumption.
Qed.
