(* Theory/ConjT.v — complex conjugation and Laurent polynomials with real coefficients:
   on the unit circle conj(p(w)) = p(1/w), hence |p(w)|^2 = (p * ~p)(w);
   the Laurent polynomial built by cheb_to_laurent denotes the cosine series it is built from. *)
From Coq Require Import ZArith QArith Qreals List Reals Lra Lia Bool.
From Coquelicot Require Import Complex.
From PyqspV Require Import Base.Ops Model.LPolyM Model.QInst Model.Checkers Theory.RingK Theory.LPolyT Theory.CplxT
  Theory.QInstT Theory.QC Theory.SupT.
Import ListNotations.
Open Scope R_scope.

Ltac cring := cbn [kmul kadd ksub kopp k0 k1 CR K]; match goal with |- @eq _ ?a ?b => change (@eq C a b) end; ring.

Lemma Cconj_plus a b : Cconj (Cplus a b) = Cplus (Cconj a) (Cconj b).
Proof. destruct a, b; unfold Cconj, Cplus; cbn [fst snd]. f_equal; ring. Qed.
Lemma Cconj_mult a b : Cconj (Cmult a b) = Cmult (Cconj a) (Cconj b).
Proof. destruct a, b; unfold Cconj, Cmult; cbn [fst snd]. f_equal; ring. Qed.
Lemma Cconj_R x : Cconj (RtoC x) = RtoC x.
Proof. unfold Cconj, RtoC; cbn [fst snd]. f_equal; ring. Qed.
Lemma Cconj_cis t : Cconj (cis t) = cis (- t).
Proof. unfold Cconj, cis; cbn [fst snd]. rewrite cos_neg, sin_neg. reflexivity. Qed.

Lemma Cconj_pw (x : C) n : Cconj (@pw CR x n) = @pw CR (Cconj x) n.
Proof.
  induction n as [|n IH]; cbn [pw]; [apply Cconj_R|].
  change (@kmul CR) with Cmult. rewrite Cconj_mult, IH. reflexivity.
Qed.

Lemma Cconj_peval_real (l : list Q) (x : C) : Cconj (@peval CR (map q2c l) x) = @peval CR (map q2c l) (Cconj x).
Proof.
  induction l as [|c l IH]; cbn [map peval]; [apply Cconj_R|].
  change (@kadd CR) with Cplus. change (@kmul CR) with Cmult.
  rewrite Cconj_plus, Cconj_mult, IH. unfold q2c at 1. rewrite Cconj_R. reflexivity.
Qed.

Lemma Cconj_zpw (x xi : C) z : Cconj (@zpw CR x xi z) = @zpw CR (Cconj x) (Cconj xi) z.
Proof. unfold zpw. change (@kmul CR) with Cmult. rewrite Cconj_mult, !Cconj_pw. reflexivity. Qed.

(* real coefficients: conjugating the value conjugates the point; on the circle that is w -> 1/w *)
Theorem Cconj_evx_real (p : lpoly Q) t :
  Cconj (evx CR (cis t) (cis (- t)) (lpQ2C p)) = evx CR (cis (- t)) (cis t) (lpQ2C p).
Proof.
  unfold evx, lpQ2C; cbn [lp_dmin lp_coefs]. change (@kmul CR) with Cmult.
  rewrite Cconj_mult, Cconj_zpw, Cconj_peval_real, Cconj_mult, !Cconj_cis.
  replace (- - t) with t by ring. reflexivity.
Qed.

Lemma Cmod_sq_conj z : Cmult z (Cconj z) = RtoC (Cmod z * Cmod z).
Proof.
  destruct z as [a b]. unfold Cmult, Cconj, RtoC, Cmod; cbn [fst snd].
  rewrite sqrt_sqrt by (assert (0 <= a ^ 2) by apply pow2_ge_0; assert (0 <= b ^ 2) by apply pow2_ge_0; lra).
  f_equal; ring.
Qed.

(* |p(w)|^2 = (p * ~p)(w) on the unit circle, for real coefficients *)
Theorem Cmod_sq_evx_real (p : lpoly Q) t : lp_isz p = false ->
  evx CR (cis t) (cis (- t)) (lp_mul OpsC (lpQ2C p) (lp_inv OpsC (lpQ2C p))) =
  RtoC (Cmod (evx CR (cis t) (cis (- t)) (lpQ2C p)) * Cmod (evx CR (cis t) (cis (- t)) (lpQ2C p))).
Proof.
  intros Hz.
  assert (W : wf CR (lpQ2C p)) by (unfold wf, lpQ2C; cbn; rewrite Hz; discriminate).
  assert (Hw : Cmult (cis t) (cis (- t)) = RtoC 1) by apply cis_inv.
  assert (Hwi : Cmult (cis (- t)) (cis t) = RtoC 1) by (rewrite Cmult_comm; exact Hw).
  etransitivity; [exact (evx_mul CR _ _ _ _ Hw W (wf_inv CR _))|].
  assert (E : evx CR (cis t) (cis (- t)) (lp_inv OpsC (lpQ2C p)) = evx CR (cis (- t)) (cis t) (lpQ2C p))
    by (exact (evx_inv CR (cis (- t)) (cis t) (lpQ2C p) Hwi W)).
  transitivity (Cmult (evx CR (cis t) (cis (- t)) (lpQ2C p)) (evx CR (cis (- t)) (cis t) (lpQ2C p)));
    [apply (f_equal2 Cmult); [reflexivity | exact E]|].
  rewrite <- Cconj_evx_real. apply Cmod_sq_conj.
Qed.

(* ---- cheb_to_laurent denotes the cosine series *)
Lemma pw_cis t n : @pw CR (cis t) n = cis (INR n * t).
Proof.
  induction n as [|n IH]; cbn [pw].
  - cbn [INR]. rewrite Rmult_0_l. symmetry. apply cis_0.
  - change (@kmul CR) with Cmult. rewrite IH, cis_mul. f_equal. rewrite S_INR. ring.
Qed.

Lemma cis_pair t : Cplus (cis t) (cis (- t)) = RtoC (2 * cos t).
Proof. unfold cis, Cplus, RtoC; cbn [fst snd]. rewrite cos_neg, sin_neg. f_equal; ring. Qed.

(* y * l(y) + yi * l(yi) for a real list l and y = cis s: sum_j l_j 2 cos((j+1) s) *)
Fixpoint cos_sum (l : list R) (k : nat) (s : R) : R :=
  match l with [] => 0 | c :: l' => c * (2 * cos (INR k * s)) + cos_sum l' (S k) s end.

Lemma sym_peval (l : list Q) s : forall k,
  Cplus (Cmult (@pw CR (cis s) k) (@peval CR (map q2c l) (cis s))) (Cmult (@pw CR (cis (- s)) k) (@peval CR (map q2c l) (cis (- s))))
  = RtoC (cos_sum (map Q2R l) k s).
Proof.
  induction l as [|c l IH]; intros k; cbn [map peval cos_sum].
  - change (@k0 CR) with (RtoC 0). unfold Cmult, Cplus, RtoC; cbn [fst snd]. f_equal; ring.
  - change (@kadd CR) with Cplus. change (@kmul CR) with Cmult.
    transitivity (Cplus (Cmult (q2c c) (Cplus (@pw CR (cis s) k) (@pw CR (cis (- s)) k)))
                        (Cplus (Cmult (@pw CR (cis s) (S k)) (@peval CR (map q2c l) (cis s)))
                               (Cmult (@pw CR (cis (- s)) (S k)) (@peval CR (map q2c l) (cis (- s)))))).
    { cbn [pw]. cring. }
    rewrite IH. rewrite !pw_cis. replace (INR k * - s) with (- (INR k * s)) by ring. rewrite cis_pair.
    unfold q2c. rewrite <- RtoC_mult, <- RtoC_plus. reflexivity.
Qed.

Lemma cos_sum_trig (l : list R) s : forall k, cos_sum (map (fun v => v / 2) l) k s = trig_sum l k s.
Proof.
  induction l as [|c l IH]; intros k; cbn [map cos_sum trig_sum]; [reflexivity|]. rewrite IH. field.
Qed.

Lemma map_half_Q2R (l : list Q) : map Q2R (map (Qmult qhalf1) l) = map (fun v => v / 2) (map Q2R l).
Proof.
  rewrite !map_map. apply map_ext. intros a. rewrite Q2R_mult. unfold qhalf1. unfold Q2R at 1. cbn. lra.
Qed.

(* even case: the Laurent polynomial sum_j f_j (w^{2j} + w^{-2j})/2 is the cosine series sum_j f_j cos(2 j t) *)
Theorem cheb_to_laurent_even_denotes (f : list Q) t :
  evx CR (cis t) (cis (- t)) (lpQ2C (cheb_to_laurent false f)) = RtoC (trig_sum (map Q2R f) 0 (2 * t)).
Proof.
  unfold cheb_to_laurent. destruct f as [|f0 ft].
  - cbn [map]. unfold mk, lpQ2C, evx; cbn [lp_dmin lp_coefs map peval trig_sum].
    unfold q2c. cbn [d0 OpsQ]. rewrite Q2R_0'. change (@kmul CR) with Cmult. change (@kadd CR) with Cplus. change (@k0 CR) with (RtoC 0).
    generalize (@zpw CR (cis t) (cis (- t)) 0). intros [a b]. unfold Cmult, Cplus, RtoC; cbn [fst snd]. f_equal; ring.
  - cbn [map]. set (ht := map (Qmult qhalf1) ft).
    assert (Hlen : (- (2 * len (f0 :: ft) - 2) = - (2 * Z.of_nat (length ht)))%Z).
    { unfold len, ht. rewrite map_length. cbn [length]. lia. }
    rewrite Hlen.
    unfold mk. destruct (rev ht ++ [f0] ++ ht) as [|z0 zs] eqn:El; [destruct (rev ht); discriminate|]. rewrite <- El. clear El z0 zs.
    unfold lpQ2C, evx; cbn [lp_dmin lp_coefs].
    set (y := Cmult (cis t) (cis t)). set (yi := Cmult (cis (- t)) (cis (- t))).
    assert (Hy : y = cis (2 * t)) by (unfold y; rewrite cis_mul; f_equal; ring).
    assert (Hyi : yi = cis (- (2 * t))) by (unfold yi; rewrite cis_mul; f_equal; ring).
    assert (Hyy : Cmult y yi = RtoC 1) by (rewrite Hy, Hyi; apply cis_inv).
    (* zpw (-2m) = yi^m *)
    assert (Hz : @zpw CR (cis t) (cis (- t)) (- (2 * Z.of_nat (length ht))) = @pw CR yi (length ht)).
    { rewrite <- (zpw_swap CR (cis t) (cis (- t))). exact (zpw_2n CR (cis (- t)) (cis t) (length ht)). }
    rewrite Hz. change (@kmul CR (cis t) (cis t)) with y.
    rewrite !map_app, map_rev. cbn [map app]. rewrite (peval_app CR), rev_length, map_length.
    cbn [peval]. change (@kadd CR) with Cplus. change (@kmul CR) with Cmult.
    pose proof (peval_rev CR (map q2c ht) y yi Hyy) as Hr. rewrite map_length in Hr. change (@kmul CR) with Cmult in Hr.
    transitivity (Cplus (Cmult (@peval CR (rev (map q2c ht)) y) (@pw CR yi (length ht)))
                        (Cmult (Cmult (@pw CR yi (length ht)) (@pw CR y (length ht))) (Cplus (q2c f0) (Cmult y (@peval CR (map q2c ht) y))))); [cring|].
    assert (HB : Cmult (@pw CR yi (length ht)) (@pw CR y (length ht)) = RtoC 1).
    { rewrite Cmult_comm. exact (pw_inv_cancel CR y yi (length ht) Hyy). }
    transitivity (Cplus (Cmult yi (@peval CR (map q2c ht) yi)) (Cmult (RtoC 1) (Cplus (q2c f0) (Cmult y (@peval CR (map q2c ht) y))))).
    { apply (f_equal2 Cplus); [exact Hr|]. apply (f_equal2 Cmult); [exact HB | reflexivity]. }
    pose proof (sym_peval ht (2 * t) 1) as Hs. cbn [pw] in Hs.
    assert (Hs' : Cplus (Cmult (Cmult y (RtoC 1)) (@peval CR (map q2c ht) y)) (Cmult (Cmult yi (RtoC 1)) (@peval CR (map q2c ht) yi))
                  = RtoC (cos_sum (map Q2R ht) 1 (2 * t))).
    { rewrite Hy, Hyi. exact Hs. }
    transitivity (Cplus (q2c f0) (Cplus (Cmult (Cmult y (RtoC 1)) (@peval CR (map q2c ht) y)) (Cmult (Cmult yi (RtoC 1)) (@peval CR (map q2c ht) yi)))); [cring|].
    rewrite Hs'. unfold ht. rewrite map_half_Q2R, cos_sum_trig.
    cbn [map trig_sum]. cbn [INR]. rewrite Rmult_0_l, cos_0. unfold q2c. rewrite <- RtoC_plus. f_equal. ring.
Qed.
