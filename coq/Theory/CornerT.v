(* Theory/CornerT.v — the Wx corner certificates (C02, C05).
   For an element g = A + B iX with real coefficients the Hadamard-conjugated matrix has upper-left
   entry  h^2 (A(w) + i B(w) + i B(1/w) + A(1/w)) = SA(w) + i SB(w),  SA = (A + ~A)/2, SB = (B + ~B)/2,
   which is <0|U_x|0> for the element of a phase list.  corner_diff computes SA - Fr; with Fr the
   Laurent form of the target's real part, |SA(w) - Pr(cos t)| <= its coefficient 1-norm. *)
From Coq Require Import ZArith QArith Qabs Qreals List Reals Lra Lia Bool Psatz.
From Coquelicot Require Import Complex.
From PyqspV Require Import Base.Ops Base.IntervalZ Base.TrigZ Model.LPolyM Model.LAlgM Model.QInst Model.ConvM
  Model.Checkers Theory.RingK Theory.LPolyT Theory.LAlgT Theory.IntervalT Theory.TrigT Theory.RelT Theory.CplxT
  Theory.RespT Theory.ConvT Theory.QInstT Theory.QC Theory.CertT Theory.C01T Theory.C04T.
Import ListNotations.
Open Scope R_scope.

Section CornerRel.
  Context {D1 D2 : Type} (O1 : Ops D1) (O2 : Ops D2) (rho : D1 -> D2 -> Prop).
  Hypothesis r0 : rho (d0 O1) (d0 O2).
  Hypothesis radd : forall a b c d, rho a c -> rho b d -> rho (dadd O1 a b) (dadd O2 c d).
  Hypothesis rmul : forall a b c d, rho a c -> rho b d -> rho (dmul O1 a b) (dmul O2 c d).
  Hypothesis rneg : forall a c, rho a c -> rho (dneg O1 a) (dneg O2 c).
  Lemma corner_diff_rel h1 h2 A A' F F' : rho h1 h2 -> lp_rel rho A A' -> lp_rel rho F F' ->
    orel (lp_rel rho) (corner_diff O1 h1 A F) (corner_diff O2 h2 A' F').
  Proof.
    intros Hh HA HF. unfold corner_diff.
    apply (obind_rel (lp_rel rho) (lp_rel rho)).
    - apply lp_add_rel; [exact r0 | exact radd | exact HA | apply lp_inv_rel; assumption].
    - intros s s' Hs. apply lp_sub_rel; try assumption. apply lp_scale_rel; assumption.
  Qed.
End CornerRel.

Lemma evx_inv_C w wi (p : lpoly C) : Cmult wi w = RtoC 1 -> wf CR p -> evx CR w wi (lp_inv OpsC p) = evx CR wi w p.
Proof. intros H W. exact (evx_inv CR wi w p H W). Qed.

Lemma corner_diff_ev (A Fr d : lpoly C) w wi : Cmult w wi = RtoC 1 -> wf CR A -> wf CR Fr ->
  corner_diff OpsC halfC A Fr = Some d ->
  evx CR w wi d = Cminus (Cmult halfC (Cplus (evx CR w wi A) (evx CR wi w A))) (evx CR w wi Fr).
Proof.
  intros Hw WA WF H. unfold corner_diff in H.
  assert (Hwi : Cmult wi w = RtoC 1) by (rewrite Cmult_comm; exact Hw).
  destruct (lp_add OpsC A (lp_inv OpsC A)) as [s|] eqn:Es; [|discriminate]. cbn [obind] in H.
  pose proof (evx_add CR w wi _ _ _ Hw WA (wf_inv CR A) Es) as E1.
  pose proof (evx_sub CR w wi _ _ _ Hw (wf_scale CR halfC s) WF H) as E2.
  etransitivity; [exact E2|].
  apply (f_equal2 Cminus); [|reflexivity].
  etransitivity; [exact (evx_scale CR w wi halfC s (wf_add CR _ _ _ Es))|].
  apply (f_equal (Cmult halfC)). etransitivity; [exact E1|].
  apply (f_equal (Cplus (evx CR w wi A))). apply evx_inv_C; assumption.
Qed.

Lemma hC_sq_half : Cmult hC hC = halfC.
Proof.
  unfold hC, halfC, q2c, qhalf1. rewrite <- RtoC_mult. f_equal.
  assert (H : sqrt 2 * sqrt 2 = 2) by (apply sqrt_sqrt; lra).
  assert (Hn : sqrt 2 <> 0) by (intros E; rewrite E in H; lra).
  rewrite <- Rinv_mult, H. unfold Q2R; cbn. lra.
Qed.

(* the Hadamard corner of an element with real-coefficient parts A, B *)
Definition hcorner (A B : lpoly C) (theta : R) : C :=
  let w := cis theta in let wi := cis (- theta) in
  Cmult (Cmult hC hC) (Cplus (Cplus (Cplus (evx CR w wi A) (Cmult Ci (evx CR w wi B))) (Cmult Ci (evx CR wi w B))) (evx CR wi w A)).

Definition targetC (Pre Pim : list Q) (theta : R) : C :=
  Cplus (@peval CR (map q2c Pre) (RtoC (cos theta))) (Cmult Ci (@peval CR (map q2c Pim) (RtoC (cos theta)))).

Lemma corner_split (A B FrC FiC dA dB : lpoly C) Pre Pim theta :
  wf CR A -> wf CR B -> wf CR FrC -> wf CR FiC ->
  evx CR (cis theta) (cis (- theta)) FrC = @peval CR (map q2c Pre) (RtoC (cos theta)) ->
  evx CR (cis theta) (cis (- theta)) FiC = @peval CR (map q2c Pim) (RtoC (cos theta)) ->
  corner_diff OpsC halfC A FrC = Some dA -> corner_diff OpsC halfC B FiC = Some dB ->
  Cminus (hcorner A B theta) (targetC Pre Pim theta) =
  Cplus (evx CR (cis theta) (cis (- theta)) dA) (Cmult Ci (evx CR (cis theta) (cis (- theta)) dB)).
Proof.
  intros WA WB WFr WFi Er Ei HA HB.
  rewrite (corner_diff_ev A FrC dA _ _ (cis_inv theta) WA WFr HA).
  rewrite (corner_diff_ev B FiC dB _ _ (cis_inv theta) WB WFi HB).
  unfold hcorner, targetC. rewrite hC_sq_half, Er, Ei. ring.
Qed.

Lemma Cmod_Ci_mult z : Cmod (Cmult Ci z) = Cmod z.
Proof.
  rewrite Cmod_mult. replace (Cmod Ci) with 1; [ring|].
  unfold Cmod, Ci; cbn [fst snd]. replace (0 ^ 2 + 1 ^ 2) with 1 by ring. symmetry; apply sqrt_1.
Qed.

(* ---- exact rational version (C05) *)
Lemma Qsuml_ok l : Q2R (Qsuml l) = fold_right (fun x s => Q2R x + s) 0 l.
Proof. induction l as [|x l IH]; cbn [Qsuml fold_right]; [apply Q2R_0' | rewrite qadd_ok; fold (Qsuml l); rewrite IH; reflexivity]. Qed.

Lemma Qnorm1_ok l : Q2R (Qnorm1 l) = sumR (map Cmod (map q2c l)).
Proof.
  unfold Qnorm1. rewrite Qsuml_ok. induction l as [|x l IH]; cbn [map fold_right sumR]; [reflexivity|].
  rewrite IH. change (Cmod (q2c x)) with (Cmod (RtoC (Q2R x))). rewrite Cmod_R, Qabs_Q2R. reflexivity.
Qed.

Lemma corner_diff_q_bound (A Fr d : lpoly Q) theta : lp_isz A = false ->
  corner_diff OpsQ qhalf1 A Fr = Some d ->
  exists dC, corner_diff OpsC halfC (lpQ2C A) (lpQ2C Fr) = Some dC /\
    Cmod (evx CR (cis theta) (cis (- theta)) dC) <= Q2R (Qnorm1 (lp_coefs d)).
Proof.
  intros ZA H.
  pose proof (corner_diff_rel OpsQ OpsC rQC rQC_0 rQC_add rQC_mul rQC_neg qhalf1 halfC _ _ _ _
                (eq_refl : rQC qhalf1 halfC) (lp_rel_rQC A) (lp_rel_rQC Fr)) as R.
  rewrite H in R. apply orel_some_l in R. destruct R as (dC & EdC & Rd). apply lp_rel_rQC_inv in Rd. subst dC.
  eexists; split; [exact EdC|].
  eapply Rle_trans; [apply Cmod_evx_le; apply Cmod_cis|]. cbn [lpQ2C lp_coefs]. rewrite Qnorm1_ok. lra.
Qed.

Theorem check_pcompletion_sound Pre Pim g tol ctol :
  lp_isz (la_I g) = false -> lp_isz (la_X g) = false ->
  check_pcompletion Pre Pim g tol ctol = true ->
  (exists r, unit_residual (la_I g) (la_X g) = Some r /\ Forall (fun c => Rabs (Q2R c) < Q2R tol) (lp_coefs r)) /\
  forall theta, Cmod (Cminus (hcorner (lpQ2C (la_I g)) (lpQ2C (la_X g)) theta) (targetC Pre Pim theta)) <= Q2R ctol.
Proof.
  intros ZI ZX H. unfold check_pcompletion in H. apply andb_prop in H. destruct H as [Hu Hc].
  split.
  - destruct (unit_residual (la_I g) (la_X g)) as [r|]; [|discriminate]. exists r. split; [reflexivity|].
    apply all_abs_lt_ok; exact Hu.
  - intros theta. unfold corner_norm_q in Hc.
    destruct (target_F Pre) as [Fr|] eqn:EFr; [|discriminate]. destruct (target_F Pim) as [Fi|] eqn:EFi; [|discriminate].
    cbn [obind] in Hc.
    destruct (corner_diff OpsQ qhalf1 (la_I g) Fr) as [dA|] eqn:EA; [|discriminate].
    destruct (corner_diff OpsQ qhalf1 (la_X g) Fi) as [dB|] eqn:EB; [|discriminate].
    cbn [obind] in Hc. apply Qleb_ok in Hc. rewrite qadd_ok in Hc.
    destruct (target_F_sound Pre Fr theta EFr) as [Er WFr]. destruct (target_F_sound Pim Fi theta EFi) as [Ei WFi].
    destruct (corner_diff_q_bound _ _ _ theta ZI EA) as (dAC & EAC & BA).
    destruct (corner_diff_q_bound _ _ _ theta ZX EB) as (dBC & EBC & BB).
    rewrite (corner_split _ _ _ _ dAC dBC Pre Pim theta (wf_nz _ ZI) (wf_nz _ ZX) WFr WFi Er Ei EAC EBC).
    eapply Rle_trans; [apply Cmod_triangle|]. rewrite Cmod_Ci_mult. lra.
Qed.

(* ---- interval version (C02): phases -> corner *)
Lemma half_rIC : rIC (iofQ qhalf1) halfC.
Proof. unfold halfC, q2c. apply rIC_RtoC, iofQ_ok. Qed.

Theorem check_c02_sound phi0 rest Pre Pim tol :
  check_c02 (phi0 :: rest) Pre Pim tol = true ->
  length (phi0 :: rest) = length Pre /\
  forall theta, Cmod (Cminus (m00 (Ux_at phi0 rest theta)) (targetC Pre Pim theta)) <= 100 * Q2R tol.
Proof.
  unfold check_c02. intros H. apply andb_prop in H. destruct H as [H Hn]. apply andb_prop in H. destruct H as [Hl _].
  apply Nat.eqb_eq in Hl. split; [exact Hl|]. intros theta.
  unfold corner_norm_i in Hn.
  destruct (resp_elem (phi0 :: rest)) as [g|] eqn:Eg; [|discriminate]. cbn [obind] in Hn.
  destruct (target_F Pre) as [Fr|] eqn:EFr; [|discriminate]. destruct (target_F Pim) as [Fi|] eqn:EFi; [|discriminate].
  cbn [obind] in Hn.
  destruct (corner_diff OpsI (iofQ qhalf1) (la_I g) (lpQ2I Fr)) as [dA|] eqn:EA; [|discriminate].
  destruct (corner_diff OpsI (iofQ qhalf1) (la_X g) (lpQ2I Fi)) as [dB|] eqn:EB; [|discriminate].
  cbn [obind] in Hn. apply scaled_le_q_ok in Hn. rewrite plus_IZR, Q2R_mult in Hn.
  replace (Q2R (100 # 1)) with 100 in Hn by (unfold Q2R; cbn; lra).
  pose proof (la_from_angles_rel OpsI OpsC rIC rIC_0 rIC_1 rIC_add rIC_mul rIC_neg _ _ (cs_encl_rel (phi0 :: rest))) as R1.
  unfold resp_elem in Eg. rewrite Eg in R1. apply orel_some_l in R1. destruct R1 as (gC & EgC & [RI RX]).
  cbn [map] in EgC.
  set (w := cis theta). set (wi := cis (- theta)).
  assert (Hw : Cmult w wi = RtoC 1) by apply cis_inv.
  destruct (from_angles_sound CR w wi Ci Hw Ci_Ci (csC phi0) (map csC rest) gC EgC) as [_ [WgI WgX]].
  destruct (target_F_sound Pre Fr theta EFr) as [Er WFr]. destruct (target_F_sound Pim Fi theta EFi) as [Ei WFi].
  pose proof (corner_diff_rel OpsI OpsC rIC rIC_0 rIC_add rIC_mul rIC_neg _ _ _ _ _ _ half_rIC RI (lpQ2I_rel Fr)) as RA.
  rewrite EA in RA. apply orel_some_l in RA. destruct RA as (dAC & EAC & RdA).
  pose proof (corner_diff_rel OpsI OpsC rIC rIC_0 rIC_add rIC_mul rIC_neg _ _ _ _ _ _ half_rIC RX (lpQ2I_rel Fi)) as RB.
  rewrite EB in RB. apply orel_some_l in RB. destruct RB as (dBC & EBC & RdB).
  assert (Ecorner : m00 (Ux_at phi0 rest theta) = hcorner (la_I gC) (la_X gC) theta).
  { unfold Ux_at, hcorner.
    pose proof (resp_wx_z_is_hadamard_corner CR Ci hC Ci_Ci hC_hC (RtoC (cos theta)) (RtoC (sin theta)) (csC phi0) (map csC rest) gC (unit_as theta) EgC) as E.
    unfold meas_z in E. etransitivity; [exact E|].
    change (@kadd CR (RtoC (cos theta)) (@kmul CR Ci (RtoC (sin theta)))) with (Cplus (RtoC (cos theta)) (Cmult Ci (RtoC (sin theta)))).
    change (@ksub CR (RtoC (cos theta)) (@kmul CR Ci (RtoC (sin theta)))) with (Cminus (RtoC (cos theta)) (Cmult Ci (RtoC (sin theta)))).
    rewrite cis_split, cis_split_neg. reflexivity. }
  rewrite Ecorner.
  match goal with |- Cmod ?x <= _ =>
    replace x with (Cplus (evx CR (cis theta) (cis (- theta)) dAC) (Cmult Ci (evx CR (cis theta) (cis (- theta)) dBC)))
      by (symmetry; exact (corner_split _ _ _ _ dAC dBC Pre Pim theta WgI WgX WFr WFi Er Ei EAC EBC)) end.
  eapply Rle_trans; [apply Cmod_triangle|]. rewrite Cmod_Ci_mult.
  pose proof (evx_bound_from_intervals w wi dA dAC (Cmod_cis _) (Cmod_cis _) RdA) as BA.
  pose proof (evx_bound_from_intervals w wi dB dBC (Cmod_cis _) (Cmod_cis _) RdB) as BB.
  pose proof sc_pos. fold w wi. apply Rmult_le_reg_r with sc; [assumption|]. lra.
Qed.
