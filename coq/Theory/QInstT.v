(* Theory/QInstT.v — the rational instance computes the real operations exactly:
   Q2R commutes with every operation of OpsQ (including the gcd-free sum and the
   divisibility-checked reduction). *)
From Coq Require Import ZArith QArith Qreals Reals Lra Lia.
From PyqspV Require Import Base.Ops Model.QInst.
Open Scope R_scope.

Lemma qred_ok q : Q2R (qred q) = Q2R q.
Proof.
  unfold qred. cbv zeta.
  set (g := gcd_f _ _ _).
  destruct ((1 <? g)%Z && (Qnum q mod g =? 0)%Z && (Z.pos (Qden q) mod g =? 0)%Z) eqn:E; [|reflexivity].
  apply andb_prop in E. destruct E as [E E3]. apply andb_prop in E. destruct E as [E1 E2].
  apply Z.ltb_lt in E1. apply Z.eqb_eq in E2, E3.
  destruct (Z.pos (Qden q) / g)%Z as [|d'|d'] eqn:Ed; try reflexivity.
  unfold Q2R. cbn [Qnum Qden].
  assert (Hn : (Qnum q = g * (Qnum q / g))%Z) by (apply Z_div_exact_full_2; lia).
  assert (Hd : (Z.pos (Qden q) = g * Z.pos d')%Z) by (rewrite <- Ed; apply Z_div_exact_full_2; lia).
  rewrite Hn at 2. rewrite Hd. rewrite !mult_IZR.
  assert (IZR g <> 0) by (apply not_0_IZR; lia).
  assert (IZR (Z.pos d') <> 0) by (apply not_0_IZR; lia).
  field. split; assumption.
Qed.

Lemma qadd_ok x y : Q2R (qadd x y) = Q2R x + Q2R y.
Proof.
  unfold qadd. cbv zeta.
  assert (Hx : IZR (Z.pos (Qden x)) <> 0) by (apply not_0_IZR; lia).
  assert (Hy : IZR (Z.pos (Qden y)) <> 0) by (apply not_0_IZR; lia).
  destruct (Z.pos (Qden y) mod Z.pos (Qden x) =? 0)%Z eqn:E1.
  - apply Z.eqb_eq in E1.
    assert (Hd : (Z.pos (Qden y) = Z.pos (Qden x) * (Z.pos (Qden y) / Z.pos (Qden x)))%Z) by (apply Z_div_exact_full_2; lia).
    unfold Q2R. cbn [Qnum Qden]. rewrite plus_IZR, mult_IZR.
    set (k := (Z.pos (Qden y) / Z.pos (Qden x))%Z) in *.
    assert (Hk : IZR k <> 0).
    { apply not_0_IZR. intros Hk0. rewrite Hk0 in Hd. lia. }
    rewrite Hd, mult_IZR. field. split; assumption.
  - destruct (Z.pos (Qden x) mod Z.pos (Qden y) =? 0)%Z eqn:E2.
    + apply Z.eqb_eq in E2.
      assert (Hd : (Z.pos (Qden x) = Z.pos (Qden y) * (Z.pos (Qden x) / Z.pos (Qden y)))%Z) by (apply Z_div_exact_full_2; lia).
      unfold Q2R. cbn [Qnum Qden]. rewrite plus_IZR, mult_IZR.
      set (k := (Z.pos (Qden x) / Z.pos (Qden y))%Z) in *.
      assert (Hk : IZR k <> 0).
      { apply not_0_IZR. intros Hk0. rewrite Hk0 in Hd. lia. }
      rewrite Hd, mult_IZR. field. split; assumption.
    + rewrite qred_ok. apply Q2R_plus.
Qed.

Lemma Q2R_0' : Q2R 0 = 0.
Proof. unfold Q2R; cbn; lra. Qed.
Lemma Q2R_1' : Q2R 1 = 1.
Proof. unfold Q2R; cbn; lra. Qed.

Definition rQR (q : Q) (r : R) : Prop := Q2R q = r.

Lemma rQR_0 : rQR (d0 OpsQ) 0. Proof. exact Q2R_0'. Qed.
Lemma rQR_1 : rQR (d1 OpsQ) 1. Proof. exact Q2R_1'. Qed.
Lemma rQR_add a b c d : rQR a c -> rQR b d -> rQR (dadd OpsQ a b) (c + d).
Proof. unfold rQR; cbn [OpsQ dadd]. intros <- <-. apply qadd_ok. Qed.
Lemma rQR_sub a b c d : rQR a c -> rQR b d -> rQR (dsub OpsQ a b) (c - d).
Proof. unfold rQR; cbn [OpsQ dsub]. intros <- <-. rewrite qadd_ok, Q2R_opp. ring. Qed.
Lemma rQR_mul a b c d : rQR a c -> rQR b d -> rQR (dmul OpsQ a b) (c * d).
Proof. unfold rQR; cbn [OpsQ dmul]. intros <- <-. apply Q2R_mult. Qed.
Lemma rQR_neg a c : rQR a c -> rQR (dneg OpsQ a) (- c).
Proof. unfold rQR; cbn [OpsQ dneg]. intros <-. apply Q2R_opp. Qed.

Lemma Qleb_ok x y : Qleb x y = true -> (Q2R x <= Q2R y)%R.
Proof.
  unfold Qleb. destruct (x ?= y)%Q eqn:E; try discriminate; intros _.
  - apply Qeq_alt in E. apply Qeq_eqR in E. rewrite E. apply Rle_refl.
  - apply Qlt_alt in E. apply Qlt_Rlt in E. apply Rlt_le; exact E.
Qed.
Lemma Qltb_ok x y : Qltb x y = true -> (Q2R x < Q2R y)%R.
Proof. unfold Qltb. destruct (x ?= y)%Q eqn:E; try discriminate. intros _. apply Qlt_alt in E. apply Qlt_Rlt; exact E. Qed.
