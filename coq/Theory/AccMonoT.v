(* Theory/AccMonoT.v — accuracy certificates for monomial-basis input and for the rescaled 1/x polynomial. *)
From Coq Require Import ZArith QArith Qabs Qreals List Reals Lra Lia Bool.
From PyqspV Require Import Base.Ops Base.IntervalZ Model.QInst Model.Checkers
  Theory.IntervalT Theory.QInstT Theory.SupT Theory.SupMonoT Theory.AccT.
Import ListNotations.
Open Scope R_scope.

Theorem check_trig_acc_mono_sound usesin p s tau cells eps : check_trig_acc_mono usesin p s tau cells eps = true ->
  forall x, -1 <= x <= 1 ->
  Rabs (pevalRl (map Q2R p) x - Q2R s * (if usesin then sin (Q2R tau * x) else cos (Q2R tau * x))) <= Q2R eps.
Proof.
  unfold check_trig_acc_mono. intros H x Hx. apply andb_prop in H. destruct H as [H1 H2].
  rewrite <- (check_p2c_real p x H1). apply (check_trig_acc_sound usesin _ s tau cells eps H2 x Hx).
Qed.

Lemma cheb_sum_R_scale c a : forall x tk tk1, cheb_sum_R (map (fun v => v * a) c) x tk tk1 = cheb_sum_R c x tk tk1 * a.
Proof. induction c as [|ck c IH]; intros x tk tk1; cbn [map cheb_sum_R]; [ring|]. rewrite IH. ring. Qed.

Lemma cheb_series_qdiv c scale x : ~ scale == 0 ->
  cheb_series (map Q2R (qdiv_list c scale)) x = cheb_series (map Q2R c) x / Q2R scale.
Proof.
  intros Hs. unfold qdiv_list, cheb_series. rewrite map_map.
  replace (map (fun x0 : Q => Q2R (Qmult x0 (Qinv scale))) c) with (map (fun v => v * / Q2R scale) (map Q2R c)).
  - rewrite cheb_sum_R_scale. reflexivity.
  - rewrite map_map. apply map_ext. intros a. rewrite Q2R_mult, Q2R_inv by exact Hs. reflexivity.
Qed.

(* |p(x)/scale - 1/x| <= tol for every x in [1/kappa, 1] *)
Theorem check_inv_acc_scaled_sound c scale kappa thmax cells tol : check_inv_acc_scaled c scale kappa thmax cells tol = true ->
  0 < Q2R scale /\ 0 < Q2R kappa /\
  forall x, / Q2R kappa <= x <= 1 -> Rabs (cheb_series (map Q2R c) x / Q2R scale - / x) <= Q2R tol.
Proof.
  unfold check_inv_acc_scaled. intros H. apply andb_prop in H. destruct H as [H H3]. apply andb_prop in H. destruct H as [H1 H2].
  apply Qltb_ok in H1, H2. rewrite Q2R_0' in H1, H2. split; [exact H1|]. split; [exact H2|].
  intros x Hx.
  assert (Hs : ~ scale == 0) by (intros E; apply Qeq_eqR in E; rewrite Q2R_0' in E; lra).
  assert (Hk : ~ kappa == 0) by (intros E; apply Qeq_eqR in E; rewrite Q2R_0' in E; lra).
  rewrite <- (cheb_series_qdiv c scale x Hs).
  apply (check_inv_acc_sound _ _ _ _ _ _ H3 x). rewrite Q2R_inv by exact Hk. exact Hx.
Qed.
