(* Theory/JacT.v — C12, the Jacobian columns end to end.  jac_df_col runs the phase-product model over dual
   intervals with the phases  phi_i + w_i d  (w = d full / d red_k), symmetrises the X part and reads the
   derivative components; check_jac_df_col = true implies: for every row j the function
     F_j(d) = (Chebyshev coefficient 2j+parity of Im <0|U|0> for the perturbed reduced phases)
   is differentiable at 0 with |F_j'(0) - col_j| <= tol, and F_j(d) is, for every d, read from the exact
   real element of the perturbed phases. *)
From Coq Require Import ZArith QArith Qreals List Reals Lra Lia Bool.
From Coquelicot Require Import Coquelicot.
From PyqspV Require Import Base.Ops Base.IntervalZ Base.TrigZ Model.LPolyM Model.LAlgM Model.QInst
  Model.SymQspM Model.Checkers Theory.IntervalT Theory.TrigT Theory.RelT Theory.DualT.
Import ListNotations.
Open Scope R_scope.

Section GetRel.
  Context {D1 D2 : Type} (O1 : Ops D1) (O2 : Ops D2) (rho : D1 -> D2 -> Prop).
  Hypothesis r0 : rho (d0 O1) (d0 O2).
  Lemma F2_nth l l' : Forall2 rho l l' -> forall i, rho (nth i l (d0 O1)) (nth i l' (d0 O2)).
  Proof. induction 1 as [|a b l l' Hab _ IH]; intros [|i]; cbn [nth]; auto. Qed.
  Lemma lp_get_rel p q m : lp_rel rho p q -> rho (lp_get O1 p m) (lp_get O2 q m).
  Proof.
    intros (Hd & Hz & Hc). unfold lp_get. rewrite Hd. unfold len. rewrite (F2_len rho _ _ Hc).
    destruct (negb _); [exact r0|]. destruct (_ && _); [apply F2_nth; exact Hc | exact r0].
  Qed.
End GetRel.

Lemma nth_map_seq {A} (f : nat -> A) n j d : (j < n)%nat -> nth j (map f (seq 0 n)) d = f j.
Proof.
  intros Hj. rewrite (nth_indep _ d (f 0%nat)) by (rewrite map_length, seq_length; exact Hj).
  rewrite (map_nth f), seq_nth by exact Hj. reflexivity.
Qed.

(* row j of the column: the coefficient of T_{2j+parity}, as a function of the perturbation *)
Definition row_index (odd : bool) (j : nat) : Z := (2 * Z.of_nat j + (if odd then 1 else 0))%Z.
Definition entryF (s : lpoly (R -> R)) (odd : bool) (j : nat) : R -> R :=
  let m := row_index odd j in fun d => if (m =? 0)%Z then lp_get OpsF s m d / 2 else lp_get OpsF s m d.
Definition entryR (s : lpoly R) (odd : bool) (j : nat) : R :=
  let m := row_index odd j in if (m =? 0)%Z then lp_get OpsR s m / 2 else lp_get OpsR s m.

Definition perturbed (odd : bool) (red : list Q) (k : nat) (full : list Q) : list (Q * nat) :=
  combine full (sym_full_weights odd (length red) k).

Theorem jac_df_col_sound odd red k col tol : check_jac_df_col odd red k col tol = true ->
  exists full gF sF, sym_full_q odd red = Some full /\
    la_from_angles OpsF (map (fun pm => leafF (fst pm) (snd pm)) (perturbed odd red k full)) = Some gF /\
    lp_add OpsF (la_X gF) (lp_inv OpsF (la_X gF)) = Some sF /\
    length col = length red /\
    forall j, (j < length red)%nat ->
      exists v, is_derive (entryF sF odd j) 0 v /\ Rabs (v - Q2R (nth j col 0%Q)) <= Q2R tol.
Proof.
  unfold check_jac_df_col, jac_df_col, jac_elem_dual. intros H.
  destruct (sym_full_q odd red) as [full|] eqn:Efull; [|discriminate]. cbn [obind] in H.
  fold (perturbed odd red k full) in H.
  destruct (la_from_angles OpsDI _) as [gD|] eqn:EgD; [|discriminate]. cbn [obind] in H.
  destruct (lp_add OpsDI (la_X gD) (lp_inv OpsDI (la_X gD))) as [sD|] eqn:EsD; [|discriminate]. cbn [obind] in H.
  apply andb_prop in H. destruct H as [Hlen Hall]. apply Nat.eqb_eq in Hlen. rewrite map_length, seq_length in Hlen.
  destruct (dual_run_sound _ gD EgD) as (gF & EgF & [_ RX]).
  pose proof (lp_add_rel OpsDI OpsF rDF rDF_0 rDF_add _ _ _ _ RX (lp_inv_rel OpsDI OpsF rDF rDF_0 _ _ RX)) as RS.
  rewrite EsD in RS. destruct (lp_add OpsF (la_X gF) (lp_inv OpsF (la_X gF))) as [sF|] eqn:EsF; [|contradiction].
  exists full, gF, sF. repeat split; try assumption; [symmetry; exact Hlen|].
  intros j Hj. rewrite forallb_forall in Hall.
  set (m := row_index odd j).
  set (encl := map (fun j0 => let m0 := (2 * Z.of_nat j0 + (if odd then 1 else 0))%Z in
                              let c := snd (lp_get OpsDI sD m0) in if (m0 =? 0)%Z then idivZ c 2 else c) (seq 0 (length red))) in *.
  assert (Hin : In (nth j encl izero, nth j col 0%Q) (combine encl col)).
  { assert (Lj : (j < length (combine encl col))%nat) by (rewrite combine_length; unfold encl; rewrite map_length, seq_length; lia).
    pose proof (nth_In (combine encl col) (izero, 0%Q) Lj) as Hn. rewrite combine_nth in Hn; [exact Hn|].
    unfold encl. rewrite map_length, seq_length. exact Hlen. }
  specialize (Hall _ Hin). cbn [fst snd] in Hall. apply scaled_le_q_ok in Hall.
  assert (Enth : nth j encl izero = let c := snd (lp_get OpsDI sD m) in if (m =? 0)%Z then idivZ c 2 else c).
  { unfold encl. apply (nth_map_seq (fun j0 => let m0 := (2 * Z.of_nat j0 + (if odd then 1 else 0))%Z in
                              let c := snd (lp_get OpsDI sD m0) in if (m0 =? 0)%Z then idivZ c 2 else c)). exact Hj. }
  rewrite Enth in Hall. cbv zeta in Hall.
  destruct (lp_get_rel OpsDI OpsF rDF rDF_0 sD sF m RS) as [_ (dv & Hder & Hdv)].
  unfold entryF. fold m. cbv zeta.
  destruct (m =? 0)%Z.
  - exists (dv / 2). split.
    + assert (Hs : is_derive (fun d => / 2 * lp_get OpsF sF m d) 0 (/ 2 * dv)) by (apply (is_derive_scal (lp_get OpsF sF m) 0 (/ 2) dv Hder)).
      replace (dv / 2) with (/ 2 * dv) by field.
      refine (is_derive_ext _ _ _ _ _ Hs). intros t. cbv beta. match goal with |- @eq _ ?u ?w => change (@eq R u w) end. field.
    + pose proof (iabs_ub_ok _ _ (isub_ok _ _ _ _ (idivZ_ok _ 2 _ ltac:(lia) Hdv) (iofQ_ok (nth j col 0%Q)))) as B.
      pose proof sc_pos. apply Rmult_le_reg_r with sc; [assumption|]. replace (IZR 2) with 2 in B by reflexivity. lra.
  - exists dv. split; [exact Hder|].
    pose proof (iabs_ub_ok _ _ (isub_ok _ _ _ _ Hdv (iofQ_ok (nth j col 0%Q)))) as B.
    pose proof sc_pos. apply Rmult_le_reg_r with sc; [assumption|]. lra.
Qed.

(* what the differentiated function is: at every d, the entry read from the exact real element of the
   perturbed phases  full_i + w_i d *)
Theorem jac_entry_pointwise (l : list (Q * nat)) gF sF odd j d :
  la_from_angles OpsF (map (fun pm => leafF (fst pm) (snd pm)) l) = Some gF ->
  lp_add OpsF (la_X gF) (lp_inv OpsF (la_X gF)) = Some sF ->
  exists gR sR, la_from_angles OpsR (map (fun pm => leafR d (fst pm) (snd pm)) l) = Some gR /\
    lp_add OpsR (la_X gR) (lp_inv OpsR (la_X gR)) = Some sR /\
    entryF sF odd j d = entryR sR odd j.
Proof.
  intros EgF EsF. destruct (function_run_pointwise l gF d EgF) as (gR & EgR & [_ RX]).
  assert (R0 : at_d d (d0 OpsF) (d0 OpsR)) by reflexivity.
  assert (Ra : forall a b c e, at_d d a c -> at_d d b e -> at_d d (dadd OpsF a b) (dadd OpsR c e)) by (unfold at_d; cbn; intros; subst; reflexivity).
  pose proof (lp_add_rel OpsF OpsR (at_d d) R0 Ra _ _ _ _ RX (lp_inv_rel OpsF OpsR (at_d d) R0 _ _ RX)) as RS.
  rewrite EsF in RS. destruct (lp_add OpsR (la_X gR) (lp_inv OpsR (la_X gR))) as [sR|] eqn:EsR; [|contradiction].
  exists gR, sR. repeat split; try assumption.
  pose proof (lp_get_rel OpsF OpsR (at_d d) R0 sF sR (row_index odd j) RS) as G. unfold at_d in G.
  unfold entryF, entryR. cbv zeta. destruct (row_index odd j =? 0)%Z; rewrite G; reflexivity.
Qed.
