(* Theory/CliT.v — command dispatch and float_list (C20). *)
From Coq Require Import List Bool Ascii String Lia.
From PyqspV Require Import Model.CliM.
Import ListNotations.
Local Open Scope list_scope.

Definition free (c : ascii) (t : str) : Prop := has c t = false.

Lemma split_on_app_nosep sep t : free sep t -> forall s cur, split_on sep (t ++ s) cur = split_on sep s (rev t ++ cur).
Proof.
  unfold free, has. induction t as [|c t IH]; intros H s cur; cbn [app rev]; [reflexivity|].
  cbn [existsb] in H. apply orb_false_iff in H. destruct H as [H1 H2].
  cbn [split_on]. rewrite Ascii.eqb_sym in H1. rewrite H1. rewrite IH by exact H2. rewrite <- app_assoc. reflexivity.
Qed.

Lemma split_join sep t ts : Forall (free sep) (t :: ts) -> forall cur,
  split_on sep (join sep (t :: ts)) cur = (rev cur ++ t) :: ts.
Proof.
  revert t. induction ts as [|t' ts IH]; intros t HF cur; inversion HF as [|? ? Ht Hts]; subst.
  - cbn [join]. rewrite <- (app_nil_r t) at 1. rewrite split_on_app_nosep by exact Ht. cbn [split_on].
    rewrite rev_app_distr, rev_involutive. reflexivity.
  - change (join sep (t :: t' :: ts)) with (t ++ sep :: join sep (t' :: ts)).
    rewrite split_on_app_nosep by exact Ht. cbn [split_on]. rewrite Ascii.eqb_refl.
    rewrite rev_app_distr, rev_involutive. rewrite (IH t' Hts []). reflexivity.
Qed.

Lemma has_app c a b : has c (a ++ b) = has c a || has c b.
Proof. unfold has. apply existsb_app. Qed.

Lemma has_join c sep toks : c <> sep -> Forall (free c) toks -> has c (join sep toks) = false.
Proof.
  intros Hne HF. induction HF as [|t ts Ht _ IH]; [reflexivity|].
  destruct ts as [|t' ts]; [exact Ht|].
  change (join sep (t :: t' :: ts)) with (t ++ sep :: join sep (t' :: ts)).
  rewrite has_app, Ht. unfold has at 1. cbn [existsb orb]. fold (has c (join sep (t' :: ts))). rewrite IH.
  destruct (Ascii.eqb c sep) eqn:E; [apply Ascii.eqb_eq in E; contradiction | reflexivity].
Qed.

Definition good_token (t : str) : Prop :=
  t <> [] /\ free comma t /\ free space t /\ free lbr t /\ free rbr t.

(* the comma form parses to the tokens *)
Theorem float_list_comma_form toks : toks <> [] -> Forall good_token toks ->
  float_list_tokens (join comma toks) = toks.
Proof.
  intros Hne HF. destruct toks as [|t ts]; [contradiction|].
  assert (HC : Forall (free comma) (t :: ts)) by (eapply Forall_impl; [|exact HF]; intros a (_ & H & _); exact H).
  pose proof (split_join comma t ts HC []) as HS. cbn [rev app] in HS.
  inversion HF as [|? ? (Hn & _ & _ & Hl & _) _]; subst.
  destruct t as [|c0 t0]; [contradiction|].
  unfold free, has in Hl. cbn [existsb] in Hl. apply orb_false_iff in Hl. destruct Hl as [Hl _].
  rewrite Ascii.eqb_sym in Hl.
  destruct ts as [|t' ts].
  - cbn [join] in *. unfold float_list_tokens. rewrite Hl, andb_false_r. cbn [andb]. exact HS.
  - change (join comma ((c0 :: t0) :: t' :: ts)) with (c0 :: (t0 ++ comma :: join comma (t' :: ts))) in *.
    unfold float_list_tokens.
    assert (Hh : has comma (c0 :: t0 ++ comma :: join comma (t' :: ts)) = true).
    { change (c0 :: t0 ++ comma :: join comma (t' :: ts)) with ((c0 :: t0) ++ comma :: join comma (t' :: ts)).
      rewrite has_app. unfold has at 2. cbn [existsb]. rewrite Ascii.eqb_refl. cbn [orb]. apply orb_true_r. }
    rewrite Hh. cbn [negb andb]. exact HS.
Qed.

Lemma filter_nonempty toks : Forall good_token toks -> filter nonempty toks = toks.
Proof.
  induction 1 as [|t ts (Hn & _) _ IH]; cbn [filter]; [reflexivity|].
  destruct t; [contradiction|]. cbn [nonempty]. rewrite IH. reflexivity.
Qed.

(* the bracketed space-separated form parses to the same tokens *)
Theorem float_list_bracket_form toks : toks <> [] -> Forall good_token toks ->
  float_list_tokens (lbr :: join space toks ++ [rbr]) = toks.
Proof.
  intros Hne HF.
  assert (HS : Forall (free space) toks) by (eapply Forall_impl; [|exact HF]; intros a (_ & _ & H & _); exact H).
  assert (HC : Forall (free comma) toks) by (eapply Forall_impl; [|exact HF]; intros a (_ & H & _); exact H).
  unfold float_list_tokens.
  assert (Hnc : has comma (lbr :: join space toks ++ [rbr]) = false).
  { unfold has. cbn [existsb]. fold (has comma (join space toks ++ [rbr])). rewrite has_app.
    rewrite (has_join comma space toks) by (try discriminate; exact HC). reflexivity. }
  rewrite Hnc. cbn [negb andb]. rewrite Ascii.eqb_refl. cbn [andb].
  rewrite rev_app_distr. cbn [rev app]. rewrite Ascii.eqb_refl.
  rewrite removelast_last.
  destruct toks as [|t ts]; [contradiction|].
  rewrite (split_join space t ts HS []). cbn [rev app]. apply filter_nonempty. exact HF.
Qed.

(* hence both forms denote the same list *)
Corollary float_list_forms_agree toks : toks <> [] -> Forall good_token toks ->
  float_list_tokens (join comma toks) = float_list_tokens (lbr :: join space toks ++ [rbr]).
Proof. intros H1 H2. rewrite float_list_comma_form, float_list_bracket_form by assumption. reflexivity. Qed.

(* dispatch: an unknown command produces help, never phases *)
Theorem unknown_command_is_help cmd : ~ In cmd known_commands -> dispatch cmd = AHelp.
Proof.
  intros H. unfold dispatch.
  repeat match goal with
  | |- context [String.eqb cmd ?s] =>
      let E := fresh "E" in
      destruct (String.eqb cmd s) eqn:E;
      [apply String.eqb_eq in E; exfalso; apply H; subst cmd; cbn; tauto|]
  end. reflexivity.
Qed.
