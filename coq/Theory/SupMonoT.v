(* Theory/SupMonoT.v — the sup certificate for a polynomial given by monomial coefficients, and
   certified violations.  R is made an instance of the abstract ring so that the table lemmas of
   Theory/ChebT.v apply; cheb_series (3-term recurrence on values) equals the Chebyshev sum over the
   coefficient tables, which cheb2poly denotes. *)
From Coq Require Import ZArith QArith Qabs Qreals List Reals Lra Lia Bool Psatz.
From PyqspV Require Import Base.Ops Base.IntervalZ Base.TrigZ Model.LPolyM Model.QInst Model.ConvM Model.Checkers
  Theory.RingK Theory.IntervalT Theory.TrigT Theory.RelT Theory.QInstT Theory.ConvT Theory.ChebT Theory.C04T Theory.SupT.
Import ListNotations.
Open Scope R_scope.

Definition RR : CRing := mkCRing R 0 1 Rplus Rmult Rminus Ropp RTheory.
Definition OpsRR : Ops R := @OpsK RR.

(* values of the table polynomials follow the 3-term recurrence *)
Lemma cheb_pair_vals n x :
  @peval RR (snd (cheb_pair OpsRR false (S n))) x =
  (x + x) * @peval RR (snd (cheb_pair OpsRR false n)) x - @peval RR (fst (cheb_pair OpsRR false n)) x /\
  fst (cheb_pair OpsRR false (S n)) = snd (cheb_pair OpsRR false n).
Proof.
  cbn [cheb_pair]. destruct (cheb_pair OpsRR false n) as [a b]. cbn [fst snd]. split; [|reflexivity].
  unfold OpsRR.
  rewrite (peval_psub RR), (peval_scale RR), (peval_pshift RR). unfold two. cbn [kadd kmul ksub k1 RR OpsK dadd d1 K].
  match goal with |- @eq _ ?a ?b => change (@eq R a b) end. ring.
Qed.

Lemma cheb_sum_R_tables c : forall n x,
  cheb_sum_R c x (@peval RR (fst (cheb_pair OpsRR false n)) x) (@peval RR (snd (cheb_pair OpsRR false n)) x)
  = chebsum RR false c n x.
Proof.
  induction c as [|ck c IH]; intros n x; cbn [cheb_sum_R chebsum]; [reflexivity|].
  destruct (cheb_pair_vals n x) as [E1 E2].
  rewrite <- E1. rewrite <- E2 at 1. rewrite IH. unfold chebP. cbn [kadd kmul RR]. reflexivity.
Qed.

Lemma cheb_series_chebsum c x : cheb_series c x = chebsum RR false c 0 x.
Proof.
  unfold cheb_series. rewrite <- cheb_sum_R_tables. cbn [cheb_pair fst snd peval].
  cbn [kadd kmul k0 k1 RR OpsRR OpsK d0 d1 K].
  match goal with |- @eq _ ?a ?b => change (@eq R a b) end. f_equal; ring.
Qed.

(* the rational run of cheb2poly is its real run *)
Lemma chebP_rQR n : Forall2 rQR (chebP OpsQ false n) (chebP OpsRR false n).
Proof.
  unfold chebP.
  assert (HP : Forall2 rQR (fst (cheb_pair OpsQ false n)) (fst (cheb_pair OpsRR false n)) /\
               Forall2 rQR (snd (cheb_pair OpsQ false n)) (snd (cheb_pair OpsRR false n))).
  { assert (R2 : rQR (two OpsQ) (two OpsRR)) by (unfold two; apply rQR_add; apply rQR_1).
    induction n as [|n [I1 I2]]; cbn [cheb_pair fst snd].
    - split; repeat constructor; try apply rQR_0; apply rQR_1.
    - destruct (cheb_pair OpsQ false n) as [a b]. destruct (cheb_pair OpsRR false n) as [a' b']. cbn [fst snd] in *.
      split; [exact I2|]. unfold psub, pshift.
      apply (ladd_rel OpsQ OpsRR rQR rQR_add).
      + apply (scale_rel OpsQ OpsRR rQR rQR_mul); [exact R2|]. constructor; [apply rQR_0 | exact I2].
      + apply (lneg_rel OpsQ OpsRR rQR rQR_neg). exact I1. }
  exact (proj1 HP).
Qed.

Lemma F2_rQR_inv l lr : Forall2 rQR l lr -> lr = map Q2R l.
Proof. induction 1 as [|q r l lr H _ IH]; cbn [map]; [reflexivity|]. unfold rQR in H. rewrite <- H, IH. reflexivity. Qed.
Lemma F2_rQR l : Forall2 rQR l (map Q2R l).
Proof. induction l; cbn [map]; constructor; [reflexivity | assumption]. Qed.

Lemma c2p_q_rQR cs : Forall2 rQR (c2p_q false cs) (c2p OpsRR false (map Q2R cs)).
Proof.
  unfold c2p_q, c2p, pad_to.
  assert (Ha : forall k, Forall2 rQR (c2p_aux OpsQ false cs k) (c2p_aux OpsRR false (map Q2R cs) k)).
  { induction cs as [|c cs IH]; intros k; cbn [map c2p_aux]; [constructor|].
    apply (ladd_rel OpsQ OpsRR rQR rQR_add); [|apply IH].
    apply (scale_rel OpsQ OpsRR rQR rQR_mul); [reflexivity | apply chebP_rQR]. }
  apply (app_rel rQR); [apply Ha|].
  rewrite map_length, (F2_len rQR _ _ (Ha 0%nat)).
  induction (length cs - length (c2p_aux OpsRR false (map Q2R cs) 0))%nat; cbn [repeat]; constructor; [apply rQR_0 | assumption].
Qed.

Fixpoint pevalRl (l : list R) (x : R) : R := match l with [] => 0 | c :: l => c + x * pevalRl l x end.
Lemma peval_RR l x : @peval RR l x = pevalRl l x.
Proof. induction l as [|c l IH]; cbn [peval pevalRl]; [reflexivity|]. rewrite IH. reflexivity. Qed.

(* the series of the exactly converted coefficients is the polynomial itself *)
Theorem check_p2c_real p x : check_p2c false p = true ->
  cheb_series (map Q2R (p2c_q false p)) x = pevalRl (map Q2R p) x.
Proof.
  unfold check_p2c. intros H. apply qlist_eqb_exact_ok in H.
  rewrite cheb_series_chebsum.
  transitivity (@peval RR (c2p OpsRR false (map Q2R (p2c_q false p))) x);
    [symmetry; exact (c2p_sound RR false (map Q2R (p2c_q false p)) x)|].
  rewrite peval_RR.
  pose proof (c2p_q_rQR (p2c_q false p)) as R. apply F2_rQR_inv in R. rewrite R.
  clear R. induction H as [|a b l l' Hab _ IH]; cbn [map pevalRl]; [reflexivity|].
  rewrite IH. f_equal. apply Qeq_eqR. exact Hab.
Qed.

Theorem check_sup_mono_sound p cells M : check_sup_mono p cells M = true ->
  forall x, -1 <= x <= 1 -> Rabs (pevalRl (map Q2R p) x) <= Q2R M.
Proof.
  unfold check_sup_mono. intros H x Hx. apply andb_prop in H. destruct H as [H1 H2].
  rewrite <- (check_p2c_real p x H1). apply (check_sup_sound _ cells M H2 x Hx).
Qed.

(* certified violation: some point of [-1,1] where the series exceeds M *)
Lemma scaled_lt_q'_ok q v : scaled_lt_q' q v = true -> Q2R q * sc < IZR v.
Proof.
  unfold scaled_lt_q'. intros H. apply Z.ltb_lt in H. apply IZR_lt in H. rewrite !mult_IZR in H. fold sc in H.
  rewrite Q2R_alt. assert (Hd : 0 < IZR (Z.pos (Qden q))) by (apply IZR_lt; reflexivity).
  apply Rmult_lt_reg_r with (IZR (Z.pos (Qden q))); [exact Hd|].
  replace (IZR (Qnum q) / IZR (Z.pos (Qden q)) * sc * IZR (Z.pos (Qden q))) with (IZR (Qnum q) * sc) by (field; lra).
  exact H.
Qed.

Theorem check_exceeds_sound c theta M : check_exceeds c theta M = true ->
  exists x, -1 <= x <= 1 /\ Q2R M < Rabs (cheb_series (map Q2R c) x).
Proof.
  unfold check_exceeds. intros H. apply scaled_lt_q'_ok in H.
  exists (cos (Q2R theta)). split; [pose proof (COS_bound (Q2R theta)); lra|].
  rewrite cheb_series_trig. pose proof (iabs_lb_ok _ _ (cheb_at_ok c theta)) as Hl.
  pose proof sc_pos. apply Rmult_lt_reg_r with sc; [assumption|]. lra.
Qed.
