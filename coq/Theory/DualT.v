(* Theory/DualT.v — forward-mode differentiation of the phase-product model is sound (C12 Jacobian).
   The model term la_from_angles is run (a) over dual intervals (value, derivative) and
   (b) over functions R -> R of a perturbation parameter d, the phases being phi_j + m_j d.
   Logical relation: a dual interval is related to a function f iff it encloses f 0 and f'(0).
   Hence every coefficient of the dual run encloses the value and the derivative at d = 0 of the
   corresponding coefficient of the exact element built from the perturbed phases. *)
From Coq Require Import ZArith QArith Qreals List Reals Lra Lia Bool.
From Coquelicot Require Import Coquelicot.
From PyqspV Require Import Base.Ops Base.IntervalZ Base.TrigZ Model.LPolyM Model.LAlgM Model.QInst
  Model.SymQspM Model.Checkers Theory.IntervalT Theory.TrigT Theory.RelT.
Import ListNotations.
Open Scope R_scope.

Definition OpsR : Ops R := mkOps R 0 1 Rplus Rminus Rmult Ropp.
Definition OpsF : Ops (R -> R) :=
  mkOps (R -> R) (fun _ => 0) (fun _ => 1) (fun f g t => f t + g t) (fun f g t => f t - g t)
        (fun f g t => f t * g t) (fun f t => - f t).

(* a dual interval encloses value and derivative at 0 *)
Definition rDF (a : DI) (f : R -> R) : Prop :=
  inI (fst a) (f 0) /\ exists d, is_derive f 0 d /\ inI (snd a) d.

Lemma rDF_0 : rDF (d0 OpsDI) (d0 OpsF).
Proof. split; [apply izero_ok|]. exists 0. split; [cbn [d0 OpsF]; auto_derive; [trivial | reflexivity] | apply izero_ok]. Qed.
Lemma rDF_1 : rDF (d1 OpsDI) (d1 OpsF).
Proof. split; [apply ione_ok|]. exists 0. split; [cbn [d1 OpsF]; auto_derive; [trivial | reflexivity] | apply izero_ok]. Qed.
Lemma rDF_add a b f g : rDF a f -> rDF b g -> rDF (dadd OpsDI a b) (dadd OpsF f g).
Proof.
  intros [A1 (da & A2 & A3)] [B1 (db & B2 & B3)]. split; cbn; [apply iadd_ok; assumption|].
  exists (da + db). split; [|apply iadd_ok; assumption].
  apply (is_derive_plus (V := R_NormedModule)); assumption.
Qed.
Lemma rDF_neg a f : rDF a f -> rDF (dneg OpsDI a) (dneg OpsF f).
Proof.
  intros [A1 (da & A2 & A3)]. split; cbn; [apply ineg_ok; assumption|].
  exists (- da). split; [|apply ineg_ok; assumption].
  apply (is_derive_opp (V := R_NormedModule)); assumption.
Qed.
Lemma rDF_mul a b f g : rDF a f -> rDF b g -> rDF (dmul OpsDI a b) (dmul OpsF f g).
Proof.
  intros [A1 (da & A2 & A3)] [B1 (db & B2 & B3)]. split; cbn; [apply imul_ok; assumption|].
  exists (da * g 0 + f 0 * db). split; [|apply iadd_ok; apply imul_ok; assumption].
  apply (is_derive_mult f g 0 da db A2 B2). intros; apply Rmult_comm.
Qed.

(* leaves: cos / sin of a phase moving with integer slope m *)
Definition leafF (phi : Q) (m : nat) : (R -> R) * (R -> R) :=
  (fun d => cos (Q2R phi + INR m * d), fun d => sin (Q2R phi + INR m * d)).

Lemma iofZ_nat m : inI (iofZ (Z.of_nat m)) (INR m).
Proof. rewrite INR_IZR_INZ. apply iofZ_ok. Qed.

Lemma leaf_rel phi m : cs_rel rDF (dual_cs phi m) (leafF phi m).
Proof.
  destruct (cos_sin_encl_ok phi) as [Hc Hs]. unfold dual_cs, leafF, cs_rel; cbn [fst snd].
  split; split; cbn [fst snd].
  - replace (Q2R phi + INR m * 0) with (Q2R phi) by ring. exact Hc.
  - exists (- (INR m * sin (Q2R phi))). split.
    + auto_derive; [trivial|]. replace (Q2R phi + INR m * 0) with (Q2R phi) by ring. ring.
    + apply ineg_ok, imul_ok; [apply iofZ_nat | exact Hs].
  - replace (Q2R phi + INR m * 0) with (Q2R phi) by ring. exact Hs.
  - exists (INR m * cos (Q2R phi)). split.
    + auto_derive; [trivial|]. replace (Q2R phi + INR m * 0) with (Q2R phi) by ring. ring.
    + apply imul_ok; [apply iofZ_nat | exact Hc].
Qed.

Lemma leaves_rel l : Forall2 (cs_rel rDF) (map (fun pm => dual_cs (fst pm) (snd pm)) l) (map (fun pm => leafF (fst pm) (snd pm)) l).
Proof. induction l as [|[p m] l IH]; cbn [map]; [constructor | constructor; [apply leaf_rel | exact IH]]. Qed.

(* (a) the dual run encloses value and derivative of the function run *)
Theorem dual_run_sound (l : list (Q * nat)) gD :
  la_from_angles OpsDI (map (fun pm => dual_cs (fst pm) (snd pm)) l) = Some gD ->
  exists gF, la_from_angles OpsF (map (fun pm => leafF (fst pm) (snd pm)) l) = Some gF /\ la_rel rDF gD gF.
Proof.
  intros H.
  pose proof (la_from_angles_rel OpsDI OpsF rDF rDF_0 rDF_1 rDF_add rDF_mul rDF_neg _ _ (leaves_rel l)) as R.
  rewrite H in R. destruct (la_from_angles OpsF _) as [gF|]; [|contradiction]. exists gF. split; [reflexivity | exact R].
Qed.

(* (b) the function run is, at every parameter value d, the exact real element of the perturbed phases *)
Definition at_d (d : R) (f : R -> R) (x : R) : Prop := f d = x.
Definition leafR (d : R) (phi : Q) (m : nat) : R * R := (cos (Q2R phi + INR m * d), sin (Q2R phi + INR m * d)).

Theorem function_run_pointwise (l : list (Q * nat)) gF d :
  la_from_angles OpsF (map (fun pm => leafF (fst pm) (snd pm)) l) = Some gF ->
  exists gR, la_from_angles OpsR (map (fun pm => leafR d (fst pm) (snd pm)) l) = Some gR /\ la_rel (at_d d) gF gR.
Proof.
  intros H.
  assert (HL : Forall2 (cs_rel (at_d d)) (map (fun pm => leafF (fst pm) (snd pm)) l) (map (fun pm => leafR d (fst pm) (snd pm)) l)).
  { clear H. induction l as [|[p m] l IH]; cbn [map]; [constructor | constructor; [split; reflexivity | exact IH]]. }
  pose proof (la_from_angles_rel OpsF OpsR (at_d d)) as R.
  specialize (R eq_refl eq_refl).
  assert (Ra : forall a b c e, at_d d a c -> at_d d b e -> at_d d (dadd OpsF a b) (dadd OpsR c e)) by (unfold at_d; cbn; intros; subst; reflexivity).
  assert (Rm : forall a b c e, at_d d a c -> at_d d b e -> at_d d (dmul OpsF a b) (dmul OpsR c e)) by (unfold at_d; cbn; intros; subst; reflexivity).
  assert (Rn : forall a c, at_d d a c -> at_d d (dneg OpsF a) (dneg OpsR c)) by (unfold at_d; cbn; intros; subst; reflexivity).
  specialize (R Ra Rm Rn _ _ HL). rewrite H in R.
  destruct (la_from_angles OpsR _) as [gR|]; [|contradiction]. exists gR. split; [reflexivity | exact R].
Qed.

(* the weights of the symmetric layout: d full_j / d red_k *)
Lemma sym_full_weights_length odd n k : (0 < n)%nat ->
  length (sym_full_weights odd n k) = if odd then (2 * n)%nat else (2 * n - 1)%nat.
Proof.
  intros Hn. unfold sym_full_weights.
  destruct n as [|n]; [lia|]. cbn [seq map].
  set (u0 := if Nat.eqb 0 k then 1%nat else 0%nat).
  set (ut := map (fun j => if Nat.eqb j k then 1%nat else 0%nat) (seq 1 n)).
  assert (Hl : length ut = n) by (unfold ut; rewrite map_length, seq_length; reflexivity).
  destruct odd.
  - rewrite app_length, rev_length. cbn [length]. lia.
  - destruct ut as [|u1 ut'] eqn:E.
    + cbn [length] in *. subst n. reflexivity.
    + rewrite !app_length, rev_length. cbn [length] in *. lia.
Qed.
