(* Theory/C07T.v — soundness of the C07 certificate (Laurent entry point): from the certified
   coefficient 1-norm, |A(w)/suc - p(w)| < eps at every point w = e^{i theta} of the unit circle,
   A the identity part (= <0|U_z|0>) of the Wz sequence defined by the returned phases. *)
From Coq Require Import ZArith QArith Qreals List Reals Lra Lia Bool Psatz.
From Coquelicot Require Import Complex.
From PyqspV Require Import Base.Ops Base.IntervalZ Base.TrigZ Model.LPolyM Model.LAlgM Model.QInst
  Model.ConvM Model.Checkers Theory.RingK Theory.LPolyT Theory.LAlgT Theory.IntervalT Theory.TrigT
  Theory.RelT Theory.CplxT Theory.RespT Theory.ConvT Theory.QInstT Theory.QC Theory.CertT.
Import ListNotations.
Open Scope R_scope.

Theorem ipoly_norm_sound phi0 rest F n :
  ipoly_norm (phi0 :: rest) F = Some n -> wf CR (lpQ2C F) ->
  forall theta, Cmod (Cminus (m00 (Uz_at phi0 rest theta)) (evx CR (cis theta) (cis (- theta)) (lpQ2C F))) * sc <= IZR n.
Proof.
  unfold ipoly_norm. intros H WF theta.
  destruct (resp_elem (phi0 :: rest)) as [g|] eqn:Eg; [|discriminate].
  pose proof (la_from_angles_rel OpsI OpsC rIC rIC_0 rIC_1 rIC_add rIC_mul rIC_neg _ _ (cs_encl_rel (phi0 :: rest))) as R1.
  unfold resp_elem in Eg. rewrite Eg in R1. apply orel_some_l in R1. destruct R1 as (gC & EgC & [RI RX]).
  unfold norm1_diff in H.
  destruct (lp_sub OpsI (la_I g) (lpQ2I F)) as [d|] eqn:Ed; [|discriminate]. cbn [obind] in H. injection H as <-.
  pose proof (lp_sub_rel OpsI OpsC rIC rIC_0 rIC_add rIC_neg _ _ _ _ RI (lpQ2I_rel F)) as R2.
  rewrite Ed in R2. apply orel_some_l in R2. destruct R2 as (dC & EdC & Rd).
  cbn [map] in EgC.
  set (w := cis theta). set (wi := cis (- theta)).
  assert (Hw : Cmult w wi = RtoC 1) by apply cis_inv.
  destruct (from_angles_sound CR w wi Ci Hw Ci_Ci (csC phi0) (map csC rest) gC EgC) as [_ [WgI WgX]].
  pose proof (evx_sub CR w wi _ _ _ Hw WgI WF EdC) as Esub.
  pose proof (evx_bound_from_intervals w wi d dC (Cmod_cis _) (Cmod_cis _) Rd) as Hb.
  assert (Eresp : m00 (Uz_at phi0 rest theta) = evx CR w wi (la_I gC)).
  { unfold Uz_at.
    pose proof (resp_wz_z_is_ipoly CR Ci hC Ci_Ci hC_hC (RtoC (cos theta)) (RtoC (sin theta)) (csC phi0) (map csC rest) gC (unit_as theta) EgC) as E.
    unfold meas_z in E. etransitivity; [exact E|].
    change (@kadd CR (RtoC (cos theta)) (@kmul CR Ci (RtoC (sin theta)))) with (Cplus (RtoC (cos theta)) (Cmult Ci (RtoC (sin theta)))).
    change (@ksub CR (RtoC (cos theta)) (@kmul CR Ci (RtoC (sin theta)))) with (Cminus (RtoC (cos theta)) (Cmult Ci (RtoC (sin theta)))).
    rewrite cis_split, cis_split_neg. reflexivity. }
  rewrite Eresp.
  match goal with |- Cmod ?x * _ <= _ => replace x with (evx CR w wi dC) by (exact Esub) end.
  exact Hb.
Qed.

Lemma scaled_lt_q_ok v q : scaled_lt_q v q = true -> IZR v < Q2R q * sc.
Proof.
  unfold scaled_lt_q. intros H. apply Z.ltb_lt in H. apply IZR_lt in H.
  rewrite !mult_IZR in H. rewrite Q2R_alt. fold sc in H.
  assert (Hd : 0 < IZR (Z.pos (Qden q))) by (apply IZR_lt; reflexivity).
  apply Rmult_lt_reg_r with (IZR (Z.pos (Qden q))); [exact Hd|].
  replace (IZR (Qnum q) / IZR (Z.pos (Qden q)) * sc * IZR (Z.pos (Qden q))) with (IZR (Qnum q) * sc)
    by (field; lra). exact H.
Qed.

Lemma map_q2c_scale a l : map q2c (scale OpsQ a l) = scale OpsC (q2c a) (map q2c l).
Proof.
  induction l as [|c l IH]; cbn [scale map]; [reflexivity|]. rewrite IH. f_equal.
  unfold q2c. cbn [dmul OpsQ]. rewrite Q2R_mult, RtoC_mult. reflexivity.
Qed.

Lemma evx_c07_target p suc x xi :
  evx CR x xi (lpQ2C (c07_target p suc)) = Cmult (q2c suc) (evx CR x xi (lpQ2C (mk OpsQ p (- len p + 1)))).
Proof.
  unfold c07_target. destruct p as [|c p].
  - cbn [scale mk]. unfold evx, lpQ2C; cbn [lp_dmin lp_coefs map]. cbn [peval].
    assert (E0 : q2c (d0 OpsQ) = RtoC 0) by (unfold q2c; cbn [d0 OpsQ]; rewrite Q2R_0'; reflexivity).
    rewrite E0. cbn [kmul kadd k0 CR K]. match goal with |- @eq _ ?a ?b => change (@eq C a b) end. ring.
  - replace (len (c :: p)) with (len (scale OpsQ suc (c :: p))).
    2:{ unfold len. f_equal. cbn [scale length]. f_equal. clear. induction p; cbn [scale length]; congruence. }
    cbn [scale mk]. unfold evx, lpQ2C; cbn [lp_dmin lp_coefs].
    change (dmul OpsQ suc c :: scale OpsQ suc p) with (scale OpsQ suc (c :: p)).
    rewrite map_q2c_scale. rewrite (peval_scale CR).
    replace (len (scale OpsQ suc (c :: p))) with (len (c :: p)).
    2:{ unfold len. f_equal. cbn [scale length]. f_equal. clear. induction p; cbn [scale length]; congruence. }
    cbn [kmul kadd k0 CR K]. match goal with |- @eq _ ?a ?b => change (@eq C a b) end. ring.
Qed.

Theorem check_c07_sound phi0 rest p eps suc :
  check_c07 (phi0 :: rest) p eps suc = true ->
  length (phi0 :: rest) = length p /\ 0 < Q2R suc /\
  forall theta,
    Cmod (Cminus (Cdiv (m00 (Uz_at phi0 rest theta)) (q2c suc))
                 (evx CR (cis theta) (cis (- theta)) (lpQ2C (mk OpsQ p (- len p + 1))))) < Q2R eps.
Proof.
  unfold check_c07. intros H. apply andb_prop in H. destruct H as [H Hn]. apply andb_prop in H. destruct H as [Hl Hs].
  apply Nat.eqb_eq in Hl.
  assert (Hsuc : 0 < Q2R suc).
  { unfold Qltb in Hs. destruct (0 ?= suc)%Q eqn:E; try discriminate.
    apply Qlt_alt in E. apply Qlt_Rlt in E. rewrite Q2R_0' in E. exact E. }
  split; [exact Hl|]. split; [exact Hsuc|]. intros theta.
  unfold c07_norm in Hn. destruct (ipoly_norm (phi0 :: rest) (c07_target p suc)) as [n|] eqn:En; [|discriminate].
  apply scaled_lt_q_ok in Hn. rewrite Q2R_mult in Hn.
  pose proof (ipoly_norm_sound phi0 rest _ n En (wf_lpQ2C_mk _ _) theta) as Hb.
  rewrite evx_c07_target in Hb.
  set (A := m00 (Uz_at phi0 rest theta)) in *.
  set (Pw := evx CR (cis theta) (cis (- theta)) (lpQ2C (mk OpsQ p (- len p + 1)))) in *.
  assert (Hne : q2c suc <> RtoC 0).
  { unfold q2c. intros E. apply RtoC_inj in E. lra. }
  replace (Cminus (Cdiv A (q2c suc)) Pw) with (Cdiv (Cminus A (Cmult (q2c suc) Pw)) (q2c suc)) by (field; exact Hne).
  rewrite Cmod_div by exact Hne. unfold q2c at 2. rewrite Cmod_R, Rabs_pos_eq by lra.
  pose proof sc_pos as Hsc.
  apply Rmult_lt_reg_r with (Q2R suc); [exact Hsuc|].
  unfold Rdiv. rewrite Rmult_assoc, Rinv_l, Rmult_1_r by lra.
  apply Rmult_lt_reg_r with sc; [exact Hsc|]. nra.
Qed.
