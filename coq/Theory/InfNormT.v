(* Theory/InfNormT.v — certified two-sided bounds on max_{|w|=1} |f(w)| for a Laurent polynomial
   with real coefficients (C09, sampled sup-norm clause). *)
From Coq Require Import ZArith QArith Qreals List Reals Lra Lia Bool.
From Coquelicot Require Import Complex.
From PyqspV Require Import Base.Ops Model.LPolyM Model.QInst Model.Checkers Theory.RingK Theory.LPolyT Theory.RelT Theory.CplxT
  Theory.QInstT Theory.QC Theory.CertT Theory.C11T Theory.SupT Theory.SupMonoT Theory.ConjT.
Import ListNotations.
Open Scope R_scope.

Definition modsq (f : lpoly Q) (t : R) : R :=
  Cmod (evx CR (cis t) (cis (- t)) (lpQ2C f)) * Cmod (evx CR (cis t) (cis (- t)) (lpQ2C f)).

Lemma lpQ2C_mul_inv f : lpQ2C (lp_mul OpsQ f (lp_inv OpsQ f)) = lp_mul OpsC (lpQ2C f) (lp_inv OpsC (lpQ2C f)).
Proof.
  symmetry. apply lp_rel_rQC_inv.
  apply (lp_mul_rel OpsQ OpsC rQC rQC_0 rQC_add rQC_mul); [apply lp_rel_rQC|].
  apply (lp_inv_rel OpsQ OpsC rQC rQC_0). apply lp_rel_rQC.
Qed.

Lemma wf_lpQ2C_mul p q : wf CR (lpQ2C (lp_mul OpsQ p q)).
Proof. unfold lp_mul. destruct (lp_isz p || lp_isz q); apply wf_lpQ2C_mk. Qed.

Lemma wf_lpQ2C_c2l odd s : wf CR (lpQ2C (cheb_to_laurent odd s)).
Proof.
  unfold cheb_to_laurent. destruct odd; [apply wf_lpQ2C_mk|].
  destruct (map (Qmult qhalf1) s); [apply wf_lpQ2C_mk|]. destruct s; apply wf_lpQ2C_mk.
Qed.

Theorem autocorr_is_sound f s t : autocorr_is f s = true ->
  modsq f t = cheb_series (map Q2R s) (cos (2 * t)).
Proof.
  unfold autocorr_is. intros H. apply andb_prop in H. destruct H as [Hz Hs]. apply negb_true_iff in Hz.
  pose proof (lp_same_sound _ _ (cis t) (cis (- t)) (cis_inv t) (wf_lpQ2C_mul _ _) (wf_lpQ2C_c2l false s) Hs) as E.
  rewrite lpQ2C_mul_inv, (Cmod_sq_evx_real f t Hz), cheb_to_laurent_even_denotes in E.
  apply RtoC_inj in E. unfold modsq. rewrite E. symmetry. apply cheb_series_trig.
Qed.

Theorem check_infnorm_ub_sound f s cells M2 : check_infnorm_ub f s cells M2 = true ->
  forall t, modsq f t <= Q2R M2.
Proof.
  unfold check_infnorm_ub. intros H t. apply andb_prop in H. destruct H as [Ha Hs].
  rewrite (autocorr_is_sound f s t Ha).
  pose proof (check_sup_sound s cells M2 Hs (cos (2 * t))) as B.
  assert (Hc : -1 <= cos (2 * t) <= 1) by apply COS_bound. specialize (B Hc).
  eapply Rle_trans; [apply Rle_abs | exact B].
Qed.

Theorem check_infnorm_lb_sound f s theta m2 : check_infnorm_lb f s theta m2 = true ->
  exists t, Q2R m2 < modsq f t.
Proof.
  unfold check_infnorm_lb. intros H. apply andb_prop in H. destruct H as [Ha He].
  exists (Q2R theta / 2).
  pose proof (autocorr_is_sound f s (Q2R theta / 2) Ha) as E.
  replace (2 * (Q2R theta / 2)) with (Q2R theta) in E by field.
  unfold check_exceeds in He. apply scaled_lt_q'_ok in He.
  pose proof (IntervalT.iabs_lb_ok _ _ (cheb_at_ok s theta)) as Hl. rewrite <- cheb_series_trig in Hl.
  pose proof IntervalT.sc_pos as Hsc.
  assert (Hlt : Q2R m2 < Rabs (cheb_series (map Q2R s) (cos (Q2R theta)))) by (apply Rmult_lt_reg_r with IntervalT.sc; lra).
  assert (Hpos : 0 <= modsq f (Q2R theta / 2)) by (unfold modsq; apply Rmult_le_pos; apply Cmod_ge_0).
  rewrite <- E in Hlt. rewrite Rabs_pos_eq in Hlt by exact Hpos. exact Hlt.
Qed.
