(* Theory/PolyGenT.v — parity zeroing and option dataflow of the generators (C14, C17). *)
From Coq Require Import ZArith List Bool Lia Ring.
From PyqspV Require Import Base.Ops Model.PolyGenM Theory.RingK.
Import ListNotations.

Section Zero.
  Context {D : Type} (O : Ops D).

  Theorem zero_from_length even l : length (zero_from O even l) = length l.
  Proof. revert even; induction l as [|x l IH]; intros even; cbn [zero_from length]; [reflexivity | rewrite IH; reflexivity]. Qed.

  (* index j is zeroed iff j has the parity of the start, other entries are untouched *)
  Theorem zero_from_nth even l : forall j, (j < length l)%nat ->
    nth j (zero_from O even l) (d0 O) = if Bool.eqb (Nat.even j) even then d0 O else nth j l (d0 O).
  Proof.
    revert even; induction l as [|x l IH]; intros even j Hj; cbn [length] in Hj; [lia|].
    destruct j as [|j]; cbn [zero_from nth].
    - destruct even; reflexivity.
    - rewrite IH by lia. rewrite Nat.even_succ, <- Nat.negb_even.
      destruct (Nat.even j), even; reflexivity.
  Qed.

  Variable isz0 : D -> bool.
  Hypothesis isz0_0 : isz0 (d0 O) = true.

  (* after the zeroing the advertised-parity check passes, whatever the kernel returned *)
  Theorem opp_zero_after_zeroing odd l : opp_zero isz0 odd (zero_from O odd l) = true.
  Proof.
    revert odd; induction l as [|x l IH]; intros odd; cbn [zero_from opp_zero]; [reflexivity|].
    rewrite IH. destruct odd; [rewrite isz0_0|]; reflexivity.
  Qed.

  Theorem opp_zero_spec odd l : opp_zero isz0 odd l = true ->
    forall j, (j < length l)%nat -> Nat.even j = odd -> isz0 (nth j l (d0 O)) = true.
  Proof.
    revert odd; induction l as [|x l IH]; intros odd H j Hj Hp; cbn [length] in Hj; [lia|].
    cbn [opp_zero] in H. apply andb_prop in H. destruct H as [H1 H2].
    destruct j as [|j]; cbn [nth].
    - cbn in Hp. subst odd. exact H1.
    - apply (IH (negb odd) H2); [lia|]. rewrite Nat.even_succ, <- Nat.negb_even in Hp.
      destruct (Nat.even j), odd; cbn in *; congruence.
  Qed.

  (* the coefficients do not depend on whether the scale is also requested *)
  Theorem coefs_indep_of_return_scale g raw sc eb :
    fst (generate O g raw sc eb true) = fst (generate O g raw sc eb false).
  Proof. reflexivity. Qed.

  Theorem scale_returned_iff g raw sc eb rs :
    snd (generate O g raw sc eb rs) = if eb && rs then Some sc else None.
  Proof. reflexivity. Qed.
End Zero.

(* over a ring: the bounded polynomial is the returned scale times the unbounded one *)
Section ScaleFactor.
  Variable K : CRing.
  Add Ring KrP : (Kring K).
  Notation O := (@OpsK K).

  Lemma zero_from_scale sc even l : zero_from O even (scale O sc l) = scale O sc (zero_from O even l).
  Proof.
    revert even; induction l as [|x l IH]; intros even; cbn [scale zero_from]; [reflexivity|].
    rewrite IH. f_equal. destruct even; cbn [OpsK dmul d0]; [ring | reflexivity].
  Qed.

  Theorem scale_is_factor g raw sc rs :
    fst (generate O g raw sc true rs) = scale O sc (fst (generate O g raw sc false rs)).
  Proof. unfold generate. cbn [fst]. apply zero_from_scale. Qed.

  (* PolyRelu as found: the reported scale is not the factor applied *)
  Theorem relu_scale_refuted (two : K) : two <> k1 ->
    exists raw sc max_scale,
      snd (generate_relu_as_found O raw sc max_scale true true) <> Some sc.
  Proof. intros H. exists [k1], two, k1. cbn. intros E. injection E as E. apply H. symmetry. exact E. Qed.
End ScaleFactor.
