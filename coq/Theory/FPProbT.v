(* Theory/FPProbT.v — C18: (1) the complex-interval evaluation of the reflection sequence encloses
   the success probability |<0| R prod_k (Z(phi_k) R) |0>|^2 at every overlap a^2, a in [0,1];
   (2) |T_L(x)| <= 1 on [-1,1], hence the fixed-point corollary of the closed form. *)
From Coq Require Import ZArith QArith Qreals List Reals Lra Lia Bool Psatz.
From Coquelicot Require Import Complex.
From PyqspV Require Import Base.Ops Base.IntervalZ Base.TrigZ Model.QInst Model.ResponseM Model.FPSearchM Model.Checkers
  Theory.RingK Theory.IntervalT Theory.TrigT Theory.CplxT Theory.QInstT Theory.QC Theory.CertT Theory.RespEnclT Theory.SupT.
Import ListNotations.
Open Scope R_scope.

Section ReflRel.
  Context {D1 D2 : Type} (O1 : Ops D1) (O2 : Ops D2) (rho : D1 -> D2 -> Prop).
  Hypothesis r0 : rho (d0 O1) (d0 O2).
  Hypothesis radd : forall a b c d, rho a c -> rho b d -> rho (dadd O1 a b) (dadd O2 c d).
  Hypothesis rmul : forall a b c d, rho a c -> rho b d -> rho (dmul O1 a b) (dmul O2 c d).
  Hypothesis rneg : forall a c, rho a c -> rho (dneg O1 a) (dneg O2 c).
  Variables (i1 : D1) (i2 : D2).
  Hypothesis ri : rho i1 i2.
  Notation mrel := (mrel rho).
  Notation csrel := (csrel rho).

  Lemma gR_rel a s a' s' : rho a a' -> rho s s' -> mrel (gR O1 a s) (gR O2 a' s').
  Proof. intros Ha Hs. unfold RespEnclT.mrel, gR; cbn. repeat split; auto. Qed.

  Lemma refl_prod_rel a s a' s' : rho a a' -> rho s s' ->
    forall l l', Forall2 csrel l l' -> forall acc acc', mrel acc acc' ->
    mrel (refl_prod O1 i1 a s acc l) (refl_prod O2 i2 a' s' acc' l').
  Proof.
    intros Ha Hs l l' Hl. induction Hl as [|c c' l l' Hc _ IH]; intros acc acc' Hacc; cbn [refl_prod]; [exact Hacc|].
    apply IH. apply (gmul_rel O1 O2 rho radd rmul); [|apply gR_rel; assumption].
    apply (gmul_rel O1 O2 rho radd rmul); [exact Hacc|]. apply (gSz_rel O1 O2 rho r0 radd rmul rneg i1 i2 ri). exact Hc.
  Qed.

  Theorem fp_amplitude_rel a s a' s' l l' : rho a a' -> rho s s' -> Forall2 csrel l l' ->
    rho (fp_amplitude O1 i1 a s l) (fp_amplitude O2 i2 a' s' l').
  Proof.
    intros Ha Hs Hl. unfold fp_amplitude.
    destruct (refl_prod_rel a s a' s' Ha Hs l l' Hl _ _ (gR_rel a s a' s' Ha Hs)) as (H & _). exact H.
  Qed.
End ReflRel.

(* the exact amplitude at overlap lambda = a^2 *)
Definition fp_ampC (a : Q) (phis : list Q) : C :=
  fp_amplitude OpsC Ci (RtoC (Q2R a)) (RtoC (sqrt (1 - Q2R a * Q2R a))) (map csC phis).
Definition fp_prob (a : Q) (phis : list Q) : R := fst (fp_ampC a phis) * fst (fp_ampC a phis) + snd (fp_ampC a phis) * snd (fp_ampC a phis).

Lemma fp_prob_is_modulus_squared a phis : fp_prob a phis = Cmod (fp_ampC a phis) * Cmod (fp_ampC a phis).
Proof.
  unfold fp_prob, Cmod. rewrite sqrt_sqrt; [ring|].
  assert (0 <= fst (fp_ampC a phis) ^ 2) by apply pow2_ge_0. assert (0 <= snd (fp_ampC a phis) ^ 2) by apply pow2_ge_0. lra.
Qed.

Theorem fp_prob_encl_sound a phis : 0 <= Q2R a <= 1 ->
  inI (fp_prob_encl a (map cos_sin_encl phis)) (fp_prob a phis).
Proof.
  intros Ha. unfold fp_prob_encl, fp_prob, fp_ampC.
  assert (Hamp : rCI (fp_amplitude OpsCI ci_i (ciR (iofQ a)) (ciR (isqrt (isub ione (imul (iofQ a) (iofQ a))))) (map ci_cs (map cos_sin_encl phis)))
                     (fp_amplitude OpsC Ci (RtoC (Q2R a)) (RtoC (sqrt (1 - Q2R a * Q2R a))) (map csC phis))).
  { apply (fp_amplitude_rel OpsCI OpsC rCI rCI_0 rCI_add rCI_mul rCI_neg ci_i Ci rCI_i).
    - apply rCI_R, iofQ_ok.
    - apply rCI_R. apply isqrt_ok; [|nra]. apply isub_ok; [apply ione_ok | apply imul_ok; apply iofQ_ok].
    - apply cs_encl_rCI. }
  destruct Hamp as [Hr Hi]. apply iadd_ok; apply imul_ok; assumption.
Qed.

Theorem fp_prob_dists_sound phis pts tol :
  Forall (fun d => match d with Some n => scaled_le_q n tol = true | None => False end) (fp_prob_dists phis pts) ->
  Forall (fun p => 0 <= Q2R (fst p) <= 1 /\ Rabs (fp_prob (fst p) phis - Q2R (snd p)) <= Q2R tol) pts.
Proof.
  unfold fp_prob_dists. rewrite Forall_map. apply Forall_impl. intros [a P]. cbn [fst snd].
  destruct (Qleb 0 a && Qleb a 1) eqn:E; [|contradiction]. intros H.
  apply andb_prop in E. destruct E as [E1 E2]. apply Qleb_ok in E1, E2.
  rewrite Q2R_0' in E1. replace (Q2R 1) with 1 in E2 by (unfold Q2R; cbn; lra).
  split; [lra|]. apply scaled_le_q_ok in H.
  pose proof (iabs_ub_ok _ _ (isub_ok _ _ _ _ (fp_prob_encl_sound a phis (conj E1 E2)) (iofQ_ok P))) as B.
  pose proof sc_pos. apply Rmult_le_reg_r with sc; [assumption|]. lra.
Qed.

(* |T_L(x)| <= 1 on [-1,1] *)
Definition unitvec (L : nat) : list R := repeat 0 L ++ [1].
Lemma trig_sum_unit L : forall k t, trig_sum (unitvec L) k t = cos (INR (k + L) * t).
Proof.
  unfold unitvec. induction L as [|L IH]; intros k t; cbn [repeat app trig_sum].
  - rewrite Nat.add_0_r. ring.
  - rewrite IH. replace (S k + L)%nat with (k + S L)%nat by lia. ring.
Qed.
Theorem cheb_unit_bound L x : -1 <= x <= 1 -> Rabs (cheb_series (unitvec L) x) <= 1.
Proof.
  intros Hx. rewrite <- (cos_acos x Hx), cheb_series_trig, trig_sum_unit.
  apply Rabs_le. pose proof (COS_bound (INR (0 + L) * acos x)). lra.
Qed.

(* fixed-point corollary of the closed form 1 - delta^2 T_L(y sqrt(1-lambda))^2 *)
Theorem fixed_point_from_closed_form L delta y lam : 0 <= lam <= 1 -> 0 <= y -> y * sqrt (1 - lam) <= 1 ->
  1 - delta * delta <= 1 - delta * delta * (cheb_series (unitvec L) (y * sqrt (1 - lam)) * cheb_series (unitvec L) (y * sqrt (1 - lam))).
Proof.
  intros Hl Hy Hys.
  assert (0 <= sqrt (1 - lam)) by apply sqrt_pos.
  assert (Hx : -1 <= y * sqrt (1 - lam) <= 1) by (split; [nra | exact Hys]).
  pose proof (cheb_unit_bound L _ Hx) as HT.
  set (T := cheb_series (unitvec L) (y * sqrt (1 - lam))) in *.
  assert (HT2 : -1 <= T <= 1) by (unfold Rabs in HT; destruct (Rcase_abs T); lra).
  assert (T * T <= 1) by nra. assert (0 <= delta * delta) by nra. nra.
Qed.
