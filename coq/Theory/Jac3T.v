(* Theory/Jac3T.v — C12: the 3x3 rotation recurrences of gen_poly_jacobian_components (Model/Jac3M.v).
   (1) A symmetric SU(2) matrix has the form  S(x,y,z) = [[x + i y, i z],[i z, x - i y]];  conjugating it by a phase operator
       S -> e^{i phi Z} S e^{i phi Z} rotates (x,y) by 2 phi, conjugating by the signal operator S -> W S W rotates (x,z) by
       2t (a = cos t).  A symmetric phase sequence builds U from its centre outwards by exactly these two steps, so
       U = S(x,y,z) with (x,y,z) the forward recurrence of the routine, and  Im <0|U|0> = y  is the value y[n].
   (2) the entries y[k], k < n, are the partial derivatives of y[n] with respect to the reduced phases. *)
From Coq Require Import ZArith List Reals Lra Lia Bool Psatz.
From Coquelicot Require Import Coquelicot.
From PyqspV Require Import Base.Ops Model.LPolyM Model.LAlgM Model.ResponseM Model.Jac3M
  Theory.RingK Theory.LPolyT Theory.LAlgT Theory.CplxT Theory.RespT Theory.SupMonoT.
Import ListNotations.

(* ---------------------------------------------------------------- ring-level facts, any commutative ring *)
Section Gen.
  Variable K : CRing.
  Add Ring KrJ3 : (Kring K).
  Notation O := (@OpsK K).
  Notation V3 := (K * K * K)%type.

  Lemma dot3_rowz (l : V3) cs (r : V3) : dot3 O (rowz O l cs) r = dot3 O l (rotz O cs r).
  Proof. destruct l as [[l1 l2] l3], r as [[x y] z], cs as [c s]. cbn. ring. Qed.
  Lemma dot3_rowB (l : V3) ct (r : V3) : dot3 O (rowB O l ct) r = dot3 O l (rotB O ct r).
  Proof. destruct l as [[l1 l2] l3], r as [[x y] z], ct as [c s]. cbn. ring. Qed.
  Lemma dot3_e2 (r : V3) : dot3 O (e2 O) r = snd (fst r).
  Proof. destruct r as [[x y] z]. cbn. ring. Qed.

  (* the row product of a suffix of the phases:  e2 Rz(c_{n-1}) B ... B Rz(c_k) *)
  Fixpoint arow (ct : K * K) (l : list (K * K)) : V3 :=
    match l with [] => e2 O | cs :: rest => rowz O (lrow O ct rest (arow ct rest)) cs end.

  Lemma go_fst ct l : forall r, fst (go O ct r l) = arow ct l.
  Proof.
    induction l as [|cs rest IH]; intros r; cbn [go arow]; [reflexivity|].
    specialize (IH (rotB O ct (rotz O cs r))). destruct (go O ct (rotB O ct (rotz O cs r)) rest) as [ar ys].
    cbn [fst] in *. rewrite IH. reflexivity.
  Qed.

  (* the forward state: Rz(c_{n-1}) B ... B Rz(c_0) r *)
  Fixpoint fwd (ct : K * K) (r : V3) (l : list (K * K)) : V3 :=
    match l with
    | [] => r
    | cs :: rest => match rest with [] => rotz O cs r | _ => fwd ct (rotB O ct (rotz O cs r)) rest end
    end.

  Lemma value_is_fwd ct l : l <> [] -> forall r, dot3 O (arow ct l) r = snd (fst (fwd ct r l)).
  Proof.
    induction l as [|cs rest IH]; intros Hne r; [contradiction|].
    destruct rest as [|c' rest'].
    - cbn [arow lrow fwd]. rewrite dot3_rowz, dot3_e2. reflexivity.
    - change (arow ct (cs :: c' :: rest')) with (rowz O (rowB O (arow ct (c' :: rest')) ct) cs).
      rewrite dot3_rowz, dot3_rowB. rewrite IH by discriminate. reflexivity.
  Qed.

  Lemma fwd_fold ct rest : forall c0 r,
    fwd ct r (c0 :: rest) = fold_left (fun t c => rotz O c (rotB O ct t)) rest (rotz O c0 r).
  Proof.
    induction rest as [|c1 rest' IH]; intros c0 r; [reflexivity|].
    change (fwd ct r (c0 :: c1 :: rest')) with (fwd ct (rotB O ct (rotz O c0 r)) (c1 :: rest')).
    rewrite IH. reflexivity.
  Qed.

  (* the last entry of the routine's output is the second component of the forward state *)
  Lemma jac3_last ct r0 l : l <> [] ->
    last (jac3 O ct r0 l) k0 = snd (fst (fwd ct r0 l)).
  Proof.
    intros Hne. unfold jac3. pose proof (go_fst ct l r0) as E. destruct (go O ct r0 l) as [ar ys]. cbn [fst] in E.
    rewrite last_last, E. apply value_is_fwd. exact Hne.
  Qed.
End Gen.

Lemma fold_left_map_g {A B T} (g : A -> B) (f : T -> B -> T) l : forall t,
  fold_left f (map g l) t = fold_left (fun t a => f t (g a)) l t.
Proof. induction l as [|x l IH]; intros t; cbn [map fold_left]; [reflexivity | apply IH]. Qed.

(* ---------------------------------------------------------------- (1) the symmetric product is S(forward state) *)
Open Scope R_scope.

Definition symS (r : R * R * R) : mat2 C := let '(x, y, z) := r in M2 (x, y) (0, z) (0, z) (x, - y).
Definition cR (cs : R * R) : C * C := (RtoC (fst cs), RtoC (snd cs)).
Definition dblcs (cs : R * R) : R * R := (fst cs * fst cs - snd cs * snd cs, fst cs * snd cs + fst cs * snd cs).
Definition unitcs (cs : R * R) : Prop := fst cs * fst cs + snd cs * snd cs = 1.

Ltac cparts := unfold Cminus; unfold Cmult, Cplus, Copp, Ci, RtoC; cbn [fst snd]; f_equal.

Lemma Sz_dbl cs : Sz CR Ci (cR (dblcs cs)) = mmul CR (Sz CR Ci (cR cs)) (Sz CR Ci (cR cs)).
Proof. destruct cs as [c s]. apply (mat_eq CR); cbn; cparts; ring. Qed.

Lemma Sz_conj_sym cs r : unitcs cs ->
  mmul CR (mmul CR (Sz CR Ci (cR cs)) (symS r)) (Sz CR Ci (cR cs)) = symS (rotz OpsRR (dblcs cs) r).
Proof.
  destruct cs as [c s], r as [[x y] z]. unfold unitcs; cbn [fst snd]. intros H.
  pose proof (f_equal (Rmult z) H) as Hz.
  apply (mat_eq CR); cbn; cparts; try ring; nra.
Qed.

Section Wstep.
  Variables a s : R.
  Hypothesis as1 : a * a + s * s = 1.
  Notation W := (Wxm CR Ci (RtoC a) (RtoC s)).
  Definition ct2 : R * R := (a * a - s * s, a * s + a * s).

  Lemma W_conj_sym_g (a' s' : R) r : a' * a' + s' * s' = 1 ->
    mmul CR (mmul CR (Wxm CR Ci (RtoC a') (RtoC s')) (symS r)) (Wxm CR Ci (RtoC a') (RtoC s')) =
    symS (rotB OpsRR (a' * a' - s' * s', a' * s' + a' * s') r).
  Proof.
    destruct r as [[x y] z]. intros H. pose proof (f_equal (Rmult y) H) as Hy.
    apply (mat_eq CR); cbn; cparts; try ring; nra.
  Qed.
  Lemma W_conj_sym r : mmul CR (mmul CR W (symS r)) W = symS (rotB OpsRR ct2 r).
  Proof. apply W_conj_sym_g. exact as1. Qed.

  Lemma W_is_sym : W = symS (a, 0, s).
  Proof. apply (mat_eq CR); cbn; cparts; ring. Qed.
  Lemma mid_is_sym : mid CR = symS (1, 0, 0).
  Proof. apply (mat_eq CR); cbn; cparts; ring. Qed.

  (* S(c_0) W S(c_1) ... W S(c_n) for a non-empty list *)
  Definition Ulist (L : list (R * R)) : mat2 C :=
    match L with [] => mid CR | c0 :: l => Ux CR Ci (RtoC a) (RtoC s) (cR c0) (map cR l) end.

  Lemma prodSW_app_g S Wm l1 : forall l2 acc, prodSW CR S Wm acc (l1 ++ l2) = prodSW CR S Wm (prodSW CR S Wm acc l1) l2.
  Proof. induction l1 as [|c l1 IH]; intros l2 acc; cbn [app prodSW]; [reflexivity | apply IH]. Qed.
  Lemma prodSW_acc S Wm l : forall acc M, prodSW CR S Wm (mmul CR M acc) l = mmul CR M (prodSW CR S Wm acc l).
  Proof.
    induction l as [|c l IH]; intros acc M; cbn [prodSW]; [reflexivity|].
    rewrite <- IH. f_equal. rewrite !(mmul_assoc CR). reflexivity.
  Qed.

  Lemma Ulist_cons c X : X <> [] -> Ulist (c :: X) = mmul CR (mmul CR (Sz CR Ci (cR c)) W) (Ulist X).
  Proof.
    destruct X as [|x0 X']; [contradiction|]. intros _. unfold Ulist, Ux. cbn [map prodSW].
    rewrite <- prodSW_acc. reflexivity.
  Qed.
  Lemma Ulist_snoc X c : X <> [] -> Ulist (X ++ [c]) = mmul CR (mmul CR (Ulist X) W) (Sz CR Ci (cR c)).
  Proof.
    destruct X as [|x0 X']; [contradiction|]. intros _. unfold Ulist, Ux. cbn [app map].
    rewrite map_app, prodSW_app_g. reflexivity.
  Qed.

  (* building from the centre outwards *)
  Lemma sym_build (M : list (R * R)) rM : M <> [] -> Ulist M = symS rM ->
    forall rest, List.Forall unitcs rest ->
    Ulist (rev rest ++ M ++ rest) = symS (fold_left (fun t c => rotz OpsRR (dblcs c) (rotB OpsRR ct2 t)) rest rM).
  Proof.
    intros HM EM rest. induction rest as [|c rest' IH] using rev_ind; intros HF.
    - cbn [rev app fold_left]. rewrite app_nil_r. exact EM.
    - apply List.Forall_app in HF. destruct HF as [HF' Hc]. inversion Hc as [|? ? Hcu _]; subst.
      rewrite rev_unit, fold_left_app. cbn [fold_left].
      assert (Hne : rev rest' ++ M ++ rest' <> []).
      { destruct M as [|m0 M']; [contradiction|]. destruct (rev rest'); discriminate. }
      replace ((c :: rev rest') ++ M ++ rest' ++ [c]) with (c :: (rev rest' ++ M ++ rest') ++ [c])
        by (cbn [app]; rewrite <- !app_assoc; reflexivity).
      rewrite Ulist_cons by (destruct (rev rest' ++ M ++ rest'); [contradiction | discriminate]).
      rewrite Ulist_snoc by exact Hne.
      rewrite (IH HF').
      set (t := fold_left (fun t c => rotz OpsRR (dblcs c) (rotB OpsRR ct2 t)) rest' rM).
      rewrite <- (Sz_conj_sym c (rotB OpsRR ct2 t) Hcu), <- (W_conj_sym t).
      rewrite !(mmul_assoc CR). reflexivity.
  Qed.

  (* full phase list of the protocol as (cos, sin) pairs: reduced (c_0 :: rest), even parity has the doubled centre *)
  Definition full_cs (odd : bool) (c0 : R * R) (rest : list (R * R)) : list (R * R) :=
    if odd then rev (c0 :: rest) ++ (c0 :: rest) else rev rest ++ [dblcs c0] ++ rest.
  Definition r_init (odd : bool) : R * R * R := if odd then (a, 0, s) else (1, 0, 0).

  Theorem sym_product_is_forward_state odd c0 rest : unitcs c0 -> List.Forall unitcs rest ->
    Ulist (full_cs odd c0 rest) = symS (fwd RR ct2 (r_init odd) (map dblcs (c0 :: rest))).
  Proof.
    intros H0 HF. cbn [map]. rewrite (fwd_fold RR).
    rewrite fold_left_map_g. unfold full_cs, r_init. destruct odd.
    - cbn [rev]. rewrite <- app_assoc. cbn [app].
      apply (sym_build [c0; c0]); [discriminate | | exact HF].
      unfold Ulist, Ux. cbn [map prodSW]. rewrite W_is_sym. exact (Sz_conj_sym c0 (a, 0, s) H0).
    - apply (sym_build [dblcs c0]); [discriminate | | exact HF].
      unfold Ulist, Ux. cbn [map prodSW].
      transitivity (mmul CR (mmul CR (Sz CR Ci (cR c0)) (symS (1, 0, 0))) (Sz CR Ci (cR c0))).
      + rewrite <- mid_is_sym, (mmul_id_r CR). apply Sz_dbl.
      + exact (Sz_conj_sym c0 (1, 0, 0) H0).
  Qed.

  (* the value entry y[n] of the routine is the imaginary part of <0|U|0> *)
  Theorem jac3_value_is_im_response odd c0 rest : unitcs c0 -> List.Forall unitcs rest ->
    last (jac3 OpsRR ct2 (r_init odd) (map dblcs (c0 :: rest))) 0 = snd (m00 (Ulist (full_cs odd c0 rest))).
  Proof.
    intros H0 HF. rewrite (sym_product_is_forward_state odd c0 rest H0 HF).
    rewrite (jac3_last RR) by discriminate.
    destruct (fwd RR ct2 (r_init odd) (map dblcs (c0 :: rest))) as [[x y] z]. reflexivity.
  Qed.
End Wstep.

(* ---------------------------------------------------------------- (2) the entries y[k] are the partial derivatives *)
Definition cs2 (phi : R) : R * R := (cos (2 * phi), sin (2 * phi)).

Lemma head_derive (L r : R * R * R) phi :
  is_derive (fun x => dot3 OpsRR L (rotz OpsRR (cs2 x) r)) phi ((1 + 1) * dot3 OpsRR L (rotzd OpsRR (cs2 phi) r)).
Proof.
  destruct L as [[l1 l2] l3], r as [[x y] z]. unfold cs2. cbn.
  auto_derive; [exact I | ring].
Qed.

Theorem jac3_partial ct pre : forall r phi post,
  is_derive (fun x => dot3 OpsRR (arow RR ct (map cs2 (pre ++ x :: post))) r) phi
            (nth (length pre) (snd (go OpsRR ct r (map cs2 (pre ++ phi :: post)))) 0).
Proof.
  induction pre as [|p pre IH]; intros r phi post.
  - cbn [app map length go].
    set (g := go OpsRR ct (rotB OpsRR ct (rotz OpsRR (cs2 phi) r)) (map cs2 post)).
    assert (E : fst g = arow RR ct (map cs2 post)) by (apply (go_fst RR)).
    destruct g as [ar ys]. cbn [fst] in E.
    cbn [snd nth]. rewrite E.
    apply (is_derive_ext (fun x => dot3 OpsRR (lrow OpsRR ct (map cs2 post) (arow RR ct (map cs2 post))) (rotz OpsRR (cs2 x) r))).
    + intros x. cbn [arow]. symmetry. apply (dot3_rowz RR).
    + apply head_derive.
  - cbn [app map length go].
    destruct (go OpsRR ct (rotB OpsRR ct (rotz OpsRR (cs2 p) r)) (map cs2 (pre ++ phi :: post))) as [ar ys] eqn:Eg.
    cbn [snd nth].
    specialize (IH (rotB OpsRR ct (rotz OpsRR (cs2 p) r)) phi post). rewrite Eg in IH. cbn [snd] in IH.
    apply (is_derive_ext (fun x => dot3 OpsRR (arow RR ct (map cs2 (pre ++ x :: post))) (rotB OpsRR ct (rotz OpsRR (cs2 p) r)))); [|exact IH].
    intros x. cbn [arow].
    assert (Hne : map cs2 (pre ++ x :: post) <> []) by (destruct pre; discriminate).
    destruct (map cs2 (pre ++ x :: post)) as [|c' l'] eqn:El; [contradiction|].
    cbn [lrow]. rewrite (dot3_rowz RR), (dot3_rowB RR). reflexivity.
Qed.

(* ---------------------------------------------------------------- (3) the interval run encloses the real routine *)
From Coq Require Import QArith Qreals.
From PyqspV Require Import Base.IntervalZ Base.TrigZ Model.QInst Theory.IntervalT Theory.TrigT Theory.QInstT.

Definition inI3 (u : I * I * I) (v : R * R * R) : Prop :=
  inI (fst (fst u)) (fst (fst v)) /\ inI (snd (fst u)) (snd (fst v)) /\ inI (snd u) (snd v).
Definition inI2 (u : I * I) (v : R * R) : Prop := inI (fst u) (fst v) /\ inI (snd u) (snd v).

Ltac inI_auto :=
  repeat match goal with
  | |- inI (iadd _ _) _ => apply iadd_ok
  | |- inI (isub _ _) _ => apply isub_ok
  | |- inI (imul _ _) _ => apply imul_ok
  | |- inI (ineg _) _ => apply ineg_ok
  | |- inI izero _ => apply izero_ok
  | |- inI ione _ => apply ione_ok
  | |- inI _ _ => assumption
  end.

Lemma rotz_rel c c' r r' : inI2 c c' -> inI3 r r' -> inI3 (rotz OpsI c r) (rotz OpsRR c' r').
Proof.
  destruct c as [c1 c2], c' as [d1 d2], r as [[x y] z], r' as [[x' y'] z']. unfold inI2, inI3; cbn.
  intros [? ?] (? & ? & ?). (split; [|split]); inI_auto.
Qed.
Lemma rotzd_rel c c' r r' : inI2 c c' -> inI3 r r' -> inI3 (rotzd OpsI c r) (rotzd OpsRR c' r').
Proof.
  destruct c as [c1 c2], c' as [d1 d2], r as [[x y] z], r' as [[x' y'] z']. unfold inI2, inI3; cbn.
  intros [? ?] (? & ? & ?). (split; [|split]); inI_auto.
Qed.
Lemma rotB_rel c c' r r' : inI2 c c' -> inI3 r r' -> inI3 (rotB OpsI c r) (rotB OpsRR c' r').
Proof.
  destruct c as [c1 c2], c' as [d1 d2], r as [[x y] z], r' as [[x' y'] z']. unfold inI2, inI3; cbn.
  intros [? ?] (? & ? & ?). (split; [|split]); inI_auto.
Qed.
Lemma rowz_rel c c' r r' : inI2 c c' -> inI3 r r' -> inI3 (rowz OpsI r c) (rowz OpsRR r' c').
Proof.
  destruct c as [c1 c2], c' as [d1 d2], r as [[x y] z], r' as [[x' y'] z']. unfold inI2, inI3; cbn.
  intros [? ?] (? & ? & ?). (split; [|split]); inI_auto.
Qed.
Lemma rowB_rel c c' r r' : inI2 c c' -> inI3 r r' -> inI3 (rowB OpsI r c) (rowB OpsRR r' c').
Proof.
  destruct c as [c1 c2], c' as [d1 d2], r as [[x y] z], r' as [[x' y'] z']. unfold inI2, inI3; cbn.
  intros [? ?] (? & ? & ?). (split; [|split]); inI_auto.
Qed.
Lemma dot3_rel l l' r r' : inI3 l l' -> inI3 r r' -> inI (dot3 OpsI l r) (dot3 OpsRR l' r').
Proof.
  destruct l as [[l1 l2] l3], l' as [[m1 m2] m3], r as [[x y] z], r' as [[x' y'] z']. unfold inI3; cbn.
  intros (? & ? & ?) (? & ? & ?). inI_auto.
Qed.
Lemma e2_rel : inI3 (e2 OpsI) (e2 OpsRR).
Proof. unfold inI3; cbn. (split; [|split]); inI_auto. Qed.

Lemma go_rel ct ct' (Hct : inI2 ct ct') l l' : Forall2 inI2 l l' -> forall r r', inI3 r r' ->
  inI3 (fst (go OpsI ct r l)) (fst (go OpsRR ct' r' l')) /\ Forall2 inI (snd (go OpsI ct r l)) (snd (go OpsRR ct' r' l')).
Proof.
  induction 1 as [|c c' rest rest' Hc Hrest IH]; intros r r' Hr; cbn [go].
  - split; [apply e2_rel | constructor].
  - specialize (IH (rotB OpsI ct (rotz OpsI c r)) (rotB OpsRR ct' (rotz OpsRR c' r'))
                   (rotB_rel _ _ _ _ Hct (rotz_rel _ _ _ _ Hc Hr))).
    destruct (go OpsI ct (rotB OpsI ct (rotz OpsI c r)) rest) as [ar ys].
    destruct (go OpsRR ct' (rotB OpsRR ct' (rotz OpsRR c' r')) rest') as [ar' ys'].
    cbn [fst snd] in *. destruct IH as [IHa IHy].
    assert (Hl : inI3 (lrow OpsI ct rest ar) (lrow OpsRR ct' rest' ar')).
    { destruct Hrest; cbn [lrow]; [apply e2_rel | apply rowB_rel; assumption]. }
    split.
    + apply rowz_rel; assumption.
    + constructor; [|exact IHy]. apply imul_ok; [apply iadd_ok; apply ione_ok|].
      apply dot3_rel; [exact Hl | apply rotzd_rel; assumption].
Qed.

Lemma jac3_rel ct ct' l l' r r' : inI2 ct ct' -> Forall2 inI2 l l' -> inI3 r r' ->
  Forall2 inI (jac3 OpsI ct r l) (jac3 OpsRR ct' r' l').
Proof.
  intros Hct Hl Hr. unfold jac3. pose proof (go_rel ct ct' Hct l l' Hl r r' Hr) as [Ha Hy].
  destruct (go OpsI ct r l) as [ar ys]. destruct (go OpsRR ct' r' l') as [ar' ys']. cbn [fst snd] in *.
  apply Forall2_app; [exact Hy|]. constructor; [|constructor]. apply dot3_rel; assumption.
Qed.

(* the real routine at signal value a with s = sqrt(1 - a^2), reduced phases red *)
Definition jac3R (odd : bool) (red : list R) (a : R) : list R :=
  jac3 OpsRR (ct2 a (sqrt (1 - a * a))) (r_init a (sqrt (1 - a * a)) odd) (map cs2 red).

Theorem jac3_encl_sound odd red a : -1 <= Q2R a <= 1 ->
  Forall2 inI (jac3_encl odd red a) (jac3R odd (map Q2R red) (Q2R a)).
Proof.
  intros Ha. unfold jac3_encl, jac3R.
  assert (Hs : inI (isqrt (isub ione (imul (iofQ a) (iofQ a)))) (sqrt (1 - Q2R a * Q2R a))).
  { apply isqrt_ok; [|nra]. apply isub_ok; [apply ione_ok | apply imul_ok; apply iofQ_ok]. }
  pose proof (iofQ_ok a) as Hai.
  apply jac3_rel.
  - unfold inI2, ct2; cbn [fst snd]. split; inI_auto.
  - rewrite map_map. induction red as [|p red IH]; cbn [map]; constructor; [|exact IH].
    unfold inI2, cs2; cbn [fst snd]. pose proof (cos_sin_encl_ok (qadd p p)) as [Hc Hsn].
    rewrite qadd_ok in Hc, Hsn. replace (2 * Q2R p) with (Q2R p + Q2R p) by ring. split; assumption.
  - unfold r_init, inI3. destruct odd; cbn [fst snd]; (split; [|split]); inI_auto.
Qed.

(* certified distances: every claimed entry is within the returned bound of the real routine's entry *)
Theorem jac3_dists_sound odd red a vals ds : jac3_dists odd red a vals = Some ds ->
  -1 <= Q2R a <= 1 /\
  Forall2 (fun d yv => Rabs (fst yv - Q2R (snd yv)) * sc <= IZR d) ds (combine (jac3R odd (map Q2R red) (Q2R a)) vals).
Proof.
  unfold jac3_dists. destruct (Qleb (-1) a && Qleb a 1 && (length vals =? S (length red))%nat && negb (length red =? 0)%nat) eqn:E; [|discriminate].
  intros H. injection H as <-.
  apply andb_prop in E. destruct E as [E _]. apply andb_prop in E. destruct E as [E _].
  apply andb_prop in E. destruct E as [E1 E2]. apply Qleb_ok in E1, E2.
  replace (Q2R (-1)) with (-1) in E1 by (unfold Q2R; cbn; lra). replace (Q2R 1) with 1 in E2 by (unfold Q2R; cbn; lra).
  split; [lra|].
  pose proof (jac3_encl_sound odd red a (conj E1 E2)) as HF.
  revert vals. induction HF as [|i y li ly Hi HF IH]; intros vals; cbn [combine map]; [constructor|].
  destruct vals as [|v vals]; cbn [combine map]; [constructor|].
  constructor; [|apply IH]. cbn [fst snd]. apply iabs_ub_ok. apply isub_ok; [exact Hi | apply iofQ_ok].
Qed.

(* ---------------------------------------------------------------- (4) in the terms of the protocol: rational reduced phases, the model's
   own full-phase layout (Model/SymQspM.v) and the Wx product Ux_at of Theory/C01T.v *)
From PyqspV Require Import Model.SymQspM Model.Checkers Theory.QC Theory.CertT Theory.C01T.

Definition csr (q : Q) : R * R := (cos (Q2R q), sin (Q2R q)).

Lemma cs2_dblcs q : cs2 (Q2R q) = dblcs (csr q).
Proof. unfold cs2, dblcs, csr; cbn [fst snd]. rewrite cos_2a, sin_2a. f_equal; ring. Qed.

Lemma csC_dbl q : csC (dbl OpsQ q) = cR (dblcs (csr q)).
Proof.
  unfold csC, cR, dblcs, csr, dbl; cbn [fst snd dadd OpsQ]. rewrite qadd_ok, cos_plus, sin_plus.
  f_equal; f_equal; ring.
Qed.

Lemma map_cR_csr l : map cR (map csr l) = map csC l.
Proof. rewrite map_map. apply map_ext. intros q. reflexivity. Qed.

Lemma full_layout_cs odd r0 rt full : sym_full_q odd (r0 :: rt) = Some full ->
  map csC full = map cR (full_cs odd (csr r0) (map csr rt)).
Proof.
  unfold sym_full_q, sym_full, full_cs. destruct odd.
  - intros H; injection H as <-. cbn [rev map]. repeat rewrite ?map_app, ?map_rev. cbn [map]. rewrite !map_cR_csr. reflexivity.
  - destruct rt as [|r1 rt'].
    + intros H; injection H as <-. cbn [map rev app]. change (qadd r0 r0) with (dbl OpsQ r0). rewrite csC_dbl. reflexivity.
    + intros H; injection H as <-. repeat rewrite ?map_app, ?map_rev. cbn [map app].
      change (qadd r0 r0) with (dbl OpsQ r0). rewrite ?csC_dbl. change (cR (csr r1) :: map cR (map csr rt')) with (map cR (map csr (r1 :: rt'))). rewrite !map_cR_csr. reflexivity.
Qed.

Lemma unit_csr q : unitcs (csr q).
Proof. unfold unitcs, csr; cbn [fst snd]. pose proof (sin2_cos2 (Q2R q)) as H. unfold Rsqr in H. lra. Qed.

(* the value entry of gen_poly_jacobian_components(cos theta) is Im <0|U(cos theta)|0> of the protocol's own full phases *)
Theorem jac3_value_is_protocol_response odd r0 rt phi0 rest theta : 0 <= theta <= PI ->
  sym_full_q odd (r0 :: rt) = Some (phi0 :: rest) ->
  last (jac3R odd (map Q2R (r0 :: rt)) (cos theta)) 0 = snd (m00 (Ux_at phi0 rest theta)).
Proof.
  intros Ht Hfull.
  assert (Hs : sqrt (1 - cos theta * cos theta) = sin theta).
  { pose proof (sin2_cos2 theta) as H. unfold Rsqr in H.
    replace (1 - cos theta * cos theta) with (sin theta * sin theta) by lra.
    apply sqrt_square. apply sin_ge_0; lra. }
  assert (Has : cos theta * cos theta + sin theta * sin theta = 1).
  { pose proof (sin2_cos2 theta) as H. unfold Rsqr in H. lra. }
  unfold jac3R. rewrite Hs.
  assert (El : map cs2 (map Q2R (r0 :: rt)) = map dblcs (csr r0 :: map csr rt)).
  { cbn [map]. rewrite cs2_dblcs. f_equal. rewrite !map_map. apply map_ext. intros q. apply cs2_dblcs. }
  rewrite El.
  rewrite (jac3_value_is_im_response (cos theta) (sin theta) Has odd (csr r0) (map csr rt) (unit_csr r0)).
  2:{ apply Forall_forall. intros x Hx. apply in_map_iff in Hx. destruct Hx as [q [<- _]]. apply unit_csr. }
  pose proof (full_layout_cs odd r0 rt (phi0 :: rest) Hfull) as EL. cbn [map] in EL.
  unfold Ulist, Ux_at.
  destruct (full_cs odd (csr r0) (map csr rt)) as [|c0 l] eqn:Ef; [discriminate EL|].
  cbn [map] in EL.
  pose proof (f_equal (hd (cR c0)) EL) as E0. pose proof (f_equal (@tl _) EL) as E1. cbn [hd tl] in E0, E1.
  rewrite E0, E1. reflexivity.
Qed.

(* the protocol's whole unitary is a symmetric SU(2) element S(x,y,z) = [[x + i y, i z],[i z, x - i y]] with real x, y, z — for
   every parity, every length, all reduced phases, every angle: U11 = conj U00, U01 = U10 is purely imaginary (the polynomial Q
   of a symmetric sequence is real), so <+|U|+> = x + i z determines the off-diagonal entries once <0|U|0> = x + i y is known *)
Theorem sym_unitary_form odd r0 rt phi0 rest theta :
  sym_full_q odd (r0 :: rt) = Some (phi0 :: rest) ->
  exists x y z : R, Ux_at phi0 rest theta = symS (x, y, z).
Proof.
  intros Hfull.
  assert (Has : cos theta * cos theta + sin theta * sin theta = 1).
  { pose proof (sin2_cos2 theta) as H. unfold Rsqr in H. lra. }
  assert (HF : List.Forall unitcs (map csr rt)).
  { apply Forall_forall. intros x Hx. apply in_map_iff in Hx. destruct Hx as [q [<- _]]. apply unit_csr. }
  pose proof (sym_product_is_forward_state (cos theta) (sin theta) Has odd (csr r0) (map csr rt) (unit_csr r0) HF) as HS.
  pose proof (full_layout_cs odd r0 rt (phi0 :: rest) Hfull) as EL. cbn [map] in EL.
  unfold Ulist in HS.
  destruct (full_cs odd (csr r0) (map csr rt)) as [|c0 l] eqn:Ef; [discriminate EL|].
  cbn [map] in EL.
  pose proof (f_equal (hd (cR c0)) EL) as E0. pose proof (f_equal (@tl _) EL) as E1. cbn [hd tl] in E0, E1.
  destruct (fwd RR (ct2 (cos theta) (sin theta)) (r_init (cos theta) (sin theta) odd) (map dblcs (csr r0 :: map csr rt))) as [[x y] z].
  exists x, y, z. unfold Ux_at. rewrite E0, E1. exact HS.
Qed.

(* the x-basis read-out of a symmetric SU(2) element: <+|S(x,y,z)|+> = x + i z, <0|S|0> = x + i y — together the two read-outs give
   all three real parameters, i.e. all four matrix entries *)
Lemma meas_x_symS x y z : meas_x CR hC (symS (x, y, z)) = (x, z).
Proof.
  assert (Hh : / sqrt 2 * / sqrt 2 = / 2).
  { rewrite <- Rinv_mult. rewrite sqrt_sqrt by lra. reflexivity. }
  unfold meas_x, symS, hC. cbn. cparts.
  - transitivity ((/ sqrt 2 * / sqrt 2) * (2 * x)); [ring | rewrite Hh; field].
  - transitivity ((/ sqrt 2 * / sqrt 2) * (2 * z)); [ring | rewrite Hh; field].
Qed.
Lemma m00_symS x y z : m00 (symS (x, y, z)) = (x, y).
Proof. reflexivity. Qed.

Theorem sym_unitary_readouts odd r0 rt phi0 rest theta :
  sym_full_q odd (r0 :: rt) = Some (phi0 :: rest) ->
  exists x y z : R, Ux_at phi0 rest theta = symS (x, y, z) /\
    m00 (Ux_at phi0 rest theta) = (x, y) /\ resp_x phi0 rest theta = (x, z).
Proof.
  intros H. destruct (sym_unitary_form odd r0 rt phi0 rest theta H) as (x & y & z & E).
  exists x, y, z. unfold resp_x. rewrite E. repeat split. apply meas_x_symS.
Qed.
