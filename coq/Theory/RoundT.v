(* Theory/RoundT.v — C09, round_zeros: rounding small coefficients to zero keeps the stored range, changes exactly the
   coefficients of magnitude below the threshold, and moves the polynomial by less than (number of terms) * thresh
   on the unit circle. *)
From Coq Require Import ZArith QArith Qabs Qreals List Reals Lra Lia Bool.
From Coquelicot Require Import Complex.
From PyqspV Require Import Base.Ops Model.LPolyM Model.QInst Model.Checkers
  Theory.RingK Theory.LPolyT Theory.CplxT Theory.QInstT Theory.QC Theory.TrigT.
Import ListNotations.
Open Scope R_scope.

Definition lp_round_zeros (th : Q) (p : lpoly Q) : lpoly Q := LP (lp_dmin p) (round_zeros_q th (lp_coefs p)) (lp_isz p).

Lemma round_zeros_length th l : length (round_zeros_q th l) = length l.
Proof. apply map_length. Qed.

Lemma round_zeros_nth th l j : nth j (round_zeros_q th l) 0%Q =
  if Qltb (Qabs (nth j l 0%Q)) th then 0%Q else nth j l 0%Q.
Proof.
  unfold round_zeros_q. revert j. induction l as [|c l IH]; intros [|j]; cbn [map nth]; try apply IH; try reflexivity;
    destruct (Qltb (Qabs 0) th); reflexivity.
Qed.

Lemma peval_diff_bound (l : list Q) (th : Q) (z : C) : Cmod z = 1 -> 0 <= Q2R th ->
  Cmod (Cminus (@peval CR (map q2c l) z) (@peval CR (map q2c (round_zeros_q th l)) z)) <= INR (length l) * Q2R th.
Proof.
  intros Hz Hth. induction l as [|c l IH]; cbn [map round_zeros_q peval length].
  - unfold Cminus. replace (Cplus (@k0 CR) (Copp (@k0 CR))) with (RtoC 0) by (cbn [k0 CR]; unfold Cplus, Copp, RtoC; cbn; f_equal; ring).
    rewrite Cmod_0. cbn. lra.
  - fold (round_zeros_q th l).
    set (c' := if Qltb (Qabs c) th then 0%Q else c).
    set (P := @peval CR (map q2c l) z) in *. set (P' := @peval CR (map q2c (round_zeros_q th l)) z) in *.
    replace (Cminus (@kadd CR (q2c c) (@kmul CR z P)) (@kadd CR (q2c c') (@kmul CR z P')))
      with (Cplus (Cminus (q2c c) (q2c c')) (Cmult z (Cminus P P'))).
    2:{ cbn [kadd kmul CR K]. unfold Cminus. match goal with |- @eq _ ?u ?v => change (@eq C u v) end. ring. }
    eapply Rle_trans; [apply Cmod_triangle|]. rewrite Cmod_mult, Hz, Rmult_1_l.
    assert (Hc : Cmod (Cminus (q2c c) (q2c c')) <= Q2R th).
    { unfold c'. destruct (Qltb (Qabs c) th) eqn:E.
      - apply Qltb_ok in E. rewrite Qabs_Q2R in E. unfold q2c. rewrite Q2R_0'.
        unfold Cminus. rewrite <- RtoC_opp, <- RtoC_plus, Cmod_R. replace (Q2R c + - 0) with (Q2R c) by ring. lra.
      - unfold Cminus. replace (Cplus (q2c c) (Copp (q2c c))) with (RtoC 0) by (unfold q2c, Cplus, Copp, RtoC; cbn; f_equal; ring).
        rewrite Cmod_0. exact Hth. }
    rewrite S_INR. lra.
Qed.

Theorem round_zeros_sup (p : lpoly Q) (th : Q) (x xi : C) : Cmod x = 1 -> Cmod xi = 1 -> 0 <= Q2R th ->
  Cmod (Cminus (evx CR x xi (lpQ2C p)) (evx CR x xi (lpQ2C (lp_round_zeros th p)))) <= INR (length (lp_coefs p)) * Q2R th.
Proof.
  intros Hx Hxi Hth. unfold evx, lpQ2C, lp_round_zeros; cbn [lp_dmin lp_coefs].
  set (Z := @zpw CR x xi (lp_dmin p)).
  replace (Cminus (@kmul CR Z (@peval CR (map q2c (lp_coefs p)) (@kmul CR x x)))
                  (@kmul CR Z (@peval CR (map q2c (round_zeros_q th (lp_coefs p))) (@kmul CR x x))))
    with (Cmult Z (Cminus (@peval CR (map q2c (lp_coefs p)) (Cmult x x)) (@peval CR (map q2c (round_zeros_q th (lp_coefs p))) (Cmult x x)))).
  2:{ cbn [kmul CR K]. unfold Cminus. match goal with |- @eq _ ?u ?v => change (@eq C u v) end. ring. }
  rewrite Cmod_mult. unfold Z. rewrite Cmod_zpw by assumption. rewrite Rmult_1_l.
  apply peval_diff_bound; [rewrite Cmod_mult, Hx; ring | exact Hth].
Qed.
