(* Theory/AccHiT.v — soundness of the high-order accuracy certificate of C16 (small eps):
   check_trig_acc_hi usesin p s tau cells n eps = true  ->
     |p(x) - s cos(tau x)| <= eps  (resp. sin)  for every x in [-1,1].
   On a cell |x - x0| <= r, |tau| r <= 1:  p(x0+d) = sum_k a_k d^k (Taylor shift), the target is
   s (P cos u + Q sin u), u = tau d, (P,Q) = (cos, -sin)(tau x0) resp. (sin, cos)(tau x0); cos u and sin u are
   replaced by their Taylor sums of odd order m = 2n+1 with the alternating-series remainders. *)
From Coq Require Import ZArith QArith Qabs Qreals List Reals Lra Lia Bool Psatz PeanoNat.
From PyqspV Require Import Base.Ops Base.IntervalZ Base.TrigZ Model.QInst Model.ConvM Model.Checkers
  Theory.RingK Theory.IntervalT Theory.TrigT Theory.RelT Theory.QInstT Theory.ConvT Theory.ChebT Theory.SupT Theory.SupMonoT Theory.AccT.
Import ListNotations.
Open Scope R_scope.

(* ---- Taylor shift *)
Lemma pshift_at_sound (p : list R) x0 d : pevalRl (pshift_at OpsRR p x0) d = pevalRl p (x0 + d).
Proof.
  unfold OpsRR. induction p as [|a p IH]; cbn [pshift_at pevalRl]; [reflexivity|].
  rewrite <- peval_RR. rewrite !(peval_ladd RR), (peval_scale RR), (peval_pshift RR).
  rewrite <- peval_RR in IH. rewrite !IH. rewrite peval_RR. cbn [pevalRl kadd kmul RR K].
  match goal with |- @eq _ ?u ?v => change (@eq R u v) end. ring.
Qed.

Lemma inI_add a b c d : inI a c -> inI b d -> inI (dadd OpsI a b) (dadd OpsRR c d).
Proof. apply iadd_ok. Qed.
Lemma inI_mul a b c d : inI a c -> inI b d -> inI (dmul OpsI a b) (dmul OpsRR c d).
Proof. apply imul_ok. Qed.
Lemma inI_neg a c : inI a c -> inI (dneg OpsI a) (dneg OpsRR c).
Proof. apply ineg_ok. Qed.

Lemma pshift_at_rel pI pR xI xR : Forall2 inI pI pR -> inI xI xR ->
  Forall2 inI (pshift_at OpsI pI xI) (pshift_at OpsRR pR xR).
Proof.
  intros H Hx. induction H as [|a b pI pR Hab _ IH]; cbn [pshift_at]; [constructor|].
  apply (ladd_rel OpsI OpsRR inI inI_add); [constructor; [exact Hab | constructor]|].
  apply (ladd_rel OpsI OpsRR inI inI_add).
  - apply (scale_rel OpsI OpsRR inI inI_mul); assumption.
  - unfold pshift. constructor; [exact izero_ok | exact IH].
Qed.

(* ---- tau^k / k! *)
Lemma Q2R_inv_pos_nat k : Q2R (1 # Pos.of_nat (S k)) = / INR (S k).
Proof.
  unfold Q2R. cbn [Qnum Qden]. rewrite INR_IZR_INZ.
  assert (E : Z.pos (Pos.of_nat (S k)) = Z.of_nat (S k)) by lia.
  rewrite E. lra.
Qed.

Lemma tfl_length tau n : forall k f, length (tfl tau n k f) = n.
Proof. induction n as [|n IH]; intros k f; cbn [tfl length]; [reflexivity | rewrite IH; reflexivity]. Qed.

Lemma tfl_nth tau n : forall k f, Q2R f = Q2R tau ^ k / INR (fact k) ->
  forall j, (j < n)%nat -> Q2R (nth j (tfl tau n k f) 0%Q) = Q2R tau ^ (k + j) / INR (fact (k + j)).
Proof.
  induction n as [|n IH]; intros k f Hf j Hj; [lia|]. cbn [tfl].
  destruct j as [|j]; cbn [nth]; [rewrite Nat.add_0_r; exact Hf|].
  rewrite (IH (S k)); [f_equal; [f_equal; lia | f_equal; f_equal; lia] | | lia].
  rewrite !Q2R_mult, Hf, Q2R_inv_pos_nat.
  change (fact (S k)) with (S k * fact k)%nat. rewrite mult_INR. cbn [pow].
  assert (INR (S k) <> 0) by (apply not_0_INR; lia). assert (INR (fact k) <> 0) by (apply INR_fact_neq_0).
  field. split; assumption.
Qed.

(* ---- the sign pattern *)
Definition gamR (P Q : R) (k : nat) : R :=
  let base := if Nat.even k then P else Q in if Nat.even (Nat.div2 k) then base else - base.
Definition tR (P Q tau : R) (k : nat) : R := gamR P Q k * (tau ^ k / INR (fact k)).

Lemma gam_ok usesin Ai Bi A B k : inI Ai A -> inI Bi B ->
  inI (gam usesin Ai Bi k) (gamR (if usesin then B else A) (if usesin then A else - B) k).
Proof.
  intros HA HB. unfold gam, gamR.
  destruct (Nat.even k), usesin, (Nat.even (Nat.div2 k)); try assumption; repeat apply ineg_ok; assumption.
Qed.

Lemma tcoefs_ok usesin Ai Bi A B tau fl : inI Ai A -> inI Bi B -> forall k,
  (forall j, (j < length fl)%nat -> Q2R (nth j fl 0%Q) = Q2R tau ^ (k + j) / INR (fact (k + j))) ->
  Forall2 inI (tcoefs usesin Ai Bi fl k)
              (map (tR (if usesin then B else A) (if usesin then A else - B) (Q2R tau)) (seq k (length fl))).
Proof.
  intros HA HB. induction fl as [|f fl IH]; intros k Hn; cbn [tcoefs length seq map]; constructor.
  - unfold tR. apply imul_ok; [apply gam_ok; assumption|].
    pose proof (Hn 0%nat ltac:(cbn; lia)) as E. cbn [nth] in E. rewrite Nat.add_0_r in E. rewrite <- E. apply iofQ_ok.
  - apply IH. intros j Hj. pose proof (Hn (S j) ltac:(cbn; lia)) as E. cbn [nth] in E.
    rewrite E. f_equal; [f_equal; lia | f_equal; f_equal; lia].
Qed.

(* ---- sum_k t_k d^k over k < 2m+2 is P C_m(tau d) + Q S_m(tau d) *)
Lemma pevalRl_app l1 l2 x : pevalRl (l1 ++ l2) x = pevalRl l1 x + x ^ length l1 * pevalRl l2 x.
Proof. induction l1 as [|c l1 IH]; cbn [app pevalRl length pow]; [ring | rewrite IH; ring]. Qed.

Fixpoint sumf (f : nat -> R) (n : nat) : R := match n with 0%nat => 0 | S n' => sumf f n' + f n' end.
Lemma pevalRl_seq (t : nat -> R) n d : pevalRl (map t (seq 0 n)) d = sumf (fun j => t j * d ^ j) n.
Proof.
  induction n as [|n IH]; [reflexivity|].
  rewrite seq_S, map_app, pevalRl_app, IH, map_length, seq_length. cbn [Nat.add map pevalRl sumf]. ring.
Qed.

Lemma m1_pow_even j : (if Nat.even j then 1 else -1) = (-1) ^ j.
Proof. destruct (Nat.even j) eqn:E; [symmetry; apply pow_m1_even | symmetry; apply pow_m1_odd]; exact E. Qed.

Lemma gamR_even P Q i : gamR P Q (2 * i) = (-1) ^ i * P.
Proof.
  unfold gamR. rewrite Nat.even_mul. cbn [Nat.even orb]. rewrite Nat.div2_double.
  rewrite <- m1_pow_even. destruct (Nat.even i); ring.
Qed.
Lemma gamR_odd P Q i : gamR P Q (S (2 * i)) = (-1) ^ i * Q.
Proof.
  unfold gamR. rewrite Nat.even_succ, <- Nat.negb_even, Nat.even_mul. cbn [Nat.even orb negb]. rewrite Nat.div2_succ_double.
  rewrite <- m1_pow_even. destruct (Nat.even i); ring.
Qed.

Lemma trig_sum_split P Q tau d m :
  sumf (fun j => tR P Q tau j * d ^ j) (2 * m + 2) = P * cos_approx (tau * d) m + Q * sin_approx (tau * d) m.
Proof.
  induction m as [|m IH].
  - cbn [Nat.mul Nat.add sumf]. unfold tR, cos_approx, sin_approx, cos_term, sin_term. cbn [sum_f_R0].
    change 1%nat with (S (2 * 0)). rewrite gamR_odd. change 0%nat with (2 * 0)%nat at 1. rewrite gamR_even.
    cbn. field.
  - replace (2 * S m + 2)%nat with (S (S (2 * m + 2))) by lia. cbn [sumf]. rewrite IH.
    unfold cos_approx, sin_approx. cbn [sum_f_R0]. fold (cos_approx (tau * d) m) (sin_approx (tau * d) m).
    unfold tR. replace (2 * m + 2)%nat with (2 * S m)%nat by lia. rewrite gamR_even, gamR_odd.
    unfold cos_term, sin_term. replace (2 * S m + 1)%nat with (S (2 * S m)) by lia.
    rewrite !Rpow_mult_distr.
    assert (INR (fact (2 * S m)) <> 0) by apply INR_fact_neq_0. assert (INR (fact (S (2 * S m))) <> 0) by apply INR_fact_neq_0.
    field. split; assumption.
Qed.

(* ---- alternating remainders for |u| <= 1, odd order m = 2n+1 *)
Lemma cos_rem u n : Rabs u <= 1 ->
  0 <= cos u - cos_approx u (2 * n + 1) <= Rabs u ^ (4 * n + 4) / INR (fact (4 * n + 4)).
Proof.
  intros Hu. assert (H2 : -2 <= u <= 2) by (unfold Rabs in Hu; destruct (Rcase_abs u); lra).
  pose proof (pre_cos_bound u n (proj1 H2) (proj2 H2)) as [L U].
  replace (2 * (n + 1))%nat with (S (2 * n + 1)) in U by lia.
  unfold cos_approx in U at 1. cbn [sum_f_R0] in U. fold (cos_approx u (2 * n + 1)) in U.
  unfold cos_term in U. replace (2 * S (2 * n + 1))%nat with (4 * n + 4)%nat in U by lia.
  assert (Hs : (-1) ^ S (2 * n + 1) = 1).
  { apply pow_m1_even. replace (S (2 * n + 1)) with (2 * (n + 1))%nat by lia. rewrite Nat.even_mul. reflexivity. }
  rewrite Hs in U.
  assert (Ep : u ^ (4 * n + 4) = Rabs u ^ (4 * n + 4)).
  { replace (4 * n + 4)%nat with (2 * (2 * n + 2))%nat by lia. rewrite !pow_mult. f_equal. rewrite <- Rsqr_pow2, <- Rsqr_pow2. apply Rsqr_abs. }
  rewrite Ep in U. lra.
Qed.

Lemma sin_approx_neg u m : sin_approx (- u) m = - sin_approx u m.
Proof.
  unfold sin_approx. induction m as [|m IH]; cbn [sum_f_R0]; [|rewrite IH]; unfold sin_term.
  - cbn. field.
  - replace ((- u) ^ (2 * S m + 1)) with (- u ^ (2 * S m + 1)); [field; apply INR_fact_neq_0|].
    replace (2 * S m + 1)%nat with (S (2 * S m)) by lia. cbn [pow]. rewrite pow_mult, pow_mult.
    replace ((- u) ^ 2) with (u ^ 2) by ring. ring.
Qed.

Lemma sin_rem_pos u n : 0 <= u <= 1 ->
  Rabs (sin u - sin_approx u (2 * n + 1)) <= u ^ (4 * n + 5) / INR (fact (4 * n + 5)).
Proof.
  intros Hu. pose proof (pre_sin_bound u n (proj1 Hu) ltac:(lra)) as [L U].
  replace (2 * (n + 1))%nat with (S (2 * n + 1)) in U by lia.
  unfold sin_approx in U at 1. cbn [sum_f_R0] in U. fold (sin_approx u (2 * n + 1)) in U.
  unfold sin_term in U. replace (2 * S (2 * n + 1) + 1)%nat with (4 * n + 5)%nat in U by lia.
  assert (Hs : (-1) ^ S (2 * n + 1) = 1).
  { apply pow_m1_even. replace (S (2 * n + 1)) with (2 * (n + 1))%nat by lia. rewrite Nat.even_mul. reflexivity. }
  rewrite Hs in U. apply Rabs_le. split; [|lra].
  assert (0 <= u ^ (4 * n + 5) / INR (fact (4 * n + 5))).
  { apply Rmult_le_pos; [apply pow_le; lra | left; apply Rinv_0_lt_compat, INR_fact_lt_0]. }
  lra.
Qed.

Lemma sin_rem u n : Rabs u <= 1 ->
  Rabs (sin u - sin_approx u (2 * n + 1)) <= Rabs u ^ (4 * n + 5) / INR (fact (4 * n + 5)).
Proof.
  intros Hu. destruct (Rle_or_lt 0 u) as [Hp|Hn].
  - rewrite (Rabs_pos_eq u) in * by exact Hp. apply sin_rem_pos. lra.
  - rewrite (Rabs_left u) in * by exact Hn.
    replace (sin u - sin_approx u (2 * n + 1)) with (- (sin (- u) - sin_approx (- u) (2 * n + 1)))
      by (rewrite sin_neg, sin_approx_neg; ring).
    rewrite Rabs_Ropp. apply sin_rem_pos. lra.
Qed.

(* ---- sum_k |d_k| r^k *)
Lemma abs_encl a x : inI a x -> inI (mkI 0 (iabs_ub a)) (Rabs x).
Proof.
  intros H. pose proof (iabs_ub_ok a x H) as U. pose proof sc_pos. pose proof (Rabs_pos x).
  unfold inI; cbn [lo hi]. split; [nra | exact U].
Qed.

Lemma abs_horner_ok l lr rI rho d : Forall2 inI l lr -> inI rI rho -> 0 <= rho -> Rabs d <= rho ->
  exists v, inI (abs_horner l rI) v /\ Rabs (pevalRl lr d) <= v /\ 0 <= v.
Proof.
  intros H Hr H0 Hd. induction H as [|a c l lr Hac _ IH]; cbn [abs_horner pevalRl].
  - exists 0. split; [apply izero_ok|]. rewrite Rabs_R0. lra.
  - destruct IH as (v & Hv & Hle & Hv0). exists (Rabs c + rho * v). split; [|split].
    + apply iadd_ok; [apply abs_encl; exact Hac | apply imul_ok; assumption].
    + eapply Rle_trans; [apply Rabs_triang|]. rewrite Rabs_mult. pose proof (Rabs_pos d). pose proof (Rabs_pos (pevalRl lr d)). nra.
    + pose proof (Rabs_pos c). nra.
Qed.

Lemma nth_firstn_lt {A} (l : list A) (d : A) : forall K j, (j < K)%nat -> nth j (firstn K l) d = nth j l d.
Proof.
  induction l as [|a l IH]; intros K j Hj; [rewrite firstn_nil; reflexivity|].
  destruct K as [|K]; [lia|]. cbn [firstn]. destruct j as [|j]; cbn [nth]; [reflexivity | apply IH; lia].
Qed.

Lemma qpow_ok q n : Q2R (qpow q n) = Q2R q ^ n.
Proof. induction n as [|n IH]; cbn [qpow pow]; [unfold Q2R; cbn; lra | rewrite Q2R_mult, IH; reflexivity]. Qed.

Lemma pevalRl_diff (a t : list R) (s d : R) :
  pevalRl (ladd OpsRR a (lneg OpsRR (scale OpsRR s t))) d = pevalRl a d - s * pevalRl t d.
Proof.
  unfold OpsRR.
  assert (E1 : forall l1 l2 : list R, pevalRl (ladd (@OpsK RR) l1 l2) d = pevalRl l1 d + pevalRl l2 d)
    by (intros; rewrite <- !peval_RR; apply (peval_ladd RR)).
  assert (E2 : forall l1 : list R, pevalRl (lneg (@OpsK RR) l1) d = - pevalRl l1 d)
    by (intros; rewrite <- !peval_RR; apply (peval_lneg RR)).
  assert (E3 : forall l1 : list R, pevalRl (scale (@OpsK RR) s l1) d = s * pevalRl l1 d)
    by (intros; rewrite <- !peval_RR; apply (peval_scale RR)).
  rewrite E1, E2, E3. ring.
Qed.

Lemma cell_ok_hi_sound usesin p s tau eps n cell x :
  cell_ok_hi usesin p s tau eps (4 * n + 4) cell = true -> 0 <= Q2R s ->
  Rabs (x - Q2R (fst cell)) <= Q2R (snd cell) ->
  Rabs (pevalRl (map Q2R p) x - Q2R s * (if usesin then sin (Q2R tau * x) else cos (Q2R tau * x))) <= Q2R eps.
Proof.
  destruct cell as [x0 r]. cbn [fst snd]. unfold cell_ok_hi. cbn [fst snd]. cbv zeta.
  set (K := (4 * n + 4)%nat). set (fl := tfl tau (K + 2) 0 1).
  set (cs := cos_sin_encl (tau * x0)).
  intros H Hs Hx. apply andb_prop in H. destruct H as [H Hb]. apply andb_prop in H. destruct H as [Hr Htr].
  apply Qleb_ok in Hr, Htr. rewrite Q2R_0' in Hr. rewrite Q2R_mult, Qabs_Q2R in Htr.
  replace (Q2R 1) with 1 in Htr by (unfold Q2R; cbn; lra).
  apply scaled_le_q_ok in Hb.
  set (T := Q2R tau) in *. set (X0 := Q2R x0) in *. set (R0 := Q2R r) in *. set (S0 := Q2R s) in *.
  set (d := x - X0). assert (Hd : Rabs d <= R0) by exact Hx.
  (* the list tau^k / k! *)
  assert (Hfl : forall j, (j < K + 2)%nat -> Q2R (nth j fl 0%Q) = T ^ j / INR (fact j)).
  { intros j Hj. unfold fl. rewrite (tfl_nth tau (K + 2) 0 1); [reflexivity | cbn; unfold Q2R; cbn; lra | exact Hj]. }
  (* enclosures *)
  destruct (cos_sin_encl_ok (tau * x0)) as [HA HB]. fold cs in HA, HB. rewrite Q2R_mult in HA, HB. fold T X0 in HA, HB.
  set (A := cos (T * X0)) in *. set (B := sin (T * X0)) in *.
  set (P := if usesin then B else A). set (Qq := if usesin then A else - B).
  pose proof (pshift_at_rel _ _ _ _ (map_iofQ_ok p) (iofQ_ok x0)) as Ra.
  assert (Lf : length (firstn K fl) = K).
  { rewrite firstn_length_le; [reflexivity|]. unfold fl. rewrite tfl_length. lia. }
  assert (Rt : Forall2 inI (tcoefs usesin (fst cs) (snd cs) (firstn K fl) 0) (map (tR P Qq T) (seq 0 K))).
  { rewrite <- Lf at 2. apply (tcoefs_ok usesin _ _ A B tau); [exact HA | exact HB|].
    intros j Hj. rewrite Lf in Hj. rewrite nth_firstn_lt by exact Hj. apply Hfl. lia. }
  pose proof (ladd_rel OpsI OpsRR inI inI_add _ _ _ _ Ra
               (lneg_rel OpsI OpsRR inI inI_neg _ _ (scale_rel OpsI OpsRR inI inI_mul _ _ _ _ (iofQ_ok s) Rt))) as Rd.
  destruct (abs_horner_ok _ _ (iofQ r) R0 d Rd (iofQ_ok r) Hr Hd) as (v & Hv & Hle & Hv0).
  rewrite pevalRl_diff, pshift_at_sound, pevalRl_seq in Hle. fold X0 S0 in Hle.
  replace (X0 + d) with x in Hle by (unfold d; ring).
  replace K with (2 * (2 * n + 1) + 2)%nat in Hle by (unfold K; lia).
  rewrite trig_sum_split in Hle.
  set (u := T * d) in *.
  assert (Hu : Rabs u <= 1).
  { unfold u. rewrite Rabs_mult. pose proof (Rabs_pos T). pose proof (Rabs_pos d). nra. }
  (* the remainder term *)
  assert (Hrem : Q2R (s * qadd (Qabs (nth K fl 0%Q) * qpow r K) (Qabs (nth (S K) fl 0%Q) * qpow r (S K))) =
                 S0 * (Rabs T ^ K / INR (fact K) * R0 ^ K + Rabs T ^ S K / INR (fact (S K)) * R0 ^ S K)).
  { rewrite Q2R_mult, qadd_ok, !Q2R_mult, !Qabs_Q2R, !qpow_ok, (Hfl K), (Hfl (S K)) by lia.
    fold S0 R0. unfold Rdiv. rewrite !Rabs_mult, <- !RPow_abs.
    rewrite (Rabs_pos_eq (/ INR (fact K))) by (left; apply Rinv_0_lt_compat, INR_fact_lt_0).
    rewrite (Rabs_pos_eq (/ INR (fact (S K)))) by (left; apply Rinv_0_lt_compat, INR_fact_lt_0).
    reflexivity. }
  rewrite qadd_ok, Q2R_opp, Hrem in Hb.
  assert (Hvb : v <= Q2R eps - S0 * (Rabs T ^ K / INR (fact K) * R0 ^ K + Rabs T ^ S K / INR (fact (S K)) * R0 ^ S K)).
  { destruct Hv as [_ Hv]. pose proof sc_pos. apply Rmult_le_reg_r with sc; [assumption|]. lra. }
  (* remainders *)
  pose proof (cos_rem u n Hu) as [Rc1 Rc2]. pose proof (sin_rem u n Hu) as Rs.
  assert (HuR : Rabs u <= Rabs T * R0).
  { unfold u. rewrite Rabs_mult. pose proof (Rabs_pos T). nra. }
  assert (HTR0 : 0 <= Rabs T * R0) by (pose proof (Rabs_pos T); nra).
  assert (Pc : Rabs u ^ K <= (Rabs T * R0) ^ K) by (apply pow_incr; split; [apply Rabs_pos | exact HuR]).
  assert (Ps : Rabs u ^ S K <= (Rabs T * R0) ^ S K) by (apply pow_incr; split; [apply Rabs_pos | exact HuR]).
  rewrite !Rpow_mult_distr in Pc, Ps.
  assert (FK : 0 < / INR (fact K)) by (apply Rinv_0_lt_compat, INR_fact_lt_0).
  assert (FK1 : 0 < / INR (fact (S K))) by (apply Rinv_0_lt_compat, INR_fact_lt_0).
  replace (4 * n + 4)%nat with K in Rc2 by reflexivity. replace (4 * n + 5)%nat with (S K) in Rs by (unfold K; lia).
  assert (EC : Rabs (cos u - cos_approx u (2 * n + 1)) <= Rabs T ^ K / INR (fact K) * R0 ^ K).
  { rewrite Rabs_pos_eq by exact Rc1. unfold Rdiv in *. nra. }
  assert (ES : Rabs (sin u - sin_approx u (2 * n + 1)) <= Rabs T ^ S K / INR (fact (S K)) * R0 ^ S K).
  { unfold Rdiv in *. nra. }
  assert (HP : Rabs P <= 1 /\ Rabs Qq <= 1).
  { unfold P, Qq, A, B. pose proof (COS_bound (T * X0)). pose proof (SIN_bound (T * X0)).
    destruct usesin; split; apply Rabs_le; lra. }
  destruct HP as [HP HQ].
  (* the target at x = x0 + d *)
  assert (Etarget : (if usesin then sin (T * x) else cos (T * x)) = P * cos u + Qq * sin u).
  { replace (T * x) with (T * X0 + u) by (unfold u, d; ring). unfold P, Qq, A, B.
    destruct usesin; [rewrite sin_plus | rewrite cos_plus]; ring. }
  rewrite Etarget.
  set (C := cos_approx u (2 * n + 1)) in *. set (Sn := sin_approx u (2 * n + 1)) in *.
  replace (pevalRl (map Q2R p) x - S0 * (P * cos u + Qq * sin u))
    with ((pevalRl (map Q2R p) x - S0 * (P * C + Qq * Sn)) - S0 * (P * (cos u - C) + Qq * (sin u - Sn))) by ring.
  eapply Rle_trans; [apply Rabs_triang|]. rewrite Rabs_Ropp, Rabs_mult, (Rabs_pos_eq S0) by exact Hs.
  assert (Rabs (P * (cos u - C) + Qq * (sin u - Sn)) <= Rabs (cos u - C) + Rabs (sin u - Sn)).
  { eapply Rle_trans; [apply Rabs_triang|]. rewrite !Rabs_mult.
    pose proof (Rabs_pos (cos u - C)). pose proof (Rabs_pos (sin u - Sn)). nra. }
  nra.
Qed.

Theorem check_trig_acc_hi_sound usesin p s tau cells n eps : check_trig_acc_hi usesin p s tau cells n eps = true ->
  forall x, -1 <= x <= 1 ->
  Rabs (pevalRl (map Q2R p) x - Q2R s * (if usesin then sin (Q2R tau * x) else cos (Q2R tau * x))) <= Q2R eps.
Proof.
  unfold check_trig_acc_hi. intros H x Hx. apply andb_prop in H. destruct H as [H Hf]. apply andb_prop in H. destruct H as [Hs Hc].
  apply Qleb_ok in Hs. rewrite Q2R_0' in Hs.
  assert (Hx' : Q2R (-1) <= x <= Q2R 1) by (replace (Q2R (-1)) with (-1) by (unfold Q2R; cbn; lra); replace (Q2R 1) with 1 by (unfold Q2R; cbn; lra); exact Hx).
  destruct (cover_upto_sound cells 1 (-1) Hc x Hx') as (cell & Hin & Hcell).
  rewrite forallb_forall in Hf. apply (cell_ok_hi_sound usesin p s tau eps n cell x (Hf cell Hin) Hs Hcell).
Qed.

(* Chebyshev-basis input: the series is the polynomial produced by the exact cheb2poly *)
Lemma cheb_series_c2p (c : list Q) x : cheb_series (map Q2R c) x = pevalRl (map Q2R (c2p_q false c)) x.
Proof.
  rewrite cheb_series_chebsum.
  transitivity (@peval RR (c2p OpsRR false (map Q2R c)) x); [symmetry; exact (c2p_sound RR false (map Q2R c) x)|].
  rewrite peval_RR. f_equal. exact (F2_rQR_inv _ _ (c2p_q_rQR c)).
Qed.

Theorem check_trig_acc_hi_cheb_sound usesin c s tau cells n eps : check_trig_acc_hi_cheb usesin c s tau cells n eps = true ->
  forall x, -1 <= x <= 1 ->
  Rabs (cheb_series (map Q2R c) x - Q2R s * (if usesin then sin (Q2R tau * x) else cos (Q2R tau * x))) <= Q2R eps.
Proof.
  unfold check_trig_acc_hi_cheb. intros H x Hx. rewrite cheb_series_c2p. exact (check_trig_acc_hi_sound _ _ _ _ _ _ _ H x Hx).
Qed.

(* ---- 1/x *)
Lemma invcoefs_geo ninv d K : forall g,
  pevalRl (map Q2R (invcoefs K g ninv)) d * (1 - Q2R ninv * d) = Q2R g * (1 - (Q2R ninv * d) ^ K).
Proof.
  induction K as [|K IH]; intros g; cbn [invcoefs map pevalRl pow]; [ring|].
  transitivity (Q2R g * (1 - Q2R ninv * d) + d * (pevalRl (map Q2R (invcoefs K (g * ninv) ninv)) d * (1 - Q2R ninv * d))); [ring|].
  rewrite IH, Q2R_mult. ring.
Qed.

Lemma pevalRl_qdiv p scale x : ~ scale == 0 -> pevalRl (map Q2R (qdiv_list p scale)) x = pevalRl (map Q2R p) x / Q2R scale.
Proof.
  intros Hs. unfold qdiv_list. induction p as [|a p IH]; cbn [map pevalRl]; [lra|].
  rewrite IH, Q2R_mult, Q2R_inv by exact Hs. unfold Rdiv. ring.
Qed.

Lemma scale_one (t : list R) : scale OpsRR 1 t = t.
Proof. unfold OpsRR. induction t as [|c t IHt]; cbn [scale]; [reflexivity | rewrite IHt; cbn [dmul OpsK kmul RR]; f_equal; apply Rmult_1_l]. Qed.

Lemma cell_ok_inv_hi_sound p tol K cell x :
  cell_ok_inv_hi p tol K cell = true -> Rabs (x - Q2R (fst cell)) <= Q2R (snd cell) ->
  Rabs (pevalRl (map Q2R p) x - / x) <= Q2R tol.
Proof.
  destruct cell as [x0 r]. cbn [fst snd]. unfold cell_ok_inv_hi. cbn [fst snd]. cbv zeta.
  intros H Hx. apply andb_prop in H. destruct H as [H Hb]. apply andb_prop in H. destruct H as [Hr Hrx].
  apply Qleb_ok in Hr. apply Qltb_ok in Hrx. rewrite Q2R_0' in Hr. apply scaled_le_q_ok in Hb.
  set (X0 := Q2R x0) in *. set (R0 := Q2R r) in *. set (d := x - X0). assert (Hd : Rabs d <= R0) by exact Hx.
  assert (HX0 : 0 < X0) by lra.
  assert (Hx0n : ~ x0 == 0) by (intros E; apply Qeq_eqR in E; rewrite Q2R_0' in E; fold X0 in E; lra).
  assert (Hxpos : X0 - R0 <= x) by (unfold d in Hd; unfold Rabs in Hd; destruct (Rcase_abs (x - X0)); lra).
  assert (Hxp : 0 < x) by lra.
  pose proof (pshift_at_rel _ _ _ _ (map_iofQ_ok p) (iofQ_ok x0)) as Ra.
  pose proof (ladd_rel OpsI OpsRR inI inI_add _ _ _ _ Ra
               (lneg_rel OpsI OpsRR inI inI_neg _ _ (map_iofQ_ok (invcoefs K (/ x0) (- / x0))))) as Rd.
  destruct (abs_horner_ok _ _ (iofQ r) R0 d Rd (iofQ_ok r) Hr Hd) as (v & Hv & Hle & Hv0).
  assert (Ediff : forall a t : list R, pevalRl (ladd OpsRR a (lneg OpsRR t)) d = pevalRl a d - pevalRl t d).
  { intros a t. pose proof (pevalRl_diff a t 1 d) as E. 
    rewrite scale_one in E. rewrite E. ring. }
  rewrite Ediff, pshift_at_sound in Hle. fold X0 in Hle. replace (X0 + d) with x in Hle by (unfold d; ring).
  pose proof (invcoefs_geo (- / x0) d K (/ x0)) as G. rewrite Q2R_opp, !Q2R_inv in G by exact Hx0n. fold X0 in G.
  set (Pt := pevalRl (map Q2R (invcoefs K (/ x0) (- / x0))) d) in *.
  set (q := - / X0 * d) in *.
  assert (E1 : 1 - q = x / X0) by (unfold q, d; field; lra).
  rewrite E1 in G.
  assert (EP : / x - Pt = q ^ K / x).
  { assert (Pt = / X0 * (1 - q ^ K) * X0 / x) by (rewrite <- G; field; lra). rewrite H. field. lra. }
  (* remainder *)
  assert (Hq : Rabs q <= R0 / X0).
  { unfold q. rewrite Rabs_mult, Rabs_Ropp, (Rabs_pos_eq (/ X0)) by (left; apply Rinv_0_lt_compat; exact HX0).
    unfold Rdiv. pose proof (Rinv_0_lt_compat _ HX0). rewrite Rmult_comm. apply Rmult_le_compat_r; lra. }
  assert (Hrem : Q2R (qpow (r * / x0) K * / qadd x0 (- r)) = (R0 / X0) ^ K / (X0 - R0)).
  { assert (~ qadd x0 (- r) == 0).
    { intros E. apply Qeq_eqR in E. rewrite qadd_ok, Q2R_opp, Q2R_0' in E. fold X0 R0 in E. lra. }
    rewrite Q2R_mult, qpow_ok, Q2R_mult, !Q2R_inv, qadd_ok, Q2R_opp by assumption. reflexivity. }
  rewrite qadd_ok, Q2R_opp, Hrem in Hb.
  assert (Hvb : v <= Q2R tol - (R0 / X0) ^ K / (X0 - R0)).
  { destruct Hv as [_ Hv]. pose proof sc_pos. apply Rmult_le_reg_r with sc; [assumption|]. lra. }
  assert (HR : Rabs (q ^ K / x) <= (R0 / X0) ^ K / (X0 - R0)).
  { unfold Rdiv. rewrite Rabs_mult, <- RPow_abs, (Rabs_pos_eq (/ x)) by (left; apply Rinv_0_lt_compat; exact Hxp).
    assert (P1 : Rabs q ^ K <= (R0 * / X0) ^ K) by (apply pow_incr; split; [apply Rabs_pos | exact Hq]).
    assert (P2 : / x <= / (X0 - R0)) by (apply Rinv_le_contravar; lra).
    assert (0 <= Rabs q ^ K) by (apply pow_le, Rabs_pos).
    assert (0 < / x) by (apply Rinv_0_lt_compat; exact Hxp).
    apply Rmult_le_compat; lra. }
  replace (pevalRl (map Q2R p) x - / x) with ((pevalRl (map Q2R p) x - Pt) - (/ x - Pt)) by ring.
  rewrite EP. eapply Rle_trans; [apply Rabs_triang|]. rewrite Rabs_Ropp. lra.
Qed.

Theorem check_inv_acc_hi_sound p scale kappa cells K tol : check_inv_acc_hi p scale kappa cells K tol = true ->
  0 < Q2R scale /\ 0 < Q2R kappa /\
  forall x, / Q2R kappa <= x <= 1 -> Rabs (pevalRl (map Q2R p) x / Q2R scale - / x) <= Q2R tol.
Proof.
  unfold check_inv_acc_hi. intros H. apply andb_prop in H. destruct H as [H Hf]. apply andb_prop in H. destruct H as [H Hc].
  apply andb_prop in H. destruct H as [Hs Hk]. apply Qltb_ok in Hs, Hk. rewrite Q2R_0' in Hs, Hk.
  split; [exact Hs|]. split; [exact Hk|]. intros x Hx.
  assert (Hkn : ~ kappa == 0) by (intros E; apply Qeq_eqR in E; rewrite Q2R_0' in E; lra).
  assert (Hsn : ~ scale == 0) by (intros E; apply Qeq_eqR in E; rewrite Q2R_0' in E; lra).
  assert (Hx' : Q2R (/ kappa) <= x <= Q2R 1) by (rewrite Q2R_inv by exact Hkn; replace (Q2R 1) with 1 by (unfold Q2R; cbn; lra); exact Hx).
  destruct (cover_upto_sound cells 1 (/ kappa) Hc x Hx') as (cell & Hin & Hcell).
  rewrite forallb_forall in Hf. rewrite <- (pevalRl_qdiv p scale x Hsn).
  exact (cell_ok_inv_hi_sound _ _ _ cell x (Hf cell Hin) Hcell).
Qed.

Theorem check_inv_acc_hi_cheb_sound c scale kappa cells K tol : check_inv_acc_hi_cheb c scale kappa cells K tol = true ->
  0 < Q2R scale /\ 0 < Q2R kappa /\
  forall x, / Q2R kappa <= x <= 1 -> Rabs (cheb_series (map Q2R c) x / Q2R scale - / x) <= Q2R tol.
Proof.
  unfold check_inv_acc_hi_cheb. intros H. destruct (check_inv_acc_hi_sound _ _ _ _ _ _ H) as (A & B & C).
  split; [exact A|]. split; [exact B|]. intros x Hx. rewrite cheb_series_c2p. exact (C x Hx).
Qed.
