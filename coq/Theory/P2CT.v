(* Theory/P2CT.v — completion.poly2cheb inverts cheb2poly, for every input, both kinds, over any
   commutative ring with 1/2:  sum_k (p2c p)_k P_k(x) = p(x)  for all x  (top-down elimination with the
   leading coefficients 2^(n-1) / 2^n of the tables), hence c2p (p2c p) and p denote the same
   polynomial and p2c (c2p c) and c the same Chebyshev sum. *)
From Coq Require Import ZArith List Ring Lia Bool PeanoNat.
From PyqspV Require Import Base.Ops Model.LPolyM Model.ConvM Theory.RingK Theory.LPolyT Theory.ConvT Theory.ChebT.
Import ListNotations.

Section P2C.
  Variable K : CRing.
  Add Ring Kr9 : (Kring K).
  Notation "x + y" := (kadd x y).
  Notation "x * y" := (kmul x y).
  Notation "x - y" := (ksub x y).
  Notation "- x" := (kopp x).
  Notation O := (@OpsK K).
  Variable half : K.
  Hypothesis half2 : half + half = k1.
  Notation chebP := (chebP O).
  Notation chebsum := (chebsum K).

  Definition coef (l : list K) (i : nat) : K := nth i l k0.
  Definition zero_from (n : nat) (l : list K) : Prop := forall i, (n <= i)%nat -> coef l i = k0.

  Lemma coef_nil i : coef [] i = k0.
  Proof. unfold coef. destruct i; reflexivity. Qed.
  Lemma coef_ladd p : forall q i, coef (ladd O p q) i = coef p i + coef q i.
  Proof.
    induction p as [|a p IH]; intros q i; cbn [ladd].
    - rewrite coef_nil. ring.
    - destruct q as [|b q]; [rewrite coef_nil; ring|]. destruct i as [|i]; unfold coef; cbn [nth OpsK dadd]; [reflexivity|].
      apply IH.
  Qed.
  Lemma coef_scale a q : forall i, coef (scale O a q) i = a * coef q i.
  Proof.
    induction q as [|b q IH]; intros i; cbn [scale]; [rewrite coef_nil; ring|].
    destruct i as [|i]; unfold coef; cbn [nth OpsK dmul]; [reflexivity | apply IH].
  Qed.
  Lemma coef_lneg p : forall i, coef (lneg O p) i = - coef p i.
  Proof.
    unfold lneg. induction p as [|a p IH]; intros i; cbn [map]; [rewrite coef_nil; ring|].
    destruct i as [|i]; unfold coef; cbn [nth OpsK dneg]; [reflexivity | apply IH].
  Qed.
  Lemma coef_psub p q i : coef (psub O p q) i = coef p i - coef q i.
  Proof. unfold psub. rewrite coef_ladd, coef_lneg. symmetry. apply (Rsub_def (Kring K)). Qed.
  Lemma coef_pshift_S p i : coef (pshift O p) (S i) = coef p i.
  Proof. reflexivity. Qed.
  Lemma coef_overflow l i : (length l <= i)%nat -> coef l i = k0.
  Proof. intros H. unfold coef. apply nth_overflow. exact H. Qed.

  Lemma length_ladd p : forall q, length (ladd O p q) = Nat.max (length p) (length q).
  Proof.
    induction p as [|a p IH]; intros q; cbn [ladd length]; [reflexivity|].
    destruct q as [|b q]; cbn [length]; [reflexivity|]. rewrite IH. reflexivity.
  Qed.
  Lemma length_scale a q : length (scale O a q) = length q.
  Proof. induction q as [|b q IH]; cbn [scale length]; [reflexivity | rewrite IH; reflexivity]. Qed.
  Lemma length_psub p q : length (psub O p q) = Nat.max (length p) (length q).
  Proof. unfold psub, lneg. rewrite length_ladd, map_length. reflexivity. Qed.

  Lemma cheb_pair_length kindU n :
    length (fst (cheb_pair O kindU n)) = S n /\ length (snd (cheb_pair O kindU n)) = S (S n).
  Proof.
    induction n as [|n [IH1 IH2]]; cbn [cheb_pair].
    - destruct kindU; split; reflexivity.
    - destruct (cheb_pair O kindU n) as [a b]. cbn [fst snd] in *. split; [exact IH2|].
      rewrite length_psub, length_scale. unfold pshift. cbn [length]. rewrite IH1, IH2. lia.
  Qed.
  Lemma chebP_length kindU n : length (chebP kindU n) = S n.
  Proof. exact (proj1 (cheb_pair_length kindU n)). Qed.

  Lemma two_half' : two O * half = k1.
  Proof. unfold two. cbn [OpsK dadd d1]. transitivity (half + half); [ring | exact half2]. Qed.

  (* leading coefficients: lead(P_n) * inv_lead n = 1 *)
  Lemma cheb_pair_lead kindU n :
    coef (fst (cheb_pair O kindU n)) n * inv_lead O half kindU n = k1 /\
    coef (snd (cheb_pair O kindU n)) (S n) * inv_lead O half kindU (S n) = k1.
  Proof.
    induction n as [|n [IH1 IH2]]; cbn [cheb_pair].
    - destruct kindU; unfold coef, inv_lead; cbn [fst snd nth hpow Nat.pred OpsK d1 dmul]; split; try ring.
      transitivity (two O * half); [unfold two; cbn [OpsK dadd d1]; ring | exact two_half'].
    - pose proof (cheb_pair_length kindU n) as [L1 L2].
      destruct (cheb_pair O kindU n) as [a b]. cbn [fst snd] in *. split; [exact IH2|].
      rewrite coef_psub, coef_scale, coef_pshift_S, (coef_overflow a) by lia.
      assert (E : inv_lead O half kindU (S (S n)) = half * inv_lead O half kindU (S n)).
      { unfold inv_lead. destruct kindU; cbn [Nat.pred hpow OpsK dmul]; reflexivity. }
      rewrite E.
      transitivity ((two O * half) * (coef b (S n) * inv_lead O half kindU (S n))); [ring|].
      rewrite two_half', IH2. ring.
  Qed.
  Lemma chebP_lead kindU n : coef (chebP kindU n) n * inv_lead O half kindU n = k1.
  Proof. exact (proj1 (cheb_pair_lead kindU n)). Qed.

  Lemma peval_zero_from_0 l x : zero_from 0 l -> peval l x = k0.
  Proof.
    induction l as [|c l IH]; intros H; cbn [peval]; [reflexivity|].
    assert (Hc : c = k0) by (apply (H 0%nat); lia).
    rewrite IH; [rewrite Hc; ring|]. intros i Hi. apply (H (S i)). lia.
  Qed.

  Lemma chebsum_app kindU l1 l2 : forall k x,
    chebsum kindU (l1 ++ l2) k x = chebsum kindU l1 k x + chebsum kindU l2 (k + length l1) x.
  Proof.
    induction l1 as [|c l1 IH]; intros k x; cbn [app ChebT.chebsum length].
    - rewrite Nat.add_0_r. ring.
    - rewrite IH. replace (S k + length l1)%nat with (k + S (length l1))%nat by lia. ring.
  Qed.

  Lemma p2c_aux_sound kindU fuel : forall p x, zero_from fuel p ->
    chebsum kindU (p2c_aux O half kindU fuel p) 0 x = peval p x /\ length (p2c_aux O half kindU fuel p) = fuel.
  Proof.
    induction fuel as [|deg IH]; intros p x Hz; cbn [p2c_aux].
    - split; [|reflexivity]. cbn [ChebT.chebsum]. symmetry. apply peval_zero_from_0. exact Hz.
    - set (c := dmul O (nth deg p (d0 O)) (inv_lead O half kindU deg)).
      set (p' := psub O p (scale O c (chebP kindU deg))).
      assert (Hz' : zero_from deg p').
      { intros i Hi. unfold p'. rewrite coef_psub, coef_scale.
        destruct (Nat.eq_dec i deg) as [->|Hne].
        - unfold c. cbn [OpsK dmul d0]. fold (coef p deg).
          transitivity (coef p deg - coef p deg * (coef (chebP kindU deg) deg * inv_lead O half kindU deg)); [ring|].
          rewrite chebP_lead. ring.
        - rewrite (Hz i) by lia. rewrite (coef_overflow (chebP kindU deg)) by (rewrite chebP_length; lia). ring. }
      destruct (IH p' x Hz') as [E L]. split; [|rewrite app_length, L; cbn [length]; lia].
      rewrite chebsum_app, E, L. cbn [ChebT.chebsum Nat.add]. unfold p'.
      rewrite (peval_psub K), peval_scale. ring.
  Qed.

  Theorem p2c_sound kindU p x : chebsum kindU (p2c O half kindU p) 0 x = peval p x.
  Proof.
    unfold p2c. apply p2c_aux_sound. intros i Hi. apply coef_overflow. exact Hi.
  Qed.

  (* the two helpers invert each other, as polynomials / as Chebyshev sums *)
  Theorem c2p_p2c kindU p x : peval (c2p O kindU (p2c O half kindU p)) x = peval p x.
  Proof. rewrite (c2p_sound K). apply p2c_sound. Qed.
  Theorem p2c_c2p kindU cs x : chebsum kindU (p2c O half kindU (c2p O kindU cs)) 0 x = chebsum kindU cs 0 x.
  Proof. rewrite p2c_sound. apply (c2p_sound K). Qed.
  Theorem p2c_length kindU p : length (p2c O half kindU p) = length p.
  Proof. unfold p2c. apply (proj2 (p2c_aux_sound kindU (length p) p k0 (fun i Hi => coef_overflow p i Hi))). Qed.
End P2C.
