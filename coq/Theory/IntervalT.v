(* Theory/IntervalT.v — soundness of the fixed-point interval operations over R. *)
From Coq Require Import ZArith QArith Qreals Reals Lra Lia Psatz.
From PyqspV Require Import Base.Ops Base.IntervalZ.
Open Scope R_scope.

Definition sc : R := IZR scaleZ.

Lemma scaleZ_pos : (0 < scaleZ)%Z.
Proof. unfold scaleZ, P. apply Z.pow_pos_nonneg; lia. Qed.

Lemma sc_pos : 0 < sc.
Proof. unfold sc. apply IZR_lt. exact scaleZ_pos. Qed.

(* x is in the interval i *)
Definition inI (i : I) (x : R) : Prop := IZR (lo i) <= x * sc <= IZR (hi i).

Lemma iadd_ok a b x y : inI a x -> inI b y -> inI (iadd a b) (x + y).
Proof. unfold inI, iadd; cbn. rewrite !plus_IZR. intros; lra. Qed.

Lemma ineg_ok a x : inI a x -> inI (ineg a) (- x).
Proof. unfold inI, ineg; cbn. rewrite !opp_IZR. intros; lra. Qed.

Lemma isub_ok a b x y : inI a x -> inI b y -> inI (isub a b) (x - y).
Proof. unfold inI, isub; cbn. rewrite !minus_IZR. intros; lra. Qed.

(* floor and ceiling division against reals *)
Lemma fdiv_le (x d : Z) : (0 < d)%Z -> IZR (x / d) * IZR d <= IZR x.
Proof.
  intros Hd. rewrite <- mult_IZR. apply IZR_le.
  pose proof (Z.mul_div_le x d Hd). lia.
Qed.

Lemma cdiv_ge (x d : Z) : (0 < d)%Z -> IZR x <= IZR (cdiv x d) * IZR d.
Proof.
  intros Hd. unfold cdiv. rewrite opp_IZR.
  pose proof (fdiv_le (- x) d Hd) as H. rewrite opp_IZR in H. lra.
Qed.

Lemma lin_between (a c d y : R) : c <= y <= d -> Rmin (a * c) (a * d) <= a * y <= Rmax (a * c) (a * d).
Proof. intros [H1 H2]. unfold Rmin, Rmax. destruct (Rle_dec (a * c) (a * d)); destruct (Rle_dec 0 a); nra. Qed.

Lemma mul_corner (a b c d x y : R) : a <= x <= b -> c <= y <= d ->
  Rmin (Rmin (a * c) (a * d)) (Rmin (b * c) (b * d)) <= x * y <= Rmax (Rmax (a * c) (a * d)) (Rmax (b * c) (b * d)).
Proof.
  intros Hx Hy.
  pose proof (lin_between a c d y Hy) as [A1 A2]. pose proof (lin_between b c d y Hy) as [B1 B2].
  pose proof (lin_between y a b x Hx) as [C1 C2]. rewrite !(Rmult_comm y) in C1, C2.
  split.
  - eapply Rle_trans; [|exact C1]. apply Rmin_glb; [eapply Rle_trans; [apply Rmin_l | exact A1] | eapply Rle_trans; [apply Rmin_r | exact B1]].
  - eapply Rle_trans; [exact C2|]. apply Rmax_lub; [eapply Rle_trans; [exact A2 | apply Rmax_l] | eapply Rle_trans; [exact B2 | apply Rmax_r]].
Qed.

Lemma IZR_min a b : IZR (Z.min a b) = Rmin (IZR a) (IZR b).
Proof.
  unfold Rmin. destruct (Rle_dec (IZR a) (IZR b)) as [H|H].
  - apply le_IZR in H. rewrite Z.min_l by lia. reflexivity.
  - assert (b < a)%Z by (apply lt_IZR; lra). rewrite Z.min_r by lia. reflexivity.
Qed.

Lemma IZR_max a b : IZR (Z.max a b) = Rmax (IZR a) (IZR b).
Proof.
  unfold Rmax. destruct (Rle_dec (IZR a) (IZR b)) as [H|H].
  - apply le_IZR in H. rewrite Z.max_r by lia. reflexivity.
  - assert (b < a)%Z by (apply lt_IZR; lra). rewrite Z.max_l by lia. reflexivity.
Qed.

Lemma fdivS_eq x : fdivS x = (x / scaleZ)%Z.
Proof. unfold fdivS, scaleZ. apply Z.shiftr_div_pow2. unfold P. lia. Qed.
Lemma cdivS_eq x : cdivS x = cdiv x scaleZ.
Proof. unfold cdivS, cdiv. rewrite <- fdivS_eq. reflexivity. Qed.

Lemma imul_ok a b x y : inI a x -> inI b y -> inI (imul a b) (x * y).
Proof.
  unfold inI, imul. cbn [lo hi]. rewrite fdivS_eq, cdivS_eq. intros Hx Hy.
  pose proof (mul_corner _ _ _ _ _ _ Hx Hy) as [L U].
  pose proof sc_pos as Hs.
  set (mn := Z.min (Z.min (lo a * lo b) (lo a * hi b)) (Z.min (hi a * lo b) (hi a * hi b))).
  set (mx := Z.max (Z.max (lo a * lo b) (lo a * hi b)) (Z.max (hi a * lo b) (hi a * hi b))).
  assert (Hmn : IZR mn <= (x * sc) * (y * sc)).
  { unfold mn. rewrite !IZR_min, !mult_IZR. exact L. }
  assert (Hmx : (x * sc) * (y * sc) <= IZR mx).
  { unfold mx. rewrite !IZR_max, !mult_IZR. exact U. }
  pose proof (fdiv_le mn scaleZ scaleZ_pos) as F. pose proof (cdiv_ge mx scaleZ scaleZ_pos) as C.
  fold sc in F, C. split; nra.
Qed.

Lemma idivZ_ok a m x : (0 < m)%Z -> inI a x -> inI (idivZ a m) (x / IZR m).
Proof.
  unfold inI, idivZ. cbn [lo hi]. intros Hm [H1 H2].
  pose proof (fdiv_le (lo a) m Hm) as F. pose proof (cdiv_ge (hi a) m Hm) as C.
  assert (Hm' : 0 < IZR m) by (apply IZR_lt; exact Hm).
  assert (E : x / IZR m * sc = (x * sc) / IZR m) by (field; lra).
  rewrite E. split.
  - apply Rmult_le_reg_r with (IZR m); [exact Hm'|]. unfold Rdiv. rewrite Rmult_assoc, Rinv_l by lra. lra.
  - apply Rmult_le_reg_r with (IZR m); [exact Hm'|]. unfold Rdiv. rewrite Rmult_assoc, Rinv_l by lra. lra.
Qed.

Lemma iofZ_ok z : inI (iofZ z) (IZR z).
Proof. unfold inI, iofZ, sc; cbn. rewrite mult_IZR. lra. Qed.

Lemma izero_ok : inI izero 0.
Proof. unfold inI, izero; cbn. lra. Qed.

Lemma ione_ok : inI ione 1.
Proof. apply (iofZ_ok 1). Qed.

Lemma Q2R_alt q : Q2R q = IZR (Qnum q) / IZR (Zpos (Qden q)).
Proof. reflexivity. Qed.

Lemma iofQ_ok q : inI (iofQ q) (Q2R q).
Proof.
  unfold inI, iofQ. cbn [lo hi]. rewrite Q2R_alt.
  assert (Hd : (0 < Zpos (Qden q))%Z) by lia.
  assert (Hd' : 0 < IZR (Zpos (Qden q))) by (apply IZR_lt; exact Hd).
  pose proof (fdiv_le (Qnum q * scaleZ) _ Hd) as F. pose proof (cdiv_ge (Qnum q * scaleZ) _ Hd) as C.
  rewrite mult_IZR in F, C. fold sc in F, C.
  assert (E : IZR (Qnum q) / IZR (Zpos (Qden q)) * sc = (IZR (Qnum q) * sc) / IZR (Zpos (Qden q))) by (field; lra).
  rewrite E. split.
  - apply Rmult_le_reg_r with (IZR (Zpos (Qden q))); [exact Hd'|]. unfold Rdiv. rewrite Rmult_assoc, Rinv_l by lra. lra.
  - apply Rmult_le_reg_r with (IZR (Zpos (Qden q))); [exact Hd'|]. unfold Rdiv. rewrite Rmult_assoc, Rinv_l by lra. lra.
Qed.

Lemma iabs_ub_ok a x : inI a x -> Rabs x * sc <= IZR (iabs_ub a).
Proof.
  unfold inI, iabs_ub. intros [H1 H2]. pose proof sc_pos as Hs.
  rewrite IZR_max, !abs_IZR.
  unfold Rabs at 1. destruct (Rcase_abs x).
  - eapply Rle_trans; [|apply Rmax_l]. unfold Rabs. destruct (Rcase_abs (IZR (lo a))); nra.
  - eapply Rle_trans; [|apply Rmax_r]. unfold Rabs. destruct (Rcase_abs (IZR (hi a))); nra.
Qed.

Lemma iabs_lb_ok a x : inI a x -> IZR (iabs_lb a) <= Rabs x * sc.
Proof.
  unfold inI, iabs_lb. intros [H1 H2]. pose proof sc_pos as Hs. pose proof (Rabs_pos x) as Hp.
  destruct (0 <=? lo a)%Z eqn:E1.
  - apply Z.leb_le in E1. apply IZR_le in E1. rewrite Rabs_pos_eq; [lra|]. nra.
  - destruct (hi a <=? 0)%Z eqn:E2.
    + apply Z.leb_le in E2. apply IZR_le in E2. rewrite opp_IZR.
      rewrite Rabs_left1; [lra|]. nra.
    + nra.
Qed.

Lemma ihull_ok_l a b x : inI a x -> inI (ihull a b) x.
Proof.
  unfold inI, ihull; cbn. rewrite IZR_min, IZR_max. intros [H1 H2]. split.
  - eapply Rle_trans; [apply Rmin_l | exact H1].
  - eapply Rle_trans; [exact H2 | apply Rmax_l].
Qed.

Lemma ihull_ok_r a b x : inI b x -> inI (ihull a b) x.
Proof.
  unfold inI, ihull; cbn. rewrite IZR_min, IZR_max. intros [H1 H2]. split.
  - eapply Rle_trans; [apply Rmin_r | exact H1].
  - eapply Rle_trans; [exact H2 | apply Rmax_r].
Qed.

Lemma inI_weaken a b x : (lo b <= lo a)%Z -> (hi a <= hi b)%Z -> inI a x -> inI b x.
Proof. unfold inI. intros H1 H2 [A B]. apply IZR_le in H1, H2. lra. Qed.

(* square root *)
Lemma isqrt_ok a x : inI a x -> 0 <= x -> inI (isqrt a) (sqrt x).
Proof.
  unfold inI, isqrt. cbn [lo hi]. intros [H1 H2] Hx. pose proof sc_pos as Hs.
  assert (Hsx : 0 <= sqrt x) by apply sqrt_pos.
  assert (Hsq : sqrt x * sqrt x = x) by (apply sqrt_sqrt; exact Hx).
  split.
  - set (l := (Z.max 0 (lo a) * scaleZ)%Z).
    assert (Hl : (0 <= l)%Z) by (unfold l; apply Z.mul_nonneg_nonneg; [lia | pose proof scaleZ_pos; lia]).
    pose proof (Z.sqrt_spec l Hl) as [S1 _].
    assert (Hr : (0 <= Z.sqrt l)%Z) by apply Z.sqrt_nonneg.
    assert (IZR l <= (x * sc) * sc).
    { unfold l. rewrite mult_IZR, IZR_max. fold sc. apply Rmult_le_compat_r; [lra|].
      apply Rmax_lub; nra. }
    apply IZR_le in S1. rewrite mult_IZR in S1. apply IZR_le in Hr.
    assert (Hq : (sqrt x * sc) * (sqrt x * sc) = x * sc * sc) by (rewrite <- Hsq at 3; ring).
    assert (Hnn : 0 <= sqrt x * sc) by (apply Rmult_le_pos; lra).
    apply Rnot_lt_le. intros Hc.
    pose proof (Rmult_le_0_lt_compat _ _ _ _ Hnn Hnn Hc Hc). lra.
  - set (h := (Z.max 0 (hi a) * scaleZ)%Z).
    assert (Hh : (0 <= h)%Z) by (unfold h; apply Z.mul_nonneg_nonneg; [lia | pose proof scaleZ_pos; lia]).
    pose proof (Z.sqrt_spec h Hh) as [_ S2].
    assert (Hr : (0 <= Z.sqrt h)%Z) by apply Z.sqrt_nonneg.
    assert ((x * sc) * sc <= IZR h).
    { unfold h. rewrite mult_IZR, IZR_max. fold sc. apply Rmult_le_compat_r; [lra|].
      eapply Rle_trans; [exact H2 | apply Rmax_r]. }
    apply IZR_lt in S2. rewrite mult_IZR, !succ_IZR in S2. apply IZR_le in Hr.
    rewrite plus_IZR.
    assert (Hq : (sqrt x * sc) * (sqrt x * sc) = x * sc * sc) by (rewrite <- Hsq at 3; ring).
    assert (Hnn : 0 <= IZR (Z.sqrt h) + 1) by lra.
    apply Rnot_lt_le. intros Hc.
    pose proof (Rmult_le_0_lt_compat _ _ _ _ Hnn Hnn Hc Hc). lra.
Qed.

(* comparisons of scaled integers with rationals *)
Lemma q_le_scaled_ok q ub : q_le_scaled q ub = true -> Q2R q * sc <= IZR ub.
Proof.
  unfold q_le_scaled. intros H. apply Z.leb_le in H. apply IZR_le in H.
  rewrite !mult_IZR in H. fold sc in H. rewrite Q2R_alt.
  assert (Hd' : 0 < IZR (Zpos (Qden q))) by (apply IZR_lt; lia).
  apply Rmult_le_reg_r with (IZR (Zpos (Qden q))); [exact Hd'|].
  replace (IZR (Qnum q) / IZR (Z.pos (Qden q)) * sc * IZR (Z.pos (Qden q))) with (IZR (Qnum q) * sc) by (field; lra).
  lra.
Qed.

Lemma scaled_le_q_ok v q : scaled_le_q v q = true -> IZR v <= Q2R q * sc.
Proof.
  unfold scaled_le_q. intros H. apply Z.leb_le in H. apply IZR_le in H.
  rewrite !mult_IZR in H. fold sc in H. rewrite Q2R_alt.
  assert (Hd' : 0 < IZR (Zpos (Qden q))) by (apply IZR_lt; lia).
  apply Rmult_le_reg_r with (IZR (Zpos (Qden q))); [exact Hd'|].
  replace (IZR (Qnum q) / IZR (Z.pos (Qden q)) * sc * IZR (Z.pos (Qden q))) with (IZR (Qnum q) * sc) by (field; lra).
  lra.
Qed.
