(* Theory/QC.v — the exact rational run of a model term is its complex run:
   the relation  rQC q z := z = RtoC (Q2R q)  is preserved by the operations of OpsQ / OpsC,
   so every generic model function evaluated over Q denotes its value over C (RelT). *)
From Coq Require Import ZArith QArith Qreals List Reals Lra Lia Bool.
From Coquelicot Require Import Complex.
From PyqspV Require Import Base.Ops Model.LPolyM Model.LAlgM Model.QInst Model.ConvM
  Theory.RingK Theory.LPolyT Theory.RelT Theory.CplxT Theory.QInstT.
Import ListNotations.
Open Scope R_scope.

Definition q2c (q : Q) : C := RtoC (Q2R q).
Definition rQC (q : Q) (z : C) : Prop := z = q2c q.
Definition lpQ2C (p : lpoly Q) : lpoly C := LP (lp_dmin p) (map q2c (lp_coefs p)) (lp_isz p).

Lemma rQC_0 : rQC (d0 OpsQ) (d0 OpsC).
Proof. unfold rQC, q2c. cbn. rewrite Q2R_0'. reflexivity. Qed.
Lemma rQC_1 : rQC (d1 OpsQ) (d1 OpsC).
Proof. unfold rQC, q2c. cbn. rewrite Q2R_1'. reflexivity. Qed.
Lemma rQC_add a b c d : rQC a c -> rQC b d -> rQC (dadd OpsQ a b) (dadd OpsC c d).
Proof. unfold rQC, q2c. intros -> ->. cbn [dadd OpsQ]. rewrite qadd_ok, RtoC_plus. reflexivity. Qed.
Lemma rQC_mul a b c d : rQC a c -> rQC b d -> rQC (dmul OpsQ a b) (dmul OpsC c d).
Proof. unfold rQC, q2c. intros -> ->. cbn [dmul OpsQ]. rewrite Q2R_mult, RtoC_mult. reflexivity. Qed.
Lemma rQC_neg a c : rQC a c -> rQC (dneg OpsQ a) (dneg OpsC c).
Proof. unfold rQC, q2c. intros ->. cbn [dneg OpsQ]. rewrite Q2R_opp, RtoC_opp. reflexivity. Qed.

Lemma F2_rQC l : Forall2 rQC l (map q2c l).
Proof. induction l; cbn [map]; constructor; [reflexivity | assumption]. Qed.

Lemma F2_rQC_inv l lc : Forall2 rQC l lc -> lc = map q2c l.
Proof. induction 1 as [|q z l lc H _ IH]; cbn [map]; [reflexivity|]. rewrite H, IH. reflexivity. Qed.

Lemma lp_rel_rQC p : lp_rel rQC p (lpQ2C p).
Proof. unfold lp_rel, lpQ2C; cbn. repeat split. apply F2_rQC. Qed.

Lemma lp_rel_rQC_inv p pc : lp_rel rQC p pc -> pc = lpQ2C p.
Proof.
  destruct pc as [d l z]. unfold lp_rel, lpQ2C; cbn. intros (Hd & Hz & Hl).
  rewrite (F2_rQC_inv _ _ Hl). subst. reflexivity.
Qed.

(* zero test on C agreeing with the exact zero test on Q *)
Definition zC (z : C) : bool := if Ceq_dec z (RtoC 0) then true else false.

Lemma qisz0_rQC a b : rQC a b -> Qeq_bool a 0 = zC b.
Proof.
  unfold rQC, q2c, zC. intros ->. destruct (Ceq_dec (RtoC (Q2R a)) (RtoC 0)) as [E|E].
  - apply Qeq_bool_iff. apply eqR_Qeq. apply RtoC_inj in E. rewrite E. symmetry. apply Q2R_0'.
  - destruct (Qeq_bool a 0) eqn:Eb; [|reflexivity]. exfalso. apply E.
    apply Qeq_bool_iff in Eb. apply Qeq_eqR in Eb. rewrite Eb, Q2R_0'. reflexivity.
Qed.

Lemma zC_ok c : zC c = true -> c = RtoC 0.
Proof. unfold zC. destruct (Ceq_dec c (RtoC 0)); [auto | discriminate]. Qed.

Lemma wf_lpQ2C_mk l d : wf CR (lpQ2C (mk OpsQ l d)).
Proof.
  unfold wf, lpQ2C, mk. destruct l; cbn; intros H; [|discriminate].
  unfold q2c. rewrite Q2R_0'. reflexivity.
Qed.
