(* Theory/RingK.v — an abstract commutative ring K with a unit w (inverse wi):
   Laurent powers, Horner evaluation of coefficient lists, and the list-level
   homomorphism lemmas (scale / ladd / conv / rev).  Everything in Theory/LPolyT.v and
   Theory/LAlgT.v is stated over this structure, then instantiated at R and C. *)
From Coq Require Import ZArith List Ring Lia.
From PyqspV Require Import Base.Ops.
Import ListNotations.

Record CRing := mkCRing {
  K :> Type;
  k0 : K; k1 : K; kadd : K -> K -> K; kmul : K -> K -> K; ksub : K -> K -> K; kopp : K -> K;
  Kring : ring_theory k0 k1 kadd kmul ksub kopp (@eq K) }.
Arguments k0 {_}. Arguments k1 {_}. Arguments kadd {_}. Arguments kmul {_}.
Arguments ksub {_}. Arguments kopp {_}.

Section RingK.
  Variable K : CRing.
  Add Ring Kr : (Kring K).

  Definition OpsK : Ops K := mkOps K k0 k1 kadd ksub kmul kopp.

  Notation "x + y" := (kadd x y).
  Notation "x * y" := (kmul x y).
  Notation "x - y" := (ksub x y).
  Notation "- x" := (kopp x).

  Fixpoint pw (x : K) (n : nat) : K := match n with O => k1 | S n => x * pw x n end.

  Lemma pw_add x n m : pw x (n + m) = pw x n * pw x m.
  Proof. induction n; cbn [pw Nat.add]; [ring | rewrite IHn; ring]. Qed.

  Lemma pw_mul_base x y n : pw (x * y) n = pw x n * pw y n.
  Proof. induction n; cbn [pw]; [ring | rewrite IHn; ring]. Qed.

  Lemma pw_1 n : pw k1 n = k1.
  Proof. induction n; cbn [pw]; [reflexivity | rewrite IHn; ring]. Qed.

  Lemma pw_pw x n m : pw (pw x n) m = pw x (n * m).
  Proof.
    induction m; cbn [pw].
    - rewrite Nat.mul_0_r. reflexivity.
    - rewrite IHm. rewrite <- pw_add. f_equal. lia.
  Qed.

  (* Horner evaluation *)
  Fixpoint peval (l : list K) (x : K) : K :=
    match l with [] => k0 | c :: l => c + x * peval l x end.

  Lemma peval_scale a q x : peval (scale OpsK a q) x = a * peval q x.
  Proof. induction q as [|c q IH]; cbn [scale peval OpsK dmul]; [ring | rewrite IH; ring]. Qed.

  Lemma peval_ladd p q x : peval (ladd OpsK p q) x = peval p x + peval q x.
  Proof.
    revert q; induction p as [|a p IH]; intros [|b q]; cbn [ladd peval OpsK dadd]; try ring.
    rewrite IH; ring.
  Qed.

  Lemma peval_conv p q x : peval (conv OpsK p q) x = peval p x * peval q x.
  Proof.
    induction p as [|a p IH]; cbn [conv peval]; [ring|].
    rewrite peval_ladd, peval_scale. cbn [peval OpsK d0]. rewrite IH. ring.
  Qed.

  Lemma peval_lneg p x : peval (lneg OpsK p) x = - peval p x.
  Proof. unfold lneg. induction p as [|a p IH]; cbn [map peval]; [ring|]. rewrite IH. cbn [OpsK dneg]. ring. Qed.

  Lemma peval_app p q x : peval (p ++ q) x = peval p x + pw x (length p) * peval q x.
  Proof. induction p as [|a p IH]; cbn [app peval length pw]; [ring | rewrite IH; ring]. Qed.

  Lemma peval_zeros n x : peval (zeros OpsK n) x = k0.
  Proof.
    unfold zeros. induction (Z.to_nat n) as [|m IH]; cbn [repeat peval]; [reflexivity|].
    rewrite IH. cbn [OpsK d0]. ring.
  Qed.

  Lemma zeros_length n : length (zeros OpsK n) = Z.to_nat n.
  Proof. apply repeat_length. Qed.

  (* reversal: evaluation at the inverse point *)
  Lemma pw_inv_cancel x xi n : x * xi = k1 -> pw x n * pw xi n = k1.
  Proof.
    intros Hx. induction n; cbn [pw]; [ring|].
    transitivity ((x * xi) * (pw x n * pw xi n)); [ring|]. rewrite IHn, Hx; ring.
  Qed.

  Lemma peval_rev l x xi : x * xi = k1 ->
    peval (rev l) x * pw xi (length l) = xi * peval l xi.
  Proof.
    intros Hx. induction l as [|c l IH].
    - cbn. ring.
    - cbn [rev]. rewrite peval_app, rev_length. cbn [length pw peval].
      transitivity (xi * (peval (rev l) x * pw xi (length l))
                    + (pw x (length l) * pw xi (length l)) * (xi * c + xi * x * k0)); [ring|].
      rewrite IH, pw_inv_cancel by exact Hx. ring.
  Qed.

  Lemma lsum_peval l : lsum OpsK l = peval l k1.
  Proof. induction l as [|c l IH]; cbn [lsum peval OpsK dadd d0]; [reflexivity | rewrite IH; ring]. Qed.

End RingK.
Arguments OpsK {K}. Arguments pw {K}. Arguments peval {K}.

Section Units.
  Variable K : CRing.
  Add Ring Ur : (Kring K).
  Variables w wi : K.
  Notation "x + y" := (kadd x y).
  Notation "x * y" := (kmul x y).
  Notation "x - y" := (ksub x y).
  Notation "- x" := (kopp x).
  Hypothesis wwi : w * wi = k1.

  Definition zpw (z : Z) : K := pw w (Z.to_nat z) * pw wi (Z.to_nat (- z)).
  Lemma pw_cancel n : pw w n * pw wi n = k1.
  Proof.
    induction n; cbn [pw]; [ring|].
    transitivity ((w * wi) * (pw w n * pw wi n)); [ring|]. rewrite IHn, wwi; ring.
  Qed.

  Lemma zpw_canon (a b : nat) : pw w a * pw wi b = zpw (Z.of_nat a - Z.of_nat b).
  Proof.
    unfold zpw. destruct (Nat.le_gt_cases b a) as [H|H].
    - replace (Z.to_nat (Z.of_nat a - Z.of_nat b)) with (a - b)%nat by lia.
      replace (Z.to_nat (- (Z.of_nat a - Z.of_nat b))) with 0%nat by lia.
      replace a with ((a - b) + b)%nat at 1 by lia. rewrite pw_add. cbn [pw].
      transitivity (pw w (a - b) * (pw w b * pw wi b)); [ring|]. rewrite pw_cancel. ring.
    - replace (Z.to_nat (Z.of_nat a - Z.of_nat b)) with 0%nat by lia.
      replace (Z.to_nat (- (Z.of_nat a - Z.of_nat b))) with (b - a)%nat by lia.
      replace b with (a + (b - a))%nat at 1 by lia. rewrite pw_add. cbn [pw].
      transitivity ((pw w a * pw wi a) * pw wi (b - a)); [ring|]. rewrite pw_cancel. ring.
  Qed.

  Lemma zpw_add x y : zpw (x + y) = zpw x * zpw y.
  Proof.
    unfold zpw at 2 3.
    transitivity (pw w (Z.to_nat x + Z.to_nat y) * pw wi (Z.to_nat (- x) + Z.to_nat (- y))).
    - rewrite zpw_canon. f_equal. lia.
    - rewrite !pw_add. ring.
  Qed.

  Lemma zpw_0 : zpw 0 = k1.
  Proof. unfold zpw. simpl. ring. Qed.

  Lemma zpw_1 : zpw 1 = w.
  Proof. unfold zpw. simpl. ring. Qed.

  Lemma zpw_m1 : zpw (-1) = wi.
  Proof. unfold zpw. simpl. ring. Qed.

  Lemma zpw_nonneg n : (0 <= n)%Z -> zpw n = pw w (Z.to_nat n).
  Proof. intros H. unfold zpw. replace (Z.to_nat (- n)) with 0%nat by lia. cbn [pw]. ring. Qed.

  Lemma zpw_inv_cancel n : zpw n * zpw (- n) = k1.
  Proof. rewrite <- zpw_add. replace (n + - n)%Z with 0%Z by lia. apply zpw_0. Qed.

  Lemma zpw_2n (n : nat) : zpw (2 * Z.of_nat n) = pw (w * w) n.
  Proof.
    rewrite zpw_nonneg by lia. rewrite pw_mul_base, <- pw_add. f_equal. lia.
  Qed.

  Lemma wiw : wi * w = k1.
  Proof. rewrite <- wwi. ring. Qed.
End Units.
Arguments zpw {K}.
