(* Theory/C04T.v — soundness of the completion certificate (C04): check_completion re-derives
   F F~ + G G~ - 1 in exact rational arithmetic from the returned floats; [true] gives the
   coefficient-wise statement and, on the whole unit circle, |F(w)F(1/w) + G(w)G(1/w) - 1| <= (#coefs) tol. *)
From Coq Require Import ZArith QArith Qabs Qreals List Reals Lra Lia Bool Psatz.
From Coquelicot Require Import Complex.
From PyqspV Require Import Base.Ops Model.LPolyM Model.LAlgM Model.QInst Model.Checkers
  Theory.RingK Theory.LPolyT Theory.LAlgT Theory.RelT Theory.CplxT Theory.QInstT Theory.QC Theory.CertT Theory.TrigT.
Import ListNotations.
Open Scope R_scope.

Lemma all_abs_lt_ok l tol : all_abs_lt l tol = true -> Forall (fun c => Rabs (Q2R c) < Q2R tol) l.
Proof.
  induction l as [|x l IH]; cbn [all_abs_lt]; intros H; constructor.
  - apply andb_prop in H. destruct H as [H _]. apply Qltb_ok in H. rewrite Qabs_Q2R in H. exact H.
  - apply IH. apply andb_prop in H. tauto.
Qed.

Lemma qlist_eqb_exact_ok a b : qlist_eqb_exact a b = true -> Forall2 Qeq a b.
Proof.
  revert b; induction a as [|x a IH]; intros [|y b] H; cbn [qlist_eqb_exact] in H; try discriminate; constructor.
  - apply andb_prop in H. destruct H as [H _]. apply Qeq_bool_iff; exact H.
  - apply IH. apply andb_prop in H. tauto.
Qed.

Lemma shape_ok_spec n p : shape_ok n p = true -> lp_isz p = false /\ lp_dmin p = (- n)%Z /\ len (lp_coefs p) = (n + 1)%Z.
Proof.
  unfold shape_ok. intros H. apply andb_prop in H. destruct H as [H H3]. apply andb_prop in H. destruct H as [H1 H2].
  apply negb_true_iff in H1. apply Z.eqb_eq in H2, H3. tauto.
Qed.

Lemma wf_nz p : lp_isz p = false -> wf CR (lpQ2C p).
Proof. unfold wf, lpQ2C; cbn. intros -> H. discriminate. Qed.

Lemma sumR_le_len (l : list Q) tol : Forall (fun c => Rabs (Q2R c) < Q2R tol) l ->
  sumR (map Cmod (map q2c l)) <= INR (length l) * Q2R tol.
Proof.
  induction 1 as [|c l Hc _ IH]; cbn [map sumR length]; [simpl; lra|].
  rewrite S_INR. unfold q2c at 1. rewrite Cmod_R. lra.
Qed.

Theorem check_completion_sound Fin g tol :
  check_completion Fin g tol = true ->
  let n := (len Fin - 1)%Z in
  (lp_isz (la_I g) = false /\ lp_dmin (la_I g) = (- n)%Z /\ Forall2 Qeq (lp_coefs (la_I g)) Fin) /\
  (lp_isz (la_X g) = false /\ lp_dmin (la_X g) = (- n)%Z /\ len (lp_coefs (la_X g)) = (n + 1)%Z) /\
  exists r, unit_residual (la_I g) (la_X g) = Some r /\
    Forall (fun c => Rabs (Q2R c) < Q2R tol) (lp_coefs r) /\
    forall theta,
      let w := cis theta in let wi := cis (- theta) in
      let F := lpQ2C (la_I g) in let G := lpQ2C (la_X g) in
      Cmod (Cminus (Cplus (Cmult (evx CR w wi F) (evx CR wi w F)) (Cmult (evx CR w wi G) (evx CR wi w G))) (RtoC 1))
      <= INR (length (lp_coefs r)) * Q2R tol.
Proof.
  unfold check_completion. intros H. cbv zeta in *. set (n := (len Fin - 1)%Z) in *.
  apply andb_prop in H. destruct H as [H Hres]. apply andb_prop in H. destruct H as [H Heq].
  apply andb_prop in H. destruct H as [HsI HsX].
  apply shape_ok_spec in HsI, HsX. destruct HsI as (ZI & DI & LI). destruct HsX as (ZX & DX & LX).
  apply qlist_eqb_exact_ok in Heq.
  split; [repeat split; assumption|]. split; [repeat split; assumption|].
  destruct (unit_residual (la_I g) (la_X g)) as [r|] eqn:Er; [|discriminate].
  exists r. split; [reflexivity|]. apply all_abs_lt_ok in Hres. split; [exact Hres|].
  intros theta. set (w := cis theta). set (wi := cis (- theta)). set (F := lpQ2C (la_I g)). set (G := lpQ2C (la_X g)).
  assert (Hw : Cmult w wi = RtoC 1) by apply cis_inv.
  assert (Hwi : Cmult wi w = RtoC 1) by (rewrite Cmult_comm; exact Hw).
  (* complex run of the same term *)
  unfold unit_residual in Er.
  destruct (lp_add OpsQ (lp_mul OpsQ (la_I g) (lp_inv OpsQ (la_I g))) (lp_mul OpsQ (la_X g) (lp_inv OpsQ (la_X g)))) as [s|] eqn:Es; [|discriminate].
  cbn [obind] in Er.
  pose proof (lp_rel_rQC (la_I g)) as RF. pose proof (lp_rel_rQC (la_X g)) as RG. fold F in RF. fold G in RG.
  pose proof (lp_mul_rel OpsQ OpsC rQC rQC_0 rQC_add rQC_mul _ _ _ _ RF (lp_inv_rel OpsQ OpsC rQC rQC_0 _ _ RF)) as RFF.
  pose proof (lp_mul_rel OpsQ OpsC rQC rQC_0 rQC_add rQC_mul _ _ _ _ RG (lp_inv_rel OpsQ OpsC rQC rQC_0 _ _ RG)) as RGG.
  pose proof (lp_add_rel OpsQ OpsC rQC rQC_0 rQC_add _ _ _ _ RFF RGG) as Rs. rewrite Es in Rs.
  apply orel_some_l in Rs. destruct Rs as (sC & EsC & RsC).
  assert (RId : lp_rel rQC (lp_Id OpsQ) (lp_Id OpsC)).
  { unfold lp_Id. apply mk_rel; [apply rQC_0|]. constructor; [apply rQC_1 | constructor]. }
  pose proof (lp_sub_rel OpsQ OpsC rQC rQC_0 rQC_add rQC_neg _ _ _ _ RsC RId) as Rr. rewrite Er in Rr.
  apply orel_some_l in Rr. destruct Rr as (rC & ErC & RrC). apply lp_rel_rQC_inv in RrC.
  assert (WF : wf CR F) by (apply wf_nz; exact ZI). assert (WG : wf CR G) by (apply wf_nz; exact ZX).
  pose proof (evx_add CR w wi _ _ _ Hw (wf_mul CR _ _) (wf_mul CR _ _) EsC) as E1.
  rewrite !(evx_mul CR w wi) in E1 by (try exact Hw; try exact WF; try exact WG; apply wf_inv).
  assert (EF : evx CR w wi (lp_inv OpsC F) = evx CR wi w F) by (exact (evx_inv CR wi w F Hwi WF)).
  assert (EG : evx CR w wi (lp_inv OpsC G) = evx CR wi w G) by (exact (evx_inv CR wi w G Hwi WG)).
  rewrite EF, EG in E1.
  pose proof (evx_sub CR w wi _ _ _ Hw (wf_add CR _ _ _ EsC) (wf_mk CR _ _) ErC) as E2.
  assert (EId : evx CR w wi (lp_Id OpsC) = RtoC 1) by (exact (ev_const CR w wi (RtoC 1))).
  assert (E3 : evx CR w wi rC = Cminus (Cplus (Cmult (evx CR w wi F) (evx CR wi w F)) (Cmult (evx CR w wi G) (evx CR wi w G))) (RtoC 1)).
  { etransitivity; [exact E2|]. rewrite E1. apply (f_equal2 Cminus); [reflexivity | exact (ev_const CR w wi (RtoC 1))]. }
  match goal with |- Cmod ?x <= _ => replace x with (evx CR w wi rC) by (exact E3) end.
  eapply Rle_trans; [apply Cmod_evx_le; apply Cmod_cis|].
  subst rC. cbn [lpQ2C lp_coefs]. apply sumR_le_len. exact Hres.
Qed.

(* the precondition of the root split: if the coefficient 1-norm of F is below 1 then
   1 - F(w) F(1/w) stays away from 0 on the whole unit circle, for any (complex) coefficients *)
Theorem no_unit_roots (F : lpoly C) theta : sumR (map Cmod (lp_coefs F)) < 1 ->
  let w := cis theta in let wi := cis (- theta) in
  1 - sumR (map Cmod (lp_coefs F)) * sumR (map Cmod (lp_coefs F))
  <= Cmod (Cminus (RtoC 1) (Cmult (evx CR w wi F) (evx CR wi w F))).
Proof.
  intros H w wi.
  pose proof (Cmod_evx_le w wi F (Cmod_cis _) (Cmod_cis _)) as B1.
  pose proof (Cmod_evx_le wi w F (Cmod_cis _) (Cmod_cis _)) as B2.
  set (N := sumR (map Cmod (lp_coefs F))) in *.
  set (a := evx CR w wi F) in *. set (b := evx CR wi w F) in *.
  pose proof (Cmod_ge_0 a). pose proof (Cmod_ge_0 b).
  assert (Hab : Cmod (Cmult a b) <= N * N) by (rewrite Cmod_mult; nra).
  pose proof (Cmod_triangle (Cminus (RtoC 1) (Cmult a b)) (Cmult a b)) as T.
  replace (Cplus (Cminus (RtoC 1) (Cmult a b)) (Cmult a b)) with (RtoC 1) in T by ring.
  rewrite Cmod_1 in T. lra.
Qed.
