(* Theory/FPClosedT.v — C18: the closed-form certificate check_fp_closed is sound.
   For the element g = A + B iX of the shifted phase list, h(t) = (A(w)+A(1/w))/2 + i (B(w)+B(1/w))/2
   (w = e^{it}) is the Hadamard corner, |h(t)|^2 the success probability at overlap cos^2 t, and
   for every y in [ylo, yhi]:  | |h(t)|^2 - (1 - delta^2 T_L(y sin t)^2) | <= tol  for every t. *)
From Coq Require Import ZArith QArith Qabs Qreals List Reals Lra Lia Bool Psatz.
From Coquelicot Require Import Complex.
From PyqspV Require Import Base.Ops Base.IntervalZ Base.TrigZ Model.LPolyM Model.LAlgM Model.QInst Model.ConvM Model.ResponseM Model.FPSearchM
  Model.Checkers Theory.RingK Theory.LPolyT Theory.LAlgT Theory.IntervalT Theory.TrigT Theory.RelT Theory.CplxT
  Theory.RespT Theory.ConvT Theory.QInstT Theory.QC Theory.CertT Theory.C01T Theory.C04T Theory.C06T Theory.CornerT
  Theory.ChebT Theory.SupT Theory.SupMonoT Theory.FPProbT Theory.ConjT Theory.FPSimT Theory.ChebDblT.
Import ListNotations.
Open Scope R_scope.

(* ---- Laurent polynomials over C with real coefficients *)
Definition creal (z : C) : Prop := snd z = 0.
Definition lp_creal (p : lpoly C) : Prop := Forall creal (lp_coefs p).

Lemma rIC_creal i z : rIC i z -> creal z.
Proof. intros [H _]. exact H. Qed.
Lemma lp_rel_creal pI pC : lp_rel rIC pI pC -> lp_creal pC.
Proof. intros (_ & _ & H). unfold lp_creal. induction H as [|a b l l' Hab _ IH]; constructor; [exact (rIC_creal _ _ Hab) | exact IH]. Qed.

Lemma Cconj_creal z : creal z -> Cconj z = z.
Proof. destruct z as [a b]. unfold creal, Cconj; cbn [fst snd]. intros ->. f_equal. ring. Qed.

Lemma Cconj_peval_creal (l : list C) (x : C) : Forall creal l -> Cconj (@peval CR l x) = @peval CR l (Cconj x).
Proof.
  induction 1 as [|c l Hc _ IH]; cbn [peval]; [apply Cconj_R|].
  change (@kadd CR) with Cplus. change (@kmul CR) with Cmult.
  rewrite Cconj_plus, Cconj_mult, IH, (Cconj_creal c Hc). reflexivity.
Qed.

Lemma Cconj_evx_creal (p : lpoly C) t : lp_creal p ->
  Cconj (evx CR (cis t) (cis (- t)) p) = evx CR (cis (- t)) (cis t) p.
Proof.
  intros Hp. unfold evx. change (@kmul CR) with Cmult.
  rewrite Cconj_mult, Cconj_zpw, (Cconj_peval_creal _ _ Hp), Cconj_mult, !Cconj_cis.
  replace (- - t) with t by ring. reflexivity.
Qed.

(* the symmetrised value half (p(w) + p(1/w)) is real *)
Lemma sym_value_real (p : lpoly C) t : lp_creal p ->
  creal (Cmult halfC (Cplus (evx CR (cis t) (cis (- t)) p) (evx CR (cis (- t)) (cis t) p))).
Proof.
  intros Hp. set (u := evx CR (cis t) (cis (- t)) p). set (v := evx CR (cis (- t)) (cis t) p).
  assert (Huv : Cconj u = v) by (apply Cconj_evx_creal; exact Hp).
  unfold creal. rewrite <- Huv. destruct u as [a b]. unfold halfC, q2c, qhalf1, Cconj, Cmult, Cplus, RtoC; cbn [fst snd]. ring.
Qed.

Lemma creal_sq_sum (a b : C) : creal a -> creal b ->
  Cplus (Cmult a a) (Cmult b b) = RtoC (Cmod (Cplus a (Cmult Ci b)) * Cmod (Cplus a (Cmult Ci b))).
Proof.
  destruct a as [a1 a2], b as [b1 b2]. unfold creal; cbn [snd]. intros -> ->.
  unfold Cmod, Cplus, Cmult, Ci, RtoC; cbn [fst snd].
  rewrite sqrt_sqrt.
  - f_equal; ring.
  - assert (0 <= (a1 + (0 * b1 - 1 * 0)) ^ 2) by apply pow2_ge_0. assert (0 <= (0 + (0 * 0 + 1 * b1)) ^ 2) by apply pow2_ge_0. lra.
Qed.

Lemma ihull_between a b x : Q2R a <= x <= Q2R b -> inI (ihull (iofQ a) (iofQ b)) x.
Proof.
  intros [H1 H2]. pose proof (iofQ_ok a) as [A1 A2]. pose proof (iofQ_ok b) as [B1 B2].
  pose proof sc_pos. unfold inI, ihull; cbn [lo hi]. rewrite IZR_min, IZR_max.
  split.
  - eapply Rle_trans; [apply Rmin_l|]. nra.
  - eapply Rle_trans; [|apply Rmax_r]. nra.
Qed.

(* ---- the shifted phase list over C *)
Definition shiftC (p : Q) : C * C := (RtoC (sin (Q2R p)), RtoC (- cos (Q2R p))).
Definition shiftedC (phis : list Q) : list (C * C) := (RtoC 0, RtoC 1) :: map shiftC phis ++ [(RtoC 1, RtoC 0)].

Lemma shifted_cs_rel phis : Forall2 (cs_rel rIC) (shifted_cs phis) (shiftedC phis).
Proof.
  unfold shifted_cs, shiftedC. constructor.
  - split; cbn [fst snd]; apply rIC_RtoC; [apply izero_ok | apply ione_ok].
  - apply Forall2_app.
    + induction phis as [|q l IH]; cbn [map]; constructor; [|exact IH].
      destruct (cos_sin_encl_ok q) as [Hc Hs]. split; cbn [fst snd shiftC]; apply rIC_RtoC; [exact Hs | apply ineg_ok; exact Hc].
    + constructor; [|constructor]. split; cbn [fst snd]; apply rIC_RtoC; [apply ione_ok | apply izero_ok].
Qed.

(* ---- T_L as the table polynomial (used by the bracket check) *)
Lemma chebsum_unit n : forall k x, chebsum RR false (repeat 0 n ++ [1]) k x = @peval RR (chebP OpsRR false (k + n)) x.
Proof.
  induction n as [|n IH]; intros k x; cbn [repeat app chebsum]; change (@OpsK RR) with OpsRR.
  - rewrite Nat.add_0_r. cbn [kadd kmul k0 RR K]. match goal with |- @eq _ ?a ?b => change (@eq R a b) end. ring.
  - rewrite IH. replace (k + S n)%nat with (S k + n)%nat by lia. cbn [kadd kmul k0 RR K].
    match goal with |- @eq _ ?a ?b => change (@eq R a b) end. ring.
Qed.

Lemma TL_table L x : cheb_series (unitvec L) x = pevalRl (map Q2R (chebP OpsQ false L)) x.
Proof.
  rewrite cheb_series_chebsum. unfold unitvec. rewrite chebsum_unit. cbn [Nat.add]. rewrite peval_RR.
  f_equal. exact (F2_rQR_inv _ _ (chebP_rQR L)).
Qed.

(* w - 1/w = 2 i sin t *)
Definition wdiffC : lpoly C := LP (-1)%Z [RtoC (- 1); RtoC 1] false.
Lemma wdiff_rel : lp_rel rIC wdiff_poly wdiffC.
Proof.
  unfold lp_rel, wdiff_poly, wdiffC; cbn [lp_dmin lp_isz lp_coefs]. repeat split.
  constructor; [apply rIC_RtoC, ineg_ok, ione_ok|]. constructor; [apply rIC_RtoC, ione_ok|]. constructor.
Qed.
Lemma wdiff_wf : wf CR wdiffC.
Proof. intros Hz; cbn in Hz; discriminate. Qed.
Lemma wdiff_ev t : evx CR (cis t) (cis (- t)) wdiffC = Cmult Ci (RtoC (2 * sin t)).
Proof.
  unfold evx, wdiffC; cbn [lp_dmin lp_coefs peval].
  assert (Hz : @zpw CR (cis t) (cis (- t)) (-1) = cis (- t)).
  { unfold zpw. cbn. change (Pos.to_nat 1) with 1%nat. cbn [pw]. cbn [kmul k1 CR]. match goal with |- @eq _ ?a ?b => change (@eq C a b) end. ring. }
  rewrite Hz. cbn [kmul kadd k0 CR].
  unfold cis, Cmult, Cplus, Ci, RtoC; cbn [fst snd]. rewrite cos_neg, sin_neg.
  pose proof (sin2_cos2 t) as H. unfold Rsqr in H.
  f_equal.
  - replace (cos t * cos t) with (1 - sin t * sin t) by lra. ring.
  - replace (2 * sin t) with (sin t * (sin t * sin t + cos t * cos t) + sin t) by (rewrite H; ring). ring.
Qed.

Lemma corner_diff_wf (h : C) (A F d : lpoly C) : corner_diff OpsC h A F = Some d -> wf CR d.
Proof.
  unfold corner_diff. destruct (lp_add OpsC A (lp_inv OpsC A)) as [s|]; [|discriminate]. cbn [obind].
  intros H. exact (wf_sub CR _ _ _ H).
Qed.

Definition fp_closed_form (d : nat) (delta y t : R) : R :=
  1 - delta * delta * (cheb_series (unitvec (2 * d + 1)) (y * sin t) * cheb_series (unitvec (2 * d + 1)) (y * sin t)).

Theorem check_fp_closed_corner d phis delta ylo yhi tol :
  check_fp_closed d phis delta ylo yhi tol = true ->
  length phis = (2 * d)%nat /\
  exists gC, la_from_angles OpsC (shiftedC phis) = Some gC /\
  forall t y, Q2R ylo <= y <= Q2R yhi ->
    Rabs (Cmod (hcorner (la_I gC) (la_X gC) t) * Cmod (hcorner (la_I gC) (la_X gC) t)
          - fp_closed_form d (Q2R delta) y t) <= Q2R tol.
Proof.
  unfold check_fp_closed. intros H. apply andb_prop in H. destruct H as [H Hn]. apply andb_prop in H. destruct H as [Hl _].
  apply Nat.eqb_eq in Hl. split; [exact Hl|].
  destruct (fp_closed_diff d phis delta ylo yhi) as [df|] eqn:Edf; [|discriminate].
  apply scaled_le_q_ok in Hn.
  unfold fp_closed_diff in Edf. cbv zeta in Edf.
  set (L := (2 * d + 1)%nat) in *.
  destruct (la_from_angles OpsI (shifted_cs phis)) as [g|] eqn:Eg; [|discriminate]. cbn [obind] in Edf.
  destruct (sym_part_I (la_I g)) as [sa|] eqn:Esa; [|discriminate]. cbn [obind] in Edf.
  destruct (sym_part_I (la_X g)) as [sb|] eqn:Esb; [|discriminate]. cbn [obind] in Edf.
  destruct (lp_add OpsI (lp_mul OpsI sa sa) (lp_mul OpsI sb sb)) as [p|] eqn:Ep; [|discriminate]. cbn [obind] in Edf.
  set (yI := ihull (iofQ ylo) (iofQ yhi)) in *.
  destruct (v_pair OpsI (Pos.of_nat L) (lp_scale OpsI (imul (iofQ qhalf1) yI) wdiff_poly)) as [vv|] eqn:Evv; [|discriminate].
  cbn [obind] in Edf.
  set (d2I := imul (iofQ delta) (iofQ delta)) in *.
  destruct (lp_add OpsI (lp_Id OpsI) (lp_scale OpsI d2I (lp_mul OpsI (fst vv) (fst vv)))) as [c|] eqn:Ec; [|discriminate].
  cbn [obind] in Edf.
  (* the complex run *)
  pose proof (la_from_angles_rel OpsI OpsC rIC rIC_0 rIC_1 rIC_add rIC_mul rIC_neg _ _ (shifted_cs_rel phis)) as R1.
  rewrite Eg in R1. apply orel_some_l in R1. destruct R1 as (gC & EgC & [RI RX]).
  exists gC. split; [exact EgC|]. intros t y Hyr.
  set (w := cis t). set (wi := cis (- t)).
  assert (Hw : Cmult w wi = RtoC 1) by apply cis_inv.
  unfold shiftedC in EgC.
  destruct (from_angles_sound CR w wi Ci Hw Ci_Ci _ _ gC EgC) as [_ [WgI WgX]].
  assert (Rz : lp_rel rIC (mk OpsI [] 0) (mk OpsC [] 0)) by (apply (mk_rel OpsI OpsC rIC rIC_0); constructor).
  unfold sym_part_I in Esa, Esb.
  pose proof (corner_diff_rel OpsI OpsC rIC rIC_0 rIC_add rIC_mul rIC_neg _ _ _ _ _ _ half_rIC RI Rz) as RA.
  rewrite Esa in RA. apply orel_some_l in RA. destruct RA as (saC & EsaC & RsaC).
  pose proof (corner_diff_rel OpsI OpsC rIC rIC_0 rIC_add rIC_mul rIC_neg _ _ _ _ _ _ half_rIC RX Rz) as RB.
  rewrite Esb in RB. apply orel_some_l in RB. destruct RB as (sbC & EsbC & RsbC).
  pose proof (lp_add_rel OpsI OpsC rIC rIC_0 rIC_add _ _ _ _
                (lp_mul_rel OpsI OpsC rIC rIC_0 rIC_add rIC_mul _ _ _ _ RsaC RsaC)
                (lp_mul_rel OpsI OpsC rIC rIC_0 rIC_add rIC_mul _ _ _ _ RsbC RsbC)) as RP.
  rewrite Ep in RP. apply orel_some_l in RP. destruct RP as (pC & EpC & RpC).
  assert (HyI : inI yI y) by (apply ihull_between; exact Hyr).
  set (hy := Q2R qhalf1 * y).
  assert (Hhy : rIC (imul (iofQ qhalf1) yI) (RtoC hy)) by (apply rIC_RtoC, imul_ok; [apply iofQ_ok | exact HyI]).
  set (X1C := lp_scale OpsC (RtoC hy) wdiffC).
  assert (RX1 : lp_rel rIC (lp_scale OpsI (imul (iofQ qhalf1) yI) wdiff_poly) X1C)
    by (apply (lp_scale_rel OpsI OpsC rIC rIC_0 rIC_mul); [exact Hhy | exact wdiff_rel]).
  pose proof (v_pair_rel OpsI OpsC rIC rIC_0 rIC_1 rIC_add rIC_mul rIC_neg (Pos.of_nat L) _ _ RX1) as RV.
  rewrite Evv in RV. apply orel_some_l in RV. destruct RV as (vvC & EvvC & [RvL _]).
  assert (Hd2 : rIC d2I (RtoC (Q2R delta * Q2R delta))) by (apply rIC_RtoC, imul_ok; apply iofQ_ok).
  assert (RId : lp_rel rIC (lp_Id OpsI) (lp_Id OpsC)).
  { unfold lp_Id. apply (mk_rel OpsI OpsC rIC rIC_0). constructor; [exact rIC_1 | constructor]. }
  pose proof (lp_add_rel OpsI OpsC rIC rIC_0 rIC_add _ _ _ _ RId
     (lp_scale_rel OpsI OpsC rIC rIC_0 rIC_mul _ _ _ _ Hd2
        (lp_mul_rel OpsI OpsC rIC rIC_0 rIC_add rIC_mul _ _ _ _ RvL RvL))) as RC.
  rewrite Ec in RC. apply orel_some_l in RC. destruct RC as (cC & EcC & RcC).
  pose proof (lp_sub_rel OpsI OpsC rIC rIC_0 rIC_add rIC_neg _ _ _ _ RpC RcC) as RD.
  rewrite Edf in RD. apply orel_some_l in RD. destruct RD as (dfC & EdfC & RdfC).
  (* evaluations on the unit circle *)
  pose proof (corner_diff_wf _ _ _ _ EsaC) as WsaC. pose proof (corner_diff_wf _ _ _ _ EsbC) as WsbC.
  pose proof (corner_diff_ev _ _ _ w wi Hw WgI (wf_mk CR [] 0) EsaC) as Ea.
  pose proof (corner_diff_ev _ _ _ w wi Hw WgX (wf_mk CR [] 0) EsbC) as Eb.
  assert (Ez : evx CR w wi (mk (@OpsK CR) [] 0) = RtoC 0).
  { rewrite evx_mk. cbn [peval]. cbn [kmul k0 CR K]. match goal with |- @eq _ ?a ?b => change (@eq C a b) end. ring. }
  rewrite Ez in Ea, Eb.
  set (a := Cmult halfC (Cplus (evx CR w wi (la_I gC)) (evx CR wi w (la_I gC)))) in *.
  set (b := Cmult halfC (Cplus (evx CR w wi (la_X gC)) (evx CR wi w (la_X gC)))) in *.
  assert (Ha : creal a) by (apply sym_value_real; exact (lp_rel_creal _ _ RI)).
  assert (Hb : creal b) by (apply sym_value_real; exact (lp_rel_creal _ _ RX)).
  assert (Eh : hcorner (la_I gC) (la_X gC) t = Cplus a (Cmult Ci b)).
  { unfold hcorner. rewrite hC_sq_half. fold w wi. unfold a, b. ring. }
  rewrite Eh.
  pose proof (evx_add CR w wi _ _ _ Hw (wf_mul CR saC saC) (wf_mul CR sbC sbC) EpC) as EP.
  rewrite (evx_mul CR w wi saC saC Hw WsaC WsaC), (evx_mul CR w wi sbC sbC Hw WsbC WsbC) in EP.
  assert (EP' : evx CR w wi pC = RtoC (Cmod (Cplus a (Cmult Ci b)) * Cmod (Cplus a (Cmult Ci b)))).
  { rewrite <- (creal_sq_sum a b Ha Hb). etransitivity; [exact EP|]. rewrite Ea, Eb.
    cbn [kadd kmul CR K]. unfold Cminus, a, b. match goal with |- @eq _ ?x ?y => change (@eq C x y) end. ring. }
  (* the closed form *)
  set (x := y * sin t).
  assert (WX1 : wf CR X1C) by apply wf_scale.
  assert (EX1 : evx CR w wi X1C = Cmult Ci (RtoC x)).
  { unfold X1C. etransitivity; [exact (evx_scale CR w wi _ _ wdiff_wf)|]. unfold w, wi. rewrite wdiff_ev.
    cbn [kmul CR K]. unfold x, hy. replace (Q2R qhalf1) with (/ 2) by (unfold Q2R, qhalf1; cbn; lra).
    rewrite !RtoC_mult. match goal with |- @eq _ ?u ?v => change (@eq C u v) end.
    assert (H2 : Cmult (RtoC (/ 2)) (RtoC 2) = RtoC 1) by (rewrite <- RtoC_mult; f_equal; lra).
    transitivity (Cmult (Cmult (RtoC (/ 2)) (RtoC 2)) (Cmult Ci (Cmult (RtoC y) (RtoC (sin t))))); [ring | rewrite H2; ring]. }
  assert (HL : Pos.to_nat (Pos.of_nat L) = L) by (apply Nat2Pos.id; unfold L; lia).
  destruct (v_pair_sound w wi Hw x X1C WX1 EX1 (Pos.of_nat L) vvC EvvC) as (EvL & _ & WvL & _).
  rewrite HL in EvL. fold (Tn L x) in *.
  pose proof (evx_add CR w wi _ _ _ Hw (wf_mk CR _ _) (wf_scale CR _ _) EcC) as EC.
  assert (EC' : evx CR w wi cC = RtoC (fp_closed_form d (Q2R delta) y t)).
  { etransitivity; [exact EC|].
    transitivity (Cplus (RtoC 1) (Cmult (RtoC (Q2R delta * Q2R delta))
                    (Cmult (Cmult (ipow L) (RtoC (Tn L x))) (Cmult (ipow L) (RtoC (Tn L x)))))).
    - apply (f_equal2 Cplus); [exact (ev_const CR w wi _)|].
      etransitivity; [exact (evx_scale CR w wi _ _ (wf_mul CR _ _))|]. apply (f_equal (Cmult _)).
      etransitivity; [exact (evx_mul CR w wi _ _ Hw WvL WvL)|]. apply (f_equal2 Cmult); exact EvL.
    - unfold fp_closed_form. fold L. fold x. unfold Tn.
      set (T := cheb_series (unitvec L) x).
      transitivity (Cplus (RtoC 1) (Cmult (RtoC (Q2R delta * Q2R delta)) (Cmult (Cmult (ipow L) (ipow L)) (Cmult (RtoC T) (RtoC T)))));
        [match goal with |- @eq _ ?u ?v => change (@eq C u v) end; ring|].
      rewrite ipow_sq. unfold sgR. replace (Nat.even L) with false by (unfold L; rewrite Nat.add_comm, Nat.even_add_mul_2; reflexivity).
      rewrite <- !RtoC_mult, <- RtoC_plus. f_equal. ring. }
  pose proof (evx_sub CR w wi _ _ _ Hw (wf_add CR _ _ _ EpC) (wf_add CR _ _ _ EcC) EdfC) as ED.
  rewrite EP', EC' in ED.
  pose proof (evx_bound_from_intervals w wi df dfC (Cmod_cis _) (Cmod_cis _) RdfC) as Bd.
  assert (EDm : Cmod (evx CR w wi dfC) = Rabs (Cmod (Cplus a (Cmult Ci b)) * Cmod (Cplus a (Cmult Ci b)) - fp_closed_form d (Q2R delta) y t)).
  { rewrite ED. cbn [ksub CR]. unfold Cminus. rewrite <- RtoC_opp, <- RtoC_plus. apply Cmod_R. }
  rewrite EDm in Bd. pose proof sc_pos. apply Rmult_le_reg_r with sc; [assumption|]. lra.
Qed.

(* ---- the statement about the reflection sequence itself *)
Definition fp_ampR (a : R) (phis : list Q) : C :=
  fp_amplitude OpsC Ci (RtoC a) (RtoC (sqrt (1 - a * a))) (map csC phis).

Lemma fp_ampC_is_ampR a phis : fp_ampC a phis = fp_ampR (Q2R a) phis.
Proof. reflexivity. Qed.

Lemma shiftC_shiftcs phis : map shiftC phis = map shiftcs (map csC phis).
Proof.
  rewrite map_map. apply map_ext. intros p. unfold shiftC, shiftcs, csC; cbn [fst snd]. rewrite RtoC_opp. reflexivity.
Qed.

Theorem check_fp_closed_sound d phis delta ylo yhi tol :
  check_fp_closed d phis delta ylo yhi tol = true ->
  length phis = (2 * d)%nat /\
  forall a y, -1 <= a <= 1 -> Q2R ylo <= y <= Q2R yhi ->
    Rabs (Cmod (fp_ampR a phis) * Cmod (fp_ampR a phis)
          - (1 - Q2R delta * Q2R delta *
                 (cheb_series (unitvec (2 * d + 1)) (y * sqrt (1 - a * a)) * cheb_series (unitvec (2 * d + 1)) (y * sqrt (1 - a * a)))))
    <= Q2R tol.
Proof.
  intros H. destruct (check_fp_closed_corner _ _ _ _ _ _ H) as (Hl & gC & EgC & Hall). split; [exact Hl|].
  intros a y Ha Hy. set (t := acos a).
  assert (Ec : cos t = a) by (apply cos_acos; exact Ha).
  assert (Es : sin t = sqrt (1 - a * a)) by (unfold t; rewrite sin_acos by exact Ha; f_equal; unfold Rsqr; ring).
  specialize (Hall t y Hy). unfold fp_closed_form in Hall. rewrite Es in Hall.
  assert (Eamp : Cmod (fp_ampR a phis) = Cmod (hcorner (la_I gC) (la_X gC) t)).
  { unfold fp_ampR. rewrite fp_amplitude_modulus. rewrite <- shiftC_shiftcs. f_equal.
    unfold shiftedC in EgC.
    pose proof (resp_wx_z_is_hadamard_corner CR Ci hC Ci_Ci hC_hC (RtoC (cos t)) (RtoC (sin t)) _ _ gC (unit_as t) EgC) as E.
    unfold meas_z in E. rewrite Ec, Es in E. etransitivity; [exact E|]. unfold hcorner.
    change (@kadd CR (RtoC a) (@kmul CR Ci (RtoC (sqrt (1 - a * a))))) with (Cplus (RtoC a) (Cmult Ci (RtoC (sqrt (1 - a * a))))).
    change (@ksub CR (RtoC a) (@kmul CR Ci (RtoC (sqrt (1 - a * a))))) with (Cminus (RtoC a) (Cmult Ci (RtoC (sqrt (1 - a * a))))).
    rewrite <- (cis_split_neg t), <- (cis_split t), Ec, Es. reflexivity. }
  rewrite Eamp. exact Hall.
Qed.

(* ---- the bracket of y = T_{1/L}(1/delta): T_L is strictly increasing on [1, oo) *)
Lemma cheb_unit_mono n : forall x x' tk tk1 tk' tk1', 1 <= x <= x' ->
  0 <= tk' - tk <= tk1' - tk1 -> 1 <= tk <= tk1 ->
  tk' - tk <= cheb_sum_R (repeat 0 n ++ [1]) x' tk' tk1' - cheb_sum_R (repeat 0 n ++ [1]) x tk tk1.
Proof.
  induction n as [|n IH]; intros x x' tk tk1 tk' tk1' Hx HD HT; cbn [repeat app cheb_sum_R]; [lra|].
  assert (H1 : 0 <= tk1' - tk1 <= ((x' + x') * tk1' - tk') - ((x + x) * tk1 - tk)) by nra.
  assert (H2 : 1 <= tk1 <= (x + x) * tk1 - tk) by nra.
  pose proof (IH x x' tk1 ((x + x) * tk1 - tk) tk1' ((x' + x') * tk1' - tk') Hx H1 H2). lra.
Qed.

Theorem TL_strict_mono L x x' : (1 <= L)%nat -> 1 <= x <= x' ->
  x' - x <= cheb_series (unitvec L) x' - cheb_series (unitvec L) x.
Proof.
  intros HL Hx. destruct L as [|L]; [lia|]. unfold cheb_series, unitvec. cbn [repeat app cheb_sum_R].
  assert (H1 : 0 <= x' - x <= ((x' + x') * x' - 1) - ((x + x) * x - 1)) by nra.
  assert (H2 : 1 <= x <= (x + x) * x - 1) by nra.
  pose proof (cheb_unit_mono L x x' x ((x + x) * x - 1) x' ((x' + x') * x' - 1) Hx H1 H2). lra.
Qed.

Lemma horner_q_ok (tl : list Q) (x : Q) :
  Q2R (fold_right (fun c acc => qadd c (Qmult x acc)) 0%Q tl) = pevalRl (map Q2R tl) (Q2R x).
Proof.
  induction tl as [|c tl IH]; cbn [fold_right map pevalRl]; [apply Q2R_0'|].
  rewrite qadd_ok, Q2R_mult, IH. reflexivity.
Qed.

Theorem check_y_bracket_sound d delta ylo yhi : check_y_bracket d delta ylo yhi = true ->
  forall y, 1 <= y -> Q2R delta * cheb_series (unitvec (2 * d + 1)) y = 1 -> Q2R ylo <= y <= Q2R yhi.
Proof.
  unfold check_y_bracket. intros H y Hy1 HT.
  repeat (apply andb_prop in H; let H' := fresh "B" in destruct H as [H H']).
  apply Qltb_ok in H. apply Qleb_ok in B, B0, B1, B2.
  rewrite Q2R_mult, horner_q_ok, <- TL_table in B, B0.
  rewrite Q2R_0' in H. replace (Q2R 1) with 1 in * by (unfold Q2R; cbn; lra).
  assert (HL : (1 <= 2 * d + 1)%nat) by lia.
  split.
  - destruct (Rle_or_lt (Q2R ylo) y) as [|Hlt]; [assumption|].
    pose proof (TL_strict_mono _ y (Q2R ylo) HL (conj Hy1 (Rlt_le _ _ Hlt))). nra.
  - destruct (Rle_or_lt y (Q2R yhi)) as [|Hlt]; [assumption|].
    assert (1 <= Q2R yhi) by lra.
    pose proof (TL_strict_mono _ (Q2R yhi) y HL (conj H0 (Rlt_le _ _ Hlt))). nra.
Qed.

(* ---- C18, all overlaps: the closed form with y = T_{1/L}(1/delta) characterised by y >= 1, delta T_L(y) = 1 *)
Theorem fp_closed_form_certificate d phis delta ylo yhi tol :
  check_fp_closed d phis delta ylo yhi tol = true -> check_y_bracket d delta ylo yhi = true ->
  length phis = (2 * d)%nat /\
  forall y, 1 <= y -> Q2R delta * cheb_series (unitvec (2 * d + 1)) y = 1 ->
  forall lam, 0 <= lam <= 1 ->
    Rabs (Cmod (fp_ampR (sqrt lam) phis) * Cmod (fp_ampR (sqrt lam) phis)
          - (1 - Q2R delta * Q2R delta *
                 (cheb_series (unitvec (2 * d + 1)) (y * sqrt (1 - lam)) * cheb_series (unitvec (2 * d + 1)) (y * sqrt (1 - lam)))))
    <= Q2R tol.
Proof.
  intros H1 H2. destruct (check_fp_closed_sound _ _ _ _ _ _ H1) as [Hl Hall]. split; [exact Hl|].
  intros y Hy HT lam Hlam.
  pose proof (check_y_bracket_sound _ _ _ _ H2 y Hy HT) as Hyb.
  assert (Hs : sqrt lam * sqrt lam = lam) by (apply sqrt_sqrt; lra).
  assert (Ha : -1 <= sqrt lam <= 1).
  { pose proof (sqrt_pos lam). split; [lra|]. rewrite <- sqrt_1. apply sqrt_le_1_alt. lra. }
  pose proof (Hall (sqrt lam) y Ha Hyb) as B. rewrite Hs in B. exact B.
Qed.
