(* Theory/ConvT.v — PolynomialToLaurentForm denotes p((w + 1/w)/2), in any commutative ring
   in which 2 is invertible. *)
From Coq Require Import ZArith List Ring Lia Bool.
From PyqspV Require Import Base.Ops Model.LPolyM Model.ConvM Theory.RingK Theory.LPolyT.
Import ListNotations.

Section ConvT.
  Variable K : CRing.
  Add Ring Kr5 : (Kring K).
  Notation "x + y" := (kadd x y).
  Notation "x * y" := (kmul x y).
  Notation "x - y" := (ksub x y).
  Notation "- x" := (kopp x).
  Notation O := (@OpsK K).
  Variables w wi half : K.
  Hypothesis wwi : w * wi = k1.
  Hypothesis half2 : half + half = k1.
  Variable isz0 : K -> bool.
  Hypothesis isz0_ok : forall c, isz0 c = true -> c = k0.

  Notation ev := (evx K w wi).
  Definition xa : K := (w + wi) * half.

  Lemma ev_base : ev (ptlf_base O half) = xa.
  Proof.
    unfold ptlf_base. rewrite evx_mk. cbn [peval]. rewrite zpw_m1. unfold xa.
    transitivity (half * wi + (w * wi) * w * half); [ring | rewrite wwi; ring].
  Qed.

  Lemma wf_pow j : wf K (lp_pow O (ptlf_base O half) j).
  Proof. destruct j; cbn [lp_pow]; [apply wf_mk | apply wf_mul]. Qed.

  Lemma ev_pow j : ev (lp_pow O (ptlf_base O half) j) = pw xa (S j).
  Proof.
    induction j as [|j IH]; cbn [lp_pow].
    - rewrite ev_base. cbn [pw]. ring.
    - assert (Wb : wf K (ptlf_base O half)) by apply wf_mk.
      rewrite (evx_mul K w wi _ _ wwi (wf_pow j) Wb), IH, ev_base.
      cbn [pw]. ring.
  Qed.

  Lemma ptlf_aux_sound coefs : forall k acc r, wf K acc ->
    ptlf_aux O half isz0 coefs k acc = Some r ->
    ev r = ev acc + pw xa k * peval coefs xa /\ wf K r.
  Proof.
    induction coefs as [|c cs IH]; intros k acc r Wa H; cbn [ptlf_aux] in H.
    - injection H as <-. split; [cbn [peval]; ring | exact Wa].
    - destruct (isz0 c) eqn:Ez.
      + destruct (IH _ _ _ Wa H) as [E W]. split; [|exact W].
        rewrite E, (isz0_ok c Ez). cbn [pw peval]. ring.
      + destruct (lp_add O acc _) as [acc'|] eqn:Ea; [|discriminate]. cbn [obind] in H.
        assert (Wn : wf K (match k with 0%nat => mk O [d1 O] 0 | S j => lp_pow O (ptlf_base O half) j end)).
        { destruct k; [apply wf_mk | apply wf_pow]. }
        assert (En : ev (match k with 0%nat => mk O [d1 O] 0 | S j => lp_pow O (ptlf_base O half) j end) = pw xa k).
        { destruct k; [|apply ev_pow]. rewrite evx_mk. cbn [peval pw OpsK d1]. rewrite zpw_0. ring. }
        pose proof (evx_add K w wi _ _ _ wwi Wa (wf_scale K c _) Ea) as E1.
        rewrite evx_scale, En in E1 by exact Wn.
        destruct (IH _ _ _ (wf_add K _ _ _ Ea) H) as [E W]. split; [|exact W].
        rewrite E, E1. cbn [pw peval]. ring.
  Qed.

  Theorem ptlf_sound coefs r : ptlf O half isz0 coefs = Some r -> ev r = peval coefs xa /\ wf K r.
  Proof.
    unfold ptlf. intros H. destruct (ptlf_aux_sound coefs 0 _ r (wf_mk K _ _) H) as [E W].
    split; [|exact W]. rewrite E, evx_mk. cbn [peval pw]. ring.
  Qed.
End ConvT.
