(* Theory/FftT.v — C12: the sampling pipeline of SymmetricQSPProtocol.gen_jacobian.
   The routine evaluates its columns (d derivative columns and the value column) at the d+1 angles theta_n = n pi / (2d),
   extends the samples to the 4d equispaced angles of the full circle by the two symmetries
       g(pi - t) = (-1)^parity g(t),   g(2 pi - t) = g(t),
   takes the real part of the DFT over the 4d rows, doubles rows 1 .. 2d-1, divides by 4d and keeps the rows
   parity, parity+2, ..., < 2d.  This file models that pipeline over the reals and proves: when the sampled column is a
   cosine polynomial  g(t) = sum_{i<d} c_i cos((2i+parity) t)  (which Im<0|U(cos t)|0> and each of its phase derivatives are),
   the pipeline returns exactly c_0 .. c_{d-1} — d+1 samples suffice, no aliasing.  *)
From Coq Require Import ZArith List Reals Lra Lia Bool Psatz PeanoNat.
From PyqspV Require Import Theory.SupT Theory.FPProbT Theory.ChebDblT Theory.AccHiT Theory.DctT.
Import ListNotations.
Open Scope R_scope.

(* ---- sum_{m<N} cos(m alpha) *)
Lemma sum_cos_arith N alpha :
  2 * sin (alpha / 2) * sumf (fun m => cos (INR m * alpha)) N = sin ((INR N - / 2) * alpha) + sin (alpha / 2).
Proof.
  induction N as [|N IH]; cbn [sumf].
  - cbn [INR]. replace ((0 - / 2) * alpha) with (- (alpha / 2)) by field. rewrite sin_neg. ring.
  - rewrite Rmult_plus_distr_l, IH. rewrite S_INR.
    replace ((INR N + 1 - / 2) * alpha) with (INR N * alpha + alpha / 2) by field.
    replace ((INR N - / 2) * alpha) with (INR N * alpha - alpha / 2) by field.
    rewrite sin_plus, sin_minus. ring.
Qed.

Definition ang (N m : nat) : R := 2 * PI * INR m / INR N.

Lemma circle_cos_sum_zero N q : (0 < q)%nat -> (q < N)%nat -> sumf (fun m => cos (INR q * ang N m)) N = 0.
Proof.
  intros Hq HqN. assert (HN : 0 < INR N) by (apply lt_0_INR; lia).
  set (alpha := 2 * PI * INR q / INR N).
  assert (Hh : 0 < alpha / 2 < PI).
  { unfold alpha. pose proof PI_RGT_0. assert (0 < INR q) by (apply lt_0_INR; exact Hq). assert (INR q < INR N) by (apply lt_INR; exact HqN).
    replace (2 * PI * INR q / INR N / 2) with (PI * INR q / INR N) by (field; lra).
    split.
    - apply Rdiv_lt_0_compat; [nra | exact HN].
    - apply (Rmult_lt_reg_r (INR N)); [exact HN|]. unfold Rdiv. rewrite Rmult_assoc, Rinv_l by lra. nra. }
  pose proof (sin_gt_0 (alpha / 2) (proj1 Hh) (proj2 Hh)) as Hs.
  pose proof (sum_cos_arith N alpha) as E.
  assert (E2 : sin ((INR N - / 2) * alpha) = - sin (alpha / 2)).
  { replace ((INR N - / 2) * alpha) with (- (alpha / 2) + 2 * INR q * PI) by (unfold alpha; field; lra).
    rewrite sin_period, sin_neg. reflexivity. }
  rewrite E2 in E.
  assert (Es : sumf (fun m => cos (INR q * ang N m)) N = sumf (fun m => cos (INR m * alpha)) N).
  { apply sumf_ext. intros m _. f_equal. unfold ang, alpha. field. lra. }
  rewrite Es. nra.
Qed.

(* ---- orthogonality of the cosines on the N equispaced angles of the circle, below the aliasing limit *)
Definition cgram (N j k : nat) : R := sumf (fun m => cos (INR j * ang N m) * cos (INR k * ang N m)) N.

Lemma cgram_cos N j k : (k <= j)%nat ->
  cgram N j k = / 2 * sumf (fun m => cos (INR (j + k) * ang N m)) N + / 2 * sumf (fun m => cos (INR (j - k) * ang N m)) N.
Proof.
  intros Hkj. unfold cgram. rewrite <- !sumf_scal, <- sumf_plus. apply sumf_ext. intros m _.
  rewrite plus_INR, minus_INR by exact Hkj.
  replace ((INR j + INR k) * ang N m) with (INR j * ang N m + INR k * ang N m) by ring.
  replace ((INR j - INR k) * ang N m) with (INR j * ang N m - INR k * ang N m) by ring.
  rewrite cos_plus, cos_minus. lra.
Qed.

Lemma cgram_sym N j k : cgram N j k = cgram N k j.
Proof. unfold cgram. apply sumf_ext. intros; ring. Qed.

Theorem circle_orthogonality N j k : (j + k < N)%nat ->
  cgram N j k = if Nat.eqb j k then (if Nat.eqb j 0 then INR N else INR N / 2) else 0.
Proof.
  assert (G : forall a b, (b <= a)%nat -> (a + b < N)%nat ->
              cgram N a b = if Nat.eqb a b then (if Nat.eqb a 0 then INR N else INR N / 2) else 0).
  { intros a b Hba Hab. rewrite (cgram_cos N a b Hba).
    destruct (Nat.eqb_spec a b) as [->|Hne].
    - rewrite Nat.sub_diag. destruct (Nat.eqb_spec b 0) as [->|Hb0].
      + cbn [Nat.add INR]. rewrite (sumf_ext _ (fun _ => 1)) by (intros; rewrite Rmult_0_l; apply cos_0). rewrite sumf_const. lra.
      + rewrite (circle_cos_sum_zero N (b + b)) by lia.
        cbn [INR]. rewrite (sumf_ext _ (fun _ => 1)) by (intros; rewrite Rmult_0_l; apply cos_0). rewrite sumf_const. lra.
    - rewrite (circle_cos_sum_zero N (a + b)) by lia. rewrite (circle_cos_sum_zero N (a - b)) by lia. lra. }
  intros H. destruct (Nat.le_ge_cases k j) as [Hle|Hle].
  - apply G; [exact Hle | exact H].
  - rewrite cgram_sym, (G k j Hle) by lia. rewrite (Nat.eqb_sym j k).
    destruct (Nat.eqb_spec k j) as [->|]; reflexivity.
Qed.

(* ---- reflections of cos(q t) *)
Lemma cos_nat_PI q : cos (INR q * PI) = if Nat.even q then 1 else -1.
Proof.
  induction q as [|q IH].
  - cbn [INR Nat.even]. rewrite Rmult_0_l. apply cos_0.
  - rewrite S_INR. replace ((INR q + 1) * PI) with (INR q * PI + PI) by ring. rewrite neg_cos, IH.
    rewrite Nat.even_succ, <- Nat.negb_even. destruct (Nat.even q); cbn [negb]; lra.
Qed.
Lemma sin_nat_PI q : sin (INR q * PI) = 0.
Proof. apply sin_eq_0_1. exists (Z.of_nat q). rewrite <- INR_IZR_INZ. reflexivity. Qed.
Lemma cos_reflect_PI q t : cos (INR q * (PI - t)) = (if Nat.even q then 1 else -1) * cos (INR q * t).
Proof.
  replace (INR q * (PI - t)) with (INR q * PI - INR q * t) by ring.
  rewrite cos_minus, cos_nat_PI, sin_nat_PI. ring.
Qed.
Lemma cos_reflect_2PI q t : cos (INR q * (2 * PI - t)) = cos (INR q * t).
Proof.
  replace (INR q * (2 * PI - t)) with (- (INR q * t) + 2 * INR q * PI) by ring.
  rewrite cos_period, cos_neg. reflexivity.
Qed.

(* ---- the pipeline *)
Section Pipe.
  Variables (d : nat) (odd : bool) (s : nat -> R).     (* s n = the column sampled at theta_n = n pi/(2d), n <= d *)
  Hypothesis Hd : (0 < d)%nat.
  Definition par : nat := if odd then 1%nat else 0%nat.
  Definition sgp : R := if odd then -1 else 1.
  (* rows 0..4d-1 after the two mirror steps:  M[d+1:dd+1] = (-1)^parity M[d-1::-1];  M[dd+1:] = M[dd-1:0:-1] *)
  Definition half_ext (m : nat) : R := if (m <=? d)%nat then s m else sgp * s (2 * d - m)%nat.
  Definition ext (m : nat) : R := if (m <=? 2 * d)%nat then half_ext m else half_ext (4 * d - m).
  (* real part of numpy.fft.fft over the rows: A_k = sum_m a_m exp(-2 pi i m k / n) *)
  Definition dft_re (k : nat) : R := sumf (fun m => ext m * cos (INR k * ang (4 * d) m)) (4 * d).
  (* M[1:-1] *= 2 on rows 0..2d, then M / (2 dd) *)
  Definition coefk (k : nat) : R := (if (0 <? k)%nat && (k <? 2 * d)%nat then 2 else 1) * dft_re k / INR (4 * d).
  (* M[parity:2d:2] *)
  Definition f_out (j : nat) : R := coefk (par + 2 * j).

  Variable c : nat -> R.
  Definition gpoly (t : R) : R := sumf (fun i => c i * cos (INR (par + 2 * i) * t)) d.
  Hypothesis Hs : forall n, (n <= d)%nat -> s n = gpoly (ang (4 * d) n).

  Lemma INR4d : 0 < INR (4 * d).
  Proof. apply lt_0_INR. lia. Qed.

  Lemma even_par i : (if Nat.even (par + 2 * i) then 1 else -1) = sgp.
  Proof.
    unfold par, sgp. destruct odd.
    - replace (1 + 2 * i)%nat with (S (2 * i)) by lia. rewrite Nat.even_succ, <- Nat.negb_even, Nat.even_mul. reflexivity.
    - rewrite Nat.add_0_l, Nat.even_mul. reflexivity.
  Qed.

  Lemma gpoly_reflect_PI t : gpoly (PI - t) = sgp * gpoly t.
  Proof.
    unfold gpoly. rewrite <- sumf_scal. apply sumf_ext. intros i _. rewrite cos_reflect_PI, even_par. ring.
  Qed.
  Lemma gpoly_reflect_2PI t : gpoly (2 * PI - t) = gpoly t.
  Proof. unfold gpoly. apply sumf_ext. intros i _. rewrite cos_reflect_2PI. reflexivity. Qed.

  Lemma ang_reflect_PI m : (m <= 2 * d)%nat -> ang (4 * d) (2 * d - m) = PI - ang (4 * d) m.
  Proof.
    intros H. unfold ang. rewrite minus_INR by exact H. pose proof INR4d as H4.
    rewrite !mult_INR in *. cbn [INR] in *. field. lra.
  Qed.
  Lemma ang_reflect_2PI m : (m <= 4 * d)%nat -> ang (4 * d) (4 * d - m) = 2 * PI - ang (4 * d) m.
  Proof.
    intros H. unfold ang. rewrite minus_INR by exact H. pose proof INR4d as H4. field. lra.
  Qed.

  Lemma half_ext_is_g m : (m <= 2 * d)%nat -> half_ext m = gpoly (ang (4 * d) m).
  Proof.
    intros H. unfold half_ext. destruct (Nat.leb_spec m d) as [Hle|Hgt].
    - apply Hs. exact Hle.
    - rewrite Hs by lia. rewrite ang_reflect_PI by exact H. rewrite gpoly_reflect_PI.
      unfold sgp. destruct odd; ring.
  Qed.

  Lemma ext_is_g m : (m < 4 * d)%nat -> ext m = gpoly (ang (4 * d) m).
  Proof.
    intros H. unfold ext. destruct (Nat.leb_spec m (2 * d)) as [Hle|Hgt].
    - apply half_ext_is_g. exact Hle.
    - rewrite half_ext_is_g by lia. rewrite ang_reflect_2PI by lia. apply gpoly_reflect_2PI.
  Qed.

  Lemma dft_re_coef j : (j < d)%nat ->
    dft_re (par + 2 * j) = c j * (if Nat.eqb (par + 2 * j) 0 then INR (4 * d) else INR (4 * d) / 2).
  Proof.
    intros Hj. unfold dft_re.
    rewrite (sumf_ext _ (fun m => sumf (fun i => c i * (cos (INR (par + 2 * i) * ang (4 * d) m) * cos (INR (par + 2 * j) * ang (4 * d) m))) d)).
    2:{ intros m Hm. rewrite ext_is_g by exact Hm. unfold gpoly. rewrite Rmult_comm, <- sumf_scal. apply sumf_ext. intros; ring. }
    rewrite sumf_swap.
    rewrite (sumf_ext _ (fun i => c i * cgram (4 * d) (par + 2 * i) (par + 2 * j)))
      by (intros i _; unfold cgram; rewrite sumf_scal; reflexivity).
    rewrite (sumf_single (fun i => c i * cgram (4 * d) (par + 2 * i) (par + 2 * j)) d j Hj).
    - rewrite circle_orthogonality by (unfold par; destruct odd; lia). rewrite Nat.eqb_refl. reflexivity.
    - intros i Hi Hne. rewrite circle_orthogonality by (unfold par; destruct odd; lia).
      destruct (Nat.eqb_spec (par + 2 * i) (par + 2 * j)) as [E|_]; [exfalso; apply Hne; lia | ring].
  Qed.

  (* the rows kept by the routine are exactly the cosine coefficients of the sampled column *)
  Theorem pipeline_recovers_coefficients j : (j < d)%nat -> f_out j = c j.
  Proof.
    intros Hj. unfold f_out, coefk. rewrite (dft_re_coef j Hj). pose proof INR4d as H4.
    destruct (Nat.eqb_spec (par + 2 * j) 0) as [E|Hne].
    - rewrite E. cbn [Nat.ltb Nat.leb andb]. field. lra.
    - assert (Hlt : ((0 <? par + 2 * j)%nat && (par + 2 * j <? 2 * d)%nat) = true).
      { apply andb_true_iff. split; apply Nat.ltb_lt; [lia | unfold par; destruct odd; lia]. }
      rewrite Hlt. field. lra.
  Qed.
End Pipe.

(* in terms of Chebyshev polynomials of a = cos t: the column is sum_i c_i T_{2i+parity}(a) sampled at a_n = cos(n pi/(2d)) *)
Corollary pipeline_recovers_chebyshev_coefficients d odd (s c : nat -> R) :
  (0 < d)%nat ->
  (forall n, (n <= d)%nat -> s n = sumf (fun i => c i * Tn (par odd + 2 * i) (cos (PI * INR n / INR (2 * d)))) d) ->
  forall j, (j < d)%nat -> f_out d odd s j = c j.
Proof.
  intros Hd Hs j Hj. apply (pipeline_recovers_coefficients d odd s Hd c); [|exact Hj].
  intros n Hn. rewrite (Hs n Hn). unfold gpoly. apply sumf_ext. intros i _. rewrite Tn_cos. f_equal. f_equal.
  unfold ang. assert (0 < INR d) by (apply lt_0_INR; exact Hd).
  rewrite !mult_INR. cbn [INR]. field. lra.
Qed.
