(* Theory/RelT.v — the logical relation: if a relation rho between two coefficient types is
   preserved by the ring operations, every model function maps related arguments to
   related results (and the two runs take the same control path).  Instantiated with
   "x lies in the interval i" this makes interval evaluation of any model term an enclosure
   of its real/complex value. *)
From Coq Require Import ZArith List Bool Lia.
From PyqspV Require Import Base.Ops Model.LPolyM Model.LAlgM Model.ConvM.
Import ListNotations.

Section Rel.
  Context {D1 D2 : Type} (O1 : Ops D1) (O2 : Ops D2) (rho : D1 -> D2 -> Prop).
  Hypothesis r0 : rho (d0 O1) (d0 O2).
  Hypothesis r1 : rho (d1 O1) (d1 O2).
  Hypothesis radd : forall a b c d, rho a c -> rho b d -> rho (dadd O1 a b) (dadd O2 c d).
  Hypothesis rmul : forall a b c d, rho a c -> rho b d -> rho (dmul O1 a b) (dmul O2 c d).
  Hypothesis rneg : forall a c, rho a c -> rho (dneg O1 a) (dneg O2 c).

  Notation F2 := (Forall2 rho).

  Lemma F2_len p q : F2 p q -> length p = length q.
  Proof. induction 1; cbn; congruence. Qed.

  Lemma scale_rel a b p q : rho a b -> F2 p q -> F2 (scale O1 a p) (scale O2 b q).
  Proof. intros Hab H; induction H; cbn; constructor; auto. Qed.

  Lemma ladd_rel p q p' q' : F2 p q -> F2 p' q' -> F2 (ladd O1 p p') (ladd O2 q q').
  Proof. intros H; revert p' q'; induction H; intros p' q' H'; cbn; [exact H'|]. destruct H'; constructor; auto. Qed.

  Lemma conv_rel p q p' q' : F2 p q -> F2 p' q' -> F2 (conv O1 p p') (conv O2 q q').
  Proof. intros H H'; induction H; cbn; [constructor|]. apply ladd_rel; [apply scale_rel; auto | constructor; auto]. Qed.

  Lemma lneg_rel p q : F2 p q -> F2 (lneg O1 p) (lneg O2 q).
  Proof. intros H; induction H; cbn; constructor; auto. Qed.

  Lemma zeros_rel n : F2 (zeros O1 n) (zeros O2 n).
  Proof. unfold zeros. induction (Z.to_nat n); cbn; constructor; auto. Qed.

  Lemma app_rel p q p' q' : F2 p q -> F2 p' q' -> F2 (p ++ p') (q ++ q').
  Proof. intros H H'. apply Forall2_app; assumption. Qed.

  Lemma rev_rel p q : F2 p q -> F2 (rev p) (rev q).
  Proof. intros H; induction H; cbn; [constructor|]. apply app_rel; [assumption | constructor; [assumption | constructor]]. Qed.

  Lemma lsum_rel p q : F2 p q -> rho (lsum O1 p) (lsum O2 q).
  Proof. intros H; induction H; cbn; auto. Qed.

  Lemma firstn_rel n p q : F2 p q -> F2 (firstn n p) (firstn n q).
  Proof. intros H; revert n; induction H; intros [|n]; cbn; constructor; auto. Qed.
  Lemma skipn_rel n p q : F2 p q -> F2 (skipn n p) (skipn n q).
  Proof. intros H; revert n; induction H; intros [|n]; cbn; try constructor; auto. Qed.

  Definition lp_rel (p : lpoly D1) (q : lpoly D2) : Prop :=
    lp_dmin p = lp_dmin q /\ lp_isz p = lp_isz q /\ F2 (lp_coefs p) (lp_coefs q).

  Definition orel {A B} (R : A -> B -> Prop) (x : option A) (y : option B) : Prop :=
    match x, y with Some a, Some b => R a b | None, None => True | _, _ => False end.

  Lemma mk_rel l1 l2 d : F2 l1 l2 -> lp_rel (mk O1 l1 d) (mk O2 l2 d).
  Proof.
    intros H. destruct H; cbn; unfold lp_rel; cbn; repeat split; auto; repeat constructor; auto.
  Qed.

  Lemma len_rel p q : lp_rel p q -> len (lp_coefs p) = len (lp_coefs q).
  Proof. intros (_ & _ & H). unfold len. rewrite (F2_len _ _ H). reflexivity. Qed.

  Lemma dmax_rel p q : lp_rel p q -> lp_dmax p = lp_dmax q.
  Proof. intros H. unfold lp_dmax. rewrite (len_rel _ _ H). destruct H as (-> & _). reflexivity. Qed.

  Lemma degree_rel p q : lp_rel p q -> lp_degree p = lp_degree q.
  Proof. intros H. unfold lp_degree. rewrite (dmax_rel _ _ H). destruct H as (-> & _). reflexivity. Qed.

  Lemma lp_mul_rel p q p' q' : lp_rel p q -> lp_rel p' q' -> lp_rel (lp_mul O1 p p') (lp_mul O2 q q').
  Proof.
    intros (Hd & Hz & Hc) (Hd' & Hz' & Hc'). unfold lp_mul. rewrite Hz, Hz', Hd, Hd'.
    destruct (lp_isz q || lp_isz q'); [apply mk_rel; constructor|].
    apply mk_rel. apply conv_rel; assumption.
  Qed.

  Lemma lp_scale_rel a b p q : rho a b -> lp_rel p q -> lp_rel (lp_scale O1 a p) (lp_scale O2 b q).
  Proof.
    intros Hab (Hd & Hz & Hc). unfold lp_scale. rewrite Hz, Hd.
    destruct (lp_isz q); apply mk_rel; [constructor | apply scale_rel; assumption].
  Qed.

  Lemma lp_neg_rel p q : lp_rel p q -> lp_rel (lp_neg O1 p) (lp_neg O2 q).
  Proof.
    intros (Hd & Hz & Hc). unfold lp_neg. rewrite Hz, Hd.
    destruct (lp_isz q); apply mk_rel; [constructor | apply lneg_rel; assumption].
  Qed.

  Lemma lp_inv_rel p q : lp_rel p q -> lp_rel (lp_inv O1 p) (lp_inv O2 q).
  Proof.
    intros H. unfold lp_inv. rewrite (dmax_rel _ _ H). destruct H as (Hd & Hz & Hc). rewrite Hz, Hd.
    destruct (lp_isz q); apply mk_rel; [constructor | apply rev_rel; assumption].
  Qed.

  Lemma lp_aligned_rel p q a b : lp_rel p q -> orel F2 (lp_aligned O1 p a b) (lp_aligned O2 q a b).
  Proof.
    intros H. unfold lp_aligned. rewrite (dmax_rel _ _ H). destruct H as (Hd & Hz & Hc). rewrite Hz, Hd.
    destruct (lp_isz q).
    - destruct (_ <? 0)%Z; cbn; [exact Logic.I | apply zeros_rel].
    - destruct (_ && _); cbn; [|exact Logic.I].
      apply app_rel; [apply zeros_rel|]. apply app_rel; [assumption | apply zeros_rel].
  Qed.

  Lemma lp_add_rel p q p' q' : lp_rel p q -> lp_rel p' q' ->
    orel lp_rel (lp_add O1 p p') (lp_add O2 q q').
  Proof.
    intros H H'. unfold lp_add, lp_parity.
    rewrite (dmax_rel _ _ H), (dmax_rel _ _ H').
    pose proof (fun a b => lp_aligned_rel p q a b H) as A. pose proof (fun a b => lp_aligned_rel p' q' a b H') as A'.
    destruct H as (Hd & Hz & Hc). destruct H' as (Hd' & Hz' & Hc'). rewrite Hz, Hz', Hd, Hd'.
    destruct (lp_isz q).
    { cbn [orel]. destruct (lp_isz q'); apply mk_rel; [constructor | assumption]. }
    destruct (lp_isz q').
    { cbn [orel]. apply mk_rel; assumption. }
    destruct (negb _); [exact Logic.I|].
    specialize (A (Z.min (lp_dmin q) (lp_dmin q')) (Z.max (lp_dmax q) (lp_dmax q'))).
    specialize (A' (Z.min (lp_dmin q) (lp_dmin q')) (Z.max (lp_dmax q) (lp_dmax q'))).
    destruct (lp_aligned O1 p _ _), (lp_aligned O2 q _ _); cbn in A |- *; try contradiction; [|exact Logic.I].
    destruct (lp_aligned O1 p' _ _), (lp_aligned O2 q' _ _); cbn in A' |- *; try contradiction; [|exact Logic.I].
    apply mk_rel. apply ladd_rel; assumption.
  Qed.

  Lemma lp_sub_rel p q p' q' : lp_rel p q -> lp_rel p' q' ->
    orel lp_rel (lp_sub O1 p p') (lp_sub O2 q q').
  Proof. intros H H'. unfold lp_sub. apply lp_add_rel; [assumption | apply lp_neg_rel; assumption]. Qed.

  Lemma lp_truncate_rel p q a b : lp_rel p q -> orel lp_rel (lp_truncate O1 p a b) (lp_truncate O2 q a b).
  Proof.
    intros H. unfold lp_truncate. rewrite (dmax_rel _ _ H).
    pose proof (lp_aligned_rel p q (Z.min a (lp_dmin q)) (Z.max b (lp_dmax q) + 2) H) as A.
    destruct H as (Hd & Hz & Hc). rewrite Hd.
    destruct (lp_aligned O1 p _ _) as [l1|], (lp_aligned O2 q _ _) as [l2|]; cbn in A |- *; try contradiction; [|exact Logic.I].
    apply mk_rel. unfold py_slice_neg, len. rewrite (F2_len _ _ A).
    apply firstn_rel, skipn_rel. assumption.
  Qed.

  Lemma isconsistent_rel p q p' q' : lp_rel p q -> lp_rel p' q' ->
    lp_isconsistent p p' = lp_isconsistent q q'.
  Proof.
    intros (Hd & Hz & _) (Hd' & Hz' & _). unfold lp_isconsistent, lp_parity. rewrite Hz, Hz', Hd, Hd'. reflexivity.
  Qed.

  Definition la_rel (g : lalg D1) (h : lalg D2) : Prop := lp_rel (la_I g) (la_I h) /\ lp_rel (la_X g) (la_X h).

  Lemma la_mk_rel p q p' q' : lp_rel p q -> lp_rel p' q' -> orel la_rel (la_mk p p') (la_mk q q').
  Proof.
    intros H H'. unfold la_mk. rewrite (isconsistent_rel _ _ _ _ H H').
    destruct (lp_isconsistent q q'); cbn; [split; assumption | exact Logic.I].
  Qed.

  Lemma obind_rel {A1 A2 B1 B2} (RA : A1 -> A2 -> Prop) (RB : B1 -> B2 -> Prop)
        (x1 : option A1) (x2 : option A2) (f1 : A1 -> option B1) (f2 : A2 -> option B2) :
    orel RA x1 x2 -> (forall a1 a2, RA a1 a2 -> orel RB (f1 a1) (f2 a2)) ->
    orel RB (obind x1 f1) (obind x2 f2).
  Proof. destruct x1, x2; cbn; intros H Hf; try contradiction; auto. Qed.

  Lemma la_mul_rel g h g' h' : la_rel g h -> la_rel g' h' -> orel la_rel (la_mul O1 g g') (la_mul O2 h h').
  Proof.
    intros [Hi Hx] [Hi' Hx']. unfold la_mul.
    apply (obind_rel lp_rel); [apply lp_sub_rel; apply lp_mul_rel; auto using lp_inv_rel|].
    intros a1 a2 Ha.
    apply (obind_rel lp_rel); [apply lp_add_rel; apply lp_mul_rel; auto using lp_inv_rel|].
    intros b1 b2 Hb. apply la_mk_rel; assumption.
  Qed.

  Lemma la_mul_poly_rel g h p q : la_rel g h -> lp_rel p q ->
    orel la_rel (la_mul_poly O1 g p) (la_mul_poly O2 h q).
  Proof.
    intros [Hi Hx] Hp. unfold la_mul_poly. apply la_mk_rel; apply lp_mul_rel; auto using lp_inv_rel.
  Qed.

  Lemma la_inv_rel g h : la_rel g h -> orel la_rel (la_inv O1 g) (la_inv O2 h).
  Proof. intros [Hi Hx]. unfold la_inv. apply la_mk_rel; [apply lp_inv_rel | apply lp_neg_rel]; assumption. Qed.

  Lemma la_neg_rel g h : la_rel g h -> orel la_rel (la_neg O1 g) (la_neg O2 h).
  Proof. intros [Hi Hx]. unfold la_neg. apply la_mk_rel; apply lp_neg_rel; assumption. Qed.

  Lemma la_add_rel g h g' h' : la_rel g h -> la_rel g' h' -> orel la_rel (la_add O1 g g') (la_add O2 h h').
  Proof.
    intros [Hi Hx] [Hi' Hx']. unfold la_add.
    apply (obind_rel lp_rel); [apply lp_add_rel; assumption|]. intros a1 a2 Ha.
    apply (obind_rel lp_rel); [apply lp_add_rel; assumption|]. intros b1 b2 Hb.
    apply la_mk_rel; assumption.
  Qed.

  Lemma la_sub_rel g h g' h' : la_rel g h -> la_rel g' h' -> orel la_rel (la_sub O1 g g') (la_sub O2 h h').
  Proof.
    intros H H'. unfold la_sub.
    apply (obind_rel la_rel); [apply la_neg_rel; assumption|]. intros a1 a2 Ha. apply la_add_rel; assumption.
  Qed.

  Lemma la_truncate_rel g h a b : la_rel g h -> orel la_rel (la_truncate O1 g a b) (la_truncate O2 h a b).
  Proof.
    intros [Hi Hx]. unfold la_truncate.
    apply (obind_rel lp_rel); [apply lp_truncate_rel; assumption|]. intros a1 a2 Ha.
    apply (obind_rel lp_rel); [apply lp_truncate_rel; assumption|]. intros b1 b2 Hb.
    apply la_mk_rel; assumption.
  Qed.

  Definition cs_rel (a : D1 * D1) (b : D2 * D2) : Prop := rho (fst a) (fst b) /\ rho (snd a) (snd b).

  Lemma la_rotation_rel a b : cs_rel a b -> la_rel (la_rotation O1 a) (la_rotation O2 b).
  Proof. intros [Hc Hs]. split; apply mk_rel; constructor; auto. Qed.

  Lemma lp_w_rel : lp_rel (lp_w O1) (lp_w O2).
  Proof. apply mk_rel. constructor; auto. Qed.

  Lemma la_from_angles_aux_rel l1 l2 : Forall2 cs_rel l1 l2 -> forall g h, la_rel g h ->
    orel la_rel (la_from_angles_aux O1 g l1) (la_from_angles_aux O2 h l2).
  Proof.
    induction 1 as [|a b l1 l2 Hab Hl IH]; intros g h Hg; cbn [la_from_angles_aux]; [exact Hg|].
    apply (obind_rel la_rel); [apply la_mul_poly_rel; [assumption | apply lp_w_rel]|]. intros a1 a2 Ha.
    apply (obind_rel la_rel); [apply la_mul_rel; [assumption | apply la_rotation_rel; assumption]|].
    intros b1 b2 Hb. apply IH; assumption.
  Qed.

  Theorem la_from_angles_rel l1 l2 : Forall2 cs_rel l1 l2 ->
    orel la_rel (la_from_angles O1 l1) (la_from_angles O2 l2).
  Proof.
    intros H. destruct H as [|a b l1 l2 Hab Hl]; cbn [la_from_angles]; [exact Logic.I|].
    apply la_from_angles_aux_rel; [assumption | apply la_rotation_rel; assumption].
  Qed.

  (* PolynomialToLaurentForm *)
  Variables (half1 : D1) (half2 : D2) (z1 : D1 -> bool) (z2 : D2 -> bool).
  Hypothesis rhalf : rho half1 half2.
  Hypothesis rz : forall a b, rho a b -> z1 a = z2 b.

  Lemma lp_pow_rel b1 b2 n : lp_rel b1 b2 -> lp_rel (lp_pow O1 b1 n) (lp_pow O2 b2 n).
  Proof. intros H. induction n; cbn [lp_pow]; [exact H | apply lp_mul_rel; assumption]. Qed.

  Lemma ptlf_base_rel : lp_rel (ptlf_base O1 half1) (ptlf_base O2 half2).
  Proof. apply mk_rel. repeat constructor; assumption. Qed.

  Lemma ptlf_aux_rel c1 c2 : F2 c1 c2 -> forall k a1 a2, lp_rel a1 a2 ->
    orel lp_rel (ptlf_aux O1 half1 z1 c1 k a1) (ptlf_aux O2 half2 z2 c2 k a2).
  Proof.
    induction 1 as [|x y c1 c2 Hxy Hc IH]; intros k a1 a2 Ha; cbn [ptlf_aux]; [exact Ha|].
    rewrite (rz _ _ Hxy). destruct (z2 y); [apply IH; assumption|].
    apply (obind_rel lp_rel); [|intros; apply IH; assumption].
    apply lp_add_rel; [assumption|]. apply lp_scale_rel; [assumption|].
    destruct k; [apply mk_rel; repeat constructor; assumption | apply lp_pow_rel, ptlf_base_rel].
  Qed.

  Theorem ptlf_rel c1 c2 : F2 c1 c2 -> orel lp_rel (ptlf O1 half1 z1 c1) (ptlf O2 half2 z2 c2).
  Proof. intros H. apply ptlf_aux_rel; [assumption | apply mk_rel; constructor]. Qed.
End Rel.
