(* Theory/RespT.v — the QSP response as a 2x2 matrix product, in an abstract ring with
   i*i = -1 and a Hadamard scalar h (h*h + h*h = 1):
     - Wz operators are the Hadamard conjugates of the Wx operators;
     - <+|U_x|+> = <0|U_z|0>   (U_x = H U_z H);
     - U_z for phases (c_k, s_k) and signal (a, s) with a*a + s*s = 1 is the phase-list product
       of Theory/LAlgT.v at w = a + i s, so its corner is the identity part of the algebra
       element evaluated at w. *)
From Coq Require Import ZArith List Ring Lia Bool.
From PyqspV Require Import Base.Ops Model.LPolyM Model.LAlgM Theory.RingK Theory.LPolyT Theory.LAlgT.
Import ListNotations.

Section Resp.
  Variable K : CRing.
  Add Ring Kr4 : (Kring K).
  Notation "x + y" := (kadd x y).
  Notation "x * y" := (kmul x y).
  Notation "x - y" := (ksub x y).
  Notation "- x" := (kopp x).
  Notation mat := (mat2 K).
  Notation mmul := (mmul K).
  Notation mid := (mid K).
  Notation mdiag := (mdiag K).

  Variables i h : K.
  Hypothesis ii : i * i = - k1.
  Hypothesis hh : h * h + h * h = k1.

  Definition Hm : mat := M2 h h h (- h).

  Lemma Hm_Hm : mmul Hm Hm = mid.
  Proof.
    apply mat_eq; cbn; try ring.
    - exact hh.
    - transitivity (h * h + h * h); [ring | exact hh].
  Qed.

  Definition conjH (m : mat) : mat := mmul (mmul Hm m) Hm.

  Lemma conjH_mul a b : conjH (mmul a b) = mmul (conjH a) (conjH b).
  Proof.
    unfold conjH.
    transitivity (mmul (mmul Hm a) (mmul (mmul Hm Hm) (mmul b Hm))).
    - rewrite Hm_Hm, mmul_id_l. rewrite !mmul_assoc. reflexivity.
    - rewrite !mmul_assoc. reflexivity.
  Qed.

  Lemma conjH_invol m : conjH (conjH m) = m.
  Proof.
    unfold conjH. rewrite !mmul_assoc, Hm_Hm, mmul_id_r. rewrite <- !mmul_assoc, Hm_Hm, mmul_id_l. reflexivity.
  Qed.

  (* phase operator e^{i phi Z} with (c, s) = (cos phi, sin phi); Wx signal operator *)
  Definition Sz (cs : K * K) : mat := mdiag (fst cs + i * snd cs) (fst cs - i * snd cs).
  Definition Wxm (a s : K) : mat := M2 a (i * s) (i * s) a.

  Lemma conjH_Sz cs : conjH (Sz cs) = Rot K i cs.
  Proof.
    destruct cs as [c s]. unfold conjH, Sz, Rot, Hm. apply mat_eq; cbn.
    - transitivity ((h * h + h * h) * c); [ring | rewrite hh; ring].
    - transitivity ((h * h + h * h) * (i * s)); [ring | rewrite hh; ring].
    - transitivity ((h * h + h * h) * (i * s)); [ring | rewrite hh; ring].
    - transitivity ((h * h + h * h) * c); [ring | rewrite hh; ring].
  Qed.

  Lemma conjH_Wx a s : conjH (Wxm a s) = mdiag (a + i * s) (a - i * s).
  Proof.
    unfold conjH, Wxm, Hm. apply mat_eq; cbn.
    - transitivity ((h * h + h * h) * (a + i * s)); [ring | rewrite hh; ring].
    - ring.
    - ring.
    - transitivity ((h * h + h * h) * (a - i * s)); [ring | rewrite hh; ring].
  Qed.

  (* S(phi_0) W S(phi_1) ... W S(phi_n) *)
  Fixpoint prodSW (S : K * K -> mat) (W : mat) (acc : mat) (l : list (K * K)) : mat :=
    match l with [] => acc | cs :: l' => prodSW S W (mmul (mmul acc W) (S cs)) l' end.

  Lemma conjH_prodSW S W l : forall acc,
    conjH (prodSW S W acc l) = prodSW (fun cs => conjH (S cs)) (conjH W) (conjH acc) l.
  Proof.
    induction l as [|cs l IH]; intros acc; cbn [prodSW]; [reflexivity|].
    rewrite IH, !conjH_mul. reflexivity.
  Qed.

  Lemma prodSW_ext S S' W l : (forall cs, S cs = S' cs) -> forall acc, prodSW S W acc l = prodSW S' W acc l.
  Proof. intros E. induction l as [|cs l IH]; intros acc; cbn [prodSW]; [reflexivity|]. rewrite E, IH. reflexivity. Qed.

  (* the four sequences *)
  Definition Ux (a s : K) (cs : K * K) (l : list (K * K)) : mat := prodSW Sz (Wxm a s) (Sz cs) l.
  Definition Uz (a s : K) (cs : K * K) (l : list (K * K)) : mat :=
    prodSW (fun c => conjH (Sz c)) (conjH (Wxm a s)) (conjH (Sz cs)) l.

  Definition meas_z (U : mat) : K := m00 U.
  Definition meas_x (U : mat) : K := h * h * (m00 U + m01 U + m10 U + m11 U).

  Lemma meas_x_conjH U : meas_x U = m00 (conjH U).
  Proof. unfold meas_x, conjH, Hm; cbn. ring. Qed.

  Theorem Uz_is_conj a s cs l : Uz a s cs l = conjH (Ux a s cs l).
  Proof. unfold Uz, Ux. rewrite conjH_prodSW. reflexivity. Qed.

  (* Wx/x and Wz/z responses coincide *)
  Theorem wx_x_eq_wz_z a s cs l : meas_x (Ux a s cs l) = meas_z (Uz a s cs l).
  Proof. rewrite meas_x_conjH, Uz_is_conj. reflexivity. Qed.

  (* Wz/x and Wx/z responses coincide *)
  Theorem wz_x_eq_wx_z a s cs l : meas_x (Uz a s cs l) = meas_z (Ux a s cs l).
  Proof. rewrite meas_x_conjH, Uz_is_conj, conjH_invol. reflexivity. Qed.

  (* U_z is the phase-list product at w = a + i s *)
  Theorem Uz_is_prod_angles a s cs l :
    Uz a s cs l = prod_angles K (a + i * s) (a - i * s) i (Rot K i cs) l.
  Proof.
    unfold Uz. rewrite conjH_Sz, conjH_Wx.
    rewrite (prodSW_ext _ (Rot K i) _ l conjH_Sz).
    generalize (Rot K i cs). induction l as [|c l IH]; intros acc; cbn [prodSW prod_angles]; [reflexivity|].
    apply IH.
  Qed.

  Lemma w_unit a s : a * a + s * s = k1 -> (a + i * s) * (a - i * s) = k1.
  Proof. intros H. rewrite <- H. transitivity (a * a - (i * i) * (s * s)); [ring | rewrite ii; ring]. Qed.

  (* hence: the Wz/z (= Wx/x) response is the identity part of the algebra element at w,
     and the Wx/z (= Wz/x) response is the Hadamard corner *)
  Theorem resp_wz_z_is_ipoly a s cs l g : a * a + s * s = k1 ->
    la_from_angles OpsK (cs :: l) = Some g ->
    meas_z (Uz a s cs l) = evx K (a + i * s) (a - i * s) (la_I g).
  Proof.
    intros Has Hg. rewrite Uz_is_prod_angles.
    destruct (from_angles_sound K _ _ i (w_unit a s Has) ii cs l g Hg) as [E _].
    rewrite <- E. reflexivity.
  Qed.

  Theorem resp_wx_z_is_hadamard_corner a s cs l g : a * a + s * s = k1 ->
    la_from_angles OpsK (cs :: l) = Some g ->
    meas_z (Ux a s cs l) =
      h * h * (evx K (a + i * s) (a - i * s) (la_I g) + i * evx K (a + i * s) (a - i * s) (la_X g)
               + i * evx K (a - i * s) (a + i * s) (la_X g) + evx K (a - i * s) (a + i * s) (la_I g)).
  Proof.
    intros Has Hg. rewrite <- wz_x_eq_wx_z. rewrite Uz_is_prod_angles.
    destruct (from_angles_sound K _ _ i (w_unit a s Has) ii cs l g Hg) as [E _].
    rewrite <- E. reflexivity.
  Qed.
End Resp.
