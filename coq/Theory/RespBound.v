(* Theory/RespBound.v — |response| <= 1 for every phase list, every a in [-1,1] and all four
   (signal operator, measurement) models: the Wx sequence unitary has the SU(2) form
   [[(p,q),(r,t)],[(-r,t),(p,-q)]] with p^2+q^2+r^2+t^2 = 1, closed under products. *)
From Coq Require Import ZArith QArith Qreals List Reals Lra Lia Bool Psatz.
From Coquelicot Require Import Complex.
From PyqspV Require Import Base.Ops Model.ResponseM Theory.RingK Theory.LAlgT Theory.CplxT Theory.RespT
  Theory.QC Theory.CertT Model.Checkers Theory.RespEnclT.
Import ListNotations.
Open Scope R_scope.

Definition su2 (U : mat2 C) : Prop :=
  exists p q r t, U = M2 (p, q) (r, t) (- r, t) (p, - q) /\ p * p + q * q + r * r + t * t = 1.

Lemma su2_mul A B : su2 A -> su2 B -> su2 (mmul CR A B).
Proof.
  intros (p & q & r & t & -> & HA) (p' & q' & r' & t' & -> & HB).
  exists (p * p' - q * q' - r * r' - t * t'), (p * q' + q * p' + r * t' - t * r'),
         (p * r' - q * t' + r * p' + t * q'), (p * t' + q * r' - r * q' + t * p').
  split.
  - unfold mmul; cbn [m00 m01 m10 m11 kadd kmul CR].
    unfold Cplus, Cmult; cbn [fst snd]. f_equal; f_equal; ring.
  - replace 1 with ((p * p + q * q + r * r + t * t) * (p' * p' + q' * q' + r' * r' + t' * t')) by (rewrite HA, HB; lra).
    ring.
Qed.

Lemma su2_Sz phi : su2 (Sz CR Ci (RtoC (cos phi), RtoC (sin phi))).
Proof.
  exists (cos phi), (sin phi), 0, 0. split.
  - unfold Sz, mdiag; cbn [fst snd kadd kmul ksub k0 CR].
    unfold Cminus. unfold Cplus, Cmult, Copp, Ci, RtoC; cbn [fst snd]. f_equal; f_equal; ring.
  - pose proof (sin2_cos2 phi) as H. unfold Rsqr in H. lra.
Qed.

Lemma su2_Wx a s : a * a + s * s = 1 -> su2 (Wxm CR Ci (RtoC a) (RtoC s)).
Proof.
  intros H. exists a, 0, 0, s. split.
  - unfold Wxm; cbn [kmul CR]. unfold Cmult, Ci, RtoC; cbn [fst snd]. f_equal; f_equal; ring.
  - lra.
Qed.

Lemma su2_prodSW W l : su2 W -> forall acc, su2 acc -> su2 (prodSW CR (Sz CR Ci) W acc (map csC l)).
Proof.
  intros HW. induction l as [|q l IH]; intros acc Ha; cbn [map prodSW]; [exact Ha|].
  apply IH. apply su2_mul; [apply su2_mul; assumption | apply su2_Sz].
Qed.

Lemma su2_Ux a phi0 rest : -1 <= a <= 1 ->
  su2 (Ux CR Ci (RtoC a) (RtoC (sqrt (1 - a * a))) (csC phi0) (map csC rest)).
Proof.
  intros Ha. unfold Ux. apply su2_prodSW; [|apply su2_Sz].
  apply su2_Wx. rewrite sqrt_sqrt by nra. ring.
Qed.

Lemma Cmod_le_1 (x y : R) : x * x + y * y <= 1 -> Cmod (x, y) <= 1.
Proof.
  intros H. unfold Cmod; cbn [fst snd]. rewrite <- sqrt_1. apply sqrt_le_1_alt. simpl. lra.
Qed.

Lemma hC_sq : Cmult hC hC = RtoC (/ 2).
Proof.
  unfold hC. rewrite <- RtoC_mult. f_equal.
  assert (H : sqrt 2 * sqrt 2 = 2) by (apply sqrt_sqrt; lra).
  assert (Hn : sqrt 2 <> 0) by (intros E; rewrite E in H; lra).
  rewrite <- Rinv_mult, H. reflexivity.
Qed.

Lemma su2_meas_z U : su2 U -> Cmod (meas_z CR U) <= 1.
Proof.
  intros (p & q & r & t & -> & H). unfold meas_z; cbn [m00]. apply Cmod_le_1. nra.
Qed.

Lemma su2_meas_x U : su2 U -> Cmod (meas_x CR hC U) <= 1.
Proof.
  intros (p & q & r & t & -> & H). unfold meas_x; cbn [m00 m01 m10 m11 kadd kmul CR].
  rewrite hC_sq. unfold Cplus, Cmult, RtoC; cbn [fst snd].
  apply Cmod_le_1. nra.
Qed.

Theorem resp_le_1 wz mx a phi0 rest : -1 <= Q2R a <= 1 -> Cmod (respC wz mx a phi0 rest) <= 1.
Proof.
  intros Ha. rewrite respC_is_definition.
  pose proof (su2_Ux (Q2R a) phi0 rest Ha) as HU.
  destruct wz, mx.
  - rewrite (wz_x_eq_wx_z CR Ci hC hC_hC). apply su2_meas_z, HU.
  - rewrite <- (wx_x_eq_wz_z CR Ci hC hC_hC). apply su2_meas_x, HU.
  - apply su2_meas_x, HU.
  - apply su2_meas_z, HU.
Qed.
