(* driver.ml — line-oriented front end to the extracted models.
   One s-expression per input line, one result line per input line.
   Numbers cross as decimal big integers or "num/den" rationals; no float is ever
   parsed or printed here. *)
open Model

type sexp = A of string | L of sexp list

let parse (s : string) : sexp =
  let n = String.length s in
  let pos = ref 0 in
  let rec skip () = if !pos < n && (s.[!pos] = ' ' || s.[!pos] = '\t') then (incr pos; skip ()) in
  let rec item () =
    skip ();
    if !pos >= n then failwith "eof"
    else if s.[!pos] = '(' then begin
      incr pos;
      let acc = ref [] in
      let fin = ref false in
      while not !fin do
        skip ();
        if !pos >= n then failwith "unclosed"
        else if s.[!pos] = ')' then (incr pos; fin := true)
        else acc := item () :: !acc
      done;
      L (List.rev !acc)
    end else begin
      let st = !pos in
      while !pos < n && s.[!pos] <> ' ' && s.[!pos] <> '(' && s.[!pos] <> ')' do incr pos done;
      A (String.sub s st (!pos - st))
    end in
  item ()

let z_of = function A a -> Big_int_Z.big_int_of_string a | _ -> failwith "z_of"
let int_of = function A a -> int_of_string a | _ -> failwith "int_of"
let q_of = function
  | A a -> (match String.index_opt a '/' with
      | None -> { qnum = Big_int_Z.big_int_of_string a; qden = Big_int_Z.unit_big_int }
      | Some i -> { qnum = Big_int_Z.big_int_of_string (String.sub a 0 i);
                    qden = Big_int_Z.big_int_of_string (String.sub a (i+1) (String.length a - i - 1)) })
  | _ -> failwith "q_of"
let list_of f = function L l -> List.map f l | _ -> failwith "list_of"
let pair_of f = function L [a; b] -> (f a, f b) | _ -> failwith "pair_of"
let rec nat_of_int n = if n <= 0 then O else S (nat_of_int (n-1))
let nat_of s = nat_of_int (int_of s)
let bool_of = function A "1" | A "true" -> true | A _ -> false | _ -> failwith "bool_of"

let sz = Big_int_Z.string_of_big_int
let sq (x : q) =
  let x = qred x in
  if Big_int_Z.eq_big_int x.qden Big_int_Z.unit_big_int then sz x.qnum else sz x.qnum ^ "/" ^ sz x.qden
let sl f l = "(" ^ String.concat " " (List.map f l) ^ ")"
let sb b = if b then "1" else "0"
let so f = function None -> "ERR" | Some x -> f x

let rec pexpr_of (s : sexp) : q pexpr = match s with
  | L [A "lit"; d; c] -> PLit (z_of d, list_of q_of c)
  | L [A "add"; a; b] -> PAdd (pexpr_of a, pexpr_of b)
  | L [A "sub"; a; b] -> PSub (pexpr_of a, pexpr_of b)
  | L [A "mul"; a; b] -> PMul (pexpr_of a, pexpr_of b)
  | L [A "neg"; a] -> PNeg (pexpr_of a)
  | L [A "inv"; a] -> PInv (pexpr_of a)
  | L [A "scale"; c; a] -> PScale (q_of c, pexpr_of a)
  | L [A "trunc"; a; lo; hi] -> PTrunc (pexpr_of a, z_of lo, z_of hi)
  | L [A "posh"; a] -> PPosH (pexpr_of a)
  | L [A "negh"; a] -> PNegH (pexpr_of a)
  | _ -> failwith "pexpr_of"

let rec gexpr_of (s : sexp) : q gexpr = match s with
  | L [A "glit"; i; x] -> GLit (pexpr_of i, pexpr_of x)
  | L [A "gadd"; a; b] -> GAdd (gexpr_of a, gexpr_of b)
  | L [A "gsub"; a; b] -> GSub (gexpr_of a, gexpr_of b)
  | L [A "gmul"; a; b] -> GMul (gexpr_of a, gexpr_of b)
  | L [A "gneg"; a] -> GNeg (gexpr_of a)
  | L [A "ginv"; a] -> GInv (gexpr_of a)
  | L [A "gaddp"; a; p] -> GAddP (gexpr_of a, pexpr_of p)
  | L [A "gmulp"; a; p] -> GMulP (gexpr_of a, pexpr_of p)
  | L [A "pmulg"; p; a] -> PMulG (pexpr_of p, gexpr_of a)
  | L [A "gscale"; a; c] -> GScale (gexpr_of a, q_of c)
  | L [A "gtrunc"; a; lo; hi] -> GTrunc (gexpr_of a, z_of lo, z_of hi)
  | L [A "grot"; cs] -> GRot (pair_of q_of cs)
  | L [A "ggen"; cs] -> GGen (pair_of q_of cs)
  | L [A "gangles"; l] -> GAngles (list_of (pair_of q_of) l)
  | _ -> failwith "gexpr_of"

let gen_of = function
  | "cos" -> KCos | "sin" -> KSin | "invert" -> KInv | "sign" -> KSign | "thresh" -> KThresh
  | "phase_est" -> KPhaseEst | "rect" -> KRect | "linamp" -> KLinAmp | "gibbs" -> KGibbs
  | "efilter" -> KEfilter | "relu" -> KRelu | "softplus" -> KSoftplus | _ -> failwith "gen_of"

let s_lpoly (p : q lpoly) =
  "(" ^ sz p.lp_dmin ^ " " ^ sb p.lp_isz ^ " " ^ sl sq p.lp_coefs ^ ")"
let s_lalg (g : q lalg) = "(" ^ s_lpoly g.la_I ^ " " ^ s_lpoly g.la_X ^ ")"

let handle (s : sexp) : string = match s with
  | L [A "peval"; e] -> so s_lpoly (peval_q (pexpr_of e))
  | L [A "pinfo"; e; keys] ->
      (* degree parity dmax norm2 and coefficient look-ups of the value of e *)
      so (fun p -> "(" ^ sz (lp_degree_q p) ^ " " ^ sz (lp_parity_q p) ^ " " ^ sz (lp_dmax_q p) ^ " "
                   ^ sq (lp_norm2_q p) ^ " " ^ sl (fun k -> sq (lp_get_q p (z_of k))) (match keys with L l -> l | _ -> []) ^ ")")
         (peval_q (pexpr_of e))
  | L [A "geval"; e] -> so s_lalg (geval_q (gexpr_of e))
  | L [A "ginfo"; e] ->
      so (fun g -> "(" ^ sz (la_degree_q g) ^ " " ^ sq (la_norm2_q g) ^ " " ^ so sq (la_unitarity2_q g) ^ ")")
         (geval_q (gexpr_of e))
  | L [A "c01"; phis; pc; eps; suc; tol] ->
      let phis = list_of q_of phis and pc = list_of q_of pc in
      let eps = q_of eps and suc = q_of suc and tol = q_of tol in
      "(" ^ sb (check_c01 phis pc eps suc tol) ^ " " ^ so sz (c01_norm phis pc eps suc) ^ ")"
  | L [A "ipoly"; phis; dmin; coefs; tol] ->
      let phis = list_of q_of phis in
      let f = { lp_dmin = z_of dmin; lp_coefs = list_of q_of coefs; lp_isz = false } in
      "(" ^ sb (check_ipoly phis f (q_of tol)) ^ " " ^ so sz (ipoly_norm phis f) ^ ")"
  | L [A "c07"; phis; p; eps; suc] ->
      let phis = list_of q_of phis and p = list_of q_of p in
      let eps = q_of eps and suc = q_of suc in
      "(" ^ sb (check_c07 phis p eps suc) ^ " " ^ so sz (c07_norm phis p suc) ^ ")"
  | L [A "roundtrip"; phis; phis2; tol; stol] ->
      sb (check_roundtrip (list_of q_of phis) (list_of q_of phis2) (q_of tol) (q_of stol))
  | L [A "respdists"; wz; mx; phis; pts] ->
      let pt = function L [a; re; im] -> (q_of a, (q_of re, q_of im)) | _ -> failwith "pt" in
      sl (so sz) (resp_dists (bool_of wz) (bool_of mx) (list_of q_of phis) (list_of pt pts))
  | L [A "completion"; fin; idmin; icoefs; xdmin; xcoefs; tol] ->
      let ip = { lp_dmin = z_of idmin; lp_coefs = list_of q_of icoefs; lp_isz = false } in
      let xp = { lp_dmin = z_of xdmin; lp_coefs = list_of q_of xcoefs; lp_isz = false } in
      let g = { la_I = ip; la_X = xp } in
      "(" ^ sb (check_completion (list_of q_of fin) g (q_of tol)) ^ " " ^ so s_lpoly (unit_residual ip xp) ^ ")"
  | L [A "pcompletion"; pre; pim; idmin; icoefs; xdmin; xcoefs; tol; ctol] ->
      let ip = { lp_dmin = z_of idmin; lp_coefs = list_of q_of icoefs; lp_isz = false } in
      let xp = { lp_dmin = z_of xdmin; lp_coefs = list_of q_of xcoefs; lp_isz = false } in
      let g = { la_I = ip; la_X = xp } in
      let pre = list_of q_of pre and pim = list_of q_of pim in
      "(" ^ sb (check_pcompletion pre pim g (q_of tol) (q_of ctol)) ^ " " ^ so sq (corner_norm_q g pre pim)
      ^ " " ^ so s_lpoly (unit_residual ip xp) ^ ")"
  | L [A "c02"; phis; pre; pim; tol] ->
      let phis = list_of q_of phis and pre = list_of q_of pre and pim = list_of q_of pim in
      "(" ^ sb (check_c02 phis pre pim (q_of tol)) ^ " " ^ so sz (corner_norm_i phis pre pim) ^ ")"
  | L [A "p2l"; p] ->
      let p = list_of q_of p in
      (match p2l_q p with None -> "ERR" | Some l -> "(" ^ sl sq l ^ " " ^ sb (check_p2l p l) ^ ")")
  | L [A "ptlf"; p] -> so s_lpoly (ptlf_q (list_of q_of p))
  | L [A "c2p"; k; c] -> sl sq (c2p_q (bool_of k) (list_of q_of c))
  | L [A "p2c"; k; p] ->
      let p = list_of q_of p in "(" ^ sl sq (p2c_q (bool_of k) p) ^ " " ^ sb (check_p2c (bool_of k) p) ^ ")"
  | L [A "symfull"; odd; red] -> so (sl sq) (sym_full_q (bool_of odd) (list_of q_of red))
  | L [A "jacf"; odd; red; f; tol] ->
      let red = list_of q_of red and f = list_of q_of f in
      "(" ^ sb (check_jac_f (bool_of odd) red f (q_of tol)) ^ " " ^ so sz (im_target_norm (bool_of odd) red f) ^ ")"
  | L [A "jac3"; odd; red; a; vals] ->
      so (sl sz) (jac3_dists (bool_of odd) (list_of q_of red) (q_of a) (list_of q_of vals))
  | L [A "jacdf"; odd; red; k; col; tol] ->
      sb (check_jac_df_col (bool_of odd) (list_of q_of red) (nat_of k) (list_of q_of col) (q_of tol))
  | L [A "imtarget"; odd; red; c; tol] ->
      let red = list_of q_of red and c = list_of q_of c in
      "(" ^ sb (check_im_target (bool_of odd) red c (q_of tol)) ^ " " ^ so sz (im_target_norm (bool_of odd) red c) ^ ")"
  | L [A "oppzero"; odd; l] -> sb (opp_zero_q (bool_of odd) (list_of q_of l))
  | L [A "geninfo"; A name; degree] ->
      let g = gen_of name in
      "(" ^ sb (gen_odd g) ^ " " ^ sb (gen_takes_degree g) ^ " " ^ sb (degree_guard g (z_of degree)) ^ ")"
  | L [A "scaledclose"; b; u; s; tol] -> sb (scaled_close (list_of q_of b) (list_of q_of u) (q_of s) (q_of tol))
  | L [A "samebases"; c; m; tol] -> sb (same_poly_bases (list_of q_of c) (list_of q_of m) (q_of tol))
  | L [A "sup"; mono; c; cells; m] ->
      let cells = list_of (pair_of q_of) cells and c = list_of q_of c in
      sb (if bool_of mono then check_sup_mono c cells (q_of m) else check_sup c cells (q_of m))
  | L [A "exceeds"; c; theta; m] -> sb (check_exceeds (list_of q_of c) (q_of theta) (q_of m))
  | L [A "p2cq"; p] -> sl sq (p2c_q false (list_of q_of p))
  | L [A "fpslayout"; alpha] -> sl sq (fps_layout_q (list_of q_of alpha))
  | L [A "fpprob"; phis; pts] -> sl (so sz) (fp_prob_dists (list_of q_of phis) (list_of (pair_of q_of) pts))
  | L [A "trigacc"; mono; usesin; c; s; tau; cells; eps] ->
      let cells = list_of (pair_of q_of) cells and c = list_of q_of c in
      sb (if bool_of mono then check_trig_acc_mono (bool_of usesin) c (q_of s) (q_of tau) cells (q_of eps)
          else check_trig_acc (bool_of usesin) c (q_of s) (q_of tau) cells (q_of eps))
  | L [A "trigacchi"; mono; usesin; c; s; tau; cells; n; eps] ->
      let cells = list_of (pair_of q_of) cells and c = list_of q_of c in
      sb (if bool_of mono then check_trig_acc_hi (bool_of usesin) c (q_of s) (q_of tau) cells (nat_of n) (q_of eps)
          else check_trig_acc_hi_cheb (bool_of usesin) c (q_of s) (q_of tau) cells (nat_of n) (q_of eps))
  | L [A "roundz"; th; c] -> sl sq (round_zeros_q (q_of th) (list_of q_of c))
  | L [A "invacchi"; c; s; kappa; cells; k; tol] ->
      sb (check_inv_acc_hi_cheb (list_of q_of c) (q_of s) (q_of kappa) (list_of (pair_of q_of) cells) (nat_of k) (q_of tol))
  | L [A "invacc"; c; s; kappa; thmax; cells; tol] ->
      sb (check_inv_acc_scaled (list_of q_of c) (q_of s) (q_of kappa) (q_of thmax) (list_of (pair_of q_of) cells) (q_of tol))
  | L [A "infub"; dmin; coefs; s; cells; m2] ->
      let f = { lp_dmin = z_of dmin; lp_coefs = list_of q_of coefs; lp_isz = false } in
      sb (check_infnorm_ub f (list_of q_of s) (list_of (pair_of q_of) cells) (q_of m2))
  | L [A "inflb"; dmin; coefs; s; theta; m2] ->
      let f = { lp_dmin = z_of dmin; lp_coefs = list_of q_of coefs; lp_isz = false } in
      sb (check_infnorm_lb f (list_of q_of s) (q_of theta) (q_of m2))
  | L [A "fpclosed"; d; phis; delta; ylo; yhi; tol] ->
      let phis = list_of q_of phis in
      "(" ^ sb (check_fp_closed (nat_of d) phis (q_of delta) (q_of ylo) (q_of yhi) (q_of tol)) ^ " "
      ^ sb (check_y_bracket (nat_of d) (q_of delta) (q_of ylo) (q_of yhi)) ^ " "
      ^ so sz (fp_closed_norm (nat_of d) phis (q_of delta) (q_of ylo) (q_of yhi)) ^ ")"
  | L [A "scale"] -> sz scaleZ
  | _ -> failwith "unknown command"

let () =
  try
    while true do
      let line = input_line stdin in
      if String.length line > 0 then begin
        (try print_string (handle (parse line)) with
         | Failure m -> print_string ("FAIL " ^ m)
         | Not_found -> print_string "FAIL notfound"
         | Stack_overflow -> print_string "FAIL stackoverflow"
         | Division_by_zero -> print_string "FAIL div0");
        print_newline ()
      end
    done
  with End_of_file -> ()
