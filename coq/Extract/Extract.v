(* Extract/Extract.v — extraction of the executable models to OCaml.
   Directives used: ExtrOcamlBasic (bool, option, list, prod, unit, sumbool -> OCaml natives)
   and ExtrOcamlZBigInt (positive, N, Z -> Big_int_Z.big_int).  Nothing else. *)
From Coq Require Import Extraction ExtrOcamlBasic ExtrOcamlZBigInt.
From Coq Require Import ZArith QArith List.
From PyqspV Require Import Base.Ops Base.IntervalZ Base.TrigZ Model.LPolyM Model.LAlgM Model.QInst Model.ExprM Model.ConvM Model.ResponseM Model.PolyGenM Model.FPSearchM Model.Checkers Model.Jac3M.

Definition peval_q := @peval Q OpsQ.
Definition geval_q := @geval Q OpsQ.
Definition lp_get_q := @lp_get Q OpsQ.
Definition lp_norm2_q := @lp_norm2 Q OpsQ.
Definition lp_degree_q := @lp_degree Q.
Definition lp_parity_q := @lp_parity Q.
Definition lp_dmax_q := @lp_dmax Q.
Definition la_degree_q := @la_degree Q.
Definition la_norm2_q := @la_norm2 Q OpsQ.
Definition la_unitarity2_q := @la_unitarity2 Q OpsQ.


Cd "Extract".
Extraction "model.ml" peval_q geval_q lp_get_q lp_norm2_q lp_degree_q lp_parity_q lp_dmax_q
  la_degree_q la_norm2_q la_unitarity2_q
  check_c01 c01_norm check_ipoly ipoly_norm scaleZ
  check_c07 c07_norm check_roundtrip
  check_resp_val resp_dists
  check_completion unit_residual
  check_pcompletion corner_norm_q check_c02 corner_norm_i
  p2l_q c2p_q p2c_q ptlf_q check_p2l check_p2c lp_same
  sym_full_q check_jac_f check_jac_df_col jac_df_col check_im_target im_target_norm
  opp_zero_q degree_guard gen_odd gen_takes_degree scaled_close same_poly_bases check_sup check_sup_mono check_exceeds cheb_at lipq
  fps_layout_q fp_prob_dists
  check_trig_acc check_trig_acc_mono check_inv_acc_scaled check_trig_acc_hi check_trig_acc_hi_cheb check_inv_acc_hi_cheb round_zeros_q
  check_infnorm_ub check_infnorm_lb
  check_fp_closed fp_closed_norm check_y_bracket
  jac3_dists.
Cd "..".
