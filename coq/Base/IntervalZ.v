(* Base/IntervalZ.v — fixed-point interval arithmetic over Z: the interval {| lo; hi |}
   stands for [lo / 2^P, hi / 2^P].  Executable part only; soundness over R is in
   Theory/IntervalT.v. *)
From Coq Require Import ZArith QArith List.
From PyqspV Require Import Base.Ops.
Import ListNotations.
Open Scope Z_scope.

Definition P : Z := 400.
Definition scaleZ : Z := 2 ^ P.

Record I := mkI { lo : Z; hi : Z }.

Definition iadd (a b : I) : I := mkI (lo a + lo b) (hi a + hi b).
Definition ineg (a : I) : I := mkI (- hi a) (- lo a).
Definition isub (a b : I) : I := mkI (lo a - hi b) (hi a - lo b).

(* ceil(x / d) for d > 0 *)
Definition cdiv (x d : Z) : Z := - ((- x) / d).

(* floor / ceiling division by 2^P through shifts (cheap inside vm_compute) *)
Definition fdivS (x : Z) : Z := Z.shiftr x P.
Definition cdivS (x : Z) : Z := - Z.shiftr (- x) P.

Definition imul (a b : I) : I :=
  let p1 := lo a * lo b in let p2 := lo a * hi b in
  let p3 := hi a * lo b in let p4 := hi a * hi b in
  mkI (fdivS (Z.min (Z.min p1 p2) (Z.min p3 p4)))
      (cdivS (Z.max (Z.max p1 p2) (Z.max p3 p4))).

(* division by a positive integer *)
Definition idivZ (a : I) (m : Z) : I := mkI (lo a / m) (cdiv (hi a) m).

Definition iofZ (z : Z) : I := mkI (z * scaleZ) (z * scaleZ).
Definition iofQ (q : Q) : I :=
  mkI (Qnum q * scaleZ / Zpos (Qden q)) (cdiv (Qnum q * scaleZ) (Zpos (Qden q))).

Definition izero : I := mkI 0 0.
Definition ione : I := iofZ 1.

(* upper bound of |x| for x in a, as a scaled integer *)
Definition iabs_ub (a : I) : Z := Z.max (Z.abs (lo a)) (Z.abs (hi a)).
(* lower bound of |x| *)
Definition iabs_lb (a : I) : Z :=
  if 0 <=? lo a then lo a else if hi a <=? 0 then - hi a else 0.

Definition ihull (a b : I) : I := mkI (Z.min (lo a) (lo b)) (Z.max (hi a) (hi b)).
Definition iwidth (a : I) : Z := hi a - lo a.

(* x^2 enclosure (tighter than imul a a is not needed) *)
Definition isqr (a : I) : I := imul a a.

(* square root of a non-negative interval *)
Definition isqrt (a : I) : I :=
  mkI (Z.sqrt (Z.max 0 (lo a) * scaleZ)) (Z.sqrt (Z.max 0 (hi a) * scaleZ) + 1).

Definition OpsI : Ops I := mkOps I izero ione iadd isub imul ineg.

(* sum of the upper bounds of |.| over a list of intervals (a coefficient 1-norm bound) *)
Fixpoint sum_ub (l : list I) : Z := match l with [] => 0 | i :: l => iabs_ub i + sum_ub l end.

(* scaled-integer bound of a rational: q <= ub / 2^P *)
Definition q_le_scaled (q : Q) (ub : Z) : bool := (Qnum q * scaleZ <=? ub * Zpos (Qden q)).
Definition scaled_le_q (v : Z) (q : Q) : bool := (v * Zpos (Qden q) <=? Qnum q * scaleZ).
