(* Base/TrigZ.v — interval enclosures of cos and sin of a rational angle: Taylor partial sums
   (alternating bracket) after halving the angle into [-1,1], doubled back with
   cos 2x = 2 cos^2 x - 1, sin 2x = 2 sin x cos x.  Executable part; soundness in Theory/TrigT.v. *)
From Coq Require Import ZArith QArith Qabs List.
From PyqspV Require Import Base.Ops Base.IntervalZ.
Open Scope Z_scope.

(* partial sums of the cosine series: t encloses x^(2i)/(2i)!, s encloses the i-th partial
   sum; runs [fuel] more terms (one interval product per term) *)
Fixpoint cos_acc (b2 : I) (fuel i : nat) (t s : I) : I :=
  match fuel with
  | O => s
  | S f =>
      let i' := S i in
      let t' := idivZ (imul t b2) (Z.of_nat ((2 * i' - 1) * (2 * i'))) in
      cos_acc b2 f i' t' ((if Nat.even i' then iadd else isub) s t')
  end.
Definition scos (b2 : I) (n : nat) : I := cos_acc b2 n 0 ione ione.

(* sine series: t encloses x^(2i+1)/(2i+1)! *)
Fixpoint sin_acc (b2 : I) (fuel i : nat) (t s : I) : I :=
  match fuel with
  | O => s
  | S f =>
      let i' := S i in
      let t' := idivZ (imul t b2) (Z.of_nat ((2 * i') * (2 * i' + 1))) in
      sin_acc b2 f i' t' ((if Nat.even i' then iadd else isub) s t')
  end.
Definition ssin (b b2 : I) (n : nat) : I := sin_acc b2 n 0 b b.

Definition NT : nat := 24.
Definition itriv : I := mkI (- scaleZ) scaleZ.

(* |a| <= 1 *)
Definition cs_small (a : Q) : I * I :=
  let aa := Qabs a in
  let b := iofQ aa in
  let b2 := imul b b in
  let c := mkI (lo (scos b2 (2 * NT + 1))) (hi (scos b2 (2 * (NT + 1)))) in
  let s := mkI (lo (ssin b b2 (2 * NT + 1))) (hi (ssin b b2 (2 * (NT + 1)))) in
  (c, if Qle_bool 0 a then s else ineg s).

Definition idouble_cs (cs : I * I) : I * I :=
  let c := fst cs in let s := snd cs in
  let c2 := imul c c in
  let sc' := imul s c in
  (isub (iadd c2 c2) ione, iadd sc' sc').

Definition qhalf (a : Q) : Q := Qmake (Qnum a) (2 * Qden a).

Fixpoint cs_rec (fuel : nat) (a : Q) : I * I :=
  if Qle_bool (Qabs a) 1 then cs_small a
  else match fuel with
       | O => (itriv, itriv)
       | S f => idouble_cs (cs_rec f (qhalf a))
       end.

(* (cos a, sin a) enclosures for any rational a *)
Definition cos_sin_encl (a : Q) : I * I := cs_rec 80 a.
