(* Base/Ops.v — the record of ring operations every model function is generic in,
   and the list-level helpers (scale, ladd, conv) shared by all models.
   No proofs about the models live here (Theory/ has them). *)
From Coq Require Import ZArith List.
Import ListNotations.

Record Ops (D : Type) := mkOps {
  d0 : D; d1 : D;
  dadd : D -> D -> D; dsub : D -> D -> D; dmul : D -> D -> D; dneg : D -> D }.
Arguments d0 {D}. Arguments d1 {D}. Arguments dadd {D}. Arguments dsub {D}.
Arguments dmul {D}. Arguments dneg {D}.

Section ListOps.
  Context {D : Type} (O : Ops D).

  Fixpoint scale (a : D) (q : list D) : list D :=
    match q with [] => [] | x :: q => dmul O a x :: scale a q end.

  (* element-wise sum, the longer tail is kept *)
  Fixpoint ladd (p q : list D) : list D :=
    match p, q with
    | [], _ => q
    | _, [] => p
    | x :: p, y :: q => dadd O x y :: ladd p q
    end.

  (* numpy.convolve(p, q) for non-empty operands (full convolution) *)
  Fixpoint conv (p q : list D) : list D :=
    match p with
    | [] => []
    | a :: p' => ladd (scale a q) (d0 O :: conv p' q)
    end.

  Definition lneg (p : list D) : list D := map (dneg O) p.

  Fixpoint lsum (p : list D) : D :=
    match p with [] => d0 O | x :: p => dadd O x (lsum p) end.

  Definition zeros (n : Z) : list D := repeat (d0 O) (Z.to_nat n).
End ListOps.

Definition len {A} (l : list A) : Z := Z.of_nat (length l).

(* Python l[s:e] for s >= 0 and e < 0 (stop counted from the end) *)
Definition py_slice_neg {A} (s e : Z) (l : list A) : list A :=
  firstn (Z.to_nat (len l + e - s)) (skipn (Z.to_nat s) l).

(* Python l[s:] and l[:e] for 0 <= s, e *)
Definition py_from {A} (s : Z) (l : list A) : list A := skipn (Z.to_nat s) l.
Definition py_upto {A} (e : Z) (l : list A) : list A := firstn (Z.to_nat e) l.

(* every second element starting at index 0 / 1:  l[0::2], l[1::2] *)
Fixpoint evens {A} (l : list A) : list A :=
  match l with [] => [] | x :: l' => x :: match l' with [] => [] | _ :: l'' => evens l'' end end.
Definition odds {A} (l : list A) : list A := match l with [] => [] | _ :: l' => evens l' end.

Definition obind {A B} (x : option A) (f : A -> option B) : option B :=
  match x with Some a => f a | None => None end.
Notation "'do' x <- e ; k" := (obind e (fun x => k)) (at level 200, x name, e at level 100, k at level 200).
