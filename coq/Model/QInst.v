(* Model/QInst.v — the exact rational instance of the operations (results kept reduced). *)
From Coq Require Import ZArith QArith Qabs List.
From PyqspV Require Import Base.Ops.
Import ListNotations.

Definition OpsQ : Ops Q := {|
  d0 := 0%Q; d1 := 1%Q;
  dadd := fun x y => Qred (x + y);
  dsub := fun x y => Qred (x - y);
  dmul := fun x y => Qred (x * y);
  dneg := fun x => Qopp x |}.

Definition Qltb (x y : Q) : bool := match Qcompare x y with Lt => true | _ => false end.
Definition Qleb (x y : Q) : bool := match Qcompare x y with Gt => false | _ => true end.
Definition Qeqb (x y : Q) : bool := match Qcompare x y with Eq => true | _ => false end.
Definition Qmaxl (l : list Q) : Q := fold_right (fun x m => if Qltb m x then x else m) 0%Q l.
Definition Qsuml (l : list Q) : Q := fold_right (fun x s => Qred (x + s)) 0%Q l.
Definition Qnorm1 (l : list Q) : Q := Qsuml (map Qabs l).
