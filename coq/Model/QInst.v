(* Model/QInst.v — the exact rational instance of the operations (results kept reduced). *)
From Coq Require Import ZArith QArith Qabs List.
From PyqspV Require Import Base.Ops.
Import ListNotations.

(* Reduction by a Euclidean gcd that uses only Z.modulo / Z.div (which extraction maps to
   native big-integer operations; Qred's binary gcd on positives is not, and is too slow on
   3000-bit numbers).  The divisibility test makes correctness independent of the fuel. *)
Fixpoint gcd_f (f : nat) (a b : Z) : Z :=
  match f with
  | O => 1%Z
  | S f' => if (b =? 0)%Z then Z.abs a else gcd_f f' b (a mod b)%Z
  end.

Definition qred (q : Q) : Q :=
  let n := Qnum q in let d := Zpos (Qden q) in
  let g := gcd_f (S (S (Z.to_nat (2 * Z.log2 d)))) n d in
  if ((1 <? g) && (n mod g =? 0) && (d mod g =? 0))%Z
  then match (d / g)%Z with Zpos d' => Qmake (n / g) d' | _ => q end
  else q.

(* Sum without any gcd when one denominator divides the other (always the case for the
   dyadic rationals that floats are); general fallback through qred. *)
Definition qadd (x y : Q) : Q :=
  let dx := Zpos (Qden x) in let dy := Zpos (Qden y) in
  if (dy mod dx =? 0)%Z then Qmake (Qnum x * (dy / dx) + Qnum y) (Qden y)
  else if (dx mod dy =? 0)%Z then Qmake (Qnum x + Qnum y * (dx / dy)) (Qden x)
  else qred (x + y).

Definition OpsQ : Ops Q := {|
  d0 := 0%Q; d1 := 1%Q;
  dadd := qadd;
  dsub := fun x y => qadd x (Qopp y);
  dmul := Qmult;
  dneg := fun x => Qopp x |}.

Definition Qltb (x y : Q) : bool := match Qcompare x y with Lt => true | _ => false end.
Definition Qleb (x y : Q) : bool := match Qcompare x y with Gt => false | _ => true end.
Definition Qeqb (x y : Q) : bool := match Qcompare x y with Eq => true | _ => false end.
Definition Qmaxl (l : list Q) : Q := fold_right (fun x m => if Qltb m x then x else m) 0%Q l.
Definition Qsuml (l : list Q) : Q := fold_right (fun x s => qadd x s) 0%Q l.
Definition Qnorm1 (l : list Q) : Q := Qsuml (map Qabs l).
