(* Model/Checkers.v — result checkers: boolean functions over exact rationals and interval
   enclosures whose [true] is proved (Theory/CertT.v) to imply a statement about every point
   of a continuum. *)
From Coq Require Import ZArith QArith Qabs List Bool.
From PyqspV Require Import Base.Ops Base.IntervalZ Base.TrigZ Model.LPolyM Model.LAlgM Model.QInst Model.ConvM Model.ResponseM Model.SymQspM Model.PolyGenM Model.FPSearchM.
Import ListNotations.

Fixpoint qlist_eqb_exact (a b : list Q) : bool :=
  match a, b with
  | [], [] => true
  | x :: a, y :: b => Qeq_bool x y && qlist_eqb_exact a b
  | _, _ => false
  end.

Definition lpQ2I (p : lpoly Q) : lpoly I := LP (lp_dmin p) (map iofQ (lp_coefs p)) (lp_isz p).

(* interval enclosures of the Laurent coefficients of R(phi_0) w R(phi_1) ... w R(phi_n) *)
Definition resp_elem (phis : list Q) : option (lalg I) := la_from_angles OpsI (map cos_sin_encl phis).

(* upper bound (scaled by 2^P) of the coefficient 1-norm of A - F *)
Definition norm1_diff (A : lpoly I) (F : lpoly Q) : option Z :=
  do d <- lp_sub OpsI A (lpQ2I F); Some (sum_ub (lp_coefs d)).

(* the identity part of U(phis) equals F within tol on the whole unit circle *)
Definition check_ipoly (phis : list Q) (F : lpoly Q) (tol : Q) : bool :=
  match resp_elem phis with
  | Some g => match norm1_diff (la_I g) F with Some n => scaled_le_q n tol | None => false end
  | None => false
  end.

Definition qisz0 (q : Q) : bool := Qeq_bool q 0.
Definition qhalf1 : Q := 1 # 2.

(* Laurent form of a polynomial given by monomial coefficients, computed exactly *)
Definition target_F (pc : list Q) : option (lpoly Q) := ptlf OpsQ qhalf1 qisz0 pc.

(* Wx/x (= Wz/z) response of phis equals the polynomial pc within tol on [-1,1] *)
Definition check_resp_mono (phis pc : list Q) (tol : Q) : bool :=
  match target_F pc with Some F => check_ipoly phis F tol | None => false end.

(* C01: the capitalised, down-scaled target  suc * (p + eps/2 x^d) *)
Fixpoint add_last (l : list Q) (e : Q) : list Q :=
  match l with
  | [] => []
  | [x] => [qadd x e]
  | x :: l' => x :: add_last l' e
  end.
Definition cap_target (pc : list Q) (eps suc : Q) : list Q :=
  scale OpsQ suc (add_last pc (Qmult eps qhalf1)).
Definition check_c01 (phis pc : list Q) (eps suc tol : Q) : bool :=
  (Nat.eqb (length phis) (length pc)) &&
  check_resp_mono phis (cap_target pc eps suc) (Qmult (100 # 1) tol).

(* diagnostics: the certified upper bound (scaled by 2^P) of the coefficient 1-norm of
   (identity part of U(phis)) - F *)
Definition ipoly_norm (phis : list Q) (F : lpoly Q) : option Z :=
  match resp_elem phis with Some g => norm1_diff (la_I g) F | None => None end.
Definition c01_norm (phis pc : list Q) (eps suc : Q) : option Z :=
  match target_F (cap_target pc eps suc) with Some F => ipoly_norm phis F | None => None end.

(* ---- C07: Laurent entry point.  |A(w)/suc - p(w)| < eps on the circle, certified as
   sum_k |A_k - suc p_k| < suc * eps  (suc > 0) *)
Definition scaled_lt_q (v : Z) (q : Q) : bool := (v * Zpos (Qden q) <? Qnum q * scaleZ)%Z.
Definition c07_target (p : list Q) (suc : Q) : lpoly Q := mk OpsQ (scale OpsQ suc p) (- len p + 1).
Definition c07_norm (phis p : list Q) (suc : Q) : option Z := ipoly_norm phis (c07_target p suc).
Definition check_c07 (phis p : list Q) (eps suc : Q) : bool :=
  Nat.eqb (length phis) (length p) && Qltb 0 suc &&
  match c07_norm phis p suc with Some n => scaled_lt_q n (Qmult suc eps) | None => false end.

(* ---- C06: two phase lists build the same element coefficient-wise within tol, and differ
   by a sign gauge: sin(phi'_j - phi_j) ~ 0 for every j, and an even number of the
   differences is an odd multiple of pi *)
Fixpoint all_ub_le (l : list I) (tol : Q) : bool :=
  match l with [] => true | i :: l => scaled_le_q (iabs_ub i) tol && all_ub_le l tol end.
Definition elem_close (g h : lalg I) (tol : Q) : bool :=
  match la_sub OpsI g h with
  | Some d => all_ub_le (lp_coefs (la_I d)) tol && all_ub_le (lp_coefs (la_X d)) tol
  | None => false
  end.
Fixpoint gauge_ok (a b : list Q) (stol : Q) (parity : bool) : bool :=
  match a, b with
  | [], [] => negb parity
  | x :: a, y :: b =>
      let cs := cos_sin_encl (qadd y (Qopp x)) in
      scaled_le_q (iabs_ub (snd cs)) stol &&
      (if (0 <? lo (fst cs))%Z then gauge_ok a b stol parity
       else if (hi (fst cs) <? 0)%Z then gauge_ok a b stol (negb parity)
       else false)
  | _, _ => false
  end.
Definition check_roundtrip (phis phis' : list Q) (tol stol : Q) : bool :=
  Nat.eqb (length phis) (length phis') &&
  match resp_elem phis, resp_elem phis' with
  | Some g, Some h => elem_close g h tol
  | _, _ => false
  end && gauge_ok phis phis' stol false.

(* ---- C10: complex intervals and the interval evaluation of the defining matrix product *)
Definition CI : Type := (I * I)%type.
Definition ciadd (a b : CI) : CI := (iadd (fst a) (fst b), iadd (snd a) (snd b)).
Definition cineg (a : CI) : CI := (ineg (fst a), ineg (snd a)).
Definition cimul (a b : CI) : CI :=
  (isub (imul (fst a) (fst b)) (imul (snd a) (snd b)), iadd (imul (fst a) (snd b)) (imul (snd a) (fst b))).
Definition OpsCI : Ops CI :=
  mkOps CI (izero, izero) (ione, izero) ciadd (fun a b => ciadd a (cineg b)) cimul cineg.
Definition ciR (i : I) : CI := (i, izero).
Definition ci_i : CI := (izero, ione).
Definition ci_h : CI := ciR (isqrt (iofQ (1 # 2))).
Definition ci_cs (c : I * I) : CI * CI := (ciR (fst c), ciR (snd c)).

Definition resp_encl (wz mx : bool) (a : Q) (phis : list Q) : option CI :=
  match map cos_sin_encl phis with
  | [] => None
  | cs :: l =>
      let ai := iofQ a in
      let si := isqrt (isub ione (imul ai ai)) in
      Some (resp OpsCI ci_i ci_h wz mx (ciR ai) (ciR si) (ci_cs cs) (map ci_cs l))
  end.

(* |enclosure - (re + i im)| <= tol, through |dre| + |dim| *)
Definition resp_dist (e : CI) (re im : Q) : Z :=
  (iabs_ub (isub (fst e) (iofQ re)) + iabs_ub (isub (snd e) (iofQ im)))%Z.
Definition check_resp_val (wz mx : bool) (a : Q) (phis : list Q) (re im tol : Q) : bool :=
  Qleb (-1) a && Qleb a 1 &&
  match resp_encl wz mx a phis with Some e => scaled_le_q (resp_dist e re im) tol | None => false end.

(* batch form: the cos/sin enclosures of the phases are computed once.
   pts: list of (a, (re, im)); the result lists, per point, the certified distance bound
   (scaled by 2^P) or None when a is outside [-1,1] *)
Definition resp_encl_cs (wz mx : bool) (a : Q) (csl : list (I * I)) : option CI :=
  match csl with
  | [] => None
  | cs :: l =>
      let ai := iofQ a in
      let si := isqrt (isub ione (imul ai ai)) in
      Some (resp OpsCI ci_i ci_h wz mx (ciR ai) (ciR si) (ci_cs cs) (map ci_cs l))
  end.
Definition resp_dists (wz mx : bool) (phis : list Q) (pts : list (Q * (Q * Q))) : list (option Z) :=
  let csl := map cos_sin_encl phis in
  map (fun p => if Qleb (-1) (fst p) && Qleb (fst p) 1
                then match resp_encl_cs wz mx (fst p) csl with
                     | Some e => Some (resp_dist e (fst (snd p)) (snd (snd p)))
                     | None => None end
                else None) pts.

(* ---- C04: completion.  Everything in exact rational arithmetic on the returned floats:
   the identity part is F itself on powers -n..n, the X part has the same shape, and every
   coefficient of F F~ + G G~ - 1 is below tol in magnitude. *)
Fixpoint all_abs_lt (l : list Q) (tol : Q) : bool :=
  match l with [] => true | x :: l => Qltb (Qabs x) tol && all_abs_lt l tol end.
Definition unit_residual (F G : lpoly Q) : option (lpoly Q) :=
  do s <- lp_add OpsQ (lp_mul OpsQ F (lp_inv OpsQ F)) (lp_mul OpsQ G (lp_inv OpsQ G));
  lp_sub OpsQ s (lp_Id OpsQ).
Definition shape_ok (n : Z) (p : lpoly Q) : bool :=
  negb (lp_isz p) && (lp_dmin p =? - n)%Z && (len (lp_coefs p) =? n + 1)%Z.
Definition check_completion (Fin : list Q) (g : lalg Q) (tol : Q) : bool :=
  let n := (len Fin - 1)%Z in
  shape_ok n (la_I g) && shape_ok n (la_X g) && qlist_eqb_exact (lp_coefs (la_I g)) Fin &&
  match unit_residual (la_I g) (la_X g) with
  | Some r => all_abs_lt (lp_coefs r) tol
  | None => false
  end.

(* ---- C02 / C05: the Wx corner <0|U_x|0> = sum_k (A_k + i B_k) T_|k|(a).
   corner_diff A Fr = (A + ~A)/2 - Fr  as a Laurent polynomial; with Fr the exact Laurent form of
   the real (imaginary) part of the target polynomial its coefficient 1-norm bounds the distance
   of the real (imaginary) parts of corner and target on all of [-1,1]. *)
Section Corner.
  Context {D : Type} (O : Ops D) (half : D).
  Definition corner_diff (A Fr : lpoly D) : option (lpoly D) :=
    do s <- lp_add O A (lp_inv O A); lp_sub O (lp_scale O half s) Fr.
End Corner.

(* exact rational version (C05): returned element g, target P = Pre + i Pim (monomial coefficients) *)
Definition corner_norm_q (g : lalg Q) (Pre Pim : list Q) : option Q :=
  do Fr <- target_F Pre; do Fi <- target_F Pim;
  do dA <- corner_diff OpsQ qhalf1 (la_I g) Fr;
  do dB <- corner_diff OpsQ qhalf1 (la_X g) Fi;
  Some (qadd (Qnorm1 (lp_coefs dA)) (Qnorm1 (lp_coefs dB))).
Definition check_pcompletion (Pre Pim : list Q) (g : lalg Q) (tol ctol : Q) : bool :=
  match unit_residual (la_I g) (la_X g) with
  | Some r => all_abs_lt (lp_coefs r) tol
  | None => false
  end &&
  match corner_norm_q g Pre Pim with Some n => Qleb n ctol | None => false end.

(* interval version (C02): phases -> element -> corner *)
Definition corner_norm_i (phis Pre Pim : list Q) : option Z :=
  do g <- resp_elem phis;
  do Fr <- target_F Pre; do Fi <- target_F Pim;
  do dA <- corner_diff OpsI (iofQ qhalf1) (la_I g) (lpQ2I Fr);
  do dB <- corner_diff OpsI (iofQ qhalf1) (la_X g) (lpQ2I Fi);
  Some (sum_ub (lp_coefs dA) + sum_ub (lp_coefs dB))%Z.
Definition check_c02 (phis Pre Pim : list Q) (tol : Q) : bool :=
  Nat.eqb (length phis) (length Pre) && Nat.eqb (length Pre) (length Pim) &&
  match corner_norm_i phis Pre Pim with Some n => scaled_le_q n (Qmult (100 # 1) tol) | None => false end.

(* ---- C11: basis conversions over exact rationals *)
Definition thr_1em8 : Q := 3022314549036573 # 302231454903657293676544.   (* the double 1e-8 = 0x1.5798ee2308c3ap-27 *)
Definition qbig (c : Q) : bool := Qltb thr_1em8 (Qabs c).
Definition p2l_q (p : list Q) : option (list Q) := poly2laurent OpsQ qhalf1 qisz0 qbig p.
Definition c2p_q (kindU : bool) (cs : list Q) : list Q := c2p OpsQ kindU cs.
Definition p2c_q (kindU : bool) (p : list Q) : list Q := p2c OpsQ qhalf1 kindU p.
Definition ptlf_q (p : list Q) : option (lpoly Q) := target_F p.

(* two Laurent polynomials denote the same function: their difference has only zero coefficients *)
Definition lp_same (p q : lpoly Q) : bool :=
  match lp_sub OpsQ p q with Some d => forallb qisz0 (lp_coefs d) | None => false end.
(* l (on powers -(len-1) .. len-1) is the Laurent form of the polynomial p *)
Definition check_p2l (p l : list Q) : bool :=
  match target_F p with Some F => lp_same F (mk OpsQ l (- len l + 1)) | None => false end.
(* instance certificate for poly2cheb: converting back with the (proved) cheb2poly gives p *)
Definition check_p2c (kindU : bool) (p : list Q) : bool := qlist_eqb_exact (c2p_q kindU (p2c_q kindU p)) p.

(* ---- C12 / C13: symmetric QSP *)
Definition sym_full_q (odd : bool) (red : list Q) : option (list Q) := sym_full OpsQ odd red.

(* the Laurent polynomial  sum_j f_j (w^m_j + w^-m_j)/2,  m_j = 2j + parity  (= sum_j f_j T_{m_j}(a)) *)
Definition cheb_to_laurent (odd : bool) (f : list Q) : lpoly Q :=
  let h := map (Qmult qhalf1) f in
  if odd then mk OpsQ (rev h ++ h) (- (2 * len f - 1))
  else match h, f with
       | _ :: ht, f0 :: _ => mk OpsQ (rev ht ++ [f0] ++ ht) (- (2 * len f - 2))
       | _, _ => mk OpsQ [] 0
       end.

(* Jacobian routine, value part: f_j = Chebyshev coefficient (index 2j+parity) of Im <0|U|0>,
   i.e. of sum_k B_k T_|k|(a) with B the X part of the element of the full phases; all other
   Chebyshev coefficients of that imaginary part vanish.  Coefficient-wise certificate. *)
Definition jac_f_diff (odd : bool) (red f : list Q) : option (lpoly I) :=
  do full <- sym_full_q odd red;
  do g <- resp_elem full;
  corner_diff OpsI (iofQ qhalf1) (la_X g) (lpQ2I (cheb_to_laurent odd f)).
Definition check_jac_f (odd : bool) (red f : list Q) (tol : Q) : bool :=
  Nat.eqb (length red) (length f) &&
  match jac_f_diff odd red f with Some d => all_ub_le (lp_coefs d) (Qmult qhalf1 tol) | None => false end.

(* dual numbers over intervals: (value, derivative) *)
Definition DI : Type := (I * I)%type.
Definition OpsDI : Ops DI :=
  mkOps DI (izero, izero) (ione, izero)
    (fun a b => (iadd (fst a) (fst b), iadd (snd a) (snd b)))
    (fun a b => (isub (fst a) (fst b), isub (snd a) (snd b)))
    (fun a b => (imul (fst a) (fst b), iadd (imul (snd a) (fst b)) (imul (fst a) (snd b))))
    (fun a => (ineg (fst a), ineg (snd a))).
(* (cos, sin) of a phase that depends on the parameter with integer slope m *)
Definition dual_cs (phi : Q) (m : nat) : DI * DI :=
  let cs := cos_sin_encl phi in
  let mi := iofZ (Z.of_nat m) in
  ((fst cs, ineg (imul mi (snd cs))), (snd cs, imul mi (fst cs))).
Definition jac_elem_dual (odd : bool) (red : list Q) (k : nat) : option (lalg DI) :=
  do full <- sym_full_q odd red;
  la_from_angles OpsDI (map (fun pm => dual_cs (fst pm) (snd pm)) (combine full (sym_full_weights odd (length red) k))).
(* enclosures of d f_j / d red_k for j = 0 .. n-1 *)
Definition jac_df_col (odd : bool) (red : list Q) (k : nat) : option (list I) :=
  do g <- jac_elem_dual odd red k;
  do s <- lp_add OpsDI (la_X g) (lp_inv OpsDI (la_X g));
  Some (map (fun j => let m := (2 * Z.of_nat j + (if odd then 1 else 0))%Z in
                      let c := snd (lp_get OpsDI s m) in
                      if (m =? 0)%Z then idivZ c 2 else c)
            (seq 0 (length red))).
Definition check_jac_df_col (odd : bool) (red : list Q) (k : nat) (col : list Q) (tol : Q) : bool :=
  match jac_df_col odd red k with
  | Some encl => Nat.eqb (length encl) (length col) &&
                 forallb (fun ic => scaled_le_q (iabs_ub (isub (fst ic) (iofQ (snd ic)))) tol) (combine encl col)
  | None => false
  end.

(* C13: the imaginary part of the Wx response of the protocol equals the target Chebyshev series
   sum_j c_j T_{2j+parity} within tol on all of [-1,1] (1-norm certificate) *)
Definition check_im_target (odd : bool) (red c : list Q) (tol : Q) : bool :=
  Nat.eqb (length red) (length c) &&
  match jac_f_diff odd red c with Some d => scaled_le_q (sum_ub (lp_coefs d)) tol | None => false end.
Definition im_target_norm (odd : bool) (red c : list Q) : option Z :=
  match jac_f_diff odd red c with Some d => Some (sum_ub (lp_coefs d)) | None => None end.

Definition scaled_lt_q' (q : Q) (v : Z) : bool := (Qnum q * scaleZ <? v * Zpos (Qden q))%Z.

(* ---- C15 (and the sup-norm clauses of C09, C16): certified bound of a Chebyshev series on all
   of [-1,1].  The series  sum_k c_k T_k(cos t) = sum_k c_k cos(k t)  is evaluated at the centres
   of cells [t_c - r, t_c + r] covering [0, 4] (>= [0, pi]); on a cell it moves by at most
   r * sum_k k |c_k|. *)
Fixpoint cheb_sum_I (c : list I) (x tk tk1 : I) : I :=
  match c with
  | [] => izero
  | ck :: c' => iadd (imul ck tk) (cheb_sum_I c' x tk1 (isub (imul (iadd x x) tk1) tk))
  end.
Definition cheb_at (c : list Q) (theta : Q) : I :=
  let x := fst (cos_sin_encl theta) in cheb_sum_I (map iofQ c) x ione x.
Fixpoint lip_from (k : Z) (c : list Q) : Q :=
  match c with [] => 0 | ck :: c' => qadd (Qmult (inject_Z k) (Qabs ck)) (lip_from (k + 1) c') end.
Definition lipq (c : list Q) : Q := lip_from 0 c.
Definition cell_ok (c : list Q) (L M : Q) (cell : Q * Q) : bool :=
  let th := fst cell in let r := snd cell in
  Qleb 0 r && scaled_le_q (iabs_ub (cheb_at c th)) (qadd M (Qopp (Qmult r L))).
Fixpoint cover_ok (cells : list (Q * Q)) (reach : Q) : bool :=
  match cells with
  | [] => Qltb 4 reach
  | cell :: cs =>
      let th := fst cell in let r := snd cell in
      Qleb (qadd th (Qopp r)) reach &&
      cover_ok cs (if Qleb reach (qadd th r) then qadd th r else reach)
  end.
Definition check_sup (c : list Q) (cells : list (Q * Q)) (M : Q) : bool :=
  cover_ok cells 0 && forallb (cell_ok c (lipq c) M) cells.

(* monomial input: convert with the (instance-certified) exact poly2cheb, then bound *)
Definition check_sup_mono (p : list Q) (cells : list (Q * Q)) (M : Q) : bool :=
  check_p2c false p && check_sup (p2c_q false p) cells M.
(* certified violation: at the angle theta the series exceeds M in modulus *)
Definition check_exceeds (c : list Q) (theta M : Q) : bool := scaled_lt_q' M (iabs_lb (cheb_at c theta)).

(* ---- C14 / C17: generators *)
Definition opp_zero_q (odd : bool) (l : list Q) : bool := opp_zero qisz0 odd l.
Fixpoint all_close (a b : list Q) (tol : Q) : bool :=
  match a, b with
  | [], [] => true
  | x :: a, y :: b => Qleb (Qabs (qadd x (Qopp y))) tol && all_close a b tol
  | _, _ => false
  end.
(* bounded = s * unbounded, coefficient-wise within tol *)
Definition scaled_close (b u : list Q) (s tol : Q) : bool := all_close b (scale OpsQ s u) tol.
(* Chebyshev-basis output and monomial-basis output denote the same polynomial *)
Definition same_poly_bases (cheb mono : list Q) (tol : Q) : bool := all_close (c2p_q false cheb) mono tol.

(* ---- C18: fixed-point search.  Success probability |<0| R prod_k Z(phi_k) R |0>|^2 at overlap
   lambda = a^2, enclosed by complex-interval evaluation of the reflection sequence *)
Definition fps_layout_q (alpha : list Q) : list Q := fps_phivec (fun x => Qmult (-1 # 2) x) alpha.
Definition fp_prob_encl (a : Q) (csl : list (I * I)) : I :=
  let ai := iofQ a in
  let si := isqrt (isub ione (imul ai ai)) in
  let amp := fp_amplitude OpsCI ci_i (ciR ai) (ciR si) (map ci_cs csl) in
  iadd (imul (fst amp) (fst amp)) (imul (snd amp) (snd amp)).
(* per point (a, P): certified bound (scaled) of |prob(a^2) - P|, None if a is outside [0,1] *)
Definition fp_prob_dists (phis : list Q) (pts : list (Q * Q)) : list (option Z) :=
  let csl := map cos_sin_encl phis in
  map (fun p => if Qleb 0 (fst p) && Qleb (fst p) 1
                then Some (iabs_ub (isub (fp_prob_encl (fst p) csl) (iofQ (snd p)))) else None) pts.

(* ---- C16: accuracy of the cosine / sine / 1/x generators on the continuum.
   Same cell-cover scheme as check_sup; the target is evaluated at the cell centres from verified
   enclosures: cos(tau * x), sin(tau * x) for x in an interval X through a rational point of X and
   the Lipschitz constant |tau|; 1/x by interval division. *)
Definition q_of_lo (x : I) : Q := match scaleZ with Zpos p => Qmake (lo x) p | _ => 0 end.
Definition cs_scaled (tau : Q) (x : I) : I * I :=
  let q := q_of_lo x in
  let cs := cos_sin_encl (Qmult tau q) in
  let w := (hi x - lo x)%Z in
  let e := imul (iofQ tau) (mkI (- w) w) in
  let e' := ihull e (ineg e) in
  (iadd (fst cs) e', iadd (snd cs) e').
(* 1/x for an interval with positive lower bound *)
Definition iinv_pos (x : I) : I := mkI ((scaleZ * scaleZ) / hi x) (cdiv (scaleZ * scaleZ) (lo x)).

Definition cell_ok_trig (usesin : bool) (c : list Q) (s tau L eps : Q) (cell : Q * Q) : bool :=
  let th := fst cell in let r := snd cell in
  let x := fst (cos_sin_encl th) in
  let t := cs_scaled tau x in
  let target := imul (iofQ s) (if usesin then snd t else fst t) in
  Qleb 0 r && scaled_le_q (iabs_ub (isub (cheb_sum_I (map iofQ c) x ione x) target)) (qadd eps (Qopp (Qmult r L))).
(* |sum_k c_k T_k(x) - s cos(tau x)| <= eps (resp. sin) for every x in [-1,1] *)
Definition check_trig_acc (usesin : bool) (c : list Q) (s tau : Q) (cells : list (Q * Q)) (eps : Q) : bool :=
  Qleb 0 s &&
  cover_ok cells 0 && forallb (cell_ok_trig usesin c s tau (qadd (lipq c) (Qmult s (Qabs tau))) eps) cells.

Fixpoint cover_upto (cells : list (Q * Q)) (reach stop : Q) : bool :=
  match cells with
  | [] => Qltb stop reach
  | cell :: cs =>
      let th := fst cell in let r := snd cell in
      Qleb (qadd th (Qopp r)) reach &&
      cover_upto cs (if Qleb reach (qadd th r) then qadd th r else reach) stop
  end.
Definition cell_ok_inv (c : list Q) (kinv L tol : Q) (cell : Q * Q) : bool :=
  let th := fst cell in let r := snd cell in
  let x := fst (cos_sin_encl th) in
  Qleb 0 r && Qleb 0 th && Qleb th 2 &&
  q_le_scaled kinv (lo x) && (0 <? lo x)%Z &&
  scaled_le_q (iabs_ub (isub (cheb_sum_I (map iofQ c) x ione x) (iinv_pos x))) (qadd tol (Qopp (Qmult r L))).
(* |sum_k c_k T_k(x) - 1/x| <= tol for every x in [1/kappa, 1];  kinv = 1/kappa, k2 >= kappa^2,
   thmax: a rational angle in [0,2] with cos thmax <= 1/kappa (checked) *)
Definition check_inv_acc (c : list Q) (kinv k2 thmax : Q) (cells : list (Q * Q)) (tol : Q) : bool :=
  Qltb 0 kinv && Qleb 1 (Qmult (Qmult kinv kinv) k2) &&
  Qleb 0 thmax && Qleb thmax 2 && scaled_le_q (hi (fst (cos_sin_encl thmax))) kinv &&
  cover_upto cells 0 thmax && forallb (cell_ok_inv c kinv (qadd (lipq c) k2) tol) cells.

(* monomial-basis input: through the exact poly2cheb model and its instance certificate *)
Definition check_trig_acc_mono (usesin : bool) (p : list Q) (s tau : Q) (cells : list (Q * Q)) (eps : Q) : bool :=
  check_p2c false p && check_trig_acc usesin (p2c_q false p) s tau cells eps.
(* p / scale, exactly *)
Definition qdiv_list (c : list Q) (scale : Q) : list Q := map (fun x => Qmult x (Qinv scale)) c.
Definition check_inv_acc_scaled (c : list Q) (scale kappa thmax : Q) (cells : list (Q * Q)) (tol : Q) : bool :=
  Qltb 0 scale && Qltb 0 kappa &&
  check_inv_acc (qdiv_list c scale) (Qinv kappa) (Qmult kappa kappa) thmax cells tol.

(* ---- C16, high order (small eps).  On a cell |x - x0| <= r with |tau| r <= 1:
     p(x0 + d) = sum_k a_k d^k                                  (Taylor shift, interval coefficients)
     s cos(tau (x0 + d)) = s (A C(tau d) - B S(tau d)) + rem,   A = cos(tau x0), B = sin(tau x0),
   C, S the Taylor sums through order K - 1 (K = 4n + 4), |rem| <= s (|tau r|^K / K! + |tau r|^(K+1) / (K+1)!).
   The certificate is  sum_k |a_k - s t_k| r^k + rem <= eps  on every cell of a cover of [-1, 1]. *)
Section ShiftAt.
  Context {D : Type} (O : Ops D).
  Fixpoint pshift_at (p : list D) (x0 : D) : list D :=
    match p with
    | [] => []
    | a :: p' => let q := pshift_at p' x0 in ladd O [a] (ladd O (scale O x0 q) (pshift O q))
    end.
End ShiftAt.
(* tau^k / k!  for k = k0, k0+1, ... (n terms), exactly *)
Fixpoint tfl (tau : Q) (n k : nat) (f : Q) : list Q :=
  match n with
  | 0%nat => []
  | S n' => f :: tfl tau n' (S k) (Qmult f (Qmult tau (1 # Pos.of_nat (S k))))
  end.
(* sign pattern of the k-th Taylor coefficient of cos(a + u) = A cos u - B sin u (resp. sin(a + u) = B cos u + A sin u) *)
Definition gam (usesin : bool) (A B : I) (k : nat) : I :=
  let base := if Nat.even k then (if usesin then B else A) else (if usesin then A else ineg B) in
  if Nat.even (Nat.div2 k) then base else ineg base.
Fixpoint tcoefs (usesin : bool) (A B : I) (fl : list Q) (k : nat) : list I :=
  match fl with
  | [] => []
  | f :: fl' => imul (gam usesin A B k) (iofQ f) :: tcoefs usesin A B fl' (S k)
  end.
Fixpoint abs_horner (l : list I) (r : I) : I :=
  match l with
  | [] => izero
  | d :: l' => iadd (mkI 0 (iabs_ub d)) (imul r (abs_horner l' r))
  end.
Fixpoint qpow (q : Q) (n : nat) : Q := match n with 0%nat => 1 | S n' => Qmult q (qpow q n') end.
Definition cell_ok_hi (usesin : bool) (p : list Q) (s tau eps : Q) (K : nat) (cell : Q * Q) : bool :=
  let x0 := fst cell in let r := snd cell in
  let fl := tfl tau (K + 2) 0 1 in
  let cs := cos_sin_encl (Qmult tau x0) in
  let a := pshift_at OpsI (map iofQ p) (iofQ x0) in
  let t := tcoefs usesin (fst cs) (snd cs) (firstn K fl) 0 in
  let d := ladd OpsI a (lneg OpsI (scale OpsI (iofQ s) t)) in
  let rem := Qmult s (qadd (Qmult (Qabs (nth K fl 0%Q)) (qpow r K)) (Qmult (Qabs (nth (S K) fl 0%Q)) (qpow r (S K)))) in
  Qleb 0 r && Qleb (Qmult (Qabs tau) r) 1 &&
  scaled_le_q (hi (abs_horner d (iofQ r))) (qadd eps (Qopp rem)).
(* cells (x0, r) in x-space covering [-1, 1]: cover_upto cells (-1) 1 *)
(* |p(x) - s cos(tau x)| <= eps (resp. sin) for every x in [-1,1]; p in the monomial basis; K = 4n+4 *)
Definition check_trig_acc_hi (usesin : bool) (p : list Q) (s tau : Q) (cells : list (Q * Q)) (n : nat) (eps : Q) : bool :=
  Qleb 0 s && cover_upto cells (-1) 1 && forallb (cell_ok_hi usesin p s tau eps (4 * n + 4)) cells.
(* Chebyshev-basis input through the exact cheb2poly *)
Definition check_trig_acc_hi_cheb (usesin : bool) (c : list Q) (s tau : Q) (cells : list (Q * Q)) (n : nat) (eps : Q) : bool :=
  check_trig_acc_hi usesin (c2p_q false c) s tau cells n eps.

(* ---- C16, 1/x, high order.  On a cell |x - x0| <= r < x0:
     1/(x0 + d) = sum_{k<K} (-1)^k d^k / x0^(k+1) + (-d/x0)^K / (x0 + d),   |remainder| <= (r/x0)^K / (x0 - r). *)
Fixpoint invcoefs (n : nat) (g ninv : Q) : list Q :=        (* g = (-1)^k / x0^(k+1), ninv = -1/x0 *)
  match n with 0%nat => [] | S n' => g :: invcoefs n' (Qmult g ninv) ninv end.
Definition cell_ok_inv_hi (p : list Q) (tol : Q) (K : nat) (cell : Q * Q) : bool :=
  let x0 := fst cell in let r := snd cell in
  let xi := Qinv x0 in
  let a := pshift_at OpsI (map iofQ p) (iofQ x0) in
  let t := map iofQ (invcoefs K xi (Qopp xi)) in
  let d := ladd OpsI a (lneg OpsI t) in
  let rem := Qmult (qpow (Qmult r xi) K) (Qinv (qadd x0 (Qopp r))) in
  Qleb 0 r && Qltb r x0 &&
  scaled_le_q (hi (abs_horner d (iofQ r))) (qadd tol (Qopp rem)).
(* |p(x)/scale - 1/x| <= tol for every x in [1/kappa, 1]; p in the monomial basis *)
Definition check_inv_acc_hi (p : list Q) (scale kappa : Q) (cells : list (Q * Q)) (K : nat) (tol : Q) : bool :=
  Qltb 0 scale && Qltb 0 kappa &&
  cover_upto cells (Qinv kappa) 1 && forallb (cell_ok_inv_hi (qdiv_list p scale) tol K) cells.
Definition check_inv_acc_hi_cheb (c : list Q) (scale kappa : Q) (cells : list (Q * Q)) (K : nat) (tol : Q) : bool :=
  check_inv_acc_hi (c2p_q false c) scale kappa cells K tol.

(* ---- C09: round_zeros(thresh) on the coefficient list *)
Definition round_zeros_q (th : Q) (l : list Q) : list Q := map (fun c => if Qltb (Qabs c) th then 0%Q else c) l.

(* ---- C09: the sup norm of a real-coefficient Laurent polynomial on the unit circle.
   |f(w)|^2 = (f * ~f)(w) = sum_m s_m cos(2 m t); the series s is supplied and verified by an exact
   Laurent-polynomial comparison, then bounded by the sup certificate. *)
Definition autocorr_is (f : lpoly Q) (s : list Q) : bool :=
  negb (lp_isz f) && lp_same (lp_mul OpsQ f (lp_inv OpsQ f)) (cheb_to_laurent false s).
Definition check_infnorm_ub (f : lpoly Q) (s : list Q) (cells : list (Q * Q)) (M2 : Q) : bool :=
  autocorr_is f s && check_sup s cells M2.
Definition check_infnorm_lb (f : lpoly Q) (s : list Q) (theta m2 : Q) : bool :=
  autocorr_is f s && check_exceeds s theta m2.

(* ---- C18, all overlaps at once.  With a = cos t, sqrt(1-lambda) = |sin t|, L = 2d+1 (odd):
     success probability  P(t) = SA(w)^2 + SB(w)^2,  SA = (A + ~A)/2, SB = (B + ~B)/2  for the element
       A + B iX = R(pi/2) w R(phi_1 - pi/2) w ... w R(phi_n - pi/2) w R(0)      (w = e^{it}),
     closed form          C(t) = 1 - delta^2 T_L(y sin t)^2 = 1 + delta^2 V_L(w)^2,
       V_1 = y (w - 1/w)/2 = i y sin t,  V_k = i^k T_k(y sin t)  by the doubling formulas (log2 L levels, so that
       interval widths stay small).
   Both are Laurent polynomials with real coefficients bounded by 1/delta; the certificate bounds the
   coefficient 1-norm of their difference, for every y in [ylo, yhi]. *)
Section VDbl.
  Context {D : Type} (O : Ops D).
  Definition sg_of (k : nat) : D := if Nat.even k then d1 O else dneg O (d1 O).     (* (-1)^k *)
  Definition two_of : D := dadd O (d1 O) (d1 O).
  (* (V_k, V_{k+1}) for k = p, by the doubling formulas
       V_2k = 2 V_k^2 - (-1)^k,  V_2k+1 = 2 V_k V_k+1 - (-1)^k V_1,  V_2k+2 = 2 V_k+1^2 + (-1)^k *)
  Fixpoint v_pair (p : positive) (X1 : lpoly D) : option (lpoly D * lpoly D) :=
    match p with
    | xH => do v2 <- lp_add O (lp_scale O two_of (lp_mul O X1 X1)) (lp_Id O); Some (X1, v2)
    | xO q =>
        do ab <- v_pair q X1;
        let sg := sg_of (Pos.to_nat q) in
        do e <- lp_sub O (lp_scale O two_of (lp_mul O (fst ab) (fst ab))) (lp_scale O sg (lp_Id O));
        do f <- lp_sub O (lp_scale O two_of (lp_mul O (fst ab) (snd ab))) (lp_scale O sg X1);
        Some (e, f)
    | xI q =>
        do ab <- v_pair q X1;
        let sg := sg_of (Pos.to_nat q) in
        do e <- lp_sub O (lp_scale O two_of (lp_mul O (fst ab) (snd ab))) (lp_scale O sg X1);
        do f <- lp_add O (lp_scale O two_of (lp_mul O (snd ab) (snd ab))) (lp_scale O sg (lp_Id O));
        Some (e, f)
    end.
End VDbl.

Definition shifted_cs (phis : list Q) : list (I * I) :=
  (izero, ione) :: map (fun p => let cs := cos_sin_encl p in (snd cs, ineg (fst cs))) phis ++ [(ione, izero)].
Definition sym_part_I (A : lpoly I) : option (lpoly I) := corner_diff OpsI (iofQ qhalf1) A (mk OpsI [] 0).
Definition wdiff_poly : lpoly I := LP (-1) [ineg ione; ione] false.       (* w - 1/w *)
Definition fp_closed_diff (d : nat) (phis : list Q) (delta ylo yhi : Q) : option (lpoly I) :=
  let L := (2 * d + 1)%nat in
  do g <- la_from_angles OpsI (shifted_cs phis);
  do sa <- sym_part_I (la_I g);
  do sb <- sym_part_I (la_X g);
  do p <- lp_add OpsI (lp_mul OpsI sa sa) (lp_mul OpsI sb sb);
  let y := ihull (iofQ ylo) (iofQ yhi) in
  let X1 := lp_scale OpsI (imul (iofQ qhalf1) y) wdiff_poly in
  do vv <- v_pair OpsI (Pos.of_nat L) X1;
  let vL := fst vv in
  let d2 := imul (iofQ delta) (iofQ delta) in
  do c <- lp_add OpsI (lp_Id OpsI) (lp_scale OpsI d2 (lp_mul OpsI vL vL));
  lp_sub OpsI p c.
Definition check_fp_closed (d : nat) (phis : list Q) (delta ylo yhi tol : Q) : bool :=
  Nat.eqb (length phis) (2 * d) && Qleb ylo yhi &&
  match fp_closed_diff d phis delta ylo yhi with Some df => scaled_le_q (sum_ub (lp_coefs df)) tol | None => false end.
(* the bracket of y = T_{1/L}(1/delta): 1 <= ylo, T_L(ylo) <= 1/delta <= T_L(yhi), exactly *)
Definition check_y_bracket (d : nat) (delta ylo yhi : Q) : bool :=
  let tl := chebP OpsQ false (2 * d + 1) in
  let ev (x : Q) := fold_right (fun c acc => qadd c (Qmult x acc)) 0%Q tl in
  Qltb 0 delta && Qleb 1 ylo && Qleb ylo yhi && Qleb (Qmult delta (ev ylo)) 1 && Qleb 1 (Qmult delta (ev yhi)).
Definition fp_closed_norm (d : nat) (phis : list Q) (delta ylo yhi : Q) : option Z :=
  match fp_closed_diff d phis delta ylo yhi with Some df => Some (sum_ub (lp_coefs df)) | None => None end.
