(* Model/CliM.v — main.CommandLine: command dispatch and the float_list option parser.
   Strings are lists of characters; float() of a token is an oracle (the model returns tokens). *)
From Coq Require Import List Bool Ascii String.
Import ListNotations.
Open Scope string_scope.

(* which library objects a command uses *)
Inductive cligen := CCosSin | CInvert | CGibbs | CEfilter | CSoftplus | CSign | CThresh | CPhase | CRect | CInvRect | CLinAmp.
Inductive action :=
| APoly2Angles                 (* --poly handed to the phase finder *)
| AGen (g : cligen)            (* generator called with the seqargs, ensure_bounded, return_scale; then the phase finder *)
| AFpsearch                    (* FPSearch generate with the seqargs: phases, no phase finder *)
| APolyByName | AAnglesByName | APolyfunc | AResponse
| AHelp.                       (* unknown command: help text, no phases *)

Definition dispatch (cmd : string) : action :=
  if cmd =? "poly2angles" then APoly2Angles
  else if cmd =? "hamsim" then AGen CCosSin
  else if cmd =? "fpsearch" then AFpsearch
  else if cmd =? "invert" then AGen CInvert
  else if cmd =? "gibbs" then AGen CGibbs
  else if cmd =? "efilter" then AGen CEfilter
  else if cmd =? "relu" then AGen CSoftplus
  else if cmd =? "poly_sign" then AGen CSign
  else if cmd =? "poly_thresh" then AGen CThresh
  else if cmd =? "poly_phase" then AGen CPhase
  else if cmd =? "poly_rect" then AGen CRect
  else if cmd =? "invert_rect" then AGen CInvRect
  else if cmd =? "poly_linear_amp" then AGen CLinAmp
  else if cmd =? "poly" then APolyByName
  else if cmd =? "angles" then AAnglesByName
  else if cmd =? "polyfunc" then APolyfunc
  else if cmd =? "response" then AResponse
  else AHelp.

Definition known_commands : list string :=
  ["poly2angles"; "hamsim"; "fpsearch"; "invert"; "gibbs"; "efilter"; "relu"; "poly_sign"; "poly_thresh"; "poly_phase";
   "poly_rect"; "invert_rect"; "poly_linear_amp"; "poly"; "angles"; "polyfunc"; "response"].

(* ---- float_list: split on commas or, for a bracketed value without commas, split the inside on spaces
   and drop empty tokens *)
Definition str := list ascii.
Fixpoint split_on (sep : ascii) (s : str) (cur : str) : list str :=
  match s with
  | [] => [rev cur]
  | c :: s' => if Ascii.eqb c sep then rev cur :: split_on sep s' [] else split_on sep s' (c :: cur)
  end.
Definition has (c : ascii) (s : str) : bool := existsb (Ascii.eqb c) s.
Definition nonempty (t : str) : bool := match t with [] => false | _ => true end.
Definition comma : ascii := ","%char.
Definition space : ascii := " "%char.
Definition lbr : ascii := "["%char.
Definition rbr : ascii := "]"%char.
Definition float_list_tokens (v : str) : list str :=
  match v with
  | c0 :: rest =>
      if negb (has comma v) && Ascii.eqb c0 lbr && (match rev rest with cl :: _ => Ascii.eqb cl rbr | [] => false end)
      then filter nonempty (split_on space (removelast rest) [])
      else split_on comma v []
  | [] => split_on comma v []
  end.

Fixpoint join (sep : ascii) (toks : list str) : str :=
  match toks with
  | [] => []
  | t :: ts => match ts with [] => t | _ => app t (sep :: join sep ts) end
  end.
