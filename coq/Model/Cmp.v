(* Model/Cmp.v — boolean comparisons of model values over Q, used by the in-Coq
   re-evaluation of correspondence cases. *)
From Coq Require Import ZArith QArith List Bool.
From PyqspV Require Import Base.Ops Model.LPolyM Model.LAlgM Model.QInst.
Import ListNotations.

Fixpoint qlist_eqb (a b : list Q) : bool :=
  match a, b with
  | [], [] => true
  | x :: a, y :: b => Qeq_bool x y && qlist_eqb a b
  | _, _ => false
  end.

Definition lp_eqb (p q : lpoly Q) : bool :=
  (lp_dmin p =? lp_dmin q)%Z && Bool.eqb (lp_isz p) (lp_isz q) && qlist_eqb (lp_coefs p) (lp_coefs q).

Definition lpoly_eqb (a b : option (lpoly Q)) : bool :=
  match a, b with
  | Some p, Some q => lp_eqb p q
  | None, None => true
  | _, _ => false
  end.

Definition lalg_eqb (a b : option (lalg Q)) : bool :=
  match a, b with
  | Some g, Some h => lp_eqb (la_I g) (la_I h) && lp_eqb (la_X g) (la_X h)
  | None, None => true
  | _, _ => false
  end.
