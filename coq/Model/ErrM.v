(* Model/ErrM.v — which documented error answers a malformed request (option validation of
   QuantumSignalProcessingPhases, completion_from_root_finding, ComputeQSPResponse).
   None = the request passes validation and the numerical pipeline runs. *)
From Coq Require Import List Bool String.
Import ListNotations.
Open Scope string_scope.

Inductive exc := CompletionError | AngleFindingError | ResponseError | ValueError.

(* QuantumSignalProcessingPhases(poly, signal_operator, measurement, method) *)
Definition default_measurement (so : string) (m : option string) : option string :=
  match m with
  | Some x => Some x
  | None => if so =? "Wx" then Some "x" else if so =? "Wz" then Some "z" else None
  end.
Inductive qmodel := MFreal | MPcomplex.          (* ("Wx","x") / ("Wz","z")  vs  ("Wx","z") *)
Definition qspp_validate (so : string) (m : option string) (method : string) : exc + qmodel :=
  if method =? "tf" then
    (if so =? "Wx" then inr MFreal (* tensorflow path: out of scope, not modelled further *) else inl ValueError)
  else if negb (method =? "laurent") then inl ValueError
  else match default_measurement so m with
       | Some mm =>
           if ((so =? "Wx") && (mm =? "x")) || ((so =? "Wz") && (mm =? "z")) then inr MFreal
           else if (so =? "Wx") && (mm =? "z") then inr MPcomplex
           else inl ValueError
       | None => inl ValueError
       end.

(* completion_from_root_finding(coefs, coef_type) *)
Definition completion_validate (coef_type : string) : option exc :=
  if (coef_type =? "F") || (coef_type =? "f") || (coef_type =? "P") || (coef_type =? "p") then None else Some CompletionError.

(* ComputeQSPResponse(adat, phiset, signal_operator, measurement) *)
Definition response_validate (so : string) (m : option string) : option exc :=
  if negb ((so =? "Wx") || (so =? "Wz")) then Some ResponseError
  else match default_measurement so m with
       | Some mm => if (mm =? "x") || (mm =? "z") then None else Some ResponseError
       | None => Some ResponseError
       end.

(* outcome of a phase-finding request whose options are valid: the kernel events the pipeline
   distinguishes, and the documented class each is answered with *)
Inductive kernel_event :=
| KMixedParity            (* poly2laurent finds both parities *)
| KNoRootSelected         (* no root of 1 - F F~ inside the unit circle *)
| KResidualTooLarge       (* completion post-condition fails *)
| KReconstructionOff      (* 100-point self-check above tolerance *)
| KFine.
Definition event_outcome (e : kernel_event) : option exc :=
  match e with
  | KMixedParity => Some AngleFindingError
  | KNoRootSelected => Some CompletionError
  | KResidualTooLarge => Some CompletionError
  | KReconstructionOff => Some AngleFindingError
  | KFine => None
  end.
(* the tree as found answered KNoRootSelected with OverflowError (int(floor(log2(0)))) *)
Inductive exc_as_found := Documented (e : exc) | OverflowErrorAsFound.
Definition event_outcome_as_found (e : kernel_event) : option exc_as_found :=
  match e with
  | KNoRootSelected => Some OverflowErrorAsFound
  | _ => match event_outcome e with Some x => Some (Documented x) | None => None end
  end.
