(* Model/LAlgM.v — executable model of pyqsp.LPoly.LAlg (elements A + B*iX), generic in the
   coefficient operations; follows the Python methods line by line.  [None] = an
   assertion failing inside the method. *)
From Coq Require Import ZArith List Bool.
From PyqspV Require Import Base.Ops Model.LPolyM.
Import ListNotations.
Open Scope Z_scope.

Record lalg (D : Type) := LA { la_I : lpoly D; la_X : lpoly D }.
Arguments LA {D}. Arguments la_I {D}. Arguments la_X {D}.

Section LAlg.
  Context {D : Type} (O : Ops D).
  Notation lpoly := (lpoly D).
  Notation lalg := (lalg D).

  (* LAlg.__init__ : asserts parity consistency *)
  Definition la_mk (i x : lpoly) : option lalg :=
    if lp_isconsistent i x then Some (LA i x) else None.

  Definition la_degree (g : lalg) : Z := Z.max (lp_degree (la_I g)) (lp_degree (la_X g)).
  Definition la_norm2 (g : lalg) : D := dadd O (lp_norm2 O (la_I g)) (lp_norm2 O (la_X g)).
  Definition la_parity (g : lalg) : Z := lp_parity (la_I g).

  Definition la_add (g h : lalg) : option lalg :=
    do i <- lp_add O (la_I g) (la_I h);
    do x <- lp_add O (la_X g) (la_X h);
    la_mk i x.

  (* LAlg + LPoly *)
  Definition la_add_poly (g : lalg) (p : lpoly) : option lalg :=
    do i <- lp_add O (la_I g) p; la_mk i (la_X g).

  Definition la_neg (g : lalg) : option lalg := la_mk (lp_neg O (la_I g)) (lp_neg O (la_X g)).

  Definition la_sub (g h : lalg) : option lalg := do nh <- la_neg h; la_add g nh.

  (* ~g = (~I, -X) *)
  Definition la_inv (g : lalg) : option lalg := la_mk (lp_inv O (la_I g)) (lp_neg O (la_X g)).

  (* LAlg * LAlg *)
  Definition la_mul (g h : lalg) : option lalg :=
    do i <- lp_sub O (lp_mul O (la_I g) (la_I h)) (lp_mul O (la_X g) (lp_inv O (la_X h)));
    do x <- lp_add O (lp_mul O (la_I g) (la_X h)) (lp_mul O (la_X g) (lp_inv O (la_I h)));
    la_mk i x.

  (* LAlg * LPoly : X part uses ~other *)
  Definition la_mul_poly (g : lalg) (p : lpoly) : option lalg :=
    la_mk (lp_mul O (la_I g) p) (lp_mul O (la_X g) (lp_inv O p)).

  (* LPoly * LAlg *)
  Definition poly_mul_la (p : lpoly) (g : lalg) : option lalg :=
    la_mk (lp_mul O p (la_I g)) (lp_mul O p (la_X g)).

  (* LAlg * scalar *)
  Definition la_scale (g : lalg) (a : D) : option lalg :=
    la_mk (lp_scale O a (la_I g)) (lp_scale O a (la_X g)).

  Definition la_pnorm (g : lalg) : option lpoly :=
    do gi <- la_inv g; do m <- la_mul g gi; Some (la_I m).

  (* unitarity, as the squared 2-norm of Id - g*~g *)
  Definition la_unitarity2 (g : lalg) : option D :=
    do pn <- la_pnorm g;
    do d <- lp_sub O (mk O [d1 O] 0) pn;
    Some (lp_norm2 O d).

  Definition la_truncate (g : lalg) (dmin dmax : Z) : option lalg :=
    do i <- lp_truncate O (la_I g) dmin dmax;
    do x <- lp_truncate O (la_X g) dmin dmax;
    la_mk i x.

  (* rotation(ang) with (c, s) = (cos ang, sin ang) supplied by the caller *)
  Definition la_rotation (cs : D * D) : lalg := LA (mk O [fst cs] 0) (mk O [snd cs] 0).

  (* generator(ang) = rotation(ang) * w * rotation(-ang) *)
  Definition la_generator (cs : D * D) : option lalg :=
    do a <- la_mul_poly (la_rotation cs) (lp_w O);
    la_mul a (la_rotation (fst cs, dneg O (snd cs))).

  (* unitary_from_angles(ang) *)
  Fixpoint la_from_angles_aux (res : lalg) (l : list (D * D)) : option lalg :=
    match l with
    | [] => Some res
    | cs :: l' =>
        do a <- la_mul_poly res (lp_w O);
        do b <- la_mul a (la_rotation cs);
        la_from_angles_aux b l'
    end.
  Definition la_from_angles (l : list (D * D)) : option lalg :=
    match l with
    | [] => None (* ang[0] raises IndexError *)
    | cs :: l' => la_from_angles_aux (la_rotation cs) l'
    end.

  (* unitary_from_conjugations(ang): res = Id (an LPoly); res *= generator(i) *)
  Fixpoint la_from_conj_aux (res : lalg) (l : list (D * D)) : option lalg :=
    match l with
    | [] => Some res
    | cs :: l' => do g <- la_generator cs; do r <- la_mul res g; la_from_conj_aux r l'
    end.
  Definition la_from_conj (l : list (D * D)) : option (lpoly + lalg) :=
    match l with
    | [] => Some (inl (lp_Id O))
    | cs :: l' =>
        do g <- la_generator cs;
        do r <- poly_mul_la (lp_Id O) g;
        do r' <- la_from_conj_aux r l';
        Some (inr r')
    end.

  Definition la_iX : lalg := LA (mk O [] 0) (mk O [d1 O] 0).
End LAlg.
