(* Model/Jac3M.v — SymmetricQSPProtocol.gen_poly_jacobian_components (Alg. 3.3 of arXiv:2307.12468, QSPGetPimDeri_sym_real.m):
   the 3x3 rotation recurrences.  B rotates by 2t (t = arccos a) in the (1,3) plane, the phase k rotates by 2 phi_k in the (1,2)
   plane; the columns R[:,k] run forward from the centre of the symmetric sequence, the rows L[k,:] backward from its end,
       R[:,0] = (1,0,0) (even) | (cos t, 0, sin t) (odd),   R[:,k] = B Rz(2 phi_{k-1}) R[:,k-1],
       L[n-1] = (0,1,0),                                    L[k]   = L[k+1] Rz(2 phi_{k+1}) B,
       y[k] = 2 L[k] Rz'(2 phi_k) R[:,k]   (k < n),         y[n]   = L[n-1] Rz(2 phi_{n-1}) R[:,n-1].
   Generic in the arithmetic; the inputs are the pairs (cos 2 phi_k, sin 2 phi_k) and (cos 2t, sin 2t).
   [go] is one pass over the phases: the column is threaded downwards (R[:,k] = the argument r at position k), the row
   upwards (first component of the result = e2 Rz(2 phi_{n-1}) B ... B Rz(2 phi_k); L[k] = [lrow] of the result for the tail). *)
From Coq Require Import ZArith QArith List Bool.
From PyqspV Require Import Base.Ops Base.IntervalZ Base.TrigZ Model.QInst.
Import ListNotations.

Section Jac3.
  Context {D : Type} (O : Ops D).
  Local Notation "x + y" := (dadd O x y).
  Local Notation "x - y" := (dsub O x y).
  Local Notation "x * y" := (dmul O x y).
  Local Notation "- x" := (dneg O x).
  Definition v3 : Type := (D * D * D)%type.
  Definition e1 : v3 := (d1 O, d0 O, d0 O).
  Definition e2 : v3 := (d0 O, d1 O, d0 O).

  (* Rz(cs2) r, Rz'(cs2) r, B r  (column vectors) *)
  Definition rotz (cs2 : D * D) (r : v3) : v3 :=
    let '(x, y, z) := r in (fst cs2 * x - snd cs2 * y, snd cs2 * x + fst cs2 * y, z).
  Definition rotzd (cs2 : D * D) (r : v3) : v3 :=
    let '(x, y, z) := r in (- (snd cs2 * x) - fst cs2 * y, fst cs2 * x - snd cs2 * y, d0 O).
  Definition rotB (ct2 : D * D) (r : v3) : v3 :=
    let '(x, y, z) := r in (fst ct2 * x - snd ct2 * z, y, snd ct2 * x + fst ct2 * z).
  (* l Rz(cs2), l B  (row vectors) *)
  Definition rowz (l : v3) (cs2 : D * D) : v3 :=
    let '(l1, l2, l3) := l in (l1 * fst cs2 + l2 * snd cs2, l2 * fst cs2 - l1 * snd cs2, l3).
  Definition rowB (l : v3) (ct2 : D * D) : v3 :=
    let '(l1, l2, l3) := l in (l1 * fst ct2 + l3 * snd ct2, l2, l3 * fst ct2 - l1 * snd ct2).
  Definition dot3 (l r : v3) : D :=
    let '(l1, l2, l3) := l in let '(x, y, z) := r in l1 * x + l2 * y + l3 * z.

  (* L[k] from the row product of the tail: e2 for the last phase, (row of the tail) B otherwise *)
  Definition lrow (ct2 : D * D) (tail : list (D * D)) (arow : v3) : v3 :=
    match tail with [] => e2 | _ => rowB arow ct2 end.

  Fixpoint go (ct2 : D * D) (r : v3) (l : list (D * D)) : v3 * list D :=
    match l with
    | [] => (e2, [])
    | cs :: rest =>
        let '(arest, ys) := go ct2 (rotB ct2 (rotz cs r)) rest in
        let lk := lrow ct2 rest arest in
        (rowz lk cs, ((d1 O + d1 O) * dot3 lk (rotzd cs r)) :: ys)
    end.

  (* y[0..n-1] ++ [y[n]] *)
  Definition jac3 (ct2 : D * D) (r0 : v3) (cs2s : list (D * D)) : list D :=
    let '(arow, ys) := go ct2 r0 cs2s in ys ++ [dot3 arow r0].
End Jac3.

(* interval instance: reduced phases and the signal value a as exact rationals *)
Definition jac3_encl (odd : bool) (red : list Q) (a : Q) : list I :=
  let ai := iofQ a in
  let si := isqrt (isub ione (imul ai ai)) in
  let ct2 := (isub (imul ai ai) (imul si si), iadd (imul ai si) (imul ai si)) in
  let r0 := if odd then (ai, izero, si) else (ione, izero, izero) in
  jac3 OpsI ct2 r0 (map (fun p => cos_sin_encl (qadd p p)) red).

(* certified bounds (scaled) of |y[k] - v_k| for claimed values v; None when a is outside [-1,1] or the lengths differ *)
Definition jac3_dists (odd : bool) (red : list Q) (a : Q) (vals : list Q) : option (list Z) :=
  if Qleb (-1) a && Qleb a 1 && (length vals =? S (length red))%nat && negb (length red =? 0)%nat
  then Some (map (fun p => iabs_ub (isub (fst p) (iofQ (snd p)))) (combine (jac3_encl odd red a) vals))
  else None.
