(* Model/ExprM.v — expression languages over LPoly / LAlg values; [peval]/[geval] run an
   operation history through the model.  Used for the C08/C09 correspondence (histories of
   any depth) and by the denotation theorems in Theory/. *)
From Coq Require Import ZArith List Bool.
From PyqspV Require Import Base.Ops Model.LPolyM Model.LAlgM.
Import ListNotations.
Open Scope Z_scope.

Section Expr.
  Context {D : Type}.

  Inductive pexpr :=
  | PLit (dmin : Z) (coefs : list D)
  | PAdd (a b : pexpr) | PSub (a b : pexpr) | PMul (a b : pexpr)
  | PNeg (a : pexpr) | PInv (a : pexpr)
  | PScale (c : D) (a : pexpr)
  | PTrunc (a : pexpr) (lo hi : Z)
  | PPosH (a : pexpr) | PNegH (a : pexpr).

  Inductive gexpr :=
  | GLit (i x : pexpr)
  | GAdd (a b : gexpr) | GSub (a b : gexpr) | GMul (a b : gexpr)
  | GNeg (a : gexpr) | GInv (a : gexpr)
  | GAddP (a : gexpr) (p : pexpr)
  | GMulP (a : gexpr) (p : pexpr)
  | PMulG (p : pexpr) (a : gexpr)
  | GScale (a : gexpr) (c : D)
  | GTrunc (a : gexpr) (lo hi : Z)
  | GRot (cs : D * D)
  | GGen (cs : D * D)
  | GAngles (l : list (D * D)).

  Context (O : Ops D).

  Fixpoint peval (e : pexpr) : option (lpoly D) :=
    match e with
    | PLit dmin coefs => Some (mk O coefs dmin)
    | PAdd a b => do x <- peval a; do y <- peval b; lp_add O x y
    | PSub a b => do x <- peval a; do y <- peval b; lp_sub O x y
    | PMul a b => do x <- peval a; do y <- peval b; Some (lp_mul O x y)
    | PNeg a => do x <- peval a; Some (lp_neg O x)
    | PInv a => do x <- peval a; Some (lp_inv O x)
    | PScale c a => do x <- peval a; Some (lp_scale O c x)
    | PTrunc a lo hi => do x <- peval a; lp_truncate O x lo hi
    | PPosH a => do x <- peval a; Some (lp_pos_half O x)
    | PNegH a => do x <- peval a; Some (lp_neg_half O x)
    end.

  Fixpoint geval (e : gexpr) : option (lalg D) :=
    match e with
    | GLit i x => do a <- peval i; do b <- peval x; la_mk a b
    | GAdd a b => do x <- geval a; do y <- geval b; la_add O x y
    | GSub a b => do x <- geval a; do y <- geval b; la_sub O x y
    | GMul a b => do x <- geval a; do y <- geval b; la_mul O x y
    | GNeg a => do x <- geval a; la_neg O x
    | GInv a => do x <- geval a; la_inv O x
    | GAddP a p => do x <- geval a; do y <- peval p; la_add_poly O x y
    | GMulP a p => do x <- geval a; do y <- peval p; la_mul_poly O x y
    | PMulG p a => do y <- peval p; do x <- geval a; poly_mul_la O y x
    | GScale a c => do x <- geval a; la_scale O x c
    | GTrunc a lo hi => do x <- geval a; la_truncate O x lo hi
    | GRot cs => Some (la_rotation O cs)
    | GGen cs => la_generator O cs
    | GAngles l => la_from_angles O l
    end.
End Expr.
Arguments pexpr : clear implicits.
Arguments gexpr : clear implicits.
