(* Model/ConvM.v — basis conversions, generic in the coefficient operations:
   PolynomialToLaurentForm (repeated products of (w + 1/w)/2), the Chebyshev tables defined by
   their recurrences, cheb2poly / poly2cheb of completion.py, poly2laurent of
   angle_sequence.py (through numpy's poly2cheb, modelled by the exact triangular solve). *)
From Coq Require Import ZArith List Bool.
From PyqspV Require Import Base.Ops Model.LPolyM.
Import ListNotations.
Open Scope Z_scope.

Section Conv.
  Context {D : Type} (O : Ops D).
  Variable half : D.               (* 1/2 *)
  Variable isz0 : D -> bool.       (* c == 0 *)
  Notation lpoly := (lpoly D).

  (* b^(n+1) by repeated multiplication, as the inner loop does *)
  Fixpoint lp_pow (b : lpoly) (n : nat) : lpoly :=
    match n with 0%nat => b | S m => lp_mul O (lp_pow b m) b end.

  Definition ptlf_base : lpoly := mk O [half; half] (-1).

  Fixpoint ptlf_aux (coefs : list D) (k : nat) (acc : lpoly) : option lpoly :=
    match coefs with
    | [] => Some acc
    | c :: cs =>
        if isz0 c then ptlf_aux cs (S k) acc
        else
          let nlp := match k with 0%nat => mk O [d1 O] 0 | S j => lp_pow ptlf_base j end in
          do acc' <- lp_add O acc (lp_scale O c nlp);
          ptlf_aux cs (S k) acc'
    end.

  (* LPoly.PolynomialToLaurentForm *)
  Definition ptlf (coefs : list D) : option lpoly := ptlf_aux coefs 0 (mk O [] 0).

  (* monomial coefficient lists: x * p, a * p, p + q, p - q *)
  Definition pshift (p : list D) : list D := d0 O :: p.
  Definition psub (p q : list D) : list D := ladd O p (lneg O q).

  (* Chebyshev polynomials by their recurrences, as monomial coefficient lists (low to high):
     T_0 = 1, T_1 = x, T_{n+1} = 2x T_n - T_{n-1};  U_0 = 1, U_1 = 2x, same recurrence *)
  Definition two : D := dadd O (d1 O) (d1 O).
  Fixpoint cheb_pair (kindU : bool) (n : nat) : list D * list D :=   (* (P_n, P_{n+1}) *)
    match n with
    | 0%nat => ([d1 O], if kindU then [d0 O; two] else [d0 O; d1 O])
    | S m => let '(a, b) := cheb_pair kindU m in (b, psub (scale O two (pshift b)) a)
    end.
  Definition chebP (kindU : bool) (n : nat) : list D := fst (cheb_pair kindU n).
End Conv.
