(* Model/ConvM.v — basis conversions, generic in the coefficient operations:
   PolynomialToLaurentForm (repeated products of (w + 1/w)/2), the Chebyshev tables defined by
   their recurrences, cheb2poly / poly2cheb of completion.py, poly2laurent of
   angle_sequence.py (through numpy's poly2cheb, modelled by the exact triangular solve). *)
From Coq Require Import ZArith List Bool.
From PyqspV Require Import Base.Ops Model.LPolyM.
Import ListNotations.
Open Scope Z_scope.

Section Conv.
  Context {D : Type} (O : Ops D).
  Variable half : D.               (* 1/2 *)
  Variable isz0 : D -> bool.       (* c == 0 *)
  Notation lpoly := (lpoly D).

  (* b^(n+1) by repeated multiplication, as the inner loop does *)
  Fixpoint lp_pow (b : lpoly) (n : nat) : lpoly :=
    match n with 0%nat => b | S m => lp_mul O (lp_pow b m) b end.

  Definition ptlf_base : lpoly := mk O [half; half] (-1).

  Fixpoint ptlf_aux (coefs : list D) (k : nat) (acc : lpoly) : option lpoly :=
    match coefs with
    | [] => Some acc
    | c :: cs =>
        if isz0 c then ptlf_aux cs (S k) acc
        else
          let nlp := match k with 0%nat => mk O [d1 O] 0 | S j => lp_pow ptlf_base j end in
          do acc' <- lp_add O acc (lp_scale O c nlp);
          ptlf_aux cs (S k) acc'
    end.

  (* LPoly.PolynomialToLaurentForm *)
  Definition ptlf (coefs : list D) : option lpoly := ptlf_aux coefs 0 (mk O [] 0).

  (* monomial coefficient lists: x * p, a * p, p + q, p - q *)
  Definition pshift (p : list D) : list D := d0 O :: p.
  Definition psub (p q : list D) : list D := ladd O p (lneg O q).

  (* Chebyshev polynomials by their recurrences, as monomial coefficient lists (low to high):
     T_0 = 1, T_1 = x, T_{n+1} = 2x T_n - T_{n-1};  U_0 = 1, U_1 = 2x, same recurrence *)
  Definition two : D := dadd O (d1 O) (d1 O).
  Fixpoint cheb_pair (kindU : bool) (n : nat) : list D * list D :=   (* (P_n, P_{n+1}) *)
    match n with
    | 0%nat => ([d1 O], if kindU then [d0 O; two] else [d0 O; d1 O])
    | S m => let '(a, b) := cheb_pair kindU m in (b, psub (scale O two (pshift b)) a)
    end.
  Definition chebP (kindU : bool) (n : nat) : list D := fst (cheb_pair kindU n).

  (* ---- completion.cheb2poly / poly2cheb with the tables defined by their recurrences *)
  (* cheb2poly: pcoefs[:deg+1] += ccoef * basis(deg), deg = 0, 1, ... *)
  Fixpoint c2p_aux (kindU : bool) (cs : list D) (k : nat) : list D :=
    match cs with
    | [] => []
    | c :: cs' => ladd O (scale O c (chebP kindU k)) (c2p_aux kindU cs' (S k))
    end.
  Definition pad_to (n : nat) (l : list D) : list D := l ++ repeat (d0 O) (n - length l).
  Definition c2p (kindU : bool) (cs : list D) : list D := pad_to (length cs) (c2p_aux kindU cs 0).

  (* 1 / (leading coefficient of the degree-n basis polynomial): T_0: 1, T_n: 2^-(n-1); U_n: 2^-n *)
  Fixpoint hpow (n : nat) : D := match n with 0%nat => d1 O | S m => dmul O half (hpow m) end.
  Definition inv_lead (kindU : bool) (n : nat) : D := if kindU then hpow n else hpow (Nat.pred n).

  (* poly2cheb: from the top degree down, ccoefs[deg] = p[deg] / lead; p -= ccoefs[deg] * basis *)
  Fixpoint p2c_aux (kindU : bool) (fuel : nat) (p : list D) : list D :=   (* returns coefficients for degrees < fuel, low to high *)
    match fuel with
    | 0%nat => []
    | S deg =>
        let c := dmul O (nth deg p (d0 O)) (inv_lead kindU deg) in
        let p' := psub p (scale O c (chebP kindU deg)) in
        p2c_aux kindU deg p' ++ [c]
    end.
  Definition p2c (kindU : bool) (p : list D) : list D := p2c_aux kindU (length p) p.

  (* ---- angle_sequence.poly2laurent.  numpy's poly2cheb trims trailing exact zeros first.
     big c  <->  |c| > 1e-8  (supplied by the instance).  None = AngleFindingError. *)
  Variable big : D -> bool.
  Fixpoint trim_rev (l : list D) : list D :=       (* on the reversed list: drop leading exact zeros, keep one element *)
    match l with
    | [] => []
    | [x] => [x]
    | x :: l' => if isz0 x then trim_rev l' else l
    end.
  Definition trimz (l : list D) : list D := rev (trim_rev (rev l)).
  Definition poly2laurent (p : list D) : option (list D) :=
    let cc := p2c false (trimz p) in
    let is_even := existsb big (evens cc) in
    let is_odd := existsb big (odds cc) in
    if is_even && is_odd then None
    else if is_odd then
      let l := map (dmul O half) (odds cc) in Some (rev l ++ l)
    else
      let l := map (dmul O half) (evens cc) in
      match l with
      | [] => Some []
      | l0 :: lt => Some (rev lt ++ [dmul O two l0] ++ lt)
      end.
End Conv.
