(* Model/PolyGenM.v — the structural part of the polynomial generators of poly.py:
   the registry (which generators take a degree, which parity they advertise), the degree guard,
   the parity zeroing pcoefs[start::2] = 0, and the option dataflow of generate()
   (ensure_bounded / return_scale) around the numerical kernels, which are oracles. *)
From Coq Require Import ZArith List Bool.
From PyqspV Require Import Base.Ops.
Import ListNotations.

Inductive gen := KCos | KSin | KInv | KSign | KThresh | KPhaseEst | KRect | KLinAmp | KGibbs | KEfilter | KRelu | KSoftplus.

(* advertised parity: true = odd polynomial *)
Definition gen_odd (g : gen) : bool :=
  match g with KSin | KInv | KSign | KLinAmp => true | _ => false end.
Definition gen_takes_degree (g : gen) : bool :=
  match g with KCos | KSin | KInv => false | _ => true end.
(* degree guard: None = the generator raises *)
Definition degree_guard (g : gen) (degree : Z) : bool :=
  if gen_takes_degree g then Z.eqb (degree mod 2) (if gen_odd g then 1 else 0) else true.

Section Zeroing.
  Context {D : Type} (O : Ops D).
  (* l[start::2] = 0 with start = 0 (even := true) or 1 *)
  Fixpoint zero_from (even : bool) (l : list D) : list D :=
    match l with [] => [] | x :: l' => (if even then d0 O else x) :: zero_from (negb even) l' end.
  (* every entry of the parity opposite to the advertised one is (exactly) zero *)
  Variable isz0 : D -> bool.
  Fixpoint opp_zero (odd : bool) (l : list D) : bool :=     (* index 0 is even *)
    match l with [] => true | x :: l' => (if odd then isz0 x else true) && opp_zero (negb odd) l' end.

  (* generate(): raw = kernel output for ensure_bounded=False, sc = the normalisation factor *)
  Definition generate (g : gen) (raw : list D) (sc : D) (ensure_bounded return_scale : bool) : list D * option D :=
    let p := if ensure_bounded then scale O sc raw else raw in
    let p' := zero_from (gen_odd g) p in
    (p', if ensure_bounded && return_scale then Some sc else None).
  (* PolyRelu as found: reports max_scale instead of the factor applied *)
  Definition generate_relu_as_found (raw : list D) (sc max_scale : D) (ensure_bounded return_scale : bool) : list D * option D :=
    let p := if ensure_bounded then scale O sc raw else raw in
    (zero_from false p, if ensure_bounded && return_scale then Some max_scale else None).
End Zeroing.
