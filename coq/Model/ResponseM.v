(* Model/ResponseM.v — the QSP response as the defining 2x2 matrix product, generic in the
   coefficient operations (so that it runs on complex intervals), with the name dispatch of
   response.ComputeQSPResponse.
     Wx: signal W(a) = [[a, i s],[i s, a]], s = sqrt(1-a^2); phase S(phi) = diag(e^{i phi}, e^{-i phi})
     Wz: their Hadamard conjugates H . H
     measurement x: |+> = (1,1)/sqrt 2;  z: |0>;  default: the signal operator's own basis. *)
From Coq Require Import ZArith List Bool String.
From PyqspV Require Import Base.Ops.
Import ListNotations.

Record mat2 (K : Type) := M2 { m00 : K; m01 : K; m10 : K; m11 : K }.
Arguments M2 {K}. Arguments m00 {K}. Arguments m01 {K}. Arguments m10 {K}. Arguments m11 {K}.

Section Resp.
  Context {D : Type} (O : Ops D).
  Variables ci ch : D.      (* the imaginary unit and 1/sqrt 2 *)
  Notation "x + y" := (dadd O x y).
  Notation "x * y" := (dmul O x y).
  Notation "- x" := (dneg O x).

  Definition gmul (a b : mat2 D) : mat2 D :=
    M2 (m00 a * m00 b + m01 a * m10 b) (m00 a * m01 b + m01 a * m11 b)
       (m10 a * m00 b + m11 a * m10 b) (m10 a * m01 b + m11 a * m11 b).

  Definition gSz (cs : D * D) : mat2 D :=
    M2 (fst cs + ci * snd cs) (d0 O) (d0 O) (fst cs + - (ci * snd cs)).
  Definition gWx (a s : D) : mat2 D := M2 a (ci * s) (ci * s) a.
  Definition gH : mat2 D := M2 ch ch ch (- ch).
  Definition gconjH (m : mat2 D) : mat2 D := gmul (gmul gH m) gH.

  Fixpoint gprod (S : D * D -> mat2 D) (W : mat2 D) (acc : mat2 D) (l : list (D * D)) : mat2 D :=
    match l with [] => acc | cs :: l' => gprod S W (gmul (gmul acc W) (S cs)) l' end.

  Definition gU (wz : bool) (a s : D) (cs : D * D) (l : list (D * D)) : mat2 D :=
    if wz then gprod (fun c => gconjH (gSz c)) (gconjH (gWx a s)) (gconjH (gSz cs)) l
    else gprod gSz (gWx a s) (gSz cs) l.

  Definition gmeas (mx : bool) (U : mat2 D) : D :=
    if mx then ch * ch * (m00 U + m01 U + m10 U + m11 U) else m00 U.

  (* response for the model (wz, mx): wz = signal operator is Wz; mx = measurement x *)
  Definition resp (wz mx : bool) (a s : D) (cs : D * D) (l : list (D * D)) : D :=
    gmeas mx (gU wz a s cs l).
End Resp.

(* name dispatch; None = ResponseError *)
Open Scope string_scope.
Definition resp_model (signal_operator : string) (measurement : option string) : option (bool * bool) :=
  let wz := if String.eqb signal_operator "Wx" then Some false
            else if String.eqb signal_operator "Wz" then Some true else None in
  match wz with
  | None => None
  | Some wz =>
      match measurement with
      | None => Some (wz, negb wz)            (* Wx -> x, Wz -> z *)
      | Some m => if String.eqb m "x" then Some (wz, true)
                  else if String.eqb m "z" then Some (wz, false) else None
      end
  end.
