(* Model/LPolyM.v — executable model of pyqsp.LPoly.LPoly, generic in the coefficient
   operations.  Each definition follows the Python method of the same name line by line,
   including the zero sentinel (iszero=True, coefs=[0]).  [None] models an exception
   (AssertionError / ValueError) escaping the method. *)
From Coq Require Import ZArith List Bool.
From PyqspV Require Import Base.Ops.
Import ListNotations.
Open Scope Z_scope.

Record lpoly (D : Type) := LP { lp_dmin : Z; lp_coefs : list D; lp_isz : bool }.
Arguments LP {D}. Arguments lp_dmin {D}. Arguments lp_coefs {D}. Arguments lp_isz {D}.

Section LPoly.
  Context {D : Type} (O : Ops D).
  Notation lpoly := (lpoly D).

  (* LPoly.__init__ *)
  Definition mk (l : list D) (dmin : Z) : lpoly :=
    match l with
    | [] => LP dmin [d0 O] true
    | _ => LP dmin l false
    end.

  Definition lp_dmax (p : lpoly) : Z := 2 * len (lp_coefs p) + lp_dmin p - 2.
  Definition lp_degree (p : lpoly) : Z := Z.max (- lp_dmin p) (lp_dmax p).
  Definition lp_parity (p : lpoly) : Z := lp_dmin p mod 2.
  (* norm squared: numpy.linalg.norm(coefs)**2 *)
  Definition lp_norm2 (p : lpoly) : D := lsum O (map (fun c => dmul O c c) (lp_coefs p)).

  (* __getitem__ *)
  Definition lp_get (p : lpoly) (key : Z) : D :=
    if negb ((key - lp_dmin p) mod 2 =? 0) then d0 O
    else let pos := (key - lp_dmin p) / 2 in
         if (pos <? len (lp_coefs p)) && (0 <=? pos)
         then nth (Z.to_nat pos) (lp_coefs p) (d0 O) else d0 O.

  (* __mul__ for two LPoly *)
  Definition lp_mul (p q : lpoly) : lpoly :=
    if lp_isz p || lp_isz q then mk [] 0
    else mk (conv O (lp_coefs p) (lp_coefs q)) (lp_dmin p + lp_dmin q).

  (* __mul__ / __rmul__ with a scalar (zero sentinel stays the sentinel: repaired code) *)
  Definition lp_scale (a : D) (p : lpoly) : lpoly :=
    if lp_isz p then mk [] (lp_dmin p)
    else mk (scale O a (lp_coefs p)) (lp_dmin p).

  (* aligned(dmin, dmax) *)
  Definition lp_aligned (p : lpoly) (dmin dmax : Z) : option (list D) :=
    if lp_isz p then
      (if (dmax - dmin) / 2 + 1 <? 0 then None else Some (zeros O ((dmax - dmin) / 2 + 1)))
    else if (dmin <=? lp_dmin p) && (lp_dmax p <=? dmax)
         then Some (zeros O ((lp_dmin p - dmin) / 2) ++ lp_coefs p ++ zeros O ((dmax - lp_dmax p) / 2))
         else None.

  (* __add__ *)
  Definition lp_add (p q : lpoly) : option lpoly :=
    if lp_isz p then Some (if lp_isz q then mk [] (lp_dmin q) else mk (lp_coefs q) (lp_dmin q))
    else if lp_isz q then Some (mk (lp_coefs p) (lp_dmin p))
    else if negb (lp_parity p =? lp_parity q) then None
    else let dmin := Z.min (lp_dmin p) (lp_dmin q) in
         let dmax := Z.max (lp_dmax p) (lp_dmax q) in
         do a <- lp_aligned p dmin dmax;
         do b <- lp_aligned q dmin dmax;
         Some (mk (ladd O a b) dmin).

  (* __neg__ : -1 * [0] is the empty Python list for the sentinel *)
  Definition lp_neg (p : lpoly) : lpoly :=
    if lp_isz p then mk [] (lp_dmin p) else mk (lneg O (lp_coefs p)) (lp_dmin p).

  (* __invert__ *)
  Definition lp_inv (p : lpoly) : lpoly :=
    if lp_isz p then mk [] (- lp_dmin p) else mk (rev (lp_coefs p)) (- lp_dmax p).

  (* __sub__ *)
  Definition lp_sub (p q : lpoly) : option lpoly := lp_add p (lp_neg q).

  (* truncate(p, dmin, dmax) *)
  Definition lp_truncate (p : lpoly) (dmin dmax : Z) : option lpoly :=
    let lb := Z.min dmin (lp_dmin p) in
    let ub := Z.max dmax (lp_dmax p) in
    do a <- lp_aligned p lb (ub + 2);
    Some (mk (py_slice_neg ((dmin - lb) / 2) ((dmax - ub) / 2 - 1) a) dmin).

  Definition lp_isconsistent (a b : lpoly) : bool :=
    lp_isz a || lp_isz b || (lp_parity a =? lp_parity b).

  (* pos_half / neg_half : nhalf = ceil(len/2) *)
  Definition nhalf (p : lpoly) : Z := (len (lp_coefs p) + 1) / 2.
  Definition lp_pos_half (p : lpoly) : lpoly :=
    mk (zeros O (nhalf p) ++ py_from (nhalf p) (lp_coefs p)) (lp_dmin p).
  Definition lp_neg_half (p : lpoly) : lpoly :=
    mk (py_upto (nhalf p) (lp_coefs p) ++ zeros O (len (lp_coefs p) - nhalf p)) (lp_dmin p).

  (* module constants Id = LPoly([1]), w = LPoly([1], 1) *)
  Definition lp_Id : lpoly := mk [d1 O] 0.
  Definition lp_w : lpoly := mk [d1 O] 1.
End LPoly.
