(* Model/SymQspM.v — sym_qsp_opt.SymmetricQSPProtocol: phase layout, update path, Newton loop
   skeleton.  Generic in the coefficient operations. *)
From Coq Require Import ZArith List Bool.
From PyqspV Require Import Base.Ops.
Import ListNotations.

Section SymQsp.
  Context {D : Type} (O : Ops D).
  Definition dbl (x : D) : D := dadd O x x.     (* 2 * x *)

  (* full phase list from the reduced phases: parity true = odd *)
  Definition sym_full (odd : bool) (red : list D) : option (list D) :=
    match red with
    | [] => None                                 (* full_phases = None *)
    | r0 :: rt =>
        if odd then Some (rev red ++ red)
        else match rt with
             | [] => Some [dbl r0]
             | _ => Some (rev rt ++ [dbl r0] ++ rt)
             end
    end.

  Record proto := mkProto { p_red : list D; p_odd : bool; p_full : option (list D) }.
  Definition proto_init (odd : bool) (red : list D) : proto := mkProto red odd (sym_full odd red).
  Definition proto_update (s : proto) (new : list D) : proto := mkProto new (p_odd s) (sym_full (p_odd s) new).
  Definition poly_deg (s : proto) : option nat := match p_full s with Some f => Some (length f - 1)%nat | None => None end.

  (* multiplicity of reduced phase k in full position j: d full_j / d red_k, as 0/1/2 *)
  Definition sym_full_weights (odd : bool) (n k : nat) : list nat :=
    let unit := map (fun j => if Nat.eqb j k then 1%nat else 0%nat) (seq 0 n) in
    match unit with
    | [] => []
    | u0 :: ut =>
        if odd then rev unit ++ unit
        else match ut with
             | [] => [(2 * u0)%nat]
             | _ => rev ut ++ [(2 * u0)%nat] ++ ut
             end
    end.
End SymQsp.
Arguments proto : clear implicits.

(* Newton loop of newton_Solver with oracles for the Jacobian evaluation and the linear solve.
   [step red] returns (err_below_crit, new_red): the residual test and the updated phases. *)
Section Newton.
  Context {D : Type} (O : Ops D).
  Variable step : list D -> bool * list D.
  Fixpoint newton_loop (fuel : nat) (maxiter : nat) (it : nat) (s : proto D) : proto D * nat * bool :=
    (* returns (protocol, iterations, stopped_by_crit) ; fuel >= maxiter - it *)
    match fuel with
    | 0%nat => (s, it, false)
    | S f =>
        let '(ok, new) := step (p_red s) in
        let s' := proto_update O s new in
        let it' := S it in
        if Nat.leb maxiter it' then (s', it', false)
        else if ok then (s', it', true)
        else newton_loop f maxiter it' s'
    end.
End Newton.
