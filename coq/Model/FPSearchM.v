(* Model/FPSearchM.v — phases.FPSearch: the interleaving / reversal / halving that turns the
   Yoder-Low-Chuang angles alpha_1..alpha_d into the 2d QSVT-convention phases, the gamma / delta
   option dataflow, and the alternating reflection sequence  R prod_k (Z(phi_k) R)  whose (0,0)
   entry gives the success amplitude.  The transcendental kernel (arccosh, cosh, tan, arctan2) is
   an oracle. *)
From Coq Require Import ZArith List Bool.
From PyqspV Require Import Base.Ops Model.ResponseM.
Import ListNotations.

Section FP.
  Context {D : Type} (O : Ops D).
  Variable neghalf : D -> D.            (* x |-> -x/2 *)

  Fixpoint interleave (a b : list D) : list D :=
    match a, b with
    | x :: a', y :: b' => x :: y :: interleave a' b'
    | _, _ => []
    end.

  (* phivec[2k] = -alpha[d-1-k]/2, phivec[2k+1] = bvec[d-1-k]/2 with bvec = -reversed(alpha) *)
  Definition fps_phivec (alpha : list D) : list D :=
    interleave (map neghalf (rev alpha)) (map neghalf alpha).

  (* option dataflow: gamma is used when given, otherwise computed from delta (default 0.1) *)
  Variable gamma_of_delta : nat -> D -> D.     (* L, delta |-> 1/cosh(arccosh(1/delta)/L) *)
  Variable alpha_of_gamma : nat -> D -> list D. (* d, gamma |-> [alpha_1 .. alpha_d] *)
  Variable default_delta : D.
  Definition fps_gamma (d : nat) (delta gamma : option D) : D :=
    match gamma with
    | Some g => g
    | None => gamma_of_delta (2 * d + 1) (match delta with Some dl => dl | None => default_delta end)
    end.
  Definition fps_generate (d : nat) (delta gamma : option D) : list D :=
    fps_phivec (alpha_of_gamma d (fps_gamma d delta gamma)).

  (* the reflection sequence: R = [[a, s],[s, -a]], Z(phi) = diag(c + i s', c - i s') *)
  Variable ci : D.
  Definition gR (a s : D) : mat2 D := M2 a s s (dneg O a).
  Fixpoint refl_prod (a s : D) (acc : mat2 D) (l : list (D * D)) : mat2 D :=
    match l with
    | [] => acc
    | cs :: l' => refl_prod a s (gmul O (gmul O acc (gSz O ci cs)) (gR a s)) l'
    end.
  Definition fp_amplitude (a s : D) (l : list (D * D)) : D := m00 (refl_prod a s (gR a s) l).
End FP.
