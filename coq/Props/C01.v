(* Props/C01.v — returned phases realise the requested real polynomial (Wx and Wz models).
   Statements only; proofs in Theory/.  resp_x phi0 rest t is <+| S(phi_0) W(a) S(phi_1) ... W(a) S(phi_n) |+>
   at a = cos t, with W(a) = [[a, i sqrt(1-a^2)],[i sqrt(1-a^2), a]] (sqrt(1-a^2) = sin t) and
   S(phi) = diag(e^{i phi}, e^{-i phi}): the defining matrix product, not the library's routine. *)
From Coq Require Import ZArith QArith Qreals List Reals Bool.
From Coquelicot Require Import Complex.
From PyqspV Require Import Base.Ops Model.LPolyM Model.LAlgM Model.QInst Model.Checkers
  Theory.RingK Theory.LAlgT Theory.CplxT Theory.RespT Theory.QC Theory.CertT Theory.C01T.
Import ListNotations.
Open Scope R_scope.

(* the certificate the check evaluates on every phase list the implementation returns *)
Theorem C01_certificate_sound phi0 rest pc eps suc tol :
  check_c01 (phi0 :: rest) pc eps suc tol = true ->
  length (phi0 :: rest) = length pc /\
  forall theta,
    Cmod (Cminus (resp_x phi0 rest theta)
                 (RtoC (Q2R suc * (pevalR (map Q2R pc) (cos theta)
                                   + Q2R eps / 2 * cos theta ^ (length pc - 1)))))
    <= 100 * Q2R tol.
Proof. exact (check_c01_sound phi0 rest pc eps suc tol). Qed.
Print Assumptions C01_certificate_sound.

(* the model's target is exactly suc * (p + eps/2 x^d) *)
Theorem C01_target_semantics pc eps suc x : pc <> [] ->
  pevalR (map Q2R (cap_target pc eps suc)) x =
  Q2R suc * (pevalR (map Q2R pc) x + Q2R eps / 2 * x ^ (length pc - 1)).
Proof. exact (cap_target_sem pc eps suc x). Qed.
Print Assumptions C01_target_semantics.

(* the "hence" clause *)
Theorem C01_budget (p x eps suc xd : R) : 0 < suc <= 1 -> 0 <= eps -> Rabs xd <= 1 ->
  Rabs (suc * (p + eps / 2 * xd) - p) <= (1 - suc) * Rabs p + eps / 2.
Proof. exact (budget_ineq p x eps suc xd). Qed.
Print Assumptions C01_budget.

(* Wx/x and Wz/z are one case: the responses coincide for every phase list *)
Theorem C01_wx_x_is_wz_z phi0 rest theta : resp_x phi0 rest theta = m00 (Uz_at phi0 rest theta).
Proof. exact (resp_x_is_z phi0 rest theta). Qed.
Print Assumptions C01_wx_x_is_wz_z.

