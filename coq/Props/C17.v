(* Props/C17.v — generator options are consistent: same polynomial across bases, the returned
   scale is the factor applied, coefficients do not depend on return_scale.
   Dataflow model of generate() with the numerical kernel as an oracle (raw, sc arbitrary). *)
From Coq Require Import ZArith List Bool.
From PyqspV Require Import Base.Ops Model.LPolyM Model.ConvM Model.PolyGenM Theory.RingK Theory.ChebT Theory.PolyGenT.
Import ListNotations.

Theorem C17_coefs_indep_of_return_scale {D} (O : Ops D) g raw sc eb :
  fst (generate O g raw sc eb true) = fst (generate O g raw sc eb false).
Proof. exact (coefs_indep_of_return_scale O g raw sc eb). Qed.
Print Assumptions C17_coefs_indep_of_return_scale.

Theorem C17_scale_returned_iff {D} (O : Ops D) g raw sc eb rs :
  snd (generate O g raw sc eb rs) = if eb && rs then Some sc else None.
Proof. exact (scale_returned_iff O g raw sc eb rs). Qed.
Print Assumptions C17_scale_returned_iff.

(* the bounded polynomial is the returned scale times the unbounded one, over any ring *)
Theorem C17_scale_is_factor (K : CRing) g raw sc rs :
  fst (generate (@OpsK K) g raw sc true rs) = scale (@OpsK K) sc (fst (generate (@OpsK K) g raw sc false rs)).
Proof. exact (scale_is_factor K g raw sc rs). Qed.
Print Assumptions C17_scale_is_factor.

(* the ReLU generator as found in the tree reported max_scale instead (repaired by a fix: commit) *)
Theorem C17_relu_as_found_refuted (K : CRing) (two : K) : two <> k1 ->
  exists raw sc max_scale, snd (generate_relu_as_found (@OpsK K) raw sc max_scale true true) <> Some sc.
Proof. exact (relu_scale_refuted K two). Qed.
Print Assumptions C17_relu_as_found_refuted.

(* basis switch: converting the Chebyshev-basis output with cheb2poly denotes the same polynomial *)
Theorem C17_basis_switch (K : CRing) cs x :
  peval (c2p (@OpsK K) false cs) x = chebsum K false cs 0 x.
Proof. exact (c2p_sound K false cs x). Qed.
Print Assumptions C17_basis_switch.
