(* Props/C04.v — Laurent completion is unitary and keeps the identity part, for every seed. *)
From Coq Require Import ZArith QArith Qreals List Reals Bool.
From Coquelicot Require Import Complex.
From PyqspV Require Import Base.Ops Model.LPolyM Model.LAlgM Model.QInst Model.Checkers
  Theory.RingK Theory.LPolyT Theory.LAlgT Theory.CplxT Theory.QC Theory.C04T.
Import ListNotations.
Open Scope R_scope.

(* the certificate evaluated on every returned completion: exact rational re-derivation *)
Theorem C04_certificate_sound Fin g tol :
  check_completion Fin g tol = true ->
  let n := (len Fin - 1)%Z in
  (lp_isz (la_I g) = false /\ lp_dmin (la_I g) = (- n)%Z /\ Forall2 Qeq (lp_coefs (la_I g)) Fin) /\
  (lp_isz (la_X g) = false /\ lp_dmin (la_X g) = (- n)%Z /\ len (lp_coefs (la_X g)) = (n + 1)%Z) /\
  exists r, unit_residual (la_I g) (la_X g) = Some r /\
    Forall (fun c => Rabs (Q2R c) < Q2R tol) (lp_coefs r) /\
    forall theta,
      let w := cis theta in let wi := cis (- theta) in
      let F := lpQ2C (la_I g) in let G := lpQ2C (la_X g) in
      Cmod (Cminus (Cplus (Cmult (evx CR w wi F) (evx CR wi w F)) (Cmult (evx CR w wi G) (evx CR wi w G))) (RtoC 1))
      <= INR (length (lp_coefs r)) * Q2R tol.
Proof. exact (check_completion_sound Fin g tol). Qed.
Print Assumptions C04_certificate_sound.

(* precondition of the root split on the totality family: 1 - F F~ has no root on the circle *)
Theorem C04_no_unit_roots (F : lpoly C) theta : sumR (map Cmod (lp_coefs F)) < 1 ->
  let w := cis theta in let wi := cis (- theta) in
  1 - sumR (map Cmod (lp_coefs F)) * sumR (map Cmod (lp_coefs F))
  <= Cmod (Cminus (RtoC 1) (Cmult (evx CR w wi F) (evx CR wi w F))).
Proof. exact (no_unit_roots F theta). Qed.
Print Assumptions C04_no_unit_roots.

(* F F~ + G G~ is the determinant of the matrix the element denotes, over any ring *)
Theorem C04_pnorm_is_determinant (K : CRing) (w wi i : K) g pn :
  kmul w wi = k1 -> kmul i i = kopp k1 -> gwf K g -> la_pnorm OpsK g = Some pn ->
  evx K w wi pn = mdet K (Mden K w wi i g).
Proof. exact (fun wwi ii => pnorm_is_det K w wi i wwi ii g pn). Qed.
Print Assumptions C04_pnorm_is_determinant.

(* non-vacuity: F = [3/5] (n = 0 is excluded by the code; n = 1 here), G = [4/5]: exact completion *)
Example C04_certificate_nonvacuous :
  check_completion [3 # 5; 0]%Q (LA (LP (-1) [3 # 5; 0]%Q false) (LP (-1) [4 # 5; 0]%Q false)) (1 # 1000000) = true.
Proof. vm_compute. reflexivity. Qed.
