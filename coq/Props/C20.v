(* Props/C20.v — the command line is a faithful front end to the library. *)
From Coq Require Import List Bool Ascii String.
From PyqspV Require Import Model.CliM Theory.CliT.
Import ListNotations.
Local Open Scope list_scope.

(* numeric list options: the comma form and the bracketed space-separated form denote the same
   token list, for every non-empty list of tokens free of ',', ' ', '[' and ']' *)
Theorem C20_float_list_comma_form toks : toks <> [] -> Forall good_token toks ->
  float_list_tokens (join comma toks) = toks.
Proof. exact (float_list_comma_form toks). Qed.
Print Assumptions C20_float_list_comma_form.

Theorem C20_float_list_bracket_form toks : toks <> [] -> Forall good_token toks ->
  float_list_tokens (lbr :: join space toks ++ [rbr]) = toks.
Proof. exact (float_list_bracket_form toks). Qed.
Print Assumptions C20_float_list_bracket_form.

Theorem C20_float_list_forms_agree toks : toks <> [] -> Forall good_token toks ->
  float_list_tokens (join comma toks) = float_list_tokens (lbr :: join space toks ++ [rbr]).
Proof. exact (float_list_forms_agree toks). Qed.
Print Assumptions C20_float_list_forms_agree.

(* an unknown command produces help text rather than phases *)
Theorem C20_unknown_command_is_help cmd : ~ In cmd known_commands -> dispatch cmd = AHelp.
Proof. exact (unknown_command_is_help cmd). Qed.
Print Assumptions C20_unknown_command_is_help.

(* the documented commands use the named generators *)
Open Scope string_scope.
Theorem C20_dispatch_table :
  dispatch "poly2angles" = APoly2Angles /\ dispatch "hamsim" = AGen CCosSin /\ dispatch "invert" = AGen CInvert /\
  dispatch "fpsearch" = AFpsearch /\ dispatch "gibbs" = AGen CGibbs /\ dispatch "efilter" = AGen CEfilter /\
  dispatch "poly_sign" = AGen CSign /\ dispatch "poly_thresh" = AGen CThresh /\ dispatch "poly_phase" = AGen CPhase /\
  dispatch "poly_rect" = AGen CRect /\ dispatch "invert_rect" = AGen CInvRect /\ dispatch "poly_linear_amp" = AGen CLinAmp /\
  dispatch "poly" = APolyByName /\ dispatch "angles" = AAnglesByName.
Proof. repeat split. Qed.
Print Assumptions C20_dispatch_table.
