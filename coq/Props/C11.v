(* Props/C11.v — basis conversions (monomial, Chebyshev T/U, Laurent) are exact and consistent. *)
From Coq Require Import ZArith QArith Qreals List Reals Bool.
From Coquelicot Require Import Complex.
From PyqspV Require Import Base.Ops Model.LPolyM Model.LAlgM Model.QInst Model.ConvM Model.Checkers
  Theory.RingK Theory.LPolyT Theory.CplxT Theory.ConvT Theory.QC Theory.C01T Theory.ChebT Theory.C11T Theory.P2CT.
Import ListNotations.

Section Ring.
  Variable K : CRing.
  Variables w wi half : K.
  Hypothesis wwi : kmul w wi = k1.
  Hypothesis half2 : kadd half half = k1.

  (* PolynomialToLaurentForm denotes p((w + 1/w)/2), for every coefficient list *)
  Theorem C11_ptlf_denotes_p isz0 coefs r : (forall c, isz0 c = true -> c = k0) ->
    ptlf OpsK half isz0 coefs = Some r ->
    evx K w wi r = peval coefs (xa K w wi half) /\ wf K r.
  Proof. exact (fun H => ptlf_sound K w wi half wwi isz0 H coefs r). Qed.

  (* the tables defined by the recurrences are the Chebyshev polynomials:
     T_n((w+1/w)/2) = (w^n + w^-n)/2   and   (w - 1/w) U_n((w+1/w)/2) = w^(n+1) - w^-(n+1) *)
  Theorem C11_chebT_laurent n :
    peval (chebP OpsK false n) (xa K w wi half) = kmul (kadd (pw w n) (pw wi n)) half.
  Proof. exact (chebT_laurent K w wi half wwi half2 n). Qed.

  Theorem C11_chebU_laurent n :
    kmul (ksub w wi) (peval (chebP OpsK true n) (xa K w wi half)) = ksub (pw w (S n)) (pw wi (S n)).
  Proof. exact (chebU_laurent K w wi half wwi half2 n). Qed.

  (* cheb2poly denotes the Chebyshev sum it is given, for both kinds and every length *)
  Theorem C11_cheb2poly_denotes_sum kindU cs x :
    peval (c2p OpsK kindU cs) x = chebsum K kindU cs 0 x.
  Proof. exact (c2p_sound K kindU cs x). Qed.
End Ring.
Print Assumptions C11_ptlf_denotes_p.
Print Assumptions C11_chebT_laurent.
Print Assumptions C11_chebU_laurent.
Print Assumptions C11_cheb2poly_denotes_sum.

(* poly2cheb (top-down elimination) and cheb2poly invert each other, for every input, both kinds,
   over any commutative ring with 1/2 (real and complex coefficients alike) *)
Section Inverse.
  Variable K : CRing.
  Variable half : K.
  Hypothesis half2 : kadd half half = k1.
  Theorem C11_poly2cheb_denotes_p kindU p x : chebsum K kindU (p2c OpsK half kindU p) 0 x = peval p x.
  Proof. exact (p2c_sound K half half2 kindU p x). Qed.
  Theorem C11_cheb2poly_after_poly2cheb kindU p x : peval (c2p OpsK kindU (p2c OpsK half kindU p)) x = peval p x.
  Proof. exact (c2p_p2c K half half2 kindU p x). Qed.
  Theorem C11_poly2cheb_after_cheb2poly kindU cs x :
    chebsum K kindU (p2c OpsK half kindU (c2p OpsK kindU cs)) 0 x = chebsum K kindU cs 0 x.
  Proof. exact (p2c_c2p K half half2 kindU cs x). Qed.
  Theorem C11_poly2cheb_length kindU p : length (p2c OpsK half kindU p) = length p.
  Proof. exact (p2c_length K half half2 kindU p). Qed.
End Inverse.
Print Assumptions C11_poly2cheb_denotes_p.
Print Assumptions C11_cheb2poly_after_poly2cheb.
Print Assumptions C11_poly2cheb_after_cheb2poly.
Print Assumptions C11_poly2cheb_length.

(* certificates evaluated on every instance of the run *)
Theorem C11_laurent_certificate (p l : list Q) theta : check_p2l p l = true ->
  evx CR (cis theta) (cis (- theta)) (lpQ2C (mk OpsQ l (- len l + 1))) = @peval CR (map q2c p) (RtoC (cos theta)).
Proof. exact (check_p2l_sound p l theta). Qed.
Print Assumptions C11_laurent_certificate.

Theorem C11_same_laurent_polynomial (p q : lpoly Q) (x xi : C) : Cmult x xi = RtoC 1 ->
  wf CR (lpQ2C p) -> wf CR (lpQ2C q) -> lp_same p q = true ->
  evx CR x xi (lpQ2C p) = evx CR x xi (lpQ2C q).
Proof. exact (lp_same_sound p q x xi). Qed.
Print Assumptions C11_same_laurent_polynomial.

Theorem C11_poly2cheb_certificate kindU (p : list Q) (x : C) : check_p2c kindU p = true ->
  chebsum CR kindU (map q2c (p2c_q kindU p)) 0 x = @peval CR (map q2c p) x.
Proof. exact (fun H => check_p2c_sound kindU p x x x x H). Qed.
Print Assumptions C11_poly2cheb_certificate.

(* non-vacuity / refusal: a mixed-parity polynomial is refused by the model, a definite one converted *)
Example C11_mixed_parity_refused : p2l_q [1; 1; 1]%Q = None.
Proof. vm_compute. reflexivity. Qed.
Example C11_T2_converted :
  match p2l_q [-1 # 1; 0; 2 # 1]%Q with Some l => check_p2l [-1 # 1; 0; 2 # 1]%Q l | None => false end = true.
Proof. vm_compute. reflexivity. Qed.
