(* Props/C03.v — well-conditioned low-degree requests always succeed.
   What is provable about the family in exact arithmetic; floating-point success is not (see DESIGN). *)
From Coq Require Import ZArith QArith Qreals List Reals Bool.
From Coquelicot Require Import Complex.
From PyqspV Require Import Base.Ops Model.LPolyM Model.LAlgM Model.QInst Model.Checkers
  Theory.RingK Theory.LPolyT Theory.LAlgT Theory.CplxT Theory.QC Theory.CertT Theory.C01T Theory.C04T Theory.CornerT Theory.SupT Theory.TargetBoundT.
Import ListNotations.
Open Scope R_scope.

(* a Laurent polynomial of coefficient 1-norm below 1 keeps 1 - F F~ away from 0 on the whole
   circle: the root split never meets a root on the unit circle on this family *)
Theorem C03_no_unit_roots (F : lpoly C) theta : sumR (map Cmod (lp_coefs F)) < 1 ->
  let w := cis theta in let wi := cis (- theta) in
  1 - sumR (map Cmod (lp_coefs F)) * sumR (map Cmod (lp_coefs F))
  <= Cmod (Cminus (RtoC 1) (Cmult (evx CR w wi F) (evx CR wi w F))).
Proof. exact (no_unit_roots F theta). Qed.
Print Assumptions C03_no_unit_roots.

(* the Laurent form handed to completion denotes the capitalised target polynomial *)
Theorem C03_laurent_form_of_target pc F theta : target_F pc = Some F ->
  evx CR (cis theta) (cis (- theta)) (lpQ2C F) = @peval CR (map q2c pc) (RtoC (cos theta)) /\ wf CR (lpQ2C F).
Proof. exact (target_F_sound pc F theta). Qed.
Print Assumptions C03_laurent_form_of_target.

(* every return is certified: re-export of the C01 / C02 certificate theorems *)
Theorem C03_real_return_certified phi0 rest pc eps suc tol :
  check_c01 (phi0 :: rest) pc eps suc tol = true ->
  length (phi0 :: rest) = length pc /\
  forall theta,
    Cmod (Cminus (resp_x phi0 rest theta)
                 (RtoC (Q2R suc * (pevalR (map Q2R pc) (cos theta) + Q2R eps / 2 * cos theta ^ (length pc - 1)))))
    <= 100 * Q2R tol.
Proof. exact (check_c01_sound phi0 rest pc eps suc tol). Qed.
Print Assumptions C03_real_return_certified.

Theorem C03_complex_return_certified phi0 rest Pre Pim tol :
  check_c02 (phi0 :: rest) Pre Pim tol = true ->
  length (phi0 :: rest) = length Pre /\
  forall theta, Cmod (Cminus (m00 (Ux_at phi0 rest theta)) (targetC Pre Pim theta)) <= 100 * Q2R tol.
Proof. exact (check_c02_sound phi0 rest Pre Pim tol). Qed.
Print Assumptions C03_complex_return_certified.

(* every member of the real family is an admissible QSP target: a Chebyshev series is bounded on [-1,1]
   by the 1-norm of its coefficient vector (all degrees, all coefficient vectors), so |c|_1 <= 0.9
   keeps the target at distance >= 0.1 from +-1 on the whole interval *)
Theorem C03_family_bounded_by_norm1 c x : -1 <= x <= 1 -> Rabs (cheb_series c x) <= sumR (map Rabs c).
Proof. exact (cheb_series_norm1 c x). Qed.
Print Assumptions C03_family_bounded_by_norm1.

Corollary C03_family_admissible c x : -1 <= x <= 1 -> sumR (map Rabs c) <= 9 / 10 -> Rabs (cheb_series c x) <= 9 / 10.
Proof. intros Hx Hc. eapply Rle_trans; [exact (cheb_series_norm1 c x Hx) | exact Hc]. Qed.
Print Assumptions C03_family_admissible.

(* ... and for every member (every degree, either parity) the polynomial 1 - F F~ whose roots the completion splits stays
   >= 0.19 in modulus on the whole unit circle: no member puts a root on or near the circle in exact arithmetic *)
Theorem C03_family_no_unit_roots odd c theta : (Qnorm1 c <= 9 # 10)%Q ->
  let F := lpQ2C (cheb_to_laurent odd c) in
  19 / 100 <= Cmod (Cminus (RtoC 1) (Cmult (evx CR (cis theta) (cis (- theta)) F) (evx CR (cis (- theta)) (cis theta) F))).
Proof. exact (family_no_unit_roots odd c theta). Qed.
Print Assumptions C03_family_no_unit_roots.
