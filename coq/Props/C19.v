(* Props/C19.v — infeasible or malformed requests fail with documented errors; calls are pure.
   Decision model of the option validation and of the kernel-event -> exception mapping.
   Purity (argument arrays, module constants, determinism under a fixed RNG state) is runtime
   behaviour of the implementation: the model's entry points are functions by construction, the
   implementation is checked by the harness (see DESIGN.md). *)
From Coq Require Import List Bool String.
From PyqspV Require Import Model.ErrM.
Import ListNotations.
Open Scope string_scope.

(* an unknown method is refused with ValueError, whatever the other options *)
Theorem C19_unknown_method so m method : method <> "laurent" -> method <> "tf" -> qspp_validate so m method = inl ValueError.
Proof.
  intros H1 H2. unfold qspp_validate. apply String.eqb_neq in H1, H2. rewrite H2, H1. reflexivity.
Qed.
Print Assumptions C19_unknown_method.

(* an unknown signal operator is refused with ValueError *)
Theorem C19_unknown_signal_operator so m : so <> "Wx" -> so <> "Wz" -> qspp_validate so m "laurent" = inl ValueError.
Proof.
  intros H1 H2. unfold qspp_validate, default_measurement. apply String.eqb_neq in H1, H2. cbn [String.eqb]. 
  change ("laurent" =? "tf") with false. change ("laurent" =? "laurent") with true. cbn [negb].
  rewrite H1, H2. destruct m; cbn [andb orb]; reflexivity.
Qed.
Print Assumptions C19_unknown_signal_operator.

(* an unknown measurement is refused with ValueError *)
Theorem C19_unknown_measurement so mm : mm <> "x" -> mm <> "z" -> qspp_validate so (Some mm) "laurent" = inl ValueError.
Proof.
  intros H1 H2. unfold qspp_validate, default_measurement. apply String.eqb_neq in H1, H2.
  change ("laurent" =? "tf") with false. change ("laurent" =? "laurent") with true. cbn [negb].
  rewrite H1, H2. rewrite !andb_false_r. reflexivity.
Qed.
Print Assumptions C19_unknown_measurement.

(* validation never answers with anything but ValueError, and accepts exactly the three models *)
Theorem C19_validation_outcomes so m method e : qspp_validate so m method = inl e -> e = ValueError.
Proof.
  unfold qspp_validate. destruct (method =? "tf"); [destruct (so =? "Wx"); congruence|].
  destruct (negb (method =? "laurent")); [congruence|].
  destruct (default_measurement so m); [|congruence].
  destruct ((so =? "Wx") && (s =? "x") || (so =? "Wz") && (s =? "z")); [congruence|].
  destruct ((so =? "Wx") && (s =? "z")); congruence.
Qed.
Print Assumptions C19_validation_outcomes.

Theorem C19_unknown_completion_type ct : ct <> "F" -> ct <> "f" -> ct <> "P" -> ct <> "p" -> completion_validate ct = Some CompletionError.
Proof.
  intros H1 H2 H3 H4. unfold completion_validate. apply String.eqb_neq in H1, H2, H3, H4. rewrite H1, H2, H3, H4. reflexivity.
Qed.
Print Assumptions C19_unknown_completion_type.

Theorem C19_unknown_response_names so m :
  (so <> "Wx" -> so <> "Wz" -> response_validate so m = Some ResponseError) /\
  (forall mm, m = Some mm -> mm <> "x" -> mm <> "z" -> response_validate so m = Some ResponseError).
Proof.
  split.
  - intros H1 H2. unfold response_validate. apply String.eqb_neq in H1, H2. rewrite H1, H2. reflexivity.
  - intros mm -> H1 H2. unfold response_validate, default_measurement. apply String.eqb_neq in H1, H2. rewrite H1, H2.
    destruct (negb ((so =? "Wx") || (so =? "Wz"))); reflexivity.
Qed.
Print Assumptions C19_unknown_response_names.

(* every kernel event is answered with a documented class (repaired tree) ... *)
Theorem C19_events_documented e x : event_outcome e = Some x -> x = CompletionError \/ x = AngleFindingError.
Proof. destruct e; cbn; intros H; inversion H; auto. Qed.
Print Assumptions C19_events_documented.

(* ... which was false for the tree as found: an empty root selection escaped as OverflowError *)
Theorem C19_as_found_refuted : exists e, event_outcome_as_found e = Some OverflowErrorAsFound.
Proof. exists KNoRootSelected. reflexivity. Qed.
Print Assumptions C19_as_found_refuted.
