(* Props/C08.v — Low-algebra elements behave as the SU(2)-valued Laurent polynomials they
   denote.  K: any commutative ring; w*wi = 1; i*i = -1;
   Mden g = [[A(w), i B(w)], [i B(1/w), A(1/w)]] for g = A + B iX. *)
From Coq Require Import ZArith List Bool.
From PyqspV Require Import Base.Ops Model.LPolyM Model.LAlgM Theory.RingK Theory.LPolyT Theory.LAlgT.
Import ListNotations.

Section C08.
  Variable K : CRing.
  Variables w wi i : K.
  Hypothesis wwi : kmul w wi = k1.
  Hypothesis ii : kmul i i = kopp k1.
  Notation M := (Mden K w wi i).
  Notation gwf := (gwf K).

  Theorem C08_product g h r : gwf g -> gwf h -> la_mul OpsK g h = Some r ->
    M r = mmul K (M g) (M h) /\ gwf r.
  Proof. exact (M_mul K w wi i wwi ii g h r). Qed.

  Theorem C08_sum g h r : gwf g -> gwf h -> la_add OpsK g h = Some r ->
    M r = madd K (M g) (M h) /\ gwf r.
  Proof. exact (M_add K w wi i wwi g h r). Qed.

  Theorem C08_negation g r : gwf g -> la_neg OpsK g = Some r -> M r = mneg K (M g) /\ gwf r.
  Proof. exact (M_neg K w wi i g r). Qed.

  Theorem C08_difference g h r : gwf g -> gwf h -> la_sub OpsK g h = Some r ->
    M r = madd K (M g) (mneg K (M h)) /\ gwf r.
  Proof. exact (M_sub K w wi i wwi g h r). Qed.

  (* ~g denotes the adjugate: the inverse of a determinant-1 matrix, i.e. the conjugate
     transpose of an SU(2) matrix *)
  Theorem C08_conjugation g r : gwf g -> la_inv OpsK g = Some r -> M r = madj K (M g) /\ gwf r.
  Proof. exact (M_inv K w wi i wwi g r). Qed.

  Theorem C08_times_polynomial g p r : gwf g -> wf K p -> la_mul_poly OpsK g p = Some r ->
    M r = mmul K (M g) (mdiag K (evx K w wi p) (evx K wi w p)) /\ gwf r.
  Proof. exact (M_mul_poly K w wi i wwi g p r). Qed.

  Theorem C08_polynomial_times p g r : gwf g -> wf K p -> poly_mul_la OpsK p g = Some r ->
    M r = mmul K (mdiag K (evx K w wi p) (evx K wi w p)) (M g) /\ gwf r.
  Proof. exact (M_poly_mul K w wi i wwi p g r). Qed.

  Theorem C08_scalar g a r : gwf g -> la_scale OpsK g a = Some r -> M r = mscale K a (M g) /\ gwf r.
  Proof. exact (M_scale K w wi i g a r). Qed.

  Theorem C08_w_is_diag : evx K w wi (lp_w OpsK) = w /\ evx K wi w (lp_w OpsK) = wi.
  Proof. exact (conj (ev_w K w wi) (evi_w K w wi)). Qed.

  Theorem C08_iX : M (la_iX OpsK) = M2 k0 i i k0.
  Proof. exact (M_iX K w wi i). Qed.

  Theorem C08_rotation cs : M (la_rotation OpsK cs) = Rot K i cs.
  Proof. exact (M_rotation K w wi i cs). Qed.

  (* the element built from any phase list is the ordered product R(phi_0) w R(phi_1) ... w R(phi_n) *)
  Theorem C08_phase_list_is_product cs l r : la_from_angles OpsK (cs :: l) = Some r ->
    M r = prod_angles K w wi i (Rot K i cs) l /\ gwf r.
  Proof. exact (from_angles_sound K w wi i wwi ii cs l r). Qed.

  (* ... and is unitary: determinant 1, g * ~g = Id *)
  Theorem C08_phase_list_unitary cs l r : Forall (unit_cs K) (cs :: l) ->
    la_from_angles OpsK (cs :: l) = Some r -> mdet K (M r) = k1.
  Proof. exact (from_angles_det K w wi i wwi ii cs l r). Qed.

  Theorem C08_pnorm_is_determinant g pn : gwf g -> la_pnorm OpsK g = Some pn ->
    evx K w wi pn = mdet K (M g).
  Proof. exact (pnorm_is_det K w wi i wwi ii g pn). Qed.
End C08.
Print Assumptions C08_product.
Print Assumptions C08_sum.
Print Assumptions C08_negation.
Print Assumptions C08_difference.
Print Assumptions C08_conjugation.
Print Assumptions C08_times_polynomial.
Print Assumptions C08_polynomial_times.
Print Assumptions C08_scalar.
Print Assumptions C08_w_is_diag.
Print Assumptions C08_iX.
Print Assumptions C08_rotation.
Print Assumptions C08_phase_list_is_product.
Print Assumptions C08_phase_list_unitary.
Print Assumptions C08_pnorm_is_determinant.
