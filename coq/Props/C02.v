(* Props/C02.v — returned phases realise the requested complex polynomial (Wx signal, z basis).
   Ux_at phi0 rest t is the defining Wx matrix product at a = cos t; its (0,0) entry is <0|U|0>. *)
From Coq Require Import ZArith QArith Qreals List Reals Bool.
From Coquelicot Require Import Complex.
From PyqspV Require Import Base.Ops Model.LPolyM Model.LAlgM Model.QInst Model.Checkers
  Theory.RingK Theory.LPolyT Theory.LAlgT Theory.CplxT Theory.RespT Theory.QC Theory.CertT Theory.C01T Theory.CornerT Theory.SymQspT.
Import ListNotations.
Open Scope R_scope.

Theorem C02_certificate_sound phi0 rest Pre Pim tol :
  check_c02 (phi0 :: rest) Pre Pim tol = true ->
  length (phi0 :: rest) = length Pre /\
  forall theta, Cmod (Cminus (m00 (Ux_at phi0 rest theta)) (targetC Pre Pim theta)) <= 100 * Q2R tol.
Proof. exact (check_c02_sound phi0 rest Pre Pim tol). Qed.
Print Assumptions C02_certificate_sound.

(* no eps / suc adjustment: the model's target is P itself *)
Theorem C02_target_is_P Pre Pim theta :
  targetC Pre Pim theta =
  Cplus (@peval CR (map q2c Pre) (RtoC (cos theta))) (Cmult Ci (@peval CR (map q2c Pim) (RtoC (cos theta)))).
Proof. reflexivity. Qed.
Print Assumptions C02_target_is_P.

Theorem C02_wx_z_is_hadamard_corner (K : CRing) (i h a s : K) cs l g :
  kmul i i = kopp k1 -> kadd (kmul h h) (kmul h h) = k1 -> kadd (kmul a a) (kmul s s) = k1 ->
  la_from_angles OpsK (cs :: l) = Some g ->
  meas_z K (Ux K i a s cs l) =
  kmul (kmul h h) (kadd (kadd (kadd (evx K (kadd a (kmul i s)) (ksub a (kmul i s)) (la_I g))
                                     (kmul i (evx K (kadd a (kmul i s)) (ksub a (kmul i s)) (la_X g))))
                               (kmul i (evx K (ksub a (kmul i s)) (kadd a (kmul i s)) (la_X g))))
                         (evx K (ksub a (kmul i s)) (kadd a (kmul i s)) (la_I g))).
Proof. exact (fun ii hh => resp_wx_z_is_hadamard_corner K i h ii hh a s cs l g). Qed.
Print Assumptions C02_wx_z_is_hadamard_corner.

(* every <0|U(a)|0> has the parity of the number of signal operators, so a P with both parities
   is the corner of no phase sequence: with f = P - corner, f_off = P_off and |f_off(a)| <= sup |f| *)
Theorem C02_corner_has_definite_parity (K : CRing) (i a s : K) cs l :
  m00 (Ux K i (kopp a) s cs l) = if Nat.even (length l) then m00 (Ux K i a s cs l) else kopp (m00 (Ux K i a s cs l)).
Proof. exact (wx_response_parity K i a s cs l). Qed.
Print Assumptions C02_corner_has_definite_parity.
