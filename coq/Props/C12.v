(* Props/C12.v — symmetric-QSP protocol: phase layout, response and Jacobian. *)
From Coq Require Import ZArith QArith Qreals List Reals Bool.
From Coquelicot Require Import Complex Hierarchy Derive.
From PyqspV Require Import Base.Ops Base.IntervalZ Model.LPolyM Model.LAlgM Model.QInst Model.ResponseM Model.SymQspM Model.Checkers
  Theory.RingK Theory.LPolyT Theory.LAlgT Theory.RelT Theory.CplxT Theory.RespT Theory.QC Theory.CertT Theory.C01T Theory.C06T
  Theory.CornerT Theory.SymQspT Theory.SymCertT Theory.DualT Theory.JacT Theory.AccHiT Theory.ChebDblT Theory.FftT Theory.SupMonoT Theory.IntervalT Model.Jac3M Theory.Jac3T Theory.C01T.
Import ListNotations.

Section Layout.
  Context {D : Type} (O : Ops D).
  Theorem C12_layout_length odd red full : sym_full O odd red = Some full ->
    length full = if odd then (2 * length red)%nat else (2 * length red - 1)%nat.
  Proof. exact (sym_full_length O odd red full). Qed.
  Theorem C12_layout_palindrome odd red full : sym_full O odd red = Some full -> rev full = full.
  Proof. exact (sym_full_palindrome O odd red full). Qed.
  Theorem C12_layout_centre r0 rt full : sym_full O false (r0 :: rt) = Some full ->
    nth (length rt) full (d0 O) = dbl O r0.
  Proof. exact (sym_full_centre O r0 rt full). Qed.
  (* after any sequence of reduced-phase updates the protocol is the freshly built one *)
  Theorem C12_update_history odd r0 hist :
    fold_left (proto_update O) hist (proto_init O odd r0) = proto_init O odd (last hist r0).
  Proof. exact (update_invariant O odd r0 hist). Qed.
End Layout.
Print Assumptions C12_layout_length.
Print Assumptions C12_layout_palindrome.
Print Assumptions C12_layout_centre.
Print Assumptions C12_update_history.

(* the response has the parity of the number of signal operators: U(-a) = (-1)^n Z U(a) Z *)
Theorem C12_response_parity (K : CRing) (i a s : K) cs l :
  m00 (Ux K i (kopp a) s cs l) = if Nat.even (length l) then m00 (Ux K i a s cs l) else kopp (m00 (Ux K i a s cs l)).
Proof. exact (wx_response_parity K i a s cs l). Qed.
Print Assumptions C12_response_parity.

(* value part of the Jacobian routine: coefficient-wise certificate *)
Theorem C12_jacobian_values_certificate odd red f tol : check_jac_f odd red f tol = true ->
  length red = length f /\
  exists phi0 rest gC dC, sym_full_q odd red = Some (phi0 :: rest) /\ elemC (phi0 :: rest) = Some gC /\
    corner_diff OpsC halfC (la_X gC) (lpQ2C (cheb_to_laurent odd f)) = Some dC /\
    Forall (fun z => (Cmod z <= Q2R tol / 2)%R) (lp_coefs dC).
Proof. exact (check_jac_f_sound odd red f tol). Qed.
Print Assumptions C12_jacobian_values_certificate.

(* derivative part: forward-mode differentiation of the model is sound *)
Theorem C12_dual_run_encloses_derivative (l : list (Q * nat)) gD :
  la_from_angles OpsDI (map (fun pm => dual_cs (fst pm) (snd pm)) l) = Some gD ->
  exists gF, la_from_angles OpsF (map (fun pm => leafF (fst pm) (snd pm)) l) = Some gF /\ la_rel rDF gD gF.
Proof. exact (dual_run_sound l gD). Qed.
Print Assumptions C12_dual_run_encloses_derivative.

Theorem C12_function_run_is_perturbed_element (l : list (Q * nat)) gF d :
  la_from_angles OpsF (map (fun pm => leafF (fst pm) (snd pm)) l) = Some gF ->
  exists gR, la_from_angles OpsR (map (fun pm => leafR d (fst pm) (snd pm)) l) = Some gR /\ la_rel (at_d d) gF gR.
Proof. exact (function_run_pointwise l gF d). Qed.
Print Assumptions C12_function_run_is_perturbed_element.

(* the Jacobian columns, end to end: row j of column k is the derivative at 0 of the function
   d |-> (coefficient of T_{2j+parity} of Im <0|U|0> for the full phases  full_i + w_i d),  w = d full / d red_k *)
Theorem C12_jacobian_column_certificate odd red k col tol : check_jac_df_col odd red k col tol = true ->
  exists full gF sF, sym_full_q odd red = Some full /\
    la_from_angles OpsF (map (fun pm => leafF (fst pm) (snd pm)) (perturbed odd red k full)) = Some gF /\
    lp_add OpsF (la_X gF) (lp_inv OpsF (la_X gF)) = Some sF /\
    length col = length red /\
    forall j, (j < length red)%nat ->
      exists v, Coquelicot.Derive.is_derive (entryF sF odd j) 0%R v /\ (Rabs (v - Q2R (nth j col 0%Q)) <= Q2R tol)%R.
Proof. exact (jac_df_col_sound odd red k col tol). Qed.
Print Assumptions C12_jacobian_column_certificate.

Theorem C12_jacobian_entry_is_exact_coefficient (l : list (Q * nat)) gF sF odd j d :
  la_from_angles OpsF (map (fun pm => leafF (fst pm) (snd pm)) l) = Some gF ->
  lp_add OpsF (la_X gF) (lp_inv OpsF (la_X gF)) = Some sF ->
  exists gR sR, la_from_angles OpsR (map (fun pm => leafR d (fst pm) (snd pm)) l) = Some gR /\
    lp_add OpsR (la_X gR) (lp_inv OpsR (la_X gR)) = Some sR /\
    entryF sF odd j d = entryR sR odd j.
Proof. exact (jac_entry_pointwise l gF sF odd j d). Qed.
Print Assumptions C12_jacobian_entry_is_exact_coefficient.

(* the sampling pipeline of gen_jacobian (d+1 samples, two mirror steps, real DFT over 4d rows, doubling, /4d, every second row):
   applied to a column that is a Chebyshev sum  sum_{i<d} c_i T_{2i+parity}(a)  sampled at a_n = cos(n pi/(2d)), it returns exactly the c_j *)
Theorem C12_sampling_pipeline_recovers_coefficients d odd (s c : nat -> R) :
  (0 < d)%nat ->
  (forall n, (n <= d)%nat -> s n = sumf (fun i => c i * Tn (par odd + 2 * i) (cos (PI * INR n / INR (2 * d)))) d)%R ->
  forall j, (j < d)%nat -> f_out d odd s j = c j.
Proof. exact (pipeline_recovers_chebyshev_coefficients d odd s c). Qed.
Print Assumptions C12_sampling_pipeline_recovers_coefficients.

(* no aliasing below the limit: the cosines cos(j t), cos(k t) with j + k < N are orthogonal on the N equispaced angles of the circle *)
Theorem C12_circle_orthogonality N j k : (j + k < N)%nat ->
  cgram N j k = if Nat.eqb j k then (if Nat.eqb j 0 then INR N else (INR N / 2)%R) else 0%R.
Proof. exact (circle_orthogonality N j k). Qed.
Print Assumptions C12_circle_orthogonality.

(* gen_poly_jacobian_components (the 3x3 rotation recurrences, Model/Jac3M.v).
   (1) the symmetric Wx product of the protocol's full phases is the symmetric matrix S(x,y,z) of the routine's forward state, so the
       value entry y[n] is Im <0|U(a)|0>  (a = cos t, s = sin t; reduced phases given by their (cos, sin) pairs, even parity with the
       doubled centre phase) *)
Theorem C12_components_value_is_im_response (a s : R) odd c0 rest : (a * a + s * s = 1)%R -> unitcs c0 -> List.Forall unitcs rest ->
  last (jac3 OpsRR (ct2 a s) (r_init a s odd) (map dblcs (c0 :: rest))) 0%R = snd (m00 (Ulist a s (full_cs odd c0 rest))).
Proof. intros H. exact (jac3_value_is_im_response a s H odd c0 rest). Qed.
Print Assumptions C12_components_value_is_im_response.

(* (2) the entries y[k], k < n, are the partial derivatives of the value with respect to the reduced phases *)
Theorem C12_components_are_partial_derivatives ct pre r phi post :
  Coquelicot.Derive.is_derive (fun x => dot3 OpsRR (arow RR ct (map cs2 (pre ++ x :: post))) r) phi
            (nth (length pre) (snd (go OpsRR ct r (map cs2 (pre ++ phi :: post)))) 0%R).
Proof. exact (jac3_partial ct pre r phi post). Qed.
Print Assumptions C12_components_are_partial_derivatives.

(* (3) the certified distances of the run: every claimed entry is within the returned bound of the real routine's entry *)
Theorem C12_components_certificate odd red a vals ds : jac3_dists odd red a vals = Some ds ->
  (-1 <= Q2R a <= 1)%R /\
  Forall2 (fun d yv => (Rabs (fst yv - Q2R (snd yv)) * sc <= IZR d)%R) ds (combine (jac3R odd (map Q2R red) (Q2R a)) vals).
Proof. exact (jac3_dists_sound odd red a vals ds). Qed.
Print Assumptions C12_components_certificate.

(* (4) in the protocol's own terms: rational reduced phases r0 :: rt, the model's full-phase layout, the Wx product of C01/C13 —
   the value entry of gen_poly_jacobian_components(cos theta) is Im <0|U(cos theta)|0> *)
Theorem C12_components_value_is_protocol_response odd r0 rt phi0 rest theta : (0 <= theta <= PI)%R ->
  sym_full_q odd (r0 :: rt) = Some (phi0 :: rest) ->
  last (jac3R odd (map Q2R (r0 :: rt)) (cos theta)) 0%R = snd (m00 (Ux_at phi0 rest theta)).
Proof. exact (jac3_value_is_protocol_response odd r0 rt phi0 rest theta). Qed.
Print Assumptions C12_components_value_is_protocol_response.

(* the whole matrix returned for the protocol: a symmetric SU(2) element [[x + i y, i z],[i z, x - i y]] with real x, y, z, for every
   parity, length, reduced phases and angle — the relations the whole-matrix read-out of gen_unitary is checked against *)
Theorem C12_unitary_is_symmetric_su2 odd r0 rt phi0 rest theta :
  sym_full_q odd (r0 :: rt) = Some (phi0 :: rest) ->
  exists x y z : R, Ux_at phi0 rest theta = symS (x, y, z).
Proof. exact (sym_unitary_form odd r0 rt phi0 rest theta). Qed.
Print Assumptions C12_unitary_is_symmetric_su2.

(* ... and its two read-outs <0|U|0> = x + i y and <+|U|+> = x + i z give all three parameters: comparing gen_unitary's (0,0) entry and
   the sum of its four entries with the verified evaluators (plus the relations above on the returned matrices) pins the whole matrix *)
Theorem C12_readouts_determine_unitary odd r0 rt phi0 rest theta :
  sym_full_q odd (r0 :: rt) = Some (phi0 :: rest) ->
  exists x y z : R, Ux_at phi0 rest theta = symS (x, y, z) /\
    m00 (Ux_at phi0 rest theta) = (x, y) /\ resp_x phi0 rest theta = (x, z).
Proof. exact (sym_unitary_readouts odd r0 rt phi0 rest theta). Qed.
Print Assumptions C12_readouts_determine_unitary.
