(* Props/C05.v — P-type completion encodes exactly the requested corner polynomial.
   hcorner A B t is the upper-left entry of H M(g) H at w = e^{it} for g = A + B iX;
   targetC Pre Pim t is P(cos t) for P = Pre + i Pim given by monomial coefficients. *)
From Coq Require Import ZArith QArith Qreals List Reals Bool.
From Coquelicot Require Import Complex.
From PyqspV Require Import Base.Ops Model.LPolyM Model.LAlgM Model.QInst Model.Checkers
  Theory.RingK Theory.LPolyT Theory.LAlgT Theory.CplxT Theory.RespT Theory.QC Theory.CertT Theory.C01T Theory.CornerT.
Import ListNotations.
Open Scope R_scope.

Theorem C05_certificate_sound Pre Pim g tol ctol :
  lp_isz (la_I g) = false -> lp_isz (la_X g) = false ->
  check_pcompletion Pre Pim g tol ctol = true ->
  (exists r, unit_residual (la_I g) (la_X g) = Some r /\ Forall (fun c => Rabs (Q2R c) < Q2R tol) (lp_coefs r)) /\
  forall theta, Cmod (Cminus (hcorner (lpQ2C (la_I g)) (lpQ2C (la_X g)) theta) (targetC Pre Pim theta)) <= Q2R ctol.
Proof. exact (check_pcompletion_sound Pre Pim g tol ctol). Qed.
Print Assumptions C05_certificate_sound.

(* the Hadamard corner of the element of a phase list is <0|U_x|0> of the Wx sequence: over any ring *)
Theorem C05_corner_is_wx_response (K : CRing) (i h a s : K) cs l g :
  kmul i i = kopp k1 -> kadd (kmul h h) (kmul h h) = k1 -> kadd (kmul a a) (kmul s s) = k1 ->
  la_from_angles OpsK (cs :: l) = Some g ->
  meas_z K (Ux K i a s cs l) =
  kmul (kmul h h) (kadd (kadd (kadd (evx K (kadd a (kmul i s)) (ksub a (kmul i s)) (la_I g))
                                     (kmul i (evx K (kadd a (kmul i s)) (ksub a (kmul i s)) (la_X g))))
                               (kmul i (evx K (ksub a (kmul i s)) (kadd a (kmul i s)) (la_X g))))
                         (evx K (ksub a (kmul i s)) (kadd a (kmul i s)) (la_I g))).
Proof. exact (fun ii hh => resp_wx_z_is_hadamard_corner K i h ii hh a s cs l g). Qed.
Print Assumptions C05_corner_is_wx_response.

(* corner - target splits into the two real Laurent differences the checker bounds *)
Theorem C05_corner_split (A B FrC FiC dA dB : lpoly C) Pre Pim theta :
  wf CR A -> wf CR B -> wf CR FrC -> wf CR FiC ->
  evx CR (cis theta) (cis (- theta)) FrC = @peval CR (map q2c Pre) (RtoC (cos theta)) ->
  evx CR (cis theta) (cis (- theta)) FiC = @peval CR (map q2c Pim) (RtoC (cos theta)) ->
  corner_diff OpsC halfC A FrC = Some dA -> corner_diff OpsC halfC B FiC = Some dB ->
  Cminus (hcorner A B theta) (targetC Pre Pim theta) =
  Cplus (evx CR (cis theta) (cis (- theta)) dA) (Cmult Ci (evx CR (cis theta) (cis (- theta)) dB)).
Proof. exact (corner_split A B FrC FiC dA dB Pre Pim theta). Qed.
Print Assumptions C05_corner_split.
