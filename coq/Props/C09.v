(* Props/C09.v — parity-constrained Laurent polynomial arithmetic is exact ring arithmetic.
   Statements only; proofs are in Theory/.  K is any commutative ring, (x, xi) any pair with
   x * xi = 1; evx K x xi p is the Laurent polynomial stored in p evaluated at w = x. *)
From Coq Require Import ZArith List Bool.
From PyqspV Require Import Base.Ops Model.LPolyM Theory.RingK Theory.LPolyT Theory.LPolyCoef.
Import ListNotations.
Open Scope Z_scope.

Theorem C09_product (K : CRing) (x xi : K) p q : kmul x xi = k1 -> wf K p -> wf K q ->
  evx K x xi (lp_mul OpsK p q) = kmul (evx K x xi p) (evx K x xi q).
Proof. exact (evx_mul K x xi p q). Qed.
Print Assumptions C09_product.

Theorem C09_sum (K : CRing) (x xi : K) p q r : kmul x xi = k1 -> wf K p -> wf K q ->
  lp_add OpsK p q = Some r -> evx K x xi r = kadd (evx K x xi p) (evx K x xi q).
Proof. exact (evx_add K x xi p q r). Qed.
Print Assumptions C09_sum.

Theorem C09_difference (K : CRing) (x xi : K) p q r : kmul x xi = k1 -> wf K p -> wf K q ->
  lp_sub OpsK p q = Some r -> evx K x xi r = ksub (evx K x xi p) (evx K x xi q).
Proof. exact (evx_sub K x xi p q r). Qed.
Print Assumptions C09_difference.

Theorem C09_scalar (K : CRing) (x xi a : K) p : wf K p ->
  evx K x xi (lp_scale OpsK a p) = kmul a (evx K x xi p).
Proof. exact (evx_scale K x xi a p). Qed.
Print Assumptions C09_scalar.

Theorem C09_negation (K : CRing) (x xi : K) p : wf K p ->
  evx K x xi (lp_neg OpsK p) = kopp (evx K x xi p).
Proof. exact (evx_neg K x xi p). Qed.
Print Assumptions C09_negation.

(* ~p evaluated at 1/w equals p evaluated at w *)
Theorem C09_inversion (K : CRing) (x xi : K) p : kmul x xi = k1 -> wf K p ->
  evx K xi x (lp_inv OpsK p) = evx K x xi p.
Proof. exact (evx_inv K x xi p). Qed.
Print Assumptions C09_inversion.

Theorem C09_inversion_coefficients {D} (O : Ops D) (p : lpoly D) k : lp_isz p = false -> lp_coefs p <> [] ->
  lp_get O (lp_inv O p) k = lp_get O p (- k).
Proof. exact (lp_get_inv O p k). Qed.
Print Assumptions C09_inversion_coefficients.

(* truncation to any parity-consistent window, for any stored range *)
Theorem C09_truncate_window {D} (O : Ops D) (p : lpoly D) a b : lp_isz p = false -> lp_coefs p <> [] ->
  (a - lp_dmin p) mod 2 = 0 -> (b - a) mod 2 = 0 -> a <= b ->
  exists r, lp_truncate O p a b = Some r /\ lp_dmin r = a /\ lp_isz r = false /\
    len (lp_coefs r) = (b - a) / 2 + 1 /\
    forall k, lp_get O r k = if (a <=? k) && (k <=? b) then lp_get O p k else d0 O.
Proof. exact (lp_truncate_spec O p a b). Qed.
Print Assumptions C09_truncate_window.

(* the zero polynomial evaluates to 0, is neutral for + and absorbing for *, on either side *)
Theorem C09_zero_evaluates_to_0 (K : CRing) (x xi : K) d : evx K x xi (lzero K d) = k0.
Proof. exact (ev_zero K x xi d). Qed.
Print Assumptions C09_zero_evaluates_to_0.

Theorem C09_zero_neutral (K : CRing) (x xi : K) d p : kmul x xi = k1 -> wf K p ->
  (exists r, lp_add OpsK (lzero K d) p = Some r) /\ (exists r, lp_add OpsK p (lzero K d) = Some r) /\
  (forall r, lp_add OpsK (lzero K d) p = Some r -> evx K x xi r = evx K x xi p) /\
  (forall r, lp_add OpsK p (lzero K d) = Some r -> evx K x xi r = evx K x xi p).
Proof.
  exact (fun Hx Wp => conj (add_zero_total_l K d p) (conj (add_zero_total_r K d p)
         (conj (fun r => add_zero_l K x xi d p r Hx Wp) (fun r => add_zero_r K x xi d p r Hx Wp)))).
Qed.
Print Assumptions C09_zero_neutral.

Theorem C09_zero_absorbing (K : CRing) (x xi : K) d p :
  evx K x xi (lp_mul OpsK (lzero K d) p) = k0 /\ evx K x xi (lp_mul OpsK p (lzero K d)) = k0.
Proof. exact (conj (mul_zero_l K x xi d p) (mul_zero_r K x xi d p)). Qed.
Print Assumptions C09_zero_absorbing.

(* sampled sup norm: certified two-sided bounds on max_{|w|=1} |f(w)| (real coefficients).
   modsq f t = |f(e^{it})|^2; the autocorrelation series s is verified exactly, then bounded. *)
From Coq Require Import QArith Qreals Reals.
From PyqspV Require Import Model.QInst Model.Checkers Theory.InfNormT.
Theorem C09_sup_norm_upper_bound f s cells M2 : check_infnorm_ub f s cells M2 = true ->
  forall t, (modsq f t <= Q2R M2)%R.
Proof. exact (check_infnorm_ub_sound f s cells M2). Qed.
Print Assumptions C09_sup_norm_upper_bound.

Theorem C09_sup_norm_lower_bound f s theta m2 : check_infnorm_lb f s theta m2 = true ->
  exists t, (Q2R m2 < modsq f t)%R.
Proof. exact (check_infnorm_lb_sound f s theta m2). Qed.
Print Assumptions C09_sup_norm_lower_bound.

(* round_zeros: exactly the coefficients of magnitude below the threshold are replaced by 0, the stored range is
   kept, and on the unit circle the polynomial moves by at most (number of terms) * thresh *)
From Coq Require Import Qabs.
From Coquelicot Require Import Complex.
From PyqspV Require Import Theory.CplxT Theory.QC Theory.RoundT.
Theorem C09_round_zeros_coefficients th l j :
  nth j (round_zeros_q th l) 0%Q = if Qltb (Qabs (nth j l 0%Q)) th then 0%Q else nth j l 0%Q.
Proof. exact (round_zeros_nth th l j). Qed.
Print Assumptions C09_round_zeros_coefficients.

Theorem C09_round_zeros_length th l : length (round_zeros_q th l) = length l.
Proof. exact (round_zeros_length th l). Qed.
Print Assumptions C09_round_zeros_length.

Theorem C09_round_zeros_sup (p : lpoly Q) (th : Q) (x xi : C) : Cmod x = 1%R -> Cmod xi = 1%R -> (0 <= Q2R th)%R ->
  (Cmod (Cminus (evx CR x xi (lpQ2C p)) (evx CR x xi (lpQ2C (lp_round_zeros th p)))) <= INR (length (lp_coefs p)) * Q2R th)%R.
Proof. exact (round_zeros_sup p th x xi). Qed.
Print Assumptions C09_round_zeros_sup.
