(* Props/C09.v — placeholder until Theory/LPolyT.v lands *)
From Coq Require Import ZArith.
