(* Props/C07.v — the Laurent-coefficient entry point honours its eps / suc budget.
   Uz_at phi0 rest t is the Wz sequence unitary of the phases at w = e^{it} (the defining
   matrix product: phase operators H diag(e^{i phi}, e^{-i phi}) H, signal operator H W(a) H);
   its (0,0) entry is the identity part A(w). *)
From Coq Require Import ZArith QArith Qreals List Reals Bool.
From Coquelicot Require Import Complex.
From PyqspV Require Import Base.Ops Model.LPolyM Model.LAlgM Model.QInst Model.Checkers
  Theory.RingK Theory.LPolyT Theory.LAlgT Theory.CplxT Theory.RespT Theory.QC Theory.CertT Theory.C07T.
Import ListNotations.
Open Scope R_scope.

Theorem C07_certificate_sound phi0 rest p eps suc :
  check_c07 (phi0 :: rest) p eps suc = true ->
  length (phi0 :: rest) = length p /\ 0 < Q2R suc /\
  forall theta,
    Cmod (Cminus (Cdiv (m00 (Uz_at phi0 rest theta)) (q2c suc))
                 (evx CR (cis theta) (cis (- theta)) (lpQ2C (mk OpsQ p (- len p + 1))))) < Q2R eps.
Proof. exact (check_c07_sound phi0 rest p eps suc). Qed.
Print Assumptions C07_certificate_sound.

(* the (0,0) entry of the Wz sequence is the identity part of the algebra element built from
   the same phases, evaluated at w: for every phase list, over any ring *)
Theorem C07_corner_is_identity_part (K : CRing) (i h a s : K) cs l g :
  kmul i i = kopp k1 -> kadd (kmul h h) (kmul h h) = k1 -> kadd (kmul a a) (kmul s s) = k1 ->
  la_from_angles OpsK (cs :: l) = Some g ->
  meas_z K (Uz K i h a s cs l) = evx K (kadd a (kmul i s)) (ksub a (kmul i s)) (la_I g).
Proof. exact (fun ii hh => resp_wz_z_is_ipoly K i h ii hh a s cs l g). Qed.
Print Assumptions C07_corner_is_identity_part.

(* a general bound: on the unit circle a Laurent polynomial is at most its coefficient 1-norm *)
Theorem C07_sup_le_norm1 (x xi : C) (p : lpoly C) : Cmod x = 1 -> Cmod xi = 1 ->
  Cmod (evx CR x xi p) <= sumR (map Cmod (lp_coefs p)).
Proof. exact (Cmod_evx_le x xi p). Qed.
Print Assumptions C07_sup_le_norm1.
