(* Props/C18.v — fixed-point search phases achieve the Yoder-Low-Chuang success probability. *)
From Coq Require Import ZArith QArith Qreals List Reals Bool.
From Coquelicot Require Import Complex.
From PyqspV Require Import Base.Ops Base.IntervalZ Model.QInst Model.ResponseM Model.FPSearchM Model.Checkers
  Theory.CplxT Theory.QC Theory.CertT Theory.SupT Theory.FPSearchT Theory.FPProbT.
Import ListNotations.

(* layout: 2d phases, palindromic, entry formulas - for every d and every alpha (any oracle) *)
Theorem C18_length {D} (neghalf : D -> D) alpha : length (fps_phivec neghalf alpha) = (2 * length alpha)%nat.
Proof. exact (fps_length neghalf alpha). Qed.
Print Assumptions C18_length.

Theorem C18_palindrome {D} (neghalf : D -> D) alpha : rev (fps_phivec neghalf alpha) = fps_phivec neghalf alpha.
Proof. exact (fps_palindrome neghalf alpha). Qed.
Print Assumptions C18_palindrome.

Theorem C18_entries {D} (neghalf : D -> D) alpha k d0 : (k < length alpha)%nat ->
  nth (2 * k) (fps_phivec neghalf alpha) d0 = neghalf (nth (length alpha - 1 - k) alpha d0) /\
  nth (2 * k + 1) (fps_phivec neghalf alpha) d0 = neghalf (nth k alpha d0).
Proof. exact (fps_entries neghalf alpha k d0). Qed.
Print Assumptions C18_entries.

(* passing gamma is equivalent to passing the delta that produces it *)
Theorem C18_gamma_delta {D} (neghalf : D -> D) (gamma_of_delta : nat -> D -> D) (alpha_of_gamma : nat -> D -> list D) (dflt : D) d delta :
  fps_generate neghalf gamma_of_delta alpha_of_gamma dflt d (Some delta) None =
  fps_generate neghalf gamma_of_delta alpha_of_gamma dflt d None (Some (gamma_of_delta (2 * d + 1)%nat delta)).
Proof. exact (fps_gamma_delta neghalf gamma_of_delta alpha_of_gamma dflt d delta). Qed.
Print Assumptions C18_gamma_delta.

(* the evaluator of the success probability of the reflection sequence is sound at every overlap a^2 *)
Theorem C18_probability_evaluator_sound phis pts tol :
  Forall (fun d => match d with Some n => scaled_le_q n tol = true | None => False end) (fp_prob_dists phis pts) ->
  Forall (fun p => (0 <= Q2R (fst p) <= 1)%R /\ (Rabs (fp_prob (fst p) phis - Q2R (snd p)) <= Q2R tol)%R) pts.
Proof. exact (fp_prob_dists_sound phis pts tol). Qed.
Print Assumptions C18_probability_evaluator_sound.

Theorem C18_probability_is_modulus_squared a phis :
  fp_prob a phis = (Cmod (fp_ampC a phis) * Cmod (fp_ampC a phis))%R.
Proof. exact (fp_prob_is_modulus_squared a phis). Qed.
Print Assumptions C18_probability_is_modulus_squared.

(* |T_L| <= 1 on [-1,1]; hence from the closed form P >= 1 - delta^2 above the fixed-point width *)
Theorem C18_fixed_point_from_closed_form L delta y lam : (0 <= lam <= 1)%R -> (0 <= y)%R -> (y * sqrt (1 - lam) <= 1)%R ->
  (1 - delta * delta <= 1 - delta * delta * (cheb_series (unitvec L) (y * sqrt (1 - lam)) * cheb_series (unitvec L) (y * sqrt (1 - lam))))%R.
Proof. exact (fixed_point_from_closed_form L delta y lam). Qed.
Print Assumptions C18_fixed_point_from_closed_form.
