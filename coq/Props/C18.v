(* Props/C18.v — fixed-point search phases achieve the Yoder-Low-Chuang success probability. *)
From Coq Require Import ZArith QArith Qreals List Reals Bool.
From Coquelicot Require Import Complex.
From PyqspV Require Import Base.Ops Base.IntervalZ Model.QInst Model.ResponseM Model.FPSearchM Model.Checkers
  Theory.CplxT Theory.QC Theory.CertT Theory.SupT Theory.FPSearchT Theory.FPProbT Theory.FPSimT Theory.ChebDblT Theory.FPClosedT.
Import ListNotations.

(* layout: 2d phases, palindromic, entry formulas - for every d and every alpha (any oracle) *)
Theorem C18_length {D} (neghalf : D -> D) alpha : length (fps_phivec neghalf alpha) = (2 * length alpha)%nat.
Proof. exact (fps_length neghalf alpha). Qed.
Print Assumptions C18_length.

Theorem C18_palindrome {D} (neghalf : D -> D) alpha : rev (fps_phivec neghalf alpha) = fps_phivec neghalf alpha.
Proof. exact (fps_palindrome neghalf alpha). Qed.
Print Assumptions C18_palindrome.

Theorem C18_entries {D} (neghalf : D -> D) alpha k d0 : (k < length alpha)%nat ->
  nth (2 * k) (fps_phivec neghalf alpha) d0 = neghalf (nth (length alpha - 1 - k) alpha d0) /\
  nth (2 * k + 1) (fps_phivec neghalf alpha) d0 = neghalf (nth k alpha d0).
Proof. exact (fps_entries neghalf alpha k d0). Qed.
Print Assumptions C18_entries.

(* passing gamma is equivalent to passing the delta that produces it *)
Theorem C18_gamma_delta {D} (neghalf : D -> D) (gamma_of_delta : nat -> D -> D) (alpha_of_gamma : nat -> D -> list D) (dflt : D) d delta :
  fps_generate neghalf gamma_of_delta alpha_of_gamma dflt d (Some delta) None =
  fps_generate neghalf gamma_of_delta alpha_of_gamma dflt d None (Some (gamma_of_delta (2 * d + 1)%nat delta)).
Proof. exact (fps_gamma_delta neghalf gamma_of_delta alpha_of_gamma dflt d delta). Qed.
Print Assumptions C18_gamma_delta.

(* the evaluator of the success probability of the reflection sequence is sound at every overlap a^2 *)
Theorem C18_probability_evaluator_sound phis pts tol :
  Forall (fun d => match d with Some n => scaled_le_q n tol = true | None => False end) (fp_prob_dists phis pts) ->
  Forall (fun p => (0 <= Q2R (fst p) <= 1)%R /\ (Rabs (fp_prob (fst p) phis - Q2R (snd p)) <= Q2R tol)%R) pts.
Proof. exact (fp_prob_dists_sound phis pts tol). Qed.
Print Assumptions C18_probability_evaluator_sound.

Theorem C18_probability_is_modulus_squared a phis :
  fp_prob a phis = (Cmod (fp_ampC a phis) * Cmod (fp_ampC a phis))%R.
Proof. exact (fp_prob_is_modulus_squared a phis). Qed.
Print Assumptions C18_probability_is_modulus_squared.

(* |T_L| <= 1 on [-1,1]; hence from the closed form P >= 1 - delta^2 above the fixed-point width *)
Theorem C18_fixed_point_from_closed_form L delta y lam : (0 <= lam <= 1)%R -> (0 <= y)%R -> (y * sqrt (1 - lam) <= 1)%R ->
  (1 - delta * delta <= 1 - delta * delta * (cheb_series (unitvec L) (y * sqrt (1 - lam)) * cheb_series (unitvec L) (y * sqrt (1 - lam))))%R.
Proof. exact (fixed_point_from_closed_form L delta y lam). Qed.
Print Assumptions C18_fixed_point_from_closed_form.

(* ---- all overlaps at once *)
(* the reflection sequence is, up to a unit scalar, the Wx-convention QSP product of the shifted phases *)
Theorem C18_reflections_are_shifted_qsp (a s : C) (l : list (C * C)) :
  Cmod (fp_amplitude OpsC Ci a s l) =
  Cmod (m00 (Theory.RespT.Ux CR Ci a s (RtoC 0, RtoC 1) (map shiftcs l ++ [(RtoC 1, RtoC 0)]))).
Proof. exact (fp_amplitude_modulus a s l). Qed.
Print Assumptions C18_reflections_are_shifted_qsp.

(* T_L is strictly increasing on [1, oo): y = T_{1/L}(1/delta) is the unique y >= 1 with delta T_L(y) = 1,
   and an exactly checked rational bracket contains it *)
Theorem C18_TL_increasing L x x' : (1 <= L)%nat -> (1 <= x <= x')%R ->
  (x' - x <= cheb_series (unitvec L) x' - cheb_series (unitvec L) x)%R.
Proof. exact (TL_strict_mono L x x'). Qed.
Print Assumptions C18_TL_increasing.

Theorem C18_y_bracket d delta ylo yhi : check_y_bracket d delta ylo yhi = true ->
  forall y, (1 <= y)%R -> (Q2R delta * cheb_series (unitvec (2 * d + 1)) y = 1)%R -> (Q2R ylo <= y <= Q2R yhi)%R.
Proof. exact (check_y_bracket_sound d delta ylo yhi). Qed.
Print Assumptions C18_y_bracket.

(* the certificate: for the phases at hand (as exact rationals), every overlap lambda in [0,1] and
   y = T_{1/L}(1/delta), the success probability of the reflection sequence is within tol of
   1 - delta^2 T_L(y sqrt(1-lambda))^2 *)
Theorem C18_closed_form_certificate d phis delta ylo yhi tol :
  check_fp_closed d phis delta ylo yhi tol = true -> check_y_bracket d delta ylo yhi = true ->
  length phis = (2 * d)%nat /\
  forall y, (1 <= y)%R -> (Q2R delta * cheb_series (unitvec (2 * d + 1)) y = 1)%R ->
  forall lam, (0 <= lam <= 1)%R ->
    (Rabs (Cmod (fp_ampR (sqrt lam) phis) * Cmod (fp_ampR (sqrt lam) phis)
          - (1 - Q2R delta * Q2R delta *
                 (cheb_series (unitvec (2 * d + 1)) (y * sqrt (1 - lam)) * cheb_series (unitvec (2 * d + 1)) (y * sqrt (1 - lam)))))
    <= Q2R tol)%R.
Proof. exact (fp_closed_form_certificate d phis delta ylo yhi tol). Qed.
Print Assumptions C18_closed_form_certificate.

(* fp_ampR at a rational a is the amplitude whose squared modulus the evaluator above encloses *)
Theorem C18_amplitudes_agree a phis : fp_ampC a phis = fp_ampR (Q2R a) phis.
Proof. exact (fp_ampC_is_ampR a phis). Qed.
Print Assumptions C18_amplitudes_agree.

(* Chebyshev doubling, used by the certificate to keep interval widths small (all real x) *)
Theorem C18_chebyshev_product x m n :
  (2 * cheb_series (unitvec m) x * cheb_series (unitvec (n + m)) x = cheb_series (unitvec (n + 2 * m)) x + cheb_series (unitvec n) x)%R.
Proof. exact (proj1 (Tn_prod_pair x m) n). Qed.
Print Assumptions C18_chebyshev_product.
