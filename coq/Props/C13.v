(* Props/C13.v — the Newton solver returns a protocol reproducing the target Chebyshev series. *)
From Coq Require Import ZArith QArith Qreals List Reals Bool Lia.
From Coquelicot Require Import Complex.
From PyqspV Require Import Base.Ops Model.LPolyM Model.LAlgM Model.QInst Model.ResponseM Model.SymQspM Model.Checkers
  Theory.RingK Theory.LPolyT Theory.LAlgT Theory.CplxT Theory.RespT Theory.QC Theory.CertT Theory.C01T Theory.C06T
  Theory.CornerT Theory.SymQspT Theory.SymCertT Theory.TargetBoundT.
Import ListNotations.
Open Scope R_scope.

(* the certificate evaluated on the returned protocol: imaginary response = target series on [-1,1] *)
Theorem C13_certificate_sound odd red c tol : check_im_target odd red c tol = true ->
  length red = length c /\
  exists phi0 rest gC, sym_full_q odd red = Some (phi0 :: rest) /\ elemC (phi0 :: rest) = Some gC /\
    forall theta, let w := cis theta in let wi := cis (- theta) in
      Cmod (Cminus (m00 (Ux_at phi0 rest theta))
                   (Cplus (Cmult halfC (Cplus (evx CR w wi (la_I gC)) (evx CR wi w (la_I gC))))
                          (Cmult Ci (evx CR w wi (lpQ2C (cheb_to_laurent odd c)))))) <= Q2R tol.
Proof. exact (check_im_target_sound odd red c tol). Qed.
Print Assumptions C13_certificate_sound.

(* the loop, for every oracle (Jacobian evaluation + linear solve): the returned protocol is
   consistent with its reduced phases, 1 <= iterations <= maxiter, and the loop stopped because
   the iteration budget was reached or the criterion fired (and then strictly below the budget) *)
Theorem C13_loop_invariants {D} (O : Ops D) (step : list D -> bool * list D) fuel maxiter s s' it' byc :
  (1 <= maxiter)%nat -> (maxiter <= fuel)%nat ->
  newton_loop O step fuel maxiter 0 s = (s', it', byc) ->
  consistent O s' /\ p_odd s' = p_odd s /\ (1 <= it' <= maxiter)%nat /\
  (it' = maxiter \/ byc = true) /\ (byc = true -> (it' < maxiter)%nat).
Proof.
  intros Hm Hf H.
  destruct (newton_loop_spec O step fuel maxiter 0 s s' it' byc Hm ltac:(lia) ltac:(lia) H) as (C & P & I & B).
  repeat split; try assumption; try lia; apply B.
Qed.
Print Assumptions C13_loop_invariants.

Theorem C13_protocol_consistent {D} (O : Ops D) odd r0 hist :
  fold_left (proto_update O) hist (proto_init O odd r0) = proto_init O odd (last hist r0).
Proof. exact (update_invariant O odd r0 hist). Qed.
Print Assumptions C13_protocol_consistent.

(* the hypothesis of the property makes the request feasible: a target of coefficient 1-norm at most 0.9
   (the object the certificate above compares the imaginary response with) is at most 0.9 in modulus
   on the whole unit circle, i.e. on all of [-1,1] — for every parity, every length, every coefficient vector *)
Theorem C13_target_admissible odd c theta : (Qnorm1 c <= 9 # 10)%Q ->
  Cmod (evx CR (cis theta) (cis (- theta)) (lpQ2C (cheb_to_laurent odd c))) <= 9 / 10.
Proof. exact (target_admissible odd c theta). Qed.
Print Assumptions C13_target_admissible.

Example C13_target_admissible_nonvacuous : (Qnorm1 [3 # 10; -(2 # 10); 1 # 10] <= 9 # 10)%Q.
Proof. vm_compute. discriminate. Qed.
