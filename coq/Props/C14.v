(* Props/C14.v — polynomial generators return coefficients of advertised degree and parity.
   The numerical kernels (Taylor expansion, chebfit, Bessel / erf values) are oracles: the
   theorems hold for every kernel output. *)
From Coq Require Import ZArith List Bool Lia.
From PyqspV Require Import Base.Ops Model.PolyGenM Theory.PolyGenT.
Import ListNotations.

Section C14.
  Context {D : Type} (O : Ops D).
  Variable isz0 : D -> bool.
  Hypothesis isz0_0 : isz0 (d0 O) = true.

  (* pcoefs[start::2] = 0 keeps the length ... *)
  Theorem C14_zeroing_keeps_length even l : length (zero_from O even l) = length l.
  Proof. exact (zero_from_length O even l). Qed.

  (* ... zeroes exactly the entries of that parity and leaves the others alone ... *)
  Theorem C14_zeroing_spec even l j : (j < length l)%nat ->
    nth j (zero_from O even l) (d0 O) = if Bool.eqb (Nat.even j) even then d0 O else nth j l (d0 O).
  Proof. exact (zero_from_nth O even l j). Qed.

  (* ... so whatever the kernel returned, the result passes the advertised-parity check *)
  Theorem C14_generate_has_advertised_parity g raw sc eb rs :
    opp_zero isz0 (gen_odd g) (fst (generate O g raw sc eb rs)) = true.
  Proof. unfold generate. cbn [fst]. apply (opp_zero_after_zeroing O isz0 isz0_0). Qed.

  Theorem C14_generate_length g raw sc eb rs : length (fst (generate O g raw sc eb rs)) = length raw.
  Proof.
    unfold generate. cbn [fst]. rewrite zero_from_length. destruct eb; [|reflexivity].
    induction raw; cbn [scale length]; congruence.
  Qed.

  (* the checker used on the implementation's output means what it says *)
  Theorem C14_parity_check_spec odd l : opp_zero isz0 odd l = true ->
    forall j, (j < length l)%nat -> Nat.even j = odd -> isz0 (nth j l (d0 O)) = true.
  Proof. exact (opp_zero_spec O isz0 odd l). Qed.
End C14.
Print Assumptions C14_zeroing_keeps_length.
Print Assumptions C14_zeroing_spec.
Print Assumptions C14_generate_has_advertised_parity.
Print Assumptions C14_generate_length.
Print Assumptions C14_parity_check_spec.

(* the degree guard refuses exactly the degrees of the wrong parity, for the generators that take one *)
Theorem C14_degree_guard g degree :
  degree_guard g degree = false <->
  gen_takes_degree g = true /\ (degree mod 2)%Z <> (if gen_odd g then 1 else 0)%Z.
Proof.
  unfold degree_guard. destruct (gen_takes_degree g).
  - rewrite Z.eqb_neq. tauto.
  - split; [discriminate | intros [H _]; discriminate].
Qed.
Print Assumptions C14_degree_guard.
