(* Props/C15.v — ensure_bounded generators are bounded by their scale on all of [-1,1].
   The bound is certified per returned polynomial by check_sup / check_sup_mono: a cover of
   [0,4] (>= [0,pi]) by cells, the Chebyshev series evaluated at the cell centres with verified
   cos enclosures, and the Lipschitz constant sum_k k|c_k|. *)
From Coq Require Import ZArith QArith Qreals List Reals Bool.
From PyqspV Require Import Base.Ops Model.QInst Model.ConvM Model.PolyGenM Model.Checkers
  Theory.RingK Theory.SupT Theory.SupMonoT Theory.PolyGenT.
Import ListNotations.
Open Scope R_scope.

(* Chebyshev-basis output: |sum_k c_k T_k(x)| <= M on all of [-1,1] *)
Theorem C15_certificate_sound_cheb c cells M : check_sup c cells M = true ->
  forall x, -1 <= x <= 1 -> Rabs (cheb_series (map Q2R c) x) <= Q2R M.
Proof. exact (check_sup_sound c cells M). Qed.
Print Assumptions C15_certificate_sound_cheb.

(* monomial-basis output: |sum_k p_k x^k| <= M on all of [-1,1] *)
Theorem C15_certificate_sound_mono p cells M : check_sup_mono p cells M = true ->
  forall x, -1 <= x <= 1 -> Rabs (pevalRl (map Q2R p) x) <= Q2R M.
Proof. exact (check_sup_mono_sound p cells M). Qed.
Print Assumptions C15_certificate_sound_mono.

(* a certified violation exhibits a point of [-1,1] where the bound fails *)
Theorem C15_violation_witness c theta M : check_exceeds c theta M = true ->
  exists x, -1 <= x <= 1 /\ Q2R M < Rabs (cheb_series (map Q2R c) x).
Proof. exact (check_exceeds_sound c theta M). Qed.
Print Assumptions C15_violation_witness.

(* the series is T_k(cos t) = cos(k t), and it moves by at most sum_k k|c_k| per unit of t *)
Theorem C15_series_is_trigonometric c t : cheb_series c (cos t) = trig_sum c 0 t.
Proof. exact (cheb_series_trig c t). Qed.
Print Assumptions C15_series_is_trigonometric.

Theorem C15_lipschitz c a b : Rabs (trig_sum c 0 a - trig_sum c 0 b) <= lipR 0 c * Rabs (a - b).
Proof. exact (trig_sum_lip c 0 a b). Qed.
Print Assumptions C15_lipschitz.

(* scale arithmetic of the model: bounded = scale * raw (so sup|bounded| = scale * sup|raw|) *)
Theorem C15_bounded_is_scaled_raw (K : CRing) g raw sc rs :
  fst (generate (@OpsK K) g raw sc true rs) = scale (@OpsK K) sc (fst (generate (@OpsK K) g raw sc false rs)).
Proof. exact (scale_is_factor K g raw sc rs). Qed.
Print Assumptions C15_bounded_is_scaled_raw.
