(* Props/C10.v — the response function equals the defined QSP matrix product in every model.
   respC wz mx a phi0 rest is the generic model of Model/ResponseM.v run over C at the signal
   value a (rational, as every double is) with sqrt(1-a^2) the real square root. *)
From Coq Require Import ZArith QArith Qreals List Reals Bool String.
From Coquelicot Require Import Complex.
From PyqspV Require Import Base.Ops Base.IntervalZ Model.LPolyM Model.LAlgM Model.QInst Model.ResponseM Model.Checkers
  Theory.RingK Theory.LPolyT Theory.LAlgT Theory.CplxT Theory.RespT Theory.QC Theory.CertT Theory.RespEnclT Theory.RespBound.
Import ListNotations.
Open Scope R_scope.

(* the model is the definition <m| S(phi_0) W(a) S(phi_1) ... W(a) S(phi_n) |m> *)
Theorem C10_model_is_definition wz mx a phi0 rest :
  respC wz mx a phi0 rest =
  (if mx then meas_x CR hC else meas_z CR)
    (if wz then Uz CR Ci hC (RtoC (Q2R a)) (RtoC (sqrt (1 - Q2R a * Q2R a))) (csC phi0) (map csC rest)
     else Ux CR Ci (RtoC (Q2R a)) (RtoC (sqrt (1 - Q2R a * Q2R a))) (csC phi0) (map csC rest)).
Proof. exact (respC_is_definition wz mx a phi0 rest). Qed.
Print Assumptions C10_model_is_definition.

(* the interval evaluator used to judge the implementation's floats is sound *)
Theorem C10_evaluator_sound wz mx phi0 rest pts tol :
  Forall (fun d => match d with Some n => scaled_le_q n tol = true | None => False end)
         (resp_dists wz mx (phi0 :: rest) pts) ->
  Forall (fun p => -1 <= Q2R (fst p) <= 1 /\
            Rabs (fst (respC wz mx (fst p) phi0 rest) - Q2R (fst (snd p)))
            + Rabs (snd (respC wz mx (fst p) phi0 rest) - Q2R (snd (snd p))) <= Q2R tol) pts.
Proof. exact (resp_dists_sound wz mx phi0 rest pts tol). Qed.
Print Assumptions C10_evaluator_sound.

Section Abstract.
  Variable K : CRing.
  Variables i h : K.
  Hypothesis ii : kmul i i = kopp k1.
  Hypothesis hh : kadd (kmul h h) (kmul h h) = k1.

  Theorem C10_wx_x_eq_wz_z a s cs l : meas_x K h (Ux K i a s cs l) = meas_z K (Uz K i h a s cs l).
  Proof. exact (wx_x_eq_wz_z K i h hh a s cs l). Qed.

  Theorem C10_wz_x_eq_wx_z a s cs l : meas_x K h (Uz K i h a s cs l) = meas_z K (Ux K i a s cs l).
  Proof. exact (wz_x_eq_wx_z K i h hh a s cs l). Qed.

  (* U_x = H U_z H *)
  Theorem C10_Uz_is_H_Ux_H a s cs l : Uz K i h a s cs l = conjH K h (Ux K i a s cs l).
  Proof. exact (Uz_is_conj K i h hh a s cs l). Qed.

  Theorem C10_wz_z_is_identity_part a s cs l g : kadd (kmul a a) (kmul s s) = k1 ->
    la_from_angles OpsK (cs :: l) = Some g ->
    meas_z K (Uz K i h a s cs l) = evx K (kadd a (kmul i s)) (ksub a (kmul i s)) (la_I g).
  Proof. exact (resp_wz_z_is_ipoly K i h ii hh a s cs l g). Qed.
End Abstract.
Print Assumptions C10_wx_x_eq_wz_z.
Print Assumptions C10_wz_x_eq_wx_z.
Print Assumptions C10_Uz_is_H_Ux_H.
Print Assumptions C10_wz_z_is_identity_part.

Theorem C10_response_le_1 wz mx a phi0 rest : -1 <= Q2R a <= 1 -> Cmod (respC wz mx a phi0 rest) <= 1.
Proof. exact (resp_le_1 wz mx a phi0 rest). Qed.
Print Assumptions C10_response_le_1.

(* name dispatch: defaults and refusals *)
Open Scope string_scope.
Theorem C10_default_measurement :
  resp_model "Wx" None = resp_model "Wx" (Some "x") /\ resp_model "Wz" None = resp_model "Wz" (Some "z") /\
  resp_model "Wx" None = Some (false, true) /\ resp_model "Wz" None = Some (true, false).
Proof. repeat split. Qed.
Print Assumptions C10_default_measurement.

Theorem C10_unknown_names_refused so m :
  (so <> "Wx" -> so <> "Wz" -> resp_model so m = None) /\
  (forall m', m = Some m' -> m' <> "x" -> m' <> "z" -> resp_model so m = None).
Proof.
  split.
  - intros H1 H2. unfold resp_model. apply String.eqb_neq in H1, H2. rewrite H1, H2. reflexivity.
  - intros m' -> H1 H2. unfold resp_model. apply String.eqb_neq in H1, H2. rewrite H1, H2.
    destruct (String.eqb so "Wx"); [reflexivity|]. destruct (String.eqb so "Wz"); reflexivity.
Qed.
Print Assumptions C10_unknown_names_refused.
