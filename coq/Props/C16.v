(* Props/C16.v — generated polynomials approximate their documented target functions.
   Cosine / sine / 1/x: certified on the continuum by cell-cover certificates with verified
   enclosures of the targets.  The erf-family clause (least-squares fit of a closed-form target at
   the Chebyshev nodes) is recomputed independently by the harness with float oracles (erf): no
   theorem covers it (see DESIGN.md). *)
From Coq Require Import ZArith QArith Qreals List Reals Bool.
From PyqspV Require Import Base.Ops Model.QInst Model.Checkers Theory.SupT Theory.SupMonoT Theory.AccT Theory.AccMonoT Theory.AccHiT Theory.FPProbT Theory.ChebDblT Theory.DctT.
Import ListNotations.
Open Scope R_scope.

(* Chebyshev-basis output of the cosine / sine generator *)
Theorem C16_trig_accuracy_cheb usesin c s tau cells eps : check_trig_acc usesin c s tau cells eps = true ->
  forall x, -1 <= x <= 1 ->
  Rabs (cheb_series (map Q2R c) x - Q2R s * (if usesin then sin (Q2R tau * x) else cos (Q2R tau * x))) <= Q2R eps.
Proof. exact (check_trig_acc_sound usesin c s tau cells eps). Qed.
Print Assumptions C16_trig_accuracy_cheb.

(* monomial-basis output *)
Theorem C16_trig_accuracy_mono usesin p s tau cells eps : check_trig_acc_mono usesin p s tau cells eps = true ->
  forall x, -1 <= x <= 1 ->
  Rabs (pevalRl (map Q2R p) x - Q2R s * (if usesin then sin (Q2R tau * x) else cos (Q2R tau * x))) <= Q2R eps.
Proof. exact (check_trig_acc_mono_sound usesin p s tau cells eps). Qed.
Print Assumptions C16_trig_accuracy_mono.

(* 1/x: |p(x)/scale - 1/x| <= tol on [1/kappa, 1] *)
Theorem C16_inverse_accuracy c scale kappa thmax cells tol : check_inv_acc_scaled c scale kappa thmax cells tol = true ->
  0 < Q2R scale /\ 0 < Q2R kappa /\
  forall x, / Q2R kappa <= x <= 1 -> Rabs (cheb_series (map Q2R c) x / Q2R scale - / x) <= Q2R tol.
Proof. exact (check_inv_acc_scaled_sound c scale kappa thmax cells tol). Qed.
Print Assumptions C16_inverse_accuracy.

(* enclosures of the targets at interval arguments *)
Theorem C16_target_enclosure tau x xr : IntervalT.inI x xr ->
  IntervalT.inI (fst (cs_scaled tau x)) (cos (Q2R tau * xr)) /\ IntervalT.inI (snd (cs_scaled tau x)) (sin (Q2R tau * xr)).
Proof. exact (cs_scaled_ok tau x xr). Qed.
Print Assumptions C16_target_enclosure.

(* high-order certificates (any eps): Taylor shift of p on x-cells with |tau| r <= 1, the target through the
   addition formulas and the alternating-series remainders of cos u, sin u for |u| <= 1; 1/x through the
   geometric series on cells with r < x0 *)
Theorem C16_trig_accuracy_high_order_mono usesin p s tau cells n eps : check_trig_acc_hi usesin p s tau cells n eps = true ->
  forall x, -1 <= x <= 1 ->
  Rabs (pevalRl (map Q2R p) x - Q2R s * (if usesin then sin (Q2R tau * x) else cos (Q2R tau * x))) <= Q2R eps.
Proof. exact (check_trig_acc_hi_sound usesin p s tau cells n eps). Qed.
Print Assumptions C16_trig_accuracy_high_order_mono.

Theorem C16_trig_accuracy_high_order_cheb usesin c s tau cells n eps : check_trig_acc_hi_cheb usesin c s tau cells n eps = true ->
  forall x, -1 <= x <= 1 ->
  Rabs (cheb_series (map Q2R c) x - Q2R s * (if usesin then sin (Q2R tau * x) else cos (Q2R tau * x))) <= Q2R eps.
Proof. exact (check_trig_acc_hi_cheb_sound usesin c s tau cells n eps). Qed.
Print Assumptions C16_trig_accuracy_high_order_cheb.

Theorem C16_inverse_accuracy_high_order c scale kappa cells K tol : check_inv_acc_hi_cheb c scale kappa cells K tol = true ->
  0 < Q2R scale /\ 0 < Q2R kappa /\
  forall x, / Q2R kappa <= x <= 1 -> Rabs (cheb_series (map Q2R c) x / Q2R scale - / x) <= Q2R tol.
Proof. exact (check_inv_acc_hi_cheb_sound c scale kappa cells K tol). Qed.
Print Assumptions C16_inverse_accuracy_high_order.

(* the Taylor shift used by both: the shifted coefficient list denotes p(x0 + d) *)
Theorem C16_taylor_shift (p : list R) x0 d : pevalRl (pshift_at SupMonoT.OpsRR p x0) d = pevalRl p (x0 + d).
Proof. exact (pshift_at_sound p x0 d). Qed.
Print Assumptions C16_taylor_shift.

(* erf family: the least-squares Chebyshev fit on the N first-kind Chebyshev nodes, in closed form *)
Theorem C16_discrete_orthogonality N k i : (k < N)%nat -> (i < N)%nat ->
  gram N k i = if Nat.eqb k i then (if Nat.eqb k 0 then INR N else INR N / 2) else 0.
Proof. exact (discrete_orthogonality N k i). Qed.
Print Assumptions C16_discrete_orthogonality.

Theorem C16_least_squares_closed_form N n (f : nat -> R) (d : nat -> R) : (n < N)%nat ->
  (forall i, (i <= n)%nat -> sumf (fun j => resid N n f (dct_coef N f) j * Tn i (node N j)) N = 0) /\
  sumf (fun j => resid N n f (dct_coef N f) j * resid N n f (dct_coef N f) j) N <= sumf (fun j => resid N n f d j * resid N n f d j) N.
Proof. intros H. split; [intros i Hi; exact (dct_normal_equations N n f H i Hi) | exact (dct_is_least_squares N n f H d)]. Qed.
Print Assumptions C16_least_squares_closed_form.

Theorem C16_series_is_sum_of_terms c x : cheb_series c x = sumf (fun k => nth k c 0 * Tn k x) (length c).
Proof. exact (cheb_series_terms c x). Qed.
Print Assumptions C16_series_is_sum_of_terms.
