(* Props/C16.v — generated polynomials approximate their documented target functions.
   Cosine / sine / 1/x: certified on the continuum by cell-cover certificates with verified
   enclosures of the targets.  The erf-family clause (least-squares fit of a closed-form target at
   the Chebyshev nodes) is recomputed independently by the harness with float oracles (erf): no
   theorem covers it (see DESIGN.md). *)
From Coq Require Import ZArith QArith Qreals List Reals Bool.
From PyqspV Require Import Base.Ops Model.QInst Model.Checkers Theory.SupT Theory.SupMonoT Theory.AccT Theory.AccMonoT.
Import ListNotations.
Open Scope R_scope.

(* Chebyshev-basis output of the cosine / sine generator *)
Theorem C16_trig_accuracy_cheb usesin c s tau cells eps : check_trig_acc usesin c s tau cells eps = true ->
  forall x, -1 <= x <= 1 ->
  Rabs (cheb_series (map Q2R c) x - Q2R s * (if usesin then sin (Q2R tau * x) else cos (Q2R tau * x))) <= Q2R eps.
Proof. exact (check_trig_acc_sound usesin c s tau cells eps). Qed.
Print Assumptions C16_trig_accuracy_cheb.

(* monomial-basis output *)
Theorem C16_trig_accuracy_mono usesin p s tau cells eps : check_trig_acc_mono usesin p s tau cells eps = true ->
  forall x, -1 <= x <= 1 ->
  Rabs (pevalRl (map Q2R p) x - Q2R s * (if usesin then sin (Q2R tau * x) else cos (Q2R tau * x))) <= Q2R eps.
Proof. exact (check_trig_acc_mono_sound usesin p s tau cells eps). Qed.
Print Assumptions C16_trig_accuracy_mono.

(* 1/x: |p(x)/scale - 1/x| <= tol on [1/kappa, 1] *)
Theorem C16_inverse_accuracy c scale kappa thmax cells tol : check_inv_acc_scaled c scale kappa thmax cells tol = true ->
  0 < Q2R scale /\ 0 < Q2R kappa /\
  forall x, / Q2R kappa <= x <= 1 -> Rabs (cheb_series (map Q2R c) x / Q2R scale - / x) <= Q2R tol.
Proof. exact (check_inv_acc_scaled_sound c scale kappa thmax cells tol). Qed.
Print Assumptions C16_inverse_accuracy.

(* enclosures of the targets at interval arguments *)
Theorem C16_target_enclosure tau x xr : IntervalT.inI x xr ->
  IntervalT.inI (fst (cs_scaled tau x)) (cos (Q2R tau * xr)) /\ IntervalT.inI (snd (cs_scaled tau x)) (sin (Q2R tau * xr)).
Proof. exact (cs_scaled_ok tau x xr). Qed.
Print Assumptions C16_target_enclosure.
