(* Props/C06.v — decomposition inverts the phases-to-unitary map.
   Statements only; proofs in Theory/DecompT.v, Theory/C06T.v, Theory/LAlgT.v. *)
From Coq Require Import ZArith QArith Qreals List Reals Bool.
From Coquelicot Require Import Complex.
From PyqspV Require Import Base.Ops Model.LPolyM Model.LAlgM Model.QInst Model.Checkers
  Theory.RingK Theory.LPolyT Theory.LAlgT Theory.CplxT Theory.QC Theory.CertT Theory.C06T Theory.DecompT.
Import ListNotations.

(* the round-trip certificate evaluated on every (phi, phi') pair of the run *)
Theorem C06_certificate_sound phis phis' tol stol :
  check_roundtrip phis phis' tol stol = true ->
  length phis = length phis' /\
  (exists g h d, elemC phis = Some g /\ elemC phis' = Some h /\ la_sub OpsC g h = Some d /\
     Forall (fun z => (Cmod z <= Q2R tol)%R) (lp_coefs (la_I d)) /\
     Forall (fun z => (Cmod z <= Q2R tol)%R) (lp_coefs (la_X d))) /\
  Gauge (Q2R stol) phis phis' false.
Proof. exact (check_roundtrip_sound phis phis' tol stol). Qed.
Print Assumptions C06_certificate_sound.

Section Algebra.
  Variable K : CRing.
  Variables w wi i : K.
  Hypothesis ii : kmul i i = kopp k1.

  (* the junction merge a[:-1] + [a[-1] + b[0]] + b[1:] denotes the product, for all lengths *)
  Theorem C06_merge_is_product a0 la alast b0 lb :
    Useq K w wi i a0 (la ++ cs_add K alast b0 :: lb) =
    mmul K (Useq K w wi i a0 (la ++ [alast])) (Useq K w wi i b0 lb).
  Proof. exact (merge_is_product K w wi i ii a0 la alast b0 lb). Qed.

  Theorem C06_merge_is_product_single a0 b0 lb :
    Useq K w wi i (cs_add K a0 b0) lb = mmul K (Useq K w wi i a0 []) (Useq K w wi i b0 lb).
  Proof. exact (merge_is_product_single K w wi i ii a0 b0 lb). Qed.

  (* sign gauge: shifting phases by pi negates the unitary once per shifted phase *)
  Theorem C06_gauge bs l acc :
    prod_angles K w wi i acc (flips K bs l) = msign K (parity bs (length l)) (prod_angles K w wi i acc l).
  Proof. exact (gauge_product K w wi i bs l acc). Qed.

  Theorem C06_gauge_even b0 bs c0 l : xorb b0 (parity bs (length l)) = false ->
    Useq K w wi i (flip K b0 c0) (flips K bs l) = Useq K w wi i c0 l.
  Proof. exact (gauge_even K w wi i b0 bs c0 l). Qed.

  (* the element built from a phase list denotes the sequence unitary, for every length *)
  Theorem C06_element_is_sequence cs l r : kmul w wi = k1 -> la_from_angles OpsK (cs :: l) = Some r ->
    Mden K w wi i r = Useq K w wi i cs l.
  Proof. exact (fun wwi H => proj1 (from_angles_sound K w wi i wwi ii cs l r H)). Qed.
End Algebra.
Print Assumptions C06_merge_is_product.
Print Assumptions C06_merge_is_product_single.
Print Assumptions C06_gauge.
Print Assumptions C06_gauge_even.
Print Assumptions C06_element_is_sequence.

(* the leaf of the decomposition: left_and_right_angles reads a degree-1 element g = R(a) w R(b) at w = 1 and w = i; the two numbers whose
   arguments it takes are e^{i(a+b)} and i e^{i(a-b)} — in any commutative ring with i*i = -1, phases given by their (cos, sin) pairs *)
From PyqspV Require Import Theory.LeafT.
Theorem C06_leaf_readout (K : CRing) (i : K) (ii : kmul i i = kopp k1) (csa csb : K * K) r :
  la_from_angles (@OpsK K) [csa; csb] = Some r ->
  kadd (evx K k1 k1 (la_I r)) (kmul i (evx K k1 k1 (la_X r)))
    = kadd (ksub (kmul (fst csa) (fst csb)) (kmul (snd csa) (snd csb))) (kmul i (kadd (kmul (snd csa) (fst csb)) (kmul (fst csa) (snd csb)))) /\
  ksub (evx K i (kopp i) (la_I r)) (kmul i (evx K i (kopp i) (la_X r)))
    = kmul i (kadd (kadd (kmul (fst csa) (fst csb)) (kmul (snd csa) (snd csb))) (kmul i (ksub (kmul (snd csa) (fst csb)) (kmul (fst csa) (snd csb))))).
Proof. exact (leaf_readout K i ii csa csb r). Qed.
Print Assumptions C06_leaf_readout.

Theorem C06_leaf_readout_angles (a b : R) r :
  la_from_angles OpsC [(RtoC (cos a), RtoC (sin a)); (RtoC (cos b), RtoC (sin b))] = Some r ->
  Cplus (evx CR (RtoC 1) (RtoC 1) (la_I r)) (Cmult Ci (evx CR (RtoC 1) (RtoC 1) (la_X r))) = (cos (a + b), sin (a + b))%R /\
  Cminus (evx CR Ci (Copp Ci) (la_I r)) (Cmult Ci (evx CR Ci (Copp Ci) (la_X r))) = Cmult Ci (cos (a - b), sin (a - b))%R.
Proof. exact (leaf_readout_angles a b r). Qed.
Print Assumptions C06_leaf_readout_angles.
