#!/bin/bash
# builds the Coq development and the extracted model from files on disk only
set -e
cd "$(dirname "$0")"
mkdir -p build out evidence
cd coq
coq_makefile -f _CoqProject -o Makefile > /dev/null
timeout 3000 make -j16
cd ../build
cp ../coq/Extract/model.ml ../coq/Extract/model.mli ../coq/Extract/driver.ml .
ocamlfind ocamlopt -package zarith -linkpkg -w -a model.mli model.ml driver.ml -o pyqsp_model
echo setup-ok
