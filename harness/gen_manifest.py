"""Regenerates MANIFEST.json from the property modules that exist (keeps it valid at all times)."""
import importlib
import json
import os
import sys

HERE = os.path.dirname(os.path.abspath(__file__))
sys.path.insert(0, HERE)
VERIF = os.path.dirname(HERE)

props = [json.loads(l) for l in open(os.path.join(VERIF, "properties.jsonl"))]
checks, na = [], []
for p in props:
    pid = p["id"]
    path = os.path.join(HERE, "props", pid.lower() + ".py")
    if not os.path.exists(path):
        na.append({"property_id": pid, "reason": "check not built yet in this round (model and theorems pending); see DESIGN.md section 6"})
        continue
    m = importlib.import_module("props." + pid.lower())
    checks.append({
        "property_id": pid,
        "quick_cmd": f"./check {pid} --tier quick",
        "thorough_cmd": f"./check {pid} --tier thorough",
        "evidence_file": f"/verif/evidence/{pid}.json",
        "replay_cmd_template": f"./check {pid} --replay {{path}}",
        "engine": "coq-model+correspondence",
        "level_claimed": {"category": m.LEVEL, "text": m.LEVEL_TEXT, "design_ref": "DESIGN.md section 6, " + pid},
        "level_note": m.LEVEL_NOTE,
        "technique": m.TECHNIQUE,
    })
man = {
    "version": 1,
    "setup_cmd": "cd /verif && ./setup.sh",
    "hooks": {
        "guard": "PYQSP_VERIF",
        "enable": "no source hooks are needed: the harness imports /repo's working tree with PYTHONPATH=/repo and patches numpy.random / module attributes from outside (PYQSP_VERIF=1 is exported for completeness)",
        "baseline_off_cmd": "cd /repo && /venv/bin/python -m pytest -ra -q -p no:cacheprovider --timeout=900 --continue-on-collection-errors",
        "source_commits": [],
        "add_only": True,
    },
    "engines": [{
        "name": "coq-model+correspondence", "path": "/verif/coq, /verif/harness",
        "serves_properties": [c["property_id"] for c in checks],
        "kind_free_text": "Coq 8.16 development (executable models, theorems, verified checkers), extracted to OCaml; Python harness runs the implementation from /repo and the model on the same inputs",
    }],
    "checks": checks,
    "not_applicable": na,
    "notes": "fix: commits in /repo are listed in /verif/known_findings.json (kind=fixed). See DESIGN.md.",
}
json.dump(man, open(os.path.join(VERIF, "MANIFEST.json"), "w"), indent=1)
print("checks:", [c["property_id"] for c in checks], "n/a:", len(na))
