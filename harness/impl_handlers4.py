"""Implementation-side handlers, part 4: symmetric QSP (C12, C13)."""
import numpy
import numpy as np

from impl_codec import enc, dec  # noqa


def _proto_state(p):
    return {"full": enc(numpy.asarray(p.full_phases, dtype=float)) if p.full_phases is not None else None,
            "red": enc(numpy.asarray(p.reduced_phases, dtype=float)),
            "poly_deg": None if p.poly_deg is None else int(p.poly_deg), "parity": p.parity}


def h_symqsp(c):
    """build a protocol, interleave response calls and updates, then evaluate everything"""
    from pyqsp.sym_qsp_opt import SymmetricQSPProtocol
    parity = c["parity"]
    hist = [numpy.array(dec(h), dtype=float) for h in c["history"]]
    samples = numpy.array(dec(c["samples"]), dtype=float)
    init = dec(c["initial"])
    if c.get("int_init"):
        init = [int(x) for x in init]          # a Python list of ints, as a caller (and the test suite) would write [0]*k
    else:
        init = numpy.array(init, dtype=float)
    p = SymmetricQSPProtocol(reduced_phases=init, parity=parity)
    states = [_proto_state(p)]
    cont = c.get("hist_container", "array")
    for h in hist:
        if c.get("touch_between"):
            # use the object between updates, as a caller would
            p.gen_response_im(samples[:2])
            p.gen_jacobian()
        # the new reduced phases as the container a caller may pass: ndarray, list or tuple of floats
        p.update_reduced_phases(h if cont == "array" else [float(x) for x in h] if cont == "list" else tuple(float(x) for x in h))
        states.append(_proto_state(p))
    last = hist[-1] if hist else numpy.array(dec(c["initial"]), dtype=float)
    fresh = SymmetricQSPProtocol(reduced_phases=last, parity=parity)
    out = {"states": states, "fresh": _proto_state(fresh)}
    U = p.gen_unitary(samples)
    out["u00"] = enc(numpy.array([u[0, 0] for u in U], dtype=complex))
    # the whole matrix: <+|U|+> = (sum of the four entries)/2, and the SU(2) / symmetry relations U11 = conj U00, U10 = -conj U01, U01 = U10
    out["upp"] = enc(numpy.array([(u[0, 0] + u[0, 1] + u[1, 0] + u[1, 1]) / 2 for u in U], dtype=complex))
    out["ustruct"] = float(max([max(abs(u[1, 1] - numpy.conj(u[0, 0])), abs(u[1, 0] + numpy.conj(u[0, 1])), abs(u[0, 1] - u[1, 0])) for u in U] + [0.0]))
    out["re"] = enc(numpy.asarray(p.gen_response_re(samples), dtype=float))
    out["im"] = enc(numpy.asarray(p.gen_response_im(samples), dtype=float))
    # the 3x3 recurrences at every sample point inside [-1, 1]
    out["comp"] = [enc(numpy.asarray(p.gen_poly_jacobian_components(a), dtype=float).reshape(-1)) if abs(a) <= 1 else None for a in samples]
    f, df = p.gen_jacobian()
    out["f"] = enc(numpy.asarray(f, dtype=float))
    out["df"] = enc(numpy.asarray(df, dtype=float))
    return out


def h_newton(c):
    from pyqsp.sym_qsp_opt import newton_Solver
    coef = numpy.array(dec(c["coef"]), dtype=float)
    if c.get("dtype"):
        # the same values held in a narrower / wider floating-point array (the values are exactly representable by construction)
        coef = coef.astype(getattr(numpy, c["dtype"]))
    before = coef.copy()
    kw = {}
    if "crit" in c:
        kw["crit"] = dec(c["crit"])
    if "maxiter" in c:
        kw["maxiter"] = dec(c["maxiter"]) if isinstance(c["maxiter"], str) else c["maxiter"]
    phases, err, it, proto = newton_Solver(coef, c["parity"], **kw)
    pts = numpy.array([-1.0, -0.6, 0.2, 1.0])
    return {"phases": enc(numpy.asarray(phases, dtype=float)), "err": enc(float(err)), "iter": int(it),
            "proto": _proto_state(proto), "arg_unchanged": bool(numpy.array_equal(before, coef)),
            "resp_im": enc(numpy.asarray(proto.gen_response_im(pts), dtype=float))}     # the returned object's own response


HANDLERS = {"symqsp": h_symqsp, "newton": h_newton}

try:
    import impl_handlers5
    HANDLERS.update(impl_handlers5.HANDLERS)
except ImportError:
    pass
