"""Generators and helpers shared by the phase-finding checks (C01, C02, C03, C07, C20):
polynomial families in exact arithmetic (the harness has no numpy), seed-bit vectors, and the
calls into the extracted checkers."""
import itertools
import math
from fractions import Fraction

from common import fr, qs, hexf, run_model

# ---------------------------------------------------------------------------------------
# exact Chebyshev <-> monomial


def cheb_T_table(n):
    """monomial coefficients (low to high, Fractions) of T_0..T_n"""
    T = [[Fraction(1)], [Fraction(0), Fraction(1)]]
    for k in range(2, n + 1):
        a, b = T[k - 1], T[k - 2]
        c = [Fraction(0)] + [2 * x for x in a]
        for i, x in enumerate(b):
            c[i] -= x
        T.append(c)
    return T[:n + 1]


def cheb2mono(c):
    n = len(c) - 1
    T = cheb_T_table(max(n, 1))
    out = [Fraction(0)] * (n + 1)
    for k, ck in enumerate(c):
        for i, t in enumerate(T[k]):
            out[i] += fr(ck) * t
    return out


def mono2cheb(p):
    """exact Chebyshev coefficients of a monomial-coefficient list"""
    n = len(p) - 1
    T = cheb_T_table(max(n, 1))
    p = [fr(x) for x in p]
    c = [Fraction(0)] * (n + 1)
    for k in range(n, -1, -1):
        ck = p[k] / T[k][k]
        c[k] = ck
        for i, t in enumerate(T[k]):
            p[i] -= ck * t
    return c


def peval_f(p, x):
    s = 0.0
    for c in reversed(p):
        s = s * x + float(c)
    return s


# ---------------------------------------------------------------------------------------
# polynomial families (returned as lists of Python floats = monomial coefficients)


def cheb_family(rng, d, norm1, lead_share=0.1, decay=None):
    """definite-parity Chebyshev vector of degree d with 1-norm norm1 and |c_d| >= lead_share*norm1,
    converted exactly to the monomial basis and rounded to doubles"""
    idx = list(range(d % 2, d + 1, 2))
    raw = {}
    for k in idx:
        v = rng.uniform(-1, 1)
        if decay:
            v *= decay ** k
        raw[k] = v
    lead = rng.uniform(lead_share, min(1.0, max(lead_share * 1.5, 0.6))) * rng.choice([-1, 1])
    rest = sum(abs(raw[k]) for k in idx if k != d)
    c = [0.0] * (d + 1)
    if rest > 0:
        for k in idx:
            if k != d:
                c[k] = raw[k] / rest * (1 - abs(lead)) * norm1
    c[d] = lead * norm1 if len(idx) > 1 else norm1 * rng.choice([-1, 1])
    mono = cheb2mono([Fraction(*float(x).as_integer_ratio()) for x in c])
    return [float(x) for x in mono], c


def sup_estimate(p, n=400):
    return max(abs(peval_f(p, -1 + 2 * i / n)) for i in range(n + 1))


def seed_vectors(rng, k, limit):
    """all of {0,1}^k when 2^k <= limit, else a sample of `limit` vectors incl. all-0, all-1"""
    if k <= 0:
        return [[]]
    if 2 ** k <= limit:
        return [list(b) for b in itertools.product([0, 1], repeat=k)]
    out = [[0] * k, [1] * k, [i % 2 for i in range(k)], [(i + 1) % 2 for i in range(k)]]
    while len(out) < limit:
        out.append([rng.randint(0, 1) for _ in range(k)])
    return out


def qlist(xs):
    return "(" + " ".join(qs(fr(x)) for x in xs) + ")"


_SCALE = []


def scale():
    """the fixed-point scale 2^P of the extracted interval arithmetic, asked from the binary itself"""
    if not _SCALE:
        r = run_model(["(scale)"])[0]
        _SCALE.append(int(r))
    return _SCALE[0]


def scaled_to_float(n):
    return float(Fraction(int(n), scale()))


# ---------------------------------------------------------------------------------------
# corners of phase sequences (plain float arithmetic; only used to *generate* inputs)


def element_of_phases(phis):
    """(I, X): dicts power -> coefficient of R(phi_0) w R(phi_1) ... w R(phi_n)"""
    c, s = math.cos(phis[0]), math.sin(phis[0])
    I, X = {0: c}, {0: s}
    for t in phis[1:]:
        I = {k + 1: v for k, v in I.items()}
        X = {k - 1: v for k, v in X.items()}
        c, s = math.cos(t), math.sin(t)
        keys = set(I) | set(X)
        I, X = ({k: c * I.get(k, 0.0) - s * X.get(k, 0.0) for k in keys},
                {k: s * I.get(k, 0.0) + c * X.get(k, 0.0) for k in keys})
    return I, X


def corner_of_phases(phis):
    """monomial coefficients (re list, im list) of P(a) = <0|U_x(a)|0> = sum_k (A_k + i B_k) T_|k|(a)"""
    I, X = element_of_phases(phis)
    d = len(phis) - 1
    cre, cim = [0.0] * (d + 1), [0.0] * (d + 1)
    for k, v in I.items():
        cre[abs(k)] += v
    for k, v in X.items():
        cim[abs(k)] += v
    pre = [float(x) for x in cheb2mono([Fraction(*float(x).as_integer_ratio()) for x in cre])]
    pim = [float(x) for x in cheb2mono([Fraction(*float(x).as_integer_ratio()) for x in cim])]
    # exact zeros of the opposite parity
    for j in range(d + 1):
        if (j - d) % 2:
            pre[j] = 0.0
            pim[j] = 0.0
    return pre, pim


def cplx_hex(pre, pim):
    return [["c", hexf(a), hexf(b)] for a, b in zip(pre, pim)]
