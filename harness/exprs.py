"""Random operation histories over LPoly / LAlg values, and their three renderings:
JSON for the implementation runner, s-expressions for the extracted model, Coq terms for
the in-Coq cross-check."""
from fractions import Fraction
from common import fr, qs, qcoq, hexf

U = Fraction(1, 2 ** 53)

# ---------------------------------------------------------------------------------------
# coefficient families


def gen_coef(rng, fam):
    if fam == "mixed":      # scalars of a mixed history: floats
        fam = rng.choice(["generic", "dyadic"])
    if fam == "int":
        return rng.randint(-9, 9)
    if fam == "dyadic":
        return rng.randint(-1024, 1024) / 1024.0
    if fam == "wide":
        return rng.choice([-1, 1]) * rng.random() * 10.0 ** rng.randint(-6, 6)
    return rng.uniform(-2, 2)


def gen_vec(rng, fam, n, zeros=True):
    v = [gen_coef(rng, fam) for _ in range(n)]
    if zeros and n and rng.random() < 0.3:
        for _ in range(rng.randint(1, max(1, n // 3))):
            v[rng.randrange(n)] = 0 if fam == "int" else 0.0
    if zeros and n and rng.random() < 0.15:
        v[-1] = 0 if fam == "int" else 0.0
    if zeros and n and rng.random() < 0.15:
        v[0] = 0 if fam == "int" else 0.0
    return v


def lit(rng, fam, par, maxlen, pzero=0.15):
    """a literal LPoly of parity par (0/1)"""
    n = 0 if rng.random() < pzero else rng.randint(1, maxlen)
    dmin = 2 * rng.randint(-7, 5) + par
    if fam == "mixed":      # each literal is either integer-typed (Python ints) or float-typed, often a single term
        fam = rng.choice(["int", "int", "generic", "dyadic"])
        if n and rng.random() < 0.35:
            n = 1
    return ["lit", dmin, gen_vec(rng, fam, n)]


# ---------------------------------------------------------------------------------------
# random LPoly histories with a parity typing (mostly valid)


def gen_pexpr(rng, fam, par, depth, maxlen, bad=0.0):
    if depth == 0 or rng.random() < 0.2:
        return lit(rng, fam, par, maxlen)
    op = rng.choice(["add", "sub", "mul", "mul", "neg", "inv", "scale", "trunc", "posh", "negh"])
    if op in ("add", "sub"):
        q = par if rng.random() >= bad else 1 - par
        return [op, gen_pexpr(rng, fam, par, depth - 1, maxlen, bad), gen_pexpr(rng, fam, q, depth - 1, maxlen, bad)]
    if op == "mul":
        p1 = rng.randint(0, 1)
        return [op, gen_pexpr(rng, fam, p1, depth - 1, max(2, maxlen // 2), bad),
                gen_pexpr(rng, fam, (par - p1) % 2, depth - 1, max(2, maxlen // 2), bad)]
    if op in ("neg", "inv", "posh", "negh"):
        return [op, gen_pexpr(rng, fam, par, depth - 1, maxlen, bad)]
    if op == "scale":
        return [rng.choice(["scale", "rscale"]), gen_coef(rng, fam if fam != "int" else "int"),
                gen_pexpr(rng, fam, par, depth - 1, maxlen, bad)]
    if op == "trunc":
        a = 2 * rng.randint(-9, 6) + par
        b = a + 2 * rng.randint(0, 12)
        return ["trunc", gen_pexpr(rng, fam, par, depth - 1, maxlen, bad), a, b]
    raise AssertionError


def nops(e):
    if e[0] == "lit":
        return 1
    return 1 + sum(nops(x) for x in e[1:] if isinstance(x, list) and x and isinstance(x[0], str))


def jnum(x):
    return str(x) if isinstance(x, int) else hexf(x)


def p_json(e):
    op = e[0]
    if op == "lit":
        return ["lit", e[1], [jnum(c) for c in e[2]]]
    if op in ("scale", "rscale"):
        return [op, jnum(e[1]), p_json(e[2])]
    if op == "trunc":
        return [op, p_json(e[1]), e[2], e[3]]
    return [op] + [p_json(x) for x in e[1:]]


def p_sexp(e, absval=False):
    """s-expression; absval=True gives the magnitude interpretation (|literals|, sub->add, neg->id)"""
    op = e[0]
    A = (lambda x: abs(fr(x))) if absval else fr
    if op == "lit":
        return "(lit %d (%s))" % (e[1], " ".join(qs(A(c)) for c in e[2]))
    if op in ("scale", "rscale"):
        return "(scale %s %s)" % (qs(A(e[1])), p_sexp(e[2], absval))
    if op == "trunc":
        return "(trunc %s %d %d)" % (p_sexp(e[1], absval), e[2], e[3])
    if absval and op == "sub":
        op = "add"
    if absval and op == "neg":
        return p_sexp(e[1], absval)
    return "(%s %s)" % (op, " ".join(p_sexp(x, absval) for x in e[1:]))


def zc(n):
    return "(%d)%%Z" % n


def p_coq(e):
    op = e[0]
    if op == "lit":
        return "(PLit %s [%s])" % (zc(e[1]), "; ".join(qcoq(c) for c in e[2]))
    if op in ("scale", "rscale"):
        return "(PScale %s %s)" % (qcoq(e[1]), p_coq(e[2]))
    if op == "trunc":
        return "(PTrunc %s %s %s)" % (p_coq(e[1]), zc(e[2]), zc(e[3]))
    name = {"add": "PAdd", "sub": "PSub", "mul": "PMul", "neg": "PNeg", "inv": "PInv",
            "posh": "PPosH", "negh": "PNegH"}[op]
    return "(%s %s)" % (name, " ".join(p_coq(x) for x in e[1:]))


# ---------------------------------------------------------------------------------------
# LAlg histories


def gen_glit(rng, fam, par, maxlen):
    r = rng.random()
    i = lit(rng, fam, par, maxlen, pzero=0.0)
    x = lit(rng, fam, par, maxlen, pzero=0.0)
    if r < 0.15:
        i = ["lit", 0, []]
    elif r < 0.3:
        x = ["lit", 0, []]
    return ["glit", i, x]


def gen_cs(rng, fam):
    import math
    if fam in ("int", "dyadic"):
        # exact rational points of the unit circle
        m, n = rng.randint(1, 6), rng.randint(0, 6)
        d = m * m + n * n
        c, s = Fraction(m * m - n * n, d), Fraction(2 * m * n, d)
        if rng.random() < 0.5:
            c, s = s, c
        if rng.random() < 0.5:
            s = -s
        return (c, s)
    t = rng.uniform(-4, 4)
    return (math.cos(t), math.sin(t))


def gen_gexpr(rng, fam, par, depth, maxlen, bad=0.0):
    if depth == 0 or rng.random() < 0.2:
        return gen_glit(rng, fam, par, maxlen)
    op = rng.choice(["gadd", "gsub", "gmul", "gmul", "gneg", "ginv", "gaddp", "gmulp", "pmulg", "gscale", "gtrunc"])
    if op in ("gadd", "gsub"):
        q = par if rng.random() >= bad else 1 - par
        return [op, gen_gexpr(rng, fam, par, depth - 1, maxlen, bad), gen_gexpr(rng, fam, q, depth - 1, maxlen, bad)]
    if op == "gmul":
        p1 = rng.randint(0, 1)
        return [op, gen_gexpr(rng, fam, p1, depth - 1, max(2, maxlen // 2), bad),
                gen_gexpr(rng, fam, (par - p1) % 2, depth - 1, max(2, maxlen // 2), bad)]
    if op in ("gneg", "ginv"):
        return [op, gen_gexpr(rng, fam, par, depth - 1, maxlen, bad)]
    if op == "gaddp":
        return [op, gen_gexpr(rng, fam, par, depth - 1, maxlen, bad), lit(rng, fam, par, maxlen)]
    if op == "gmulp":
        p1 = rng.randint(0, 1)
        return [op, gen_gexpr(rng, fam, p1, depth - 1, max(2, maxlen // 2), bad), lit(rng, fam, (par - p1) % 2, max(2, maxlen // 2))]
    if op == "pmulg":
        p1 = rng.randint(0, 1)
        return [op, lit(rng, fam, p1, max(2, maxlen // 2)), gen_gexpr(rng, fam, (par - p1) % 2, depth - 1, max(2, maxlen // 2), bad)]
    if op == "gscale":
        return [op, gen_gexpr(rng, fam, par, depth - 1, maxlen, bad), gen_coef(rng, "dyadic" if fam != "int" else "int")]
    if op == "gtrunc":
        a = 2 * rng.randint(-9, 6) + par
        b = a + 2 * rng.randint(0, 12)
        return [op, gen_gexpr(rng, fam, par, depth - 1, maxlen, bad), a, b]
    raise AssertionError


def g_json(e):
    op = e[0]
    if op == "glit":
        return [op, p_json(e[1]), p_json(e[2])]
    if op in ("gaddp", "gmulp"):
        return [op, g_json(e[1]), p_json(e[2])]
    if op == "pmulg":
        return [op, p_json(e[1]), g_json(e[2])]
    if op == "gscale":
        return [op, g_json(e[1]), jnum(e[2])]
    if op == "gtrunc":
        return [op, g_json(e[1]), e[2], e[3]]
    return [op] + [g_json(x) for x in e[1:]]


def g_sexp(e, absval=False):
    op = e[0]
    A = (lambda x: abs(fr(x))) if absval else fr
    if op == "glit":
        return "(glit %s %s)" % (p_sexp(e[1], absval), p_sexp(e[2], absval))
    if op in ("gaddp", "gmulp"):
        return "(%s %s %s)" % (op, g_sexp(e[1], absval), p_sexp(e[2], absval))
    if op == "pmulg":
        return "(pmulg %s %s)" % (p_sexp(e[1], absval), g_sexp(e[2], absval))
    if op == "gscale":
        return "(gscale %s %s)" % (g_sexp(e[1], absval), qs(A(e[2])))
    if op == "gtrunc":
        return "(gtrunc %s %d %d)" % (g_sexp(e[1], absval), e[2], e[3])
    if absval and op == "gsub":
        op = "gadd"
    if absval and op in ("gneg",):
        return g_sexp(e[1], absval)
    return "(%s %s)" % (op, " ".join(g_sexp(x, absval) for x in e[1:]))


def g_coq(e):
    op = e[0]
    if op == "glit":
        return "(GLit %s %s)" % (p_coq(e[1]), p_coq(e[2]))
    if op in ("gaddp", "gmulp"):
        return "(%s %s %s)" % ({"gaddp": "GAddP", "gmulp": "GMulP"}[op], g_coq(e[1]), p_coq(e[2]))
    if op == "pmulg":
        return "(PMulG %s %s)" % (p_coq(e[1]), g_coq(e[2]))
    if op == "gscale":
        return "(GScale %s %s)" % (g_coq(e[1]), qcoq(e[2]))
    if op == "gtrunc":
        return "(GTrunc %s %s %s)" % (g_coq(e[1]), zc(e[2]), zc(e[3]))
    name = {"gadd": "GAdd", "gsub": "GSub", "gmul": "GMul", "gneg": "GNeg", "ginv": "GInv"}[op]
    return "(%s %s)" % (name, " ".join(g_coq(x) for x in e[1:]))


# ---------------------------------------------------------------------------------------
# denotations


def denot_model(m):
    """model lpoly s-expression (dmin isz (coefs)) -> {power: Fraction}"""
    dmin, isz, coefs = int(m[0]), m[1] == "1", m[2]
    return {dmin + 2 * i: Fraction(c) for i, c in enumerate(coefs)}


def denot_impl(r):
    return {r["dmin"] + 2 * i: fr(c) for i, c in enumerate(r["coefs"])}


def compare_denot(dm, di, dabs, nop, exact):
    """returns None or a message; dabs = magnitude interpretation (power -> Fraction)"""
    for k in sorted(set(dm) | set(di)):
        a, b = dm.get(k, Fraction(0)), di.get(k, Fraction(0))
        if a == b:
            continue
        if exact:
            return f"coefficient of w^{k}: model {float(a)!r} impl {float(b)!r} (exact family)"
        tol = 64 * nop * U * dabs.get(k, Fraction(0))
        if abs(a - b) > tol:
            return f"coefficient of w^{k}: model {float(a)!r} impl {float(b)!r} |diff|={float(abs(a-b)):.3e} > budget {float(tol):.3e}"
    return None


# ---------------------------------------------------------------------------------------
# magnitude interpretation (an upper bound on every coefficient's absolute value and on every
# intermediate sum of absolute terms), computed in the harness with floats rounded up

def _madd(a, b):
    r = dict(a)
    for k, v in b.items():
        r[k] = r.get(k, 0.0) + v
    return r


def _mmul(a, b):
    r = {}
    for k, v in a.items():
        for j, u in b.items():
            r[k + j] = r.get(k + j, 0.0) + v * u
    return r


def mag_p(e):
    op = e[0]
    if op == "lit":
        return {e[1] + 2 * i: abs(float(c)) for i, c in enumerate(e[2])}
    if op in ("add", "sub"):
        return _madd(mag_p(e[1]), mag_p(e[2]))
    if op == "mul":
        return _mmul(mag_p(e[1]), mag_p(e[2]))
    if op in ("neg", "posh", "negh"):
        return mag_p(e[1])
    if op == "inv":
        return {-k: v for k, v in mag_p(e[1]).items()}
    if op in ("scale", "rscale"):
        return {k: abs(float(e[1])) * v for k, v in mag_p(e[2]).items()}
    if op == "trunc":
        return {k: v for k, v in mag_p(e[1]).items() if e[2] <= k <= e[3]}
    raise AssertionError(op)


def mag_g(e):
    op = e[0]
    if op == "glit":
        return mag_p(e[1]), mag_p(e[2])
    if op in ("gadd", "gsub"):
        a, b = mag_g(e[1]), mag_g(e[2])
        return _madd(a[0], b[0]), _madd(a[1], b[1])
    if op == "gmul":
        (ai, ax), (bi, bx) = mag_g(e[1]), mag_g(e[2])
        inv = lambda d: {-k: v for k, v in d.items()}
        return _madd(_mmul(ai, bi), _mmul(ax, inv(bx))), _madd(_mmul(ai, bx), _mmul(ax, inv(bi)))
    if op == "gneg":
        return mag_g(e[1])
    if op == "ginv":
        a = mag_g(e[1])
        return {-k: v for k, v in a[0].items()}, a[1]
    if op == "gaddp":
        a = mag_g(e[1])
        return _madd(a[0], mag_p(e[2])), a[1]
    if op == "gmulp":
        a, p = mag_g(e[1]), mag_p(e[2])
        return _mmul(a[0], p), _mmul(a[1], {-k: v for k, v in p.items()})
    if op == "pmulg":
        p, a = mag_p(e[1]), mag_g(e[2])
        return _mmul(p, a[0]), _mmul(p, a[1])
    if op == "gscale":
        a = mag_g(e[1])
        c = abs(float(e[2]))
        return {k: c * v for k, v in a[0].items()}, {k: c * v for k, v in a[1].items()}
    if op == "gtrunc":
        a = mag_g(e[1])
        f = lambda d: {k: v for k, v in d.items() if e[2] <= k <= e[3]}
        return f(a[0]), f(a[1])
    raise AssertionError(op)


def fmag(d):
    """float magnitudes -> Fractions, rounded up"""
    return {k: Fraction(v * (1 + 1e-9) + 1e-300) for k, v in d.items()}
