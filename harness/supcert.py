"""Untrusted certificate generation for the verified sup-norm checker (Model/Checkers.v check_sup):
an adaptive cover of [0, 4] by cells (centre, radius) on which |f(centre)| + radius * L <= M, where
f(t) = sum_k c_k cos(k t) and L = sum_k k |c_k|.  Floats only choose the cells; the Coq checker
re-evaluates everything with verified enclosures."""
import math
from fractions import Fraction


def f_eval(c, t):
    # Clenshaw for sum c_k cos(k t)
    x = math.cos(t)
    b1 = b2 = 0.0
    for ck in reversed(c[1:]):
        b1, b2 = ck + 2 * x * b1 - b2, b1
    return c[0] + x * b1 - b2 if c else 0.0


def make_cells(c, M, max_cells=400000):
    """returns ('cover', cells) or ('exceeds', theta) or ('undecided', reason)"""
    L = sum(k * abs(ck) for k, ck in enumerate(c))
    if L == 0:
        return ("cover", [(2.0, 2.5)]) if abs(c[0] if c else 0.0) <= M else ("exceeds", 0.0)
    cells = []
    left = -1e-9
    r = 0.01
    end = 4.0 + 1e-6
    slack = 1e-12 * (1 + M)
    while left <= end:
        tries = 0
        while True:
            tc = left + r
            v = abs(f_eval(c, tc))
            gap = M - v - slack
            if gap <= 0:
                # certified-violation candidate, unless we are beyond pi (cos is even/periodic: f there repeats values on [0, pi])
                return ("exceeds", tc)
            allowed = gap / L * 0.98
            if allowed >= r:
                break
            r = allowed * 0.9
            tries += 1
            if r < 1e-9 or tries > 60:
                # the series approaches M from below: look just ahead for a point above M
                best, bt = -1.0, None
                for j in range(4001):
                    t = left + 0.02 * j / 4000
                    v2 = abs(f_eval(c, t))
                    if v2 > best:
                        best, bt = v2, t
                if best > M + slack:
                    return ("exceeds", bt)
                return ("undecided", "cell radius underflow near theta=%.5f (gap %.3e)" % (tc, gap))
        cells.append((tc, r))
        left = tc + r * (1 - 1e-9)
        r = min(r * 1.6, 0.05)
        if len(cells) > max_cells:
            return ("undecided", "more than %d cells" % max_cells)
    return ("cover", cells)


def cells_sexp(cells):
    def q(x):
        f = Fraction(*float(x).as_integer_ratio())
        return str(f.numerator) if f.denominator == 1 else "%d/%d" % (f.numerator, f.denominator)
    return "(" + " ".join("(%s %s)" % (q(t), q(r)) for t, r in cells) + ")"


def make_cells_fn(g, L, M, end=4.0 + 1e-6, start=-1e-9, rmax=0.05, max_cells=400000, probe=0.02):
    """generic version: g(t) -> |value|, Lipschitz constant L, bound M, cover [start, end]"""
    cells = []
    left = start
    r = min(0.01, rmax)
    slack = 1e-12 * (1 + M)
    if L <= 0:
        L = 1e-300
    while left <= end:
        tries = 0
        while True:
            tc = left + r
            v = g(tc)
            gap = M - v - slack
            if gap <= 0:
                return ("exceeds", tc)
            allowed = gap / L * 0.98
            if allowed >= r:
                break
            r = allowed * 0.9
            tries += 1
            if r < 1e-9 or tries > 60:
                best, bt = -1.0, None
                for j in range(4001):
                    t = left + probe * j / 4000
                    v2 = g(t)
                    if v2 > best:
                        best, bt = v2, t
                if best > M + slack:
                    return ("exceeds", bt)
                return ("undecided", "cell radius underflow near t=%.5f (gap %.3e)" % (tc, gap))
        cells.append((tc, r))
        left = tc + r * (1 - 1e-9)
        r = min(r * 1.6, rmax)
        if len(cells) > max_cells:
            return ("undecided", "more than %d cells" % max_cells)
    return ("cover", cells)
