"""Implementation-side handlers, part 5: polynomial generators (C14-C17), fixed-point search (C18)."""
import numpy
import numpy as np

from impl_codec import enc, dec  # noqa

GEN = {"cos": ("PolyCosineTX", ["tau", "epsilon"]), "sin": ("PolySineTX", ["tau", "epsilon"]),
       "invert": ("PolyOneOverX", ["kappa", "epsilon"]), "invrect": ("PolyOneOverXRect", ["degree", "delta", "kappa", "epsilon"]),
       "sign": ("PolySign", ["degree", "delta"]), "thresh": ("PolyThreshold", ["degree", "delta"]),
       "phase_est": ("PolyPhaseEstimation", ["degree", "delta"]), "rect": ("PolyRect", ["degree", "delta", "kappa", "epsilon"]),
       "linamp": ("PolyLinearAmplification", ["degree", "gamma", "kappa"]), "gibbs": ("PolyGibbs", ["degree", "beta"]),
       "efilter": ("PolyEigenstateFiltering", ["degree", "delta"]), "relu": ("PolyRelu", ["degree", "delta"]),
       "softplus": ("PolySoftPlus", ["degree", "delta", "kappa"])}


def h_gen(c):
    import pyqsp.poly as P
    cls, names = GEN[c["name"]]
    kw = {}
    for k, v in c["args"].items():
        kw[k] = dec(v) if isinstance(v, str) else v
    for k in ("ensure_bounded", "return_scale", "chebyshev_basis"):
        if k in c:
            kw[k] = c[k]
    for k in ("max_scale",):
        if k in c:
            kw[k] = dec(c[k])
    if "cheb_samples" in c:
        kw["cheb_samples"] = int(c["cheb_samples"])
    if "return_coef" in c:
        kw["return_coef"] = bool(c["return_coef"])      # False: cos / sin / 1/x hand back the Chebyshev series object
    for k, tname in (c.get("arg_types") or {}).items():
        if k in kw:
            kw[k] = getattr(numpy, tname)(kw[k])       # the argument held as a numpy scalar (np.int64(12), np.int32(37), np.float64(...)) - same value
    if c.get("float_degree") and "degree" in kw:
        kw["degree"] = float(kw["degree"])          # the command line hands every number over as a float (20 -> 20.0)
    out = getattr(P, cls)(**(c.get("ctor") or {})).generate(**kw)
    scale = None
    typ = type(out).__name__
    if isinstance(out, tuple):
        coefs, scale = out
        typ = "tuple"
    else:
        coefs = out
    if hasattr(coefs, "coef"):
        coefs = coefs.coef
    coefs = numpy.asarray(coefs)
    res = {"coefs": enc(coefs), "scale": None if scale is None else enc(float(numpy.asarray(scale).reshape(-1)[0])), "type": typ,
           "dtype": str(coefs.dtype)}
    return res


def h_fit_reference(c):
    """independent recomputation (float oracle): degree-n least-squares Chebyshev fit of the documented
    closed-form target on the chebpts1 nodes, by the discrete cosine formula (not numpy's chebfit, no linear solve)."""
    import scipy.special
    name, a = c["name"], {k: (dec(v) if isinstance(v, str) else v) for k, v in c["args"].items()}
    degree = int(a["degree"])
    ns = int(c.get("cheb_samples", 20))
    x = numpy.cos(numpy.pi * (numpy.arange(ns) + 0.5) / ns)[::-1]
    erf = scipy.special.erf
    if name == "sign":
        f = erf(x * a["delta"])
    elif name == "thresh":
        f = (erf((x + 0.5) * a["delta"]) - erf((x - 0.5) * a["delta"])) / 2
    elif name == "phase_est":
        f = -1 + erf((1 / numpy.sqrt(2) - x) * a["delta"]) + erf((1 / numpy.sqrt(2) + x) * a["delta"])
    elif name == "rect":
        k = numpy.sqrt(2) / a["delta"] * numpy.sqrt(numpy.log(2 / (numpy.pi * a["epsilon"] ** 2)))
        f = 1 + (erf((x - 3 / (4 * a["kappa"])) * k) + erf((-x - 3 / (4 * a["kappa"])) * k)) / 2
    elif name == "linamp":
        g, kp = a["gamma"], a["kappa"]
        f = x * ((erf((x + 2 * g) * kp) - erf((x - 2 * g) * kp)) / 2) / (2 * g)
    elif name == "gibbs":
        f = numpy.exp(-a["beta"] * numpy.abs(x))
    elif name == "efilter":
        d = a["delta"]
        th = lambda y: numpy.cos(degree * numpy.arccos(numpy.clip(y, -1, 1))) if numpy.all(numpy.abs(y) <= 1) else None
        arg = -1 + 2 * (x ** 2 - d ** 2) / (1 - d ** 2)
        arg0 = -1 + 2 * (0 - d ** 2) / (1 - d ** 2)
        T = numpy.polynomial.chebyshev.Chebyshev.basis(degree)
        f = T(arg) / T(arg0)
    elif name == "relu":
        d = a["delta"]
        f = numpy.abs(x) * (1 + erf((numpy.abs(x) - d) / numpy.sqrt(2))) / 2
    elif name == "softplus":
        d, kp = a["delta"], a.get("kappa", 1)
        f = numpy.log(1 + numpy.exp(kp * (numpy.abs(x) - d))) / kp
    else:
        raise RuntimeError("no reference for " + name)
    # least-squares fit on the ns first-kind Chebyshev nodes in closed form (discrete orthogonality, proved in Theory/DctT.v:
    # C16_least_squares_closed_form): c_k = (2 - [k=0]) / ns * sum_j f(x_j) T_k(x_j); no linear solve
    if ns < degree + 1:
        raise RuntimeError("fewer nodes than coefficients")
    phi = numpy.arccos(x)
    coef = numpy.array([(1.0 if k == 0 else 2.0) / ns * float(numpy.sum(f * numpy.cos(k * phi))) for k in range(degree + 1)])
    return {"coef": enc(coef), "cond": enc(1.0)}


def h_fpsearch(c):
    """a sequence of FPSearch().generate calls executed in order in one process"""
    from pyqsp.phases import FPSearch
    out = []
    held = []
    for call in c["calls"]:
        kw = {}
        for k in ("delta", "gamma"):
            if k in call:
                kw[k] = dec(call[k])
        if call.get("return_alpha"):
            kw["return_alpha"] = True
        dd = call["d"]
        if call.get("d_type") == "float":
            dd = float(dd)                      # the command line hands d over as a float
        elif call.get("d_type"):
            dd = getattr(numpy, call["d_type"])(dd)      # a length taken from a narrow integer array (int8 / uint8 / int16 ...)
        res = FPSearch().generate(dd, **kw)
        held.append(res)                       # the caller keeps every returned vector
        out.append(enc(numpy.asarray(res, dtype=float)))
    # the vectors as they are after all later calls (a caller generating a table first and using it afterwards)
    late = [enc(numpy.asarray(r, dtype=float)) for r in held]
    return {"out": out, "changed_later": [k for k, (a, b) in enumerate(zip(out, late)) if a != b]}


HANDLERS = {"gen": h_gen, "fit_reference": h_fit_reference, "fpsearch": h_fpsearch}

try:
    import impl_handlers6
    HANDLERS.update(impl_handlers6.HANDLERS)
except ImportError:
    pass
