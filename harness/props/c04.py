"""C04 — Laurent completion is unitary and keeps the identity part, for every seed."""
import math
from fractions import Fraction

from common import fr, qs, qcoq, hexf, run_impl, run_model, coq_eval
import qsp_common as Q

LEVEL = "proof"
TECHNIQUE = ("Coq-verified checker check_completion over exact rationals (identity part = F, shape of G, every coefficient of "
             "F F~ + G G~ - 1 re-derived exactly from the returned floats and compared with tol) with soundness theorem "
             "C04_certificate_sound (coefficient-wise statement + bound on the whole unit circle), C04_no_unit_roots "
             "(precondition of the root split on the totality family) ; run on every return of "
             "completion_from_root_finding(F, 'F', seed, tol) over generated F x all/sampled seed vectors x tol values; outcome "
             "classes compared with the statement")
LEVEL_TEXT = ("Props/C04.v: certificate soundness for all F, g, tol and all points of the circle; no-unit-roots theorem; determinant "
              "theorem. Every returned completion goes through the extracted exact checker (a slice re-checked by vm_compute). "
              "The totality clause is decided by outcome agreement on the generated family (all 2^n seeds for n <= 6 quick / 10 thorough).")
LEVEL_NOTE = ("Trusted: Coq kernel + vm_compute, extraction, driver.ml, harness, numpy as executor. Axioms: stdlib real-number axioms + "
              "Classical_Prop.classic (Reals/Coquelicot). numpy.roots / FFT are oracles: that they succeed on the totality family is "
              "observed for the enumerated seeds, not proved.")
RULE = ("real F of length n+1, n = 1..12 (totality family: 1-norm <= 0.9, |extreme coefficients| >= 1e-3) and n up to 24, symmetric / "
        "antisymmetric / generic / single-dominant shapes, bounded and unbounded (1-norm up to 3); tol in {1e-3, 1e-6 (default), 1e-9, "
        "1e-12}; explicit seed vectors: all of {0,1}^n for n <= 6 (quick) / n <= 10 (thorough), sampled above, plus seed=None under "
        "numpy.random.seed; distinct by canonical JSON; non-trivial = n >= 2")
TRUSTED = ["Coq 8.16.1 kernel incl. vm_compute", "extraction (ExtrOcamlBasic, ExtrOcamlZBigInt) + driver.ml + zarith, cross-checked in Coq on a slice",
           "harness (impl_runner.py, impl_handlers2.py)", "numpy as executor of the implementation"]
ASSUME = ["returned doubles are exact dyadic rationals; 'within tol' is the strict coefficient-wise comparison the statement gives"]


def gen_F(rng, n, norm1, shape, min_ext=None):
    k = n + 1
    v = [rng.uniform(-1, 1) for _ in range(k)]
    if shape == "sym":
        v = [(v[i] + v[k - 1 - i]) / 2 for i in range(k)]
    elif shape == "antisym":
        v = [(v[i] - v[k - 1 - i]) / 2 for i in range(k)]
        if k % 2:
            v[k // 2] = rng.uniform(-1, 1)
    elif shape == "dominant":
        j = rng.randrange(k)
        v = [x * 0.05 for x in v]
        v[j] = rng.choice([-1, 1])
    elif shape == "decay":
        v = [x * 0.5 ** abs(i - k // 2) for i, x in enumerate(v)]
    if all(x == 0 for x in v):
        v[0] = 1.0
    s = sum(abs(x) for x in v)
    v = [x / s * norm1 for x in v]
    if min_ext is not None:
        for j in (0, k - 1):
            if abs(v[j]) < min_ext:
                v[j] = math.copysign(min_ext * rng.uniform(1.0, 3.0), v[j] if v[j] != 0 else 1.0)
        s = sum(abs(x) for x in v)
        if s > norm1:
            v = [x / s * norm1 for x in v]
            for j in (0, k - 1):
                if abs(v[j]) < min_ext:
                    v[j] = math.copysign(min_ext, v[j])
    return v


def in_family(F, tol):
    n = len(F) - 1
    return (n <= 12 and sum(abs(x) for x in F) <= 0.9 and abs(F[0]) >= 1e-3 and abs(F[-1]) >= 1e-3 and tol >= 1e-6)


def run(ctx):
    rng = ctx.rng
    quick = ctx.tier == "quick"
    cases = []
    if ctx.replay is not None and ctx.replay.get("case", {}).get("fn") == "completion":
        cases = [ctx.replay["case"]]
    else:
        exh = 6 if quick else 10
        for n in range(1, 13):
            for rep in range(1 if quick else 3):
                shape = rng.choice(["sym", "antisym", "generic", "dominant", "decay"])
                F = gen_F(rng, n, rng.choice([0.9, 0.9, rng.uniform(0.1, 0.9)]) * (1 - 1e-12), shape, 1e-3 * (1 + 1e-9))
                vecs = Q.seed_vectors(rng, n, 2 ** n if n <= exh else (8 if quick else 64))
                for sv in vecs:
                    cases.append({"fn": "completion", "coefs": [hexf(x) for x in F], "coef_type": "F", "seed": sv, "shape": shape, "timeout": 120})
                # a looser tol only weakens the post-condition, so the family must still return
                for ltol in (1e-3, 1e-2, 1e-1):
                    cases.append({"fn": "completion", "coefs": [hexf(x) for x in F], "coef_type": "F", "seed": rng.choice(vecs),
                                  "tol": hexf(ltol), "shape": shape, "timeout": 120})
                cases.append({"fn": "completion", "coefs": [hexf(x) for x in F], "coef_type": rng.choice(["F", "f"]), "npseed": rng.randrange(2 ** 31),
                              "shape": shape, "timeout": 120})
        # many more members with a few seed vectors each (root configurations vary with F: 1, 2, 3, ... real roots inside the circle)
        for n in range(1, 13):
            for rep in range((10 if n % 2 else 4) if quick else 40):
                shape = rng.choice(["sym", "antisym", "generic", "dominant", "decay"])
                F = gen_F(rng, n, rng.uniform(0.2, 0.9), shape, 1e-3 * (1 + 1e-9))
                for sv in ([0] * n, [1] * n, [rng.randint(0, 1) for _ in range(n)]):
                    cases.append({"fn": "completion", "coefs": [hexf(x) for x in F], "coef_type": "F", "seed": sv, "shape": shape, "timeout": 120})
                # the same 0/1 vector held in another container (tuple, bool / unsigned / signed / float ndarray): a seed is a seed
                if rep % 2 == 0:
                    cases.append({"fn": "completion", "coefs": [hexf(x) for x in F], "coef_type": "F", "seed": [rng.randint(0, 1) for _ in range(n - 1)] + [1],
                                  "seed_container": ["uint8", "bool", "int8", "tuple", "float64", "uint16", "int64"][(rep // 2 + n) % 7], "shape": shape, "timeout": 120})
        # directed: exactly-zero extreme coefficients (raise, or return an element whose identity part is this very F), and tiny
        # extremes with a tight tol (G then has genuinely tiny coefficients)
        for F in ([0.0, 0.3, 0.4], [0.2, 0.1, 0.0], [0.0, 0.5, 0.0], [0.0, 0.0, 0.3, -0.2], [0.1, -0.3, 0.2, 0.0, 0.0], [0.0, 0.25]):
            for sv in ([0] * (len(F) - 1), [1] * (len(F) - 1)):
                cases.append({"fn": "completion", "coefs": [hexf(x) for x in F], "coef_type": "F", "seed": sv, "shape": "zero-extreme",
                              "as_list": rng.random() < 0.5, "timeout": 120})
        for n in ([4, 6] if quick else [3, 4, 5, 6, 8]):
            for rep in range(2 if quick else 6):
                F = gen_F(rng, n, rng.uniform(0.5, 0.9), rng.choice(["generic", "sym"]), None)
                F[0] = rng.choice([-1, 1]) * rng.uniform(2e-5, 8e-5)
                F[-1] = rng.choice([-1, 1]) * rng.uniform(2e-5, 8e-5)
                for sv in Q.seed_vectors(rng, n, 6 if quick else 16):
                    cases.append({"fn": "completion", "coefs": [hexf(x) for x in F], "coef_type": "F", "seed": sv, "tol": hexf(1e-10),
                                  "shape": "tiny-extremes/tight-tol", "timeout": 120})
        # a requested tolerance of exactly zero (int and float): the post-condition cannot be met with a residual of 1e-16
        for n in (1, 2, 4):
            F = gen_F(rng, n, 0.6, "generic")
            for z in (0.0, 0):
                cases.append({"fn": "completion", "coefs": [hexf(x) for x in F], "coef_type": "F", "tol": hexf(0.0), "tol_int": isinstance(z, int),
                              "seed": [0] * n, "shape": "zero-tol", "timeout": 120})
        # members next to a collision of two real roots of 1 - F F~ (a root pair just on / just off the real axis; generated on the implementation side)
        gen = run_impl([{"fn": "c03_bifurc", "d": d_, "seed": rng.randrange(2 ** 31), "want": 9, "attempts": 80, "laurent": True, "timeout": 600}
                        for d_ in ((6, 7, 8, 8) if quick else list(range(3, 13)) * 2)], timeout=1200)
        for g_ in gen:
            for fl in (g_.get("ok") or []):
                F = [float.fromhex(x) for x in fl]
                n_ = len(F) - 1
                if not in_family(F, 1e-6):
                    continue
                for sv in Q.seed_vectors(rng, n_, 2 ** n_ if n_ <= 3 else 4):
                    cases.append({"fn": "completion", "coefs": [hexf(x) for x in F], "coef_type": "F", "seed": sv, "shape": "near-collision", "timeout": 120})
        # outside the family: other tolerances, larger n, unbounded F, tiny extremes
        for j in range(80 if quick else 1200):
            n = rng.choice([rng.randint(1, 12), rng.randint(1, 12), 16, 24, 1, 2, 3])
            shape = rng.choice(["sym", "antisym", "generic", "dominant", "decay"])
            norm1 = rng.choice([0.5, 0.9, 0.99, 1.05, 1.5, 3.0])
            F = gen_F(rng, n, norm1, shape, rng.choice([None, 1e-3, 1e-5]))
            tol = rng.choice([1e-3, 1e-6, 1e-9, 1e-12, 0.0])       # tol = 0: a return would have to be exact
            c = {"fn": "completion", "coefs": [hexf(x) for x in F], "coef_type": "F", "tol": hexf(tol), "shape": shape, "timeout": 120}
            if rng.random() < 0.7:
                c["seed"] = [rng.randint(0, 1) for _ in range(n)]
            else:
                c["npseed"] = rng.randrange(2 ** 31)
            cases.append(c)
    impl = run_impl(cases, timeout=3000)
    lines, keep = [], []
    for c, r in zip(cases, impl):
        F = [float.fromhex(x) for x in c["coefs"]]
        n = len(F) - 1
        tol = float.fromhex(c["tol"]) if "tol" in c else 1e-6
        fam = in_family(F, tol)
        tag = "family" if fam else ("bounded" if sum(abs(x) for x in F) <= 1 else "norm>1")
        if "exc" in r:
            ctx.count(c, nontrivial=n >= 2, bucket="%s/raised:%s" % (tag, r["exc"]))
            if r["exc"] != "CompletionError":
                ctx.fail("completion", c, "raised %s (%s): neither a completion nor CompletionError" % (r["exc"], r.get("msg", "")[:120]))
            elif fam:
                ctx.fail("totality", c, "CompletionError on the totality family (n=%d, 1-norm=%.3f, extremes %.2e / %.2e, seed=%s)"
                         % (n, sum(abs(x) for x in F), F[0], F[-1], c.get("seed")))
            continue
        ctx.count(c, nontrivial=n >= 2, bucket="%s/returned" % tag)
        ro = r["ok"]
        bad = None
        for part in ("I", "X"):
            cf = ro[part]["coefs"]
            if any(isinstance(x, list) for x in cf):
                bad = "%s part is complex" % part
            elif any(("nan" in x or "inf" in x) for x in cf if isinstance(x, str)):
                bad = "%s part has non-finite coefficients" % part
            elif ro[part]["isz"]:
                bad = "%s part is the zero polynomial" % part
        if bad:
            ctx.fail("completion", c, "returned an element whose " + bad)
            continue
        if not ro.get("arg_unchanged", True):
            ctx.bucket("argument array modified (reported under C19)")
        lines.append("(completion %s %d %s %d %s %s)" % (Q.qlist(c["coefs"]), ro["I"]["dmin"], Q.qlist(ro["I"]["coefs"]),
                                                         ro["X"]["dmin"], Q.qlist(ro["X"]["coefs"]), qs(fr(tol))))
        keep.append((c, ro, tol))
    mod = run_model(lines)
    terms = []
    for (c, ro, tol), m in zip(keep, mod):
        if isinstance(m, str):
            ctx.infra_fail("extracted checker failed on a returned completion: " + str(m))
            continue
        if m[0] != "1":
            F = [float.fromhex(x) for x in c["coefs"]]
            I = [float.fromhex(x) for x in ro["I"]["coefs"]]
            why = []
            if ro["I"]["dmin"] != -(len(F) - 1) or I != F:
                why.append("identity part differs from F (dmin %d, coefs %s...)" % (ro["I"]["dmin"], I[:4]))
            if ro["X"]["dmin"] != -(len(F) - 1) or len(ro["X"]["coefs"]) != len(F):
                why.append("X part has dmin %d and %d coefficients" % (ro["X"]["dmin"], len(ro["X"]["coefs"])))
            if m[1] != "ERR":
                res = [abs(Fraction(x)) for x in m[1][2]]
                mid = len(res) // 2
                why.append("max |coef of F F~ + G G~ - 1| = %.3e (tol %.1e)" % (float(max(res)), tol))
            ctx.fail("completion", c, "returned element fails the exact re-derivation: " + "; ".join(why))
        elif len(c["coefs"]) <= 4 and len(terms) < (4 if quick else 16):
            def lp(x):
                return "(LP (%d)%%Z [%s] false)" % (x["dmin"], "; ".join(qcoq(fr(v)) for v in x["coefs"]))
            terms.append("check_completion [%s] (LA %s %s) %s" % ("; ".join(qcoq(fr(v)) for v in c["coefs"]), lp(ro["I"]), lp(ro["X"]), qcoq(fr(tol))))
    header = ("From Coq Require Import ZArith QArith List. Import ListNotations.\n"
              "From PyqspV Require Import Model.LPolyM Model.LAlgM Model.Checkers.\n")
    res, err = coq_eval(header, terms, ctx.pid)
    ctx.instance_obligations += len(terms)
    okn = sum(1 for x in res if x is True)
    ctx.instance_discharged += okn
    if okn != len(terms):
        ctx.infra_fail("extraction cross-check: %d of %d certificates accepted by the extracted checker are not accepted by vm_compute %s"
                       % (len(terms) - okn, len(terms), err))
    ctx.residual.append("'returns for all 2^n seed vectors on the stated family' is decided by enumerating / sampling seeds on generated F; "
                        "floating-point success of numpy.roots and the FFT product is not proved")
