"""C13 — the Newton solver returns a protocol reproducing the target Chebyshev series."""
import math
from fractions import Fraction

from common import fr, qs, qcoq, hexf, run_impl, run_model, coq_eval
import qsp_common as Q

LEVEL = "proof"
TECHNIQUE = ("Coq theorems: loop invariants of the Newton iteration for every oracle behaviour (returned protocol consistent with its "
             "reduced phases, 1 <= iterations <= maxiter, the stop reason matches the break condition), update-history invariant, and "
             "soundness of the certificate check_im_target (interval evaluation of the returned protocol's phase product; "
             "|Im<0|U(a)|0> - sum_j c_j T_{2j+parity}(a)| <= tol for every a), admissibility of every target of 1-norm <= 0.9 "
             "(C13_target_admissible: its Laurent form is <= 0.9 on the whole circle); the certificate and the invariants are evaluated on "
             "every return of newton_Solver over generated targets of length 1..80, both parities, and crit / maxiter settings. "
             "Convergence within 30 iterations is decided by outcome agreement only")
LEVEL_TEXT = ("Props/C13.v: certificate soundness (all reduced phases, targets, all a), loop invariants (all oracles, all maxiter), "
              "protocol consistency (all histories). Per run every returned protocol is certified against its target to 1e-10 and "
              "the reported (phases, err, iterations, protocol) tuple is checked against the loop model's invariants. That Newton's "
              "method converges below 1e-12 within 30 iterations for every target of 1-norm <= 0.9 is observed, not proved.")
LEVEL_NOTE = ("Trusted: Coq kernel + vm_compute, extraction, driver.ml, harness, numpy as executor. Axioms: stdlib real-number axioms + "
              "Classical_Prop.classic (certificate theorem); loop theorems axiom-free. Residual: convergence of Newton's iteration in "
              "floating point (numpy.linalg.solve, FFT) is a numerical-analysis statement outside this development.")
RULE = ("target coefficient vectors of length 1..80 (quick: 1..10, 16, 25, 40, 80), both parities, geometric / flat / random-sign decay, "
        "1-norm in (0, 0.9], plus tiny targets of 1-norm 1e-8 / 3e-9; coefficient arrays of dtype float64 and (same values) float32 / float16; default crit/maxiter plus (crit, maxiter) in {(1e-12, 1..5), (1e-6, 50), (1e-14, 100)}; distinct by JSON; "
        "non-trivial = at least 2 coefficients")
TRUSTED = ["Coq 8.16.1 kernel incl. vm_compute", "extraction (ExtrOcamlBasic, ExtrOcamlZBigInt) + driver.ml + zarith, cross-checked in Coq on a slice",
           "harness (impl_runner.py, impl_handlers4.py)", "numpy as executor of the implementation"]
ASSUME = ["returned doubles are exact dyadic rationals; the response is the defining Wx product of the full phase list of the returned protocol"]


def gen_target(rng, k, norm1):
    kind = rng.choice(["geometric", "flat", "random", "single"])
    if kind == "geometric":
        q = rng.uniform(0.3, 0.9)
        v = [q ** j * rng.choice([-1, 1]) for j in range(k)]
    elif kind == "flat":
        v = [rng.choice([-1, 1]) * 1.0 for _ in range(k)]
    elif kind == "single":
        v = [0.0] * k
        v[rng.randrange(k)] = rng.choice([-1, 1]) * 1.0
    else:
        v = [rng.uniform(-1, 1) for _ in range(k)]
    s = sum(abs(x) for x in v) or 1.0
    return [x / s * norm1 for x in v]


def run(ctx):
    rng = ctx.rng
    quick = ctx.tier == "quick"
    cases = []
    if ctx.replay is not None and ctx.replay.get("case", {}).get("fn") == "newton":
        cases = [ctx.replay["case"]]
    else:
        lens = (list(range(1, 11)) + [16, 25, 40, 80]) if quick else list(range(1, 81))
        for k in lens:
            for parity in (0, 1):
                for rep in range(1 if quick else 3):
                    norm1 = rng.choice([0.9, 0.9 * (1 - 1e-12), rng.uniform(0.01, 0.9), 0.5])
                    coef = gen_target(rng, k, min(norm1, 0.9 * (1 - 1e-13)))
                    cases.append({"fn": "newton", "coef": [hexf(x) for x in coef], "parity": parity, "setting": "default", "timeout": 900})
                    if k <= 10:
                        mi = rng.choice([1, 2, 3, 4, 5])
                        cases.append({"fn": "newton", "coef": [hexf(x) for x in coef], "parity": parity, "maxiter": mi, "setting": "maxiter", "timeout": 900})
                        crit, mi2 = rng.choice([(1e-6, 50), (1e-14, 100), (1e-3, 7), (1e-12, 2), (1e-13, 3), (1e-12, 1), (0.0, 12), (1e-17, 15), (1e-18, 9)])
                        cases.append({"fn": "newton", "coef": [hexf(x) for x in coef], "parity": parity, "crit": hexf(crit), "maxiter": mi2,
                                      "setting": "crit", "timeout": 900})
        # long targets (k > 64) with all the weight on one coefficient or spread with one sign, at the top of the allowed norm
        for k in ((65, 80) if quick else (65, 70, 75, 80)):
            for parity in (0, 1):
                for coef in ([0.9 * (1 - 1e-13)] + [0.0] * (k - 1), [0.9 * (1 - 1e-13) / k] * k):
                    cases.append({"fn": "newton", "coef": [hexf(x) for x in coef], "parity": parity, "setting": "default", "timeout": 900})
        # tiny-amplitude targets (every |c_j| <= 1e-8): the protocol must still reproduce them within 1e-10 and report err < crit;
        # an "is it the zero target?" shortcut with a default tolerance would return the all-zero protocol here
        for k in ((1, 3, 5) if quick else (1, 2, 3, 5, 8, 13)):
            for parity in (0, 1):
                for amp in (1e-8, 3e-9):
                    coef = gen_target(rng, k, amp)
                    cases.append({"fn": "newton", "coef": [hexf(x) for x in coef], "parity": parity, "setting": "tiny", "timeout": 900})
        # the same targets held in single / half precision arrays (values rounded to float32/float16 first, so every dtype holds them exactly)
        import struct
        for k in ([1, 2, 3, 6, 12] if quick else [1, 2, 3, 4, 6, 9, 12, 20, 40]):
            for parity in (0, 1):
                for dt in (("float32",) if quick else ("float32", "float16")):
                    coef = gen_target(rng, k, rng.choice([0.85, 0.5, 0.2]))
                    if dt == "float16":
                        coef = [struct.unpack("e", struct.pack("e", x))[0] for x in coef]
                    else:
                        coef = [struct.unpack("f", struct.pack("f", x))[0] for x in coef]
                    cases.append({"fn": "newton", "coef": [hexf(x) for x in coef], "parity": parity, "setting": "default", "dtype": dt,
                                  "maxiter": 60, "timeout": 900})
    impl = run_impl(cases, timeout=3000)
    lines, keep = [], []
    for c, r in zip(cases, impl):
        k = len(c["coef"])
        ctx.count(c, nontrivial=k >= 2, bucket="%s/parity=%d/k<%d" % (c["setting"], c["parity"], 10 ** len(str(k))))
        if "exc" in r:
            ctx.fail("newton", c, "raised %s: %s" % (r["exc"], r.get("msg", "")[:120]))
            continue
        ro = r["ok"]
        crit = float.fromhex(c["crit"]) if "crit" in c else 1e-12
        maxiter = c.get("maxiter", 1e5)
        err = float.fromhex(ro["err"])
        it = ro["iter"]
        # loop invariants (Props/C13.v, C13_loop_invariants)
        if not (1 <= it <= math.ceil(maxiter)):
            ctx.fail("newton", c, "reported %d iterations with maxiter = %s" % (it, maxiter))
            continue
        if not (it >= maxiter or err < crit):
            ctx.fail("newton", c, "stopped after %d iterations with err = %.3e: neither break condition holds (crit %.1e, maxiter %s)" % (it, err, crit, maxiter))
            continue
        if ro["proto"]["red"] != ro["phases"]:
            ctx.fail("newton", c, "returned phase vector differs from the returned protocol's reduced phases")
            continue
        lines.append("(symfull %d %s)" % (c["parity"], Q.qlist(ro["phases"])))
        keep.append((c, ro, "layout"))
        if c["setting"] == "default":
            if not (err < 1e-12 and it <= 30):
                ctx.fail("convergence", c, "did not stop by the convergence criterion within 30 iterations (iterations %d, reported err %.3e)" % (it, err))
                continue
            lines.append("(imtarget %d %s %s %s)" % (c["parity"], Q.qlist(ro["phases"]), Q.qlist(c["coef"]), qs(Fraction(1, 10 ** 10))))
            keep.append((c, ro, "cert"))
            # the returned protocol object's own response method at -1, -0.6, 0.2, 1 against the target series
            if ro.get("resp_im"):
                cf = [float.fromhex(x) for x in c["coef"]]
                for a, v in zip((-1.0, -0.6, 0.2, 1.0), ro["resp_im"]):
                    t = math.acos(a)
                    tgt = sum(cj * math.cos((2 * j + c["parity"]) * t) for j, cj in enumerate(cf))
                    if abs(float.fromhex(v) - tgt) > 1e-9:
                        ctx.fail("newton", c, "the returned protocol's gen_response_im(%r) = %r, the target series is %r there" % (a, float.fromhex(v), tgt))
                        break
    mod = run_model(lines)
    terms = []
    for (c, ro, what), m in zip(keep, mod):
        if isinstance(m, str) and m.startswith("FAIL"):
            ctx.infra_fail("extracted model failed: " + m)
            continue
        if what == "layout":
            exp = None if m == "ERR" else [Fraction(v) for v in m]
            got = None if ro["proto"]["full"] is None else [fr(v) for v in ro["proto"]["full"]]
            if exp != got:
                ctx.fail("newton", c, "the returned protocol's full phases are not the symmetric layout of its reduced phases")
        else:
            if m[0] != "1":
                ctx.fail("newton", c, "the returned protocol does not reproduce the target: certified sup distance of Im<0|U|0> from the series %s > 1e-10"
                         % (Q.scaled_to_float(m[1]) if m[1] != "ERR" else "n/a"))
            elif len(c["coef"]) <= 2 and len(terms) < (2 if quick else 8):
                terms.append("check_im_target %s [%s] [%s] (1 # 10000000000)" % ("true" if c["parity"] == 1 else "false",
                             "; ".join(qcoq(fr(x)) for x in ro["phases"]), "; ".join(qcoq(fr(x)) for x in c["coef"])))
    header = ("From Coq Require Import ZArith QArith List. Import ListNotations.\n"
              "From PyqspV Require Import Model.Checkers.\n")
    res, err = coq_eval(header, terms, ctx.pid)
    ctx.instance_obligations += len(terms)
    okn = sum(1 for x in res if x is True)
    ctx.instance_discharged += okn
    if okn != len(terms):
        ctx.infra_fail("extraction cross-check: %d of %d certificates not accepted by vm_compute %s" % (len(terms) - okn, len(terms), err))
    ctx.residual.append("convergence below crit within 30 iterations for every target of 1-norm <= 0.9 is decided by running the solver on "
                        "generated targets (outcome agreement with the model's predicted 'converges'), not by a theorem")
