"""C07 — the Laurent-coefficient entry point honours its eps / suc error budget."""
import cmath
import math
from fractions import Fraction

from common import fr, qs, qcoq, hexf, run_impl, run_model, coq_eval
import qsp_common as Q

LEVEL = "proof"
TECHNIQUE = ("Coq-verified result checker check_c07 (interval evaluation of the Wz phase product from verified cos/sin enclosures; "
             "certificate sum_k |A_k - suc p_k| < suc eps) with soundness theorem C07_certificate_sound (true => "
             "|A(w)/suc - p(w)| < eps at every point of the unit circle, A = <0|U_z|0> of the defining matrix product) run on "
             "every return of angle_sequence over generated vectors x (eps, suc) x stubbed random root choices; outcome "
             "(returned / raised) compared with the totality clause on its stated family")
LEVEL_TEXT = ("Props/C07.v: certificate soundness for all phase lists, coefficient vectors, eps, suc and all points of the circle; "
              "corner = identity part for every phase list; sup <= coefficient 1-norm. Every sequence the implementation returns "
              "goes through the extracted checker. The 'it returns' clause is decided by outcome agreement on the generated "
              "family only (no theorem).")
LEVEL_NOTE = ("Trusted: Coq kernel + vm_compute, extraction, driver.ml, harness, numpy as executor. Axioms: stdlib real-number axioms "
              "+ Classical_Prop.classic. The certificate uses the coefficient 1-norm, which can exceed the sup norm; a return whose "
              "certificate fails is re-examined on a dense float grid and is reported only if the sup there reaches eps "
              "(otherwise counted as 'not certified', see evidence). Totality is observed, not proved.")
RULE = ("real coefficient vectors of length n+1, n = 1..12 (totality family: 1-norm <= 0.9, eps in [1e-5,1e-2] log-uniform, suc in "
        "[0.99, 1-1e-5]) and n up to 30 / norms up to 3 / eps, suc outside the family (no totality expectation); symmetric, "
        "antisymmetric and generic vectors; random root choice by randint stub (several vectors per input) and unstubbed "
        "seeded runs; distinct by canonical JSON; non-trivial = n >= 2")
TRUSTED = ["Coq 8.16.1 kernel incl. vm_compute", "extraction (ExtrOcamlBasic, ExtrOcamlZBigInt) + driver.ml + zarith, cross-checked in Coq on a slice",
           "harness (impl_runner.py, impl_handlers2.py)", "numpy/scipy as executors of the implementation"]
ASSUME = ["phases and inputs are exact dyadic rationals; the Wz sequence is the defining matrix product of Theory/RespT.v"]


def gen_vec(rng, n, norm1, shape):
    k = n + 1
    v = [rng.uniform(-1, 1) for _ in range(k)]
    if shape == "sym":
        v = [(v[i] + v[k - 1 - i]) / 2 for i in range(k)]
    elif shape == "antisym" and k > 1:
        v = [(v[i] - v[k - 1 - i]) / 2 for i in range(k)]
        if all(x == 0 for x in v):
            v[0], v[-1] = 0.3, -0.3
    elif shape == "decay":
        v = [x * 0.6 ** abs(i - k // 2) for i, x in enumerate(v)]
    s = sum(abs(x) for x in v) or 1.0
    return [x / s * norm1 for x in v]


def in_family(p, eps, suc):
    n = len(p) - 1
    return n <= 12 and sum(abs(x) for x in p) <= 0.9 and 1e-5 <= eps <= 1e-2 and 0.99 <= suc <= 1 - 1e-5


def extreme_margin(p, eps):
    return min(abs(p[0] + eps / 4), abs(p[-1] + eps / 4))


def known_extreme(case, k):
    p = [float.fromhex(x) for x in case["p"]]
    eps = float.fromhex(case["eps"])
    return extreme_margin(p, eps) < float(k.get("threshold", 1e-3))


PREDICATES = {"c07_extreme_cancels": known_extreme}


def float_sup(phis, p, suc, npts=4001):
    """dense float evaluation of |A(w)/suc - p(w)| (only used when the 1-norm certificate fails)"""
    n = len(p) - 1
    worst = 0.0
    cs = [(math.cos(t), math.sin(t)) for t in phis]
    for j in range(npts):
        th = math.pi * 2 * j / npts
        w = cmath.exp(1j * th)
        # R(phi0) W R(phi1) ... with W = diag(w, 1/w), R = [[c, i s],[i s, c]]
        c, s = cs[0]
        m00, m01, m10, m11 = c, 1j * s, 1j * s, c
        for c, s in cs[1:]:
            m00, m01, m10, m11 = m00 * w, m01 / w, m10 * w, m11 / w
            m00, m01, m10, m11 = (m00 * c + m01 * 1j * s, m00 * 1j * s + m01 * c, m10 * c + m11 * 1j * s, m10 * 1j * s + m11 * c)
        pv = sum(pk * w ** (-n + 2 * k) for k, pk in enumerate(p))
        worst = max(worst, abs(m00 / suc - pv))
    return worst


def run(ctx):
    rng = ctx.rng
    quick = ctx.tier == "quick"
    cases = []
    if ctx.replay is not None and ctx.replay.get("case", {}).get("fn") == "angle_sequence":
        cases = [ctx.replay["case"]]
    else:
        reps = 4 if quick else 30
        for n in range(1, 13):
            for j in range(reps):
                shape = rng.choice(["sym", "antisym", "generic", "decay"])
                norm1 = rng.choice([0.9, 0.9, rng.uniform(0.05, 0.9)])
                p = gen_vec(rng, n, norm1 * (1 - 1e-12), shape)
                eps = 10 ** rng.uniform(-5, -2)
                suc = rng.choice([0.99, 1 - 1e-5, 1 - 10 ** rng.uniform(-5, -2)])
                for bits in Q.seed_vectors(rng, n, 3 if quick else 6):
                    cases.append({"fn": "angle_sequence", "p": [hexf(x) for x in p], "eps": hexf(eps), "suc": hexf(suc),
                                  "bits": bits, "shape": shape, "family": True, "timeout": 300})
                if rng.random() < 0.5:
                    # fault injection: the decomposition output is shifted by 4..100 eps before the library's final test
                    cases.append({"fn": "angle_sequence", "p": [hexf(x) for x in p], "eps": hexf(eps), "suc": hexf(suc),
                                  "bits": [0], "shape": shape, "family": True, "timeout": 300,
                                  "perturb": hexf(eps * rng.choice([4, 10, 100]))})
                if rng.random() < 0.6:
                    # marginal faults: shifts of 0.3..1.2 eps put the true error next to the acceptance threshold (a final test that
                    # measures against a drifted reference, or counts only part of the capitalisation, accepts some of these)
                    for mult in rng.sample([0.3, 0.5, 0.7, 0.9, 1.2], 3):
                        cases.append({"fn": "angle_sequence", "p": [hexf(x) for x in p], "eps": hexf(eps), "suc": hexf(suc),
                                      "bits": [rng.randint(0, 1)], "shape": shape, "family": True, "timeout": 300, "perturb": hexf(eps * mult)})
                cases.append({"fn": "angle_sequence", "p": [hexf(x) for x in p], "eps": hexf(eps), "suc": hexf(suc),
                              "npseed": rng.randrange(2 ** 31), "shape": shape, "family": True, "timeout": 300})
        # directed: single-term targets c w^n / c w^-n with (eps, suc) such that |c| (1/suc - 1) >= eps (the success factor is not negligible)
        for n in ((1, 2, 4, 6) if quick else range(1, 13)):
            for cval in ((0.8, -0.6) if quick else (0.8, -0.6, 0.3, 0.9)):
                for eps, suc in ((1e-3, 0.99), (1e-4, 0.999), (1e-2, 0.9)):
                    for top in (True, False):
                        p = [0.0] * (n + 1)
                        p[n if top else 0] = cval
                        cases.append({"fn": "angle_sequence", "p": [hexf(x) for x in p], "eps": hexf(eps), "suc": hexf(suc),
                                      "bits": [rng.randint(0, 1) for _ in range(n)], "shape": "single-term", "family": True, "timeout": 300})
        # directed: the capitalisation eps/4 cancels (or nearly cancels) an extreme coefficient
        for n in ([2, 5, 8] if quick else range(1, 13)):
            for off in (0.0, 1e-7, -3e-6):
                eps = rng.choice([1e-4, 1e-3])
                suc = 1 - 1e-4
                p = gen_vec(rng, n, 0.5, "sym")
                p[0] = -eps / 4 + off
                p[-1] = -eps / 4 + off
                cases.append({"fn": "angle_sequence", "p": [hexf(x) for x in p], "eps": hexf(eps), "suc": hexf(suc),
                              "npseed": rng.randrange(2 ** 31), "shape": "cancel", "family": True, "timeout": 300})
        # directed: exactly-zero end coefficients (both, one side, all), with eps/4 above the known-finding threshold
        for n in ([2, 3, 4, 6] if quick else range(1, 9)):
            for kind in ("both", "left", "right", "zero"):
                for eps in ([1e-2] if quick else [4.1e-3, 1e-2]):
                    p = gen_vec(rng, n, 0.6, rng.choice(["sym", "generic"]))
                    if kind in ("both", "left"):
                        p[0] = 0.0
                    if kind in ("both", "right"):
                        p[-1] = 0.0
                    if kind == "zero":
                        p = [0.0] * (n + 1)
                    cases.append({"fn": "angle_sequence", "p": [hexf(x) for x in p], "eps": hexf(eps), "suc": hexf(rng.choice([0.99, 1 - 1e-4])),
                                  "bits": Q.seed_vectors(rng, n, 1)[0], "shape": "zero-ends:" + kind, "family": True, "timeout": 300})
        # directed: several non-zero coefficients just below 1e-5 (a default round_zeros threshold) with a budget eps of that order
        for n in ([4, 8] if quick else [3, 4, 6, 8, 10, 12]):
            for eps in (1e-5, 2e-5, 5e-5):
                p = gen_vec(rng, n, 0.5, rng.choice(["sym", "generic"]))
                idx = rng.sample(range(1, n), min(3, n - 1))
                for i in idx:
                    p[i] = rng.choice([-1, 1]) * rng.uniform(7e-6, 9.9e-6)
                for bits in Q.seed_vectors(rng, n, 2 if quick else 4):
                    cases.append({"fn": "angle_sequence", "p": [hexf(x) for x in p], "eps": hexf(eps), "suc": hexf(0.995),
                                  "bits": bits, "shape": "tiny-interior", "family": True, "timeout": 300})
        # members whose capitalised, scaled polynomial F = suc (p + eps/4 (w^n + w^-n)) sits next to a collision of two real roots of 1 - F F~
        # (found by bisection inside the implementation process): a nearly double root must be paired the same way by every tolerance in the completion
        gen = run_impl([{"fn": "c03_bifurc", "d": d_, "seed": rng.randrange(2 ** 31), "want": 9, "attempts": 80, "laurent": True, "timeout": 600}
                        for d_ in ((5, 6, 7, 8) if quick else list(range(3, 13)) * 2)], timeout=1200)
        for g_ in gen:
            for fl in (g_.get("ok") or []):
                F = [float.fromhex(x) for x in fl]
                n_ = len(F) - 1
                eps_, suc_ = 1e-3, 0.999
                p = [x / suc_ for x in F]
                p[0] -= eps_ / 4
                p[-1] -= eps_ / 4
                if not in_family(p, eps_, suc_) or extreme_margin(p, eps_) < 2e-3:
                    continue
                for bits in Q.seed_vectors(rng, n_, 2):
                    cases.append({"fn": "angle_sequence", "p": [hexf(x) for x in p], "eps": hexf(eps_), "suc": hexf(suc_),
                                  "bits": bits, "shape": "near-collision", "family": True, "timeout": 300})
        # outside the totality family: larger n, large norms, odd settings
        for j in range(30 if quick else 300):
            n = rng.choice([13, 16, 20, 25, 30, rng.randint(1, 12)])
            shape = rng.choice(["sym", "generic", "decay"])
            norm1 = rng.choice([0.5, 0.95, 1.2, 3.0])
            p = gen_vec(rng, n, norm1, shape)
            eps = rng.choice([1e-4, 1e-1, 0.5, 1e-7])
            suc = rng.choice([1 - 1e-4, 0.9, 0.5, 1.0])
            cases.append({"fn": "angle_sequence", "p": [hexf(x) for x in p], "eps": hexf(eps), "suc": hexf(suc),
                          "bits": [rng.randint(0, 1) for _ in range(8)], "shape": shape, "family": False, "timeout": 300})
    for c in (cases if ctx.replay is None else []):
        if c.get("fn") == "angle_sequence" and rng.random() < 0.3:
            c["as_list"] = True       # the coefficient vector as a Python list
    impl = run_impl(cases, timeout=3000)
    lines, keep = [], []
    for c, r in zip(cases, impl):
        p = [float.fromhex(x) for x in c["p"]]
        eps, suc = float.fromhex(c["eps"]), float.fromhex(c["suc"])
        n = len(p) - 1
        fam = in_family(p, eps, suc)
        tag = "family" if fam else "outside"
        if "exc" in r:
            ctx.count(c, nontrivial=n >= 2, bucket="%s/raised:%s%s" % (tag, r["exc"], "/perturbed" if c.get("perturb") else ""))
            if r["exc"] in ("WorkerDied", "CaseTimeout"):
                ctx.fail("angle_sequence", c, "the call neither returned nor raised (%s)" % r["exc"])
            elif fam and not c.get("perturb"):
                ctx.fail("totality", c, "raised %s (%s) on an input of the totality family (n=%d, 1-norm=%.3f, eps=%.2e, suc=%r, "
                         "min |p_extreme + eps/4| = %.2e)" % (r["exc"], r.get("msg", "")[:80], n, sum(abs(x) for x in p), eps, suc, extreme_margin(p, eps)))
            continue
        ctx.count(c, nontrivial=n >= 2, bucket="%s/returned%s" % (tag, "/perturbed" if c.get("perturb") else ""))
        ro = r["ok"]
        if ro["len"] != n + 1:
            ctx.fail("angle_sequence", c, "returned %d phases for n = %d" % (ro["len"], n))
            continue
        lines.append("(c07 %s %s %s %s)" % (Q.qlist(ro["phis"]), Q.qlist(c["p"]), qs(fr(c["eps"])), qs(fr(c["suc"]))))
        keep.append((c, ro, p, eps, suc))
    mod = run_model(lines)
    terms = []
    for (c, ro, p, eps, suc), m in zip(keep, mod):
        if isinstance(m, str):
            ctx.infra_fail("extracted checker failed on a returned sequence: " + str(m))
            continue
        if m[0] == "1":
            ctx.bucket("certified by the 1-norm certificate")
            if len(p) <= 4 and len(terms) < (3 if quick else 12):
                terms.append("check_c07 [%s] [%s] %s %s" % ("; ".join(qcoq(fr(x)) for x in ro["phis"]),
                                                           "; ".join(qcoq(fr(x)) for x in c["p"]), qcoq(fr(c["eps"])), qcoq(fr(c["suc"]))))
            continue
        if suc <= 0:
            ctx.bucket("suc <= 0: outside the statement")
            continue
        phis = [float.fromhex(x) for x in ro["phis"]]
        sup = float_sup(phis, p, suc)
        # under fault injection the true error is steered next to eps on purpose: the library's own final test samples the circle, so a
        # return within 0.1 % of eps is its sampling resolution, not a defect
        if sup >= eps * (1 + (1e-3 if c.get("perturb") else 1e-6)) or not all(math.isfinite(x) for x in phis):
            ctx.fail("angle_sequence", c, ("perturbed decomposition output was returned, not rejected: " if c.get("perturb") else "") + "returned a sequence with sup |A/suc - p| = %.6e >= eps = %.6e (1-norm certificate: %s)"
                     % (sup, eps, "%.6e" % Q.scaled_to_float(m[1]) if m[1] != "ERR" else "n/a"))
        else:
            ctx.bucket("returned, 1-norm certificate not met, float sup < eps (not certified)")
    header = ("From Coq Require Import ZArith QArith List. Import ListNotations.\n"
              "From PyqspV Require Import Model.Checkers.\n")
    res, err = coq_eval(header, terms, ctx.pid)
    ctx.instance_obligations += len(terms)
    okn = sum(1 for x in res if x is True)
    ctx.instance_discharged += okn
    if okn != len(terms):
        ctx.infra_fail("extraction cross-check: %d of %d certificates accepted by the extracted checker are not accepted by vm_compute %s"
                       % (len(terms) - okn, len(terms), err))
    ctx.residual.append("the 'it returns on the stated family' clause is decided by running the implementation on generated members of "
                        "the family (all outcomes compared with the expected 'returns'); no theorem covers floating-point success")
