"""C20 — the command line is a faithful front end to the library."""
import math
from fractions import Fraction

from common import fr, qs, qcoq, hexf, run_impl, run_model, coq_eval
import qsp_common as Q

LEVEL = "proof"
TECHNIQUE = ("Coq model of main.CommandLine's dispatch table and of the float_list parser over character lists, with theorems: the comma "
             "form and the bracketed space-separated form parse to the same token list for every admissible token list; an unknown "
             "command yields help, never phases; the documented commands map to the named generators. The implementation is driven "
             "through CommandLine(arglist=...) under a pkg_resources stub with spies on every generator and on "
             "QuantumSignalProcessingPhases: recorded calls are compared with the model's dispatch (evaluated in Coq), returned / "
             "printed phases with the library's result (exactly), and the phases are certified against the handed polynomial by the "
             "C01 checker")
LEVEL_TEXT = ("Props/C20.v: 5 theorems (3 universally quantified string-splitting theorems, unknown-command theorem over all strings, "
              "dispatch table). Per run every command is executed in both output modes and both list syntaxes; argparse and the JSON "
              "float round trip are exercised, not modelled.")
LEVEL_NOTE = ("Trusted: Coq kernel + vm_compute, harness spies (monkeypatching from outside), numpy as executor. Theorems are axiom-free. "
              "argparse, float() and json are oracles. hamsim hands two polynomials to the phase finder; the phases it returns are "
              "those of the last call (sine), which is what the statement's 'the phases the library produced' is checked against.")
RULE = ("commands poly2angles, hamsim, invert, angles, poly, fpsearch, gibbs, efilter, relu, poly_sign, poly_thresh, poly_phase, poly_rect, "
        "invert_rect, poly_linear_amp and unknown names; poly over every --polyname (invert with non-integral kappa, efilter, relu, softplus, ...) and angles over every --seqname, fpsearch with 1..3 values (explicit gamma); --return-angles and --output-json; comma and bracket list syntaxes; Wx / Wz; "
        "tolerances 1e-3..1e-6; several numpy seeds; distinct by JSON; non-trivial = always")
TRUSTED = ["Coq 8.16.1 kernel incl. vm_compute", "extraction + driver.ml (C01 checker)", "harness (impl_handlers6.py spies, stubs/pkg_resources.py)",
           "numpy/scipy/argparse/json as executors"]
ASSUME = ["the command line calls the library through pyqsp.angle_sequence.QuantumSignalProcessingPhases and the generator classes' generate methods"]

# command -> (expected generator class(es), Coq action constructor)
TABLE = {"hamsim": (["PolyCosineTX", "PolySineTX"], "AGen CCosSin"), "invert": (["PolyOneOverX"], "AGen CInvert"),
         "gibbs": (["PolyGibbs"], "AGen CGibbs"), "efilter": (["PolyEigenstateFiltering"], "AGen CEfilter"),
         "relu": (["PolySoftPlus"], "AGen CSoftplus"), "poly_sign": (["PolySign"], "AGen CSign"), "poly_thresh": (["PolyThreshold"], "AGen CThresh"),
         "poly_phase": (["PolyPhaseEstimation"], "AGen CPhase"), "poly_rect": (["PolyRect"], "AGen CRect"),
         "invert_rect": (["PolyOneOverXRect"], "AGen CInvRect"), "poly_linear_amp": (["PolyLinearAmplification"], "AGen CLinAmp"),
         "poly2angles": ([], "APoly2Angles"), "fpsearch": (["FPSearch"], "AFpsearch"), "poly": (None, "APolyByName"), "angles": (None, "AAnglesByName")}
SEQARGS = {"hamsim": [3.0, 0.1], "invert": [3.0, 0.3], "gibbs": [8, 2.0], "efilter": [8, 0.3], "relu": [8, 0.3], "poly_sign": [7, 2.0],
           "poly_thresh": [8, 2.0], "poly_phase": [8, 2.0], "poly_rect": [8, 2.0, 3.0], "invert_rect": [6, 2.0, 2.0, 0.3],
           "poly_linear_amp": [7, 0.25], "fpsearch": [5, 0.5]}
# the generic commands: --polyname / --seqname -> (class, argument tuples); kappa of 'invert' is a real number, fpsearch takes an optional gamma
POLYNAMES = {"invert": ("PolyOneOverX", [[2.5, 0.3], [3, 0.3]]), "poly_sign": ("PolySign", [[7, 2.0], [9, 3.5]]),
             "poly_thresh": ("PolyThreshold", [[8, 2.0]]), "gibbs": ("PolyGibbs", [[8, 2.0], [10, 3.5]]),
             "efilter": ("PolyEigenstateFiltering", [[8, 0.2, 0.9], [10.0, 0.3]]), "relu": ("PolyRelu", [[8], [8, 0.3]]),
             "softplus": ("PolySoftPlus", [[8, 0.3], [8, 0.3, 1.5]])}
SEQNAMES = {"fpsearch": ("FPSearch", [[5, 0.5], [6, 0.5, 0.3], [4]]), "erf_step": ("erf_step", [[7], [23]])}
FPS_ARGS = [[5, 0.5], [6, 0.5, 0.3], [4], [7, 0.25, 0.6]]
UNKNOWN = ["polytoangles", "Invert", "hamsim2", "", "phases"]


def _strip(l):
    """a coefficient list as a polynomial: high-order zero padding removed"""
    l = list(l)
    while l and l[-1] == 0:
        l.pop()
    return l


def fmt_list(vals, bracket, style=0):
    """style 0: shortest repr; 1: C exponent notation (5.0e-01); 2: numpy-like (trailing dot, signed exponents)"""
    if style == 1:
        toks = ["%.6e" % float(v) for v in vals]
    elif style == 2:
        toks = [("%d." % v) if float(v).is_integer() else "%.3e" % float(v) for v in vals]
    else:
        toks = [repr(float(v)) if not float(v).is_integer() else str(int(v)) for v in vals]
    return "[" + " ".join(toks) + "]" if bracket else ",".join(toks)


def run(ctx):
    rng = ctx.rng
    quick = ctx.tier == "quick"
    # the Python table above is the Coq model's dispatch: checked by evaluating the model
    cmds = list(TABLE) + UNKNOWN
    terms = []
    for cmd in cmds:
        act = TABLE[cmd][1] if cmd in TABLE else "AHelp"
        terms.append('action_eqb (dispatch "%s") (%s)' % (cmd, act))
    header = ("From Coq Require Import ZArith List Bool String. Import ListNotations. Open Scope string_scope.\n"
              "From PyqspV Require Import Model.CliM.\n"
              "Definition cligen_eqb (a b : cligen) : bool := match a, b with CCosSin, CCosSin | CInvert, CInvert | CGibbs, CGibbs | CEfilter, CEfilter "
              "| CSoftplus, CSoftplus | CSign, CSign | CThresh, CThresh | CPhase, CPhase | CRect, CRect | CInvRect, CInvRect | CLinAmp, CLinAmp => true | _, _ => false end.\n"
              "Definition action_eqb (a b : action) : bool := match a, b with APoly2Angles, APoly2Angles | AFpsearch, AFpsearch | APolyByName, APolyByName "
              "| AAnglesByName, AAnglesByName | APolyfunc, APolyfunc | AResponse, AResponse | AHelp, AHelp => true | AGen x, AGen y => cligen_eqb x y | _, _ => false end.\n")
    res, err = coq_eval(header, terms, ctx.pid)
    ctx.instance_obligations += len(terms)
    ctx.instance_discharged += sum(1 for x in res if x is True)
    if not all(x is True for x in res):
        ctx.infra_fail("the harness dispatch table disagrees with Model/CliM.v dispatch (or it could not be evaluated): %s %s" % (res, err))
        return
    cases = []
    if ctx.replay is not None and ctx.replay.get("case", {}).get("fn") == "cli":
        cases = [ctx.replay["case"]]
    else:
        for cmd in TABLE:
            for rep in range(2 if quick else 6):
                mode = "--return-angles" if rep % 2 == 0 else "--output-json"
                bracket = rng.random() < 0.5
                style = rng.choice([0, 0, 1, 2])
                so = rng.choice(["Wx", "Wx", "Wz"]) if cmd not in ("invert", "fpsearch", "angles") else "Wx"
                tol = rng.choice([1e-3, 1e-4, 1e-5, 1e-6])
                al = [mode, "--signal_operator=" + so, "--tolerance=%r" % tol]
                if cmd == "poly2angles":
                    poly = rng.choice([[-1, 0, 2], [0, -3, 0, 4], [0, 0.5, 0, 0.2], [0.3, 0, -0.6, 0, 0.2], [0, 0.4]])
                    al += ["--poly=" + fmt_list(poly, bracket, style)]
                    exp_args = poly
                elif cmd == "poly":
                    al += ["--polyname", "poly_sign", "--polyargs=" + fmt_list([7, 2.0], bracket, style)]
                    exp_args = [7, 2.0]
                elif cmd == "angles":
                    al += ["--seqname", "fpsearch", "--seqargs=" + fmt_list([5, 0.5], bracket, style)]
                    exp_args = [5, 0.5]
                elif cmd == "fpsearch":
                    exp_args = FPS_ARGS[rep % len(FPS_ARGS)]
                    al += ["--seqargs=" + fmt_list(exp_args, bracket, style)]
                else:
                    al += ["--seqargs=" + fmt_list(SEQARGS[cmd], bracket, style)]
                    exp_args = SEQARGS[cmd]
                al.append(cmd)
                cases.append({"fn": "cli", "arglist": al, "cmd": cmd, "mode": mode, "bracket": bracket, "so": so, "tol": tol, "exp_args": exp_args,
                              "npseed": rng.randrange(2 ** 31), "timeout": 600})
        # the generic commands over every registered name and several argument tuples
        for name, (cls, tuples) in POLYNAMES.items():
            for k, t in enumerate(tuples if not quick else tuples[:1] if name not in ("invert",) else tuples):
                mode = rng.choice(["--return-angles", "--output-json"])
                bracket = rng.random() < 0.5
                tol = rng.choice([1e-3, 1e-4])
                cases.append({"fn": "cli", "arglist": [mode, "--tolerance=%r" % tol, "--polyname", name, "--polyargs=" + fmt_list(t, bracket, 0), "poly"],
                              "cmd": "poly", "mode": mode, "bracket": bracket, "so": "Wx", "tol": tol, "exp_args": t, "exp_classes": [cls],
                              "npseed": rng.randrange(2 ** 31), "timeout": 600})
        for name, (cls, tuples) in SEQNAMES.items():
            for t in tuples:
                mode = rng.choice(["--return-angles", "--output-json"])
                bracket = rng.random() < 0.5
                cases.append({"fn": "cli", "arglist": [mode, "--seqname", name, "--seqargs=" + fmt_list(t, bracket, 0), "angles"],
                              "cmd": "angles", "mode": mode, "bracket": bracket, "so": "Wx", "tol": 0.1, "exp_args": t, "exp_classes": [cls],
                              "npseed": rng.randrange(2 ** 31), "timeout": 600})
        for t in FPS_ARGS:
            mode = rng.choice(["--return-angles", "--output-json"])
            bracket = rng.random() < 0.5
            cases.append({"fn": "cli", "arglist": [mode, "--seqargs=" + fmt_list(t, bracket, 0), "fpsearch"],
                          "cmd": "fpsearch", "mode": mode, "bracket": bracket, "so": "Wx", "tol": 0.1, "exp_args": t,
                          "npseed": rng.randrange(2 ** 31), "timeout": 600})
        # hamsim at a longer time: whether the cosine / sine step succeeds depends on the random root choice (several numpy seeds)
        for sd in (range(8) if quick else range(40)):
            mode = "--return-angles" if sd % 2 == 0 else "--output-json"
            cases.append({"fn": "cli", "arglist": [mode, "--seqargs=30,0.1", "hamsim"], "cmd": "hamsim", "mode": mode, "bracket": False,
                          "so": "Wx", "tol": 0.1, "exp_args": [30, 0.1], "npseed": sd, "timeout": 600})
        for k, cmd in enumerate(UNKNOWN):
            # an unknown command next to options that carry numbers (--phiset, --seqargs): still help text and no phases
            mode = "--return-angles" if k % 2 == 0 else "--output-json"
            cases.append({"fn": "cli", "arglist": [mode, "--phiset=" + fmt_list([0.1, 0.2, 0.3], k % 2 == 1, 0), "--seqargs=3,0.1", cmd], "cmd": cmd, "mode": mode,
                          "bracket": k % 2 == 1, "so": "Wx", "tol": 0.1, "exp_args": [], "npseed": 1, "timeout": 120})
        # --poly lists with zero padding at the high end and a zero constant term (the list must reach the phase finder as given)
        for poly in ([0, 0.6, 0, -0.3, 0, 0], [0, 0.5, 0, 0], [0, 0, 0.7, 0, 0], [0.2, 0, 0.5, 0, 0]):
            for bracket in (False, True):
                cases.append({"fn": "cli", "arglist": ["--return-angles", "--poly=" + fmt_list(poly, bracket, 0), "poly2angles"], "cmd": "poly2angles",
                              "mode": "--return-angles", "bracket": bracket, "so": "Wx", "tol": 0.1, "exp_args": poly, "npseed": 5, "timeout": 300})
        # lists with a single entry in the bracketed form ("[6]" has no blank), and a relu request whose delta is exactly 0
        for bracket in (True, False):
            cases.append({"fn": "cli", "arglist": ["--return-angles", "--seqargs=" + fmt_list([6], bracket, 0), "fpsearch"], "cmd": "fpsearch", "mode": "--return-angles",
                          "bracket": bracket, "so": "Wx", "tol": 0.1, "exp_args": [6], "npseed": 2, "timeout": 300})
            cases.append({"fn": "cli", "arglist": ["--output-json", "--seqname", "erf_step", "--seqargs=" + fmt_list([23], bracket, 0), "angles"], "cmd": "angles",
                          "mode": "--output-json", "bracket": bracket, "so": "Wx", "tol": 0.1, "exp_args": [23], "exp_classes": ["erf_step"], "npseed": 2, "timeout": 300})
            cases.append({"fn": "cli", "arglist": ["--return-angles", "--tolerance=0.01", "--seqargs=" + fmt_list([8, 0, 5], bracket, 0), "relu"], "cmd": "relu",
                          "mode": "--return-angles", "bracket": bracket, "so": "Wx", "tol": 0.01, "exp_args": [8, 0, 5], "npseed": 2, "timeout": 300})
        for cmd in UNKNOWN:
            cases.append({"fn": "cli", "arglist": ["--return-angles", "--poly=-1,0,2", cmd], "cmd": cmd, "mode": "--return-angles", "bracket": False,
                          "so": "Wx", "tol": 0.1, "exp_args": [], "npseed": 1, "timeout": 120})
        # the two list syntaxes hand over the same numbers (zeros included)
        for poly in ([-1, 0, 2], [0, 0.5, 0, 0.2], [0, 0, 0, 1]):
            for bracket in (False, True):
                for style in (0, 1, 2):
                    cases.append({"fn": "cli", "arglist": ["--return-angles", "--tolerance=1e-05", "--poly=" + fmt_list(poly, bracket, style), "poly2angles"], "cmd": "poly2angles",
                                  "mode": "--return-angles", "bracket": bracket, "so": "Wx", "tol": 1e-5, "exp_args": poly, "npseed": 7, "timeout": 300, "pair": str(poly)})
        for bracket in (False, True):
            for style in (1, 2):
                cases.append({"fn": "cli", "arglist": ["--return-angles", "--seqargs=" + fmt_list([10, 0.5], bracket, style), "fpsearch"], "cmd": "fpsearch",
                              "mode": "--return-angles", "bracket": bracket, "so": "Wx", "tol": 0.1, "exp_args": [10, 0.5], "npseed": 3, "timeout": 300})
                cases.append({"fn": "cli", "arglist": ["--return-angles", "--tolerance=1e-05", "--seqargs=" + fmt_list([5, 0.05], bracket, style), "hamsim"], "cmd": "hamsim",
                              "mode": "--return-angles", "bracket": bracket, "so": "Wx", "tol": 1e-5, "exp_args": [5, 0.05], "npseed": 3, "timeout": 300})
    impl = run_impl(cases, timeout=3000)
    lines, keep = [], []
    pairs = {}
    for c, r in zip(cases, impl):
        ctx.count(c, nontrivial=True, bucket="%s/%s/%s" % (c["cmd"] if c["cmd"] in TABLE else "unknown", c["mode"], "bracket" if c["bracket"] else "comma"))
        if "exc" in r:
            ctx.fail("cli", c, "harness-level failure %s: %s" % (r["exc"], r.get("msg", "")[:120]))
            continue
        ro = r["ok"]
        calls = ro["calls"]
        q = [x for x in calls if x["what"] == "qspp"]
        g = [x for x in calls if x["what"] == "gen"]
        if c["cmd"] not in TABLE:
            if ro["ret"] is not None or calls or not ro["unknown"] or not ro["usage"]:
                ctx.fail("cli", c, "unknown command %r: expected help text and no phases (returned %s, %d library calls, help printed: %s)" %
                         (c["cmd"], ro["ret"] is not None, len(calls), ro["unknown"] and ro["usage"]))
            continue
        if c["cmd"] == "poly2angles" and q:
            # what reached the phase finder must be the --poly list, whether or not the library could serve it
            # compared as polynomials (high-order zero padding may be dropped by a front end; low-order coefficients may not move)
            if _strip([fr(v) for v in q[0]["poly"]]) != _strip([fr(hexf(float(v))) for v in c["exp_args"]]):
                ctx.fail("cli", c, "the polynomial handed to the phase finder (%d coefficients) differs from the --poly coefficients (%d)" %
                         (len(q[0]["poly"]), len(c["exp_args"])))
                continue
        lib_raised = [x["raised"] for x in q if x.get("raised")]
        if lib_raised and ro["exc"] is None:
            if ro["ret"] is not None or ro["json"] is not None:
                ctx.fail("cli", c, "the phase finder raised %s for one of the command's polynomials, yet the command returned / printed phases" % lib_raised[0])
            else:
                ctx.bucket("library raised, command ended without phases")
            continue
        if ro["exc"] is not None:
            ctx.bucket("library raised through the command line: " + ro["exc"].split(":")[0])
            if ro["exc"].split(":")[0] not in ("CompletionError", "AngleFindingError"):
                ctx.fail("cli", c, "command raised %s" % ro["exc"])
            continue
        classes, _ = TABLE[c["cmd"]]
        if classes is None:
            classes = c.get("exp_classes") or (["PolySign"] if c["cmd"] == "poly" else ["FPSearch"])
        if [x["cls"] for x in g] != classes:
            ctx.fail("cli", c, "command %s used generators %s, expected %s" % (c["cmd"], [x["cls"] for x in g], classes))
            continue
        exp = [float(v) for v in c["exp_args"]]
        bad = False
        for x in g:
            got = [float.fromhex(v) if isinstance(v, str) else float(v) for v in x["args"]]
            if got != exp:
                ctx.fail("cli", c, "%s.generate received %s, the command line gave %s" % (x["cls"], got, exp))
                bad = True
        if bad:
            continue
        uses_q = c["cmd"] not in ("fpsearch", "angles")
        if uses_q:
            if len(q) != len(classes or [1]) and not (c["cmd"] == "poly2angles" and len(q) == 1):
                ctx.fail("cli", c, "%d phase-finder calls for %d polynomials" % (len(q), len(classes)))
                continue
            for k, x in enumerate(q):
                handed = x["poly"]
                src = g[k]["out"] if g else [hexf(float(v)) for v in c["exp_args"]]
                if (_strip([fr(v) for v in handed]) != _strip([fr(v) for v in src])) if not g else ([fr(v) for v in handed] != [fr(v) for v in src]):
                    ctx.fail("cli", c, "the polynomial handed to the phase finder differs from the %s" % ("generator's output" if g else "--poly coefficients"))
                    bad = True
                kw = x["kw"]
                if kw.get("signal_operator") != c["so"] or kw.get("method") != "laurent" or float.fromhex(kw.get("tolerance")) != c["tol"]:
                    ctx.fail("cli", c, "phase finder called with signal_operator=%s method=%s tolerance=%s; requested %s / laurent / %r" %
                             (kw.get("signal_operator"), kw.get("method"), kw.get("tolerance"), c["so"], c["tol"]))
                    bad = True
            if bad:
                continue
            lib = q[-1]["result"]
        else:
            lib = g[-1]["out"]
        got = ro["ret"] if c["mode"] == "--return-angles" else ro["json"]
        if got != lib:
            ctx.fail("cli", c, "%s: phases %s differ from the phases the library produced (%s...)" %
                     (c["mode"], "missing" if got is None else str(got)[:80], str(lib)[:60]))
            continue
        if "pair" in c:
            pairs.setdefault(c["pair"], []).append(q[-1]["poly"])
        if uses_q and all(isinstance(v, str) for v in q[-1]["poly"]):
            lines.append("(c01 %s %s %s %s %s)" % (Q.qlist(got), Q.qlist(q[-1]["poly"]), qs(fr(1e-4)), qs(fr(1 - 1e-4)), qs(fr(c["tol"]))))
            keep.append(c)
    for k, v in pairs.items():
        if len(v) >= 2 and any(x != v[0] for x in v):
            ctx.fail("cli", {"poly": k}, "the comma form and the bracketed form of --poly=%s hand different coefficients to the phase finder: %s" % (k, v))
    mod = run_model(lines)
    for c, m in zip(keep, mod):
        if isinstance(m, str):
            ctx.infra_fail("extracted checker failed: " + m)
        elif m[0] != "1":
            ctx.fail("cli", c, "the phases given by the command line do not reproduce the handed polynomial within --tolerance plus the eps/suc budget")
