"""C15 — ensure_bounded generators are bounded by their scale on all of [-1,1]."""
import math
from fractions import Fraction

from common import fr, qs, qcoq, hexf, run_impl, run_model, coq_eval
import qsp_common as Q
import gen_common as G
import supcert

LEVEL = "proof"
TECHNIQUE = ("Coq-verified sup-norm certificate check_sup / check_sup_mono: a cover of [0,4] by cells, the Chebyshev series evaluated at "
             "the cell centres through verified cos enclosures and the 3-term recurrence in interval arithmetic, Lipschitz constant "
             "sum_k k|c_k|; soundness theorems C15_certificate_sound_cheb / _mono give |p(x)| <= M for EVERY x in [-1,1] (T_k(cos t) = "
             "cos kt, |cos a - cos b| <= |a-b|, acos covers [-1,1]); monomial input goes through the exact poly2cheb model with its "
             "instance certificate; violations are certified too (check_exceeds: a verified lower bound above M at an explicit angle). "
             "Run on every ensure_bounded output of every generator over degrees, shapes, max_scale and both bases")
LEVEL_TEXT = ("Props/C15.v: 6 theorems (certificate soundness for Chebyshev and monomial input, violation witness, trigonometric form, "
              "Lipschitz bound, scale arithmetic). Per run each generated polynomial is either certified bounded by max_scale*(1+1e-3) "
              "on the whole interval or refuted with a certified witness; the untrusted harness only proposes the cells.")
LEVEL_NOTE = ("Trusted: Coq kernel, extraction, driver.ml, harness (cell proposal is untrusted: a bad cover is rejected by the checker), "
              "numpy/scipy as executors. Axioms: stdlib real-number axioms + Classical_Prop.classic (Reals, Ratan). A polynomial for "
              "which neither a cover nor a witness is found is counted as undecided and reported in the evidence, not as a violation.")
RULE = ("every generator with ensure_bounded=True: degrees 2..30 (quick: <= 20; monomial <= 20), shape parameters as C14, max_scale in "
        "{default, 0.3, 0.5, 1.0}, both bases; cosine / sine with bound 0.5(1+eps) (tau random and tau at which an in-range Bessel coefficient 2J_n(tau), n <= 0.6 tau, is below eps/10), 1/x with 0.5; distinct by JSON; non-trivial = always")
TRUSTED = ["Coq 8.16.1 kernel", "extraction (ExtrOcamlBasic, ExtrOcamlZBigInt) + driver.ml + zarith", "harness (cell proposal untrusted; impl_runner.py, impl_handlers5.py)",
           "numpy/scipy as executors of the implementation"]
ASSUME = ["returned doubles are exact dyadic rationals; bound M = max_scale*(1+1e-3) (relative 1e-3 of the statement)"]


def known_local_optimiser(case, k):
    return case.get("name") in G.ERF


PREDICATES = {"c15_erf_local_optimiser": known_local_optimiser}


def run(ctx):
    rng = ctx.rng
    quick = ctx.tier == "quick"
    cases = []
    if ctx.replay is not None and ctx.replay.get("case", {}).get("fn") == "gen":
        cases = [ctx.replay["case"]]
    else:
        for name in G.ERF + G.CHEBSUM:
            for rep in range(3 if quick else 14):
                cheb = rep % 2 == 0
                if name in G.ERF:
                    hi = (20 if quick else 30) if cheb else (14 if quick else 20)
                    a = dict(G.shape_args(rng, name), degree=G.right_parity_degree(rng, name, 2, hi))
                else:
                    a = G.shape_args(rng, name)
                    if name in ("cos", "sin"):
                        a["tau"] = rng.uniform(0.5, 12 if not cheb else 25)
                        a["epsilon"] = rng.choice([0.3, 0.1, 1e-2, 1e-4])
                c = {"fn": "gen", "name": name, "args": G.enc_args(a), "ensure_bounded": True, "return_scale": rng.random() < 0.5,
                     "chebyshev_basis": cheb, "timeout": 300}
                if name in G.ERF:
                    ms = rng.choice([None, None, 0.3, 0.5, 1.0])
                    if ms is not None:
                        c["max_scale"] = hexf(ms)
                    if cheb and a["degree"] >= 19:
                        c["cheb_samples"] = a["degree"] + 21
                cases.append(c)
        # cos / sin at tau where an in-range Bessel coefficient is tiny (the Jacobi-Anger terms are not monotone for n < tau)
        for name in ("cos", "sin"):
            for eps in (0.1, 0.3, 0.01, 0.05):
                for tau in G.taus_near_inrange_bessel_zero(rng, name == "sin", eps, (5 if eps == 0.1 else 3) if quick else 40):
                    cases.append({"fn": "gen", "name": name, "args": G.enc_args({"tau": tau, "epsilon": eps}), "ensure_bounded": True,
                                  "return_scale": False, "chebyshev_basis": True, "timeout": 300, "directed": "in-range Bessel zero"})
        # cos / sin over a dense sweep of small tau (the truncation order changes every few tenths; a dropped top term shows only here)
        for name in ("cos", "sin"):
            for k in range(2, 33, (2 if quick else 1)):
                tau = 0.25 * k
                for eps in ((0.1,) if quick and k % 4 else (0.1, 0.03)):
                    cases.append({"fn": "gen", "name": name, "args": G.enc_args({"tau": tau, "epsilon": eps}), "ensure_bounded": True,
                                  "return_scale": False, "chebyshev_basis": rng.random() < 0.5, "timeout": 300, "directed": "small tau sweep"})
        # long evolution times (the series has to run past order tau before the fixed 0.5 rescaling bounds it)
        for name in ("cos", "sin"):
            for tau, eps in (((64.0, 0.1), (70.0, 0.01), (90.0, 0.05)) if quick else ((60.0, 0.1), (64.0, 0.1), (70.0, 0.01), (90.0, 0.05), (120.0, 0.1), (150.0, 1e-3))):
                cases.append({"fn": "gen", "name": name, "args": G.enc_args({"tau": tau, "epsilon": eps}), "ensure_bounded": True,
                              "return_scale": False, "chebyshev_basis": True, "timeout": 300, "directed": "long time"})
        # the object-returning path (return_coef=False hands back the Chebyshev series itself) of cos / sin / 1/x
        for name, a in (("invert", {"kappa": 3, "epsilon": 0.3}), ("invert", {"kappa": 2, "epsilon": 0.1}), ("cos", {"tau": 7.0, "epsilon": 0.1}),
                        ("sin", {"tau": 5.0, "epsilon": 0.01})):
            for cheb in (True, False):
                cases.append({"fn": "gen", "name": name, "args": G.enc_args(a), "ensure_bounded": True, "return_scale": False,
                              "chebyshev_basis": cheb, "return_coef": False, "timeout": 300, "directed": "object return"})
        # 1/x over its whole (kappa, epsilon) table, Chebyshev basis (high-accuracy requests included)
        for kappa, eps in ((1.5, 0.3), (2, 0.1), (3, 0.3), (3, 0.01), (4, 1e-3), (5, 0.1), (8, 0.05), (3, 1e-3), (5, 1e-3), (4, 1e-4), (8, 1e-2),
                           (1.2, 0.3), (1.15, 0.2), (1.4, 0.6), (1.3, 0.3), (1.05, 0.1), (1.25, 0.05)):      # incl. b = int(kappa^2 log(kappa/eps)) = 1, 2, 3
            cases.append({"fn": "gen", "name": "invert", "args": G.enc_args({"kappa": kappa, "epsilon": eps}), "ensure_bounded": True,
                          "return_scale": False, "chebyshev_basis": True, "timeout": 300})
        # every erf-family generator at small max_scale (0.1, 0.3) and at the lowest degrees of its parity with steep shapes
        for name in G.ERF:
            par = 1 if name in G.ODD else 0
            for ms in (0.1, 0.3):
                a = dict(G.shape_args(rng, name), degree=G.right_parity_degree(rng, name, 2, 12))
                cases.append({"fn": "gen", "name": name, "args": G.enc_args(a), "ensure_bounded": True, "return_scale": rng.random() < 0.5,
                              "chebyshev_basis": rng.random() < 0.5, "max_scale": hexf(ms), "timeout": 300, "directed": "small max_scale"})
            for deg in ([par + 2] if quick else [par, par + 2]):
                if deg < 1:
                    continue
                a = dict(G.shape_args(rng, name), degree=deg)
                if "delta" in a and name in ("sign", "thresh", "phase_est"):
                    a["delta"] = rng.choice([3.0, 6.0, 12.0])
                for cheb in (True, False):
                    cases.append({"fn": "gen", "name": name, "args": G.enc_args(a), "ensure_bounded": True, "return_scale": False,
                                  "chebyshev_basis": cheb, "max_scale": hexf(0.9), "timeout": 300, "directed": "lowest degrees, steep"})
        # monomial (Taylor) mode near the top of its degree range with steep targets: the coefficients span many orders of magnitude and
        # cancel on [-1,1], so anything done to them after the normalisation (chopping, rounding) shows up as a large maximum
        for name, a in ((("sign", {"degree": 29, "delta": 8.0}), ("linamp", {"degree": 29, "gamma": 0.25, "kappa": 10}), ("sign", {"degree": 21, "delta": 16.0}),
                         ("thresh", {"degree": 28, "delta": 8.0})) if quick else
                        (("sign", {"degree": 29, "delta": 8.0}), ("sign", {"degree": 29, "delta": 16.0}), ("linamp", {"degree": 29, "gamma": 0.25, "kappa": 10}),
                         ("sign", {"degree": 21, "delta": 16.0}), ("sign", {"degree": 25, "delta": 12.0}), ("thresh", {"degree": 28, "delta": 8.0}),
                         ("gibbs", {"degree": 30, "beta": 4.0}), ("linamp", {"degree": 23, "gamma": 0.25, "kappa": 10}))):
            cases.append({"fn": "gen", "name": name, "args": G.enc_args(a), "ensure_bounded": True, "return_scale": False,
                          "chebyshev_basis": False, "max_scale": hexf(0.9), "timeout": 300, "directed": "monomial, high degree, steep"})
        # directed: tuples on which a local optimiser started at 0.1 can miss the largest lobe
        for name, a in (("sign", {"degree": 7, "delta": 10.0}), ("sign", {"degree": 17, "delta": 10.0}), ("phase_est", {"degree": 2, "delta": 0.5}),
                        ("thresh", {"degree": 18, "delta": 10.0}), ("efilter", {"degree": 6, "delta": 0.2})):
            for cheb in (True, False):
                cases.append({"fn": "gen", "name": name, "args": G.enc_args(a), "ensure_bounded": True, "return_scale": False,
                              "chebyshev_basis": cheb, "timeout": 300, "directed": True})
    impl = run_impl(cases, timeout=3000)
    lines, keep = [], []
    for c, r in zip(cases, impl):
        ctx.count(c, nontrivial=True, bucket="%s/%s" % (c["name"], "cheb" if c["chebyshev_basis"] else "mono"))
        site = "generator:" + c["name"]
        if "exc" in r:
            ctx.fail(site, c, "raised %s (%s)" % (r["exc"], r.get("msg", "")[:100]))
            continue
        cf = r["ok"]["coefs"]
        if any(isinstance(x, list) or "nan" in x or "inf" in x for x in cf):
            ctx.fail(site, c, "non-finite or complex coefficients")
            continue
        if c["name"] in ("cos", "sin"):
            bound = 0.5 * (1 + float.fromhex(c["args"]["epsilon"]) if isinstance(c["args"]["epsilon"], str) else 0.5 * (1 + c["args"]["epsilon"]))
            eps = float.fromhex(c["args"]["epsilon"]) if isinstance(c["args"]["epsilon"], str) else c["args"]["epsilon"]
            bound = 0.5 * (1 + eps)
        elif c["name"] == "invert":
            bound = 0.5
        else:
            bound = float.fromhex(c["max_scale"]) if "max_scale" in c else G.DEFAULT_MAX_SCALE[c["name"]]
        M = bound * (1 + 1e-3)
        if not c["chebyshev_basis"] and len(cf) > 25 and not (c["name"] in G.ERF and len(cf) <= 31):
            # (the erf family normalises the very monomial polynomial it returns, so its bound is meaningful up to the Taylor mode's top degree 30;
            #  cos / sin / 1/x are converted from a Chebyshev series and the rounded monomial coefficients denote another polynomial there)
            ctx.bucket("monomial output of degree > 24: outside the quantifier, skipped")
            continue
        if c.get("return_coef") is False:
            c = dict(c, chebyshev_basis=True)
        if c["chebyshev_basis"]:
            cc = [float.fromhex(x) for x in cf]
        else:
            cc = [float(x) for x in Q.mono2cheb([fr(x) for x in cf])]
        kind, data = supcert.make_cells(cc, M)
        if kind == "cover":
            lines.append("(sup %d %s %s %s)" % (0 if c["chebyshev_basis"] else 1, Q.qlist(cf), supcert.cells_sexp(data), qs(fr(M))))
            keep.append((c, "cover", len(data), M, cc))
        elif kind == "exceeds":
            if c["chebyshev_basis"]:
                lines.append("(exceeds %s %s %s)" % (Q.qlist(cf), qs(fr(data)), qs(fr(M))))
                keep.append((c, "exceeds", data, M, cc))
            else:
                lines.append("(p2cq %s)" % Q.qlist(cf))
                keep.append((c, "exceeds-mono", data, M, cc))
        else:
            ctx.bucket("undecided: " + data[:40])
    mod = run_model(lines, timeout=3000)
    second, keep2 = [], []
    for (c, kind, data, M, cc), m in zip(keep, mod):
        site = "generator:" + c["name"]
        if isinstance(m, str) and m.startswith("FAIL"):
            ctx.infra_fail("extracted sup checker failed: " + m)
            continue
        if kind == "cover":
            if m == "1":
                ctx.bucket("certified bounded (cells<%d)" % (10 ** len(str(data))))
                ctx.instance_obligations += 1
                ctx.instance_discharged += 1
            else:
                ctx.bucket("undecided: proposed cover rejected by the checker")
        elif kind == "exceeds":
            if m == "1":
                x = math.cos(data)
                ctx.fail(site, c, "max |p| on [-1,1] exceeds the bound: |p(%.6f)| = %.6f > %.6f (= scale bound * (1+1e-3)); certified by interval evaluation"
                         % (x, abs(supcert.f_eval(cc, data)), M))
            else:
                ctx.bucket("undecided: violation candidate not certified")
        else:
            second.append("(exceeds %s %s %s)" % ("(" + " ".join(m) + ")", qs(fr(data)), qs(fr(M))))
            keep2.append((c, data, M, cc))
    mod2 = run_model(second, timeout=3000)
    for (c, data, M, cc), m in zip(keep2, mod2):
        if m == "1":
            x = math.cos(data)
            ctx.fail("generator:" + c["name"], c, "max |p| on [-1,1] exceeds the bound: |p(%.6f)| = %.6f > %.6f (= scale bound * (1+1e-3)); certified by interval evaluation"
                     % (x, abs(supcert.f_eval(cc, data)), M))
        else:
            ctx.bucket("undecided: violation candidate not certified")
