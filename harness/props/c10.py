"""C10 — the response function equals the defined QSP matrix product in every model."""
import math
from fractions import Fraction

from common import fr, qs, qcoq, hexf, run_impl, run_model, coq_eval
import qsp_common as Q

LEVEL = "proof"
TECHNIQUE = ("Coq model of the response as the defining 2x2 matrix product, generic in the arithmetic (Model/ResponseM.v); theorems: "
             "the model at C is the definition, Wx/x = Wz/z and Wz/x = Wx/z (U_z = H U_x H), Wz/z = identity part of the algebra "
             "element at w, |response| <= 1 for all phase lists and all a in [-1,1], name dispatch (defaults, refusals); the model's "
             "complex-interval run (verified cos/sin/sqrt enclosures, logical-relation soundness theorem) is compared with "
             "ComputeQSPResponse on generated phase lists of length 1..200, a across [-1,1] incl. end points, all models and defaults")
LEVEL_TEXT = ("Props/C10.v: 9 theorems, universally quantified over phase lists, signal values and models. The implementation's "
              "floats are compared with the verified interval enclosure of the definition at every generated (phases, a, model) "
              "point; name dispatch is compared with resp_model evaluated in Coq.")
LEVEL_NOTE = ("Trusted: Coq kernel + vm_compute, extraction, driver.ml, harness, numpy as executor. Axioms: stdlib real-number axioms and "
              "Classical_Prop.classic for the theorems over R/C; the abstract-ring theorems are axiom-free. The comparison tolerance "
              "(n+1)*(1e-14 + 3e-16/sqrt(1-a^2)) accounts for the rounding of sqrt(1-a^2) in the implementation near a = +-1.")
RULE = ("phase lists of length 1..200 (quick: 1..12, 17, 33, 64, 100, 128, 129, 150, 200) from generic / special / tiny / large-magnitude "
        "families; a in {-1, 0, 1, +-(1-1e-12), +-(1-1e-6), random}; the four (signal_operator, measurement) models, the two "
        "defaults, and invalid names; distinct by canonical JSON; non-trivial = at least 2 phases and a valid model")
TRUSTED = ["Coq 8.16.1 kernel incl. vm_compute", "extraction (ExtrOcamlBasic, ExtrOcamlZBigInt) + driver.ml + zarith, cross-checked in Coq on a slice",
           "harness (impl_runner.py, impl_handlers2.py)", "numpy as executor of the implementation"]
ASSUME = ["phases and signal values are exact dyadic rationals (every double is)"]

SPECIAL = [0.0, math.pi / 4, -math.pi / 4, math.pi / 2, -math.pi / 2, math.pi, 1e-9, 3.0, -2.5, 100.0, -37.5]
NAMES = [("Wx", None), ("Wz", None), ("Wx", "x"), ("Wx", "z"), ("Wz", "x"), ("Wz", "z")]
BAD = [("Wy", None), ("wx", "x"), ("Wx", "y"), ("Wz", "X"), ("", None), ("Wx", ""), ("W", "z")]


def gen_phases(rng, n):
    kind = rng.choice(["generic", "generic", "special", "mixed", "tiny", "big"])
    if kind == "generic":
        return [rng.uniform(-math.pi, math.pi) for _ in range(n)]
    if kind == "special":
        return [rng.choice(SPECIAL) for _ in range(n)]
    if kind == "mixed":
        return [rng.choice(SPECIAL) if rng.random() < 0.4 else rng.uniform(-7, 7) for _ in range(n)]
    if kind == "tiny":
        return [rng.uniform(-1e-6, 1e-6) for _ in range(n)]
    return [rng.uniform(-50, 50) for _ in range(n)]


def gen_adat(rng):
    k = rng.random()
    if k < 0.25:       # a grid symmetric about 0 (linspace(-1, 1, m), as the plotting code uses)
        m = rng.choice([5, 6, 9, 12])
        return [-1.0 + 2.0 * i / (m - 1) for i in range(m)]
    if k < 0.5:        # repeated values: the same point several times, two grids sharing an end point, -0.0 next to 0.0
        a = rng.uniform(-1, 1)
        return [a, a, rng.uniform(-1, 1), a, 1.0, 0.5, 1.0, -0.0, 0.0] + [-1.0 + i / 4 for i in range(5)] + [i / 4 for i in range(5)]
    if k < 0.62:       # symmetric set of random points, unsorted
        ps = [rng.uniform(0, 1) for _ in range(4)]
        pts = [x for p in ps for x in (p, -p)]
        rng.shuffle(pts)
        return pts
    pts = [-1.0, 1.0, 0.0, 1 - 1e-12, -(1 - 1e-12), 1 - 1e-6, rng.uniform(-1, 1), rng.uniform(-1, 1), rng.uniform(-0.1, 0.1)]
    return pts


def coq_str(s):
    return "None" if s is None else '(Some "%s")' % s


def run(ctx):
    rng = ctx.rng
    quick = ctx.tier == "quick"
    # ---- name dispatch evaluated in Coq
    names = NAMES + BAD
    terms = []
    for so, m in names:
        t = 'resp_model "%s" %s' % (so, coq_str(m))
        terms.append("match %s with None => true | _ => false end" % t)
        terms.append("match %s with Some (wz, _) => wz | None => false end" % t)
        terms.append("match %s with Some (_, mx) => mx | None => false end" % t)
    header = ("From Coq Require Import ZArith QArith List String Bool. Import ListNotations. Open Scope string_scope.\n"
              "From PyqspV Require Import Model.ResponseM Model.Checkers.\n")
    res, err = coq_eval(header, terms, ctx.pid + "n")
    ctx.instance_obligations += len(terms)
    ctx.instance_discharged += sum(1 for x in res if x is not None)
    if any(x is None for x in res):
        ctx.infra_fail("resp_model could not be evaluated in Coq: " + err)
        return
    dispatch = {}
    for k, nm in enumerate(names):
        dispatch[nm] = None if res[3 * k] else (res[3 * k + 1], res[3 * k + 2])
    # ---- cases
    cases = []
    if ctx.replay is not None and ctx.replay.get("case", {}).get("fn") == "response":
        cases = [ctx.replay["case"]]
    else:
        lens = (list(range(1, 13)) + [17, 33, 64, 100, 128, 129, 150, 200]) if quick else list(range(1, 201))
        for n in lens:
            for rep in range(1 if quick else 2):
                ph = gen_phases(rng, n)
                ad = gen_adat(rng)
                for so, m in NAMES:
                    cases.append({"fn": "response", "phases": [hexf(x) for x in ph], "adat": [hexf(a) for a in ad],
                                  "signal_operator": so, "measurement": m, "timeout": 300})
        # exactly palindromic phase lists (symmetric protocols), odd and even length, the middle phase different from its neighbours
        for n_ in ((3, 4, 5, 8, 9) if quick else range(2, 21)):
            half = [rng.uniform(-2, 2) for _ in range((n_ + 1) // 2)]
            ph_ = half + half[::-1][n_ % 2:]
            for so_, m_ in NAMES:
                cases.append({"fn": "response", "phases": [hexf(x) for x in ph_], "adat": [hexf(a) for a in gen_adat(rng)], "signal_operator": so_,
                              "measurement": m_, "timeout": 120})
        # integer-typed phase lists (Python ints / int ndarray) with entries beyond +-pi
        for _k in range(4 if quick else 24):
            _ph = [float(rng.choice([-7, -5, -4, 4, 6, 9, 1, 0, -2, 3])) for _ in range(rng.randint(1, 6))]
            cases.append({"fn": "response", "phases": [hexf(x) for x in _ph], "adat": [hexf(a) for a in gen_adat(rng)], "signal_operator": rng.choice(["Wx", "Wz"]),
                          "measurement": rng.choice(["x", "z"]), "phis_as_int": "list" if _k % 2 else "array", "timeout": 120})
        for so, m in BAD:
            ph = gen_phases(rng, 3)
            cases.append({"fn": "response", "phases": [hexf(x) for x in ph], "adat": [hexf(0.3)],
                          "signal_operator": so, "measurement": m, "timeout": 60})
        # the identity part of the library's algebra element, evaluated by the library, against the Wz/z response
        ipcases = []
        for n in ([1, 2, 3, 4, 7, 12, 33] if quick else list(range(1, 41))):
            for kind in ("generic", "zero-first", "zero-last", "zero-both", "all-zero", "special"):
                ph = gen_phases(rng, n) if kind != "special" else [rng.choice(SPECIAL) for _ in range(n)]
                if kind in ("zero-first", "zero-both"):
                    ph[0] = 0.0
                if kind in ("zero-last", "zero-both"):
                    ph[-1] = 0.0
                if kind == "all-zero":
                    ph = [0.0] * n
                ipcases.append({"fn": "response_ipoly", "phases": [hexf(x) for x in ph], "adat": [hexf(a) for a in gen_adat(rng)], "kind": kind, "timeout": 120})
        for c, r in zip(ipcases, run_impl(ipcases, timeout=3000)):
            n = len(c["phases"])
            ctx.count(c, nontrivial=n >= 2, bucket="identity part via the library/%s" % c["kind"])
            if "exc" in r:
                ctx.fail("response", c, "unitary_from_angles / IPoly.eval / ComputeQSPResponse raised %s: %s" % (r["exc"], r.get("msg", "")[:80]))
                continue
            for a_hex, u, v in zip(c["adat"], r["ok"]["ipoly"], r["ok"]["pdat"]):
                a = float.fromhex(a_hex)
                zu = complex(float.fromhex(u[1]), float.fromhex(u[2]))
                zv = complex(float.fromhex(v[1]), float.fromhex(v[2]))
                if not (abs(zu - zv) <= (n + 1) * 1e-12):
                    ctx.fail("response", dict(c, adat=[a_hex]), "the identity part of unitary_from_angles(phis) evaluated by the library at w = e^{i arccos a}, a=%r, is %r "
                             "but the Wz/z response is %r" % (a, zu, zv))
                    break
    for c in (cases if ctx.replay is None else []):
        if c.get("fn") == "response" and rng.random() < 0.3:
            c["phis_as_list"] = True       # phases as a Python list
    impl = run_impl(cases, timeout=3000)
    lines, keep = [], []
    for c, r in zip(cases, impl):
        nm = (c["signal_operator"], c["measurement"])
        n = len(c["phases"])
        exp = dispatch.get(nm, "unknown")
        if exp == "unknown":
            continue
        ctx.count(c, nontrivial=(n >= 2 and exp is not None), bucket="%s/%s len<%d" % (nm[0], nm[1], 10 ** len(str(n))))
        if exp is None:
            if r.get("exc") != "ResponseError":
                ctx.fail("response", c, "unknown names %r: expected ResponseError, got %s" % (nm, r.get("exc", "a return value")))
            continue
        if "exc" in r:
            ctx.fail("response", c, "ComputeQSPResponse raised %s: %s" % (r["exc"], r.get("msg", "")))
            continue
        pd = r["ok"]["pdat"]
        if r["ok"].get("held_changed"):
            ctx.fail("response", c, "this call modified the 'pdat' array returned by an earlier call in the same process (results share storage)")
            continue
        if len(pd) != len(c["adat"]):
            ctx.fail("response", c, "pdat has %d entries for %d inputs" % (len(pd), len(c["adat"])))
            continue
        wz, mx = exp
        pts = " ".join("(%s %s %s)" % (qs(fr(a)), qs(fr(v[1])), qs(fr(v[2]))) for a, v in zip(c["adat"], pd))
        lines.append("(respdists %d %d %s (%s))" % (1 if wz else 0, 1 if mx else 0, Q.qlist(c["phases"]), pts))
        keep.append((c, pd, wz, mx))
    mod = run_model(lines)
    slice_terms = []
    for (c, pd, wz, mx), m in zip(keep, mod):
        if isinstance(m, str):
            ctx.infra_fail("extracted evaluator failed: " + str(m))
            continue
        n = len(c["phases"])
        for a_hex, v, d in zip(c["adat"], pd, m):
            a = float.fromhex(a_hex)
            if d == "ERR":
                ctx.infra_fail("evaluator returned no enclosure for a = %r" % a)
                continue
            dist = Q.scaled_to_float(d)
            s = math.sqrt(max(0.0, 1 - a * a))
            tol = (n + 1) * (1e-14 + (3e-16 / max(s, 1e-9) if abs(a) != 1 else 0.0))
            if not (dist <= tol):
                ctx.fail("response", dict(c, adat=[a_hex]), "response at a=%r is %r but the defining product <m|S W S ... W S|m> is at distance %.3e (> %.1e) from it"
                         % (a, complex(float.fromhex(v[1]), float.fromhex(v[2])), dist, tol))
                break
            if abs(complex(float.fromhex(v[1]), float.fromhex(v[2]))) > 1 + 1e-9:
                ctx.fail("response", dict(c, adat=[a_hex]), "|response| = %r > 1" % abs(complex(float.fromhex(v[1]), float.fromhex(v[2]))))
                break
        else:
            if n <= 3 and len(slice_terms) < (3 if quick else 10):
                a_hex, v = c["adat"][-1], pd[-1]
                slice_terms.append("check_resp_val %s %s %s [%s] %s %s (1 # 100000000000)" % (
                    "true" if wz else "false", "true" if mx else "false", qcoq(fr(a_hex)),
                    "; ".join(qcoq(fr(x)) for x in c["phases"]), qcoq(fr(v[1])), qcoq(fr(v[2]))))
    res, err = coq_eval(header, slice_terms, ctx.pid)
    ctx.instance_obligations += len(slice_terms)
    okn = sum(1 for x in res if x is True)
    ctx.instance_discharged += okn
    if okn != len(slice_terms):
        ctx.infra_fail("extraction cross-check: %d of %d response values accepted through the extracted evaluator are not accepted by vm_compute %s"
                       % (len(slice_terms) - okn, len(slice_terms), err))
