"""C11 — basis conversions (monomial, Chebyshev T/U, Laurent) are exact and consistent."""
import math
from fractions import Fraction

from common import fr, qs, qcoq, hexf, run_impl, run_model, coq_eval
import qsp_common as Q

LEVEL = "proof"
TECHNIQUE = ("Coq theorems over any commutative ring with 2 invertible: PolynomialToLaurentForm denotes p((w+1/w)/2); the tables defined "
             "by the recurrences satisfy T_n((w+1/w)/2) = (w^n+w^-n)/2 and (w-1/w)U_n = w^(n+1)-w^-(n+1); cheb2poly denotes the "
             "Chebyshev sum (both kinds, every length); poly2cheb (top-down elimination with the leading coefficients 2^(n-1) / 2^n) "
             "denotes its input and so inverts cheb2poly and is inverted by it, for every input (Theory/P2CT.v); Coq-verified instance certificates check_p2l (a list is the Laurent form of "
             "p), lp_same, check_p2c (poly2cheb output denotes p); executable exact models of poly2laurent (incl. parity refusal at "
             "1e-8 and numpy's trimming), cheb2poly, poly2cheb run against the implementation on generated real/complex vectors")
LEVEL_TEXT = ("Props/C11.v: 11 theorems (8 over any ring and every length, incl. the inverse laws of the Chebyshev helpers; 3 "
              "certificate-soundness theorems over Q/C). On every run the "
              "exact models are certified per instance against the proved PolynomialToLaurentForm / cheb2poly denotations, and the "
              "implementation's outputs are compared with the models: under a normwise rounding "
              "budget otherwise; refusal of mixed parity is compared with the model's decision.")
LEVEL_NOTE = ("Trusted: Coq kernel + vm_compute, extraction, driver.ml, harness, numpy/scipy as executors. The ring-level theorems are "
              "axiom-free; the certificate theorems over R/C use the stdlib real-number axioms + Classical_Prop.classic. The "
              "poly2cheb/cheb2poly inverse laws are theorems about the model for all inputs and are additionally certified per instance "
              "(check_p2c).")
RULE = ("real and complex vectors of degree 1..30 (0..30 for the Chebyshev helpers) of either parity (helpers: any), families int / dyadic / "
        "generic, interior zeros in ~30%, trailing zeros in ~10%; mixed-parity vectors with the minority part from 1e-6 to 1; distinct by "
        "JSON; non-trivial = degree >= 2")
TRUSTED = ["Coq 8.16.1 kernel incl. vm_compute", "extraction (ExtrOcamlBasic, ExtrOcamlZBigInt) + driver.ml + zarith, cross-checked in Coq on a slice",
           "harness (impl_runner.py, impl_handlers3.py, Fraction arithmetic)", "numpy/scipy as executors of the implementation"]
ASSUME = ["floats compared with the exact model under the budget 64*(n+1)*u*B with B the magnitude run of the same conversion"]
U = Fraction(1, 2 ** 53)


def gen_vec(rng, d, fam, parity=None):
    def one():
        if fam == "int":
            return float(rng.randint(-9, 9))
        if fam == "dyadic":
            return rng.randint(-1024, 1024) / 256.0
        return rng.uniform(-2, 2)
    v = [one() for _ in range(d + 1)]
    if v[-1] == 0:
        v[-1] = 1.0
    if parity is not None:
        for j in range(d + 1):
            if (j - parity) % 2:
                v[j] = 0.0
        if v[-1] == 0:
            v[-1] = 1.0 if (d - parity) % 2 == 0 else 0.0
    if rng.random() < 0.3:
        for _ in range(max(1, d // 4)):
            j = rng.randrange(d + 1)
            if j != d:
                v[j] = 0.0
    return v


def abs_tables(n, kindU):
    T = [[Fraction(1)], [Fraction(0), Fraction(2 if kindU else 1)]]
    for k in range(2, n + 1):
        a, b = T[k - 1], T[k - 2]
        c = [Fraction(0)] + [2 * x for x in a]
        for i, x in enumerate(b):
            c[i] -= x
        T.append(c)
    return T[:n + 1]


def c2p_mag(c, kindU):
    n = len(c) - 1
    T = abs_tables(max(n, 1), kindU)
    out = [Fraction(0)] * (n + 1)
    for k, ck in enumerate(c):
        for i, t in enumerate(T[k]):
            out[i] += abs(fr(ck)) * abs(t)
    return out


def p2c_mag(p, kindU):
    n = len(p) - 1
    T = abs_tables(max(n, 1), kindU)
    p = [abs(fr(x)) for x in p]
    c = [Fraction(0)] * (n + 1)
    for k in range(n, -1, -1):
        ck = p[k] / abs(T[k][k])
        c[k] = ck
        for i, t in enumerate(T[k]):
            if i != k:
                p[i] += ck * abs(t)
    return c


def cmp_lists(model, impl, mag, n, exact):
    """model: list of Fractions; impl: list of hex floats; returns message or None"""
    if len(model) != len(impl):
        return "length %d, exact conversion has %d entries" % (len(impl), len(model))
    for j, (m, i) in enumerate(zip(model, impl)):
        iv = fr(i)
        tol = 0 if exact else 64 * (n + 2) * U * (mag[j] if j < len(mag) else max(mag))
        if abs(iv - m) > tol:
            return "entry %d is %r, exact conversion gives %r (|diff| %.3e > budget %.3e)" % (j, float(iv), float(m), float(abs(iv - m)), float(tol))
    return None


def run(ctx):
    rng = ctx.rng
    quick = ctx.tier == "quick"
    cases = []
    if ctx.replay is not None and "case" in ctx.replay and ctx.replay["case"].get("fn") in ("p2l", "ptlf", "c2p", "p2c"):
        cases = [ctx.replay["case"]]
    else:
        degs = list(range(0, 31))
        for d in degs:
            for rep in range(2 if quick else 12):
                fam = rng.choice(["int", "int", "dyadic", "generic"])
                cplx = rng.random() < 0.35
                par = d % 2
                if d >= 1:
                    v = gen_vec(rng, d, fam, par)
                    vi = gen_vec(rng, d, fam, par) if cplx else None
                    for fn in ("p2l", "ptlf"):
                        c = {"fn": fn, "p": [hexf(x) for x in v], "fam": fam, "mode": "definite", "timeout": 120}
                        if cplx and fn == "p2l":
                            c["p"] = Q.cplx_hex(v, vi)
                            c["complex"] = True
                        cases.append(c)
                    if rng.random() < 0.5:
                        # mixed parity: minority part from 1e-6 .. 1
                        w = list(v)
                        j = rng.randrange(1 - par, d + 1, 2) if d >= 1 else 0
                        if j <= d:
                            w[j] = rng.choice([1e-6, 1e-4, 1e-2, 0.5, 1.0]) * rng.choice([-1, 1])
                            cases.append({"fn": "p2l", "p": [hexf(x) for x in w], "fam": fam, "mode": "mixed", "timeout": 120})
                    if rng.random() < 0.2 or (d <= 6 and rep == 0):
                        w = list(v) + [0.0] * rng.choice([1, 2, 3])
                        cases.append({"fn": "p2l", "p": [hexf(x) for x in w], "fam": fam, "mode": "trailing-zeros", "timeout": 120})
                        w = list(v) + [0.0] * rng.choice([1, 2, 3])
                        cases.append({"fn": "ptlf", "p": [hexf(x) for x in w], "fam": fam, "mode": "trailing-zeros", "timeout": 120})
                for kind in ("T", "U"):
                    v = gen_vec(rng, d, fam, None if rng.random() < 0.6 else par)
                    vi = gen_vec(rng, d, fam, None) if cplx else None
                    for fn in ("c2p", "p2c"):
                        c = {"fn": fn, "p": [hexf(x) for x in v], "kind": kind, "fam": fam, "mode": "helper", "timeout": 120}
                        if cplx:
                            c["p"] = Q.cplx_hex(v, vi)
                            c["complex"] = True
                        cases.append(c)
        for bad in ("V", "t", ""):
            cases.append({"fn": "c2p", "p": [hexf(1.0), hexf(2.0)], "kind": bad, "fam": "int", "mode": "badkind", "timeout": 60})
    for c in (cases if ctx.replay is None else []):      # input containers: ndarray (default), Python list, integer ndarray for integer-valued data
        if c.get("fn") in ("p2l", "ptlf") and not c.get("complex"):
            k = rng.random()
            if k < 0.25:
                c["as_list"] = True
            elif k < 0.45 and c.get("fam") == "int":
                c["as_int"] = True
    impl = run_impl(cases, timeout=3000)

    def parts(c):
        if c.get("complex"):
            return [[x[1] for x in c["p"]], [x[2] for x in c["p"]]]
        return [c["p"]]
    lines, owner = [], []
    for idx, c in enumerate(cases):
        for k, part in enumerate(parts(c)):
            if c["fn"] == "p2l":
                lines.append("(p2l %s)" % Q.qlist(part))
            elif c["fn"] == "ptlf":
                lines.append("(ptlf %s)" % Q.qlist(part))
            elif c["fn"] == "c2p":
                lines.append("(c2p %d %s)" % (1 if c["kind"] == "U" else 0, Q.qlist(part)))
            else:
                lines.append("(p2c %d %s)" % (1 if c["kind"] == "U" else 0, Q.qlist(part)))
            owner.append((idx, k))
    mod = run_model(lines)
    byc = {}
    for (idx, k), m in zip(owner, mod):
        byc.setdefault(idx, []).append(m)
    terms = []
    for idx, (c, r) in enumerate(zip(cases, impl)):
        ms = byc[idx]
        pv = [[fr(x) for x in part] for part in parts(c)]
        d = len(pv[0]) - 1
        exact = False      # integer data too under the rounding budget (the property asks for agreement to rounding error)
        ctx.count(c, nontrivial=d >= 2, bucket="%s/%s/%s%s" % (c["fn"], c.get("mode"), c["fam"], "/complex" if c.get("complex") else ""))
        if c.get("mode") == "badkind":
            if "exc" not in r:
                ctx.fail("helpers", c, "an invalid kind specifier was accepted")
            continue
        if any(isinstance(m, str) and m.startswith("FAIL") for m in ms):
            ctx.infra_fail("extracted model failed on a conversion: " + str(ms))
            continue
        if c["fn"] == "p2l":
            if c.get("complex"):
                # the implementation takes the parity decision on the complex Chebyshev vector as a whole
                refused = all(m == "ERR" for m in ms) if False else None
            mdec = [m == "ERR" for m in ms]
            if c["mode"] == "mixed":
                if not c.get("complex") and mdec[0]:
                    if r.get("exc") != "AngleFindingError":
                        ctx.fail("poly2laurent", c, "a polynomial with both parities (minority part above 1e-8) was not refused with AngleFindingError: %s"
                                 % (r.get("exc") or "returned a value"))
                continue
            if "exc" in r:
                ctx.fail("poly2laurent", c, "raised %s (%s) on a definite-parity polynomial" % (r["exc"], r.get("msg", "")[:100]))
                continue
            out = r["ok"]["l"]
            if any(m == "ERR" for m in ms):
                ctx.infra_fail("model refused a definite-parity polynomial")
                continue
            # certificate: the model's output is the Laurent form of p (exact, proved sound)
            if c["mode"] == "definite" and any(m[1] != "1" for m in ms):
                ctx.infra_fail("the exact model of poly2laurent failed its Laurent-form certificate on %s" % c["p"])
                continue
            for k, m in enumerate(ms):
                model = [Fraction(x) for x in m[0]]
                if c.get("complex"):
                    implk = [(x[1] if k == 0 else x[2]) if isinstance(x, list) else (x if k == 0 else hexf(0.0)) for x in out]
                else:
                    if any(isinstance(x, list) for x in out):
                        ctx.fail("poly2laurent", c, "returned complex coefficients for a real polynomial")
                        break
                    implk = out
                mag = [m_ / 2 for m_ in p2c_mag(pv[k], False)]
                # magnitudes in the order of the Laurent list: mirror the same-parity entries
                sel = mag[(len(pv[k]) - 1) % 2::2]
                lm = sel[::-1] + sel if (len(pv[k]) - 1) % 2 else sel[:0:-1] + [2 * sel[0]] + sel[1:]
                msg = cmp_lists(model, implk, lm if len(lm) == len(model) else [max(mag)] * len(model), d, exact)
                if msg:
                    ctx.fail("poly2laurent", c, "poly2laurent: " + msg)
                    break
            else:
                if c["fam"] == "int" and not c.get("complex") and d <= 4 and len(terms) < (4 if quick else 12):
                    terms.append("check_p2l [%s] [%s]" % ("; ".join(qcoq(x) for x in pv[0]), "; ".join(qcoq(fr(x)) for x in out)))
            continue
        if c["fn"] == "ptlf":
            if "exc" in r:
                ctx.fail("PolynomialToLaurentForm", c, "raised %s (%s)" % (r["exc"], r.get("msg", "")[:100]))
                continue
            m = ms[0]
            if m == "ERR":
                ctx.infra_fail("ptlf model returned no value")
                continue
            ro = r["ok"]
            dm = {int(m[0]) + 2 * j: Fraction(x) for j, x in enumerate(m[2])}
            di = {} if ro["isz"] else {ro["dmin"] + 2 * j: fr(x) for j, x in enumerate(ro["coefs"])}
            mag = sum(abs(x) for x in pv[0])
            for k in set(dm) | set(di):
                tol = 0 if exact else 64 * (d + 2) * (d + 2) * U * mag
                if abs(dm.get(k, 0) - di.get(k, 0)) > tol:
                    ctx.fail("PolynomialToLaurentForm", c, "coefficient of w^%d is %r, p((w+1/w)/2) has %r" % (k, float(di.get(k, 0)), float(dm.get(k, 0))))
                    break
            continue
        # helpers
        if "exc" in r:
            ctx.fail("helpers", c, "%s raised %s (%s)" % (c["fn"], r["exc"], r.get("msg", "")[:100]))
            continue
        out = r["ok"]["out"]
        kindU = c["kind"] == "U"
        for k, m in enumerate(ms):
            if c["fn"] == "p2c":
                if m[1] != "1":
                    ctx.infra_fail("the exact poly2cheb model failed its inverse certificate on %s" % c["p"])
                    break
                model = [Fraction(x) for x in m[0]]
                mag = p2c_mag(pv[k], kindU)
            else:
                model = [Fraction(x) for x in m]
                mag = c2p_mag(pv[k], kindU)
            if c.get("complex"):
                implk = [(x[1] if k == 0 else x[2]) if isinstance(x, list) else (x if k == 0 else hexf(0.0)) for x in out]
            else:
                implk = out
                if any(isinstance(x, list) for x in out):
                    ctx.fail("helpers", c, "%s returned complex values for real input" % c["fn"])
                    break
            # scipy's chebyt/chebyu tables are floats built from roots (never exact, tiny non-zeros at the
            # opposite-parity positions): normwise budget
            # (scipy builds the tables from roots: their relative error grows with the degree, hence (n+2)^2)
            msg = cmp_lists(model, implk, [max(mag) * (d + 2)] * len(model), d, False)
            if msg:
                ctx.fail("helpers", c, "%s kind=%s: %s" % ("cheb2poly" if c["fn"] == "c2p" else "poly2cheb", c["kind"], msg))
                break
    header = ("From Coq Require Import ZArith QArith List. Import ListNotations.\n"
              "From PyqspV Require Import Model.Checkers.\n")
    res, err = coq_eval(header, terms, ctx.pid)
    ctx.instance_obligations += len(terms)
    okn = sum(1 for x in res if x is True)
    ctx.instance_discharged += okn
    if okn != len(terms):
        ctx.infra_fail("Laurent-form certificates of implementation outputs rejected by vm_compute (%d of %d) %s" % (len(terms) - okn, len(terms), err))
