"""C06 — decomposition inverts the phases-to-unitary map (halving round trip)."""
import math
from fractions import Fraction

from common import fr, qs, qcoq, hexf, run_impl, run_model, coq_eval
import qsp_common as Q

LEVEL = "proof"
TECHNIQUE = ("Coq theorems over any commutative ring (junction merge = matrix product for all lengths, R(x)R(y)=R(x+y), sign gauge: "
             "an even number of pi shifts leaves the sequence unitary unchanged, element of a phase list = sequence unitary) + "
             "Coq-verified round-trip checker check_roundtrip (interval evaluation of both elements from verified cos/sin "
             "enclosures; coefficient-wise distance; gauge test on enclosures of sin/cos of the phase differences) run on "
             "angseq(unitary_from_angles(phi)) for every n = 1..32 and every pattern family")
LEVEL_TEXT = ("Props/C06.v: 6 universally quantified theorems (certificate soundness for all phase lists; merge, gauge and "
              "denotation theorems for all lengths). The implementation's round trip is put through the extracted checker for "
              "every n in 1..32 on each run; a slice is re-checked by vm_compute in Coq.")
LEVEL_NOTE = ("Trusted: Coq kernel + vm_compute, extraction, driver.ml, harness, numpy as executor. Axioms: stdlib real-number axioms "
              "and Classical_Prop.classic (Reals/Coquelicot) for the certificate; the algebra theorems are axiom-free. That the "
              "least-squares splits succeed in floating point is observed on the generated family, not proved.")
RULE = ("phase vectors of length n+1 for every n = 1..32: end phases from {0, +-pi/2, pi, generic}; interior phases +-m + k pi with "
        "m in [0.05, 0.4] in the patterns all-equal, alternating, extreme (m = 0.05 / 0.4), random signs, random; distinct by "
        "canonical JSON; non-trivial = n >= 2")
TRUSTED = ["Coq 8.16.1 kernel incl. vm_compute", "extraction (ExtrOcamlBasic, ExtrOcamlZBigInt) + driver.ml + zarith, cross-checked in Coq on a slice",
           "harness (impl_runner.py, impl_handlers2.py)", "numpy/scipy as executors of the implementation"]
ASSUME = ["phases are taken as exact dyadic rationals; 'same element within 1e-8' is coefficient-wise on both parts; "
          "'sign gauge' = every difference has |sin| <= 1e-6 and an even number of them has negative cosine"]

ENDS = [0.0, math.pi / 2, -math.pi / 2, math.pi]


def gen_phases(rng, n, pattern):
    def end():
        return rng.choice(ENDS) if rng.random() < 0.6 else rng.uniform(-math.pi, math.pi)
    k = n - 1
    if pattern == "equal":
        m = rng.uniform(0.05, 0.4) * rng.choice([-1, 1])
        inner = [m] * k
    elif pattern == "alternating":
        m = rng.uniform(0.05, 0.4)
        inner = [m if i % 2 else -m for i in range(k)]
    elif pattern == "extreme":
        inner = [rng.choice([0.05, 0.4, -0.05, -0.4]) * (1 + 1e-9 * (1 if abs(0.05) else 0)) for _ in range(k)]
        inner = [math.copysign(min(max(abs(x), 0.0500001), 0.3999999), x) for x in inner]
    elif pattern == "equal-extreme":
        m = rng.choice([0.3999999, -0.3999999, 0.0500001, -0.0500001])
        inner = [m] * k
    elif pattern == "alternating-extreme":
        m = rng.choice([0.3999999, 0.0500001])
        inner = [m if i % 2 else -m for i in range(k)]
    elif pattern == "signs":
        m = rng.uniform(0.05, 0.4)
        inner = [m * rng.choice([-1, 1]) for _ in range(k)]
    else:
        inner = [rng.uniform(0.05, 0.4) * rng.choice([-1, 1]) for _ in range(k)]
    if rng.random() < 0.3:
        inner = [x + math.pi * rng.choice([-1, 0, 1]) for x in inner]
        # keep the distance to the nearest multiple of pi inside [0.05, 0.4] after rounding
    return [end()] + inner + [end()]


def run(ctx):
    rng = ctx.rng
    quick = ctx.tier == "quick"
    cases = []
    if ctx.replay is not None and "phases" in ctx.replay.get("case", {}):
        cases = [ctx.replay["case"]]
    else:
        reps = 1 if quick else 8
        for n in range(1, 33):
            for pat in ("equal", "alternating", "extreme", "signs", "random") + (("equal-extreme", "alternating-extreme") if n >= 24 or not quick else ()):
                for _ in range(reps):
                    ph = gen_phases(rng, n, pat)
                    cases.append({"fn": "roundtrip", "phases": [hexf(x) for x in ph], "pattern": pat, "timeout": 300})
    if ctx.replay is None:
        # end phases NEAR (not at) a multiple of pi/2: a leaf that tidies "almost trivial" angles moves them by up to 1e-6, far above 1e-8
        for n in ((1, 2, 4, 7, 10, 16) if quick else range(1, 33)):
            for _ in range(2):
                inner = [rng.uniform(0.05, 0.4) * rng.choice([-1, 1]) for _ in range(n - 1)]
                e0 = rng.choice([0.0, math.pi / 2, -math.pi / 2, math.pi, -math.pi]) + rng.choice([4e-7, -3e-7, 1e-7, -6e-8, 8e-7])
                e1 = rng.choice([0.0, math.pi / 2, -math.pi / 2, rng.uniform(-3, 3)]) + rng.choice([5e-7, -2e-7, 0.0, 9e-8])
                cases.append({"fn": "roundtrip", "phases": [hexf(x) for x in [e0] + inner + [e1]], "pattern": "near-special-ends", "timeout": 300})
        # integer-typed phase vectors (Python ints / int ndarray) with entries beyond +-pi
        for n in ((2, 4, 7) if quick else range(1, 13)):
            for cont in ("list", "array"):
                ph = [float(rng.choice([-7, -5, -4, 4, 6, 9, 16, 25, 1, 0, -2])) for _ in range(n + 1)]
                cases.append({"fn": "roundtrip", "phases": [hexf(x) for x in ph], "pattern": "int-typed", "as_int": cont, "timeout": 300})
    impl = run_impl(cases, timeout=3000)
    lines, keep = [], []
    for c, r in zip(cases, impl):
        n = len(c["phases"]) - 1
        ctx.count(c, nontrivial=n >= 2, bucket="n=%02d-%02d/%s" % (8 * (n // 8), 8 * (n // 8) + 7, c.get("pattern")))
        if "exc" in r:
            ctx.fail("roundtrip", c, "angseq(unitary_from_angles(phi)) raised %s: %s" % (r["exc"], r.get("msg", "")))
            continue
        out = r["ok"]["phis"]
        if r["ok"]["len"] != n + 1:
            ctx.fail("roundtrip", c, "returned %d phases for n = %d" % (r["ok"]["len"], n))
            continue
        if any(("nan" in x or "inf" in x) for x in out):
            ctx.fail("roundtrip", c, "returned non-finite phases")
            continue
        lines.append("(roundtrip %s %s 1/100000000 1/1000000)" % (Q.qlist(c["phases"]), Q.qlist(out)))
        keep.append((c, out))
    mod = run_model(lines)
    terms = []
    for (c, out), m in zip(keep, mod):
        if m not in ("0", "1"):
            ctx.infra_fail("extracted checker failed on a round trip: " + str(m))
            continue
        if m == "0":
            a = [float.fromhex(x) for x in c["phases"]]
            b = [float.fromhex(x) for x in out]
            dev = max(abs(math.sin(y - x)) for x, y in zip(a, b))
            ctx.fail("roundtrip", c, "decomposed phases do not rebuild the element within 1e-8 / are not gauge-equivalent "
                     "(max |sin(phi'_j - phi_j)| = %.3e); returned %s" % (dev, [round(x, 6) for x in b][:8]))
        elif len(c["phases"]) <= 4 and len(terms) < (3 if quick else 12):
            terms.append("check_roundtrip [%s] [%s] (1 # 100000000) (1 # 1000000)" % (
                "; ".join(qcoq(fr(x)) for x in c["phases"]), "; ".join(qcoq(fr(x)) for x in out)))
    header = ("From Coq Require Import ZArith QArith List. Import ListNotations.\n"
              "From PyqspV Require Import Model.Checkers.\n")
    res, err = coq_eval(header, terms, ctx.pid)
    ctx.instance_obligations += len(terms)
    okn = sum(1 for x in res if x is True)
    ctx.instance_discharged += okn
    if okn != len(terms):
        ctx.infra_fail("extraction cross-check: %d of %d round-trip certificates accepted by the extracted checker are not accepted by vm_compute %s"
                       % (len(terms) - okn, len(terms), err))
    ctx.residual.append("success of the floating-point least-squares splits on the stated family is observed, not proved")
