"""C08 — Low-algebra elements behave as the SU(2)-valued Laurent polynomials they denote."""
import math
from fractions import Fraction

from common import fr, qs, hexf, run_impl, run_model, coq_eval
import exprs
from exprs import U

LEVEL = "proof"
TECHNIQUE = ("Coq theorems: the LAlg model is a matrix-valued homomorphism over any commutative ring with a unit w and "
             "i*i=-1 (product, sum, negation, conjugation, mixed products, rotation, iX, phase lists of any length, "
             "determinant 1); extracted-model / implementation correspondence on random element histories and phase lists")
LEVEL_TEXT = ("Props/C08.v: 14 universally quantified theorems about the executable LAlg model (all lengths, lowest powers, "
              "zero components, phase lists of every length). The model is tied to /repo by coefficient-for-coefficient "
              "comparison on generated histories and phase lists of length 1..60 on every run.")
LEVEL_NOTE = ("Trusted: Coq kernel + vm_compute, extraction directives, driver.ml, Python harness, numpy as executor. No axioms "
              "(Print Assumptions: closed under the global context). Hand-written model; agreement with the code is checked on "
              "generated inputs, not proved. numpy.cos/sin values of the phases are taken as the rotation entries here; the "
              "independent enclosure of cos/sin is used by C10/C01.")
RULE = ("random LAlg histories (depth 0..3; elements with arbitrary lowest powers, lengths 1..12, a zero component in ~30%; "
        "7% malformed parity mixes), phase lists of length 1..60 (special and generic phases), rotation/angle and degree-1 "
        "left/right read-outs; non-trivial = at least two operations or two phases")
TRUSTED = ["Coq 8.16.1 kernel incl. vm_compute", "extraction (ExtrOcamlBasic, ExtrOcamlZBigInt) + driver.ml + zarith, cross-checked in Coq on a slice",
           "harness (impl_runner.py, Fraction arithmetic)", "numpy as executor of the implementation; numpy.cos/sin of the phases"]
ASSUME = ["floats compared with the exact model under the normwise budget 64*m*u*B; integer-valued histories under the same (tiny) budget; "
          "phase products under 64*n^2*u (all intermediate elements are unitary)"]

SPECIAL = [0.0, math.pi / 4, -math.pi / 4, math.pi / 2, -math.pi / 2, math.pi, 1e-9, 3.0, -2.5]


def gen_phases(rng, n):
    kind = rng.choice(["generic", "special", "mixed", "equal", "alternating", "tiny"])
    if kind == "generic":
        return [rng.uniform(-math.pi, math.pi) for _ in range(n)]
    if kind == "special":
        return [rng.choice(SPECIAL) for _ in range(n)]
    if kind == "mixed":
        return [rng.choice(SPECIAL) if rng.random() < 0.4 else rng.uniform(-7, 7) for _ in range(n)]
    if kind == "equal":
        t = rng.uniform(-2, 2)
        return [t] * n
    if kind == "alternating":
        t = rng.uniform(-2, 2)
        return [t if i % 2 else -t for i in range(n)]
    return [rng.uniform(-1e-6, 1e-6) for _ in range(n)]


def gdenot(m):
    return exprs.denot_model(m[0]), exprs.denot_model(m[1])


def run(ctx):
    rng = ctx.rng
    quick = ctx.tier == "quick"
    # ------------------------------------------------------------------ histories
    cases = []
    n = 500 if quick else 8000
    for i in range(n):
        fam = rng.choice(["int", "int", "dyadic", "generic", "mixed", "mixed"])
        par = rng.randint(0, 1)
        depth = rng.choice([0, 1, 1, 2, 2, 3])
        bad = 0.0 if rng.random() < 0.93 else 0.5
        e = exprs.gen_gexpr(rng, fam, par, depth, 10 if depth else 12, bad)
        cases.append({"e": e, "fam": fam, "malformed": bad > 0})
    # directed: products of two long elements, over length pairs incl. sums of lengths next to powers of two
    pairs = [(9, 9), (17, 17), (16, 18), (33, 33), (32, 34), (31, 35), (12, 21)] if quick else \
        [(a, b) for a in range(6, 24, 2) for b in range(6, 24, 3)] + [(33, 33), (32, 34), (31, 35), (40, 26), (64, 2), (65, 65), (33, 34)]
    for (la, lb) in pairs:
        fam = rng.choice(["int", "generic"])
        da, db = 2 * rng.randint(-9, 3) + 1, 2 * rng.randint(-9, 3)
        ga = ["glit", ["lit", da, exprs.gen_vec(rng, fam, la, zeros=False)], ["lit", da, exprs.gen_vec(rng, fam, la, zeros=False)]]
        gb = ["glit", ["lit", db, exprs.gen_vec(rng, fam, lb, zeros=False)], ["lit", db, exprs.gen_vec(rng, fam, lb, zeros=False)]]
        cases.append({"e": ["gmul", ga, gb], "fam": fam, "malformed": False})
    # directed: mixed products element * polynomial and polynomial * element with a window symmetric about w^0 that is not a palindrome
    for k in range(4 if quick else 30):
        fam = rng.choice(["int", "generic"])
        n = rng.choice([2, 3, 4])
        v = exprs.gen_vec(rng, fam, n, zeros=False)
        if v == v[::-1]:
            v[0] = v[0] + 1
        sym = ["lit", -(n - 1), v]
        par = (n - 1) % 2
        g = exprs.gen_glit(rng, fam, rng.randint(0, 1), 4)
        if not g[2][2]:
            g[2] = ["lit", g[1][1], exprs.gen_vec(rng, fam, 2, zeros=False)]
        cases.append({"e": ["gmulp", g, sym], "fam": fam, "malformed": False})
        cases.append({"e": ["pmulg", sym, g], "fam": fam, "malformed": False})
    if ctx.replay is not None and ctx.replay.get("site") == "history":
        cases = [ctx.replay["case"]]
    impl = run_impl([{"fn": "gexpr", "e": exprs.g_json(c["e"]), "unitarity": True} for c in cases])
    lines = []
    for c in cases:
        lines.append("(geval %s)" % exprs.g_sexp(c["e"]))
        lines.append("(ginfo %s)" % exprs.g_sexp(c["e"]))
    mod = run_model(lines)
    for idx, c in enumerate(cases):
        m, minfo = mod[2 * idx], mod[2 * idx + 1]
        r = impl[idx]
        nop = exprs.nops(c["e"])
        ctx.count(c["e"], nontrivial=nop >= 2, bucket="history/%s/ops=%d%s" % (c["fam"], min(nop, 9), "/malformed" if c["malformed"] else ""))
        if isinstance(m, str) and m.startswith("FAIL"):
            ctx.infra_fail("extracted model failed on a C08 history: " + m)
            continue
        if m == "ERR":
            ctx.bucket("model:error")
            continue
        if "exc" in r:
            ctx.fail("history", c, f"implementation raised {r['exc']}: {r.get('msg','')} where the exact algebra gives a value")
            continue
        ro = r["ok"]
        (mi, mx) = gdenot(m)
        ai, ax = [exprs.fmag(d) for d in exprs.mag_g(c["e"])]
        bound = max([abs(v) for v in list(ai.values()) + list(ax.values())] or [0])
        exact = False      # integer-valued histories too are compared under the rounding budget (a harmless rewrite, e.g. an FFT product, is off by ulps)
        for part, dm, da in (("I", mi, ai), ("X", mx, ax)):
            msg = exprs.compare_denot(dm, exprs.denot_impl(ro[part]), da, nop + 2, exact)
            if msg:
                ctx.fail("history", c, f"{part} part: " + msg)
                break
        else:
            if minfo != "ERR" and not isinstance(minfo, str):
                # degree of the stored ranges, norm
                n2 = Fraction(minfo[1])
                ni = fr(ro["norm"])
                if abs(ni * ni - n2) > Fraction(1, 10 ** 9) * max(n2, Fraction(1, 10 ** 300)) + 64 * (nop + 2) * U * sum(v * v for v in list(ai.values()) + list(ax.values())):
                    ctx.fail("history", c, f"norm**2 = {float(ni*ni)!r} but the exact value is {float(n2)!r}")
                elif "unitarity" in ro and len(minfo) > 2 and minfo[2] != "ERR":
                    # unitarity = || 1 - (g ~g).I ||, also for elements whose two parts are stored with different numbers of coefficients
                    u2 = Fraction(minfo[2])
                    ui = fr(ro["unitarity"])
                    S = 1 + sum(v * v for v in list(ai.values()) + list(ax.values()))
                    if abs(ui * ui - u2) > Fraction(1, 10 ** 9) * u2 + 256 * (nop + 4) * U * S * S:
                        ctx.fail("history", c, f"unitarity**2 = {float(ui*ui)!r} but the exact value of ||1 - pnorm||^2 is {float(u2)!r}")
    # in-Coq slice
    sl = [i for i, c in enumerate(cases) if exprs.nops(c["e"]) <= 6][: (25 if quick else 100)]
    terms = []
    for i in sl:
        m = mod[2 * i]
        if isinstance(m, str):
            exp = "None"
        else:
            def lp(x):
                return "(LP (%s)%%Z [%s] %s)" % (x[0], "; ".join(exprs.qcoq(Fraction(v)) for v in x[2]), "true" if x[1] == "1" else "false")
            exp = "Some (LA %s %s)" % (lp(m[0]), lp(m[1]))
        terms.append("lalg_eqb (geval OpsQ %s) (%s)" % (exprs.g_coq(cases[i]["e"]), exp))
    header = ("From Coq Require Import ZArith QArith List. Import ListNotations.\n"
              "From PyqspV Require Import Base.Ops Model.LPolyM Model.LAlgM Model.QInst Model.ExprM Model.Cmp.\n")
    res, err = coq_eval(header, terms, ctx.pid)
    ctx.instance_obligations += len(terms)
    ok = sum(1 for x in res if x is True)
    ctx.instance_discharged += ok
    if ok != len(terms):
        ctx.infra_fail("extraction cross-check: %d of %d histories re-evaluated by vm_compute disagree with the extracted binary %s" % (len(terms) - ok, len(terms), err))

    # ------------------------------------------------------------------ phase lists
    pl = []
    lens = list(range(1, 61))       # every length at both tiers (a blocked / recursive builder fails at isolated lengths)
    reps = 1 if quick else 6
    for n in lens:
        for _ in range(reps):
            pl.append(gen_phases(rng, n))
    if ctx.replay is not None and ctx.replay.get("site") == "phases":
        pl = [[float.fromhex(x) for x in ctx.replay["case"]["phases"]]]
    int_pl = [[float(rng.choice([-9, -6, -4, 4, 5, 7, 19, 1, 0, 2])) for _ in range(n)] for n in ((1, 2, 3, 5, 8) if quick else range(1, 21))]
    n_float = len(pl)
    pl = pl + (int_pl if ctx.replay is None else [])
    impl = run_impl([dict({"fn": "from_angles", "phases": [hexf(x) for x in ph]}, **({"as_int": ("list" if k % 2 else "array")} if k >= n_float else {}))
                     for k, ph in enumerate(pl)])
    lines, keep = [], []
    for ph, r in zip(pl, impl):
        case = {"phases": [hexf(x) for x in ph]}
        ctx.count(case, nontrivial=len(ph) >= 2, bucket="phases/len=%d" % (10 * (len(ph) // 10)))
        if "exc" in r:
            ctx.fail("phases", case, f"unitary_from_angles raised {r['exc']}: {r.get('msg','')}")
            continue
        cs = r["ok"]["cs"]
        lines.append("(geval (gangles (%s)))" % " ".join("(%s %s)" % (qs(fr(c)), qs(fr(s))) for c, s in cs))
        keep.append((case, r["ok"], len(ph)))
    mod = run_model(lines)
    for (case, ro, n), m in zip(keep, mod):
        if isinstance(m, str):
            ctx.infra_fail("extracted model failed on a phase list: " + str(m))
            continue
        mi, mx = gdenot(m)
        tol = 64 * n * n * U
        for part, dm in (("I", mi), ("X", mx)):
            di = exprs.denot_impl(ro[part])
            bad = [(k, dm.get(k, 0), di.get(k, 0)) for k in set(dm) | set(di) if abs(dm.get(k, 0) - di.get(k, 0)) > tol]
            if bad:
                k, a, b = bad[0]
                ctx.fail("phases", case, f"{part} coefficient of w^{k}: exact product {float(a)!r}, unitary_from_angles {float(b)!r}")
                break
        else:
            un = fr(ro["unitarity"])
            if un > Fraction(1, 10 ** 9):
                ctx.fail("phases", case, f"unitarity of a phase product = {float(un)!r}")
            cj = ro.get("conj")
            if cj is not None:
                pass

    # ------------------------------------------------------------------ read-outs
    # ---- operand reuse: straight-line programs over shared algebra elements; results as in the model, operands left unmodified
    progs = []
    for k in range(10 if quick else 120):
        fam = rng.choice(["generic", "dyadic", "int"])
        par = rng.randint(0, 1)
        n = rng.randint(2, 5)
        dmin = 2 * rng.randint(-3, 1) + par
        lits = []
        for el in range(3):
            nn = n if el < 2 else rng.randint(1, 3)
            dm = dmin if el < 2 else 2 * rng.randint(-2, 1) + rng.randint(0, 1)
            lits.append([dm, exprs.gen_vec(rng, fam, nn, zeros=False)])
            lits.append([dm, exprs.gen_vec(rng, fam, nn, zeros=False)])
        ops = [["add", 0, 1], ["add", 0, 1], ["mul", 0, 2], ["sub", 0, 1], ["add", 6, 1], ["add", 1, 0], ["mul", 3, 0], ["add", 0, 3], ["mul", 2, 0]]
        progs.append({"lits": lits, "ops": ops, "fam": fam})
    if ctx.replay is not None:
        progs = [ctx.replay["case"]] if ctx.replay.get("site") == "reuse" else []
    pres = run_impl([{"fn": "preuse", "alg": True, "lits": [[l[0], [exprs.jnum(x) for x in l[1]]] for l in p_["lits"]], "ops": p_["ops"]} for p_ in progs])
    plines, pkeep = [], []
    for p_, r in zip(progs, pres):
        ctx.count(["reuse", p_["lits"]], nontrivial=True, bucket="operand reuse")
        if "exc" in r:
            ctx.fail("reuse", p_, "a straight-line program over shared elements raised %s: %s" % (r["exc"], r.get("msg", "")[:80]))
            continue
        L = p_["lits"]
        trees = [["glit", ["lit", L[2 * k][0], L[2 * k][1]], ["lit", L[2 * k + 1][0], L[2 * k + 1][1]]] for k in range(len(L) // 2)]
        nel = len(trees)
        for op, i, j in p_["ops"]:
            trees.append(["g" + op, trees[i], trees[j]])
        bad = False
        for k, after in enumerate(r["ok"]["lits_after"]):
            for part, l in (("I", L[2 * k]), ("X", L[2 * k + 1])):
                if [fr(x) for x in after[part]["coefs"]] != [fr(x) for x in l[1]] or after[part]["dmin"] != l[0]:
                    ctx.fail("reuse", p_, "operand %d (%s part) was modified by an operation that used it: coefficients %s became %s"
                             % (k, part, [float(fr(x)) for x in l[1]][:6], [float(fr(x)) for x in after[part]["coefs"]][:6]))
                    bad = True
                    break
            if bad:
                break
        if bad:
            continue
        for t, res in zip(trees[nel:], r["ok"]["results"]):
            plines.append("(geval %s)" % exprs.g_sexp(t))
            pkeep.append((p_, t, res))
    pmod = run_model(plines)
    for (p_, t, res), m in zip(pkeep, pmod):
        if isinstance(m, str):
            if m != "ERR":
                ctx.infra_fail("extracted model failed on a reuse program: " + m[:80])
            continue
        mi, mx = gdenot(m)
        ai, ax = [exprs.fmag(dd) for dd in exprs.mag_g(t)]
        for part, dm, da in (("I", mi, ai), ("X", mx, ax)):
            msg = exprs.compare_denot(dm, exprs.denot_impl(res[part]), da, exprs.gnops(t) + 2 if hasattr(exprs, "gnops") else 12, False)
            if msg:
                ctx.fail("reuse", p_, "result of a step that reuses earlier operands, %s part: %s" % (part, msg))
                break
    ro_cases = []
    for _ in range(60 if quick else 600):
        t = rng.choice(SPECIAL) if rng.random() < 0.3 else rng.uniform(-math.pi, math.pi)
        ro_cases.append({"fn": "readout_angle", "t": hexf(t)})
    for _ in range(100 if quick else 1500):
        a = rng.choice(SPECIAL) if rng.random() < 0.3 else rng.uniform(-math.pi, math.pi)
        b = rng.choice(SPECIAL) if rng.random() < 0.3 else rng.uniform(-math.pi, math.pi)
        kind = rng.choice(["prod", "prod", "angles", "a_only", "b_only", "trunc"])
        if kind == "a_only":
            b = 0.0
        if kind == "b_only":
            a = 0.0
        ro_cases.append({"fn": "readout_lr", "a": hexf(a), "b": hexf(b), "kind": kind})
    impl = run_impl(ro_cases)
    for c, r in zip(ro_cases, impl):
        ctx.count(c, nontrivial=True, bucket=c["fn"] + ("/" + c["kind"] if "kind" in c else ""))
        if "exc" in r:
            ctx.fail("readout", c, f"raised {r['exc']}: {r.get('msg','')}")
            continue
        if c["fn"] == "readout_angle":
            t = float.fromhex(c["t"])
            ang = float.fromhex(r["ok"])
            if abs(math.cos(ang) - math.cos(t)) > 1e-12 or abs(math.sin(ang) - math.sin(t)) > 1e-12:
                ctx.fail("readout", c, f"rotation({t}).angle = {ang}: not the same rotation")
        else:
            a, b = float.fromhex(c["a"]), float.fromhex(c["b"])
            x, y = [float.fromhex(v) for v in r["ok"]]
            # R(x) w R(y) == R(a) w R(b)  <=>  the four products of cos/sin agree
            for f, g in ((math.cos, math.cos), (math.sin, math.sin), (math.cos, math.sin), (math.sin, math.cos)):
                if abs(f(x) * g(y) - f(a) * g(b)) > 1e-12:
                    ctx.fail("readout", c, f"left_and_right_angles of R({a}) w R({b}) = [{x}, {y}]: a different element")
                    break
    ctx.residual.append("read-outs (numpy.angle) are compared through float cos/sin at 1e-12, not through a verified enclosure")
