"""C14 — polynomial generators return finite coefficients of advertised degree and parity."""
import math
from fractions import Fraction

from common import fr, qs, qcoq, hexf, run_impl, run_model, coq_eval
import qsp_common as Q
import gen_common as G

LEVEL = "proof"
TECHNIQUE = ("Coq model of the structural part of every generate(): registry (degree-taking, advertised parity), degree guard, parity "
             "zeroing pcoefs[start::2]=0 and option dataflow, with theorems valid for every kernel output (zeroing keeps the length, "
             "zeroes exactly one parity class, the result always passes the advertised-parity check; the guard refuses exactly the "
             "wrong-parity degrees); the extracted parity checker and guard are run against every generator reachable from the "
             "registry and the command line over degrees x shape parameters x all 8 option combinations")
LEVEL_TEXT = ("Props/C14.v: 6 theorems quantified over all kernel outputs, lengths, degrees. Per run: finiteness, length degree+1, exact "
              "zeros of the opposite parity (extracted checker opp_zero, specification proved), refusal of wrong-parity degrees "
              "(model's degree_guard against the implementation's outcome).")
LEVEL_NOTE = ("Trusted: Coq kernel, extraction, driver.ml, harness, numpy/scipy as executors. The theorems are axiom-free. Finiteness of "
              "the kernels' output (scipy) is observed, not proved; the composite 1/x*rect generator is checked as a black box.")
RULE = ("generators cos, sin, 1/x, 1/x*rect, sign, threshold, phase-estimation, rect, linear amplification, Gibbs, eigenstate filter, "
        "ReLU, softplus; degrees 1..60 in Chebyshev mode, <= 24 in monomial mode (quick: 3 per generator), shape parameters from their "
        "documented ranges, all combinations of ensure_bounded / return_scale / chebyshev_basis, plus wrong-parity degrees (incl. the lowest one, 1 or 2) and degrees given as floats (the command line form); distinct "
        "by JSON; non-trivial = degree >= 2")
TRUSTED = ["Coq 8.16.1 kernel", "extraction (ExtrOcamlBasic, ExtrOcamlZBigInt) + driver.ml + zarith", "harness (impl_runner.py, impl_handlers5.py)",
           "numpy/scipy as executors of the implementation"]
ASSUME = ["returned doubles are exact dyadic rationals; 'exactly zero' is exact"]


def known_invrect(case, k):
    return case.get("name") == "invrect"


PREDICATES = {"c14_invrect": known_invrect}


def run(ctx):
    rng = ctx.rng
    quick = ctx.tier == "quick"
    cases = []
    if ctx.replay is not None and ctx.replay.get("case", {}).get("fn") == "gen":
        cases = [ctx.replay["case"]]
    else:
        names = G.ERF + G.CHEBSUM + ["invrect"]
        for name in names:
            reps = (3 if name != "invrect" else 8) if quick else 16
            for rep in range(reps):
                for cheb in (True, False):
                    if name in G.ERF or name == "invrect":
                        hi = 60 if cheb else 24
                        lo = 1
                        if name == "invrect":
                            deg = rng.choice([2, 4, 6, 8]) if not cheb else rng.choice([4, 20, 26, 30, 50, 52, 58, 60])
                            a = {"degree": deg, "delta": rng.choice([2.0, 4.0]), "kappa": rng.choice([2, 3, 4]), "epsilon": rng.choice([0.1, 0.3, 0.01])}
                        else:
                            deg = G.right_parity_degree(rng, name, lo, hi) if rep else G.right_parity_degree(rng, name, lo, 9)
                            a = dict(G.shape_args(rng, name), degree=deg)
                    else:
                        a = G.shape_args(rng, name)
                        if not cheb and name in ("cos", "sin") and a["tau"] > 12:
                            a["tau"] = rng.uniform(0.5, 10)
                    for eb in (True, False):
                        for rs in (True, False):
                            c = {"fn": "gen", "name": name, "args": G.enc_args(a), "ensure_bounded": eb, "return_scale": rs,
                                 "chebyshev_basis": cheb, "timeout": 300, "expect": "ok"}
                            if cheb and "degree" in a and a["degree"] >= 20 and name != "invrect" and rep % 2 == 0:
                                c["cheb_samples"] = a["degree"] + rng.choice([1, 5, 40])
                            cases.append(c)
            if name in G.ERF:
                for cheb in (True, False):
                    for eb, rs in ((True, False), (False, True), (True, True)):
                        d = G.right_parity_degree(rng, name, 2, 14) + rng.choice([-1, 1])
                        a = dict(G.shape_args(rng, name), degree=d)
                        cases.append({"fn": "gen", "name": name, "args": G.enc_args(a), "ensure_bounded": eb, "return_scale": rs,
                                      "chebyshev_basis": cheb, "timeout": 300, "expect": "refuse"})
                # the lowest wrong-parity degree (1 for the even generators, 2 for the odd ones), as int and in the command line's float form
                for fl in (False, True):
                    cheb, eb, rs = rng.random() < 0.5, rng.random() < 0.5, rng.random() < 0.5
                    a = dict(G.shape_args(rng, name), degree=2 if name in G.ODD else 1)
                    cases.append({"fn": "gen", "name": name, "args": G.enc_args(a), "ensure_bounded": eb, "return_scale": rs,
                                  "chebyshev_basis": cheb, "timeout": 300, "expect": "refuse", "float_degree": fl})
            if name in G.ERF or name == "invrect":
                # a valid degree given as a float (20.0), which is what `pyqsp --polyargs 20,0.2,0.9 --polyname efilter poly` passes
                for cheb in (True, False):
                    deg = G.right_parity_degree(rng, name, 2, 20) if name != "invrect" else rng.choice([4, 6, 8])
                    a = dict(G.shape_args(rng, name), degree=deg) if name != "invrect" else {"degree": deg, "delta": 2.0, "kappa": 3, "epsilon": 0.1}
                    cases.append({"fn": "gen", "name": name, "args": G.enc_args(a), "ensure_bounded": rng.random() < 0.7, "return_scale": rng.random() < 0.5,
                                  "chebyshev_basis": cheb, "timeout": 300, "expect": "ok", "float_degree": True})
        # monomial (Taylor) mode at the top of its degree range: round-off in the opposite parity class grows with the degree there,
        # so only an exact projection (not a relative chop) leaves it exactly zero
        for name in G.ERF:
            for deg0 in ((16, 22) if quick else (16, 18, 20, 22, 24)):
                deg = deg0 + (1 if name in G.ODD else 0)
                a = dict(G.shape_args(rng, name), degree=deg)
                if name == "relu":
                    a["delta"] = rng.choice([0.2, 0.3])
                cases.append({"fn": "gen", "name": name, "args": G.enc_args(a), "ensure_bounded": rng.random() < 0.5, "return_scale": rng.random() < 0.5,
                              "chebyshev_basis": False, "timeout": 300, "expect": "ok"})
        # the composite 1/x * rect generator must refuse an odd degree itself (its rect factor is even), not adjust it silently
        for deg in ((5, 11) if quick else (3, 5, 7, 11, 21)):
            for cheb in (True, False):
                cases.append({"fn": "gen", "name": "invrect", "args": G.enc_args({"degree": deg, "delta": 2.0, "kappa": 3, "epsilon": 0.1}),
                              "ensure_bounded": rng.random() < 0.5, "return_scale": rng.random() < 0.5, "chebyshev_basis": cheb, "timeout": 300,
                              "expect": "refuse", "float_degree": deg == 11})
        # 1/x with a small binomial parameter b = int(kappa^2 log(kappa/eps)): the truncation index j0 reaches b (empty tail sums)
        for kappa, eps in ((1.5, 0.3), (1.25, 0.1), (1.4, 0.05), (1.2, 0.3), (1.1, 0.2), (1.05, 0.1)):
            for cheb in (True, False):
                cases.append({"fn": "gen", "name": "invert", "args": G.enc_args({"kappa": kappa, "epsilon": eps}), "ensure_bounded": rng.random() < 0.5,
                              "return_scale": rng.random() < 0.5, "chebyshev_basis": cheb, "timeout": 300, "expect": "ok"})
        # rect and 1/x*rect at the upper end of the epsilon range (the steepness is sqrt(log(2/(pi eps^2))): real up to eps = 0.798)
        for name in ("rect", "invrect"):
            for eps_ in (0.5, 0.7, 0.79):
                cheb = rng.random() < 0.5
                cases.append({"fn": "gen", "name": name, "args": G.enc_args({"degree": 6 if name == "invrect" else 8, "delta": 2.0, "kappa": 3, "epsilon": eps_}),
                              "ensure_bounded": rng.random() < 0.5, "return_scale": rng.random() < 0.5, "chebyshev_basis": cheb, "timeout": 300, "expect": "ok"})
        # 1/x with b = int(kappa^2 log(kappa/eps)) beyond the range the binomial weights can be formed in (b >= 512): the generator may refuse,
        # but what it returns has to be finite and odd
        for name, a in (("invert", {"kappa": 12.0, "epsilon": 0.1}), ("invert", {"kappa": 14.0, "epsilon": 0.05}),
                        ("invrect", {"degree": 6, "delta": 2.0, "kappa": 6, "epsilon": 0.1})):
            for cheb in (True, False):
                cases.append({"fn": "gen", "name": name, "args": G.enc_args(a), "ensure_bounded": True, "return_scale": rng.random() < 0.5,
                              "chebyshev_basis": cheb, "timeout": 300, "expect": "ok_or_raise"})
    impl = run_impl(cases, timeout=3000)
    lines, keep = [], []
    for c, r in zip(cases, impl):
        deg = c["args"].get("degree")
        ctx.count(c, nontrivial=(deg is None or deg >= 2), bucket="%s/%s/%s" % (c["name"], "cheb" if c["chebyshev_basis"] else "mono", c.get("expect")))
        model_name = c["name"] if c["name"] != "invrect" else "rect"
        lines.append("(geninfo %s %d)" % (model_name, deg if deg is not None else 0))
        keep.append((c, r))
    mod = run_model(lines)
    lines2, keep2 = [], []
    for (c, r), m in zip(keep, mod):
        if isinstance(m, str):
            ctx.infra_fail("extracted registry failed: " + m)
            continue
        odd, takes, guard = (x == "1" for x in m)
        if c["name"] == "invrect":
            odd = True
        site = "generator:" + c["name"]
        if not guard:
            if "exc" not in r:
                ctx.fail(site, c, "a degree of the wrong parity (%s) was accepted instead of refused" % c["args"].get("degree"))
            continue
        if "exc" in r:
            if c.get("expect") == "ok_or_raise" and r["exc"] not in ("WorkerDied", "CaseTimeout"):
                ctx.bucket("outside the documented range: refused with " + r["exc"])
                continue
            ctx.fail(site, c, "raised %s (%s) on a valid argument tuple" % (r["exc"], r.get("msg", "")[:100]))
            continue
        ro = r["ok"]
        cf = ro["coefs"]
        if any(isinstance(x, list) for x in cf):
            ctx.fail(site, c, "returned complex coefficients")
            continue
        if any(("nan" in x or "inf" in x) for x in cf):
            ctx.fail(site, c, "returned non-finite coefficients (%d of %d are nan/inf)" % (sum(1 for x in cf if "nan" in x or "inf" in x), len(cf)))
            continue
        if takes and c["name"] != "invrect" and len(cf) != c["args"]["degree"] + 1:
            ctx.fail(site, c, "returned %d coefficients for degree %d" % (len(cf), c["args"]["degree"]))
            continue
        if c["name"] != "invrect" and (ro["scale"] is not None) != (c["ensure_bounded"] and c["return_scale"]):
            ctx.fail(site, c, "a scale was %sreturned with ensure_bounded=%s, return_scale=%s" % ("" if ro["scale"] is not None else "not ", c["ensure_bounded"], c["return_scale"]))
            continue
        lines2.append("(oppzero %d %s)" % (1 if odd else 0, Q.qlist(cf)))
        keep2.append((c, cf, odd))
    mod2 = run_model(lines2)
    for (c, cf, odd), m in zip(keep2, mod2):
        if m not in ("0", "1"):
            ctx.infra_fail("extracted parity checker failed: " + str(m))
        elif m == "0":
            badj = [j for j, x in enumerate(cf) if (j % 2 == 0) == odd and float.fromhex(x) != 0.0]
            ctx.fail("generator:" + c["name"], c, "coefficients of the opposite parity are not exactly zero (indices %s, e.g. %r)" % (badj[:5], float.fromhex(cf[badj[0]])))
    ctx.residual.append("finiteness depends on scipy's kernels and is observed on the generated grid only")
