"""C01 — returned phases realise the requested real polynomial (Wx and Wz models)."""
import math
from fractions import Fraction

from common import fr, qs, qcoq, hexf, run_impl, run_model, coq_eval
import qsp_common as Q

LEVEL = "proof"
TECHNIQUE = ("Coq-verified result checker: check_c01 (interval evaluation of the phase product from verified cos/sin "
             "enclosures, exact rational Laurent form of suc*(p+eps/2 x^d), coefficient 1-norm certificate) with the "
             "soundness theorem C01_certificate_sound (true => |<+|U_x(cos t)|+> - target(cos t)| <= 100 tol for every t, "
             "U_x the defining matrix product; Wx/x = Wz/z by C01_wx_x_is_wz_z) + budget theorem; run on every return of "
             "the implementation over generated polynomials x settings x stubbed random root choices; fault injection on "
             "the decomposition output")
LEVEL_TEXT = ("Props/C01.v: universally quantified soundness of the certificate (all phase lists, all polynomials, all theta), "
              "semantics of the capitalised target, budget inequality, Wx/x = Wz/z. Every phase list the implementation returns in "
              "the run is put through the extracted checker (a slice re-checked by vm_compute in Coq); a return that fails the "
              "certificate, has the wrong length or non-finite entries is a violation.")
LEVEL_NOTE = ("Trusted: Coq kernel + vm_compute, extraction directives, driver.ml, Python harness, numpy as executor of the "
              "implementation. Axioms: stdlib real-number axioms (sig_forall_dec, sig_not_dec, functional_extensionality_dep) "
              "and Classical_Prop.classic via Reals/Coquelicot. The theorem is about the checker, not about the algorithm: which "
              "(input, output) pairs occur is sampled. 'Raises instead of returning' is observed on generated infeasible / "
              "ill-conditioned inputs and under fault injection, not proved.")
RULE = ("real definite-parity polynomials of degree 1..30 (quick) / 1..60 (thorough) from the families good (Chebyshev 1-norm "
        "0.1..0.9), tight (sup close to 1), infeasible (sup > 1), tiny-leading-coefficient; settings (eps, suc, tol) from a grid "
        "including eps/tol >= 1e4 and (1-suc)/tol >= 1e4; Wx and Wz; random root choice fixed by a numpy.random.randint stub "
        "(all 2^k vectors for k <= 4, sampled above) plus unstubbed runs under numpy.random.seed; ~12% of the calls with the "
        "decomposition output perturbed by 1e3..1e5 tol or by 0.1..0.3 eps; 30 % of the feasible targets also negated; distinct by canonical JSON; non-trivial = degree >= 2")
TRUSTED = ["Coq 8.16.1 kernel incl. vm_compute", "extraction (ExtrOcamlBasic, ExtrOcamlZBigInt) + driver.ml + zarith, cross-checked in Coq on a slice",
           "harness (impl_runner.py, impl_handlers2.py, Fraction arithmetic)", "numpy/scipy as executors of the implementation"]
ASSUME = ["the response is the defining matrix product of Theory/RespT.v (Wx: X-rotation signal, Z phases; x basis = |+>)",
          "returned doubles and input doubles are taken as exact dyadic rationals"]

SETTINGS = [(1e-4, 1 - 1e-4, 1e-6), (1e-4, 1 - 1e-4, 1e-6), (1e-2, 0.9, 1e-6), (1e-3, 0.99, 1e-7), (0.05, 0.8, 1e-5),
            (1e-2, 0.9, 1e-8), (0.0, 1.0, 1e-6), (1e-6, 1 - 1e-6, 1e-9), (1e-3, 0.5, 1e-4)]


def gen_poly(rng, d, fam):
    if fam == "good":
        p, _ = Q.cheb_family(rng, d, rng.uniform(0.1, 0.9), 0.1, decay=rng.choice([None, 0.9, 0.7]))
    elif fam == "tight":
        p, _ = Q.cheb_family(rng, d, 1.0, 0.1)
        s = Q.sup_estimate(p)
        p = [x / s * rng.uniform(0.9, 0.999) for x in p]
    elif fam == "infeasible":
        p, _ = Q.cheb_family(rng, d, 1.0, 0.1)
        s = Q.sup_estimate(p)
        p = [x / s * rng.choice([1.001, 1.05, 1.5, 3.0, 20.0]) for x in p]
    elif fam == "tinylead":
        p, c = Q.cheb_family(rng, d, rng.uniform(0.3, 0.8), 0.1)
        c[d] = rng.choice([1e-3, 1e-5, 1e-7, -1e-4])
        p = [float(x) for x in Q.cheb2mono([Fraction(*float(x).as_integer_ratio()) for x in c])]
    else:
        raise AssertionError
    return p


def mk_case(rng, p, fam, setting, so, bits, perturb=None, npseed=None):
    eps, suc, tol = setting
    c = {"fn": "qspp", "poly": [hexf(x) for x in p], "eps": hexf(eps), "suc": hexf(suc), "tolerance": hexf(tol),
         "signal_operator": so, "fam": fam, "timeout": 300}
    if bits is not None:
        c["bits"] = bits
    if npseed is not None:
        c["npseed"] = npseed
    if perturb:
        c["perturb"] = hexf(perturb)
    return c


def model_line(c, phis):
    return "(c01 %s %s %s %s %s)" % (Q.qlist(phis), Q.qlist(c["poly"]), qs(fr(c["eps"])), qs(fr(c["suc"])), qs(fr(c["tolerance"])))


def run(ctx):
    rng = ctx.rng
    quick = ctx.tier == "quick"
    cases = []
    if ctx.replay is not None and ctx.replay.get("case", {}).get("fn") == "qspp":
        cases = [ctx.replay["case"]]
    else:
        degs = (list(range(1, 13)) + [14, 17, 20, 25, 30]) if quick else list(range(1, 41)) + [45, 50, 60]
        for d in degs:
            npoly = (3 if d <= 12 else 2) if quick else 8
            for j in range(npoly):
                fam = rng.choice(["good", "good", "good", "tight", "infeasible", "tinylead"])
                p = gen_poly(rng, d, fam)
                setting = SETTINGS[0] if j == 0 else rng.choice(SETTINGS)
                so = rng.choice(["Wx", "Wz"])
                vecs = Q.seed_vectors(rng, min(d, 12), (16 if d <= 4 else 4) if quick else (64 if d <= 6 else 8))
                for bits in vecs:
                    pert = None
                    if rng.random() < 0.12:
                        pert = setting[2] * 10 ** rng.choice([3, 4, 5])
                    elif rng.random() < 0.06 and setting[0] >= 300 * setting[2]:
                        pert = setting[0] * rng.choice([0.1, 0.3])        # sized by eps: a self-check loosened by the eps budget would let it through
                    cases.append(mk_case(rng, p, fam, setting, so, bits, pert))
                    if rng.random() < 0.2:       # the same request with the coefficients in another container
                        cases[-1]["container"] = rng.choice(["floatlist", "polynomial"])
                    if pert is None and fam in ("good", "tight") and rng.random() < 0.3:
                        cases.append(mk_case(rng, [-x for x in p], fam, setting, so, bits, None))      # the negated target (phases move by pi)
                cases.append(mk_case(rng, p, fam, setting, "Wz" if so == "Wx" else "Wx", None, None, npseed=rng.randrange(2 ** 31)))
        # marginally infeasible targets: sup |suc (p + eps/2 x^d)| just above 1, by less than a factor 1/suc^2 (a retry that rescales
        # again would slip through), and infeasible degree-1 targets (closed-form shortcuts)
        for d in ([1, 2, 3, 4, 5, 8] if quick else range(1, 13)):
            for setting in ((1e-3, 0.99, 1e-6), (1e-2, 0.9, 1e-6), SETTINGS[0]):
                eps, suc, tol = setting
                for kpow in (1.5, 2.5):
                    tn = [float(x) for x in Q.cheb2mono([Fraction(0)] * d + [Fraction(1)])]
                    base = tn if rng.random() < 0.5 else gen_poly(rng, d, "tight")
                    sb = Q.sup_estimate(base)
                    f = (1.0 / suc) ** kpow / sb
                    pm = [x * f for x in base]
                    cases.append(mk_case(rng, pm, "marginal", setting, rng.choice(["Wx", "Wz"]), Q.seed_vectors(rng, min(d, 12), 1)[0], None))
            for c1 in (1.2, -1.05, 3.0):
                pm = [0.0] * d + [c1]
                cases.append(mk_case(rng, pm, "infeasible", SETTINGS[0], rng.choice(["Wx", "Wz"]), Q.seed_vectors(rng, min(d, 12), 1)[0], None))
        # nowhere-vanishing even targets (offset + small ripple) at tight tolerances with a small fault injected: an acceptance test
        # with a hidden relative term (|r - e| <= tol + rtol |e|) lets these through
        for d in ((2, 4, 6, 8) if quick else (2, 4, 6, 8, 10, 12, 16, 20)):
            q = gen_poly(rng, d, "good")
            sq = Q.sup_estimate(q) or 1.0
            off = rng.choice([0.6, -0.6, 0.45])
            pm = [x / sq * 0.25 for x in q]
            pm[0] += off
            for setting in ((1e-6, 1 - 1e-6, 1e-9), (1e-2, 0.9, 1e-8), (1e-5, 1 - 1e-5, 1e-10)):
                for mult in (300, 1000):
                    cases.append(mk_case(rng, pm, "offset", setting, rng.choice(["Wx", "Wz"]), Q.seed_vectors(rng, min(d, 12), 1)[0], setting[2] * mult))
        # targets that touch +-1 at the end points (T_n, normalised members) with settings where suc (1 + eps/2) > 1: after capitalisation the
        # target leaves the unit disc by at most eps/2 — it has to be refused, not quietly rescaled
        for n in ((1, 2, 3, 5) if quick else range(1, 11)):
            tn = [float(x) for x in Q.cheb2mono([Fraction(0)] * n + [Fraction(1)])]
            nm = gen_poly(rng, n, "tight")
            v1 = sum(nm)
            nm = [x / v1 for x in nm] if abs(v1) > 0.2 and Q.sup_estimate([x / v1 for x in nm]) <= 1.0 + 1e-12 else tn
            for p_, fam in ((tn, "touch:T_n"), ([-x for x in tn], "touch:-T_n"), (nm, "touch:normalised")):
                for setting in ((1e-2, 1 - 1e-4, 1e-6), (0.05, 1.0, 1e-6), (1e-2, 1 - 1e-3, 1e-7)):
                    cases.append(mk_case(rng, p_, fam, setting, rng.choice(["Wx", "Wz"]), Q.seed_vectors(rng, min(n, 12), 1)[0], None))
        # option values at the edge: eps = 0 with a success factor clearly below 1 (the target is still suc * p), and tolerance = 0 (nothing can be
        # returned in floating point; with a fault injected even less so)
        for d in ((1, 2, 3, 4) if quick else range(1, 9)):
            pz = gen_poly(rng, d, "good")
            for setting in ((0.0, 0.8, 1e-6), (0.0, 0.5, 1e-7), (0.0, 0.95, 1e-8)):
                cases.append(mk_case(rng, pz, "eps0", setting, rng.choice(["Wx", "Wz"]), Q.seed_vectors(rng, min(d, 12), 1)[0], None))
            cases.append(mk_case(rng, pz, "tol0", (1e-4, 1 - 1e-4, 0.0), rng.choice(["Wx", "Wz"]), Q.seed_vectors(rng, min(d, 12), 1)[0], None))
            cases.append(mk_case(rng, pz, "tol0", (1e-4, 1 - 1e-4, 0.0), rng.choice(["Wx", "Wz"]), Q.seed_vectors(rng, min(d, 12), 1)[0], 1e-3))
        # definite-parity targets stored with a trailing zero (so that len-1 has the other parity) and every coefficient below eps/2: whatever
        # comes back must realise suc*(p + eps/2 x^d) - "noise below the budget" is still part of the target
        for pp_ in ([0.0, 0.4, 0.0], [0.3, 0.0, -0.4, 0.0], [0.0, 0.35, 0.0, 0.3, 0.0], [0.45, 0.0], [0.0, -0.4, 0.0, 0.0]):
            for setting in ((0.1, 0.9, 1e-6), (0.02, 0.95, 1e-6)):
                cases.append(mk_case(rng, [x * setting[0] for x in pp_], "padded-small", setting, rng.choice(["Wx", "Wz"]),
                                     Q.seed_vectors(rng, len(pp_) - 1, 1)[0], None))
        # integer-valued coefficient vectors (+-T_n, monomials) in every container the entry point accepts
        for n in (range(1, 8) if quick else range(1, 13)):
            tn = [float(x) for x in Q.cheb2mono([Fraction(0)] * n + [Fraction(1)])]
            for p, fam in ((tn, "int:T_n"), ([-x for x in tn], "int:-T_n"), ([0.0] * n + [1.0], "int:x^n"), ([0.0] * n + [-1.0], "int:-x^n")):
                for setting in (SETTINGS[0], (2e-2, 0.9, 1e-6)):
                    for cont in ("intlist", "intarray", "floatlist", "polynomial"):
                        if not quick or rng.random() < 0.5:
                            c = mk_case(rng, p, fam, setting, rng.choice(["Wx", "Wz"]), Q.seed_vectors(rng, min(n, 12), 1)[0], None)
                            c["container"] = cont
                            cases.append(c)
    impl = run_impl(cases, timeout=3000)
    lines, keep = [], []
    for c, r in zip(cases, impl):
        d = len(c["poly"]) - 1
        pert = "perturbed" if c.get("perturb") else "plain"
        if "exc" in r:
            ctx.count(c, nontrivial=d >= 2, bucket="%s/%s/raised:%s" % (c["fam"], pert, r["exc"]))
            if r["exc"] in ("WorkerDied", "CaseTimeout"):
                ctx.fail("qspp", c, "the call neither returned nor raised (%s %s)" % (r["exc"], r.get("msg", "")))
            continue
        ctx.count(c, nontrivial=d >= 2, bucket="%s/%s/returned" % (c["fam"], pert))
        ro = r["ok"]
        if ro["phis"] == "dict" or ro["len"] != d + 1:
            ctx.fail("qspp", c, "returned %s phases for a degree-%d polynomial" % (ro["len"], d))
            continue
        if not ro["finite"]:
            ctx.fail("qspp", c, "returned non-finite phases")
            continue
        lines.append(model_line(c, ro["phis"]))
        keep.append((c, ro))
    mod = run_model(lines)
    slice_terms = []
    for (c, ro), m in zip(keep, mod):
        if isinstance(m, str):
            ctx.infra_fail("extracted checker failed on a returned phase list: " + str(m))
            continue
        ok, n = m[0] == "1", m[1]
        tol = float(fr(c["tolerance"]))
        if not ok:
            err = Q.scaled_to_float(n) if n != "ERR" else float("nan")
            what = "perturbed decomposition output was returned, not rejected: " if c.get("perturb") else ""
            ctx.fail("qspp", c, what + "returned phases do not realise suc*(p+eps/2 x^d): certified coefficient 1-norm distance "
                     "%.3e > 100*tol = %.3e" % (err, 100 * tol))
        else:
            ctx.bucket("certificate margin <= %g tol" % (10 ** math.ceil(math.log10(max(Q.scaled_to_float(n) / tol, 1e-3)))))
            if len(c["poly"]) <= 5 and len(slice_terms) < (4 if quick else 16):
                slice_terms.append("check_c01 [%s] [%s] %s %s %s" % (
                    "; ".join(qcoq(fr(x)) for x in ro["phis"]), "; ".join(qcoq(fr(x)) for x in c["poly"]),
                    qcoq(fr(c["eps"])), qcoq(fr(c["suc"])), qcoq(fr(c["tolerance"]))))
    header = ("From Coq Require Import ZArith QArith List. Import ListNotations.\n"
              "From PyqspV Require Import Model.Checkers.\n")
    res, err = coq_eval(header, slice_terms, ctx.pid)
    ctx.instance_obligations += len(slice_terms)
    okn = sum(1 for x in res if x is True)
    ctx.instance_discharged += okn
    if okn != len(slice_terms):
        ctx.infra_fail("extraction cross-check: %d of %d certificates accepted by the extracted checker are not accepted by vm_compute in Coq %s"
                       % (len(slice_terms) - okn, len(slice_terms), err))
    ctx.residual.append("that the implementation raises whenever it cannot find phases is observed (infeasible / ill-conditioned inputs, "
                        "fault injection), not proved; success on well-conditioned inputs is C03")
