"""C12 — symmetric-QSP protocol: phase layout, response and Jacobian are correct."""
import math
from fractions import Fraction

from common import fr, qs, qcoq, hexf, run_impl, run_model, coq_eval
import qsp_common as Q

LEVEL = "proof"
TECHNIQUE = ("Coq theorems: layout length / palindrome / doubled centre and the update-history invariant for every reduced-phase list and "
             "history; parity of the Wx response U(-a) = (-1)^n Z U(a) Z over any ring; certificate soundness for the Jacobian values "
             "(coefficient-wise against the X part of the exact element); soundness of forward-mode differentiation of the model by "
             "a logical relation (dual intervals enclose value and derivative of every coefficient of the perturbed element) and the "
             "3x3 recurrences of gen_poly_jacobian_components modelled (value = Im<0|U|0>, entries = partial derivatives, interval run sound) and "
             "compared entry by entry at every sample point; end-to-end column certificate (C12_jacobian_column_certificate: row j of column k is within tol of the derivative at 0 "
             "of the T_{2j+parity} coefficient of Im <0|U|0> along red_k, that coefficient being read from the exact real element of "
             "the perturbed phases at every parameter value). The "
             "executable model (layout, complex-interval response, dual-number Jacobian) is compared with SymmetricQSPProtocol on "
             "generated reduced phases, update histories with interleaved use, and sample points")
LEVEL_TEXT = ("Props/C12.v: 10 theorems universally quantified over reduced phases, histories, signal values. Per run: full_phases after "
              "every update = model layout = freshly built protocol (exact); gen_unitary / gen_response_re/im against the verified "
              "complex-interval evaluation of the defining Wx product of the model's layout; gen_jacobian f against check_jac_f and df "
              "column by column against the dual-interval enclosure.")
LEVEL_NOTE = ("Trusted: Coq kernel + vm_compute, extraction, driver.ml, harness, numpy as executor. Axioms: stdlib real-number axioms + "
              "Classical_Prop.classic for theorems over R/C (layout and parity theorems are axiom-free).")
RULE = ("reduced-phase vectors of length 1..60 (quick: 1..12, 20, 33, 60), both parities, entries generic / multiples of pi/8 / tiny / "
        "large; update histories of length 0..20 passed as ndarray / list / tuple (a third with vectors that grow and shrink) with the object used (response + Jacobian) between updates in half of the cases; "
        "sample points incl. -1, 0, 1; distinct by JSON; non-trivial = at least 2 reduced phases")
TRUSTED = ["Coq 8.16.1 kernel incl. vm_compute", "extraction (ExtrOcamlBasic, ExtrOcamlZBigInt) + driver.ml + zarith, cross-checked in Coq on a slice",
           "harness (impl_runner.py, impl_handlers4.py)", "numpy as executor of the implementation"]
ASSUME = ["phases are exact dyadic rationals; tolerances: response (n+1)*(1e-14 + 3e-16/sqrt(1-a^2)), f 1e-9*(1+k), df 1e-9*(1+k)"]


def gen_red(rng, k):
    kind = rng.choice(["generic", "generic", "eighths", "tiny", "big"])
    if kind == "generic":
        return [rng.uniform(-math.pi, math.pi) for _ in range(k)]
    if kind == "eighths":
        return [rng.choice([0, 1, 2, -1, 3]) * math.pi / 8 for _ in range(k)]
    if kind == "tiny":
        return [rng.uniform(-1e-3, 1e-3) for _ in range(k)]
    return [rng.uniform(-20, 20) for _ in range(k)]


def run(ctx):
    rng = ctx.rng
    quick = ctx.tier == "quick"
    cases = []
    if ctx.replay is not None and ctx.replay.get("case", {}).get("fn") == "symqsp":
        cases = [ctx.replay["case"]]
    else:
        lens = (list(range(1, 13)) + [20, 33, 60]) if quick else list(range(1, 61))
        for k in lens:
            for parity in (0, 1):
                for rep in range(1 if quick else 3):
                    nh = rng.choice([0, 1, 2, 5, 20]) if k <= 12 else rng.choice([0, 1, 3])
                    if rng.random() < 0.35 and nh:       # histories whose vectors grow and shrink (the last one has length k)
                        hist = [gen_red(rng, rng.randint(1, k + 3)) for _ in range(nh - 1)] + [gen_red(rng, k)]
                        if nh == 1:
                            hist = [gen_red(rng, k + rng.randint(1, 3))] + hist
                    else:
                        hist = [gen_red(rng, k) for _ in range(nh)]
                    samples = [-1.0, 0.0, 1.0, rng.uniform(-1, 1), rng.uniform(-1, 1), 1 - 1e-9]
                    init = gen_red(rng, k)
                    int_init = rng.random() < 0.3
                    if int_init:
                        init = [float(rng.choice([0, 0, 1, -1, 2])) for _ in range(k)]
                    cases.append({"fn": "symqsp", "parity": parity, "initial": [hexf(x) for x in init], "int_init": int_init,
                                  "history": [[hexf(x) for x in h] for h in hist], "samples": [hexf(x) for x in samples],
                                  "touch_between": rng.random() < 0.5, "timeout": 600,
                                  "hist_container": rng.choice(["array", "array", "list", "tuple"])})
        # directed: every (parity, length 1..3) with list and tuple updates (a one-element list times 2 is a repetition, not a doubling)
        for k in (1, 2, 3):
            for parity in (0, 1):
                for cont in ("list", "tuple"):
                    cases.append({"fn": "symqsp", "parity": parity, "initial": [hexf(x) for x in gen_red(rng, k)], "int_init": False,
                                  "history": [[hexf(x) for x in gen_red(rng, k)] for _ in range(2)],
                                  "samples": [hexf(x) for x in (-1.0, 0.0, 1.0, rng.uniform(-1, 1))],
                                  "touch_between": cont == "list", "timeout": 600, "hist_container": cont})
    impl = run_impl(cases, timeout=3000)
    lines, meta = [], []
    for ci, (c, r) in enumerate(zip(cases, impl)):
        k = len(c["initial"])
        ctx.count(c, nontrivial=k >= 2, bucket="parity=%d/k<%d/hist=%d%s" % (c["parity"], 10 ** len(str(k)), len(c["history"]), "/touched" if c.get("touch_between") else ""))
        if "exc" in r:
            ctx.fail("symqsp", c, "raised %s: %s" % (r["exc"], r.get("msg", "")))
            continue
        ro = r["ok"]
        seq = [c["initial"]] + c["history"]
        odd = 1 if c["parity"] == 1 else 0
        for st, red in zip(ro["states"], seq):
            lines.append("(symfull %d %s)" % (odd, Q.qlist(red)))
            meta.append((ci, "layout", st, red))
        st = ro["states"][-1]
        fr_ = ro["fresh"]
        if st["full"] != fr_["full"] or st["red"] != fr_["red"] or st["poly_deg"] != fr_["poly_deg"]:
            ctx.fail("symqsp", c, "after %d updates the protocol differs from a freshly built one: full %s... vs %s..." %
                     (len(c["history"]), st["full"][:3] if st["full"] else None, fr_["full"][:3] if fr_["full"] else None))
            continue
        red = seq[-1]
        # response: the model's own layout, evaluated by the verified interval evaluator (Wx, z)
        mfull_line = len(lines)
        lines.append("(symfull %d %s)" % (odd, Q.qlist(red)))
        meta.append((ci, "full-for-response", None, red))
        lines.append("(jacf %d %s %s %s)" % (odd, Q.qlist(red), Q.qlist(ro["f"]), qs(Fraction(1, 10 ** 9) * (1 + k))))
        meta.append((ci, "jacf", None, red))
        for a_hex, comp in zip(c["samples"], ro.get("comp") or []):
            if comp is not None:
                lines.append("(jac3 %d %s %s %s)" % (odd, Q.qlist(red), qs(fr(a_hex)), Q.qlist(comp)))
                meta.append((ci, "jac3", a_hex, red))
        for col in range(k):
            colv = [row[col] for row in ro["df"]] if k > 1 or isinstance(ro["df"][0], list) else [ro["df"][0]]
            lines.append("(jacdf %d %s %d %s %s)" % (odd, Q.qlist(red), col, Q.qlist(colv), qs(Fraction(1, 10 ** 9) * (1 + k))))
            meta.append((ci, "jacdf", col, red))
    mod = run_model(lines)
    # second pass: responses need the model's full phases
    lines2, meta2 = [], []
    bad = set()
    for (ci, what, x, red), m in zip(meta, mod):
        c = cases[ci]
        if ci in bad:
            continue
        if isinstance(m, str) and m.startswith("FAIL"):
            ctx.infra_fail("extracted model failed (%s): %s" % (what, m))
            bad.add(ci)
            continue
        if what == "layout":
            st = x
            exp = None if m == "ERR" else [Fraction(v) for v in m]
            got = None if st["full"] is None else [fr(v) for v in st["full"]]
            if exp != got:
                ctx.fail("symqsp", c, "full_phases %s differ from the layout of the reduced phases %s" %
                         (None if got is None else [float(v) for v in got][:6], None if exp is None else [float(v) for v in exp][:6]))
                bad.add(ci)
            elif exp is not None and st["poly_deg"] != len(exp) - 1:
                ctx.fail("symqsp", c, "poly_deg %s for %d full phases" % (st["poly_deg"], len(exp)))
                bad.add(ci)
        elif what == "full-for-response":
            if m == "ERR":
                continue
            ro = impl[ci]["ok"]
            pts = " ".join("(%s %s %s)" % (qs(fr(a)), qs(fr(v[1])), qs(fr(v[2]))) for a, v in zip(c["samples"], ro["u00"]))
            lines2.append("(respdists 0 0 (%s) (%s))" % (" ".join(m), pts))
            meta2.append((ci, len(m), "00"))
            if "upp" in ro:
                pts = " ".join("(%s %s %s)" % (qs(fr(a)), qs(fr(v[1])), qs(fr(v[2]))) for a, v in zip(c["samples"], ro["upp"]))
                lines2.append("(respdists 0 1 (%s) (%s))" % (" ".join(m), pts))
                meta2.append((ci, len(m), "pp"))
        elif what == "jacf":
            if m[0] != "1":
                ctx.fail("symqsp", c, "gen_jacobian() values are not the Chebyshev coefficients of Im<0|U|0> (1-norm distance %s)" %
                         (Q.scaled_to_float(m[1]) if m[1] != "ERR" else "n/a"))
                bad.add(ci)
        elif what == "jac3":
            a = float.fromhex(x)
            if m == "ERR":
                ctx.fail("symqsp", c, "gen_poly_jacobian_components(a=%r) returned a vector of the wrong length" % a)
                bad.add(ci)
            else:
                k = len(red)
                sfac = 1.0 / max(math.sqrt(max(0.0, 1 - a * a)), 1e-9) if abs(a) != 1 else 0.0
                tol = (k + 1) * (1e-13 + 3e-16 * sfac)
                worst = max(range(len(m)), key=lambda j: Q.scaled_to_float(m[j]))
                if Q.scaled_to_float(m[worst]) > tol:
                    ctx.fail("symqsp", c, "gen_poly_jacobian_components(a=%r): entry %d is at distance %.3e from the 3x3 recurrence model (%s)" %
                             (a, worst, Q.scaled_to_float(m[worst]), "value Im<0|U|0>" if worst == k else "partial derivative"))
                    bad.add(ci)
        elif what == "jacdf":
            if m != "1":
                ctx.fail("symqsp", c, "gen_jacobian() derivative column %d differs from the true partial derivatives (dual-number enclosure)" % x)
                bad.add(ci)
    mod2 = run_model(lines2)
    for (ci, n, kind), m in zip(meta2, mod2):
        c = cases[ci]
        if ci in bad:
            continue
        if isinstance(m, str):
            ctx.infra_fail("extracted evaluator failed: " + m)
            continue
        ro = impl[ci]["ok"]
        if kind == "pp":
            # the off-diagonal entries: with U01 = U10 = i Q sqrt(1-a^2) (Q real for a symmetric list), <+|U|+> = Re U00 + U01 fixes them
            if ro.get("ustruct", 0.0) > (n + 1) * 1e-13:
                ctx.fail("symqsp", c, "gen_unitary returns matrices that are not symmetric SU(2) elements (max relation defect %.3e)" % ro["ustruct"])
                bad.add(ci)
                continue
            for a_hex, v, d in zip(c["samples"], ro["upp"], m):
                a = float.fromhex(a_hex)
                s = math.sqrt(max(0.0, 1 - a * a))
                tol = (n + 1) * (2e-14 + (3e-16 / max(s, 1e-9) if abs(a) != 1 else 0.0))
                if d == "ERR" or Q.scaled_to_float(d) > tol:
                    ctx.fail("symqsp", c, "gen_unitary at a=%r: <+|U|+> (diagonal + off-diagonal entries) is at distance %s from the Wx product of the full phases" %
                             (a, "n/a" if d == "ERR" else "%.3e" % Q.scaled_to_float(d)))
                    bad.add(ci)
                    break
            continue
        for a_hex, v, d, re_, im_ in zip(c["samples"], ro["u00"], m, ro["re"], ro["im"]):
            a = float.fromhex(a_hex)
            s = math.sqrt(max(0.0, 1 - a * a))
            tol = (n + 1) * (1e-14 + (3e-16 / max(s, 1e-9) if abs(a) != 1 else 0.0))
            if d == "ERR" or Q.scaled_to_float(d) > tol:
                ctx.fail("symqsp", c, "gen_unitary at a=%r: <0|U|0> = %r is at distance %s from the Wx product of the full phases" %
                         (a, complex(float.fromhex(v[1]), float.fromhex(v[2])), "n/a" if d == "ERR" else "%.3e" % Q.scaled_to_float(d)))
                break
            if re_ != v[1] or im_ != v[2]:
                ctx.fail("symqsp", c, "gen_response_re/im at a=%r are not the real/imaginary parts of gen_unitary's (0,0) entry" % a)
                break
    # in-Coq slice
    terms = []
    for ci, (c, r) in enumerate(zip(cases, impl)):
        if "ok" in r and ci not in bad and len(c["initial"]) <= 2 and len(terms) < (2 if quick else 8):
            red = ([c["initial"]] + c["history"])[-1]
            terms.append("check_jac_f %s [%s] [%s] (1 # 100000000)" % ("true" if c["parity"] == 1 else "false",
                         "; ".join(qcoq(fr(x)) for x in red), "; ".join(qcoq(fr(x)) for x in r["ok"]["f"])))
    header = ("From Coq Require Import ZArith QArith List. Import ListNotations.\n"
              "From PyqspV Require Import Model.Checkers.\n")
    res, err = coq_eval(header, terms, ctx.pid)
    ctx.instance_obligations += len(terms)
    okn = sum(1 for x in res if x is True)
    ctx.instance_discharged += okn
    if okn != len(terms):
        ctx.infra_fail("extraction cross-check: %d of %d Jacobian certificates not accepted by vm_compute %s" % (len(terms) - okn, len(terms), err))
