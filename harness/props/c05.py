"""C05 — polynomial (P,Q) completion encodes exactly the requested corner polynomial."""
import math
from fractions import Fraction

from common import fr, qs, qcoq, hexf, run_impl, run_model, coq_eval
import qsp_common as Q

LEVEL = "proof"
TECHNIQUE = ("Coq-verified checker check_pcompletion over exact rationals: unitarity residual of the returned element as in C04 and the "
             "corner certificate || (A+~A)/2 - Laurent(Re P) ||_1 + || (B+~B)/2 - Laurent(Im P) ||_1 <= 1e-9 ||P||_1, with soundness "
             "theorem C05_certificate_sound (the upper-left entry of H M(g) H equals P(cos t) within that bound for every t) and "
             "C05_corner_is_wx_response (that entry is <0|U_x|0> for phase-list elements, any ring); run on every return of "
             "completion_from_root_finding(P, 'P') for corners of random phase sequences; non-achievable P must raise")
LEVEL_TEXT = ("Props/C05.v: certificate soundness for all g, P, all t; corner = Wx response over any ring; corner splitting lemma. "
              "Every returned P-type completion goes through the extracted exact checker (slice re-checked by vm_compute); a return "
              "for a non-achievable P is checked the same way and necessarily fails it.")
LEVEL_NOTE = ("Trusted: Coq kernel + vm_compute, extraction, driver.ml, harness, numpy as executor. Axioms: stdlib real-number axioms + "
              "Classical_Prop.classic. The tolerance uses sum(|Re p_k| + |Im p_k|) >= ||P||_1 (no square roots in the checker). "
              "That achievable P are completed at all is not part of C05 (C03 covers the well-conditioned family).")
RULE = ("P = corner of a random phase sequence (both parities, degree 1..16): generic phases, phases engineered towards real / "
        "imaginary / double roots of 1-|P|^2 (symmetric sequences, multiples of pi/4, repeated phases); non-achievable P: scaled by "
        "0.5..0.999 and 1.001..2, perturbed by 1e-3..1e-1, even polynomials with |P(1)| < 1; tol default and 1e-4; distinct by JSON; "
        "non-trivial = degree >= 2")
TRUSTED = ["Coq 8.16.1 kernel incl. vm_compute", "extraction (ExtrOcamlBasic, ExtrOcamlZBigInt) + driver.ml + zarith, cross-checked in Coq on a slice",
           "harness (impl_runner.py, impl_handlers2.py; corner generation in float arithmetic only produces inputs)", "numpy as executor of the implementation"]
ASSUME = ["input and returned doubles are exact dyadic rationals"]


def gen_phases(rng, d, kind):
    n = d + 1
    if kind == "generic":
        return [rng.uniform(-math.pi, math.pi) for _ in range(n)]
    if kind == "moderate":
        return [rng.uniform(-math.pi, math.pi)] + [rng.uniform(0.3, 1.2) * rng.choice([-1, 1]) for _ in range(n - 2)] + [rng.uniform(-math.pi, math.pi)][: max(0, n - 1)]
    if kind == "symmetric":
        h = [rng.uniform(-1, 1) for _ in range((n + 1) // 2)]
        return (h + h[::-1][n % 2:])[:n]
    if kind == "quarter":
        return [rng.choice([0.0, math.pi / 4, -math.pi / 4, math.pi / 2, math.pi / 3]) for _ in range(n)]
    if kind == "repeated":
        t = rng.uniform(-1, 1)
        return [t] * n
    raise AssertionError


def run(ctx):
    rng = ctx.rng
    quick = ctx.tier == "quick"
    cases = []
    if ctx.replay is not None and ctx.replay.get("case", {}).get("fn") == "completion":
        cases = [ctx.replay["case"]]
    else:
        for d in range(1, 17):
            for rep in range(4 if quick else 40):
                kind = rng.choice(["generic", "generic", "moderate", "symmetric", "quarter", "repeated"])
                ph = gen_phases(rng, d, kind)
                ph = (ph + [0.1] * (d + 1))[: d + 1]
                pre, pim = Q.corner_of_phases(ph)
                mode = rng.choice(["achievable"] * 5 + ["scaled", "perturbed", "evenlow"])
                if mode == "scaled":
                    f = rng.choice([0.5, 0.9, 0.99, 0.999, 1.001, 1.1, 2.0])
                    pre, pim = [x * f for x in pre], [x * f for x in pim]
                elif mode == "perturbed":
                    e = rng.choice([1e-3, 1e-2, 1e-1])
                    j = rng.randrange(d % 2, d + 1, 2)
                    pre[j] += e * rng.choice([-1, 1])
                elif mode == "evenlow":
                    if d % 2 == 0:
                        pre, pim = [x * 0.7 for x in pre], [x * 0.7 for x in pim]
                    else:
                        mode = "achievable"
                c = {"fn": "completion", "coefs": Q.cplx_hex(pre, pim), "complex": True, "coef_type": rng.choice(["P", "P", "p"]),
                     "kind": kind, "mode": mode, "timeout": 120}
                u = rng.random()
                if u < 0.2:
                    c["tol"] = hexf(1e-4)
                elif u < 0.35:
                    c["tol"] = hexf(rng.choice([1e-8, 1e-9, 1e-10]))     # a tighter request: a return has to meet it
                if rng.random() < 0.2 and mode == "achievable":
                    # the same corner rounded to single precision and passed as a complex64 array (the values are exact in both types)
                    import struct
                    f32 = lambda x: struct.unpack("f", struct.pack("f", x))[0]
                    c["coefs"] = Q.cplx_hex([f32(x) for x in pre], [f32(x) for x in pim])
                    c["dtype"] = "complex64"
                    c["mode"] = "rounded32"
                cases.append(c)
        # directed: +-T_n and i T_n (1 - |P|^2 has double roots: the completion is only accurate to ~1e-8) at tight tolerances
        for n in ((3, 5, 6, 7) if quick else range(2, 13)):
            tn = [float(x) for x in Q.cheb2mono([Fraction(0)] * n + [Fraction(1)])]
            for pre, pim in ((tn, [0.0] * (n + 1)), ([0.0] * (n + 1), tn)):
                for tol in (1e-9, 1e-11):
                    cases.append({"fn": "completion", "coefs": Q.cplx_hex(pre, pim), "complex": True, "coef_type": "P", "kind": "T_n",
                                  "mode": "achievable", "tol": hexf(tol), "timeout": 120})
        # directed: complex corners that are real up to 1e-7 (phases within 3e-7 of multiples of pi/2 ... 0): the tiny imaginary part belongs to P
        for d in ((1, 2, 3, 5) if quick else range(1, 9)):
            for rep in range(2 if quick else 6):
                base = [rng.choice([0.0, 0.0, math.pi / 2, -math.pi / 2]) if 0 < j < d else 0.0 for j in range(d + 1)]
                ph = [b + rng.uniform(-3e-7, 3e-7) for b in base]
                pre, pim = Q.corner_of_phases(ph)
                cases.append({"fn": "completion", "coefs": Q.cplx_hex(pre, pim), "complex": True, "coef_type": "P", "kind": "nearly-real",
                              "mode": "achievable", "timeout": 120})
        # directed: corners with a coefficient that is non-zero but below 1e-8 of the largest one and above the 1e-9 |P|_1 budget
        # (special phases, one of them moved by a few 1e-9): such a coefficient is part of P, not noise
        found, tries = 0, 0
        while found < (4 if quick else 24) and tries < 4000:
            tries += 1
            d = rng.randint(2, 6)
            ph = [rng.choice([0.0, 0.0, math.pi / 2, -math.pi / 2, math.pi / 4, math.pi]) for _ in range(d + 1)]
            ph[rng.randrange(d + 1)] += rng.choice([2e-9, 5e-9, 8e-9, 2e-8]) * rng.choice([-1, 1])
            pre, pim = Q.corner_of_phases(ph)
            mags = [abs(complex(a, b)) for a, b in zip(pre, pim)]
            big, n1 = max(mags), sum(abs(a) + abs(b) for a, b in zip(pre, pim))
            if big > 0 and any(3e-9 * n1 < m < 0.8e-8 * big for m in mags):
                found += 1
                cases.append({"fn": "completion", "coefs": Q.cplx_hex(pre, pim), "complex": True, "coef_type": "P", "kind": "tiny-coefficient",
                              "mode": "achievable", "timeout": 120})
        # directed: P = e^{i alpha} (x^d + i eps (x^(d mod 2) - x^d)) with eps of a few 1e-9: |P| <= 1, definite parity, and the eps-sized coefficient
        # is part of P (1e-9 |P|_1 < eps < 1e-8 max|coef|)
        for d in ((2, 3, 5) if quick else range(2, 9)):
            for eps_, alpha in ((5e-9, 0.0), (8e-9, 0.4)):
                base = [0j] * (d + 1)
                base[d] = 1 - 1j * eps_
                base[d % 2] = 1j * eps_
                rot = complex(math.cos(alpha), math.sin(alpha))
                pc = [z * rot for z in base]
                cases.append({"fn": "completion", "coefs": Q.cplx_hex([z.real for z in pc], [z.imag for z in pc]), "complex": True, "coef_type": "P",
                              "kind": "tiny-coefficient", "mode": "achievable", "timeout": 120})
        # directed: short inputs scaled below 1 (non-corners of degree 1 and 2), which only the identity coefficient of F~F+G~G exposes
        for d in (1, 2):
            for rep in range(3 if quick else 12):
                ph = gen_phases(rng, d, rng.choice(["generic", "moderate", "symmetric"]))
                ph = (ph + [0.1] * (d + 1))[: d + 1]
                pre, pim = Q.corner_of_phases(ph)
                f = [0.5, 0.9, 0.99, 0.999][rep % 4]
                cases.append({"fn": "completion", "coefs": Q.cplx_hex([x * f for x in pre], [x * f for x in pim]), "complex": True,
                              "coef_type": "P", "kind": "short", "mode": "scaled", "timeout": 120})
            for cre, cim in ((0.9, 0.0), (0.0, 0.7), (0.6, 0.6), (-0.5, 0.2)):
                pre = [0.0] * d + [cre]
                pim = [0.0] * d + [cim]
                cases.append({"fn": "completion", "coefs": Q.cplx_hex(pre, pim), "complex": True, "coef_type": "P", "kind": "monomial",
                              "mode": "scaled", "timeout": 120})
    impl = run_impl(cases, timeout=3000)
    lines, keep = [], []
    for c, r in zip(cases, impl):
        d = len(c["coefs"]) - 1
        mode = c.get("mode", "replay")
        if "exc" in r:
            ctx.count(c, nontrivial=d >= 2, bucket="%s/raised:%s" % (mode, r["exc"]))
            if r["exc"] in ("WorkerDied", "CaseTimeout"):
                ctx.fail("pcompletion", c, "neither returned nor raised (%s)" % r["exc"])
            continue
        ctx.count(c, nontrivial=d >= 2, bucket="%s/returned" % mode)
        ro = r["ok"]
        bad = None
        for part in ("I", "X"):
            cf = ro[part]["coefs"]
            if any(isinstance(x, list) for x in cf):
                bad = "%s part is complex" % part
            elif any(("nan" in x or "inf" in x) for x in cf if isinstance(x, str)):
                bad = "%s part has non-finite coefficients" % part
            elif ro[part]["isz"]:
                bad = "%s part is the zero polynomial" % part
        if bad:
            ctx.fail("pcompletion", c, "returned an element whose " + bad)
            continue
        pre = [x[1] for x in c["coefs"]]
        pim = [x[2] for x in c["coefs"]]
        tol = float.fromhex(c["tol"]) if "tol" in c else 1e-6
        norm1 = sum(abs(fr(a)) + abs(fr(b)) for a, b in zip(pre, pim))
        ctol = norm1 / 10 ** 9
        lines.append("(pcompletion %s %s %d %s %d %s %s %s)" % (Q.qlist(pre), Q.qlist(pim), ro["I"]["dmin"], Q.qlist(ro["I"]["coefs"]),
                                                              ro["X"]["dmin"], Q.qlist(ro["X"]["coefs"]), qs(fr(tol)), qs(ctol)))
        keep.append((c, ro, pre, pim, tol, ctol))
    mod = run_model(lines)
    terms = []
    for (c, ro, pre, pim, tol, ctol), m in zip(keep, mod):
        if isinstance(m, str):
            ctx.infra_fail("extracted checker failed on a returned P-completion: " + str(m))
            continue
        if m[0] != "1":
            why = []
            if m[1] != "ERR":
                why.append("corner distance %.3e (allowed %.3e)" % (float(Fraction(m[1])), float(ctol)))
            else:
                why.append("corner not computable (parity / shape mismatch)")
            if m[2] != "ERR":
                why.append("max unitarity residual %.3e (tol %.1e)" % (float(max(abs(Fraction(x)) for x in m[2][2])), tol))
            ctx.fail("pcompletion", c, "returned element does not encode the requested corner / is not unitary: " + "; ".join(why))
        elif len(pre) <= 3 and len(terms) < (3 if quick else 12):
            def lp(x):
                return "(LP (%d)%%Z [%s] false)" % (x["dmin"], "; ".join(qcoq(fr(v)) for v in x["coefs"]))
            terms.append("check_pcompletion [%s] [%s] (LA %s %s) %s %s" % ("; ".join(qcoq(fr(v)) for v in pre), "; ".join(qcoq(fr(v)) for v in pim),
                                                                        lp(ro["I"]), lp(ro["X"]), qcoq(fr(tol)), qcoq(ctol)))
    header = ("From Coq Require Import ZArith QArith List. Import ListNotations.\n"
              "From PyqspV Require Import Model.LPolyM Model.LAlgM Model.Checkers.\n")
    res, err = coq_eval(header, terms, ctx.pid)
    ctx.instance_obligations += len(terms)
    okn = sum(1 for x in res if x is True)
    ctx.instance_discharged += okn
    if okn != len(terms):
        ctx.infra_fail("extraction cross-check: %d of %d certificates accepted by the extracted checker are not accepted by vm_compute %s"
                       % (len(terms) - okn, len(terms), err))
