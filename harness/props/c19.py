"""C19 — infeasible or malformed requests fail with documented errors; calls are pure."""
import math
from fractions import Fraction

from common import fr, qs, qcoq, hexf, run_impl, run_model, coq_eval
import qsp_common as Q

LEVEL = "proof"
TECHNIQUE = ("Coq decision model of the option validation of QuantumSignalProcessingPhases / completion_from_root_finding / "
             "ComputeQSPResponse and of the kernel-event -> exception mapping, with theorems over ALL strings (unknown method, signal "
             "operator, measurement, completion type are answered with the documented class; validation answers with nothing else; "
             "every kernel event maps to CompletionError or AngleFindingError; the as-found tree refuted). The implementation's "
             "outcome class is compared with the model (evaluated in Coq) on invalid option strings and on generated infeasible "
             "polynomials; purity and determinism are checked by the harness on call sequences (bitwise snapshots)")
LEVEL_TEXT = ("Props/C19.v: 8 theorems. Error clause: model/implementation outcome agreement on generated infeasible real polynomials of "
              "degree 1..30 (scaled past 1, locally exceeding 1, c*T_d), mixed parity, and invalid option strings. Purity clause: "
              "PARTIAL - runtime behaviour (argument arrays, module constants Id/w/iX, same RNG state => same result) is observed by "
              "the harness on call sequences of length <= 8; no theorem covers it.")
LEVEL_NOTE = ("Trusted: Coq kernel + vm_compute, harness, numpy as executor. Theorems are axiom-free. The list of kernel events in the "
              "model is complete only empirically: any exception class outside the documented four seen in the run is reported "
              "whatever the model says.")
RULE = ("infeasible real polynomials of degree 1..30: feasible Chebyshev vectors scaled by 1.001..100, locally exceeding 1, c*T_d with "
        "c in [1, 5] (all roots of 1-F F~ on the circle), both signal operators, stubbed random choices; mixed parity; invalid strings "
        "for signal_operator / measurement / method / coef_type; purity: random sequences of 2..8 public calls (phase finding, "
        "completion (float F, integer-typed P), conversions, response, solver, decomposition; polynomials as ndarray / list / numpy Polynomial, "
        "with and without round-off sized residue in the off-parity slots) run twice from one numpy seed; distinct by JSON; non-trivial = always")
TRUSTED = ["Coq 8.16.1 kernel incl. vm_compute", "harness (impl_handlers2.py, impl_handlers7.py)", "numpy/scipy as executors"]
ASSUME = ["documented classes: CompletionError, AngleFindingError, ResponseError, ValueError"]
DOC = {"CompletionError", "AngleFindingError", "ResponseError", "ValueError"}

BAD_SO = ["Wy", "wx", "", "WX", "Wxz"]
BAD_MEAS = ["y", "X", "", "zz", "xz"]
BAD_METHOD = ["Laurent", "", "sym", "tff", "laurent "]
BAD_CT = ["Q", "", "Ff", "Pp", "FP", "laurent", "F ", "fF"]


def coq_opt(s):
    return "None" if s is None else '(Some "%s")' % s


def run(ctx):
    rng = ctx.rng
    quick = ctx.tier == "quick"
    # ---------------------------------------------------------------- invalid option strings
    opt_cases = []
    for so in BAD_SO:
        opt_cases.append(("qspp", so, None, "laurent"))
        opt_cases.append(("qspp", so, rng.choice(["x", "z"]), "laurent"))
    for m in BAD_MEAS:
        opt_cases.append(("qspp", rng.choice(["Wx", "Wz"]), m, "laurent"))
    opt_cases += [("qspp", "Wz", "x", "laurent"), ("qspp", "Wz", None, "tf"), ("qspp", "Wx", None, "laurent"), ("qspp", "Wz", "z", "laurent"), ("qspp", "Wx", "z", "laurent")]
    for me in BAD_METHOD:
        opt_cases.append(("qspp", rng.choice(["Wx", "Wz", "Wq"]), None, me))
    for ct in BAD_CT + ["F", "p"]:
        opt_cases.append(("completion", ct, None, None))
    for so in BAD_SO[:3]:
        opt_cases.append(("response", so, None, None))
    for m in BAD_MEAS[:3]:
        opt_cases.append(("response", "Wx", m, None))
    for m in BAD_MEAS:
        opt_cases.append(("response", "Wz", m, None))
    opt_cases.append(("response", "Wz", None, None))
    terms = []
    for kind, a, b, c_ in opt_cases:
        if kind == "qspp":
            t = 'qspp_validate "%s" %s "%s"' % (a, coq_opt(b), c_)
            terms.append("match %s with inl ValueError => true | _ => false end" % t)
        elif kind == "completion":
            terms.append('match completion_validate "%s" with Some CompletionError => true | _ => false end' % a)
        else:
            terms.append('match response_validate "%s" %s with Some ResponseError => true | _ => false end' % (a, coq_opt(b)))
    header = ("From Coq Require Import ZArith List Bool String. Import ListNotations. Open Scope string_scope.\n"
              "From PyqspV Require Import Model.ErrM.\n")
    res, err = coq_eval(header, terms, ctx.pid)
    ctx.instance_obligations += len(terms)
    ctx.instance_discharged += sum(1 for x in res if x is not None)
    if any(x is None for x in res):
        ctx.infra_fail("the decision model could not be evaluated in Coq: " + err)
        return
    good = [float(x) for x in (0.0, 0.5, 0.0, 0.2)]
    cases = []
    for (kind, a, b, c_), refused in zip(opt_cases, res):
        if kind == "qspp":
            cases.append({"fn": "qspp", "poly": [hexf(x) for x in good], "signal_operator": a, "measurement": b, "method": c_, "expect": "ValueError" if refused else None,
                          "timeout": 120, "site": "options"})
        elif kind == "completion":
            cases.append({"fn": "completion", "coefs": [hexf(0.3), hexf(0.2)], "coef_type": a, "seed": [0], "expect": "CompletionError" if refused else None, "timeout": 120, "site": "options"})
        else:
            cases.append({"fn": "response", "adat": [hexf(0.3)], "phases": [hexf(0.1), hexf(0.2)], "signal_operator": a, "measurement": b,
                          "expect": "ResponseError" if refused else None, "timeout": 120, "site": "options"})
    # ---------------------------------------------------------------- infeasible polynomials
    degs = [1, 2, 3, 4, 5, 7, 10, 15, 22, 30] if quick else list(range(1, 31))
    for d in degs:
        for rep in range(3 if quick else 8):
            kind = rng.choice(["scaled", "scaled", "local", "cTd", "mixed"])
            p, cvec = Q.cheb_family(rng, d, 0.8, 0.1)
            if kind == "scaled":
                s = Q.sup_estimate(p)
                f = rng.choice([1.001, 1.01, 1.5, 5.0, 100.0])
                p = [x / s * f for x in p]
            elif kind == "local":
                s = Q.sup_estimate(p)
                p = [x / s * 0.9 for x in p]
                p[d] += rng.choice([0.3, 1.0]) * (1 if p[d] >= 0 else -1)
            elif kind == "cTd":
                c = [0.0] * (d + 1)
                c[d] = rng.choice([1.0, 1.5, 5.0])
                p = [float(x) for x in Q.cheb2mono([Fraction(*float(x).as_integer_ratio()) for x in c])]
            else:
                j = (d - 1) if d >= 1 else 0
                p[j] += rng.choice([1e-3, 0.1, 0.5])
            cases.append({"fn": "qspp", "poly": [hexf(x) for x in p], "signal_operator": rng.choice(["Wx", "Wz"]), "bits": [rng.randint(0, 1) for _ in range(8)],
                          "kind": kind, "expect": "documented", "timeout": 300, "site": "infeasible"})
    # direct completion of Laurent lists with exactly-zero outer coefficients (roots at 0 / infinity), every reflection choice
    for coefs in ([0.0, 0.0, 1.2], [0.0, 0.5, 0.0], [0.0, 0.3, 0.9], [1.1, 0.0, 0.0], [0.0, 0.0, 0.4, 0.0, 0.0], [0.0, 1.3]):
        n = len(coefs) - 1
        for seed in ([1] * n, [0] * n, [1, 0] * n, None):
            cases.append({"fn": "completion", "coefs": [hexf(x) for x in coefs], "coef_type": "F", "seed": None if seed is None else seed[:n],
                          "expect": "documented", "timeout": 120, "site": "infeasible", "kind": "zero-ended"})
    # Laurent lists with |F| > 1 on the whole circle (one coefficient exceeds 1 + the sum of the others): no completion exists, CompletionError
    for coefs in ([0.125, 2.25, 0.125], [2.0, 0.3], [0.2, 3.0, 0.1], [0.1, 0.1, 1.5], [-1.8, 0.2, 0.3, 0.1]):
        for seed in (None, [0] * (len(coefs) - 1), [1] * (len(coefs) - 1)):
            cases.append({"fn": "completion", "coefs": [hexf(x) for x in coefs], "coef_type": "F", "seed": seed, "expect": "CompletionError",
                          "timeout": 120, "site": "infeasible", "kind": "outside-disc"})
    impl = run_impl(cases, timeout=3000)
    for c, r in zip(cases, impl):
        ctx.count(c, nontrivial=True, bucket="%s/%s/%s" % (c["site"], c.get("kind", c["fn"]), r.get("exc", "returned")))
        exp = c["expect"]
        if "exc" in r:
            if r["exc"] in ("WorkerDied", "CaseTimeout"):
                ctx.fail(c["site"], c, "neither returned nor raised (%s)" % r["exc"])
            elif exp in (None, "documented"):
                if r["exc"] not in DOC:
                    ctx.fail(c["site"], c, "answered with %s (%s): not one of the documented error classes" % (r["exc"], r.get("msg", "")[:100]))
            elif r["exc"] != exp:
                ctx.fail(c["site"], c, "invalid option answered with %s (%s), documented: %s" % (r["exc"], r.get("msg", "")[:80], exp))
        else:
            if exp not in (None, "documented"):
                ctx.fail(c["site"], c, "invalid option accepted (expected %s)" % exp)
            elif c["fn"] == "qspp" and not r["ok"]["finite"]:
                ctx.fail(c["site"], c, "returned NaN / infinite phases")
    # ---------------------------------------------------------------- purity and determinism
    def rand_op():
        k = rng.choice(["qspp", "qspp", "completion", "p2l", "c2p", "p2c", "response", "newton", "angle_sequence", "ptlf", "roundtrip", "qsppP",
                        "response_edge", "qspp_infeasible", "qspp_infeasible", "qspp_residue", "completionP_int"])
        if k == "qspp_residue":
            # a definite-parity polynomial carrying round-off sized residue in the other parity's slots, as a fit or a product
            # leaves behind; passed as ndarray, list or a numpy Polynomial (whose .coef is the caller's array)
            d = rng.randint(2, 8)
            p, _ = Q.cheb_family(rng, d, rng.uniform(0.3, 0.8), 0.15)
            for j in range(d - 1, -1, -2):
                p[j] = rng.choice([2.5e-17, -4e-17, 1e-16, 3e-18, 0.0])
            return {"call": "qspp", "poly": [hexf(x) for x in p], "signal_operator": rng.choice(["Wx", "Wz"]),
                    "container": rng.choice(["Polynomial", "Polynomial", "list", "array"])}
        if k == "completionP_int":
            # integer-typed P: c*T_d in the monomial basis (c = 1 on the boundary, c >= 2 infeasible), or small feasible ones after scaling
            d = rng.randint(1, 6)
            c = [0] * (d + 1)
            c[d] = rng.choice([1, 1, 2, 3])
            p = [int(x) for x in Q.cheb2mono([Fraction(x) for x in c])]
            return {"call": "completion", "coefs": [hexf(float(x)) for x in p], "coef_type": "P", "as_int": True,
                    "container": rng.choice(["list", "array"])}
        if k == "response_edge":
            # a grid as numpy.arange(-1, 1.01, 0.05) produces: its last point is 1.0000000000000018
            return {"call": "response", "adat": [hexf(-1.0), hexf(0.3), hexf(1.0000000000000018)], "phases": [hexf(rng.uniform(-3, 3)) for _ in range(rng.randint(1, 4))],
                    "signal_operator": rng.choice(["Wx", "Wz"])}
        if k == "qspp_infeasible":
            d = rng.randint(1, 6)
            c = [0.0] * (d + 1)
            c[d] = rng.choice([1.01, 1.2, 1.5])
            if rng.random() < 0.5 and d >= 2:
                c[d - 2] = rng.choice([0.3, -0.4])
            p = [float(x) for x in Q.cheb2mono([Fraction(*float(x).as_integer_ratio()) for x in c])]
            return {"call": "qspp", "poly": [hexf(x) for x in p], "signal_operator": rng.choice(["Wx", "Wz"])}
        if k == "qspp":
            d = rng.randint(1, 8)
            p, _ = Q.cheb_family(rng, d, rng.uniform(0.2, 0.8), 0.15)
            return {"call": "qspp", "poly": [hexf(x) for x in p], "signal_operator": rng.choice(["Wx", "Wz"]),
                    "container": rng.choice(["array", "array", "list", "Polynomial"])}
        if k == "qsppP":
            ph = [rng.uniform(-1, 1) for _ in range(rng.randint(2, 5))]
            pre, pim = Q.corner_of_phases(ph)
            return {"call": "qspp", "poly": Q.cplx_hex(pre, pim), "complex": True, "signal_operator": "Wx", "measurement": "z"}
        if k == "completion" and rng.random() < 0.35:
            # zero-ended Laurent list with explicit reflection bits held by the caller (ndarray / list / tuple)
            n = rng.randint(2, 4)
            v = [0.0] + [rng.uniform(-0.4, 0.4) for _ in range(n - 1)] + [rng.choice([0.0, 0.3])]
            return {"call": "completion", "coefs": [hexf(x) for x in v], "coef_type": "F", "seed": [rng.randint(0, 1) for _ in range(n)],
                    "seed_container": rng.choice(["array", "list", "tuple", "boolarray"])}
        if k == "completion":
            n = rng.randint(1, 6)
            v = [rng.uniform(-1, 1) for _ in range(n + 1)]
            s = sum(abs(x) for x in v)
            op = {"call": "completion", "coefs": [hexf(x / s * 0.8) for x in v], "coef_type": "F"}
            if rng.random() < 0.5:
                op["seed"] = [rng.randint(0, 1) for _ in range(n)]
            return op
        if k == "p2l":
            d = rng.randint(1, 8)
            return {"call": "p2l", "p": [hexf(rng.uniform(-1, 1) if (j - d) % 2 == 0 else 0.0) for j in range(d + 1)]}
        if k in ("c2p", "p2c"):
            n = rng.randint(1, 8)
            if rng.random() < 0.5:      # complex coefficient arrays (the helpers serve real and complex input)
                return {"call": k, "p": Q.cplx_hex([rng.uniform(-1, 1) for _ in range(n)], [rng.uniform(-1, 1) for _ in range(n)]), "complex": True,
                        "kind": rng.choice(["T", "U"])}
            return {"call": k, "p": [hexf(rng.uniform(-1, 1)) for _ in range(n)], "kind": rng.choice(["T", "U"])}
        if k == "response":
            return {"call": "response", "adat": [hexf(rng.uniform(-1, 1)) for _ in range(3)], "phases": [hexf(rng.uniform(-3, 3)) for _ in range(rng.randint(1, 6))],
                    "signal_operator": rng.choice(["Wx", "Wz"])}
        if k == "newton":
            kk = rng.randint(1, 5)
            v = [rng.uniform(-1, 1) for _ in range(kk)]
            s = sum(abs(x) for x in v)
            return {"call": "newton", "coef": [hexf(x / s * 0.7) for x in v], "parity": rng.randint(0, 1)}
        if k == "angle_sequence":
            n = rng.randint(1, 5)
            v = [rng.uniform(-1, 1) for _ in range(n + 1)]
            s = sum(abs(x) for x in v)
            return {"call": "angle_sequence", "p": [hexf(x / s * 0.7) for x in v], "eps": hexf(1e-3), "suc": hexf(0.999)}
        if k == "ptlf":
            d = rng.randint(1, 6)
            return {"call": "ptlf", "p": [hexf(rng.uniform(-1, 1) if (j - d) % 2 == 0 else 0.0) for j in range(d + 1)]}
        return {"call": "roundtrip", "phases": [hexf(rng.uniform(-1, 1)) for _ in range(rng.randint(2, 8))]}
    pcases = []
    if ctx.replay is not None and ctx.replay.get("case", {}).get("fn") == "purity":
        pcases = [ctx.replay["case"]]
    else:
        for i in range(40 if quick else 500):
            pcases.append({"fn": "purity", "ops": [rand_op() for _ in range(rng.randint(2, 8))], "seed": rng.randrange(2 ** 31), "timeout": 600})
    pim = run_impl(pcases, timeout=3000)
    for c, r in zip(pcases, pim):
        ctx.count(c, nontrivial=True, bucket="purity/len=%d" % len(c["ops"]))
        if "exc" in r:
            ctx.fail("purity", c, "sequence runner failed: %s %s" % (r["exc"], r.get("msg", "")[:100]))
            continue
        ro = r["ok"]
        if ro["args_changed"]:
            ctx.fail("purity", c, "argument arrays modified by the call: %s" % ro["args_changed"][:3])
            continue
        if ro["consts_before"] != ro["consts_after"]:
            ctx.fail("purity", c, "module constants Id / w / iX changed during the call sequence")
            continue
        for k, (a, b) in enumerate(zip(ro["run1"], ro["run2"])):
            if a != b:
                ctx.fail("purity", c, "call %d (%s): same arguments and same numpy random state give different results" % (k, c["ops"][k]["call"]))
                break
        for k, a in enumerate(ro["run1"]):
            if isinstance(a, dict) and "exc" in a and a["exc"] not in DOC:
                ctx.fail("purity", c, "call %d (%s) raised %s (%s): not a documented class" % (k, c["ops"][k]["call"], a["exc"], a.get("msg", "")))
                break
    ctx.residual.append("purity and determinism are runtime behaviour: decided by harness observation on generated call sequences only (partial)")
