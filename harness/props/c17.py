"""C17 — generator options consistent: same polynomial across bases, scale is the true factor."""
import math
from fractions import Fraction

from common import fr, qs, qcoq, hexf, run_impl, run_model, coq_eval
import qsp_common as Q
import gen_common as G
from props.c11 import c2p_mag

LEVEL = "proof"
TECHNIQUE = ("Coq dataflow model of generate() (kernel output and normalisation factor arbitrary): coefficients independent of "
             "return_scale, scale returned iff ensure_bounded and return_scale, bounded = scale * unbounded over any ring; cheb2poly "
             "denotes the Chebyshev sum (basis switch); the as-found ReLU variant refuted. The extracted checkers scaled_close / "
             "same_poly_bases (exact rational conversion with the proved cheb2poly model) are run on pairs of generate() calls under "
             "all option combinations for every generator")
LEVEL_TEXT = ("Props/C17.v: 5 theorems over arbitrary kernel outputs. Per run, for every generator and argument tuple the 8 option "
              "combinations are called and compared pairwise: exact equality across return_scale, bounded = scale * unbounded "
              "(relative 1e-9), and for cosine / sine / 1/x equality of the polynomials denoted in the two bases after exact "
              "conversion (rounding budget).")
LEVEL_NOTE = ("Trusted: Coq kernel, extraction, driver.ml, harness, numpy/scipy as executors. Axiom-free theorems. The kernels are "
              "deterministic, so calls under different options see the same raw polynomial: this is assumed by the pairwise comparison.")
RULE = ("all generators x argument tuples (degrees <= 24 where a monomial call is involved, up to 60 otherwise) x all 8 combinations of "
        "return_scale / ensure_bounded / chebyshev_basis, compared pairwise; shapes whose unnormalised fit is flat or tall (applied factor 0.05..50);  repeated calls with the same arguments in one process "
        "(caching defects); distinct by JSON; non-trivial = always")
TRUSTED = ["Coq 8.16.1 kernel", "extraction (ExtrOcamlBasic, ExtrOcamlZBigInt) + driver.ml + zarith", "harness (impl_runner.py, impl_handlers5.py)",
           "numpy/scipy as executors of the implementation"]
ASSUME = ["the numerical kernels are deterministic functions of their arguments"]
U = Fraction(1, 2 ** 53)


def run(ctx):
    rng = ctx.rng
    quick = ctx.tier == "quick"
    groups = []
    if ctx.replay is not None and "group" in ctx.replay.get("case", {}):
        groups = [ctx.replay["case"]["group"]]
    else:
        for name in G.ERF + G.CHEBSUM:
            for rep in range(2 if quick else 12):
                if name in G.ERF:
                    a = dict(G.shape_args(rng, name), degree=G.right_parity_degree(rng, name, 2, 24 if rep % 2 == 0 else 14))
                else:
                    a = G.shape_args(rng, name)
                    if name in ("cos", "sin") and a["tau"] > 12:
                        a["tau"] = rng.uniform(0.5, 12)
                if name in G.ERF and rep % 2 == 1:
                    a["degree"] = G.right_parity_degree(rng, name, 20, 60)
                    cheb_only = True
                else:
                    cheb_only = False
                if name in ("cos", "sin") and rep % 2 == 1:
                    a["tau"], a["epsilon"] = rng.choice([(16.0, 0.3), (0.5, 0.3), (12.0, 0.5), (8.0, 0.3), (3.0, 0.5)])
                extra = {}
                if name in G.ERF and rng.random() < 0.5:
                    extra["max_scale"] = hexf(rng.choice([0.5, 0.9, 1.0, 0.3]))
                groups.append({"name": name, "args": G.enc_args(a), "extra": extra, "order": rng.sample(range(8), 8), "cheb_only": cheb_only})
    if ctx.replay is None:
        # 1/x over small and ordinary b = int(kappa^2 log(kappa/eps)) (the Chebyshev sum has trailing zeros when j0 >= b)
        for kappa, eps in ((1.5, 0.3), (1.3, 0.2), (1.1, 0.01), (2.0, 0.1), (3.0, 0.3), (1.2, 0.3)):
            groups.append({"name": "invert", "args": G.enc_args({"kappa": kappa, "epsilon": eps}), "extra": {}, "order": rng.sample(range(8), 8), "cheb_only": False})
        # shapes whose unnormalised fit is small (or large) everywhere on [-1,1]: the applied factor is far from 1
        flat = [("sign", {"delta": 0.1}), ("sign", {"delta": 0.02}), ("thresh", {"delta": 0.2}), ("thresh", {"delta": 0.05}), ("phase_est", {"delta": 0.1}),
                ("linamp", {"gamma": 2.0, "kappa": 5}), ("linamp", {"gamma": 3.0, "kappa": 10}), ("softplus", {"delta": 0.9, "kappa": 40}),
                ("gibbs", {"beta": 0.01}), ("efilter", {"delta": 0.9}), ("relu", {"delta": 0.9})]
        for name, sh in (flat[::2] + flat[1::4] if quick else flat):
            for dlo, dhi in ((2, 10),) if quick else ((2, 10), (11, 24)):
                a = dict(sh, degree=G.right_parity_degree(rng, name, dlo, dhi))
                extra = {"max_scale": hexf(rng.choice([0.9, 1.0, 0.5]))} if rng.random() < 0.5 else {}
                groups.append({"name": name, "args": G.enc_args(a), "extra": extra, "order": rng.sample(range(8), 8), "cheb_only": False})
        # generators constructed with verbose=False (the constructor flag must not change any value)
        for name in (["sign", "gibbs", "relu", "linamp"] if quick else G.ERF):
            a = dict(G.shape_args(rng, name), degree=G.right_parity_degree(rng, name, 2, 14))
            groups.append({"name": name, "args": G.enc_args(a), "extra": {"ctor": {"verbose": False}}, "order": rng.sample(range(8), 8), "cheb_only": False})
        # cosine / sine of a negative time (cos is even in tau, sin odd)
        for name, tau, eps in (("sin", -6.0, 0.1), ("sin", -2.5, 0.3), ("cos", -6.0, 0.1), ("cos", -3.0, 0.01)):
            groups.append({"name": name, "args": G.enc_args({"tau": tau, "epsilon": eps}), "extra": {}, "order": rng.sample(range(8), 8), "cheb_only": False})
        for name in ("cos", "sin"):
            for tau, eps in ((16.0, 0.3), (0.5, 0.3), (12.0, 0.5), (8.0, 0.3), (3.0, 0.5), (1.0, 0.1)):
                groups.append({"name": name, "args": G.enc_args({"tau": tau, "epsilon": eps}), "extra": {}, "order": rng.sample(range(8), 8), "cheb_only": False})
    if ctx.replay is None:
        # sweep: bounded (with scale) against unbounded only, Chebyshev basis, low degrees (interior global maxima) and non-default sample
        # counts - a second normalisation after the scale was computed shows up only when some other grid sees a larger value
        for name in G.ERF:
            for rep in range(12 if quick else 60):
                a = dict(G.shape_args(rng, name), degree=G.right_parity_degree(rng, name, 2, 13))
                groups.append({"name": name, "args": G.enc_args(a), "extra": {"cheb_samples": rng.choice([20, 30, 40, 60, 80])}, "order": [0, 6],
                               "cheb_only": True, "pair": True})
    combos = [(eb, rs, cheb) for eb in (True, False) for rs in (True, False) for cheb in (True, False)]
    cases = []
    for gi, g in enumerate(groups):
        # the 8 calls of a group run in one worker process, in a shuffled order, followed by a repeat of the first
        order = [k for k in g["order"] if combos[k][2] or not g.get("cheb_only")]
        seq = [combos[k] for k in order] + [combos[order[0]]]
        for (eb, rs, cheb) in seq:
            c = {"fn": "gen", "name": g["name"], "args": g["args"], "ensure_bounded": eb, "return_scale": rs, "chebyshev_basis": cheb,
                 "timeout": 300, "gi": gi}
            c.update(g["extra"])
            cases.append(c)
    # keep each group on one worker: run groups as batches through a single-worker call per chunk
    impl = []
    per = 9
    chunks = [cases[i:i + per] for i in range(0, len(cases), per)]
    import common
    # run_impl distributes round-robin over workers; to keep a group in one process run several groups per call with workers=1
    from concurrent.futures import ThreadPoolExecutor
    nw = common.NCPU
    batches = [sum(chunks[i::nw], []) for i in range(nw)]
    with ThreadPoolExecutor(max_workers=nw) as ex:
        outs = list(ex.map(lambda b: run_impl(b, timeout=3000, workers=1) if b else [], batches))
    pos = {}
    for bi, b in enumerate(batches):
        for k, c in enumerate(b):
            pos[id(c)] = outs[bi][k]
    impl = [pos[id(c)] for c in cases]
    # the same requests, each as the only call of a fresh process: what a sequence returns must not depend on earlier calls
    fresh_cases = []
    for gi, g in enumerate(groups):
        if g.get("pair"):
            continue
        for (eb, rs) in ((False, False), (True, True)):
            c = {"fn": "gen", "name": g["name"], "args": g["args"], "ensure_bounded": eb, "return_scale": rs, "chebyshev_basis": True,
                 "timeout": 300, "gi": gi}
            c.update(g["extra"])
            fresh_cases.append(c)
    fresh = []
    for i in range(0, len(fresh_cases), 32):
        part = fresh_cases[i:i + 32]
        fresh += run_impl(part, timeout=3000, workers=len(part))
    FRESH = {}
    for c, r in zip(fresh_cases, fresh):
        FRESH[(c["gi"], c["ensure_bounded"])] = r

    def differs(a, b):
        if len(a["coefs"]) != len(b["coefs"]):
            return True
        mx = max([abs(float(fr(x))) for x in a["coefs"]] + [1e-300])
        if any(abs(float(fr(x)) - float(fr(y))) > 1e-9 * mx for x, y in zip(a["coefs"], b["coefs"])):
            return True
        if (a["scale"] is None) != (b["scale"] is None):
            return True
        return a["scale"] is not None and abs(float(fr(a["scale"])) - float(fr(b["scale"]))) > 1e-9 * abs(float(fr(b["scale"])))
    lines, meta = [], []
    for gi, g in enumerate(groups):
        R = {}
        rep_first = None
        idx = [i for i, c in enumerate(cases) if c["gi"] == gi]
        bad = False
        for k, i in enumerate(idx):
            c, r = cases[i], impl[i]
            key = (c["ensure_bounded"], c["return_scale"], c["chebyshev_basis"])
            if "exc" in r:
                ctx.fail("options", {"group": g}, "%s raised %s (%s) under options %s" % (g["name"], r["exc"], r.get("msg", "")[:80], key))
                bad = True
                break
            if k == len(idx) - 1:
                rep_first = (key, r["ok"])
            else:
                R[key] = r["ok"]
        ctx.count(g, nontrivial=True, bucket=g["name"])
        if bad:
            continue
        case = {"group": g}
        key0, again = rep_first
        if again["coefs"] != R[key0]["coefs"] or again["scale"] != R[key0]["scale"]:
            ctx.fail("options", case, "%s: repeating the call with options %s in the same process gives a different result (scale %s vs %s)"
                     % (g["name"], key0, again["scale"], R[key0]["scale"]))
            continue
        stale = False
        for eb in (False, True):
            fr_ = FRESH.get((gi, eb))
            if fr_ is None or "exc" in fr_:
                continue
            if differs(R[(eb, eb, True)], fr_["ok"]):
                ctx.fail("options", case, "%s: the result of generate(ensure_bounded=%s, return_scale=%s, chebyshev_basis=True) inside a call sequence differs from the "
                         "same call made first in a fresh process (scale %s vs %s): state carried across calls"
                         % (g["name"], eb, eb, R[(eb, eb, True)]["scale"], fr_["ok"]["scale"]))
                stale = True
        if stale:
            continue
        bases = (True,) if g.get("cheb_only") else (True, False)
        for eb in (() if g.get("pair") else (True, False)):
            for cheb in bases:
                a, b = R[(eb, True, cheb)], R[(eb, False, cheb)]
                if a["coefs"] != b["coefs"]:
                    ctx.fail("options", case, "%s: coefficients depend on return_scale (ensure_bounded=%s, chebyshev_basis=%s)" % (g["name"], eb, cheb))
                    bad = True
                if (a["scale"] is not None) != eb or b["scale"] is not None:
                    ctx.fail("options", case, "%s: scale returned = (%s, %s) for return_scale = (True, False), ensure_bounded=%s" %
                             (g["name"], a["scale"] is not None, b["scale"] is not None, eb))
                    bad = True
        if bad:
            continue
        for cheb in bases:
            bnd, unb = R[(True, True, cheb)], R[(False, False, cheb)]
            mx = max(abs(fr(x)) for x in bnd["coefs"]) or Fraction(1)
            lines.append("(scaledclose %s %s %s %s)" % (Q.qlist(bnd["coefs"]), Q.qlist(unb["coefs"]), qs(fr(bnd["scale"])), qs(mx / 10 ** 9)))
            meta.append((case, "scale", cheb, bnd, unb))
        if g["name"] in G.CHEBSUM:
            for eb in (True, False):
                ch, mo = R[(eb, False, True)], R[(eb, False, False)]
                if len(mo["coefs"]) > 25 or len(ch["coefs"]) > 25:
                    ctx.bucket("basis comparison skipped: degree > 24")
                    continue
                if len(ch["coefs"]) != len(mo["coefs"]):
                    ctx.fail("options", case, "%s: %d Chebyshev coefficients but %d monomial ones" % (g["name"], len(ch["coefs"]), len(mo["coefs"])))
                    continue
                mag = c2p_mag([fr(x) for x in ch["coefs"]], False)
                tol = 64 * (len(mag) + 2) * U * max(mag)
                lines.append("(samebases %s %s %s)" % (Q.qlist(ch["coefs"]), Q.qlist(mo["coefs"]), qs(tol)))
                meta.append((case, "bases", eb, ch, mo))
    mod = run_model(lines)
    for (case, what, flag, x, y), m in zip(meta, mod):
        if m not in ("0", "1"):
            ctx.infra_fail("extracted checker failed: " + str(m))
        elif m == "0":
            g = case["group"]
            if what == "scale":
                s = float.fromhex(x["scale"])
                ratios = [float.fromhex(b) / float.fromhex(u) for b, u in zip(x["coefs"], y["coefs"]) if float.fromhex(u) != 0]
                ctx.fail("options", case, "%s (chebyshev_basis=%s): returned scale %r is not the factor applied (bounded/unbounded ratios %s)"
                         % (g["name"], flag, s, sorted(set(round(r, 9) for r in ratios))[:3]))
            else:
                ctx.fail("options", case, "%s (ensure_bounded=%s): the Chebyshev-basis and monomial-basis outputs denote different polynomials" % (g["name"], flag))
