"""C09 — parity-constrained Laurent polynomial arithmetic is exact ring arithmetic."""
import math
from fractions import Fraction

from common import fr, qs, hexf, run_impl, run_model, coq_eval
import exprs


def Q_list(xs):
    return "(" + " ".join(qs(fr(x)) for x in xs) + ")"
from exprs import U

LEVEL = "proof"
TECHNIQUE = ("Coq theorems over an abstract commutative ring about the executable LPoly model "
             "(coefficient/evaluation homomorphisms, window theorem, zero laws) + extracted-model / "
             "implementation correspondence on random operation histories; verified interval "
             "certificates for point evaluation and the sampled sup norm")


def self_consistent(r):
    n = len(r["coefs"])
    if r["dmax"] != 2 * n + r["dmin"] - 2:
        return "dmax != 2*len + dmin - 2"
    if r["degree"] != max(-r["dmin"], r["dmax"]):
        return "degree != max(-dmin, dmax)"
    if r["parity"] != r["dmin"] % 2:
        return "parity != dmin mod 2"
    return None


def run(ctx):
    rng = ctx.rng
    quick = ctx.tier == "quick"
    cases = []
    if ctx.replay is not None and ctx.replay.get("site", "").startswith("history"):
        cases = [ctx.replay["case"]]
    else:
        n = 700 if quick else 12000
        for i in range(n):
            fam = rng.choice(["int", "int", "dyadic", "generic", "wide", "mixed", "mixed"])
            par = rng.randint(0, 1)
            depth = rng.choice([0, 1, 1, 2, 2, 3, 3])
            bad = 0.0 if rng.random() < 0.93 else 0.5
            e = exprs.gen_pexpr(rng, fam, par, depth, 12 if depth else 40, bad)
            keys = [rng.randint(-30, 30) for _ in range(4)]
            cases.append({"e": e, "fam": fam, "keys": keys, "malformed": bad > 0})
        # directed zero-polynomial laws
        for fam in ("int", "generic"):
            for par in (0, 1):
                p = exprs.lit(rng, fam, par, 6, pzero=0.0)
                z = ["lit", 0, []]
                for e in (["add", p, z], ["add", z, p], ["mul", p, z], ["mul", z, p], ["sub", p, z], ["sub", z, p],
                          ["add", z, z], ["mul", z, z], ["neg", z], ["inv", z], ["scale", 2.5 if fam != "int" else 3, z],
                          ["rscale", 2.5 if fam != "int" else 3, z], ["add", ["neg", z], p], ["mul", ["inv", z], p],
                          ["sub", ["mul", p, z], ["neg", p]], ["add", ["scale", 0.5 if fam != "int" else 2, z], p],
                          ["trunc", z, par, par + 4], ["posh", z], ["negh", z]):
                    cases.append({"e": e, "fam": fam, "keys": [0, 1, -1, 2], "malformed": False, "directed": "zero"})
        # directed: literals with exactly-zero leading / trailing / interior coefficients (stored, not stripped), for point evaluation
        for fam in ("int", "generic"):
            for pat in ([0, 1, 1], [1, 1, 0], [0, 0, 1, 1], [0, 1, 0, 1, 0], [1, 0, 0], [0, 1], [0, 0, 0]):
                for dmin in (-5, -2, 0, 3):
                    v = [0.0 if b == 0 else (float(rng.randint(1, 9)) if fam == "int" else rng.uniform(-2, 2)) for b in pat]
                    cases.append({"e": ["lit", dmin, v], "fam": fam, "keys": [dmin, dmin + 2, 0, 1], "malformed": False, "directed": "stored zeros"})
        # directed: real palindromes on a symmetric range (cosine series), odd and even length, and their squares
        for n in ((2, 3, 5, 6) if quick else range(2, 12)):
            for fam in ("int", "generic"):
                h = [float(rng.randint(1, 9)) if fam == "int" else rng.uniform(-2, 2) for _ in range((n + 1) // 2)]
                v = h + h[::-1][n % 2:]
                pl = ["lit", -(n - 1), v]
                cases.append({"e": pl, "fam": fam, "keys": [-(n - 1), 0, n - 1, 1], "malformed": False, "directed": "symmetric palindrome"})
                cases.append({"e": ["mul", pl, pl], "fam": fam, "keys": [0, 2, -2 * (n - 1), 1], "malformed": False, "directed": "symmetric palindrome"})
        # directed: products of two longer literals, over many length pairs (incl. sums of lengths next to powers of two)
        pairs = [(8, 10), (9, 9), (10, 8), (17, 17), (16, 18), (33, 33), (8, 8), (9, 10), (12, 21), (31, 35), (7, 11), (20, 14)]
        if not quick:
            pairs += [(a, b) for a in range(6, 24) for b in range(6, 24, 3)] + [(32, 34), (40, 26), (64, 2), (33, 34)]
        for (la, lb) in pairs:
            fam = rng.choice(["int", "generic"])
            pa = ["lit", 2 * rng.randint(-9, 3) + 1, exprs.gen_vec(rng, fam, la, zeros=False)]
            pb = ["lit", 2 * rng.randint(-9, 3), exprs.gen_vec(rng, fam, lb, zeros=False)]
            cases.append({"e": ["mul", pa, pb], "fam": fam, "keys": [pa[1] + pb[1], pa[1] + pb[1] + 2 * (la + lb - 2), 0, 1], "malformed": False,
                          "directed": "long product"})
        # directed: one non-integer float term plus an integer-typed polynomial, either order, term inside / outside the stored range
        for k in range(6 if quick else 40):
            par = rng.randint(0, 1)
            big = ["lit", 2 * rng.randint(-3, 0) + par, [rng.randint(-9, 9) or 1 for _ in range(rng.randint(2, 6))]]
            one = ["lit", 2 * rng.randint(-4, 4) + par, [rng.choice([0.5, -0.25, 1.75, rng.uniform(-2, 2)])]]
            for e in (["add", one, big], ["add", big, one], ["sub", one, big], ["sub", big, one], ["mul", one, big]):
                cases.append({"e": e, "fam": "mixed", "keys": [one[1], big[1], 0, 1], "malformed": False, "directed": "float term + integer polynomial"})
    # ---- run both sides
    ANG = [0.0, 1.0471975511965976, -2.3, 0.7, 3.141592653589793]
    for c in cases:
        c["angles"] = ANG[:3] + [rng.uniform(-3.2, 3.2)]
    # rounding small coefficients to zero, on the result object of the history, after other read-outs (every third case)
    for i, c in enumerate(cases):
        if i % 3 == 0 and not c["malformed"]:
            c["round"] = rng.choice(["default", 0.5, 1.0, 3.0, 1e-3])
    for c in cases:
        c["pad"] = [rng.randint(0, 3), rng.randint(0, 3)]
    impl_in = [dict({"fn": "pexpr", "e": exprs.p_json(c["e"]), "keys": c["keys"], "angles": [hexf(a) for a in c["angles"]], "aligned_pad": c["pad"]},
                    **({"round_zeros": (c["round"] if c["round"] == "default" else hexf(c["round"]))} if "round" in c else {})) for c in cases]
    impl = run_impl(impl_in)
    lines = []
    for c in cases:
        lines.append("(peval %s)" % exprs.p_sexp(c["e"]))
        lines.append("(pinfo %s (%s))" % (exprs.p_sexp(c["e"]), " ".join(str(k) for k in c["keys"])))
    mod = run_model(lines)
    # the Coq model of round_zeros on the coefficients the implementation held before rounding
    rz_idx = [i for i, c in enumerate(cases) if "round" in c and "ok" in impl[i] and impl[i]["ok"].get("rounded_from") is not None]
    rz_mod = run_model(["(roundz %s %s)" % (qs(fr(1e-5 if cases[i]["round"] == "default" else cases[i]["round"])), Q_list(impl[i]["ok"]["rounded_from"])) for i in rz_idx])
    RZ = dict(zip(rz_idx, rz_mod))
    for idx, c in enumerate(cases):
        m, minfo = mod[2 * idx], mod[2 * idx + 1]
        r = impl[idx]
        nop = exprs.nops(c["e"])
        ctx.count(c["e"], nontrivial=nop >= 2, bucket="%s/ops=%d%s" % (c["fam"], min(nop, 9), "/malformed" if c["malformed"] else ""))
        if isinstance(m, str) and m.startswith("FAIL"):
            ctx.infra_fail("extracted model failed on a C09 history: " + m)
            continue
        if m == "ERR":
            ctx.bucket("model:error")
            if "exc" not in r:
                ctx.bucket("impl returned where the model raises (not a verdict)")
            continue
        if "exc" in r:
            ctx.fail("history", c, f"implementation raised {r['exc']}: {r.get('msg','')} where exact arithmetic gives a value")
            continue
        ro = r["ok"]
        dm, di = exprs.denot_model(m), exprs.denot_impl(ro)
        dabs = exprs.fmag(exprs.mag_p(c["e"]))
        bound = max([abs(v) for v in dabs.values()] or [0])
        exact = False      # integer-valued histories too are compared under the rounding budget (a harmless rewrite, e.g. an FFT product, is off by ulps)
        msg = exprs.compare_denot(dm, di, dabs, nop + 2, exact)
        if msg:
            ctx.fail("history", c, msg)
            continue
        sc = self_consistent(ro)
        if sc:
            ctx.fail("history", c, "stored-range read-outs inconsistent: " + sc)
            continue
        if c["e"][0] == "trunc":
            # the stored range of a truncation must be the model's (for a non-zero operand and a parity-consistent
            # window the model's range is [a, b]: theorem C09_truncate_window)
            a, b = c["e"][2], c["e"][3]
            if not (str(ro["dmin"]) == m[0] and len(ro["coefs"]) == len(m[2])):
                ctx.fail("history", c, f"truncate to [{a},{b}] returned stored range dmin={ro['dmin']} len={len(ro['coefs'])}, the exact model has dmin={m[0]} len={len(m[2])}")
                continue
        # point evaluation f(e^{i t}) = sum_k c_k (cos k t + i sin k t) from the exact coefficients of the model
        evs = ro.get("eval")
        if evs is None or len(evs) != len(c["angles"]):
            ctx.fail("history", c, "eval(angles) returned %s values for %d angles" % (None if evs is None else len(evs), len(c["angles"])))
            continue
        bad_ev = None
        for t, ev in zip(c["angles"], evs):
            zr = sum(float(v) * math.cos(k * t) for k, v in dm.items())
            zi = sum(float(v) * math.sin(k * t) for k, v in dm.items())
            got = complex(float.fromhex(ev[1]), float.fromhex(ev[2])) if isinstance(ev, list) else complex(float.fromhex(ev), 0.0)
            budget = float(64 * (nop + 2) * U * sum(dabs.values())) + sum(abs(float(v)) * (abs(k * t) + 8) for k, v in dm.items()) * 2.3e-16 + 1e-300
            if not (abs(got - complex(zr, zi)) <= budget):
                bad_ev = "eval(%r) = %r but the polynomial takes the value %r there (|diff| %.3e > budget %.3e)" % (t, got, complex(zr, zi), abs(got - complex(zr, zi)), budget)
                break
        if bad_ev:
            ctx.fail("history", c, bad_ev)
            continue
        # alignment to a wider window of the same parity: zeros, the stored coefficients, zeros
        al = ro.get("aligned_pad")
        if al is None:
            ctx.fail("history", c, "aligned(dmin - 2i, dmax + 2j) raised or returned nothing for i, j = %s" % c["pad"])
            continue
        want_al = [Fraction(0)] * c["pad"][0] + ([fr(x) for x in ro["coefs"]] if not ro["isz"] else [Fraction(0)]) + [Fraction(0)] * c["pad"][1]
        if [fr(x) for x in al] != want_al:
            ctx.fail("history", c, "aligned(dmin - %d, dmax + %d) = %s, expected the stored coefficients padded with %d / %d zeros"
                     % (2 * c["pad"][0], 2 * c["pad"][1], [float(fr(x)) for x in al][:10], c["pad"][0], c["pad"][1]))
            continue
        # round_zeros(thresh): exactly the coefficients of magnitude below the threshold become 0, nothing else changes,
        # and norm / eval read afterwards are those of the rounded polynomial
        if "round" in c:
            th = 1e-5 if c["round"] == "default" else c["round"]
            b4 = [fr(x) for x in ro["rounded_from"]]
            af = [fr(x) for x in ro["rounded"]]
            want = [Fraction(0) if abs(x) < fr(th) else x for x in b4]
            mrz = RZ.get(idx)
            if isinstance(mrz, str) or mrz is None:
                ctx.infra_fail("extracted round_zeros model failed: " + str(mrz)[:80])
                continue
            if [Fraction(v) for v in mrz] != want:
                ctx.infra_fail("harness and Coq model of round_zeros disagree on %s" % c["e"])
                continue
            if af != want or ro["rounded_dmin"] != ro["dmin"]:
                ctx.fail("history", c, "round_zeros(%r) turned coefficients %s into %s (expected %s)" % (c["round"], [float(x) for x in b4][:8], [float(x) for x in af][:8], [float(x) for x in want][:8]))
                continue
            n2r = sum(x * x for x in af)
            nr = fr(ro["rounded_norm"])
            if abs(nr * nr - n2r) > Fraction(1, 10 ** 9) * max(n2r, Fraction(1, 10 ** 300)):
                ctx.fail("history", c, "after round_zeros(%r) norm**2 = %r but the rounded coefficients have sum of squares %r" % (c["round"], float(nr * nr), float(n2r)))
                continue
            e0 = ro["rounded_eval0"][0]
            v0 = complex(float.fromhex(e0[1]), float.fromhex(e0[2])) if isinstance(e0, list) else complex(float.fromhex(e0), 0)
            s0 = float(sum(af))
            if not (abs(v0 - s0) <= 1e-9 * (1 + sum(abs(float(x)) for x in af))):
                ctx.fail("history", c, "after round_zeros(%r) eval(0) = %r but the rounded coefficients sum to %r" % (c["round"], v0, s0))
                continue
        # coefficient look-up and 2-norm
        gets = [Fraction(x) for x in minfo[4]]
        for k, gm, gi in zip(c["keys"], gets, ro["get"]):
            if abs(gm - fr(gi)) > 64 * (nop + 2) * U * dabs.get(k, Fraction(0)):
                ctx.fail("history", c, f"__getitem__({k}) = {fr(gi)} but the polynomial has coefficient {gm}")
                break
        n2 = Fraction(minfo[3])
        ni = fr(ro["norm"])
        if abs(ni * ni - n2) > Fraction(1, 10 ** 9) * max(n2, Fraction(1, 10 ** 300)) + 64 * (nop + 2) * U * sum(v * v for v in dabs.values()):
            ctx.fail("history", c, f"norm**2 = {float(ni*ni)!r} but sum of squares is {float(n2)!r}")
        if (m[0] != str(ro["dmin"]) or len(m[2]) != len(ro["coefs"])) and any(v != 0 for v in dm.values()):
            ctx.bucket("representation differs from the model's (diagnostic only)")
    # ---- operand reuse: straight-line programs over shared objects; results as in the model, operands left unmodified
    if ctx.replay is None or ctx.replay.get("site") == "reuse":
        progs = []
        for k in range(12 if quick else 150):
            fam = rng.choice(["generic", "dyadic", "int"])
            par = rng.randint(0, 1)
            n = rng.randint(2, 6)
            dmin = 2 * rng.randint(-4, 1) + par
            a = [dmin, exprs.gen_vec(rng, fam, n, zeros=False)]
            b = [dmin + 2 * rng.randint(0, 1), exprs.gen_vec(rng, fam, rng.randint(1, n - 1) if rng.random() < 0.5 else n - (0), zeros=False)]
            if b[0] + 2 * (len(b[1]) - 1) > dmin + 2 * (n - 1):
                b = [dmin, exprs.gen_vec(rng, fam, n, zeros=False)]
            cc = [2 * rng.randint(-2, 2), exprs.gen_vec(rng, fam, rng.randint(1, 4), zeros=False)]
            ops = [["add", 0, 1], ["add", 0, 1], ["mul", 0, 2], ["sub", 0, 1], ["add", 6, 1], ["add", 1, 0], ["sub", 0, 0], ["mul", 3, 0], ["add", 0, 3]]
            progs.append({"lits": [a, b, cc], "ops": ops, "fam": fam})
        if ctx.replay is not None:
            progs = [ctx.replay["case"]]
        pres = run_impl([{"fn": "preuse", "lits": [[l[0], [exprs.jnum(x) for x in l[1]]] for l in p_["lits"]], "ops": p_["ops"]} for p_ in progs])
        plines, pkeep = [], []
        for p_, r in zip(progs, pres):
            ctx.count(["reuse", p_["lits"]], nontrivial=True, bucket="operand reuse")
            if "exc" in r:
                ctx.fail("reuse", p_, "a straight-line program over shared polynomials raised %s: %s" % (r["exc"], r.get("msg", "")[:80]))
                continue
            trees = [["lit", l[0], l[1]] for l in p_["lits"]]
            for op, i, j in p_["ops"]:
                trees.append([op, trees[i], trees[j]] if op in ("add", "sub", "mul") else [op, trees[i]])
            for k, (l, after) in enumerate(zip(p_["lits"], r["ok"]["lits_after"])):
                if [fr(x) for x in after["coefs"]] != [fr(x) for x in l[1]] or after["dmin"] != l[0]:
                    ctx.fail("reuse", p_, "operand %d was modified by an operation that used it: coefficients %s became %s"
                             % (k, [float(fr(x)) for x in l[1]][:6], [float(fr(x)) for x in after["coefs"]][:6]))
                    break
            else:
                for t, res in zip(trees[len(p_["lits"]):], r["ok"]["results"]):
                    plines.append("(peval %s)" % exprs.p_sexp(t))
                    pkeep.append((p_, t, res))
        pmod = run_model(plines)
        for (p_, t, res), m in zip(pkeep, pmod):
            if isinstance(m, str):
                if m != "ERR":
                    ctx.infra_fail("extracted model failed on a reuse program: " + m[:80])
                continue
            msg = exprs.compare_denot(exprs.denot_model(m), exprs.denot_impl(res), exprs.fmag(exprs.mag_p(t)), exprs.nops(t) + 2, False)
            if msg:
                ctx.fail("reuse", p_, "result of a step that reuses earlier operands: " + msg)
                break
    # ---- aliasing: results are fresh objects; mutating a result (round_zeros) leaves the operands alone
    if ctx.replay is None or ctx.replay.get("site") == "alias":
        al = [c for c in cases if not c["malformed"] and c["e"][0] != "lit"][: (250 if quick else 3000)]
        if ctx.replay is not None:
            al = [ctx.replay["case"]]
        else:
            # directed: sums / differences / products with a neutral operand (zero polynomial, Id) must be fresh objects too
            for k in range(6 if quick else 40):
                pl = exprs.lit(rng, rng.choice(["generic", "dyadic", "int"]), k % 2, 6)
                if not pl[2]:
                    pl = ["lit", k % 2, [1.0, -0.5]]
                z = ["lit", rng.choice([0, k % 2]), []]
                one = ["lit", 0, [1.0]]
                for e in (["add", pl, z], ["add", z, pl], ["sub", pl, z], ["mul", pl, one], ["mul", one, pl], ["scale", 1.0, pl], ["trunc", pl, pl[1], pl[1] + 2 * (len(pl[2]) - 1)]):
                    al.append({"e": e, "malformed": False, "directed": "neutral operand"})
        res = run_impl([{"fn": "palias", "e": exprs.p_json(c["e"])} for c in al])
        for c, r in zip(al, res):
            ctx.count(["alias", c["e"]], nontrivial=True, bucket="alias/" + c["e"][0])
            if "ok" in r and r["ok"]["changed"]:
                ctx.fail("alias", c, "mutating the result of the history in place (round_zeros) changed operand literal(s) %s: the result aliases an operand" % r["ok"]["changed"])
    # ---- sampled sup norm: certified two-sided bounds (0.1 percent) through the verified sup certificate
    if ctx.replay is None or ctx.replay.get("site") == "inf_norm":
        import supcert
        icases = []
        degs = [1, 2, 3, 5, 8, 12] if quick else [1, 2, 3, 5, 8, 12, 20, 30, 40, 50]
        for nco in degs:
            for rep in range(1 if quick else 2):
                fam = rng.choice(["int", "generic", "dyadic"])
                v = exprs.gen_vec(rng, fam, nco + 1, zeros=False)
                if all(x == 0 for x in v):
                    v[0] = 1.0
                icases.append({"e": ["lit", 2 * rng.randint(-5, 3) + rng.randint(0, 1), v], "fam": fam})
        # sign changes that happen only across exactly-zero coefficients, single terms, same-signed vectors
        for v in ([1.0, 0.0, -1.0], [2.0, 1.0, 0.0, -1.0, -2.0], [3.0, 0.0, 0.0, -1.0, 0.0, -2.0], [1.0, 0.0, 1.0], [0.0, 2.5, 0.0], [1.0, 2.0, 3.0],
                  [-1.0, 0.0, 0.0, 1.0], [0.5, 0.0, -0.25, 0.0, 0.125]):
            icases.append({"e": ["lit", 2 * rng.randint(-3, 1), list(v)], "fam": "pattern"})
        if ctx.replay is not None:
            icases = [ctx.replay["case"]]
        ires = run_impl([{"fn": "pexpr", "e": exprs.p_json(c["e"]), "keys": [], "inf_norm": True} for c in icases])
        ilines, ikeep = [], []
        for c, r in zip(icases, ires):
            ctx.count(["inf_norm", c["e"]], nontrivial=len(c["e"][2]) >= 2, bucket="inf_norm/len=%d" % len(c["e"][2]))
            if "exc" in r:
                ctx.fail("inf_norm", c, "inf_norm raised %s" % r["exc"])
                continue
            v = fr(r["ok"]["inf_norm"])
            co = [fr(x) for x in c["e"][2]]
            n = len(co)
            s_ser = [sum(co[k] * co[k + m] for k in range(n - m)) * (1 if m == 0 else 2) for m in range(n)]
            M2 = (v * Fraction(1001, 1000)) ** 2
            m2 = (v * Fraction(999, 1000)) ** 2
            sf = [float(x) for x in s_ser]
            kind, data = supcert.make_cells(sf, float(M2), max_cells=(40000 if quick else 400000))
            if kind == "exceeds":
                ilines.append("(inflb %d %s %s %s %s)" % (c["e"][1], "(" + " ".join(qs(x) for x in co) + ")", "(" + " ".join(qs(x) for x in s_ser) + ")",
                                                          qs(fr(data)), qs(M2)))
                ikeep.append((c, "above", v))
                continue
            if kind != "cover":
                ctx.bucket("inf_norm undecided: " + str(data)[:30])
                continue
            ilines.append("(infub %d %s %s %s %s)" % (c["e"][1], "(" + " ".join(qs(x) for x in co) + ")", "(" + " ".join(qs(x) for x in s_ser) + ")",
                                                      supcert.cells_sexp(data), qs(M2)))
            ikeep.append((c, "ub", v))
            # lower bound: the best grid point in float arithmetic, then certified
            best, bt = -1.0, 0.0
            for j in range(4001):
                t = math.pi * j / 4000
                val = supcert.f_eval(sf, t)
                if val > best:
                    best, bt = val, t
            ilines.append("(inflb %d %s %s %s %s)" % (c["e"][1], "(" + " ".join(qs(x) for x in co) + ")", "(" + " ".join(qs(x) for x in s_ser) + ")",
                                                      qs(fr(bt)), qs(m2)))
            ikeep.append((c, "lb", v))
        imod = run_model(ilines, timeout=3000)
        for (c, what, v), m in zip(ikeep, imod):
            if m not in ("0", "1"):
                ctx.infra_fail("extracted inf-norm checker failed: " + str(m)[:100])
            elif what == "above" and m == "1":
                ctx.fail("inf_norm", c, "inf_norm = %r is more than 0.1 percent below the true maximum modulus on the unit circle (certified witness)" % float(v))
            elif what == "ub" and m == "1":
                ctx.bucket("inf_norm upper bound certified")
                ctx.instance_obligations += 1
                ctx.instance_discharged += 1
            elif what == "lb":
                if m == "1":
                    ctx.bucket("inf_norm lower bound certified")
                    ctx.instance_obligations += 1
                    ctx.instance_discharged += 1
                else:
                    # no point of the circle reaches 0.999 * inf_norm according to the grid: the value is too large
                    ctx.fail("inf_norm", c, "inf_norm = %r exceeds the maximum modulus on the unit circle by more than 0.1 percent (no point reaches 0.999 of it)" % float(v))
            else:
                ctx.bucket("inf_norm undecided (%s rejected)" % what)
    # ---- in-Coq re-evaluation of a slice (extraction cross-check + instance obligations)
    sl = [i for i, c in enumerate(cases) if exprs.nops(c["e"]) <= 7][: (30 if quick else 120)]
    terms = []
    for i in sl:
        m = mod[2 * i]
        if isinstance(m, str):
            exp = "None"
        else:
            exp = "Some (LP (%s)%%Z [%s] %s)" % (m[0], "; ".join(exprs.qcoq(Fraction(x)) for x in m[2]), "true" if m[1] == "1" else "false")
        terms.append("lpoly_eqb (peval OpsQ %s) (%s)" % (exprs.p_coq(cases[i]["e"]), exp))
    header = ("From Coq Require Import ZArith QArith List. Import ListNotations.\n"
              "From PyqspV Require Import Base.Ops Model.LPolyM Model.LAlgM Model.QInst Model.ExprM Model.Cmp.\n")
    res, err = coq_eval(header, terms, ctx.pid)
    ctx.instance_obligations += len(terms)
    ok = sum(1 for x in res if x is True)
    ctx.instance_discharged += ok
    if ok != len(terms):
        ctx.infra_fail("extraction cross-check: %d of %d histories re-evaluated by vm_compute disagree with the extracted binary %s" % (len(terms) - ok, len(terms), err))
    ctx.residual.append("point evaluation eval(theta) is compared with the exact model under the rounding budget, not with a verified enclosure")


RULE = ("random operation histories (depth 0..3) over literals of length 0..40 from the int / dyadic / generic / "
        "wide-range families, lowest powers of both signs and parities, ~15% zero operands, 7% of histories from a "
        "malformed (parity-mismatch) stream, plus directed zero-polynomial laws; distinct by canonical JSON, "
        "non-trivial = at least two nodes")
TRUSTED = ["Coq 8.16.1 kernel incl. vm_compute", "extraction (ExtrOcamlBasic, ExtrOcamlZBigInt) + driver.ml + zarith, cross-checked in Coq on a slice",
           "harness/impl_runner.py and Fraction arithmetic in the harness", "numpy as executor of the implementation"]
ASSUME = ["floats are compared with the exact model under the normwise budget 64*m*u*B (DESIGN 4.4); integer-valued histories under the same (tiny) budget"]
LEVEL_TEXT = ("Universally quantified Coq theorems about the executable LPoly model (Props/C09.v) give the ring laws for every "
              "length, lowest power, window and history; the model is tied to /repo by running both on generated operation "
              "histories on every invocation (normwise rounding budget 64*m*u*B, also for integer data), with coefficient look-up, "
              "alignment, point evaluation, 2-norm and round_zeros (model round_zeros_q, 3 theorems) read from the result object.")
LEVEL_NOTE = ("Trusted: Coq kernel + vm_compute, extraction directives, driver.ml, the Python harness, numpy as executor. "
              "Axioms: see evidence (stdlib real-number axioms only where R is used). The model is hand-written; agreement with the "
              "code is checked on generated inputs, not proved.")
