"""C03 — well-conditioned low-degree requests always succeed, for every random choice."""
import math
from fractions import Fraction

from common import fr, qs, qcoq, hexf, run_impl, run_model, coq_eval
import qsp_common as Q

LEVEL = "proof"
TECHNIQUE = ("Coq theorems for the exact-arithmetic preconditions on the family (C03_no_unit_roots: coefficient 1-norm < 1 keeps "
             "1 - F F~ away from 0 on the whole circle; C03_family_admissible: a Chebyshev series is <= its coefficient 1-norm on [-1,1]; "
             "Laurent form of the capitalised target; budget) and Coq-verified result "
             "checkers (check_c01, check_c02) on every return; the success clause itself is decided by model/implementation outcome "
             "agreement: the model predicts 'returns' on the family and the implementation is run for all 2^d stubbed root-choice "
             "vectors (d <= 6 quick, d <= 10 thorough; sampled above) x {Wx, Wz}, and on complex corners of degree 1..6 in Wx/z")
LEVEL_TEXT = ("Props/C03.v holds the theorems that are provable (preconditions of completion in exact arithmetic, certificate soundness "
              "re-used from C01/C02). Floating-point success of numpy.roots / FFT / lstsq is NOT proved: it is observed on the "
              "enumerated family, every random-choice vector included, and each return is certified by the C01/C02 checker.")
LEVEL_NOTE = ("Trusted: Coq kernel + vm_compute, extraction, driver.ml, harness, numpy/scipy as executors. Axioms: stdlib real-number "
              "axioms + Classical_Prop.classic. Residual named explicitly: the 'does not raise' clause is a statement about LAPACK / "
              "pocketfft in floats; no theorem covers it, the check enumerates the family instead.")
RULE = ("real polynomials of degree 1..12 from exact Chebyshev vectors with 1-norm in [0.1,0.9] and leading share >= 0.1 (membership "
        "re-verified exactly on the rounded monomial input), x all 2^d root-choice vectors for d <= 6 (quick) / 10 (thorough), 24 / "
        "256 sampled vectors above, x {Wx, Wz}; complex corners of degree 1..6 of phase sequences whose interior phases stay >= 0.3 "
        "rad from odd multiples of pi/2, all root choices irrelevant (no RNG on that path) but seeded anyway; distinct by JSON; "
        "non-trivial = degree >= 2")
TRUSTED = ["Coq 8.16.1 kernel incl. vm_compute", "extraction (ExtrOcamlBasic, ExtrOcamlZBigInt) + driver.ml + zarith",
           "harness (impl_runner.py, impl_handlers2.py)", "numpy/scipy as executors of the implementation"]
ASSUME = ["the random root choice is the only use of numpy.random on this path and goes through numpy.random.randint(2, size=k) "
          "(if the stub is never called the case is also run unstubbed under numpy.random.seed)"]


def real_member(p):
    """exact family test on the float monomial input"""
    c = Q.mono2cheb(p)
    d = len(p) - 1
    n1 = sum(abs(x) for x in c)
    par_ok = all(c[k] == 0 for k in range(len(c)) if (k - d) % 2)
    return par_ok and Fraction(1, 10) <= n1 <= Fraction(9, 10) and abs(c[d]) >= n1 / 10


def interior_ok(ph):
    for t in ph[1:-1]:
        # distance to the nearest odd multiple of pi/2
        r = (t - math.pi / 2) % math.pi
        dist = min(r, math.pi - r)
        if dist < 0.3:
            return False
    return True


def known_palindromic(case, k):
    ph = [float.fromhex(x) for x in case.get("phases", [])]
    d = len(ph) - 1
    return d >= 4 and all(abs(ph[i] - ph[d - i]) <= 1e-12 for i in range(d + 1))


PREDICATES = {"c03_palindromic": known_palindromic}


def run(ctx):
    rng = ctx.rng
    quick = ctx.tier == "quick"
    cases = []
    if ctx.replay is not None and ctx.replay.get("case", {}).get("fn") == "qspp":
        cases = [ctx.replay["case"]]
    else:
        exh = 6 if quick else 10
        for d in range(1, 13):
            for rep in range(1 if quick else 4):
                for _ in range(50):
                    p, c = Q.cheb_family(rng, d, rng.uniform(0.12, 0.88), 0.12, decay=rng.choice([None, 0.8]))
                    if real_member(p):
                        break
                else:
                    continue
                vecs = Q.seed_vectors(rng, d, 2 ** d if d <= exh else (24 if quick else 256))
                for bits in vecs:
                    so = "Wx" if (sum(bits) + rep) % 2 == 0 else "Wz"
                    cases.append({"fn": "qspp", "poly": [hexf(x) for x in p], "signal_operator": so, "bits": bits, "family": "real", "timeout": 300})
                for so in ("Wx", "Wz"):
                    cases.append({"fn": "qspp", "poly": [hexf(x) for x in p], "signal_operator": so, "npseed": rng.randrange(2 ** 31),
                                  "family": "real", "timeout": 300})
        # edge of the family: leading share just above 0.1, small and large norms (small inside roots)
        for d in range(1, 13):
            for rep in range(1 if quick else 4):
                for _ in range(200):
                    p, c = Q.cheb_family(rng, d, rng.choice([0.101, 0.2, 0.5, 0.899]), 0.1002)
                    cc = Q.mono2cheb(p)
                    n1 = sum(abs(x) for x in cc)
                    if real_member(p) and abs(cc[d]) <= n1 * Fraction(13, 100):
                        break
                else:
                    continue
                for bits in Q.seed_vectors(rng, d, 2 ** d if d <= 5 else (12 if quick else 128)):
                    cases.append({"fn": "qspp", "poly": [hexf(x) for x in p], "signal_operator": rng.choice(["Wx", "Wz"]), "bits": bits,
                                  "family": "real", "sub": "edge", "timeout": 300})
        # two-term members  a T_{d-2} + b T_d  with opposite signs: the polynomial dips towards -1 / rises towards 1 just outside [-1,1],
        # which gives three or more real roots of 1 - F F~ on one side of the circle (odd counts of selected real roots)
        for d in ((3, 4, 5, 6, 7, 9) if quick else range(3, 13)):
            for a_, b_ in (((-0.66, 0.10), (0.6, -0.12)) if quick else ((-0.66, 0.10), (0.6, -0.12), (-0.7, 0.09), (0.55, -0.2), (-0.5, 0.3))):
                cvec = [0.0] * (d + 1)
                cvec[d - 2], cvec[d] = a_, b_
                p = [float(x) for x in Q.cheb2mono([Fraction(*float(x).as_integer_ratio()) for x in cvec])]
                if not real_member(p):
                    continue
                for bits in Q.seed_vectors(rng, d, 2 ** d if d <= 4 else (8 if quick else 64)):
                    cases.append({"fn": "qspp", "poly": [hexf(x) for x in p], "signal_operator": rng.choice(["Wx", "Wz"]), "bits": bits,
                                  "family": "real", "sub": "two-term", "timeout": 300})
        # scaled single-term members c T_d (intermediate factors of the halving recursion carry genuinely small coefficients), every root choice
        for d in ((3, 4, 5, 6) if quick else range(2, 11)):
            for cval in ((0.5, 0.33) if quick else (0.5, 0.33, 0.3, 0.53, 0.7, 0.2)):
                cvec = [0.0] * d + [cval]
                p = [float(x) for x in Q.cheb2mono([Fraction(*float(x).as_integer_ratio()) for x in cvec])]
                if not real_member(p):
                    continue
                for bits in Q.seed_vectors(rng, d, 2 ** d if d <= 6 else (16 if quick else 128)):
                    cases.append({"fn": "qspp", "poly": [hexf(x) for x in p], "signal_operator": "Wx" if sum(bits) % 2 == 0 else "Wz", "bits": bits,
                                  "family": "real", "sub": "single-term", "timeout": 300})
        # members next to a collision of two real roots of 1 - F F~ (generated with numpy on the implementation side)
        gen = run_impl([{"fn": "c03_bifurc", "d": d, "seed": rng.randrange(2 ** 31), "want": 9 if quick else 36, "attempts": 80 if quick else 200, "timeout": 600}
                        for d in ([2, 3, 4, 6, 8, 5, 7, 6, 8] if quick else list(range(2, 13)) * 2)], timeout=1200)
        nb = 0
        for g in gen:
            if "ok" not in g:
                ctx.skipped.append("bifurcation generator failed: %s" % g.get("exc"))
                continue
            for ph in g["ok"]:
                p = [float.fromhex(x) for x in ph]
                if not real_member(p):
                    continue
                nb += 1
                d = len(p) - 1
                for bits in Q.seed_vectors(rng, d, 2 ** d if d <= 3 else 6):
                    cases.append({"fn": "qspp", "poly": [hexf(x) for x in p], "signal_operator": rng.choice(["Wx", "Wz"]), "bits": bits,
                                  "family": "real", "sub": "bifurcation", "timeout": 300})
        ctx.notes.append("%d family members next to a real-root collision generated" % nb)
        for d in range(1, 7):
            for rep in range(6 if quick else 60):
                kind = rng.choice(["generic", "generic", "generic", "palindrome", "equal", "alternating"])
                for _ in range(200):
                    ph = [rng.uniform(-math.pi, math.pi) for _ in range(d + 1)]
                    if kind == "palindrome":
                        ph = [ph[min(i, d - i)] for i in range(d + 1)]
                    elif kind == "equal":
                        ph = [ph[0]] * (d + 1)
                    elif kind == "alternating":
                        ph = [ph[0] if i % 2 else -ph[0] for i in range(d + 1)]
                    if interior_ok(ph):
                        break
                else:
                    continue
                pre, pim = Q.corner_of_phases(ph)
                cases.append({"fn": "qspp", "poly": Q.cplx_hex(pre, pim), "complex": True, "signal_operator": "Wx", "measurement": "z",
                              "npseed": rng.randrange(2 ** 31), "family": "complex", "sub": kind, "phases": [hexf(x) for x in ph], "timeout": 300})
    impl = run_impl(cases, timeout=3000)
    lines, keep = [], []
    nostub = 0
    for c, r in zip(cases, impl):
        d = len(c["poly"]) - 1
        fam = c.get("family", "real")
        if "exc" in r:
            ctx.count(c, nontrivial=d >= 2, bucket="%s%s/deg=%d/raised:%s" % (fam, "/" + c["sub"] if "sub" in c else "", d, r["exc"]))
            ctx.fail("success-" + fam, c, "raised %s (%s) on a member of the well-conditioned family (degree %d, %s, root choice %s)"
                     % (r["exc"], r.get("msg", "")[:100], d, c["signal_operator"], c.get("bits", "rng")))
            continue
        ctx.count(c, nontrivial=d >= 2, bucket="%s%s/deg=%d/returned" % (fam, "/" + c["sub"] if "sub" in c else "", d))
        ro = r["ok"]
        if c.get("bits") is not None and not ro.get("randint_sizes"):
            nostub += 1
        if ro["phis"] == "dict" or ro["len"] != d + 1 or not ro["finite"]:
            ctx.fail("success-" + fam, c, "returned %s phases (finite=%s) for degree %d" % (ro["len"], ro["finite"], d))
            continue
        if fam == "real":
            lines.append("(c01 %s %s %s %s %s)" % (Q.qlist(ro["phis"]), Q.qlist(c["poly"]), qs(fr(1e-4)), qs(fr(1 - 1e-4)), qs(fr(1e-6))))
        else:
            lines.append("(c02 %s %s %s %s)" % (Q.qlist(ro["phis"]), Q.qlist([x[1] for x in c["poly"]]), Q.qlist([x[2] for x in c["poly"]]), qs(fr(1e-6))))
        keep.append(c)
    if nostub:
        ctx.notes.append("%d stubbed calls never reached numpy.random.randint(2, size=k): the root choice no longer goes through it; "
                         "those cases count as seeded runs only" % nostub)
    mod = run_model(lines)
    for c, m in zip(keep, mod):
        if isinstance(m, str):
            ctx.infra_fail("extracted checker failed: " + str(m))
        elif m[0] != "1":
            ctx.fail("success-" + c.get("family", "real"), c, "returned phases fail the C01/C02 certificate (distance %s)"
                     % (Q.scaled_to_float(m[1]) if m[1] != "ERR" else "n/a"))
    ctx.residual.append("floating-point success of numpy.roots / FFT / lstsq on the family is observed for the enumerated and sampled "
                        "(polynomial, root-choice) pairs only; no theorem covers it")
