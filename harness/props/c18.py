"""C18 — fixed-point search phases achieve the Yoder-Low-Chuang success probability."""
import math
from fractions import Fraction

from common import fr, qs, qcoq, hexf, run_impl, run_model, coq_eval
import qsp_common as Q

LEVEL = "proof"
TECHNIQUE = ("Coq theorems for every d and every alpha (transcendental kernel as an oracle): 2d phases, palindrome, entry formulas of the "
             "interleaving / reversal / halving, gamma-vs-delta dataflow; |T_L| <= 1 on [-1,1] and the fixed-point corollary of the "
             "closed form; soundness (logical relation) of the complex-interval evaluation of the alternating reflection sequence "
             "R prod_k Z(phi_k) R, which encloses the success probability at any overlap lambda = a^2. Per run the generator's phases "
             "are compared with the exact layout model and the enclosed probability with the closed form at sampled overlaps and with "
             "the bound 1 - delta^2 above the fixed-point width; call sequences in one process (gamma / delta / d varied)")
LEVEL_TEXT = ("Props/C18.v: 7 theorems. Layout and option dataflow are decided for all d, alpha; the probability evaluator is proved sound "
              "for every overlap. The closed form itself (the YLC identity jointly in d, delta, lambda) is NOT proved: it is compared at "
              "sampled overlaps against a floating-point evaluation of 1 - delta^2 T_L(T_{1/L}(1/delta) sqrt(1-lambda))^2.")
LEVEL_NOTE = ("Trusted: Coq kernel, extraction, driver.ml, harness, numpy as executor; the closed form is evaluated with math.cosh / acosh / "
              "cos / acos (float oracle) at the sampled overlaps. Axioms: stdlib real-number axioms + Classical_Prop.classic. Residual: "
              "'for every lambda' is covered for the evaluator and the corollary, but equality with the closed form is checked on a "
              "grid of overlaps only.")
RULE = ("d = 1..25 and {40, 79, 100, 150, 200} (quick: 1..12, 25, 79, 90, 200), delta in {1e-3, 0.1, 0.3, 0.5, 0.9}; per (d, delta): delta "
        "path, gamma path, return_alpha, repeated in one process with other gammas in between; 24 overlaps incl. 0, 1 and the fixed-point "
        "width; distinct by JSON; non-trivial = d >= 2")
TRUSTED = ["Coq 8.16.1 kernel", "extraction (ExtrOcamlBasic, ExtrOcamlZBigInt) + driver.ml + zarith", "harness (impl_runner.py, impl_handlers5.py)",
           "numpy as executor; math.cosh/acosh/cos/acos for the closed form at sampled overlaps"]
ASSUME = ["success probability = |<0| R prod_k diag(e^{i phi_k}, e^{-i phi_k}) R |0>|^2 with R = [[a, s],[s, -a]], a = sqrt(lambda) (QSVT-convention "
          "alternating reflections, 2d+1 signal reflections)"]


def closed_form(d, delta, a):
    L = 2 * d + 1
    y = math.cosh(math.acosh(1 / delta) / L)
    x = y * math.sqrt(max(0.0, 1 - a * a))
    T = math.cos(L * math.acos(x)) if abs(x) <= 1 else math.cosh(L * math.acosh(x))
    return 1 - delta * delta * T * T


def run(ctx):
    rng = ctx.rng
    quick = ctx.tier == "quick"
    ds = (list(range(1, 13)) + [25, 79, 90, 200]) if quick else list(range(1, 26)) + [40, 79, 100, 150, 200]
    cases = []
    if ctx.replay is not None and ctx.replay.get("case", {}).get("fn") == "fpsearch":
        cases = [ctx.replay["case"]]
    else:
        for d in ds:
            for delta in ([0.1, rng.choice([1e-3, 0.3, 0.5, 0.9])] if quick else [1e-3, 0.1, 0.3, 0.5, 0.9]):
                L = 2 * d + 1
                gamma = 1 / math.cosh(math.acosh(1 / delta) / L)
                other = 1 / math.cosh(math.acosh(1 / (delta * 0.5)) / L)
                calls = [{"d": d, "delta": hexf(delta)}, {"d": d, "gamma": hexf(other)}, {"d": d, "gamma": hexf(gamma)},
                         {"d": d, "delta": hexf(delta), "return_alpha": True}, {"d": d, "delta": hexf(delta)}]
                if delta == 0.1:
                    calls.append({"d": d})
                cases.append({"fn": "fpsearch", "calls": calls, "d": d, "delta": delta, "timeout": 300})
    impl = run_impl(cases, timeout=3000)
    lines, keep = [], []
    for c, r in zip(cases, impl):
        d, delta = c["d"], c["delta"]
        ctx.count(c, nontrivial=d >= 2, bucket="d<%d/delta=%g" % (10 ** len(str(d)), delta))
        if "exc" in r:
            ctx.fail("fpsearch", c, "raised %s: %s" % (r["exc"], r.get("msg", "")[:100]))
            continue
        res = r["ok"]
        ph_delta, ph_other, ph_gamma, alpha, ph_again = res[:5]
        if len(ph_delta) != 2 * d or any(("nan" in x or "inf" in x) for x in ph_delta):
            ctx.fail("fpsearch", c, "returned %d phases for d = %d (or non-finite entries)" % (len(ph_delta), d))
            continue
        if ph_delta != ph_delta[::-1]:
            ctx.fail("fpsearch", c, "the 2d phases are not palindromic")
            continue
        if ph_again != ph_delta or (len(res) > 5 and res[5] != ph_delta):
            ctx.fail("fpsearch", c, "the same request gives different phases later in the same process (or default delta != 0.1)")
            continue
        dev = max(abs(float.fromhex(x) - float.fromhex(y)) for x, y in zip(ph_gamma, ph_delta))
        if len(ph_gamma) != 2 * d or dev > 1e-9:
            ctx.fail("fpsearch", c, "passing gamma = 1/cosh(arccosh(1/delta)/L) gives phases differing by %.3e from passing delta" % dev)
            continue
        lines.append("(fpslayout %s)" % Q.qlist(alpha))
        keep.append((c, "layout", ph_delta))
        L = 2 * d + 1
        gamma = 1 / math.cosh(math.acosh(1 / delta) / L)
        width = math.sqrt(max(0.0, 1 - gamma * gamma))     # a-value of the fixed-point width: lambda = 1 - gamma^2
        avals = sorted(set([0.0, 1.0, width, min(1.0, width * 1.0001), width * 0.999, 0.5, 0.999999] + [rng.uniform(0, 1) for _ in range(10)]
                           + [min(1.0, width + (1 - width) * rng.random()) for _ in range(6)]))
        pts = [(a, closed_form(d, delta, a)) for a in avals]
        lines.append("(fpprob %s (%s))" % (Q.qlist(ph_delta), " ".join("(%s %s)" % (qs(fr(a)), qs(fr(p))) for a, p in pts)))
        keep.append((c, "prob", (pts, gamma, width)))
    mod = run_model(lines, timeout=3000)
    for (c, what, x), m in zip(keep, mod):
        if isinstance(m, str):
            ctx.infra_fail("extracted model failed (%s): %s" % (what, m))
            continue
        d, delta = c["d"], c["delta"]
        if what == "layout":
            if [Fraction(v) for v in m] != [fr(v) for v in x]:
                ctx.fail("fpsearch", c, "phases are not the interleaved / reversed / halved alpha angles (phivec[2k] = -alpha[d-1-k]/2, phivec[2k+1] = -alpha[k]/2)")
        else:
            pts, gamma, width = x
            for (a, p), dist in zip(pts, m):
                if dist == "ERR":
                    ctx.infra_fail("no enclosure at a = %r" % a)
                    break
                dv = Q.scaled_to_float(dist)
                if dv > 1e-9:
                    ctx.fail("fpsearch", c, "success probability at overlap lambda=%.9f is at distance %.3e from 1 - delta^2 T_L(T_{1/L}(1/delta) sqrt(1-lambda))^2 = %.12f"
                             % (a * a, dv, p))
                    break
                if a >= width * (1 + 1e-12) and p - dv < 1 - delta * delta - 1e-9:
                    ctx.fail("fpsearch", c, "success probability %.12f below 1 - delta^2 at lambda=%.9f above the fixed-point width" % (p, a * a))
                    break
            else:
                ctx.instance_obligations += 1
                ctx.instance_discharged += 1
    ctx.residual.append("equality with the YLC closed form is checked at sampled overlaps against a float evaluation; the identity jointly in "
                        "(d, delta, lambda) is not proved")
