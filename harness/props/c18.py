"""C18 — fixed-point search phases achieve the Yoder-Low-Chuang success probability."""
import math
from fractions import Fraction

from common import fr, qs, qcoq, hexf, run_impl, run_model, coq_eval
import qsp_common as Q

LEVEL = "proof"
TECHNIQUE = ("Coq theorems (Props/C18.v, 13): for every d and alpha the layout (2d phases, palindrome, entry formulas of the interleaving / "
             "reversal / halving) and the gamma-vs-delta dataflow; the alternating reflection sequence R prod_k Z(phi_k) R is, up to a unit "
             "scalar and a diagonal similarity, the Wx QSP product of the phases (pi/2, phi_k - pi/2, 0); Chebyshev product / doubling "
             "identities for all real x; T_L strictly increasing on [1,oo) so that y = T_{1/L}(1/delta) lies in an exactly checked rational "
             "bracket; |T_L| <= 1 on [-1,1] (fixed-point corollary); and soundness of the verified checker check_fp_closed: it computes, in "
             "400-bit interval Laurent-polynomial arithmetic, the success probability P(t) and 1 - delta^2 T_L(y sin t)^2 for y in the "
             "bracket and bounds the coefficient 1-norm of their difference, which bounds |P(lambda) - closed form| for EVERY lambda in "
             "[0,1]. Per run the generator's phases (as exact rationals) go through that checker (tolerance 1e-9), the layout model and a "
             "sampled enclosure of the probability; call sequences in one process (gamma / delta / d varied)")
LEVEL_TEXT = ("Props/C18.v: 13 theorems. For every generated phase vector the closed form is certified for all lambda in [0,1] by a checker "
              "whose soundness is a Coq theorem (C18_closed_form_certificate, with C18_y_bracket tying y to delta); the layout and option "
              "dataflow hold for all d, alpha. What is sampled is (d, delta): d = 1..25 and larger values up to 200, delta in "
              "{1e-3 .. 0.9}; the identity as one theorem jointly in (d, delta) for ideal real angles is not proved.")
LEVEL_NOTE = ("Trusted: Coq kernel, extraction, driver.ml, harness, numpy as executor. The rational bracket of y is proposed by the harness "
              "(untrusted) and re-checked exactly by check_y_bracket. Axioms: stdlib real-number axioms, Classical_Prop.classic, "
              "functional_extensionality_dep (Coquelicot). Residual: (d, delta) are sampled; floats math.cosh/acosh only propose the bracket "
              "and place the sampled overlaps.")
RULE = ("d = 1..25 and {40, 79, 100, 150, 200} (quick: 1..12, 25, 79, 90, 200), delta in {1e-3, 0.1, 0.3, 0.5, 0.9, 0.97, 0.9995, 0.999999} plus very small delta "
        "1e-5..1e-20 for d in 2..40 (quick: four pairs); per (d, delta): delta path, gamma path, return_alpha, repeated in one process with other gammas "
        "and a shorter request in between, every returned vector held and re-read after the last call; 24 overlaps incl. 0, 1 and the fixed-point "
        "width; distinct by JSON; non-trivial = d >= 2")
TRUSTED = ["Coq 8.16.1 kernel", "extraction (ExtrOcamlBasic, ExtrOcamlZBigInt) + driver.ml + zarith", "harness (impl_runner.py, impl_handlers5.py)",
           "numpy as executor; math.cosh/acosh/cos/acos only for the sampled-overlap sub-check and to propose the y bracket"]
ASSUME = ["success probability = |<0| R prod_k diag(e^{i phi_k}, e^{-i phi_k}) R |0>|^2 with R = [[a, s],[s, -a]], a = sqrt(lambda) (QSVT-convention "
          "alternating reflections, 2d+1 signal reflections)"]


CERT_TOL = Fraction(1, 10 ** 9)


def closed_form(d, delta, a):
    L = 2 * d + 1
    y = math.cosh(math.acosh(1 / delta) / L)
    x = y * math.sqrt(max(0.0, 1 - a * a))
    T = math.cos(L * math.acos(x)) if abs(x) <= 1 else math.cosh(L * math.acosh(x))
    return 1 - delta * delta * T * T


def ybracket(d, dq, s=420):
    """exact rational bracket [lo, hi], hi - lo = 2^(1-s), of the root y >= 1 of delta*T_L(y) = 1 (the Coq side re-checks it exactly:
    check_y_bracket).  Integer arithmetic on y = m/2^s; Newton steps with a float derivative, then a +-1 ulp bracket."""
    L = 2 * d + 1
    S2 = 1 << (2 * s)
    top = dq.denominator << (s * L)

    def val(m):        # delta*T_L(m/2^s) - 1, as (numerator over 2^(sL) * den(delta))
        a, b = 1, m
        for _ in range(L - 1):
            a, b = b, 2 * m * b - S2 * a
        return dq.numerator * b - top

    delta = float(dq)
    y0 = math.cosh(math.acosh(1 / delta) / L)
    m = max(1 << s, int(Fraction(y0) * (1 << s)))
    u = math.acosh(max(y0, 1.0 + 1e-300))
    deriv = delta * L * (math.sinh(L * u) / math.sinh(u) if u > 1e-8 else L)      # d/dy of delta*T_L(y)
    dfr = Fraction(deriv)
    for _ in range(14):
        v = val(m)
        step = (Fraction(v, top) / dfr) * (1 << s)
        st = int(step)
        if st == 0:
            break
        m = max(1 << s, m - st)
    lo, hi = m - 1, m + 1
    lo = max(lo, 1 << s)
    k = 1
    while val(lo) > 0 and lo > (1 << s):
        lo = max(1 << s, lo - k)
        k *= 4
    k = 1
    while val(hi) < 0:
        hi += k
        k *= 4
    return Fraction(lo, 1 << s), Fraction(hi, 1 << s)


def run(ctx):
    rng = ctx.rng
    quick = ctx.tier == "quick"
    ds = (list(range(1, 13)) + [25, 79, 90, 200]) if quick else list(range(1, 26)) + [40, 79, 100, 150, 200]
    cases = []
    if ctx.replay is not None and ctx.replay.get("case", {}).get("fn") == "fpsearch":
        cases = [ctx.replay["case"]]
    else:
        for d in ds:
            for delta in (([0.1, rng.choice([1e-3, 0.3, 0.5, 0.9])] + ([0.97, 0.9995] if d >= 79 else [rng.choice([0.97, 0.9995, 0.999999])] if d % 4 == 1 else []))
                          if quick else [1e-3, 0.1, 0.3, 0.5, 0.9, 0.97, 0.9995, 0.999999]):
                L = 2 * d + 1
                gamma = 1 / math.cosh(math.acosh(1 / delta) / L)
                other = 1 / math.cosh(math.acosh(1 / (delta * 0.5)) / L)
                calls = [{"d": d, "delta": hexf(delta)}, {"d": d, "gamma": hexf(other)}, {"d": d, "gamma": hexf(gamma)},
                         {"d": d, "delta": hexf(delta), "return_alpha": True}, {"d": d, "delta": hexf(delta)}]
                if delta == 0.1:
                    calls.append({"d": d})
                if d > 1:
                    calls.append({"d": d - 1, "delta": hexf(0.3)})      # a later, shorter request while the earlier vectors are still held
                cases.append({"fn": "fpsearch", "calls": calls, "d": d, "delta": delta, "timeout": 300})
        # very small delta (the documented command line goes down to 1e-20): 1/delta is huge, T_{1/L} must not lose the decaying half
        for d, delta in ([(5, 1e-8), (10, 1e-9), (3, 1e-12), (20, 1e-6)] if quick else
                         [(d, dl) for d in (2, 3, 5, 7, 10, 20, 40) for dl in (1e-5, 1e-6, 1e-7, 1e-8, 1e-9, 1e-12, 1e-20)]):
            L = 2 * d + 1
            gamma = 1 / math.cosh(math.acosh(1 / delta) / L)
            other = 1 / math.cosh(math.acosh(1 / (delta * 0.5)) / L)
            calls = [{"d": d, "delta": hexf(delta)}, {"d": d, "gamma": hexf(other)}, {"d": d, "gamma": hexf(gamma)},
                     {"d": d, "delta": hexf(delta), "return_alpha": True}, {"d": d, "delta": hexf(delta)}]
            cases.append({"fn": "fpsearch", "calls": calls, "d": d, "delta": delta, "timeout": 300})
        # the length held in a narrow numpy integer or a float: 2d+1 must be formed after the conversion to a Python int
        for d, dt in ([(100, "int8"), (150, "uint8"), (64, "int8"), (20, "float"), (7, "uint8")] if quick else
                      [(100, "int8"), (150, "uint8"), (64, "int8"), (127, "int8"), (128, "uint8"), (200, "uint8"), (20, "float"), (7, "uint8"), (3, "int16"), (90, "int16")]):
            delta = 0.3 if d % 2 else 0.5
            L = 2 * d + 1
            gamma = 1 / math.cosh(math.acosh(1 / delta) / L)
            other = 1 / math.cosh(math.acosh(1 / (delta * 0.5)) / L)
            calls = [{"d": d, "delta": hexf(delta), "d_type": dt}, {"d": d, "gamma": hexf(other), "d_type": dt}, {"d": d, "gamma": hexf(gamma), "d_type": dt},
                     {"d": d, "delta": hexf(delta), "return_alpha": True, "d_type": dt}, {"d": d, "delta": hexf(delta)}]
            cases.append({"fn": "fpsearch", "calls": calls, "d": d, "delta": delta, "timeout": 300})
    # gamma given directly, also where the corresponding delta = 1/T_L(1/gamma) is far below the smallest double (long sequences, small gamma)
    gcases = []
    if ctx.replay is None or ctx.replay.get("case", {}).get("fn") == "fpsearch_gamma":
        glist = [(200, 0.3), (120, 0.1), (50, 0.6), (5, 0.9), (150, 0.15)] if quick else \
            [(d_, g_) for d_ in (1, 5, 20, 50, 100, 120, 150, 200) for g_ in (0.9, 0.6, 0.3, 0.1, 0.03)]
        gcases = [{"fn": "fpsearch", "calls": [{"d": d_, "gamma": hexf(g_)}, {"d": max(1, d_ - 1), "gamma": hexf(0.5)}, {"d": d_, "gamma": hexf(g_)}],
                   "d": d_, "gamma": g_, "timeout": 300} for d_, g_ in glist]
        if ctx.replay is not None:
            gcases = [dict(ctx.replay["case"], fn="fpsearch")]
            cases = []
    gimpl = run_impl(gcases, timeout=3000) if gcases else []
    glines, gkeep = [], []
    for c, r in zip(gcases, gimpl):
        d, gam = c["d"], c["gamma"]
        c = dict(c, fn="fpsearch_gamma")
        ctx.count(c, nontrivial=d >= 2, bucket="gamma-only/d<%d/gamma=%g" % (10 ** len(str(d)), gam))
        if "exc" in r:
            ctx.fail("fpsearch", c, "raised %s: %s" % (r["exc"], r.get("msg", "")[:100]))
            continue
        res = r["ok"]
        if res["changed_later"]:
            ctx.fail("fpsearch", c, "phase vectors returned by calls %s were modified by later generate() calls (shared storage)" % res["changed_later"])
            continue
        ph = res["out"][0]
        if len(ph) != 2 * d or any(("nan" in x or "inf" in x) for x in ph) or ph != ph[::-1] or res["out"][2] != ph:
            ctx.fail("fpsearch", c, "gamma path: %d phases for d = %d, non-finite, not palindromic, or not reproducible" % (len(ph), d))
            continue
        L = 2 * d + 1
        y = 1.0 / gam
        u = math.acosh(y)
        width = math.sqrt(max(0.0, 1 - gam * gam))

        def pg(a):
            x = y * math.sqrt(max(0.0, 1 - a * a))
            if x <= 1:
                r_ = math.cos(L * math.acos(x)) / math.cosh(L * u) if L * u < 700 else 0.0
            else:
                v = math.acosh(x)
                r_ = math.exp(L * (v - u)) * (1 + math.exp(-2 * L * v)) / (1 + math.exp(-2 * L * u))
            return 1 - r_ * r_
        avals = sorted(set([0.0, 1.0, width, width * 0.999, 0.5] + [width * rng.random() for _ in range(8)] + [rng.uniform(0, min(1.0, 4.0 / L)) for _ in range(8)]))
        pts = [(a, pg(a)) for a in avals]
        glines.append("(fpprob %s (%s))" % (Q.qlist(ph), " ".join("(%s %s)" % (qs(fr(a)), qs(fr(p_))) for a, p_ in pts)))
        gkeep.append((c, pts))
    for (c, pts), m in zip(gkeep, run_model(glines, timeout=3000) if glines else []):
        if isinstance(m, str):
            ctx.infra_fail("extracted model failed (gamma path): " + m)
            continue
        for (a, p_), dist in zip(pts, m):
            if dist == "ERR":
                ctx.infra_fail("no enclosure at a = %r" % a)
                break
            if Q.scaled_to_float(dist) > 1e-9:
                ctx.fail("fpsearch", c, "gamma = %g, d = %d: success probability at overlap lambda=%.9f is at distance %.3e from 1 - T_L(sqrt(1-lambda)/gamma)^2 / T_L(1/gamma)^2 = %.12f"
                         % (c["gamma"], c["d"], a * a, Q.scaled_to_float(dist), p_))
                break
        else:
            ctx.instance_obligations += 1
            ctx.instance_discharged += 1
    impl = run_impl(cases, timeout=3000)
    lines, keep = [], []
    for c, r in zip(cases, impl):
        d, delta = c["d"], c["delta"]
        ctx.count(c, nontrivial=d >= 2, bucket="d<%d/delta=%g" % (10 ** len(str(d)), delta))
        if "exc" in r:
            ctx.fail("fpsearch", c, "raised %s: %s" % (r["exc"], r.get("msg", "")[:100]))
            continue
        res = r["ok"]
        if isinstance(res, dict):
            if res["changed_later"]:
                ctx.fail("fpsearch", c, "phase vectors returned by calls %s were modified by later generate() calls (shared storage)" % res["changed_later"])
                continue
            res = res["out"]
        ph_delta, ph_other, ph_gamma, alpha, ph_again = res[:5]
        if len(ph_delta) != 2 * d or any(("nan" in x or "inf" in x) for x in ph_delta):
            ctx.fail("fpsearch", c, "returned %d phases for d = %d (or non-finite entries)" % (len(ph_delta), d))
            continue
        if ph_delta != ph_delta[::-1]:
            ctx.fail("fpsearch", c, "the 2d phases are not palindromic")
            continue
        if ph_again != ph_delta or (len(c["calls"]) > 5 and set(c["calls"][5]) == {"d"} and res[5] != ph_delta):
            ctx.fail("fpsearch", c, "the same request gives different phases later in the same process (or default delta != 0.1)")
            continue
        dev = max(abs(float.fromhex(x) - float.fromhex(y)) for x, y in zip(ph_gamma, ph_delta))
        # passing gamma goes through sqrt(1 - gamma^2): the double nearest to gamma moves it by up to 2u/(1 - gamma^2) relatively
        gam_ = 1 / math.cosh(math.acosh(1 / delta) / (2 * d + 1))
        if len(ph_gamma) != 2 * d or dev > 1e-9 + 4e-16 / max(1 - gam_ * gam_, 1e-300):
            ctx.fail("fpsearch", c, "passing gamma = 1/cosh(arccosh(1/delta)/L) gives phases differing by %.3e from passing delta" % dev)
            continue
        lines.append("(fpslayout %s)" % Q.qlist(alpha))
        keep.append((c, "layout", ph_delta))
        L = 2 * d + 1
        gamma = 1 / math.cosh(math.acosh(1 / delta) / L)
        width = math.sqrt(max(0.0, 1 - gamma * gamma))     # a-value of the fixed-point width: lambda = 1 - gamma^2
        avals = sorted(set([0.0, 1.0, width, min(1.0, width * 1.0001), width * 0.999, 0.5, 0.999999] + [rng.uniform(0, 1) for _ in range(10)]
                           + [min(1.0, width + (1 - width) * rng.random()) for _ in range(6)]))
        pts = [(a, closed_form(d, delta, a)) for a in avals]
        lines.append("(fpprob %s (%s))" % (Q.qlist(ph_delta), " ".join("(%s %s)" % (qs(fr(a)), qs(fr(p))) for a, p in pts)))
        keep.append((c, "prob", (pts, gamma, width)))
        # all overlaps at once: the closed-form certificate (Props/C18.v: C18_closed_form_certificate)
        ylo, yhi = ybracket(d, fr(delta))
        lines.append("(fpclosed %d %s %s %s %s %s)" % (d, Q.qlist(ph_delta), qs(fr(delta)), qs(ylo), qs(yhi), qs(CERT_TOL)))
        keep.append((c, "closed", (ph_delta, float(yhi - ylo))))
    mod = run_model(lines, timeout=3000)
    pend_closed = []
    for (c, what, x), m in zip(keep, mod):
        if isinstance(m, str):
            ctx.infra_fail("extracted model failed (%s): %s" % (what, m))
            continue
        d, delta = c["d"], c["delta"]
        if what == "closed":
            ph, wdt = x
            ok, brk, norm = m[0], m[1], m[2]
            ctx.instance_obligations += 1
            if str(brk) != "1":
                ctx.infra_fail("harness: the rational bracket of y = T_{1/L}(1/delta) (d=%d, delta=%g, width %.1e) is rejected by check_y_bracket" % (d, delta, wdt))
            elif str(ok) == "1":
                ctx.instance_discharged += 1
                ctx.bucket("closed-form certificate accepted (all lambda in [0,1])")
            else:
                nv = Q.scaled_to_float(norm) if norm != "ERR" else float("inf")
                pend_closed.append((c, ph, nv))
        elif what == "layout":
            if [Fraction(v) for v in m] != [fr(v) for v in x]:
                ctx.fail("fpsearch", c, "phases are not the interleaved / reversed / halved alpha angles (phivec[2k] = -alpha[d-1-k]/2, phivec[2k+1] = -alpha[k]/2)")
        else:
            pts, gamma, width = x
            for (a, p), dist in zip(pts, m):
                if dist == "ERR":
                    ctx.infra_fail("no enclosure at a = %r" % a)
                    break
                dv = Q.scaled_to_float(dist)
                if dv > 1e-9:
                    ctx.fail("fpsearch", c, "success probability at overlap lambda=%.9f is at distance %.3e from 1 - delta^2 T_L(T_{1/L}(1/delta) sqrt(1-lambda))^2 = %.12f"
                             % (a * a, dv, p))
                    break
                if a >= width * (1 + 1e-12) and p - dv < 1 - delta * delta - 1e-9:
                    ctx.fail("fpsearch", c, "success probability %.12f below 1 - delta^2 at lambda=%.9f above the fixed-point width" % (p, a * a))
                    break
            else:
                ctx.instance_obligations += 1
                ctx.instance_discharged += 1
    # a rejected certificate: search a dense grid of overlaps for a concrete failing lambda
    for c, ph, nv in pend_closed:
        d, delta = c["d"], c["delta"]
        avals = [i / 400 for i in range(401)]
        pts = [(a, closed_form(d, delta, a)) for a in avals]
        r = run_model(["(fpprob %s (%s))" % (Q.qlist(ph), " ".join("(%s %s)" % (qs(fr(a)), qs(fr(p))) for a, p in pts))], timeout=3000)[0]
        worst = None
        if not isinstance(r, str):
            for (a, p), dist in zip(pts, r):
                if dist != "ERR":
                    dv = Q.scaled_to_float(dist)
                    if dv > 1e-9 and (worst is None or dv > worst[1]):
                        worst = (a, dv, p)
        if worst is not None:
            ctx.fail("fpsearch", c, "closed-form certificate rejected (certified bound %.3e); at overlap lambda=%.9f the success probability is at distance %.3e from "
                                    "1 - delta^2 T_L(T_{1/L}(1/delta) sqrt(1-lambda))^2 = %.12f" % (nv, worst[0] ** 2, worst[1], worst[2]))
        else:
            ctx.infra_fail("check_fp_closed rejects the phases of generate(d=%d, delta=%g): certified bound on sup_lambda |P - closed form| is %.3e > %.1e; "
                           "no failing overlap found on a 401-point grid" % (d, delta, nv, float(CERT_TOL)))
    ctx.residual.append("the YLC closed form is certified for all lambda in [0,1] per generated phase vector (d, delta sampled); the identity as a "
                        "theorem jointly in (d, delta) for the ideal real-valued angles is not proved")
