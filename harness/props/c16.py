"""C16 — generated polynomials approximate their documented target functions."""
import math
from fractions import Fraction

from common import fr, qs, qcoq, hexf, run_impl, run_model, coq_eval
import qsp_common as Q
import gen_common as G
import supcert

LEVEL = "proof"
TECHNIQUE = ("Coq-verified continuum certificates: (1) first order - check_trig_acc (|p(x) - scale cos(tau x)| <= eps, resp. sin, for every x in "
             "[-1,1]) and check_inv_acc_scaled (|p(x)/scale - 1/x| <= 3 eps for every x in [1/kappa, 1]): cell covers, Chebyshev series by the "
             "3-term recurrence in interval arithmetic, verified enclosures of the targets, Lipschitz constants; (2) high order, for small eps - "
             "check_trig_acc_hi / check_inv_acc_hi: exact cheb2poly, Taylor shift of p at the cell centre in 400-bit interval arithmetic, the "
             "target through the addition formulas with the alternating-series remainders of cos u, sin u (|u| <= 1) resp. the geometric "
             "series of 1/(x0+d), coefficient-wise difference bounded by sum_k |d_k| r^k. The erf-family clause is decided by independent "
             "recomputation of the least-squares Chebyshev fit - in closed form, c_k = (2-[k=0])/N sum_j f(x_j) T_k(x_j), which is proved to be "
             "the least-squares solution on the N first-kind Chebyshev nodes (discrete orthogonality, Theory/DctT.v) - with a float oracle "
             "for erf / exp, and comparison of coefs/scale with it")
LEVEL_TEXT = ("Props/C16.v: 11 theorems (certificate soundness, first and high order, for cosine/sine in both bases and for 1/x; target "
              "enclosure; Taylor shift; discrete orthogonality and the closed form of the least-squares fit). Every cosine, sine and 1/x output of the run is certified on the whole interval (the high-order "
              "certificate takes over where the first-order cover would exceed the cell budget, i.e. at small eps). PARTIAL for the erf "
              "family: 'is a positive multiple of the least-squares fit of the documented target' is checked against a float recomputation "
              "(erf, exp, chebpts1 nodes are oracles), no theorem.")
LEVEL_NOTE = ("Trusted: Coq kernel, extraction, driver.ml, harness (cell proposal untrusted), numpy/scipy as executors; scipy.special.erf, "
              "exp, log, cos inside the reference evaluation of the erf-family fits (float oracles). Axioms: stdlib real-number axioms + "
              "Classical_Prop.classic.")
RULE = ("cosine / sine: tau in (0, 60] plus large values up to 200, eps in {0.5, 0.1, 1e-2, 1e-4, 1e-8, 1e-10}, both bases (monomial while "
        "degree <= 24), bounded and unbounded; 1/x: (kappa, eps) table with kappa in [1.5, 10] and kappa^2 log(kappa/eps) <= 500, both "
        "ensure_bounded values, Chebyshev basis; erf family: degrees 2..60, shapes as C14, cheb_samples >= degree+1, Chebyshev basis; "
        "distinct by JSON; non-trivial = always")
TRUSTED = ["Coq 8.16.1 kernel", "extraction (ExtrOcamlBasic, ExtrOcamlZBigInt) + driver.ml + zarith", "harness (cell proposal untrusted; impl_handlers5.py)",
           "numpy/scipy as executors; scipy.special.erf, exp, log, cos as float oracles of the erf-family reference fit (closed form, no linear solve)"]
ASSUME = ["returned doubles, tau, eps, kappa are exact dyadic rationals; erf-family targets as documented in poly.py's docstrings / closures"]


def clenshaw(c, t):
    return supcert.f_eval(c, t)


def budgeted_cover(ctx, g, L, M, end, start, rmax, budget, grid_end=None):
    """dense float grid first (finds violations, estimates the margin); a cover is proposed only when the
    first-order cell count ~ L * length / margin fits the budget - otherwise the instance is recorded as
    'float grid only' (not certified)"""
    n = 6001
    ge = grid_end if grid_end is not None else math.pi
    best, bt = -1.0, 0.0
    for j in range(n):
        t = ge * j / (n - 1)
        v = g(t)
        if v > best:
            best, bt = v, t
    if best > M:
        return ("exceeds", bt)
    margin = M - best
    if margin <= 0 or 1.1 * L * (end - start) / margin > budget:
        return ("skip", None)
    return supcert.make_cells_fn(g, L, M, end=end, start=start, rmax=rmax, max_cells=2 * budget)


def xcells(n, lo_x, hi_x, rmax_of, nh=2.0):
    """x-space cells (centre, radius) covering [lo_x, hi_x]: images of uniform theta cells of half-width nh/n (so that the
    Taylor 1-norm of a degree-n polynomial on a cell stays within e^nh of its sup), split so that radius <= rmax_of(left end)"""
    h = min(nh / max(n, 1), 0.3)
    t = math.acos(max(-1.0, min(1.0, lo_x)))
    edges = [lo_x - 1e-9]
    while True:
        t = max(0.0, t - 2 * h)
        x = math.cos(t)
        if x >= hi_x or t == 0.0:
            edges.append(hi_x + 1e-9)
            break
        edges.append(x)
    out = []
    for a, b in zip(edges[:-1], edges[1:]):
        m = max(1, int(math.ceil((b - a) / 2 / rmax_of(a))))
        for i in range(m):
            lo, hi = a + (b - a) * i / m, a + (b - a) * (i + 1) / m
            out.append((Fraction((lo + hi) / 2).limit_denominator(1 << 40), Fraction((hi - lo) / 2 * 1.001 + 1e-12).limit_denominator(1 << 40)))
    return out


def xcells_sexp(cells):
    return "(" + " ".join("(%s %s)" % (qs(a), qs(b)) for a, b in cells) + ")"


def run(ctx):
    rng = ctx.rng
    quick = ctx.tier == "quick"
    budget = 3000 if quick else 6000
    cases = []
    if ctx.replay is not None and ctx.replay.get("case", {}).get("fn") == "gen":
        cases = [ctx.replay["case"]]
    else:
        for name in ("cos", "sin"):
            taus = [0.5, 3.0, 7.0156, 10.0, 20.0, 35.0] + [rng.uniform(0.1, 60) for _ in range(2 if quick else 10)] + \
                   ([rng.choice([90.0, 120.0, 200.0])] if quick else [90.0, 150.0, 200.0])
            for tau in taus:
                for eps in ([rng.choice([0.5, 0.1]), rng.choice([0.05, 1e-2, 1e-4, 1e-8, 1e-10])] if quick else [0.5, 0.1, 0.05, 1e-2, 1e-4, 1e-8, 1e-10]):
                    cheb = not (tau < 8 and rng.random() < 0.4)
                    cases.append({"fn": "gen", "name": name, "args": G.enc_args({"tau": tau, "epsilon": eps}), "ensure_bounded": rng.random() < 0.7,
                                  "return_scale": False, "chebyshev_basis": cheb, "timeout": 300})
        for kappa, eps in ((1.5, 0.3), (2, 0.1), (3, 0.3), (3, 0.01), (4, 1e-3), (5, 0.1), (10, 0.1), (8, 0.05), (3, 1e-3), (2.5, 0.2), (6, 1e-4), (2, 1e-10))[: (7 if quick else 12)] + \
                          ((2, 1e-9), (3, 1e-10), (1.5, 1e-10)) + (() if quick else ((2, 1e-10), (4, 1e-9), (1.2, 1e-12))):    # very small epsilon: the truncation order matters
            for eb in (True, False):
                cases.append({"fn": "gen", "name": "invert", "args": G.enc_args({"kappa": float(kappa), "epsilon": eps}), "ensure_bounded": eb,
                              "return_scale": eb, "chebyshev_basis": True, "timeout": 300})
        # the object-returning path (return_coef=False) of cosine / sine / 1/x: the series object must be the scaled approximation too
        for name, a in (("cos", {"tau": 7.0, "epsilon": 0.1}), ("sin", {"tau": 4.0, "epsilon": 1e-3}), ("cos", {"tau": 12.0, "epsilon": 1e-6}),
                        ("invert", {"kappa": 3.0, "epsilon": 0.1})):
            for eb in (True, False):
                cases.append({"fn": "gen", "name": name, "args": G.enc_args(a), "ensure_bounded": eb, "return_scale": eb and name == "invert",
                              "chebyshev_basis": rng.random() < 0.5, "return_coef": False, "timeout": 300})
        # integer-valued tau / kappa handed over as numpy scalars (an element of np.arange, of an integer array of evolution times)
        for name, a, ty in (("sin", {"tau": 12.0, "epsilon": 1e-3}, {"tau": "int64"}), ("sin", {"tau": 37.0, "epsilon": 0.3}, {"tau": "int32"}),
                            ("cos", {"tau": 9.0, "epsilon": 1e-2}, {"tau": "int64"}), ("cos", {"tau": 20.0, "epsilon": 1e-4}, {"tau": "uint8"}),
                            ("sin", {"tau": 5.0, "epsilon": 1e-6}, {"tau": "float64"}), ("invert", {"kappa": 3.0, "epsilon": 0.1}, {"kappa": "int64"})):
            for cheb in ((True, False) if name != "invert" else (True,)):       # 1/x is compared in the Chebyshev basis only (degree 29 here; monomial form above degree 24 is outside the quantifier)
                cases.append({"fn": "gen", "name": name, "args": G.enc_args(a), "ensure_bounded": rng.random() < 0.5, "return_scale": False,
                              "chebyshev_basis": cheb, "arg_types": ty, "timeout": 300})
        for name in G.ERF:
            for rep in range(2 if quick else 10):
                deg = G.right_parity_degree(rng, name, 2, 60 if rep else 12)
                a = dict(G.shape_args(rng, name), degree=deg)
                ns = max(20, deg + rng.choice([1, 5, 30]))
                eb = rng.random() < 0.6
                c = {"fn": "gen", "name": name, "args": G.enc_args(a), "ensure_bounded": eb, "return_scale": eb, "chebyshev_basis": True,
                     "cheb_samples": ns, "timeout": 300}
                cases.append(c)
        # directed: every option path of the generators with two call sites (rect, and through it 1/x*rect) with a non-default number of samples
        for eb_, rs_ in ((True, False), (False, False), (False, True), (True, True)):
            a_ = {"degree": 16, "delta": 0.3, "kappa": 5, "epsilon": 0.1}
            cases.append({"fn": "gen", "name": "rect", "args": G.enc_args(a_), "ensure_bounded": eb_, "return_scale": rs_, "chebyshev_basis": True,
                          "cheb_samples": 33, "timeout": 300})
        # directed: as many samples as coefficients (interpolation), odd and even generators, incl. degree 19 with the default 20 samples
        for name, a in (("sign", {"degree": 19, "delta": 2.0}), ("linamp", {"degree": 19, "gamma": 0.25, "kappa": 10}), ("sign", {"degree": 29, "delta": 5.0}),
                        ("gibbs", {"degree": 24, "beta": 2.0}), ("thresh", {"degree": 28, "delta": 4.0})):
            cases.append({"fn": "gen", "name": name, "args": G.enc_args(a), "ensure_bounded": rng.random() < 0.5, "return_scale": True, "chebyshev_basis": True,
                          "cheb_samples": a["degree"] + 1, "timeout": 300})
        # directed: extreme shape parameters (large kappa with large delta, large delta, small gamma ...)
        for name, a in (("softplus", {"degree": 10, "delta": 0.7, "kappa": 40}), ("softplus", {"degree": 16, "delta": 0.85, "kappa": 60}),
                        ("sign", {"degree": 21, "delta": 20.0}), ("linamp", {"degree": 15, "gamma": 0.05, "kappa": 40}),
                        ("gibbs", {"degree": 20, "beta": 15.0}), ("relu", {"degree": 12, "delta": 0.9}), ("rect", {"degree": 14, "delta": 8.0, "kappa": 10, "epsilon": 1e-3}),
                        ("thresh", {"degree": 18, "delta": 30.0}), ("phase_est", {"degree": 12, "delta": 25.0}), ("efilter", {"degree": 14, "delta": 0.6})):
            cases.append({"fn": "gen", "name": name, "args": G.enc_args(a), "ensure_bounded": True, "return_scale": True, "chebyshev_basis": True,
                          "cheb_samples": a["degree"] + 25, "timeout": 300})
    refs = [dict(c, fn="fit_reference") for c in cases if c["name"] in G.ERF]
    impl = run_impl(cases, timeout=3000)
    refres = run_impl(refs, timeout=3000)
    refmap = {}
    for c, r in zip(refs, refres):
        refmap[id(c)] = r
    ri = 0
    lines, keep = [], []
    for c, r in zip(cases, impl):
        name = c["name"]
        ctx.count(c, nontrivial=True, bucket="%s/%s" % (name, "cheb" if c["chebyshev_basis"] else "mono"))
        site = "generator:" + name
        if name in G.ERF:
            rr = refres[ri]
            ri += 1
        if "exc" in r:
            ctx.fail(site, c, "raised %s (%s)" % (r["exc"], r.get("msg", "")[:100]))
            continue
        cf = [float.fromhex(x) for x in r["ok"]["coefs"]]
        if any(math.isnan(x) or math.isinf(x) for x in cf):
            ctx.fail(site, c, "non-finite coefficients")
            continue
        arg = {k: (float.fromhex(v) if isinstance(v, str) else v) for k, v in c["args"].items()}
        if c.get("return_coef") is False:
            c = dict(c, chebyshev_basis=True)       # the object handed back is the Chebyshev series itself
        if name in ("cos", "sin"):
            scale = 0.5 if c["ensure_bounded"] else 1.0
            tau, eps = arg["tau"], arg["epsilon"]
            if not c["chebyshev_basis"] and len(cf) > 25:
                ctx.bucket("monomial output of degree > 24: outside the quantifier, skipped")
                continue
            cc = cf if c["chebyshev_basis"] else [float(x) for x in Q.mono2cheb([fr(x) for x in r["ok"]["coefs"]])]
            L = sum(k * abs(v) for k, v in enumerate(cc)) + scale * abs(tau)
            tgt = (lambda t: scale * math.cos(tau * math.cos(t))) if name == "cos" else (lambda t: scale * math.sin(tau * math.cos(t)))
            gfun = lambda t: abs(clenshaw(cc, t) - tgt(t))
            kind, data = budgeted_cover(ctx, gfun, L, eps, 4.0 + 1e-6, -1e-9, 0.05, budget)
            if kind == "cover":
                lines.append("(trigacc %d %d %s %s %s %s %s)" % (0 if c["chebyshev_basis"] else 1, 1 if name == "sin" else 0, Q.qlist(r["ok"]["coefs"]),
                                                              qs(fr(scale)), qs(fr(tau)), supcert.cells_sexp(data), qs(fr(eps))))
                keep.append((c, "trig", len(data)))
            elif kind == "skip":
                # high-order certificate (Taylor shift on x-cells with |tau| r <= 1): no budget problem at small eps
                cells = xcells(len(cf) - 1, -1.0, 1.0, lambda a: 0.999 / max(abs(tau), 1e-9))
                lines.append("(trigacchi %d %d %s %s %s %s %d %s)" % (0 if c["chebyshev_basis"] else 1, 1 if name == "sin" else 0, Q.qlist(r["ok"]["coefs"]),
                                                                    qs(fr(scale)), qs(fr(tau)), xcells_sexp(cells), 5, qs(fr(eps))))
                keep.append((c, "trig, high order", len(cells)))
            elif kind == "exceeds":
                x = math.cos(data)
                err = abs(clenshaw(cc, data) - tgt(data))
                # confirmed with margin in float arithmetic at an explicit point (coefficients and target are evaluated to ~1e-15)
                if err > eps * (1 + 1e-9) + 1e-13:
                    ctx.fail(site, c, "|p(x) - scale*%s(tau x)| = %.6e > eps = %.3e at x = %.9f (tau = %r)" % (name, err, eps, x, tau))
                else:
                    ctx.bucket("undecided: borderline accuracy")
            elif kind == "undecided":
                ctx.bucket("undecided: " + data[:40])
        elif name == "invert":
            kappa, eps = arg["kappa"], arg["epsilon"]
            scale = float.fromhex(r["ok"]["scale"]) if r["ok"]["scale"] is not None else 1.0
            if not (scale > 0):
                ctx.fail(site, c, "non-positive scale %r" % scale)
                continue
            cc = [v / scale for v in cf]
            thmax = min(math.acos(1 / kappa) + 1e-9, 2.0)
            L = sum(k * abs(v) for k, v in enumerate(cc)) + kappa * kappa
            tol = 3 * eps
            kind, data = budgeted_cover(ctx, lambda t: abs(clenshaw(cc, t) - 1 / math.cos(t)) if math.cos(t) > 0 else float("inf"), L, tol,
                                        thmax + 1e-12, -1e-12, 0.01, budget, grid_end=math.acos(1 / kappa))
            if kind == "cover":
                # cell centres must stay inside the domain (cos(centre) >= 1/kappa): drop the overshoot of the last cells
                data = [(t, rr_) for t, rr_ in data if t <= math.acos(1 / kappa) - 1e-9]
                last = data[-1][0] + data[-1][1] if data else 0.0
                if last <= thmax + 1e-10:
                    tc = math.acos(1 / kappa) - 1e-9
                    data.append((tc, max(thmax - tc + 1e-9, tc - last + 1e-10)))
                lines.append("(invacc %s %s %s %s %s %s)" % (Q.qlist(r["ok"]["coefs"]), qs(fr(scale)), qs(fr(kappa)), qs(fr(thmax)), supcert.cells_sexp(data), qs(fr(tol))))
                keep.append((c, "inv", len(data)))
            elif kind == "skip":
                cells = xcells(len(cf) - 1, 1 / kappa, 1.0, lambda a: max(a, 1 / kappa) / 4)
                lines.append("(invacchi %s %s %s %s %d %s)" % (Q.qlist(r["ok"]["coefs"]), qs(fr(scale)), qs(fr(kappa)), xcells_sexp(cells), 40, qs(fr(tol))))
                keep.append((c, "inv, high order", len(cells)))
            elif kind == "exceeds":
                x = math.cos(data)
                err = abs(clenshaw(cc, data) - 1 / x)
                if err > tol * (1 + 1e-9) and x >= 1 / kappa:
                    ctx.fail(site, c, "|p(x)/scale - 1/x| = %.6e > 3 eps = %.3e at x = %.9f (kappa = %r)" % (err, tol, x, kappa))
                else:
                    ctx.bucket("undecided: borderline accuracy")
            elif kind == "undecided":
                ctx.bucket("undecided: " + data[:40])
        else:
            if "exc" in rr:
                ctx.skipped.append("reference fit failed for %s: %s" % (name, rr["exc"]))
                continue
            ref = [float.fromhex(x) for x in rr["ok"]["coef"]]
            scale = float.fromhex(r["ok"]["scale"]) if r["ok"]["scale"] is not None else 1.0
            if r["ok"]["scale"] is None and c["ensure_bounded"] and len(cf) == len(ref):
                # bounded output without the scale: the statement is "a positive multiple of the fit" - the multiple is the projection on the fit
                par_ = name in G.ODD
                den_ = sum(ref[j] * ref[j] for j in range(len(ref)) if (j % 2 == 1) == par_)
                scale = (sum(cf[j] * ref[j] for j in range(len(ref)) if (j % 2 == 1) == par_) / den_) if den_ > 0 else 1.0
            if not (scale > 0):
                ctx.fail(site, c, "non-positive scale %r" % scale)
                continue
            # the generator zeroes the opposite parity after fitting: compare on the advertised parity only
            odd = name in G.ODD
            mx = max(abs(v) for v in ref) or 1.0
            cond = float.fromhex(rr["ok"]["cond"])
            tol = 1e-9 * mx * max(1.0, cond / 1e3)
            worst = max(abs(cf[j] / scale - ref[j]) for j in range(len(ref)) if (j % 2 == 1) == odd) if len(cf) == len(ref) else float("inf")
            if worst > tol:
                ctx.fail(site, c, "coefs/scale differ from the least-squares Chebyshev fit of the documented target by %.3e (allowed %.1e; degree %d, %d nodes)"
                         % (worst, tol, arg["degree"], c.get("cheb_samples", 20)))
            else:
                ctx.bucket("erf family: matches the recomputed fit")
    mod = run_model(lines, timeout=3000)
    for (c, what, ncells), m in zip(keep, mod):
        if m == "1":
            ctx.bucket("certified on the continuum (%s, cells<%d)" % (what, 10 ** len(str(ncells))))
            ctx.instance_obligations += 1
            ctx.instance_discharged += 1
        elif m == "0":
            ctx.bucket("undecided: proposed certificate rejected by the checker (%s)" % what)
        else:
            ctx.infra_fail("extracted accuracy checker failed: " + str(m)[:100])
    ctx.residual.append("erf-family clause: the closed form of the least-squares fit is a theorem; its evaluation uses float oracles (scipy.special.erf, exp, log, cos)")
