"""C02 — returned phases realise the requested complex polynomial (Wx signal, z basis)."""
import math
from fractions import Fraction

from common import fr, qs, qcoq, hexf, run_impl, run_model, coq_eval
import qsp_common as Q
from props.c05 import gen_phases

LEVEL = "proof"
TECHNIQUE = ("Coq-verified checker check_c02 (interval evaluation of the phase product from verified cos/sin enclosures; exact "
             "Laurent forms of Re P and Im P; corner certificate in coefficient 1-norm) with soundness theorem "
             "C02_certificate_sound (true => |<0|U_x(cos t)|0> - P(cos t)| <= 100 tol for every t, U_x the defining product) run on "
             "every return of QuantumSignalProcessingPhases(P, 'Wx', measurement='z') over corners of random phase sequences, their "
             "perturbations and unachievable P; fault injection on the decomposition output")
LEVEL_TEXT = ("Props/C02.v: certificate soundness for all phase lists, all complex P and all t; the target is P itself (no eps/suc); "
              "Wx/z response = Hadamard corner over any ring. Every returned phase list goes through the extracted checker.")
LEVEL_NOTE = ("Trusted: Coq kernel + vm_compute, extraction, driver.ml, harness, numpy as executor. Axioms: stdlib real-number axioms + "
              "Classical_Prop.classic. 'Raises when P is not a corner / numerics fail' is observed on generated unachievable inputs and "
              "under fault injection, not proved.")
RULE = ("[plus: achievable corners with one off-parity coefficient of size 0.02..0.2 added - must raise] " "complex P = corner of random phase sequences (both parities, degree 1..20; generic / moderate / symmetric / quarter-angle / "
        "repeated phases), perturbed by 1e-6..1e-1, scaled by 0.5..2, tolerance in {1e-4,1e-6,1e-8,1e-9}; ~12% with the decomposition "
        "output perturbed by 1e3..1e5 tol; distinct by JSON; non-trivial = degree >= 2")
TRUSTED = ["Coq 8.16.1 kernel incl. vm_compute", "extraction (ExtrOcamlBasic, ExtrOcamlZBigInt) + driver.ml + zarith, cross-checked in Coq on a slice",
           "harness (impl_runner.py, impl_handlers2.py)", "numpy/scipy as executors of the implementation"]
ASSUME = ["input and returned doubles are exact dyadic rationals; the response is the defining Wx product of Theory/RespT.v"]


def run(ctx):
    rng = ctx.rng
    quick = ctx.tier == "quick"
    cases = []
    if ctx.replay is not None and ctx.replay.get("case", {}).get("fn") == "qspp":
        cases = [ctx.replay["case"]]
    else:
        degs = list(range(1, 21))
        for d in degs:
            for rep in range(4 if quick else 40):
                kind = rng.choice(["generic", "generic", "moderate", "moderate", "symmetric", "quarter", "repeated"])
                ph = (gen_phases(rng, d, kind) + [0.1] * (d + 1))[: d + 1]
                pre, pim = Q.corner_of_phases(ph)
                mode = rng.choice(["achievable"] * 6 + ["scaled", "perturbed"])
                if mode == "scaled":
                    f = rng.choice([0.5, 0.9, 0.999, 1.001, 1.1, 2.0, 1.0005, 0.9995, 1.0002])
                    pre, pim = [x * f for x in pre], [x * f for x in pim]
                elif mode == "perturbed":
                    e = rng.choice([1e-6, 1e-4, 1e-2, 1e-1])
                    j = rng.randrange(d % 2, d + 1, 2)
                    pre[j] += e * rng.choice([-1, 1])
                tol = rng.choice([1e-6, 1e-6, 1e-4, 1e-8, 1e-9])
                c = {"fn": "qspp", "poly": Q.cplx_hex(pre, pim), "complex": True, "signal_operator": "Wx", "measurement": "z",
                     "tolerance": hexf(tol), "kind": kind, "mode": mode, "timeout": 300}
                if rng.random() < 0.12:
                    c["perturb"] = hexf(tol * 10 ** rng.choice([3, 4, 5]))
                cases.append(c)
        # faults sized by the coefficient magnitude of the target (monomial coefficients of a degree-14 corner reach 1e3): an acceptance test
        # that normalises the reconstruction error by the coefficient size lets these through
        for d in ((16, 18, 20) if quick else (12, 14, 16, 18, 20)):
            for rep in range(4 if quick else 10):
                ph = (gen_phases(rng, d, rng.choice(["generic", "moderate"])) + [0.1] * (d + 1))[: d + 1]
                pre, pim = Q.corner_of_phases(ph)
                big = max(max(abs(x) for x in pre), max(abs(x) for x in pim))
                tol = rng.choice([1e-6, 1e-8])
                if big >= 800:
                    cases.append({"fn": "qspp", "poly": Q.cplx_hex(pre, pim), "complex": True, "signal_operator": "Wx", "measurement": "z",
                                  "tolerance": hexf(tol), "kind": "bigcoef", "mode": "achievable", "perturb": hexf(tol * big * 0.2), "timeout": 300})
        # corners whose imaginary parts are all below 1e-6 (a global phase of 1e-7 on a real corner), as list / ndarray, at tight tolerance
        for d in ((2, 3, 5) if quick else range(1, 9)):
            for e_ in (4e-7, 1e-7):
                ph = [e_ / (2 ** max(0, d - 2))] + [0.0] * d
                pre, pim = Q.corner_of_phases(ph)
                cases.append({"fn": "qspp", "poly": Q.cplx_hex(pre, pim), "complex": True, "signal_operator": "Wx", "measurement": "z",
                              "tolerance": hexf(rng.choice([1e-9, 1e-10])), "kind": "nearly-real", "mode": "achievable", "timeout": 300})
        # slightly mis-scaled corners (|P(1)| within 1e-3 of 1) at tight tolerances: unachievable, must raise
        for d in ([2, 3, 5, 8] if quick else range(1, 13)):
            for f in (1.0005, 0.9995):
                ph = (gen_phases(rng, d, rng.choice(["generic", "moderate"])) + [0.1] * (d + 1))[: d + 1]
                pre, pim = Q.corner_of_phases(ph)
                cases.append({"fn": "qspp", "poly": Q.cplx_hex([x * f for x in pre], [x * f for x in pim]), "complex": True, "signal_operator": "Wx",
                              "measurement": "z", "tolerance": hexf(rng.choice([1e-6, 1e-8])), "kind": "misscaled", "mode": "scaled", "timeout": 300})
        # mis-scaled by a few 1e-7 only (inside the fixed 1e-6 of the completion's own unitarity test) at tolerances far below that:
        # the reconstruction error ~ 2e-7 must be compared with the tolerance as it is, not after rounding / a floor
        for d in ([2, 3, 5, 6] if quick else range(1, 11)):
            for f in (1 + 2e-7, 1 - 3e-7, 1 + 4e-7):
                ph = (gen_phases(rng, d, rng.choice(["generic", "moderate"])) + [0.1] * (d + 1))[: d + 1]
                pre, pim = Q.corner_of_phases(ph)
                cases.append({"fn": "qspp", "poly": Q.cplx_hex([x * f for x in pre], [x * f for x in pim]), "complex": True, "signal_operator": "Wx",
                              "measurement": "z", "tolerance": hexf(rng.choice([1e-10, 1e-9, 1e-11])), "kind": "misscaled-1e-7", "mode": "scaled", "timeout": 300})
        # not the corner of any QSP unitary because both parities are present: an achievable corner plus an off-parity term
        for d in ([2, 3, 4, 7] if quick else range(1, 13)):
            for rep in range(2 if quick else 6):
                ph = (gen_phases(rng, d, rng.choice(["generic", "moderate"])) + [0.1] * (d + 1))[: d + 1]
                pre, pim = Q.corner_of_phases(ph)
                j = rng.choice([k for k in range(d + 1) if (k - d) % 2 == 1])
                e = rng.choice([0.02, 0.05, 0.2]) * rng.choice([-1, 1])
                if rng.random() < 0.5:
                    pre[j] += e
                else:
                    pim[j] += e
                cases.append({"fn": "qspp", "poly": Q.cplx_hex(pre, pim), "complex": True, "signal_operator": "Wx", "measurement": "z",
                              "tolerance": hexf(1e-6), "kind": "offparity", "mode": "offparity", "offsize": abs(e), "timeout": 300})
    impl = run_impl(cases, timeout=3000)
    lines, keep = [], []
    for c, r in zip(cases, impl):
        d = len(c["poly"]) - 1
        tag = c.get("mode", "replay") + ("/perturbed-output" if c.get("perturb") else "")
        if "exc" in r:
            ctx.count(c, nontrivial=d >= 2, bucket="%s/raised:%s" % (tag, r["exc"]))
            if r["exc"] in ("WorkerDied", "CaseTimeout"):
                ctx.fail("qspp", c, "neither returned nor raised (%s)" % r["exc"])
            continue
        ctx.count(c, nontrivial=d >= 2, bucket="%s/returned" % tag)
        ro = r["ok"]
        if ro["phis"] == "dict" or ro["len"] != d + 1:
            ctx.fail("qspp", c, "returned %s phases for a degree-%d polynomial" % (ro["len"], d))
            continue
        if not ro["finite"]:
            ctx.fail("qspp", c, "returned non-finite phases")
            continue
        pre = [x[1] for x in c["poly"]]
        pim = [x[2] for x in c["poly"]]
        if c.get("mode") == "offparity":
            # every <0|U(a)|0> has the parity of d; with f = P - corner, |f_off(a)| = |f(a) -+ f(-a)|/2 <= sup|f|, and f_off = P_off
            ctx.fail("qspp", c, "returned %d phases for a P containing both parities (off-parity coefficient %.3g): no phase sequence has this corner; "
                     "sup |<0|U|0> - P| >= |P_off(1)| = %.3g > 100*tol" % (ro["len"], c["offsize"], c["offsize"]))
            continue
        lines.append("(c02 %s %s %s %s)" % (Q.qlist(ro["phis"]), Q.qlist(pre), Q.qlist(pim), qs(fr(c["tolerance"]))))
        keep.append((c, ro, pre, pim))
    mod = run_model(lines)
    terms = []
    for (c, ro, pre, pim), m in zip(keep, mod):
        if isinstance(m, str):
            ctx.infra_fail("extracted checker failed on a returned phase list: " + str(m))
            continue
        tol = float(fr(c["tolerance"]))
        if m[0] != "1":
            err = Q.scaled_to_float(m[1]) if m[1] != "ERR" else float("nan")
            what = "perturbed decomposition output was returned, not rejected: " if c.get("perturb") else ""
            ctx.fail("qspp", c, what + "returned phases do not realise P: certified distance %.3e > 100*tol = %.3e" % (err, 100 * tol))
        elif len(pre) <= 3 and len(terms) < (3 if quick else 12):
            terms.append("check_c02 [%s] [%s] [%s] %s" % ("; ".join(qcoq(fr(x)) for x in ro["phis"]), "; ".join(qcoq(fr(x)) for x in pre),
                                                        "; ".join(qcoq(fr(x)) for x in pim), qcoq(fr(c["tolerance"]))))
    header = ("From Coq Require Import ZArith QArith List. Import ListNotations.\n"
              "From PyqspV Require Import Model.Checkers.\n")
    res, err = coq_eval(header, terms, ctx.pid)
    ctx.instance_obligations += len(terms)
    okn = sum(1 for x in res if x is True)
    ctx.instance_discharged += okn
    if okn != len(terms):
        ctx.infra_fail("extraction cross-check: %d of %d certificates accepted by the extracted checker are not accepted by vm_compute %s"
                       % (len(terms) - okn, len(terms), err))
    ctx.residual.append("that unachievable P raise is observed on generated inputs; success on achievable P is C03")
