"""exact encoding of numbers / arrays / LPoly / LAlg values crossing the process boundary"""
import numpy


def enc(x):
    """exact encoding of numbers / arrays"""
    if isinstance(x, (bool, numpy.bool_)):
        return bool(x)
    if isinstance(x, (int, numpy.integer)):
        return str(int(x))
    if isinstance(x, (float, numpy.floating)):
        return float(x).hex()
    if isinstance(x, (complex, numpy.complexfloating)):
        return ["c", float(x.real).hex(), float(x.imag).hex()]
    if isinstance(x, numpy.ndarray):
        return [enc(v) for v in x.tolist()] if x.ndim else enc(x.item())
    if isinstance(x, (list, tuple)):
        return [enc(v) for v in x]
    if x is None:
        return None
    if isinstance(x, str):
        return "s:" + x
    if isinstance(x, dict):
        return {k: enc(v) for k, v in x.items()}
    return "repr:" + repr(x)[:200]


def dec(x):
    """hex string / int string / ['c', re, im] / list -> Python number(s)"""
    if isinstance(x, list):
        if len(x) == 3 and x[0] == "c":
            return complex(float.fromhex(x[1]), float.fromhex(x[2]))
        return [dec(v) for v in x]
    if isinstance(x, str):
        if x == "default":
            return x
        if "x" in x or "inf" in x or "nan" in x:
            return float.fromhex(x)
        return int(x)
    return x


def arr(x):
    return numpy.array(dec(x))


def enc_lpoly(p):
    return {"dmin": int(p.dmin), "isz": bool(p.iszero), "coefs": enc(numpy.array(p.coefs))}


def enc_lalg(g):
    return {"I": enc_lpoly(g.IPoly), "X": enc_lpoly(g.XPoly)}


