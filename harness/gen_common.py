"""Argument grids for the polynomial generators (shared by C14-C17)."""
from common import hexf

ERF = ["sign", "thresh", "phase_est", "rect", "linamp", "gibbs", "efilter", "relu", "softplus"]
ODD = {"sign", "linamp", "sin", "invert", "invrect"}
CHEBSUM = ["cos", "sin", "invert"]
DEFAULT_MAX_SCALE = {"sign": 0.9, "thresh": 0.9, "phase_est": 0.9, "rect": 0.9, "linamp": 1.0, "gibbs": 1.0, "efilter": 0.9,
                     "relu": 0.99, "softplus": 0.9, "cos": 0.5, "sin": 0.5, "invert": 0.5}


def shape_args(rng, name):
    if name in ("sign", "thresh", "phase_est"):
        return {"delta": rng.choice([0.5, 1.0, 2.0, 5.0, 10.0, rng.uniform(0.5, 10)])}
    if name == "rect":
        return {"delta": rng.choice([1.0, 2.0, 4.0]), "kappa": rng.choice([2, 3, 6]), "epsilon": rng.choice([0.1, 0.01, 0.3, 0.5, 0.7])}
    if name == "linamp":
        return {"gamma": rng.choice([0.1, 0.25, 0.4]), "kappa": rng.choice([5, 10, 20])}
    if name == "gibbs":
        return {"beta": rng.choice([0.5, 2.0, 3.5, 8.0])}
    if name == "efilter":
        return {"delta": rng.choice([0.1, 0.2, 0.4])}
    if name == "relu":
        return {"delta": rng.choice([0.1, 0.2, 0.5])}
    if name == "softplus":
        return {"delta": rng.choice([0.1, 0.2, 0.5, 0.7]), "kappa": rng.choice([1, 1, 5, 20, 40])}
    if name in ("cos", "sin"):
        return {"tau": rng.choice([0.5, 3.0, 7.0156, 10.0, 20.0, 35.0, rng.uniform(0.1, 60)]), "epsilon": rng.choice([0.5, 0.1, 1e-2, 1e-4, 1e-8])}
    if name == "invert":
        kappa, eps = rng.choice([(1.5, 0.3), (2, 0.1), (3, 0.3), (3, 0.01), (4, 1e-3), (5, 0.1), (8, 0.05)])
        return {"kappa": kappa, "epsilon": eps}
    raise AssertionError(name)


def right_parity_degree(rng, name, lo, hi):
    par = 1 if name in ODD else 0
    cands = [d for d in range(lo, hi + 1) if d % 2 == par]
    return rng.choice(cands)


def enc_args(a):
    return {k: (hexf(v) if isinstance(v, float) else v) for k, v in a.items()}


def bessel_table(x, nmax):
    """J_0(x) .. J_nmax(x) by Miller's backward recurrence (normalised by J_0 + 2 sum J_2k = 1)."""
    N = int(max(nmax, x)) + 40
    N += N % 2
    jp, jc = 0.0, 1e-280
    vals = [0.0] * (N + 2)
    vals[N] = jc
    for n in range(N, 0, -1):
        jm = (2 * n / x) * jc - jp
        jp, jc = jc, jm
        vals[n - 1] = jc
        if abs(jc) > 1e250:
            vals = [v * 1e-250 for v in vals]
            jp, jc = jp * 1e-250, jc * 1e-250
    norm = vals[0] + 2 * sum(vals[2:N + 1:2])
    return [v / norm for v in vals[:nmax + 1]]


def taus_near_inrange_bessel_zero(rng, odd, eps, count, lo=8.0, hi=45.0):
    """tau values at which a Jacobi-Anger coefficient 2 J_n(tau) of the generator's parity with n well inside the series (n <= 0.6 tau)
    is below eps/10: the series is not monotone there, so a truncation rule keyed on one small term would cut it in the middle."""
    out = []
    tries = 0
    while len(out) < count and tries < 20000:
        tries += 1
        tau = round(rng.uniform(lo, hi), 2)
        tab = bessel_table(tau, int(0.6 * tau) + 1)
        ns = [n for n in range(2 + (1 if odd else 0), int(0.6 * tau) + 1, 2) if abs(2 * tab[n]) < 0.1 * eps]
        if ns:
            out.append(tau)
    return out
