"""Entry point: ./check <ID> [--tier quick|thorough] [--replay FILE]"""
import importlib
import json
import os
import sys

sys.path.insert(0, os.path.dirname(os.path.abspath(__file__)))
import common


def main():
    try:        # a runaway harness must fail fast instead of exhausting the machine
        import resource
        resource.setrlimit(resource.RLIMIT_AS, (24 << 30, 24 << 30))
    except Exception:
        pass
    args = sys.argv[1:]
    if not args:
        print("usage: check <ID> [--tier quick|thorough] [--replay FILE]")
        return 2
    pid = args[0].upper()
    tier = os.environ.get("VERIF_TIER", "quick")
    replay = None
    i = 1
    while i < len(args):
        if args[i] == "--tier":
            tier = args[i + 1]
            i += 2
        elif args[i] == "--replay":
            replay = json.load(open(args[i + 1]))
            i += 2
        else:
            i += 1
    if tier not in ("quick", "thorough"):
        tier = "quick"
    seed = int(os.environ.get("VERIF_SEED", "20260926"))
    ctx = common.Ctx(pid, tier, seed, replay)
    ctx.requested_tier = tier
    # source anchors: a changed module in the import closure of the property's anchored files -> thorough generators
    try:
        import anchors
        changed = anchors.changed_for(common.REPO, anchors.property_files(pid))
    except Exception as e:
        changed = ["anchors unavailable: %s" % type(e).__name__]
    ctx.changed_sources = changed
    if changed and tier == "quick" and replay is None and os.environ.get("VERIF_NO_ESCALATE") != "1":
        print("note: %s differ(s) from the pinned source anchors (anchors.json): running %s with the thorough generators"
              % (", ".join(changed), pid))
        ctx.tier = "thorough"
    mod = importlib.import_module("props." + pid.lower())
    ready = common.prepare(ctx)
    if ready:
        try:
            mod.run(ctx)
        except Exception as e:  # the harness itself failed: never a silent pass
            import traceback
            ctx.infra_fail("harness error: " + traceback.format_exc()[-1500:])
    rc = common.finish(ctx, mod.LEVEL, mod.TECHNIQUE, mod.TRUSTED, mod.ASSUME,
                       predicates=getattr(mod, "PREDICATES", None), rule=mod.RULE,
                       extra=getattr(mod, "extra", lambda c: None)(ctx))
    return rc


if __name__ == "__main__":
    sys.exit(main())
