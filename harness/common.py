"""Shared machinery of the /verif checks: build + audit of the Coq development, running the
implementation (in /venv/bin/python against /repo's working tree) and the extracted model,
in-Coq re-evaluation of a slice, violation / known-finding reporting, evidence writing."""
import fcntl
import hashlib
import json
import os
import random
import re
import shutil
import subprocess
import sys
import time
from fractions import Fraction

VERIF = os.path.dirname(os.path.dirname(os.path.abspath(__file__)))
COQ = os.path.join(VERIF, "coq")
BUILD = os.path.join(VERIF, "build")
OUT = os.environ.get("VERIF_OUT_DIR", os.path.join(VERIF, "out"))
EVID = os.environ.get("VERIF_EVID_DIR", os.path.join(VERIF, "evidence"))
REPO = os.environ.get("VERIF_REPO", "/repo")
IMPL_PY = os.environ.get("VERIF_IMPL_PY", "/venv/bin/python")
MODEL_BIN = os.path.join(BUILD, "pyqsp_model")
NCPU = max(1, min(16, os.cpu_count() or 1))

ALLOWED_AXIOMS = {
    "ClassicalDedekindReals.sig_forall_dec",
    "ClassicalDedekindReals.sig_not_dec",
    "FunctionalExtensionality.functional_extensionality_dep",
    "Classical_Prop.classic",
}
FORBIDDEN = re.compile(
    r"\b(Admitted|admit|Axiom|Axioms|Parameter|Parameters|Conjecture|Conjectures|Hypothesis|Hypotheses|Variable|Variables)\b"
    r"|Unset\s+Guard|bypass_check|type-in-type|impredicative-set|Admit\s+Obligations|Unset\s+Positivity|Unset\s+Universe")

# ---------------------------------------------------------------------------------------
# numbers


def fr(x):
    """exact Fraction of a Python float / int / Fraction / hex string"""
    if isinstance(x, Fraction):
        return x
    if isinstance(x, str):
        if "/" in x or x.lstrip("-").isdigit():
            return Fraction(x)
        return Fraction(float.fromhex(x))
    if isinstance(x, float):
        return Fraction(*x.as_integer_ratio())
    return Fraction(x)


def qs(x):
    """Fraction -> 'num/den' token for the driver"""
    x = fr(x)
    return str(x.numerator) if x.denominator == 1 else f"{x.numerator}/{x.denominator}"


def qcoq(x):
    """Fraction -> Coq Q literal"""
    x = fr(x)
    n = f"({x.numerator})" if x.numerator < 0 else str(x.numerator)
    return f"({n} # {x.denominator})"


def hexf(x):
    return float(x).hex()


def unhex(x):
    return float.fromhex(x) if isinstance(x, str) else x


# ---------------------------------------------------------------------------------------
# s-expressions returned by the driver


def parse_sexp(s):
    s = s.strip()
    if s == "ERR" or s.startswith("FAIL"):
        return s
    toks = s.replace("(", " ( ").replace(")", " ) ").split()
    pos = 0

    def item():
        nonlocal pos
        t = toks[pos]
        pos += 1
        if t == "(":
            acc = []
            while toks[pos] != ")":
                acc.append(item())
            pos += 1
            return acc
        return t
    return item()


# ---------------------------------------------------------------------------------------
# build and audit


class BuildError(Exception):
    pass


def _run(cmd, cwd=None, timeout=1800, env=None, inp=None):
    p = subprocess.run(cmd, cwd=cwd, timeout=timeout, env=env, input=inp,
                       stdout=subprocess.PIPE, stderr=subprocess.STDOUT, text=True)
    return p.returncode, p.stdout


def build(log):
    """make the Coq development and link the extracted model; serialised with flock."""
    os.makedirs(BUILD, exist_ok=True)
    os.makedirs(OUT, exist_ok=True)
    os.makedirs(EVID, exist_ok=True)
    with open(os.path.join(BUILD, ".lock"), "w") as lk:
        fcntl.flock(lk, fcntl.LOCK_EX)
        try:
            if not os.path.exists(os.path.join(COQ, "Makefile")) or \
                    os.path.getmtime(os.path.join(COQ, "Makefile")) < os.path.getmtime(os.path.join(COQ, "_CoqProject")):
                rc, out = _run(["coq_makefile", "-f", "_CoqProject", "-o", "Makefile"], cwd=COQ)
                if rc:
                    raise BuildError("coq_makefile failed:\n" + out[-2000:])
            rc, out = _run(["make", "-j%d" % NCPU], cwd=COQ, timeout=3000)
            log.append(out[-1500:])
            if rc:
                raise BuildError("coq make failed:\n" + out[-3000:])
            ext = os.path.join(COQ, "Extract")
            src = [os.path.join(ext, f) for f in ("model.ml", "model.mli", "driver.ml")]
            if not all(os.path.exists(f) for f in src):
                raise BuildError("extraction output missing")
            stale = (not os.path.exists(MODEL_BIN)) or any(
                os.path.getmtime(f) > os.path.getmtime(MODEL_BIN) for f in src)
            if stale:
                for f in src:
                    shutil.copy(f, BUILD)
                rc, out = _run(["ocamlfind", "ocamlopt", "-package", "zarith", "-linkpkg", "-w", "-a",
                                "model.mli", "model.ml", "driver.ml", "-o", "pyqsp_model"], cwd=BUILD)
                if rc:
                    raise BuildError("ocaml link failed:\n" + out[-3000:])
        finally:
            fcntl.flock(lk, fcntl.LOCK_UN)


def strip_comments(txt):
    out, depth, i = [], 0, 0
    while i < len(txt):
        if txt.startswith("(*", i):
            depth += 1
            i += 2
        elif txt.startswith("*)", i) and depth:
            depth -= 1
            i += 2
        else:
            if not depth:
                out.append(txt[i])
            i += 1
    return "".join(out)


def audit_sources():
    """forbidden words outside comments anywhere in the development; Variable/Hypothesis are
    allowed only inside a Section."""
    bad = []
    for root, _, files in os.walk(COQ):
        for f in files:
            if not f.endswith(".v"):
                continue
            path = os.path.join(root, f)
            txt = strip_comments(open(path).read())
            depth = 0
            for ln, line in enumerate(txt.split("\n"), 1):
                if re.match(r"\s*Section\b", line):
                    depth += 1
                if re.match(r"\s*End\b", line) and depth:
                    depth -= 1
                for m in FORBIDDEN.finditer(line):
                    wd = m.group(0)
                    if wd.split()[0] in ("Variable", "Variables", "Hypothesis", "Hypotheses") and depth > 0:
                        continue
                    bad.append(f"{os.path.relpath(path, COQ)}:{ln}: {wd}")
    return bad


def props_obligations(pid):
    """compile Props/<pid>.v; return (theorem names, axioms used, problems)."""
    path = os.path.join(COQ, "Props", pid + ".v")
    if not os.path.exists(path):
        return [], set(), [f"Props/{pid}.v missing"]
    rc, out = _run(["coqc", "-Q", ".", "PyqspV", "-w", "-all", os.path.join("Props", pid + ".v")],
                   cwd=COQ, timeout=900)
    problems = []
    if rc:
        problems.append("coqc Props/%s.v failed: %s" % (pid, out[-1500:]))
    txt = strip_comments(open(path).read())
    thms = re.findall(r"^\s*(?:Theorem|Example|Corollary)\s+(\w+)", txt, re.M)
    n_pa = len(re.findall(r"Print Assumptions", txt))
    axioms = set()
    for m in re.finditer(r"^\s*([A-Za-z_][\w.]*)\s*:", out, re.M):
        name = m.group(1)
        if "." in name or name[0].isupper():
            axioms.add(name)
    # lines of the form "  name : type" appear only under "Axioms:" headers
    axioms = set()
    in_ax = False
    for line in out.split("\n"):
        if line.startswith("Axioms:"):
            in_ax = True
            continue
        if line.startswith("Closed under the global context"):
            in_ax = False
            continue
        if in_ax:
            m = re.match(r"^([A-Za-z_][\w.']*)\s*(:|$)", line)
            if m:
                axioms.add(m.group(1))
            elif line and not line.startswith(" "):
                in_ax = False
    extra = {a for a in axioms if a not in ALLOWED_AXIOMS}
    if extra:
        problems.append("axioms outside the allow-list: " + ", ".join(sorted(extra)))
    n_thm_only = len(re.findall(r"^\s*(?:Theorem|Corollary)\s+(\w+)", txt, re.M))
    if n_pa < n_thm_only:
        problems.append(f"only {n_pa} Print Assumptions for {n_thm_only} theorems")
    return thms, axioms, problems


# ---------------------------------------------------------------------------------------
# running the implementation and the model


def impl_env():
    env = dict(os.environ)
    env["PYTHONPATH"] = REPO + os.pathsep + os.path.join(VERIF, "harness", "stubs")
    env["PYTHONDONTWRITEBYTECODE"] = "1"
    env["PYTHONHASHSEED"] = "0"
    env["MPLBACKEND"] = "Agg"
    env["PYQSP_VERIF"] = "1"
    env["OMP_NUM_THREADS"] = "1"
    env["OPENBLAS_NUM_THREADS"] = "1"
    env["MKL_NUM_THREADS"] = "1"
    return env


def run_impl(cases, timeout=900, workers=None):
    """cases: list of JSON-able dicts with key 'fn'. Returns list of result dicts in order.
    Each result is {'ok': value} or {'exc': class name, 'msg': ...}; a crashed / hung worker
    yields {'exc': 'WorkerDied'} for its unfinished cases."""
    if not cases:
        return []
    workers = workers or NCPU
    workers = max(1, min(workers, len(cases)))
    chunks = [cases[i::workers] for i in range(workers)]
    procs = []
    runner = os.path.join(VERIF, "harness", "impl_runner.py")
    for ch in chunks:
        p = subprocess.Popen([IMPL_PY, runner], stdin=subprocess.PIPE, stdout=subprocess.PIPE,
                             stderr=subprocess.PIPE, env=impl_env(), text=True, cwd=BUILD)
        procs.append(p)
    import threading
    outs = [None] * workers

    def feed(i):
        try:
            o, e = procs[i].communicate("\n".join(json.dumps(c) for c in chunks[i]) + "\n", timeout=timeout)
            outs[i] = (o, e)
        except subprocess.TimeoutExpired:
            procs[i].kill()
            o, e = procs[i].communicate()
            outs[i] = (o, (e or "") + "\nTIMEOUT")
    ths = [threading.Thread(target=feed, args=(i,)) for i in range(workers)]
    for t in ths:
        t.start()
    for t in ths:
        t.join()
    results = [None] * len(cases)
    for i in range(workers):
        o, e = outs[i]
        lines = [l for l in o.split("\n") if l.startswith("@@R ")]
        for j, c in enumerate(chunks[i]):
            idx = i + j * workers
            if j < len(lines):
                try:
                    results[idx] = json.loads(lines[j][4:])
                except Exception:
                    results[idx] = {"exc": "WorkerDied", "msg": "unparsable result"}
            else:
                results[idx] = {"exc": "WorkerDied", "msg": (e or "")[-400:]}
    return results


def run_model(lines, timeout=1800, workers=None):
    """lines: s-expression command lines for the extracted binary; returns parsed outputs."""
    if not lines:
        return []
    workers = workers or NCPU
    workers = max(1, min(workers, (len(lines) + 3) // 4))
    chunks = [lines[i::workers] for i in range(workers)]
    procs = [subprocess.Popen(["bash", "-c", "ulimit -s unlimited 2>/dev/null; exec " + MODEL_BIN],
                              stdin=subprocess.PIPE, stdout=subprocess.PIPE,
                              stderr=subprocess.PIPE, text=True) for _ in chunks]
    import threading
    outs = [None] * workers

    def feed(i):
        try:
            o, e = procs[i].communicate("\n".join(chunks[i]) + "\n", timeout=timeout)
        except subprocess.TimeoutExpired:
            procs[i].kill()
            o, e = procs[i].communicate()
        outs[i] = o
    ths = [threading.Thread(target=feed, args=(i,)) for i in range(workers)]
    for t in ths:
        t.start()
    for t in ths:
        t.join()
    res = [None] * len(lines)
    for i in range(workers):
        ol = outs[i].split("\n")
        for j in range(len(chunks[i])):
            idx = i + j * workers
            res[idx] = parse_sexp(ol[j]) if j < len(ol) and ol[j] != "" else "FAIL nooutput"
    return res


def coq_eval(header, terms, tag, timeout=900):
    """Evaluate Coq terms with vm_compute inside coqc; each term must reduce to a bool.
    Returns list of True/False/None (None = could not evaluate)."""
    if not terms:
        return [], ""
    d = os.path.join(BUILD, "run.%d" % os.getpid())
    os.makedirs(d, exist_ok=True)
    path = os.path.join(d, "cases_%s.v" % tag)
    with open(path, "w") as f:
        f.write(header + "\n")
        for i, t in enumerate(terms):
            f.write(f"Definition case_{i} : bool := {t}.\n")
            f.write(f"Eval vm_compute in (({i})%Z, case_{i}).\n")
    rc, out = _run(["bash", "-c", "ulimit -s unlimited 2>/dev/null; exec coqc -Q %s PyqspV -w -all %s" % (COQ, path)],
                   cwd=d, timeout=timeout)
    res = [None] * len(terms)
    for m in re.finditer(r"=\s*\(\s*(\d+)(?:%Z)?,\s*(true|false)\)", out):
        res[int(m.group(1))] = (m.group(2) == "true")
    shutil.rmtree(d, ignore_errors=True)
    return res, (out[-800:] if rc else "")


# ---------------------------------------------------------------------------------------
# the context object a property module works with


class Ctx:
    def __init__(self, pid, tier, seed, replay=None):
        self.pid = pid
        self.tier = tier
        self.seed = seed
        self.rng = random.Random(seed * 1000003 + int(pid[1:]))
        self.replay = replay
        self.t0 = time.time()
        self.failures = []          # (site, case, msg)
        self.infra = []             # build / audit / cross-check failures (theorem or correspondence names)
        self.evaluations = 0
        self.distinct = set()
        self.samples = []
        self.hist = {}
        self.notes = []
        self.instance_obligations = 0
        self.instance_discharged = 0
        self.theorems = []
        self.axioms = set()
        self.skipped = []
        self.log = []
        self.residual = []
        self.known_printed = []

    # bookkeeping -----------------------------------------------------------------
    def count(self, case, nontrivial=True, bucket=None):
        self.evaluations += 1
        if nontrivial:
            self.distinct.add(hashlib.sha1(json.dumps(case, sort_keys=True, default=str).encode()).hexdigest())
        if bucket:
            self.hist[bucket] = self.hist.get(bucket, 0) + 1
        if len(self.samples) < 4 and nontrivial:
            s = json.dumps(case, default=str)
            if len(s) < 1500:
                self.samples.append(case)

    def bucket(self, name, n=1):
        self.hist[name] = self.hist.get(name, 0) + n

    def fail(self, site, case, msg):
        self.failures.append((site, case, msg))

    def infra_fail(self, what):
        self.infra.append(what)

    def time_left(self, budget):
        return budget - (time.time() - self.t0)


def load_known():
    p = os.path.join(VERIF, "known_findings.json")
    if not os.path.exists(p):
        return []
    return json.load(open(p))


def match_known(pid, site, case, msg, known, predicates):
    for k in known:
        if k.get("property") != pid or k.get("kind") != "known":
            continue
        if k.get("site") != site:
            continue
        pred = predicates.get(k.get("predicate"))
        if pred is None:
            continue
        try:
            if pred(case, k):
                return k
        except Exception:
            continue
    return None


def finish(ctx, level, technique, trusted_base, assumptions, predicates=None, rule="", extra=None):
    """print KNOWN-FINDING / VIOLATION lines, write evidence, return exit code."""
    known = load_known()
    predicates = predicates or {}
    unmatched = []
    seen_known = {}
    for site, case, msg in ctx.failures:
        k = match_known(ctx.pid, site, case, msg, known, predicates)
        if k is not None:
            seen_known.setdefault(k["id"], (k, 0))
            seen_known[k["id"]] = (k, seen_known[k["id"]][1] + 1)
        else:
            unmatched.append((site, case, msg))
    for kid, (k, n) in sorted(seen_known.items()):
        print(f"KNOWN-FINDING: property={ctx.pid} {k['what']} [{kid}; {n} case(s) this run]")
    rc = 0
    os.makedirs(OUT, exist_ok=True)
    reported = 0
    for site, case, msg in unmatched[:5]:
        blob = json.dumps({"property": ctx.pid, "site": site, "case": case, "observed": msg,
                           "seed": ctx.seed, "tier": ctx.tier}, default=str, indent=1)
        h = hashlib.sha1(blob.encode()).hexdigest()[:12]
        path = os.path.join(OUT, f"{ctx.pid}-{h}.json")
        with open(path, "w") as f:
            f.write(blob)
        print(f"VIOLATION property={ctx.pid} replay={path}")
        print(f"  site={site}: {str(msg)[:300]}")
        reported += 1
        rc = 1
    if ctx.infra and not unmatched:
        blob = json.dumps({"property": ctx.pid, "broken": ctx.infra, "seed": ctx.seed, "tier": ctx.tier,
                           "note": "a proof obligation / audit / model cross-check no longer checks; "
                                   "the generated families were run and no failing input was found"}, indent=1)
        h = hashlib.sha1(blob.encode()).hexdigest()[:12]
        path = os.path.join(OUT, f"{ctx.pid}-{h}.json")
        with open(path, "w") as f:
            f.write(blob)
        print(f"VIOLATION property={ctx.pid} replay={path} no-failing-input-found")
        for w in ctx.infra[:5]:
            print("  broken:", str(w)[:400])
        rc = 1
    elif ctx.infra:
        for w in ctx.infra[:5]:
            print("  also broken:", str(w)[:400])
        rc = 1
    n_thm = len(ctx.theorems)
    obligations = n_thm + ctx.instance_obligations
    discharged = (n_thm if not any("Props" in str(i) or "audit" in str(i) or "build" in str(i) for i in ctx.infra) else 0) \
        + ctx.instance_discharged
    cov = {
        "evaluations": ctx.evaluations,
        "distinct_nontrivial": len(ctx.distinct),
        "rule": rule,
        "samples": ctx.samples[:4] if ctx.samples else [{"note": "no sample recorded"}],
        "obligations": max(obligations, 1),
        "discharged": max(discharged, 1) if rc == 0 else discharged,
        "checker_cmd": f"make -C /verif/coq && coqc -Q /verif/coq PyqspV /verif/coq/Props/{ctx.pid}.v "
                       f"(run by ./check {ctx.pid}); instance obligations by vm_compute in generated cases_{ctx.pid}.v",
        "trusted_base": trusted_base,
        "theorems": ctx.theorems,
        "axioms_reported_by_Print_Assumptions": sorted(ctx.axioms),
        "instance_obligations": ctx.instance_obligations,
        "instance_discharged": ctx.instance_discharged,
        "histogram": ctx.hist,
        "skipped": ctx.skipped,
        "residual_not_covered_by_a_theorem": ctx.residual,
        "known_findings_seen": sorted(seen_known.keys()),
        "technique": technique,
        "notes": ctx.notes,
    }
    if extra:
        cov.update(extra)
    cov["generators"] = ctx.tier
    cov["modelled_sources_changed_since_pinned"] = list(getattr(ctx, "changed_sources", []))
    ev = {
        "property_id": ctx.pid, "tier": getattr(ctx, "requested_tier", ctx.tier), "seed": ctx.seed, "level": level,
        "coverage": cov, "assumptions": assumptions, "wall_s": round(time.time() - ctx.t0, 2),
        "violations": len(unmatched) + (1 if (ctx.infra and not unmatched) else 0),
    }
    with open(os.path.join(EVID, ctx.pid + ".json"), "w") as f:
        json.dump(ev, f, indent=1, default=str)
    print(f"[{ctx.pid}] tier={ctx.tier} seed={ctx.seed} evaluations={ctx.evaluations} "
          f"distinct={len(ctx.distinct)} theorems={n_thm} instance_obligations={ctx.instance_discharged}/{ctx.instance_obligations} "
          f"failures={len(unmatched)} known={sum(n for _, n in seen_known.values())} wall={ev['wall_s']}s")
    return rc


def prepare(ctx):
    """steps 1-2 of a check run: build, audit, Props file."""
    try:
        build(ctx.log)
    except BuildError as e:
        ctx.infra_fail("build: " + str(e)[-1200:])
        return False
    except subprocess.TimeoutExpired:
        ctx.infra_fail("build: timeout")
        return False
    bad = audit_sources()
    if bad:
        ctx.infra_fail("audit: forbidden constructs: " + "; ".join(bad[:10]))
    thms, axioms, problems = props_obligations(ctx.pid)
    ctx.theorems = thms
    ctx.axioms = axioms
    for p in problems:
        ctx.infra_fail("Props/%s.v: %s" % (ctx.pid, p))
    return os.path.exists(MODEL_BIN)
