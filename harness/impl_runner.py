"""Runs inside /venv/bin/python with PYTHONPATH=/repo: executes the implementation on the cases
read from stdin (one JSON object per line) and prints one '@@R <json>' line per case.
Floats cross as hex strings; nothing here decides a verdict."""
import contextlib
import io
import json
import signal
import sys
import math

import numpy
import numpy as np


class CaseTimeout(Exception):
    pass


def _alarm(signum, frame):
    raise CaseTimeout("case timed out")


from impl_codec import enc, dec, arr, enc_lpoly, enc_lalg  # noqa


# ---------------------------------------------------------------------------------------
# LPoly / LAlg expression histories (C08, C09)

def ev_pexpr(e):
    from pyqsp.LPoly import LPoly
    op = e[0]
    if op == "lit":
        return LPoly(dec(e[2]), e[1])
    if op == "add":
        return ev_pexpr(e[1]) + ev_pexpr(e[2])
    if op == "sub":
        return ev_pexpr(e[1]) - ev_pexpr(e[2])
    if op == "mul":
        return ev_pexpr(e[1]) * ev_pexpr(e[2])
    if op == "neg":
        return -ev_pexpr(e[1])
    if op == "inv":
        return ~ev_pexpr(e[1])
    if op == "scale":
        return ev_pexpr(e[2]) * dec(e[1])
    if op == "rscale":
        return dec(e[1]) * ev_pexpr(e[2])
    if op == "trunc":
        return LPoly.truncate(ev_pexpr(e[1]), e[2], e[3])
    if op == "posh":
        return ev_pexpr(e[1]).pos_half()
    if op == "negh":
        return ev_pexpr(e[1]).neg_half()
    raise RuntimeError("bad pexpr " + str(op))


def ev_gexpr(e):
    from pyqsp.LPoly import LAlg, LPoly
    op = e[0]
    if op == "glit":
        return LAlg(ev_pexpr(e[1]), ev_pexpr(e[2]))
    if op == "gadd":
        return ev_gexpr(e[1]) + ev_gexpr(e[2])
    if op == "gsub":
        return ev_gexpr(e[1]) - ev_gexpr(e[2])
    if op == "gmul":
        return ev_gexpr(e[1]) * ev_gexpr(e[2])
    if op == "gneg":
        return -ev_gexpr(e[1])
    if op == "ginv":
        return ~ev_gexpr(e[1])
    if op == "gaddp":
        return ev_gexpr(e[1]) + ev_pexpr(e[2])
    if op == "gmulp":
        return ev_gexpr(e[1]) * ev_pexpr(e[2])
    if op == "pmulg":
        return ev_pexpr(e[1]) * ev_gexpr(e[2])
    if op == "gscale":
        return ev_gexpr(e[1]) * dec(e[2])
    if op == "gtrunc":
        return LAlg.truncate(ev_gexpr(e[1]), e[2], e[3])
    if op == "grot":
        return LAlg.rotation(dec(e[1]))
    if op == "ggen":
        return LAlg.generator(dec(e[1]))
    if op == "gangles":
        return LAlg.unitary_from_angles(dec(e[1]))
    if op == "gconj":
        return LAlg.unitary_from_conjugations(dec(e[1]))
    raise RuntimeError("bad gexpr " + str(op))


def h_pexpr(c):
    p = ev_pexpr(c["e"])
    r = enc_lpoly(p)
    r["degree"] = int(p.degree)
    r["parity"] = int(p.parity)
    r["dmax"] = int(p.dmax)
    r["norm"] = enc(p.norm)
    r["get"] = [enc(p[k]) for k in c.get("keys", [])]
    if "angles" in c:
        r["eval"] = enc(numpy.asarray(p.eval(numpy.array(dec(c["angles"]))), dtype=complex))
    if c.get("aligned_pad") is not None:
        i, j = c["aligned_pad"]
        try:
            r["aligned_pad"] = enc(numpy.asarray(p.aligned(p.dmin - 2 * i, p.dmax + 2 * j)))
        except Exception:
            r["aligned_pad"] = None
    if c.get("aligned") is not None:
        a, b = c["aligned"]
        r["aligned"] = enc(p.aligned(a, b))
    if c.get("inf_norm"):
        r["inf_norm"] = enc(p.inf_norm)
    if c.get("round_zeros") is not None:
        # on the result object itself, after its norm, values and sup norm have been read (stale caches would show)
        th = dec(c["round_zeros"])
        before = numpy.array(p.coefs, copy=True)
        _ = p.norm
        if th == "default":
            p.round_zeros()
        else:
            p.round_zeros(th)
        r["rounded_from"] = enc(before)
        r["rounded"] = enc(numpy.array(p.coefs))
        r["rounded_norm"] = enc(p.norm)
        r["rounded_eval0"] = enc(numpy.asarray(p.eval(numpy.array([0.0, 0.7])), dtype=complex))
        r["rounded_dmin"] = int(p.dmin)
    return r


def h_preuse(c):
    """a straight-line program over shared LPoly objects: literals are built once, every operation takes earlier objects by
    index and appends its result; returns all results and the final state of the literals (operands must not be modified)"""
    from pyqsp.LPoly import LPoly, LAlg
    objs = [LPoly(dec(l[1]), l[0]) for l in c["lits"]]
    if c.get("alg"):      # pairs of literals become algebra elements
        objs = [LAlg(objs[2 * k], objs[2 * k + 1]) for k in range(len(objs) // 2)]
    nlit = len(objs)
    for op, i, j in c["ops"]:
        a, b = objs[i], objs[j]
        if op == "add":
            objs.append(a + b)
        elif op == "sub":
            objs.append(a - b)
        elif op == "mul":
            objs.append(a * b)
        elif op == "neg":
            objs.append(-a)
        elif op == "inv":
            objs.append(~a)
        else:
            raise RuntimeError("bad op " + op)
    enc1 = enc_lalg if c.get("alg") else enc_lpoly
    return {"results": [enc1(o) for o in objs[nlit:]], "lits_after": [enc1(o) for o in objs[:nlit]]}


def h_gexpr(c):
    from pyqsp.LPoly import LAlg, LPoly
    g = ev_gexpr(c["e"])
    if isinstance(g, LPoly):
        return {"poly": enc_lpoly(g)}
    r = enc_lalg(g)
    r["degree"] = int(g.degree)
    r["norm"] = enc(g.norm)
    r["parity"] = int(g.parity)
    if c.get("unitarity"):
        r["unitarity"] = enc(g.unitarity)
    if c.get("angle"):
        r["angle"] = enc(g.angle)
    if c.get("lr"):
        r["lr"] = enc(g.left_and_right_angles)
    return r


def h_constants(c):
    from pyqsp import LPoly as M
    return {"Id": enc_lpoly(M.Id), "w": enc_lpoly(M.w), "iX": enc_lalg(M.iX)}


def h_from_angles(c):
    from pyqsp.LPoly import LAlg
    ph = dec(c["phases"])
    if c.get("as_int"):
        ph = [int(x) for x in ph] if c["as_int"] == "list" else numpy.array([int(x) for x in ph])
    g = LAlg.unitary_from_angles(ph)
    r = enc_lalg(g)
    r["cs"] = [[enc(numpy.cos(t)), enc(numpy.sin(t))] for t in ph]
    r["unitarity"] = enc(g.unitarity)
    r["degree"] = int(g.degree)
    return r


def h_readout_angle(c):
    from pyqsp.LPoly import LAlg
    return enc(LAlg.rotation(dec(c["t"])).angle)


def h_readout_lr(c):
    from pyqsp.LPoly import LAlg, w
    a, b = dec(c["a"]), dec(c["b"])
    kind = c.get("kind", "prod")
    if kind == "prod":
        g = LAlg.rotation(a) * w * LAlg.rotation(b)
    elif kind == "angles":
        g = LAlg.unitary_from_angles([a, b])
    elif kind == "a_only":      # b = 0: R(a) w, stored with one-term parts
        g = LAlg.rotation(a) * w
    elif kind == "b_only":      # a = 0: w R(b)
        g = w * LAlg.rotation(b)
    elif kind == "trunc":
        g = LAlg.truncate(LAlg.rotation(a) * w * LAlg.rotation(b), -1, 1)
    else:
        raise RuntimeError("bad kind")
    return enc(g.left_and_right_angles)


def h_palias(c):
    """aliasing: evaluate an LPoly history over explicit leaf objects, then mutate the result
    in place (round_zeros with a huge threshold) and report whether any leaf changed"""
    from pyqsp.LPoly import LPoly
    leaves = []

    def ev(e):
        op = e[0]
        if op == "lit":
            p = LPoly(dec(e[2]), e[1])
            leaves.append((p, numpy.array(p.coefs, dtype=float).copy(), int(p.dmin), bool(p.iszero)))
            return p
        if op == "add":
            return ev(e[1]) + ev(e[2])
        if op == "sub":
            return ev(e[1]) - ev(e[2])
        if op == "mul":
            return ev(e[1]) * ev(e[2])
        if op == "neg":
            return -ev(e[1])
        if op == "inv":
            return ~ev(e[1])
        if op == "scale":
            return ev(e[2]) * dec(e[1])
        if op == "rscale":
            return dec(e[1]) * ev(e[2])
        if op == "trunc":
            return LPoly.truncate(ev(e[1]), e[2], e[3])
        if op == "posh":
            return ev(e[1]).pos_half()
        if op == "negh":
            return ev(e[1]).neg_half()
        raise RuntimeError("bad pexpr " + str(op))
    r = ev(c["e"])
    if not r.iszero:
        r.coefs = numpy.array(r.coefs, dtype=float) if not isinstance(r.coefs, numpy.ndarray) else r.coefs
        r.round_zeros(1e300)
    changed = []
    for k, (p, c0, d0, z0) in enumerate(leaves):
        now = numpy.array(p.coefs, dtype=float)
        if now.shape != c0.shape or not numpy.array_equal(now, c0) or int(p.dmin) != d0 or bool(p.iszero) != z0:
            changed.append(k)
    return {"changed": changed, "nleaves": len(leaves)}


HANDLERS = {"pexpr": h_pexpr, "preuse": h_preuse, "gexpr": h_gexpr, "constants": h_constants, "from_angles": h_from_angles,
            "readout_angle": h_readout_angle, "readout_lr": h_readout_lr, "palias": h_palias}

try:
    import impl_handlers2
    HANDLERS.update(impl_handlers2.HANDLERS)
except ImportError:
    pass


def main():
    signal.signal(signal.SIGALRM, _alarm)
    real_out = sys.stdout
    for line in sys.stdin:
        line = line.strip()
        if not line:
            continue
        case = json.loads(line)
        buf = io.StringIO()
        try:
            signal.alarm(int(case.get("timeout", 120)))
            if "npseed" in case:
                numpy.random.seed(case["npseed"])
            with contextlib.redirect_stdout(buf):
                val = HANDLERS[case["fn"]](case)
            signal.alarm(0)
            res = {"ok": val}
            if case.get("want_stdout"):
                res["stdout"] = buf.getvalue()
        except CaseTimeout as e:
            res = {"exc": "CaseTimeout", "msg": str(e)}
        except BaseException as e:  # includes SystemExit, RecursionError
            signal.alarm(0)
            res = {"exc": type(e).__name__, "msg": str(e)[:300]}
            if case.get("want_stdout"):
                res["stdout"] = buf.getvalue()
        real_out.write("@@R " + json.dumps(res) + "\n")
        real_out.flush()


if __name__ == "__main__":
    main()
