"""Source anchors: a fingerprint (docstring- and comment-free AST) of every module of /repo/pyqsp the models were
validated against, pinned in /verif/anchors.json by tools/pin_anchors.py.  When a module a property depends on no longer
matches its pinned fingerprint, the quick tier of that property runs with the thorough generators: a change to the modelled
code is met with the deepest correspondence run available.  (A mismatch is not a violation by itself.)"""
import ast
import hashlib
import json
import os

VERIF = os.path.dirname(os.path.dirname(os.path.abspath(__file__)))
PIN = os.path.join(VERIF, "anchors.json")


def _strip_docstrings(tree):
    for node in ast.walk(tree):
        if isinstance(node, (ast.FunctionDef, ast.AsyncFunctionDef, ast.ClassDef, ast.Module)):
            body = node.body
            if body and isinstance(body[0], ast.Expr) and isinstance(getattr(body[0], "value", None), ast.Constant) \
                    and isinstance(body[0].value.value, str):
                node.body = body[1:] or [ast.Pass()]
    return tree


def fingerprint(path):
    try:
        src = open(path, encoding="utf-8").read()
        tree = _strip_docstrings(ast.parse(src))
        return hashlib.sha256(ast.dump(tree, include_attributes=False).encode()).hexdigest()
    except (OSError, SyntaxError, ValueError) as e:
        return "unparsable:" + type(e).__name__


def modules(repo):
    root = os.path.join(repo, "pyqsp")
    out = {}
    for dp, dn, fn in os.walk(root):
        if os.sep + "test" in dp or "qsp_models" in dp:
            continue
        for f in fn:
            if f.endswith(".py"):
                p = os.path.join(dp, f)
                out[os.path.relpath(p, repo)] = p
    return out


def imports_of(path):
    """names of pyqsp modules imported by the file (static)"""
    try:
        tree = ast.parse(open(path, encoding="utf-8").read())
    except Exception:
        return set()
    names = set()
    for node in ast.walk(tree):
        if isinstance(node, ast.ImportFrom):
            mod = node.module or ""
            if node.level > 0 or mod.startswith("pyqsp"):
                base = mod.split(".")[-1] if mod and mod != "pyqsp" else None
                if base:
                    names.add(base)
                for a in node.names:
                    names.add(a.name)
        elif isinstance(node, ast.Import):
            for a in node.names:
                if a.name.startswith("pyqsp."):
                    names.add(a.name.split(".")[1])
    return names


def closure(repo, files):
    mods = modules(repo)
    byname = {os.path.splitext(os.path.basename(r))[0]: r for r in mods}
    seen, todo = set(), [f for f in files if f in mods]
    while todo:
        f = todo.pop()
        if f in seen:
            continue
        seen.add(f)
        for n in imports_of(mods[f]):
            r = byname.get(n)
            if r and r not in seen:
                todo.append(r)
    return seen


def changed_for(repo, prop_files):
    """modules in the import closure of the property's anchored files whose fingerprint differs from the pinned one"""
    if not os.path.exists(PIN):
        return []
    pin = json.load(open(PIN))["files"]
    mods = modules(repo)
    out = []
    for rel in sorted(closure(repo, prop_files)):
        if pin.get(rel) != fingerprint(mods[rel]):
            out.append(rel)
    for rel in prop_files:
        if rel in pin and rel not in mods:
            out.append(rel + " (missing)")
    return out


def property_files(pid):
    for l in open(os.path.join(VERIF, "properties.jsonl")):
        d = json.loads(l)
        if d["id"] == pid:
            return list(d["anchors"]["files"])
    return []
