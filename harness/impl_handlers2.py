"""Further implementation-side handlers (phase finding, completion, decomposition, response,
conversions, symmetric QSP, generators, fixed-point search, command line).  Runs inside
/venv/bin/python with PYTHONPATH=/repo.  Floats cross as hex strings; nothing here decides a
verdict."""
import contextlib
import io
import json
import math
import sys

import numpy
import numpy as np

from impl_codec import enc, dec, arr, enc_lalg, enc_lpoly  # noqa


class RandintStub:
    """Replaces numpy.random.randint: a call randint(2, size=k) returns the wanted bits
    (cyclically extended); anything else goes to the real function.  Records the sizes."""

    def __init__(self, bits):
        self.bits = list(bits)
        self.calls = []
        self.real = numpy.random.randint

    def __call__(self, *a, **kw):
        if len(a) == 1 and a[0] == 2 and "size" in kw and isinstance(kw["size"], (int, numpy.integer)):
            k = int(kw["size"])
            self.calls.append(k)
            b = self.bits if self.bits else [0]
            return numpy.array([b[i % len(b)] for i in range(k)], dtype=int)
        return self.real(*a, **kw)


@contextlib.contextmanager
def randint_bits(bits):
    if bits is None:
        yield None
        return
    stub = RandintStub(bits)
    old = numpy.random.randint
    numpy.random.randint = stub
    try:
        yield stub
    finally:
        numpy.random.randint = old


@contextlib.contextmanager
def perturb_angseq(delta):
    """fault injection: the phases coming out of the decomposition are shifted by delta at one
    position before the library's own verification sees them"""
    if not delta:
        yield
        return
    import pyqsp.angle_sequence as A
    real = A.angseq

    def bad(g):
        seq = list(real(g))
        seq[len(seq) // 2] = seq[len(seq) // 2] + delta
        return seq
    A.angseq = bad
    try:
        yield
    finally:
        A.angseq = real


def h_qspp(c):
    from pyqsp.angle_sequence import QuantumSignalProcessingPhases
    poly = dec(c["poly"])
    if c.get("complex"):
        poly = numpy.array(poly, dtype=complex)
    elif c.get("as_list"):
        poly = list(poly)
    elif c.get("container") == "intlist":          # Python ints (integer-valued data only)
        poly = [int(x) for x in poly]
    elif c.get("container") == "intarray":
        poly = numpy.array([int(x) for x in poly], dtype=int)
    elif c.get("container") == "floatlist":
        poly = [float(x) for x in poly]
    elif c.get("container") == "polynomial":
        poly = numpy.polynomial.Polynomial(numpy.array(poly, dtype=float))
    else:
        poly = numpy.array(poly, dtype=float)
    kw = {}
    for k in ("eps", "suc", "tolerance"):
        if k in c:
            kw[k] = dec(c[k])
    for k in ("signal_operator", "measurement", "method"):
        if k in c and c[k] is not None:
            kw[k] = c[k]
    _co = lambda q: numpy.array(q.coef if hasattr(q, "coef") else q, copy=True)
    before = _co(poly)
    with randint_bits(c.get("bits")) as stub, perturb_angseq(dec(c["perturb"]) if c.get("perturb") else None):
        phis = QuantumSignalProcessingPhases(poly, **kw)
    out = {"phis": enc(numpy.asarray(phis, dtype=float)) if not isinstance(phis, dict) else "dict",
           "len": len(phis), "randint_sizes": stub.calls if stub else None,
           "arg_unchanged": bool(numpy.array_equal(before, _co(poly), equal_nan=True)),
           "finite": bool(numpy.all(numpy.isfinite(numpy.asarray(phis, dtype=float))))}
    return out


def h_angle_sequence(c):
    from pyqsp.angle_sequence import angle_sequence
    p = dec(c["p"])
    kw = {}
    for k in ("eps", "suc"):
        if k in c:
            kw[k] = dec(c[k])
    with randint_bits(c.get("bits")) as stub, perturb_angseq(dec(c["perturb"]) if c.get("perturb") else None):
        seq = angle_sequence(list(p) if c.get("as_list") else numpy.array(p, dtype=float), **kw)
    return {"phis": enc(numpy.asarray(seq, dtype=float)), "len": len(seq)}


def h_completion(c):
    from pyqsp.completion import completion_from_root_finding
    coefs = dec(c["coefs"])
    if c.get("complex"):
        coefs = numpy.array(coefs, dtype=complex)
        if c.get("dtype"):
            coefs = coefs.astype(getattr(numpy, c["dtype"]))     # the same (exactly representable) values in a single-precision array
    elif c.get("as_list"):
        coefs = [float(x) for x in coefs]
    else:
        coefs = numpy.array(coefs, dtype=float)
    kw = {}
    if "coef_type" in c:
        kw["coef_type"] = c["coef_type"]
    if "tol" in c:
        kw["tol"] = dec(c["tol"])
        if c.get("tol_int"):
            kw["tol"] = int(kw["tol"])
    if c.get("seed") is not None:
        kw["seed"] = list(c["seed"])
        sc = c.get("seed_container", "list")
        if sc == "tuple":
            kw["seed"] = tuple(c["seed"])
        elif sc != "list":
            kw["seed"] = numpy.array(c["seed"], dtype=sc)          # int64 / uint8 / int8 / bool / float64 arrays hold the same 0/1 vector
    before = coefs.copy() if hasattr(coefs, "copy") and not isinstance(coefs, list) else list(coefs)
    with randint_bits(c.get("bits")) as stub:
        g = completion_from_root_finding(coefs, **kw)
    r = enc_lalg(g)
    r["arg_unchanged"] = bool(numpy.array_equal(before, coefs))
    r["xdtype"] = str(numpy.asarray(g.XPoly.coefs).dtype)
    r["idtype"] = str(numpy.asarray(g.IPoly.coefs).dtype)
    return r


def h_roundtrip(c):
    from pyqsp.LPoly import LAlg
    from pyqsp.decomposition import angseq
    phis = dec(c["phases"])
    if c.get("as_int"):
        phis = [int(x) for x in phis] if c["as_int"] == "list" else numpy.array([int(x) for x in phis])     # integer-typed phase vector
    g = LAlg.unitary_from_angles(phis)
    out = angseq(g)
    return {"phis": enc(numpy.asarray(out, dtype=float)), "len": len(out)}


def h_response(c):
    from pyqsp.response import ComputeQSPResponse
    adat = numpy.array(dec(c["adat"]), dtype=float)
    phis = dec(c["phases"])
    if c.get("phis_as_int"):
        phis = [int(x) for x in phis] if c["phis_as_int"] == "list" else numpy.array([int(x) for x in phis])   # integer-typed phases
    elif not c.get("phis_as_list"):
        phis = numpy.array(phis, dtype=float)
    kw = {}
    for k in ("signal_operator", "measurement"):
        if c.get(k) is not None:
            kw[k] = c[k]
    r = ComputeQSPResponse(adat, phis, **kw)
    now = enc(numpy.asarray(r["pdat"], dtype=complex))
    # results of earlier calls in this process are kept alive (as a caller tabulating several responses would) and re-read
    changed = [k for k, (obj, then) in enumerate(_HELD) if enc(numpy.asarray(obj, dtype=complex)) != then]
    _HELD.append((r["pdat"], now))
    del _HELD[:-6]
    return {"pdat": now, "model": list(r["model"]), "held_changed": bool(changed)}


_HELD = []


def h_response_ipoly(c):
    """the identity part of the library's own algebra element of the phases, evaluated by the library at w = e^{i arccos a},
    next to the Wz/z response at the same points"""
    from pyqsp.response import ComputeQSPResponse
    from pyqsp.LPoly import LAlg
    adat = numpy.array(dec(c["adat"]), dtype=float)
    phis = numpy.array(dec(c["phases"]), dtype=float)
    g = LAlg.unitary_from_angles(phis)
    vals = numpy.asarray(g.IPoly.eval(numpy.arccos(adat)), dtype=complex)
    r = ComputeQSPResponse(adat, phis, signal_operator="Wz", measurement="z")
    return {"ipoly": enc(vals), "pdat": enc(numpy.asarray(r["pdat"], dtype=complex))}


def h_bifurc(c):
    """input generation only: members of the C03 real family close to a collision of two real
    roots of 1 - F*~F (a root pair just on / just off the real axis).  Returns monomial
    coefficient lists; the harness re-verifies family membership exactly."""
    from numpy.polynomial import chebyshev as Ch
    from pyqsp.LPoly import LPoly, Id
    from pyqsp.angle_sequence import poly2laurent
    rs = numpy.random.RandomState(c["seed"])
    d = int(c["d"])
    eps, suc = 1e-4, 1 - 1e-4
    idx = list(range(d % 2, d + 1, 2))
    out = []

    def mono(cv):
        return Ch.cheb2poly(cv) if len(cv) > 1 else numpy.array(cv, dtype=float)

    def nreal(cv):
        m = numpy.array(mono(cv), dtype=float)
        m = numpy.concatenate([m, numpy.zeros(d + 1 - len(m))])
        m[d] += eps / 2
        m = suc * m
        lco = poly2laurent(m)
        F = LPoly(lco, -len(lco) + 1)
        r = numpy.roots((Id - (F * ~F)).coefs)
        return int(numpy.sum((numpy.abs(r) < 1) & (numpy.abs(numpy.imag(r)) < 1e-7)))

    for attempt in range(int(c.get("attempts", 12))):
        base = numpy.zeros(d + 1)
        for k in idx:
            base[k] = rs.uniform(-1, 1)
        n1 = numpy.sum(numpy.abs(base))
        base = base / n1 * rs.uniform(0.25, 0.6)
        if abs(base[d]) < 0.15 * numpy.sum(numpy.abs(base)):
            base[d] = numpy.sign(base[d] or 1.0) * 0.2 * numpy.sum(numpy.abs(base))
        j = idx[rs.randint(len(idx))]
        ts = numpy.linspace(-0.25, 0.25, 61)

        def member(t):
            cv = base + t * numpy.eye(d + 1)[j]
            n = numpy.sum(numpy.abs(cv))
            return 0.11 <= n <= 0.88 and abs(cv[d]) >= 0.11 * n
        try:
            counts = [nreal(base + t * numpy.eye(d + 1)[j]) if member(t) else None for t in ts]
        except Exception:
            continue
        for a in range(len(ts) - 1):
            if counts[a] is not None and counts[a + 1] is not None and counts[a] != counts[a + 1]:
                lo, hi, clo = ts[a], ts[a + 1], counts[a]
                for _ in range(60):
                    mid = 0.5 * (lo + hi)
                    if nreal(base + mid * numpy.eye(d + 1)[j]) == clo:
                        lo = mid
                    else:
                        hi = mid
                for off in (0.0, 1e-12, -1e-12, 1e-10, -1e-10, 1e-8, -1e-8, 1e-6, -1e-6):
                    cv = base + (0.5 * (lo + hi) + off) * numpy.eye(d + 1)[j]
                    if c.get("laurent"):
                        # the Laurent list of suc (p + eps/2 x^d), i.e. the F handed to the completion
                        m = numpy.array(mono(cv), dtype=float)
                        m = numpy.concatenate([m, numpy.zeros(d + 1 - len(m))])
                        m[d] += eps / 2
                        out.append(enc(numpy.asarray(poly2laurent(suc * m), dtype=float)))
                    else:
                        out.append(enc(numpy.array(mono(cv), dtype=float)))
                break
        if len(out) >= int(c.get("want", 18)):
            break
    return out


HANDLERS = {"qspp": h_qspp, "c03_bifurc": h_bifurc, "angle_sequence": h_angle_sequence, "completion": h_completion,
            "roundtrip": h_roundtrip, "response": h_response, "response_ipoly": h_response_ipoly}

try:
    import impl_handlers3
    HANDLERS.update(impl_handlers3.HANDLERS)
except ImportError:
    pass
