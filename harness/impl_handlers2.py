"""Further implementation-side handlers (phase finding, completion, decomposition, response,
conversions, symmetric QSP, generators, fixed-point search, command line).  Runs inside
/venv/bin/python with PYTHONPATH=/repo.  Floats cross as hex strings; nothing here decides a
verdict."""
import contextlib
import io
import json
import math
import sys

import numpy
import numpy as np

from impl_codec import enc, dec, arr, enc_lalg, enc_lpoly  # noqa


class RandintStub:
    """Replaces numpy.random.randint: a call randint(2, size=k) returns the wanted bits
    (cyclically extended); anything else goes to the real function.  Records the sizes."""

    def __init__(self, bits):
        self.bits = list(bits)
        self.calls = []
        self.real = numpy.random.randint

    def __call__(self, *a, **kw):
        if len(a) == 1 and a[0] == 2 and "size" in kw and isinstance(kw["size"], (int, numpy.integer)):
            k = int(kw["size"])
            self.calls.append(k)
            b = self.bits if self.bits else [0]
            return numpy.array([b[i % len(b)] for i in range(k)], dtype=int)
        return self.real(*a, **kw)


@contextlib.contextmanager
def randint_bits(bits):
    if bits is None:
        yield None
        return
    stub = RandintStub(bits)
    old = numpy.random.randint
    numpy.random.randint = stub
    try:
        yield stub
    finally:
        numpy.random.randint = old


@contextlib.contextmanager
def perturb_angseq(delta):
    """fault injection: the phases coming out of the decomposition are shifted by delta at one
    position before the library's own verification sees them"""
    if not delta:
        yield
        return
    import pyqsp.angle_sequence as A
    real = A.angseq

    def bad(g):
        seq = list(real(g))
        seq[len(seq) // 2] = seq[len(seq) // 2] + delta
        return seq
    A.angseq = bad
    try:
        yield
    finally:
        A.angseq = real


def h_qspp(c):
    from pyqsp.angle_sequence import QuantumSignalProcessingPhases
    poly = dec(c["poly"])
    if c.get("complex"):
        poly = numpy.array(poly, dtype=complex)
    elif c.get("as_list"):
        poly = list(poly)
    else:
        poly = numpy.array(poly, dtype=float)
    kw = {}
    for k in ("eps", "suc", "tolerance"):
        if k in c:
            kw[k] = dec(c[k])
    for k in ("signal_operator", "measurement", "method"):
        if k in c and c[k] is not None:
            kw[k] = c[k]
    before = numpy.array(poly, copy=True)
    with randint_bits(c.get("bits")) as stub, perturb_angseq(dec(c["perturb"]) if c.get("perturb") else None):
        phis = QuantumSignalProcessingPhases(poly, **kw)
    out = {"phis": enc(numpy.asarray(phis, dtype=float)) if not isinstance(phis, dict) else "dict",
           "len": len(phis), "randint_sizes": stub.calls if stub else None,
           "arg_unchanged": bool(numpy.array_equal(before, numpy.array(poly), equal_nan=True)),
           "finite": bool(numpy.all(numpy.isfinite(numpy.asarray(phis, dtype=float))))}
    return out


def h_angle_sequence(c):
    from pyqsp.angle_sequence import angle_sequence
    p = dec(c["p"])
    kw = {}
    for k in ("eps", "suc"):
        if k in c:
            kw[k] = dec(c[k])
    with randint_bits(c.get("bits")) as stub, perturb_angseq(dec(c["perturb"]) if c.get("perturb") else None):
        seq = angle_sequence(list(p) if c.get("as_list") else numpy.array(p, dtype=float), **kw)
    return {"phis": enc(numpy.asarray(seq, dtype=float)), "len": len(seq)}


def h_completion(c):
    from pyqsp.completion import completion_from_root_finding
    coefs = dec(c["coefs"])
    if c.get("complex"):
        coefs = numpy.array(coefs, dtype=complex)
    else:
        coefs = numpy.array(coefs, dtype=float)
    kw = {}
    if "coef_type" in c:
        kw["coef_type"] = c["coef_type"]
    if "tol" in c:
        kw["tol"] = dec(c["tol"])
    if c.get("seed") is not None:
        kw["seed"] = list(c["seed"])
    before = coefs.copy()
    with randint_bits(c.get("bits")) as stub:
        g = completion_from_root_finding(coefs, **kw)
    r = enc_lalg(g)
    r["arg_unchanged"] = bool(numpy.array_equal(before, coefs))
    r["xdtype"] = str(numpy.asarray(g.XPoly.coefs).dtype)
    r["idtype"] = str(numpy.asarray(g.IPoly.coefs).dtype)
    return r


def h_roundtrip(c):
    from pyqsp.LPoly import LAlg
    from pyqsp.decomposition import angseq
    phis = dec(c["phases"])
    g = LAlg.unitary_from_angles(phis)
    out = angseq(g)
    return {"phis": enc(numpy.asarray(out, dtype=float)), "len": len(out)}


def h_response(c):
    from pyqsp.response import ComputeQSPResponse
    adat = numpy.array(dec(c["adat"]), dtype=float)
    phis = dec(c["phases"])
    if not c.get("phis_as_list"):
        phis = numpy.array(phis, dtype=float)
    kw = {}
    for k in ("signal_operator", "measurement"):
        if c.get(k) is not None:
            kw[k] = c[k]
    r = ComputeQSPResponse(adat, phis, **kw)
    return {"pdat": enc(numpy.asarray(r["pdat"], dtype=complex)), "model": list(r["model"])}


HANDLERS = {"qspp": h_qspp, "angle_sequence": h_angle_sequence, "completion": h_completion,
            "roundtrip": h_roundtrip, "response": h_response}

try:
    import impl_handlers3
    HANDLERS.update(impl_handlers3.HANDLERS)
except ImportError:
    pass
