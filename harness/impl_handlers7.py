"""Implementation-side handlers, part 7: purity, determinism and error classes (C19)."""
import contextlib
import io

import numpy
import numpy as np

from impl_codec import enc, dec, enc_lalg, enc_lpoly  # noqa


def _consts():
    from pyqsp import LPoly as M
    return {"Id": enc_lpoly(M.Id), "w": enc_lpoly(M.w), "iX": enc_lalg(M.iX)}


def _mk(v, cplx=False):
    v = dec(v)
    return numpy.array(v, dtype=complex if cplx else float)


def _run_op(op):
    """returns (result encoding | {'exc': class}, list of (name, before, after) for argument arrays)"""
    name = op["call"]
    args = []
    try:
        if name == "qspp":
            from pyqsp.angle_sequence import QuantumSignalProcessingPhases
            poly = _mk(op["poly"], op.get("complex"))
            cont = op.get("container", "array")
            if cont == "list":
                poly = [complex(x) if op.get("complex") else float(x) for x in poly]
                args.append(("poly", poly, numpy.array(poly)))
            elif cont == "Polynomial":
                # a numpy Polynomial built around the caller's own coefficient array
                poly = numpy.polynomial.Polynomial(poly)
                args.append(("poly.coef", poly.coef, poly.coef.copy()))
            else:
                args.append(("poly", poly, poly.copy()))
            kw = {k: op[k] for k in ("signal_operator", "measurement", "method") if op.get(k) is not None}
            if "tolerance" in op:
                kw["tolerance"] = dec(op["tolerance"])
            res = enc(numpy.asarray(QuantumSignalProcessingPhases(poly, **kw)))
        elif name == "completion":
            from pyqsp.completion import completion_from_root_finding
            coefs = _mk(op["coefs"], op.get("complex"))
            if op.get("as_int"):
                # integer-typed coefficients, as a caller writes [0, -3, 0, 4]
                coefs = [int(x) for x in coefs] if op.get("container") == "list" else coefs.astype(numpy.int64)
            args.append(("coefs", coefs, numpy.array(coefs)))
            kw = {"coef_type": op.get("coef_type", "F")}
            seed = None
            if op.get("seed") is not None:
                sc = op.get("seed_container", "array")
                seed = numpy.array(op["seed"]) if sc == "array" else numpy.array(op["seed"], dtype=bool) if sc == "boolarray" else \
                    list(op["seed"]) if sc == "list" else tuple(op["seed"])
                args.append(("seed", seed, numpy.array(seed)))
                kw["seed"] = seed
            res = enc_lalg(completion_from_root_finding(coefs, **kw))
        elif name == "p2l":
            from pyqsp.angle_sequence import poly2laurent
            p = _mk(op["p"])
            args.append(("pcoefs", p, p.copy()))
            res = enc(numpy.asarray(poly2laurent(p)))
        elif name in ("c2p", "p2c"):
            import pyqsp.completion as C
            v = _mk(op["p"], op.get("complex"))
            args.append(("coefs", v, v.copy()))
            res = enc(numpy.asarray((C.cheb2poly if name == "c2p" else C.poly2cheb)(v, kind=op.get("kind", "T"))))
        elif name == "response":
            from pyqsp.response import ComputeQSPResponse
            ad, ph = _mk(op["adat"]), _mk(op["phases"])
            args += [("adat", ad, ad.copy()), ("phiset", ph, ph.copy())]
            kw = {k: op[k] for k in ("signal_operator", "measurement") if op.get(k) is not None}
            res = enc(numpy.asarray(ComputeQSPResponse(ad, ph, **kw)["pdat"]))
        elif name == "newton":
            from pyqsp.sym_qsp_opt import newton_Solver
            co = _mk(op["coef"])
            args.append(("coef", co, co.copy()))
            ph, err, it, proto = newton_Solver(co, op["parity"])
            res = [enc(numpy.asarray(ph)), enc(float(err)), int(it)]
        elif name == "angle_sequence":
            from pyqsp.angle_sequence import angle_sequence
            p = _mk(op["p"])
            args.append(("p", p, p.copy()))
            res = enc(numpy.asarray(angle_sequence(p, dec(op["eps"]), dec(op["suc"]))))
        elif name == "ptlf":
            from pyqsp.LPoly import PolynomialToLaurentForm
            p = _mk(op["p"])
            args.append(("coefs", p, p.copy()))
            res = enc_lpoly(PolynomialToLaurentForm(p))
        elif name == "roundtrip":
            from pyqsp.LPoly import LAlg
            from pyqsp.decomposition import angseq
            ph = _mk(op["phases"])
            args.append(("phases", ph, ph.copy()))
            res = enc(numpy.asarray(angseq(LAlg.unitary_from_angles(ph))))
        else:
            raise RuntimeError("unknown op " + name)
    except BaseException as e:
        res = {"exc": type(e).__name__, "msg": str(e)[:100]}
    changed = [n for n, now, before in args if numpy.asarray(now).shape != before.shape or numpy.asarray(now).dtype != before.dtype
               or numpy.asarray(now).tobytes() != before.tobytes()]
    return res, changed


def h_purity(c):
    c0 = _consts()
    runs = []
    changed_all = []
    for rep in range(2):
        numpy.random.seed(c["seed"])
        out = []
        for op in c["ops"]:
            with contextlib.redirect_stdout(io.StringIO()):
                res, changed = _run_op(op)
            out.append(res)
            if changed:
                changed_all.append([op["call"], changed])
        runs.append(out)
    return {"run1": runs[0], "run2": runs[1], "args_changed": changed_all, "consts_before": c0, "consts_after": _consts()}


HANDLERS = {"purity": h_purity}
