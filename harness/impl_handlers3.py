"""Implementation-side handlers, part 3: conversions (C11), symmetric QSP (C12, C13),
generators (C14-C17), fixed-point search (C18), purity / errors (C19), command line (C20)."""
import contextlib
import io
import json
import math
import sys

import numpy
import numpy as np

from impl_codec import enc, dec, arr, enc_lalg, enc_lpoly  # noqa


def _vec(c, key="p"):
    v = dec(c[key])
    if c.get("complex"):
        return numpy.array(v, dtype=complex)
    if c.get("as_int") and all(float(x).is_integer() for x in v):
        return numpy.array([int(x) for x in v], dtype=int)
    return numpy.array(v, dtype=float)


def h_p2l(c):
    from pyqsp.angle_sequence import poly2laurent
    p = _vec(c)
    before = p.copy()
    out = poly2laurent(list(p) if c.get("as_list") else p)
    return {"l": enc(numpy.asarray(out)), "arg_unchanged": bool(numpy.array_equal(before, p))}


def h_ptlf(c):
    from pyqsp.LPoly import PolynomialToLaurentForm
    p = _vec(c)
    return enc_lpoly(PolynomialToLaurentForm(list(p) if c.get("as_list") else p))


def h_c2p(c):
    from pyqsp.completion import cheb2poly
    v = _vec(c)
    before = v.copy()
    out = cheb2poly(v, kind=c["kind"])
    return {"out": enc(numpy.asarray(out)), "arg_unchanged": bool(numpy.array_equal(before, v))}


def h_p2c(c):
    from pyqsp.completion import poly2cheb
    v = _vec(c)
    before = v.copy()
    out = poly2cheb(v, kind=c["kind"])
    return {"out": enc(numpy.asarray(out)), "arg_unchanged": bool(numpy.array_equal(before, v))}


HANDLERS = {"p2l": h_p2l, "ptlf": h_ptlf, "c2p": h_c2p, "p2c": h_p2c}

try:
    import impl_handlers4
    HANDLERS.update(impl_handlers4.HANDLERS)
except ImportError:
    pass
