"""Stub of setuptools' pkg_resources (absent from setuptools >= 80) so that pyqsp.main.CommandLine,
which only asks for the package version, can be driven by the checks."""


class _Dist:
    version = "0+verif"


def require(name):
    return [_Dist()]


def get_distribution(name):
    return _Dist()


def resource_filename(*a):
    return ""
