"""Implementation-side handlers, part 6: command line (C20) and purity / error classes (C19)."""
import contextlib
import io
import json

import numpy
import numpy as np

from impl_codec import enc, dec, enc_lalg, enc_lpoly  # noqa


def _coefs_of(poly):
    if hasattr(poly, "coef"):
        return numpy.asarray(poly.coef)
    return numpy.asarray(poly)


def _plain(v):
    if isinstance(v, (numpy.floating, float)):
        return float(v).hex()
    if isinstance(v, (numpy.integer, int)) and not isinstance(v, bool):
        return int(v)
    if isinstance(v, (str, bool)) or v is None:
        return v
    return repr(v)[:60]


def h_cli(c):
    import pyqsp.main as M
    import pyqsp.angle_sequence as A
    import pyqsp.poly as P
    import pyqsp.phases as PH
    calls = []
    real_q = A.QuantumSignalProcessingPhases

    def spy_q(poly, *a, **kw):
        rec = {"what": "qspp", "poly": enc(_coefs_of(poly)), "nargs": len(a), "kw": {k: _plain(v) for k, v in kw.items()}}
        calls.append(rec)
        try:
            res = real_q(poly, *a, **kw)
        except Exception as e:
            rec["raised"] = type(e).__name__
            raise
        rec["result"] = enc(numpy.asarray(res, dtype=float))
        return res
    patched = []
    A.QuantumSignalProcessingPhases = spy_q
    patched.append((A, "QuantumSignalProcessingPhases", real_q))
    # the command line may hold its own reference (from ... import QuantumSignalProcessingPhases): patch every alias in pyqsp.main
    for nm, val in list(vars(M).items()):
        if val is real_q:
            setattr(M, nm, spy_q)
            patched.append((M, nm, real_q))
    classes = [getattr(P, n) for n in dir(P) if n.startswith("Poly") and isinstance(getattr(P, n), type)] + [PH.FPSearch, PH.erf_step]
    depth = [0]
    for cls in classes:
        if "generate" not in cls.__dict__:
            continue
        orig = cls.__dict__["generate"]

        def make(orig, cls):
            def wrapper(self, *a, **kw):
                depth[0] += 1
                try:
                    out = orig(self, *a, **kw)
                finally:
                    depth[0] -= 1
                if depth[0] == 0:
                    o = out[0] if isinstance(out, tuple) else out
                    calls.append({"what": "gen", "cls": cls.__name__, "args": [_plain(x) for x in a], "kw": {k: _plain(v) for k, v in kw.items()},
                                  "out": enc(_coefs_of(o)), "scale": None if not isinstance(out, tuple) else enc(float(numpy.asarray(out[1]).reshape(-1)[0]))})
                return out
            return wrapper
        setattr(cls, "generate", make(orig, cls))
        patched.append((cls, "generate", orig))
    buf = io.StringIO()
    exc = None
    ret = None
    try:
        with contextlib.redirect_stdout(buf):
            try:
                ret = M.CommandLine(arglist=list(c["arglist"]))
            except SystemExit as e:
                exc = "SystemExit"
            except Exception as e:
                exc = type(e).__name__ + ": " + str(e)[:120]
    finally:
        for obj, name, orig in patched:
            setattr(obj, name, orig)
    out = buf.getvalue()
    js = None
    lines = out.strip().split("\n")
    for k, l in enumerate(lines):
        if l.startswith("QSP Phase angles") and k + 1 < len(lines):
            try:
                js = [float(x).hex() for x in json.loads(lines[k + 1])]
            except Exception as e:
                js = "unparsable: " + lines[k + 1][:80]
    return {"ret": None if ret is None else enc(numpy.asarray(ret, dtype=float)), "exc": exc, "calls": calls, "json": js,
            "unknown": "Unknown command" in out, "usage": "usage: pyqsp" in out, "stdout_tail": out[-200:]}


HANDLERS = {"cli": h_cli}

try:
    import impl_handlers7
    HANDLERS.update(impl_handlers7.HANDLERS)
except ImportError:
    pass
